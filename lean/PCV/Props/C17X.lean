/-
C17 — the shape of the defect, for every input.

`Props/C17.lean` refutes the full statement with one witness and proves that a failure detected
by the NAME-collision pass leaves the table untouched.  This file characterises the other kind of
failure for all tables and files: whenever the name check passes, `Symbols.Import` commits the
file's names and records the file as imported BEFORE it registers the extension numbers, and the
extension pass never takes anything back.  So if that pass reports a collision
  * every name of the file is visible afterwards (`ext_pass_failure_commits`), and
  * importing the same file again returns nil and reports nothing
    (`reimport_after_ext_failure_is_silent`) — the opposite of "reports the collision again".
Together with `import_symCollision_unchanged_partial` this decides, for every import of a file
whose dependencies are in place, whether the table changes: it does exactly when the name check
passes (`recorded_iff_check_passed`, stated on the file's record in its package node).
-/
import PCV.Model.Symbols
namespace PCV.Props.C17X
open PCV.Symbols

theorem lookupAssoc_setAssoc_val {α} (k k' : Name) (v : α) (l : List (Name × α)) :
    lookupAssoc k' (setAssoc k v l) = if k == k' then some v else lookupAssoc k' l := by
  induction l with
  | nil =>
    simp only [setAssoc, lookupAssoc]
  | cons x l ih =>
    obtain ⟨a, b⟩ := x
    simp only [setAssoc]
    by_cases hak : (a == k) = true
    · have : a = k := by simpa using hak
      subst this
      simp only [beq_self_eq_true, if_true, lookupAssoc]
      by_cases h : (a == k') = true <;> simp [h]
    · simp only [hak, Bool.false_eq_true, if_false, lookupAssoc, ih]
      by_cases h : (a == k') = true
      · have hk : (k == k') = false := by
          have e : a = k' := by simpa using h
          subst e
          exact beq_eq_false_iff_ne.mpr (fun hh => hak (by simp [hh]))
        simp [h, hk]
      · simp [h]

theorem getNode_setAssoc (t : Table) (p q : Name) (n : Node) :
    getNode (setAssoc p n t) q = if p == q then n else getNode t q := by
  unfold getNode
  rw [lookupAssoc_setAssoc_val]
  by_cases h : (p == q) = true <;> simp [h]

/-- the two tables agree on every node's symbols and imported-file list -/
def SameSF (t t' : Table) : Prop :=
  ∀ q, (getNode t' q).symbols = (getNode t q).symbols ∧ (getNode t' q).files = (getNode t q).files

theorem SameSF.refl (t : Table) : SameSF t t := fun _ => ⟨rfl, rfl⟩

theorem SameSF.trans {a b c : Table} (h₁ : SameSF a b) (h₂ : SameSF b c) : SameSF a c :=
  fun q => ⟨(h₂ q).1.trans (h₁ q).1, (h₂ q).2.trans (h₁ q).2⟩

/-- `AddExtension` touches extension tables only. -/
theorem addExtension_sameSF (t : Table) (h : H) (pkg extendee : Name) (tag : Nat) (path : String) :
    SameSF t (addExtension t h pkg extendee tag path).1 := by
  unfold addExtension
  split
  · exact SameSF.refl t
  · split
    · exact SameSF.refl t
    · rename_i p _
      dsimp only
      split
      · exact SameSF.refl t
      · intro q
        dsimp only
        rw [getNode_setAssoc]
        by_cases hpq : (p == q) = true
        · have : p = q := by simpa using hpq
          subst this
          simp
        · simp [hpq]

/-- … and so does the whole extension pass, however it ends. -/
theorem addExtensions_sameSF (defs : List FileDef) (f : FileDef) :
    ∀ (syms : List (Name × SymKind)) (t : Table) (h : H),
      SameSF t (addExtensions defs f t h syms).1 := by
  intro syms
  induction syms with
  | nil => intro t h; exact SameSF.refl t
  | cons s rest ih =>
    intro t h
    obtain ⟨nm, k⟩ := s
    cases k with
    | ext extendee tag =>
      simp only [addExtensions]
      have h1 := addExtension_sameSF t h ((pkgOf defs f extendee).getD []) extendee tag f.path
      rcases hr : addExtension t h ((pkgOf defs f extendee).getD []) extendee tag f.path with ⟨t', h', ab⟩
      rw [hr] at h1
      simp only
      cases ab with
      | true => simpa using h1
      | false => simpa using SameSF.trans h1 (ih t' h')
    | msg => simpa [addExtensions] using ih t h
    | field => simpa [addExtensions] using ih t h
    | enum => simpa [addExtensions] using ih t h
    | enumValue => simpa [addExtensions] using ih t h
    | other => simpa [addExtensions] using ih t h

/-- **Once the name check passes, the file is committed — whatever the extension pass reports.**
    For a file whose dependencies are in place and whose package is registered: if the check pass
    reports nothing, then after `Import` the package node lists the file as imported and holds
    exactly the symbols `commitFileLocked` wrote, also when `Import` returns an error. -/
theorem ext_pass_failure_commits (defs : List FileDef) (fuel : Nat) (t : Table) (h : H)
    (f : FileDef) (p : Name)
    (hdeps : f.deps = [])
    (hpk : importPackages t h f.path f.pkg = (t, h, some p, false))
    (hnew : (getNode t p).files.contains f.id = false)
    (hab : (checkFile (getNode t p) f h).2 = false)
    (hok : (checkFile (getNode t p) f h).1.failed = false) :
    (getNode (importFile defs (fuel+1) t h f).1 p).files.contains f.id = true ∧
    (getNode (importFile defs (fuel+1) t h f).1 p).symbols = (commitFile (getNode t p) f).symbols := by
  unfold importFile
  simp only [hpk, hnew, hdeps, importDeps, Bool.false_eq_true, ite_false]
  rcases hc : checkFile (getNode t p) f h with ⟨h3, ab⟩
  rw [hc] at hab hok
  simp only at hab hok
  subst hab
  simp only [hok, Bool.or_self, Bool.false_eq_true, ite_false]
  have hs := addExtensions_sameSF defs f f.syms (setAssoc p (commitFile (getNode t p) f) t) h3 p
  rcases hr : addExtensions defs f (setAssoc p (commitFile (getNode t p) f) t) h3 f.syms with ⟨t4, h4, ab4⟩
  rw [hr] at hs
  simp only at hs ⊢
  rw [hs.1, hs.2, getNode_setAssoc]
  simp [commitFile]

/-- **The second import is silent.**  If the first import failed in the extension pass, importing
    the same file again (package still registered) returns nil and reports nothing: the collision
    is NOT reported again. -/
theorem reimport_after_ext_failure_is_silent (defs : List FileDef) (fuel : Nat) (t : Table) (h h' : H)
    (f : FileDef) (p : Name)
    (hdeps : f.deps = [])
    (hpk : importPackages t h f.path f.pkg = (t, h, some p, false))
    (hnew : (getNode t p).files.contains f.id = false)
    (hab : (checkFile (getNode t p) f h).2 = false)
    (hok : (checkFile (getNode t p) f h).1.failed = false)
    (hpk' : importPackages (importFile defs (fuel+1) t h f).1 h' f.path f.pkg
              = ((importFile defs (fuel+1) t h f).1, h', some p, false)) :
    importFile defs (fuel+1) (importFile defs (fuel+1) t h f).1 h' f
      = ((importFile defs (fuel+1) t h f).1, h', .ok) := by
  have hc := (ext_pass_failure_commits defs fuel t h f p hdeps hpk hnew hab hok).1
  generalize (importFile defs (fuel+1) t h f).1 = t1 at hc hpk'
  unfold importFile
  simp only [hpk', hc, ite_true]

/-- a failure of the name check leaves the table as it was (same statement as
    `C17.import_symCollision_unchanged_partial`, table component) -/
theorem unchanged_of_check_failed (defs : List FileDef) (fuel : Nat) (t : Table)
    (h : H) (f : FileDef) (p : Name)
    (hdeps : f.deps = [])
    (hpk : importPackages t h f.path f.pkg = (t, h, some p, false))
    (hnew : (getNode t p).files.contains f.id = false)
    (hchk : (checkFile (getNode t p) f h).2 = true ∨ (checkFile (getNode t p) f h).1.failed = true) :
    (importFile defs (fuel+1) t h f).1 = t := by
  unfold importFile
  simp only [hpk, hnew, hdeps, importDeps, Bool.false_eq_true, ite_false]
  rcases hc : checkFile (getNode t p) f h with ⟨h3, ab⟩
  rw [hc] at hchk
  simp only at hchk
  rcases hchk with rfl | hf
  · simp
  · simp [hf]

/-- **When does a failed import change the table?**  For a file whose dependencies are in place
    and whose package is registered, the file ends up recorded as imported in its package node
    exactly when the name check passed — independently of what `Import` returns. -/
theorem recorded_iff_check_passed (defs : List FileDef) (fuel : Nat) (t : Table) (h : H)
    (f : FileDef) (p : Name)
    (hdeps : f.deps = [])
    (hpk : importPackages t h f.path f.pkg = (t, h, some p, false))
    (hnew : (getNode t p).files.contains f.id = false) :
    (getNode (importFile defs (fuel+1) t h f).1 p).files.contains f.id = true ↔
      ((checkFile (getNode t p) f h).2 = false ∧ (checkFile (getNode t p) f h).1.failed = false) := by
  constructor
  · intro hrec
    by_cases hab : (checkFile (getNode t p) f h).2 = false
    · by_cases hok : (checkFile (getNode t p) f h).1.failed = false
      · exact ⟨hab, hok⟩
      · exfalso
        have hf : (checkFile (getNode t p) f h).1.failed = true := by simpa using hok
        have := (unchanged_of_check_failed defs fuel t h f p hdeps hpk hnew (Or.inr hf))
        rw [this] at hrec
        rw [hnew] at hrec
        cases hrec
    · exfalso
      have ha : (checkFile (getNode t p) f h).2 = true := by simpa using hab
      have := (unchanged_of_check_failed defs fuel t h f p hdeps hpk hnew (Or.inl ha))
      rw [this] at hrec
      rw [hnew] at hrec
      cases hrec
  · intro ⟨hab, hok⟩
    exact (ext_pass_failure_commits defs fuel t h f p hdeps hpk hnew hab hok).1

end PCV.Props.C17X
