/-
C06 (termination half, acyclic graphs): no reachable state of the executor LTS is stuck while a
requested result is missing — for every import graph that admits a rank function (i.e. is
acyclic), every parallelism ≥ 1, every fault plan and every interleaving.
-/
import PCV.Props.C05
namespace PCV.Props.C06T
open PCV.Exec PCV.Props.C07 PCV.Props.C05

def Enabled (w : World) (s : St) : Prop := ∃ e s', step w s e = some s'

/-- pcs in which the task holds a permit for sure -/
def holdPc : Pc → Bool
  | .holding | .resolved | .deps _ | .linking => true
  | _ => false

/-- H: a task that is resolving / parsing / spawning dependencies / linking holds a permit -/
def H (s : St) : Prop := ∀ f t, s.task f = some t → holdPc t.pc = true → t.holds = true

theorem H_step (w : World) (s s' : St) (e : Ev) (hH : H s) (h : step w s e = some s') : H s' := by
  obtain ⟨f, hf⟩ : ∃ f, f = e.file := ⟨_, rfl⟩
  unfold H at *
  cases e <;> simp only [Ev.file] at hf <;> subst hf <;> simp only [step] at h
  all_goals (repeat' split at h)
  all_goals (try (simp at h))
  all_goals (try (obtain ⟨h1, h2⟩ := h))
  all_goals (try subst s')
  all_goals (try (apply pointwise_set (fun _ t => holdPc t.pc = true → t.holds = true) _ _ _ _ _ hH))
  all_goals (try (simp [holdPc]; done))
  all_goals (try (have := hH f _ (by assumption); simp_all [holdPc]; done))
  · intro g tg hg; exact hH g tg hg

theorem H_reachable (w : World) (s : St) (h : Reachable w s) : H s := by
  induction h with
  | init => intro f t h; simp [init, St.task] at h
  | step _ hs ih => exact H_step w _ _ _ ih hs

/-! ### Task table: keys are unique, tasks never disappear -/

def keys (l : List (File × Task)) : List File := l.map (·.1)

theorem keys_setTask_present (f : File) (t : Task) (l : List (File × Task)) (h : (lookupT f l).isSome) :
    keys (setTask f t l) = keys l := by
  induction l with
  | nil => simp [lookupT] at h
  | cons x l ih =>
    obtain ⟨g, u⟩ := x
    rw [setTask_cons]
    by_cases hg : (g == f) = true
    · rw [if_pos hg]; simp [keys]
    · rw [if_neg hg]
      rw [lookupT_cons, if_neg hg] at h
      simp only [keys, List.map_cons] at ih ⊢
      rw [ih h]

theorem keys_setTask_absent (f : File) (t : Task) (l : List (File × Task)) (h : lookupT f l = none) :
    keys (setTask f t l) = keys l ++ [f] := by
  induction l with
  | nil => simp [setTask, keys]
  | cons x l ih =>
    obtain ⟨g, u⟩ := x
    rw [setTask_cons]
    by_cases hg : (g == f) = true
    · rw [lookupT_cons, if_pos hg] at h; cases h
    · rw [if_neg hg]
      rw [lookupT_cons, if_neg hg] at h
      simp only [keys, List.map_cons, List.cons_append] at ih ⊢
      rw [ih h]

theorem lookupT_none_not_mem (f : File) (l : List (File × Task)) (h : lookupT f l = none) : f ∉ keys l := by
  induction l with
  | nil => simp [keys]
  | cons x l ih =>
    obtain ⟨g, u⟩ := x
    by_cases hg : (g == f) = true
    · rw [lookupT_cons, if_pos hg] at h; cases h
    · rw [lookupT_cons, if_neg hg] at h
      have hgf : g ≠ f := by simpa using hg
      simp only [keys, List.map_cons, List.mem_cons, not_or]
      exact ⟨fun hh => hgf hh.symm, ih h⟩

theorem lookupT_of_mem_nodup (l : List (File × Task)) (hn : (keys l).Nodup) (g : File) (t : Task)
    (hm : (g, t) ∈ l) : lookupT g l = some t := by
  induction l with
  | nil => cases hm
  | cons x l ih =>
    obtain ⟨k, u⟩ := x
    simp only [keys, List.map_cons, List.nodup_cons] at hn
    rcases List.mem_cons.mp hm with heq | hmem
    · cases heq; rw [lookupT_cons]; simp
    · have hk : k ≠ g := by
        intro hh; subst hh
        exact hn.1 (List.mem_map.mpr ⟨(k, t), hmem, rfl⟩)
      have : ¬ (k == g) = true := by simpa using hk
      rw [lookupT_cons, if_neg this]
      exact ih hn.2 hmem

def U (s : St) : Prop := (keys s.tasks).Nodup

theorem U_set (s : St) (f : File) (t : Task) (sem' c' : Nat) (hU : U s) :
    U (({ s with sem := sem', clock := c' } : St).set f t) := by
  unfold U St.set at *
  simp only
  cases h : lookupT f s.tasks with
  | none =>
    rw [keys_setTask_absent f t _ h]
    exact List.nodup_append.mpr ⟨hU, by simp, by
      intro a ha b hb hab; simp at hb; subst hb; subst hab
      exact lookupT_none_not_mem _ _ h ha⟩
  | some u => rw [keys_setTask_present f t _ (by simp [h])]; exact hU

theorem U_step (w : World) (s s' : St) (e : Ev) (hU : U s) (h : step w s e = some s') : U s' := by
  cases e <;> simp only [step] at h
  all_goals (repeat' split at h)
  all_goals (try (simp at h))
  all_goals (try (obtain ⟨h1, h2⟩ := h))
  all_goals (try subst s')
  all_goals (first | exact U_set s _ _ _ _ hU | exact hU)

theorem U_reachable (w : World) (s : St) (h : Reachable w s) : U s := by
  induction h with
  | init => simp [U, init, keys]
  | step _ hs ih => exact U_step w _ _ _ ih hs

/-- if some permit is held, some task (found by lookup) holds it -/
theorem exists_holder (s : St) (hU : U s) (h : holders s ≥ 1) :
    ∃ g t, s.task g = some t ∧ t.holds = true := by
  unfold holders holdersL at h
  have : (s.tasks.filter (fun x => x.2.holds)) ≠ [] := by
    intro hh; rw [hh] at h; simp at h
  obtain ⟨x, hx⟩ := List.exists_mem_of_ne_nil _ this
  obtain ⟨hm, hh⟩ := List.mem_filter.mp hx
  exact ⟨x.1, x.2, lookupT_of_mem_nodup s.tasks hU x.1 x.2 hm, hh⟩


/-! ### Progress bookkeeping of the dependency loop -/

theorem task_mono (w : World) (s s' : St) (e : Ev) (d : File) (hd : (s.task d).isSome)
    (h : step w s e = some s') : (s'.task d).isSome := by
  obtain ⟨f, hf⟩ : ∃ f, f = e.file := ⟨_, rfl⟩
  cases e <;> simp only [Ev.file] at hf <;> subst hf <;> simp only [step] at h
  all_goals (repeat' split at h)
  all_goals (try (simp at h))
  all_goals (try (obtain ⟨h1, h2⟩ := h))
  all_goals (try subst s')
  all_goals (try (exact hd))
  all_goals (
    by_cases hdf : d = f
    · subst hdf; simp
    · rw [set_task_other _ _ _ _ hdf]; exact hd)

def Dat (w : World) (S : St) (f : File) (t : Task) : Prop :=
  match t.pc with
  | .deps i => i ≤ (w.imports f).length ∧
      ∀ j, j < i → ∃ d, (w.imports f)[j]? = some d ∧ (S.task d).isSome
  | .waiting i => i ≤ (w.imports f).length ∧
      ∀ j, j < (w.imports f).length → ∃ d, (w.imports f)[j]? = some d ∧ (S.task d).isSome
  | _ => True

def D (w : World) (S : St) : Prop := ∀ f t, S.task f = some t → Dat w S f t

theorem Dat_mono (w : World) (S S' : St) (f : File) (t : Task)
    (hm : ∀ d, (S.task d).isSome → (S'.task d).isSome) (h : Dat w S f t) : Dat w S' f t := by
  unfold Dat at *
  split <;> simp_all <;>
    (intro j hj; obtain ⟨d, h1, h2⟩ := h.2 j hj; exact ⟨d, h1, by simpa using hm d (by simpa using h2)⟩)

theorem D_of_set (w : World) (s : St) (f : File) (t' : Task) (sem' c' : Nat) (hD : D w s)
    (hm : ∀ d, (s.task d).isSome → ((({ s with sem := sem', clock := c' } : St).set f t').task d).isSome)
    (hnew : Dat w (({ s with sem := sem', clock := c' } : St).set f t') f t') :
    D w (({ s with sem := sem', clock := c' } : St).set f t') := by
  intro g tg hg
  by_cases hgf : g = f
  · subst hgf; rw [set_task_same] at hg; cases hg; exact hnew
  · rw [set_task_other _ _ _ _ hgf] at hg
    exact Dat_mono w s _ g tg hm (hD g tg hg)

theorem D_step (w : World) (s s' : St) (e : Ev) (hD : D w s) (h : step w s e = some s') : D w s' := by
  have hm : ∀ d, (s.task d).isSome → (s'.task d).isSome := fun d hd => task_mono w s s' e d hd h
  obtain ⟨f, hf⟩ : ∃ f, f = e.file := ⟨_, rfl⟩
  cases e <;> simp only [Ev.file] at hf <;> subst hf <;> simp only [step] at h
  all_goals (repeat' split at h)
  all_goals (try (simp at h))
  all_goals (try (obtain ⟨h1, h2⟩ := h))
  all_goals (try subst s')
  all_goals (try (refine D_of_set w s f _ _ _ hD hm ?_))
  all_goals (try (simp [Dat]; done))
  · -- dep(f, d): one more dependency compiled
    rename_i d _ t hf _ i hpc hc
    simp only [Bool.and_eq_true, beq_iff_eq, bne_iff_ne] at hc
    have hd := hD f t hf
    simp only [Dat, hpc] at hd
    simp only [Dat]
    obtain ⟨⟨⟨⟨hA, _⟩, hC⟩, _⟩, _⟩ := hc
    have hlt : i < (w.imports f).length := (List.getElem?_eq_some_iff.mp hA).1
    refine ⟨hlt, ?_⟩
    intro j hj
    by_cases hji : j < i
    · obtain ⟨d', h1, h2⟩ := hd.2 j hji
      exact ⟨d', h1, hm d' h2⟩
    · have : j = i := by omega
      subst this
      exact ⟨d, hA, hm d hC⟩
  · -- release at the end of the dependency loop
    rename_i t hf _ _ i hpc hc
    have hi : i = (w.imports f).length := by
      simp only [Bool.and_eq_true, beq_iff_eq] at hc; exact hc.1
    have hd := hD f t hf
    simp only [Dat, hpc] at hd
    simp only [Dat]
    refine ⟨Nat.zero_le _, ?_⟩
    intro j hj
    obtain ⟨d', h1, h2⟩ := hd.2 j (by omega)
    exact ⟨d', h1, hm d' h2⟩
  · -- release of a finished task
    rename_i t hf _ _ ok hpc
    simp [Dat, hpc]
  · -- waited(f, d) ok
    rename_i d _ tf hf _ i hpc hc _ td hd _ hdpc
    simp only [Bool.and_eq_true, beq_iff_eq] at hc
    have hdd := hD f tf hf
    simp only [Dat, hpc] at hdd
    simp only [Dat]
    have hlt : i < (w.imports f).length := (List.getElem?_eq_some_iff.mp hc.1).1
    refine ⟨hlt, ?_⟩
    intro j hj
    obtain ⟨d', h1, h2⟩ := hdd.2 j hj
    exact ⟨d', h1, hm d' h2⟩
  · intro g tg hg
    exact Dat_mono w s _ g tg hm (hD g tg hg)

theorem D_reachable (w : World) (s : St) (h : Reachable w s) : D w s := by
  induction h with
  | init => intro f t h; simp [init, St.task] at h
  | step _ hs ih => exact D_step w _ _ _ ih hs


end PCV.Props.C06T
