/-
C06 (termination half, acyclic graphs): no reachable state of the executor LTS is stuck while a
requested result is missing — for every import graph that admits a rank function (i.e. is
acyclic), every parallelism ≥ 1, every fault plan and every interleaving.
-/
import PCV.Props.C05
namespace PCV.Props.C06T
open PCV.Exec PCV.Props.C07 PCV.Props.C05

def Enabled (w : World) (s : St) : Prop := ∃ e s', step w s e = some s'

/-- pcs in which the task holds a permit for sure -/
def holdPc : Pc → Bool
  | .holding | .resolved | .deps _ | .linking => true
  | _ => false

/-- H: a task that is resolving / parsing / spawning dependencies / linking holds a permit -/
def H (s : St) : Prop := ∀ f t, s.task f = some t → holdPc t.pc = true → t.holds = true

theorem H_step (w : World) (s s' : St) (e : Ev) (hH : H s) (h : step w s e = some s') : H s' := by
  obtain ⟨f, hf⟩ : ∃ f, f = e.file := ⟨_, rfl⟩
  unfold H at *
  cases e <;> simp only [Ev.file] at hf <;> subst hf <;> simp only [step] at h
  all_goals (repeat' split at h)
  all_goals (try (simp at h))
  all_goals (try (obtain ⟨h1, h2⟩ := h))
  all_goals (try subst s')
  all_goals (try (apply pointwise_set (fun _ t => holdPc t.pc = true → t.holds = true) _ _ _ _ hH))
  all_goals (try (simp [holdPc]; done))
  all_goals (try (have := hH f _ (by assumption); simp_all [holdPc]; done))
  · intro g tg hg; exact hH g tg hg

theorem H_reachable (w : World) (s : St) (h : Reachable w s) : H s := by
  induction h with
  | init => intro f t h; simp [init, St.task] at h
  | step _ hs ih => exact H_step w _ _ _ ih hs

/-! ### Task table: keys are unique, tasks never disappear -/

def keys (l : List (File × Task)) : List File := l.map (·.1)

theorem keys_setTask_present (f : File) (t : Task) (l : List (File × Task)) (h : (lookupT f l).isSome) :
    keys (setTask f t l) = keys l := by
  induction l with
  | nil => simp [lookupT] at h
  | cons x l ih =>
    obtain ⟨g, u⟩ := x
    rw [setTask_cons]
    by_cases hg : (g == f) = true
    · rw [if_pos hg]; simp [keys]
    · rw [if_neg hg]
      rw [lookupT_cons, if_neg hg] at h
      simp only [keys, List.map_cons] at ih ⊢
      rw [ih h]

theorem keys_setTask_absent (f : File) (t : Task) (l : List (File × Task)) (h : lookupT f l = none) :
    keys (setTask f t l) = keys l ++ [f] := by
  induction l with
  | nil => simp [setTask, keys]
  | cons x l ih =>
    obtain ⟨g, u⟩ := x
    rw [setTask_cons]
    by_cases hg : (g == f) = true
    · rw [lookupT_cons, if_pos hg] at h; cases h
    · rw [if_neg hg]
      rw [lookupT_cons, if_neg hg] at h
      simp only [keys, List.map_cons, List.cons_append] at ih ⊢
      rw [ih h]

theorem lookupT_none_not_mem (f : File) (l : List (File × Task)) (h : lookupT f l = none) : f ∉ keys l := by
  induction l with
  | nil => simp [keys]
  | cons x l ih =>
    obtain ⟨g, u⟩ := x
    by_cases hg : (g == f) = true
    · rw [lookupT_cons, if_pos hg] at h; cases h
    · rw [lookupT_cons, if_neg hg] at h
      have hgf : g ≠ f := by simpa using hg
      simp only [keys, List.map_cons, List.mem_cons, not_or]
      exact ⟨fun hh => hgf hh.symm, ih h⟩

theorem lookupT_of_mem_nodup (l : List (File × Task)) (hn : (keys l).Nodup) (g : File) (t : Task)
    (hm : (g, t) ∈ l) : lookupT g l = some t := by
  induction l with
  | nil => cases hm
  | cons x l ih =>
    obtain ⟨k, u⟩ := x
    simp only [keys, List.map_cons, List.nodup_cons] at hn
    rcases List.mem_cons.mp hm with heq | hmem
    · cases heq; rw [lookupT_cons]; simp
    · have hk : k ≠ g := by
        intro hh; subst hh
        exact hn.1 (List.mem_map.mpr ⟨(k, t), hmem, rfl⟩)
      have : ¬ (k == g) = true := by simpa using hk
      rw [lookupT_cons, if_neg this]
      exact ih hn.2 hmem

def U (s : St) : Prop := (keys s.tasks).Nodup

theorem U_set (s : St) (f : File) (t : Task) (sem' : Nat) (hU : U s) :
    U (({ s with sem := sem' } : St).set f t) := by
  unfold U St.set at *
  simp only
  cases h : lookupT f s.tasks with
  | none =>
    rw [keys_setTask_absent f t _ h]
    exact List.nodup_append.mpr ⟨hU, by simp, by
      intro a ha b hb hab; simp at hb; subst hb; subst hab
      exact lookupT_none_not_mem _ _ h ha⟩
  | some u => rw [keys_setTask_present f t _ (by simp [h])]; exact hU

theorem U_step (w : World) (s s' : St) (e : Ev) (hU : U s) (h : step w s e = some s') : U s' := by
  cases e <;> simp only [step] at h
  all_goals (repeat' split at h)
  all_goals (try (simp at h))
  all_goals (try (obtain ⟨h1, h2⟩ := h))
  all_goals (try subst s')
  all_goals (first | exact U_set s _ _ _ hU | exact hU)

theorem U_reachable (w : World) (s : St) (h : Reachable w s) : U s := by
  induction h with
  | init => simp [U, init, keys]
  | step _ hs ih => exact U_step w _ _ _ ih hs

/-- if some permit is held, some task (found by lookup) holds it -/
theorem exists_holder (s : St) (hU : U s) (h : holders s ≥ 1) :
    ∃ g t, s.task g = some t ∧ t.holds = true := by
  unfold holders holdersL at h
  have : (s.tasks.filter (fun x => x.2.holds)) ≠ [] := by
    intro hh; rw [hh] at h; simp at h
  obtain ⟨x, hx⟩ := List.exists_mem_of_ne_nil _ this
  obtain ⟨hm, hh⟩ := List.mem_filter.mp hx
  exact ⟨x.1, x.2, lookupT_of_mem_nodup s.tasks hU x.1 x.2 hm, hh⟩


/-! ### Progress bookkeeping of the dependency loop -/

theorem task_mono (w : World) (s s' : St) (e : Ev) (d : File) (hd : (s.task d).isSome)
    (h : step w s e = some s') : (s'.task d).isSome := by
  obtain ⟨f, hf⟩ : ∃ f, f = e.file := ⟨_, rfl⟩
  cases e <;> simp only [Ev.file] at hf <;> subst hf <;> simp only [step] at h
  all_goals (repeat' split at h)
  all_goals (try (simp at h))
  all_goals (try (obtain ⟨h1, h2⟩ := h))
  all_goals (try subst s')
  all_goals (try (exact hd))
  all_goals (
    by_cases hdf : d = f
    · subst hdf; simp
    · rw [set_task_other _ _ _ _ hdf]; exact hd)

def Dat (w : World) (S : St) (f : File) (t : Task) : Prop :=
  match t.pc with
  | .deps i => i ≤ (w.imports f).length ∧
      ∀ j, j < i → ∃ d, (w.imports f)[j]? = some d ∧ (S.task d).isSome
  | .waiting i => i ≤ (w.imports f).length ∧
      ∀ j, j < (w.imports f).length → ∃ d, (w.imports f)[j]? = some d ∧ (S.task d).isSome
  | _ => True

def D (w : World) (S : St) : Prop := ∀ f t, S.task f = some t → Dat w S f t

theorem Dat_mono (w : World) (S S' : St) (f : File) (t : Task)
    (hm : ∀ d, (S.task d).isSome → (S'.task d).isSome) (h : Dat w S f t) : Dat w S' f t := by
  unfold Dat at *
  split <;> simp_all <;>
    (intro j hj; obtain ⟨d, h1, h2⟩ := h.2 j hj; exact ⟨d, h1, by simpa using hm d (by simpa using h2)⟩)

theorem D_of_set (w : World) (s : St) (f : File) (t' : Task) (sem' : Nat) (hD : D w s)
    (hm : ∀ d, (s.task d).isSome → ((({ s with sem := sem' } : St).set f t').task d).isSome)
    (hnew : Dat w (({ s with sem := sem' } : St).set f t') f t') :
    D w (({ s with sem := sem' } : St).set f t') := by
  intro g tg hg
  by_cases hgf : g = f
  · subst hgf; rw [set_task_same] at hg; cases hg; exact hnew
  · rw [set_task_other _ _ _ _ hgf] at hg
    exact Dat_mono w s _ g tg hm (hD g tg hg)

theorem D_step (w : World) (s s' : St) (e : Ev) (hD : D w s) (h : step w s e = some s') : D w s' := by
  have hm : ∀ d, (s.task d).isSome → (s'.task d).isSome := fun d hd => task_mono w s s' e d hd h
  obtain ⟨f, hf⟩ : ∃ f, f = e.file := ⟨_, rfl⟩
  cases e <;> simp only [Ev.file] at hf <;> subst hf <;> simp only [step] at h
  all_goals (repeat' split at h)
  all_goals (try (simp at h))
  all_goals (try (obtain ⟨h1, h2⟩ := h))
  all_goals (try subst s')
  all_goals (try (refine D_of_set w s f _ _ hD hm ?_))
  all_goals (try (simp [Dat]; done))
  · -- dep(f, d): one more dependency compiled
    rename_i d _ t hf _ i hpc hc
    simp only [Bool.and_eq_true, beq_iff_eq, bne_iff_ne] at hc
    have hd := hD f t hf
    simp only [Dat, hpc] at hd
    simp only [Dat]
    have hlt : i < (w.imports f).length := by
      have := hc.1.1.1
      exact (List.getElem?_eq_some_iff.mp this).1
    refine ⟨hlt, ?_⟩
    intro j hj
    by_cases hji : j < i
    · obtain ⟨d', h1, h2⟩ := hd.2 j hji
      exact ⟨d', h1, hm d' h2⟩
    · have : j = i := by omega
      subst this
      exact ⟨d, hc.1.1.1, hm d hc.1.2⟩
  · -- release at the end of the dependency loop
    rename_i t hf _ _ i hpc hc
    have hi : i = (w.imports f).length := by simpa using hc
    have hd := hD f t hf
    simp only [Dat, hpc] at hd
    simp only [Dat]
    refine ⟨Nat.zero_le _, ?_⟩
    intro j hj
    obtain ⟨d', h1, h2⟩ := hd.2 j (by omega)
    exact ⟨d', h1, hm d' h2⟩
  · -- release of a finished task
    rename_i t hf _ _ ok hpc
    simp [Dat, hpc]
  · -- waited(f, d) ok
    rename_i d _ tf hf _ i hpc hc _ td hd _ hdpc
    simp only [Bool.and_eq_true, beq_iff_eq] at hc
    have hdd := hD f tf hf
    simp only [Dat, hpc] at hdd
    simp only [Dat]
    have hlt : i < (w.imports f).length := (List.getElem?_eq_some_iff.mp hc.1).1
    refine ⟨hlt, ?_⟩
    intro j hj
    obtain ⟨d', h1, h2⟩ := hdd.2 j hj
    exact ⟨d', h1, hm d' h2⟩
  · intro g tg hg
    exact Dat_mono w s _ g tg hm (hD g tg hg)

theorem D_reachable (w : World) (s : St) (h : Reachable w s) : D w s := by
  induction h with
  | init => intro f t h; simp [init, St.task] at h
  | step _ hs ih => exact D_step w _ _ _ ih hs


/-! ### Enabledness -/

def Enabled' (w : World) (s : St) : Prop := ∃ e, (step w s e).isSome = true

theorem enabled_of_enabled' (w : World) (s : St) (h : Enabled' w s) : Enabled w s := by
  obtain ⟨e, he⟩ := h
  cases hs : step w s e with
  | none => rw [hs] at he; cases he
  | some s' => exact ⟨e, s', hs⟩

/-- a task that is not waiting for anything has an enabled transition -/
theorem running_enabled (w : World) (s : St) (hcr : s.crashed = false) (hH : H s) (hD : D w s)
    (f : File) (t : Task) (ht : s.task f = some t)
    (hpc : t.pc = .holding ∨ t.pc = .resolved ∨ (∃ i, t.pc = .deps i) ∨ t.pc = .linking ∨
      (∃ c, t.pc = .failing c) ∨ t.pc = .panicking ∨ (∃ b, t.pc = .finished b ∧ t.holds = true)) :
    Enabled' w s := by
  rcases hpc with h | h | ⟨i, h⟩ | h | ⟨c, h⟩ | h | ⟨b, h, hh⟩
  · exact ⟨.resolved f (w.resolveOk f), by simp [step, ht, h, hcr]⟩
  · by_cases himp : (w.imports f).isEmpty = true
    · by_cases hl : w.linkOk f = true
      · exact ⟨.complete f, by simp [step, ht, h, hcr, himp, hl]⟩
      · exact ⟨.fail f, by simp [step, ht, h, hcr, hl]⟩
    · exact ⟨.blocked f (w.imports f), by simp [step, ht, h, hcr, himp]⟩
  · have hd := hD f t ht
    simp only [Dat, h] at hd
    by_cases hi : i = (w.imports f).length
    · have hholds := hH f t ht (by simp [h, holdPc])
      exact ⟨.release f, by simp [step, ht, h, hcr, hholds, hi]⟩
    · have hlt : i < (w.imports f).length := by omega
      obtain ⟨d, hd'⟩ : ∃ d, (w.imports f)[i]? = some d := ⟨(w.imports f)[i], by simp [hlt]⟩
      by_cases hdf : d = f
      · subst hdf; exact ⟨.selfimport d, by simp [step, ht, h, hcr, hd']⟩
      · cases htd : s.task d with
        | none => exact ⟨.spawn d, by simp [step, htd, hcr]⟩
        | some td => exact ⟨.dep f d, by simp [step, ht, h, hcr, hd', hdf, htd]⟩
  · by_cases hl : w.linkOk f = true
    · exact ⟨.complete f, by simp [step, ht, h, hcr, hl]⟩
    · exact ⟨.fail f, by simp [step, ht, h, hcr, hl]⟩
  · exact ⟨.fail f, by simp [step, ht, h, hcr]⟩
  · exact ⟨.recovered f, by simp [step, ht, h, hcr]⟩
  · exact ⟨.release f, by simp [step, ht, h, hcr, hh]⟩


theorem holder_running (s : St) (hJ : J s) (g : File) (tg : Task) (hg : s.task g = some tg)
    (hh : tg.holds = true) :
    tg.pc = .holding ∨ tg.pc = .resolved ∨ (∃ i, tg.pc = .deps i) ∨ tg.pc = .linking ∨
      (∃ c, tg.pc = .failing c) ∨ tg.pc = .panicking ∨ (∃ b, tg.pc = .finished b ∧ tg.holds = true) := by
  have hj := hJ g tg hg
  cases hpc : tg.pc with
  | spawned => simp [hpc, noPermitPc, hh] at hj
  | holding => simp
  | resolved => simp
  | deps i => simp
  | waiting i => simp [hpc, noPermitPc, hh] at hj
  | unblocked => simp [hpc, noPermitPc, hh] at hj
  | linking => simp
  | failing c => simp
  | panicking => simp [hpc, noPermitPc, hh] at hj
  | finished b => simp [hh]

/-- some task can move whenever no permit is free (the holders are never blocked) -/
theorem enabled_when_no_permit (w : World) (hpar : w.par ≥ 1) (s : St) (hr : Reachable w s)
    (hsem : s.sem = 0) : Enabled' w s := by
  have hperm := permits_conserved w s hr
  have hh : holders s ≥ 1 := by omega
  obtain ⟨g, tg, hg, hholds⟩ := exists_holder s (U_reachable w s hr) hh
  exact running_enabled w s (no_double_close w s hr) (H_reachable w s hr) (D_reachable w s hr) g tg hg
    (holder_running s (J_reachable w s hr) g tg hg hholds)

/-- progress: an unfinished task (or one that still has to give its permit back) implies that some
    transition is enabled; by induction on the rank of the file in the acyclic import graph -/
theorem progress (w : World) (hpar : w.par ≥ 1) (rank : File → Nat)
    (hrank : ∀ f d, d ∈ w.imports f → rank d < rank f) (s : St) (hr : Reachable w s) :
    ∀ n f t, rank f < n → s.task f = some t → isFinished s f = false → Enabled' w s := by
  have hcr := no_double_close w s hr
  have hH := H_reachable w s hr
  have hD := D_reachable w s hr
  intro n
  induction n with
  | zero => intro f t hn; omega
  | succ n ih =>
    intro f t hn ht hnf
    by_cases hsem : s.sem = 0
    · exact enabled_when_no_permit w hpar s hr hsem
    have hpos : s.sem > 0 := by omega
    cases hpc : t.pc with
    | spawned => exact ⟨.acquire f, by simp [step, ht, hpc, hcr, hpos]⟩
    | holding => exact running_enabled w s hcr hH hD f t ht (by simp [hpc])
    | resolved => exact running_enabled w s hcr hH hD f t ht (by simp [hpc])
    | deps i => exact running_enabled w s hcr hH hD f t ht (by simp [hpc])
    | linking => exact running_enabled w s hcr hH hD f t ht (by simp [hpc])
    | failing c => exact running_enabled w s hcr hH hD f t ht (by simp [hpc])
    | panicking => exact running_enabled w s hcr hH hD f t ht (by simp [hpc])
    | unblocked => exact ⟨.reacquire f, by simp [step, ht, hpc, hcr, hpos]⟩
    | finished b =>
      have : isFinished s f = true := (isFinished_iff s f).mpr ⟨t, b, ht, hpc⟩
      rw [this] at hnf; cases hnf
    | waiting i =>
      have hd := hD f t ht
      simp only [Dat, hpc] at hd
      by_cases hi : i = (w.imports f).length
      · exact ⟨.unblocked f, by simp [step, ht, hpc, hcr, hi]⟩
      · have hlt : i < (w.imports f).length := by omega
        obtain ⟨d, hdi, hdt⟩ := hd.2 i hlt
        cases htd : s.task d with
        | none => rw [htd] at hdt; cases hdt
        | some td =>
          cases hfd : isFinished s d with
          | true =>
            obtain ⟨td', b, h1, h2⟩ := (isFinished_iff s d).mp hfd
            rw [htd] at h1; cases h1
            cases b with
            | true => exact ⟨.waited f d, by simp [step, ht, hpc, hcr, hdi, htd, h2]⟩
            | false => exact ⟨.waited f d, by simp [step, ht, hpc, hcr, hdi, htd, h2]⟩
          | false =>
            have hmem : d ∈ w.imports f := List.mem_of_getElem? hdi
            have := hrank f d hmem
            exact ih d td (by omega) htd hfd

/-- **C06 (no deadlock on acyclic import graphs).** For every import graph that admits a rank
    function (acyclic), every parallelism ≥ 1, every fault plan and every reachable state: as long
    as the result of some requested file is not ready, some transition is enabled. -/
theorem acyclic_no_stuck_state (w : World) (hpar : w.par ≥ 1) (rank : File → Nat)
    (hrank : ∀ f d, d ∈ w.imports f → rank d < rank f) (s : St) (hr : Reachable w s)
    (r : File) (hnf : isFinished s r = false) : Enabled w s := by
  apply enabled_of_enabled'
  cases ht : s.task r with
  | none => exact ⟨.spawn r, by simp [step, ht, no_double_close w s hr]⟩
  | some t => exact progress w hpar rank hrank s hr (rank r + 1) r t (by omega) ht hnf

end PCV.Props.C06T

#print axioms PCV.Props.C06T.acyclic_no_stuck_state
#print axioms PCV.Props.C06T.running_enabled
