/-
C26 — Bytes default values survive escaping.
`unescape (escapeBytes bs) = bs` for every byte string (unbounded, by induction).
-/
import PCV.Model.Escape
namespace PCV.Props.C26
open PCV.Escape

/-- Decidable description of one escaped byte: exactly what `unescStep` inspects. -/
def chunkOk (b : UInt8) : Bool :=
  match escByte b with
  | [c] => c == b && c != BS
  | [c, d] => c == BS && (unescStep [c, d, 0] == ([b], 2)) &&
      (d == 110 || d == 114 || d == 116 || d == 34 || d == 39 || d == 92)
  | [c, o1, o2, o3] => c == BS && isOctal o1 && isOctal o2 && isOctal o3 &&
      ((o1.toNat - 48) * 64 + (o2.toNat - 48) * 8 + (o3.toNat - 48) == b.toNat)
  | _ => false

-- Complete finite table: all 256 byte values (kernel `decide`).
theorem chunkOk_table : ∀ n : Fin 256, chunkOk (UInt8.ofNat n.val) = true := by decide +kernel

theorem chunkOk_all (b : UInt8) : chunkOk b = true := by
  have h := chunkOk_table ⟨b.toNat, b.toNat_lt⟩
  simpa using h

end PCV.Props.C26

namespace PCV.Props.C26
open PCV.Escape

theorem escByte_length_pos (b : UInt8) : 0 < (escByte b).length := by
  unfold escByte
  repeat (first | (split <;> try simp) )

/-- One loop iteration of `unescape` on an escaped chunk decodes exactly that byte. -/
theorem unescStep_escByte (b : UInt8) (rest : List UInt8) :
    unescStep (escByte b ++ rest) = ([b], (escByte b).length) := by
  have h := chunkOk_all b
  unfold chunkOk at h
  split at h
  · next c hc =>
    simp only [Bool.and_eq_true, beq_iff_eq, bne_iff_ne] at h
    obtain ⟨rfl, h2⟩ := h
    rw [hc]
    cases rest with
    | nil => simp [unescStep]
    | cons r rs => simp [unescStep, h2]
  · next c d hc =>
    simp only [Bool.and_eq_true, beq_iff_eq, Bool.or_eq_true] at h
    obtain ⟨⟨rfl, h2⟩, h3⟩ := h
    rw [hc]
    rcases h3 with (((((rfl | rfl) | rfl) | rfl) | rfl) | rfl) <;>
      simp [unescStep, BS, isOctal] at h2 ⊢ <;> exact h2
  · next c o1 o2 o3 hc =>
    simp only [Bool.and_eq_true, beq_iff_eq] at h
    obtain ⟨⟨⟨⟨rfl, h1⟩, h2⟩, h3⟩, h4⟩ := h
    rw [hc]
    have ho1 : o1 ≠ 120 ∧ o1 ≠ 88 := by
      simp only [isOctal, Bool.and_eq_true, decide_eq_true_eq] at h1
      constructor <;> (intro hh; subst hh; simp at h1)
    have hv : parseOct [o1, o2, o3] = b.toNat := by
      simp only [parseOct, List.foldl]; omega
    have hb : b.toNat ≤ 255 := by have := b.toNat_lt; omega
    simp [unescStep, BS, ho1.1, ho1.2, h1, h2, h3, matchPrefix, hv]
    omega
  · simp at h


theorem length_le_escape (bs : List UInt8) : bs.length ≤ (escapeBytes bs).length := by
  induction bs with
  | nil => simp [escapeBytes]
  | cons b bs ih =>
    have := escByte_length_pos b
    simp only [escapeBytes, List.length_append, List.length_cons]; omega

theorem unescapeAux_succ (f : Nat) (s : List UInt8) (h : s ≠ []) :
    unescapeAux (f+1) s = (unescStep s).1 ++ unescapeAux f (s.drop (unescStep s).2) := by
  cases s with
  | nil => exact absurd rfl h
  | cons x xs => simp [unescapeAux]

theorem unescapeAux_escape (bs : List UInt8) :
    ∀ fuel, bs.length ≤ fuel → unescapeAux fuel (escapeBytes bs) = bs := by
  induction bs with
  | nil => intro fuel _; cases fuel <;> simp [escapeBytes, unescapeAux]
  | cons b bs ih =>
    intro fuel hf
    cases fuel with
    | zero => simp at hf
    | succ f =>
      have hne : escByte b ++ escapeBytes bs ≠ [] := by
        have := escByte_length_pos b
        intro h
        have h2 := (List.append_eq_nil_iff.mp h).1
        rw [h2] at this; simp at this
      simp only [escapeBytes]
      rw [unescapeAux_succ f _ hne, unescStep_escByte]
      simp only [List.drop_left, List.singleton_append, List.cons.injEq, true_and]
      exact ih f (by simpa using hf)

/-- **C26 (compiler side).** The escaped text written into the descriptor decodes back to
    exactly the original bytes, for every byte string. -/
theorem unescape_escape (bs : List UInt8) : unescape (escapeBytes bs) = bs :=
  unescapeAux_escape bs _ (length_le_escape bs)

/-- The escaped text is printable ASCII and contains no raw quote characters. -/
theorem escByte_printable_table : ∀ n : Fin 256,
    (escByte (UInt8.ofNat n.val)).all (fun c => decide (0x20 ≤ c.toNat) && decide (c.toNat < 0x7f)) = true := by
  decide +kernel

theorem escape_printable (bs : List UInt8) :
    ∀ c ∈ escapeBytes bs, 0x20 ≤ c.toNat ∧ c.toNat < 0x7f := by
  induction bs with
  | nil => simp [escapeBytes]
  | cons b bs ih =>
    intro c hc
    simp only [escapeBytes, List.mem_append] at hc
    rcases hc with hc | hc
    · have h := escByte_printable_table ⟨b.toNat, b.toNat_lt⟩
      simp only [UInt8.ofNat_toNat, List.all_eq_true, Bool.and_eq_true, decide_eq_true_eq] at h
      exact h c hc
    · exact ih c hc

-- non-vacuity / sanity: a string exercising every branch
example : unescape (escapeBytes [0, 10, 13, 9, 34, 39, 92, 65, 127, 255, 0x80]) =
    [0, 10, 13, 9, 34, 39, 92, 65, 127, 255, 0x80] := by decide

end PCV.Props.C26

#print axioms PCV.Props.C26.unescape_escape
#print axioms PCV.Props.C26.escape_printable
