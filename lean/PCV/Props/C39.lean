/-
C39 — Decimal to float conversion is correctly rounded.

Model: `PCV.Model.Decimal` (`Decimal.Parse`, `Decimal.Float64`, `pow5`, the tables, as
the Go code is today).  Specification: `rne N D s`, IEEE-754 binary64
round-to-nearest-even of the exact rational `N·2^s/D`, defined with `Nat` arithmetic.
The hardware float operations are a parameter `A : Arith`; theorems assume
`A.IEEE` (each of `float64(uint64)`, `*`, `/`, `math.Ldexp` returns `rne` of the exact
result) as an explicit hypothesis.

The full statement `C39_full` is FALSE of the current code; it is kept as a `def`,
refuted with concrete witnesses, and the strongest partial results are proved:
the fast path is correct exactly in Clinger's range (`fastpath_correct`), the tables
are correct (`pow5s_ok`; entry 23 was repaired by /repo commit 26681def), the `exact` flag is sound for non-negative exponents in
that range.  `fixed_correct` proves that the repaired algorithm `float64Fixed` (the patch
proposed to the maintainers) satisfies the full statement.
-/
import PCV.Lemmas.Decimal
namespace PCV.Props.C39
open PCV.Decimal

/-! ## Statements -/

/-- `Float64` returns the correctly rounded magnitude of the decimal's exact value. -/
def correctlyRounded (A : Arith) (z : Dec) : Prop :=
  (float64 A z).1 = rne (z.value A).1 (z.value A).2.1 (z.value A).2.2

/-- the float `f` is exactly the rational `N·2^s / D` -/
def isExactly : F → Nat → Nat → Int → Prop
  | .fin m q, N, D, s => m * D * 2 ^ (q - s).toNat = N * 2 ^ (s - q).toNat
  | .inf, _, _, _ => False

instance (f : F) (N D : Nat) (s : Int) : Decidable (isExactly f N D s) := by
  cases f <;> unfold isExactly <;> infer_instance

/-- "The reported exactness is true only when no rounding happened." -/
@[irreducible] def exactSound (A : Arith) (z : Dec) : Prop :=
  (float64 A z).2 = true →
    isExactly (float64 A z).1 (z.value A).1 (z.value A).2.1 (z.value A).2.2

/-- **C39 at full strength** (for every parsed numeral, with IEEE hardware). -/
def C39_full : Prop := ∀ z : Dec, correctlyRounded ieee z ∧ exactSound ieee z

/-! ## Tables (complete finite tables, kernel-decided) -/

theorem pow5s_table : ∀ i : Fin 32, pow5s i.val = rne (5 ^ i.val) 1 0 := by
  decide +kernel

/-- every entry of `pow5s` is the correctly rounded power of five.  (Before /repo commit
    26681def entry 23 held `1e07/0x1p07 = 5^7`; this theorem was then false at `i = 23` and
    `1e23` converted to `6.5536e11`.) -/
theorem pow5s_ok (i : Nat) (h : i < 32) : pow5s i = rne (5 ^ i) 1 0 :=
  pow5s_table ⟨i, h⟩

theorem pow5s32_table : ∀ k : Fin 10, pow5s32 k.val = rne (5 ^ (32 * k.val)) 1 0 := by
  decide +kernel

theorem pow5s32neg_table : ∀ k : Fin 11, pow5s32neg k.val = rne 1 (5 ^ (32 * k.val)) 0 := by
  decide +kernel

theorem pow5s32_ok (k : Nat) (h : k < 10) : pow5s32 k = rne (5 ^ (32 * k)) 1 0 :=
  pow5s32_table ⟨k, h⟩

theorem pow5s32neg_ok (k : Nat) (h : k < 11) : pow5s32neg k = rne 1 (5 ^ (32 * k)) 0 :=
  pow5s32neg_table ⟨k, h⟩

/-! ## The fast path in Clinger's range -/

theorem five_pow_le (n : Nat) (hn : n ≤ 22) : 5 ^ n ≤ 2 ^ 52 :=
  Nat.le_trans (Nat.pow_le_pow_right (by decide) hn) (by decide)

theorem one_entry : pow5s32 0 = .fin (2 ^ 52) (-52) ∧ pow5s32neg 0 = .fin (2 ^ 52) (-52) := by
  decide +kernel

/-- multiplying by the table's `1.0` changes nothing -/
theorem mul_one_entry (A : Arith) (hA : A.IEEE) (w m0 : Nat) (q0 : Int)
    (h0 : rne w 1 0 = .fin m0 q0) (hv : valEq m0 q0 w) :
    A.mul (.fin m0 q0) (.fin (2 ^ 52) (-52)) = .fin m0 q0 := by
  rw [hA.mul, rne_valEq_num m0 w (2 ^ 52) 1 q0 (-52) hv, rne_mul_num, ← h0]
  congr 1

theorem fastpath_pos (A : Arith) (hA : A.IEEE) (w n : Nat)
    (hw0 : w ≠ 0) (hw : w ≤ 2 ^ 53) (hn1 : 1 ≤ n) (hn : n ≤ 22) :
    A.ldexp (pow5 A (A.ofU64 w) n) n = rne (w * 10 ^ n) 1 0 := by
  obtain ⟨m0, q0, h0, hv0⟩ := rne_nat_exact w hw0 hw
  have h5 : 5 ^ n ≤ 2 ^ 52 := five_pow_le n hn
  have h5pos : 5 ^ n ≠ 0 := Nat.ne_of_gt (Nat.pow_pos (by decide))
  obtain ⟨mt, qt, ht, hvt⟩ := rne_nat_exact (5 ^ n) h5pos (Nat.le_trans h5 (by decide))
  have htab : pow5s n = .fin mt qt := by rw [pow5s_ok n (by omega), ht]
  -- pow5
  have hp : pow5 A (A.ofU64 w) n = rne (5 ^ n * w) 1 0 := by
    unfold pow5
    have c1 : (0 ≤ (n : Int) ∧ (n : Int) ≤ 309) := by omega
    have e1 : (n : Int).toNat / 32 = 0 := by omega
    have e2 : (n : Int).toNat % 32 = n := by omega
    simp only [c1, and_self, if_true, e1, e2]
    rw [hA.ofU64, h0, one_entry.1, mul_one_entry A hA w m0 q0 h0 hv0, htab, hA.mul,
      rne_valEq_num m0 w mt 1 q0 qt hv0, Nat.mul_comm w mt]
    have := rne_valEq_num mt (5 ^ n) w 1 qt 0 hvt
    simpa using this
  rw [hp]
  -- the product is a normal float
  have hP0 : 5 ^ n * w ≠ 0 := Nat.mul_ne_zero h5pos hw0
  have hPlt : 5 ^ n * w < 2 ^ 106 := by
    have : 5 ^ n * w ≤ 2 ^ 52 * 2 ^ 53 := Nat.mul_le_mul h5 hw
    have e : (2:Nat) ^ 52 * 2 ^ 53 < 2 ^ 106 := by decide
    omega
  have hk : flog2 (5 ^ n * w) 1 = ((5 ^ n * w).log2 : Int) := flog2_one _ hP0
  have hkl : (5 ^ n * w).log2 < 106 := (Nat.log2_lt hP0).2 hPlt
  obtain ⟨m2, q2, h2, hm2a, hm2b, hq2⟩ :=
    rne_normal_range (5 ^ n * w) 1 0 hP0 (by decide) (by omega) (by omega)
  rw [h2, hA.ldexp, rne_fixed m2 (q2 + n) hm2a hm2b (by omega) (by omega)]
  -- right-hand side
  have e10 : w * 10 ^ n = 5 ^ n * w * 2 ^ n := by
    have : (10:Nat) ^ n = 5 ^ n * 2 ^ n := by rw [← Nat.mul_pow]
    rw [this, ← Nat.mul_assoc, Nat.mul_comm w]
  rw [e10, rne_mul_num]
  exact (rne_shift (5 ^ n * w) 1 0 n m2 q2 hP0 (by omega) (by omega) (by omega) (by omega) h2).symm

theorem fastpath_neg (A : Arith) (hA : A.IEEE) (w n : Nat)
    (hw0 : w ≠ 0) (hw : w ≤ 2 ^ 53) (hn1 : 1 ≤ n) (hn : n ≤ 22) :
    A.ldexp (pow5 A (A.ofU64 w) (-(n : Int))) (-(n : Int)) = rne w (10 ^ n) 0 := by
  obtain ⟨m0, q0, h0, hv0⟩ := rne_nat_exact w hw0 hw
  have h5 : 5 ^ n ≤ 2 ^ 52 := five_pow_le n hn
  have h5pos : 5 ^ n ≠ 0 := Nat.ne_of_gt (Nat.pow_pos (by decide))
  obtain ⟨mt, qt, ht, hvt⟩ := rne_nat_exact (5 ^ n) h5pos (Nat.le_trans h5 (by decide))
  have htab : pow5s n = .fin mt qt := by rw [pow5s_ok n (by omega), ht]
  have hmt : mt ≠ 0 := by
    intro h; subst h
    unfold valEq at hvt
    have := Nat.mul_ne_zero h5pos (Nat.ne_of_gt (two_pow_pos' (-qt).toNat))
    simp at hvt; omega
  have hp : pow5 A (A.ofU64 w) (-(n : Int)) = rne w (5 ^ n) 0 := by
    unfold pow5
    have c1 : ¬ (0 ≤ -(n : Int) ∧ -(n : Int) ≤ 309) := by omega
    have c2 : (-324 ≤ -(n : Int) ∧ -(n : Int) ≤ 0) := by omega
    have e1 : (- -(n : Int)).toNat / 32 = 0 := by omega
    have e2 : (- -(n : Int)).toNat % 32 = n := by omega
    simp only [c1, c2, and_self, if_true, if_false, e1, e2]
    rw [hA.ofU64, h0, one_entry.2, mul_one_entry A hA w m0 q0 h0 hv0, htab, hA.div _ _ _ _ hmt]
    have s1 := rne_valEq_num m0 w 1 mt q0 (-qt) hv0
    simp only [Nat.mul_one] at s1
    have e3 : q0 - qt = q0 + -qt := by omega
    rw [e3, s1]
    have s2 := rne_valEq_den mt (5 ^ n) w qt 0 hmt h5pos hvt
    have e4 : (0:Int) - qt = -qt := by omega
    rw [e4] at s2
    exact s2
  rw [hp]
  have hwl : w.log2 < 54 := by
    have : (2:Nat) ^ 53 < 2 ^ 54 := by decide
    exact (Nat.log2_lt hw0).2 (by omega)
  have h5l : (5 ^ n).log2 < 53 := by
    have : (2:Nat) ^ 52 < 2 ^ 53 := by decide
    exact (Nat.log2_lt h5pos).2 (by omega)
  have hb := flog2_bounds w (5 ^ n)
  obtain ⟨m2, q2, h2, hm2a, hm2b, hq2⟩ :=
    rne_normal_range w (5 ^ n) 0 hw0 h5pos (by omega) (by omega)
  rw [h2, hA.ldexp, rne_fixed m2 (q2 + -(n:Int)) hm2a hm2b (by omega) (by omega)]
  have e10 : (10:Nat) ^ n = 5 ^ n * 2 ^ n := by rw [← Nat.mul_pow]
  rw [e10, rne_mul_den _ _ _ _ h5pos]
  have e5 : (0:Int) - (n:Int) = 0 + -(n:Int) := by omega
  rw [e5]
  exact (rne_shift w (5 ^ n) 0 (-(n:Int)) m2 q2 hw0 (by omega) (by omega) (by omega) (by omega) h2).symm


/-! ## `Float64` on the three provable regions -/

theorem rne_finite_num (N : Nat) (hN : N ≠ 0) (h : N < 2 ^ 200) : (rne N 1 0).finite = true := by
  have hk : flog2 N 1 = (N.log2 : Int) := flog2_one _ hN
  have hl : N.log2 < 200 := (Nat.log2_lt hN).2 h
  obtain ⟨m, q, h2, _⟩ := rne_normal_range N 1 0 hN (by decide) (by omega) (by omega)
  rw [h2]; rfl

/-- **Fast path, Clinger's range.**  For a base-10 decimal with integer mantissa
    `0 < w ≤ 2^53` and exponent `0 < |e| ≤ 22`, `Float64` (one table lookup, one multiplication
    or division, one `Ldexp`) returns the correctly rounded value, and reports `exact`. -/
theorem fastpath_correct (A : Arith) (hA : A.IEEE) (z : Dec) (hb : z.base2 = false)
    (hw0 : z.w ≠ 0) (hw : z.w ≤ 2 ^ 53)
    (he0 : z.exp - z.digits A ≠ 0) (he1 : -22 ≤ z.exp - z.digits A) (he2 : z.exp - z.digits A ≤ 22) :
    correctlyRounded A z ∧ (float64 A z).2 = true := by
  have hw64 : z.w < 2 ^ 64 := by
    have : (2:Nat) ^ 53 < 2 ^ 64 := by decide
    omega
  unfold correctlyRounded Dec.value float64
  simp only [hw0, if_false, hw64, if_true, hw, decide_true, he0, hb, Bool.not_false,
    Bool.false_eq_true]
  generalize z.exp - z.digits A = e at he0 he1 he2
  rcases Int.lt_or_gt_of_ne he0 with hneg | hpos
  · -- e < 0
    have hn : e = -((-e).toNat : Int) := by omega
    have c : ¬ (0 ≤ e) := by omega
    simp only [c, if_false]
    rw [hn, fastpath_neg A hA z.w (-e).toNat hw0 hw (by omega) (by omega)]
    have e3 : (- -((-e).toNat : Int)).toNat = (-e).toNat := by omega
    rw [e3]
    refine ⟨rfl, ?_⟩
    -- finiteness
    have h10 : (10:Nat) ^ (-e).toNat ≠ 0 := Nat.ne_of_gt (Nat.pow_pos (by decide))
    have h10b : (10:Nat) ^ (-e).toNat ≤ 10 ^ 22 := Nat.pow_le_pow_right (by decide) (by omega)
    have h10l : ((10:Nat) ^ (-e).toNat).log2 < 74 := by
      have : (10:Nat) ^ 22 < 2 ^ 74 := by decide
      exact (Nat.log2_lt h10).2 (by omega)
    have hwl : z.w.log2 < 54 := by
      have : (2:Nat) ^ 53 < 2 ^ 54 := by decide
      exact (Nat.log2_lt hw0).2 (by omega)
    have hb2 := flog2_bounds z.w (10 ^ (-e).toNat)
    obtain ⟨m, q, h2, _⟩ :=
      rne_normal_range z.w (10 ^ (-e).toNat) 0 hw0 h10 (by omega) (by omega)
    rw [h2]; rfl
  · have hn : e = (e.toNat : Int) := by omega
    have c : 0 ≤ e := by omega
    simp only [c, if_true]
    rw [hn, fastpath_pos A hA z.w e.toNat hw0 hw (by omega) (by omega)]
    have e3 : ((e.toNat : Int)).toNat = e.toNat := by omega
    rw [e3]
    refine ⟨rfl, ?_⟩
    apply rne_finite_num
    · exact Nat.mul_ne_zero hw0 (Nat.ne_of_gt (Nat.pow_pos (by decide)))
    · have h10b : (10:Nat) ^ e.toNat ≤ 10 ^ 22 := Nat.pow_le_pow_right (by decide) (by omega)
      have : z.w * 10 ^ e.toNat ≤ 2 ^ 53 * 10 ^ 22 := Nat.mul_le_mul hw h10b
      have e : (2:Nat) ^ 53 * 10 ^ 22 < 2 ^ 200 := by decide
      omega


/-- Integers below 2^64 (`e = 0`): one `uint64 → float64` conversion, correctly rounded. -/
theorem int_correct (A : Arith) (hA : A.IEEE) (z : Dec) (hw0 : z.w ≠ 0) (hw : z.w < 2 ^ 64)
    (he0 : z.exp - z.digits A = 0) : correctlyRounded A z := by
  unfold correctlyRounded Dec.value float64
  simp only [hw0, if_false, hw, if_true, he0]
  rw [hA.ofU64]
  cases z.base2 <;> simp

/-- Binary (hex) numerals with at most 53 significant bits: `Ldexp` rounds once. -/
theorem base2_small_correct (A : Arith) (hA : A.IEEE) (z : Dec) (hb : z.base2 = true)
    (hw0 : z.w ≠ 0) (hw : z.w ≤ 2 ^ 53) : correctlyRounded A z := by
  have hw64 : z.w < 2 ^ 64 := by
    have : (2:Nat) ^ 53 < 2 ^ 64 := by decide
    omega
  by_cases he0 : z.exp - z.digits A = 0
  · exact int_correct A hA z hw0 hw64 he0
  · unfold correctlyRounded Dec.value float64
    simp only [hw0, if_false, hw64, if_true, hw, decide_true, he0, hb, Bool.not_true,
      Bool.false_eq_true]
    obtain ⟨m0, q0, h0, hv0⟩ := rne_nat_exact z.w hw0 hw
    rw [hA.ofU64, h0, hA.ldexp]
    have := rne_valEq_num m0 z.w 1 1 q0 (z.exp - z.digits A) hv0
    simpa using this

/-- Long base-10 mantissas go to `strconv.ParseFloat`, modelled (assumed) as `rneDec`;
    the flag is `false`. -/
theorem slowpath_base10 (A : Arith) (z : Dec) (hb : z.base2 = false) (hw0 : z.w ≠ 0)
    (h : 2 ^ 64 ≤ z.w ∨ (2 ^ 53 < z.w ∧ z.exp - z.digits A ≠ 0)) :
    float64 A z = (rneDec z.w (z.exp - z.digits A), false) := by
  unfold float64
  simp only [hw0, if_false, hb, Bool.false_eq_true]
  rcases h with h | ⟨h1, h2⟩
  · have : ¬ z.w < 2 ^ 64 := by omega
    simp only [this, if_false]
  · have h3 : ¬ z.w ≤ 2 ^ 53 := by omega
    by_cases h64 : z.w < 2 ^ 64
    · simp only [h64, if_true, h2, if_false, h3, decide_false, Bool.false_eq_true]
    · simp only [h64, if_false]

/-! ## The `exact` flag -/

/-- The flag is what the code computes: mantissa `≤ 2^53` (on the fast path) and finite
    result — it never looks at whether the power of ten could be applied exactly. -/
theorem exact_flag_char (A : Arith) (z : Dec) (hw0 : z.w ≠ 0) :
    (float64 A z).2 = (decide (z.w ≤ 2 ^ 53) && (float64 A z).1.finite) := by
  unfold float64
  simp only [hw0, if_false]
  by_cases h64 : z.w < 2 ^ 64
  · simp only [h64, if_true]
    by_cases he : z.exp - z.digits A = 0
    · simp only [he, if_true]
    · simp only [he, if_false]
      by_cases h53 : z.w ≤ 2 ^ 53
      · simp only [h53, decide_true, if_true, Bool.true_and]
      · simp only [h53, decide_false, Bool.false_eq_true, if_false, Bool.false_and]
        split <;> rfl
  · have : ¬ z.w ≤ 2 ^ 53 := by
      have : (2:Nat) ^ 53 < 2 ^ 64 := by decide
      omega
    simp only [h64, if_false, this, decide_false, Bool.false_and]
    split <;> rfl

/-- **Exact flag, sound part.**  Base 10, `0 ≤ e ≤ 22` and `w·5^e ≤ 2^53` (the value is an
    integer multiple of a power of two that fits the significand): the flag is `true` and
    the result is exactly `w·10^e`. -/
theorem exact_sound_partial (A : Arith) (hA : A.IEEE) (z : Dec) (hb : z.base2 = false)
    (hw0 : z.w ≠ 0) (he1 : 0 ≤ z.exp - z.digits A) (he2 : z.exp - z.digits A ≤ 22)
    (hfit : z.w * 5 ^ (z.exp - z.digits A).toNat ≤ 2 ^ 53) :
    (float64 A z).2 = true ∧
      isExactly (float64 A z).1 (z.value A).1 (z.value A).2.1 (z.value A).2.2 := by
  have h5pos : ∀ n : Nat, 5 ^ n ≠ 0 := fun n => Nat.ne_of_gt (Nat.pow_pos (by decide))
  have hw : z.w ≤ 2 ^ 53 := by
    have : z.w * 1 ≤ z.w * 5 ^ (z.exp - z.digits A).toNat :=
      Nat.mul_le_mul_left _ (Nat.pos_of_ne_zero (h5pos _))
    omega
  have hw64 : z.w < 2 ^ 64 := by
    have : (2:Nat) ^ 53 < 2 ^ 64 := by decide
    omega
  -- the value as a float
  have hc0 : z.w * 5 ^ (z.exp - z.digits A).toNat ≠ 0 := Nat.mul_ne_zero hw0 (h5pos _)
  obtain ⟨m, q, hr, hv⟩ := rne_nat_exact _ hc0 hfit
  have hcr : (float64 A z).1 = rne (z.w * 10 ^ (z.exp - z.digits A).toNat) 1 0 ∧ (float64 A z).2 = true := by
    by_cases he0 : z.exp - z.digits A = 0
    · have := int_correct A hA z hw0 hw64 he0
      unfold correctlyRounded Dec.value at this
      simp only [hb, Bool.false_eq_true, if_false, he1, if_true] at this
      refine ⟨this, ?_⟩
      rw [exact_flag_char A z hw0, this, he0]
      simp only [hw, decide_true, Bool.true_and]
      exact rne_finite_num _ (by simpa using hw0) (by
        have : (2:Nat) ^ 53 < 2 ^ 200 := by decide
        simp; omega)
    · have := fastpath_correct A hA z hb hw0 hw he0 (by omega) he2
      unfold correctlyRounded Dec.value at this
      simp only [hb, Bool.false_eq_true, if_false, he1, if_true] at this
      exact this
  refine ⟨hcr.2, ?_⟩
  unfold Dec.value
  simp only [hb, Bool.false_eq_true, if_false, he1, if_true]
  rw [hcr.1]
  have hn22 : (z.exp - z.digits A).toNat ≤ 22 := by omega
  generalize (z.exp - z.digits A).toNat = n at *
  have e10 : z.w * 10 ^ n = z.w * 5 ^ n * 2 ^ n := by
    have : (10:Nat) ^ n = 5 ^ n * 2 ^ n := by rw [← Nat.mul_pow]
    rw [this, Nat.mul_assoc]
  rw [e10, rne_mul_num]
  -- shift the exact float by n
  have hk : flog2 (z.w * 5 ^ n) 1 = ((z.w * 5 ^ n).log2 : Int) := flog2_one _ hc0
  have hl : (z.w * 5 ^ n).log2 < 54 := by
    have : (2:Nat) ^ 53 < 2 ^ 54 := by decide
    exact (Nat.log2_lt hc0).2 (by omega)
  have hn : (n : Int) ≤ 22 := by omega
  have hs := rne_shift (z.w * 5 ^ n) 1 0 n m q hc0 (by omega) (by omega) (by omega) (by omega) hr
  rw [hs]
  simp only [isExactly]
  unfold valEq at hv
  have := pow_cancel m (z.w * 5 ^ n) q.toNat (-q).toNat (q + n - 0).toNat (n + (0 - (q + n)).toNat) hv (by omega)
  rw [Nat.mul_one, this, Nat.pow_add]
  simp only [Nat.mul_assoc]


/-! ## The proposed repair (see the report), proved correct

`float64Fixed` is `Float64` with the patch applied: the float fast path only in Clinger's
range, every other base-10 case and every long binary mantissa through
`strconv.ParseFloat` (assumed correctly rounded: `rneDec` / `rne`), and an `exact` flag
decided by integer arithmetic (`w·5^e ≤ 2^53`, `5^-e ∣ w`, `e ≥ -1074`). -/

def float64Fixed (A : Arith) (z : Dec) : F × Bool :=
  if z.w = 0 then (F.zero, true)
  else
    let e := z.exp - z.digits A
    let slow : F × Bool :=
      if z.base2 then (rne z.w 1 e, false) else (rneDec z.w e, false)
    if z.w < 2 ^ 64 then
      let v := A.ofU64 z.w
      let small := decide (z.w ≤ 2 ^ 53)
      if e = 0 then (v, small && v.finite)
      else if small && z.base2 then
        let r := A.ldexp v e
        (r, decide (-1074 ≤ e) && r.finite)
      else if small && decide (-22 ≤ e) && decide (e ≤ 22) then
        let ex := if 0 < e then decide (z.w * 5 ^ e.toNat ≤ 2 ^ 53)
                  else decide (z.w % 5 ^ (-e).toNat = 0)
        let r := A.ldexp (pow5 A v e) e
        (r, ex && r.finite)
      else slow
    else slow

theorem exact_int (w m : Nat) (q : Int) (hw0 : w ≠ 0) (hw : w ≤ 2 ^ 53)
    (h : rne w 1 0 = .fin m q) : isExactly (.fin m q) w 1 0 := by
  have := rne_pow2_exact w 0 m q hw0 hw (by decide) h
  simpa [isExactly] using this

theorem exact_base2 (w m : Nat) (e q : Int) (hw0 : w ≠ 0) (hw : w ≤ 2 ^ 53) (he : -1074 ≤ e)
    (h : rne w 1 e = .fin m q) : isExactly (.fin m q) w 1 e := by
  have := rne_pow2_exact w e m q hw0 hw he h
  simpa [isExactly] using this

theorem exact_pos (w n m : Nat) (q : Int) (hw0 : w ≠ 0) (hfit : w * 5 ^ n ≤ 2 ^ 53)
    (h : rne (w * 10 ^ n) 1 0 = .fin m q) : isExactly (.fin m q) (w * 10 ^ n) 1 0 := by
  have hc0 : w * 5 ^ n ≠ 0 := Nat.mul_ne_zero hw0 (Nat.ne_of_gt (Nat.pow_pos (by decide)))
  have e10 : w * 10 ^ n = w * 5 ^ n * 2 ^ n := by
    have : (10:Nat) ^ n = 5 ^ n * 2 ^ n := by rw [← Nat.mul_pow]
    rw [this, Nat.mul_assoc]
  rw [e10, rne_mul_num] at h
  have := rne_pow2_exact (w * 5 ^ n) (0 + n) m q hc0 hfit (by omega) h
  have k := pow_cancel m (w * 5 ^ n) (q - (0 + (n:Int))).toNat ((0 + (n:Int)) - q).toNat
    (q - 0).toNat (n + (0 - q).toNat) this (by omega)
  simp only [isExactly, Nat.mul_one]
  rw [k, e10, Nat.pow_add]
  simp only [Nat.mul_assoc]

theorem exact_neg (w n m : Nat) (q : Int) (hw0 : w ≠ 0) (hw : w ≤ 2 ^ 53) (hn : n ≤ 1074)
    (hdiv : w % 5 ^ n = 0) (h : rne w (10 ^ n) 0 = .fin m q) :
    isExactly (.fin m q) w (10 ^ n) 0 := by
  have h5 : 5 ^ n ≠ 0 := Nat.ne_of_gt (Nat.pow_pos (by decide))
  have hw' : w = w / 5 ^ n * 5 ^ n := (Nat.div_mul_cancel (Nat.dvd_of_mod_eq_zero hdiv)).symm
  generalize w / 5 ^ n = c at hw'
  subst hw'
  have hc0 : c ≠ 0 := by
    intro h0; subst h0; simp at hw0
  have hc : c ≤ 2 ^ 53 := by
    have : c * 1 ≤ c * 5 ^ n := Nat.mul_le_mul_left _ (Nat.pos_of_ne_zero h5)
    omega
  have e10 : (10:Nat) ^ n = 5 ^ n * 2 ^ n := by rw [← Nat.mul_pow]
  rw [e10, rne_mul_den _ _ _ _ h5] at h
  have h' : rne (c * 5 ^ n) (1 * 5 ^ n) (0 - (n:Int)) = .fin m q := by rw [Nat.one_mul]; exact h
  rw [rne_mul_common c 1 (5 ^ n) _ (by decide) h5] at h'
  have := rne_pow2_exact c (0 - (n:Int)) m q hc0 hc (by omega) h'
  have k := pow_cancel m c (q - (0 - (n:Int))).toNat ((0 - (n:Int)) - q).toNat
    (n + (q - 0).toNat) ((0 - q).toNat) this (by omega)
  simp only [isExactly]
  rw [e10]
  calc m * (5 ^ n * 2 ^ n) * 2 ^ (q - 0).toNat
      = m * 2 ^ (n + (q - 0).toNat) * 5 ^ n := by
        rw [Nat.pow_add]; ac_rfl
    _ = c * 2 ^ (0 - q).toNat * 5 ^ n := by rw [k]
    _ = c * 5 ^ n * 2 ^ (0 - q).toNat := by ac_rfl

theorem finite_fin (f : F) (h : f.finite = true) : ∃ m q, f = .fin m q := by
  cases f with
  | fin m q => exact ⟨m, q, rfl⟩
  | inf => simp [F.finite] at h

/-- **The repaired `Float64` satisfies C39** (given IEEE hardware and a correctly rounding
    `strconv.ParseFloat`): the result is the correctly rounded value of the decimal, and
    `exact = true` implies that the result *is* the value. -/
theorem fixed_correct (A : Arith) (hA : A.IEEE) (z : Dec) :
    (float64Fixed A z).1 = rne (z.value A).1 (z.value A).2.1 (z.value A).2.2 ∧
    ((float64Fixed A z).2 = true →
      isExactly (float64Fixed A z).1 (z.value A).1 (z.value A).2.1 (z.value A).2.2) := by
  have h10 : ∀ n : Nat, 10 ^ n ≠ 0 := fun n => Nat.ne_of_gt (Nat.pow_pos (by decide))
  unfold float64Fixed Dec.value
  generalize z.exp - z.digits A = e
  by_cases hw0 : z.w = 0
  · simp only [hw0, if_true]
    cases z.base2 <;> simp [rne, F.zero, isExactly] <;> split <;> simp
  · simp only [hw0, if_false]
    have hslow1 : ((if z.base2 = true then (rne z.w 1 e, false) else (rneDec z.w e, false)) : F × Bool).1
          = rne (if z.base2 = true then (z.w, 1, e) else
              if 0 ≤ e then (z.w * 10 ^ e.toNat, 1, 0) else (z.w, 10 ^ (-e).toNat, 0)).1
            (if z.base2 = true then (z.w, 1, e) else
              if 0 ≤ e then (z.w * 10 ^ e.toNat, 1, 0) else (z.w, 10 ^ (-e).toNat, 0)).2.1
            (if z.base2 = true then (z.w, 1, e) else
              if 0 ≤ e then (z.w * 10 ^ e.toNat, 1, 0) else (z.w, 10 ^ (-e).toNat, 0)).2.2 := by
      cases z.base2
      · simp only [Bool.false_eq_true, if_false, rneDec_eq z.w e hw0]
        split <;> rfl
      · rfl
    have hslow2 : ((if z.base2 = true then (rne z.w 1 e, false) else (rneDec z.w e, false)) : F × Bool).2
        = false := by
      cases z.base2 <;> rfl
    have hslow := And.intro hslow1 hslow2
    by_cases h64 : z.w < 2 ^ 64
    · simp only [h64, if_true]
      by_cases he : e = 0
      · -- integers
        subst he
        simp only [if_true, hA.ofU64]
        have hv : rne (if z.base2 = true then (z.w, 1, (0:Int)) else
              if (0:Int) ≤ 0 then (z.w * 10 ^ (0:Int).toNat, 1, 0) else (z.w, 10 ^ (-(0:Int)).toNat, 0)).1
            (if z.base2 = true then (z.w, 1, (0:Int)) else
              if (0:Int) ≤ 0 then (z.w * 10 ^ (0:Int).toNat, 1, 0) else (z.w, 10 ^ (-(0:Int)).toNat, 0)).2.1
            (if z.base2 = true then (z.w, 1, (0:Int)) else
              if (0:Int) ≤ 0 then (z.w * 10 ^ (0:Int).toNat, 1, 0) else (z.w, 10 ^ (-(0:Int)).toNat, 0)).2.2
            = rne z.w 1 0 := by cases z.base2 <;> simp
        refine ⟨hv.symm, ?_⟩
        intro hflag
        simp only [Bool.and_eq_true, decide_eq_true_eq] at hflag
        obtain ⟨m, q, hmq⟩ := finite_fin _ hflag.2
        rw [hmq]
        have := exact_int z.w m q hw0 hflag.1 hmq
        cases z.base2 <;> simpa using this
      · simp only [he, if_false]
        by_cases hs : z.w ≤ 2 ^ 53
        · simp only [hs, decide_true, Bool.true_and]
          cases hb : z.base2
          · -- base 10
            simp only [Bool.false_eq_true, if_false]
            by_cases hr : -22 ≤ e ∧ e ≤ 22
            · simp only [hr.1, hr.2, decide_true, Bool.and_self, if_true]
              rcases Int.lt_or_gt_of_ne he with hneg | hpos
              · have hn : e = -((-e).toNat : Int) := by omega
                have c1 : ¬ (0 < e) := by omega
                have c2 : ¬ (0 ≤ e) := by omega
                simp only [c1, c2, if_false]
                have hfp := fastpath_neg A hA z.w (-e).toNat hw0 hs (by omega) (by omega)
                rw [← hn] at hfp
                refine ⟨hfp, ?_⟩
                intro hflag
                simp only [Bool.and_eq_true, decide_eq_true_eq] at hflag
                obtain ⟨m, q, hmq⟩ := finite_fin _ hflag.2
                rw [hmq]
                rw [hfp] at hmq
                exact exact_neg z.w (-e).toNat m q hw0 hs (by omega) hflag.1 hmq
              · have hn : e = (e.toNat : Int) := by omega
                have c1 : 0 < e := by omega
                have c2 : 0 ≤ e := by omega
                simp only [c1, c2, if_true]
                have hfp := fastpath_pos A hA z.w e.toNat hw0 hs (by omega) (by omega)
                rw [← hn] at hfp
                refine ⟨hfp, ?_⟩
                intro hflag
                simp only [Bool.and_eq_true, decide_eq_true_eq] at hflag
                obtain ⟨m, q, hmq⟩ := finite_fin _ hflag.2
                rw [hmq]
                rw [hfp] at hmq
                exact exact_pos z.w e.toNat m q hw0 hflag.1 hmq
            · have c : (decide (-22 ≤ e) && decide (e ≤ 22)) = false := by
                simp only [Bool.and_eq_false_iff, decide_eq_false_iff_not]; omega
              simp only [c, Bool.false_eq_true, if_false]
              rw [hb] at hslow1
              simp only [Bool.false_eq_true, if_false] at hslow1
              refine ⟨hslow1, ?_⟩
              intro hflag; exact hflag.elim
          · -- base 2, at most 53 bits
            simp only [if_true]
            obtain ⟨m0, q0, h0, hv0⟩ := rne_nat_exact z.w hw0 hs
            have hval : A.ldexp (A.ofU64 z.w) e = rne z.w 1 e := by
              rw [hA.ofU64, h0, hA.ldexp]
              have := rne_valEq_num m0 z.w 1 1 q0 e hv0
              simpa using this
            refine ⟨hval, ?_⟩
            intro hflag
            simp only [Bool.and_eq_true, decide_eq_true_eq] at hflag
            obtain ⟨m, q, hmq⟩ := finite_fin _ hflag.2
            rw [hmq]
            rw [hval] at hmq
            exact exact_base2 z.w m e q hw0 hs hflag.1 hmq
        · simp only [hs, decide_false, Bool.false_and, Bool.false_eq_true, if_false]
          refine ⟨hslow.1, ?_⟩
          intro hflag; rw [hslow.2] at hflag; cases hflag
    · simp only [h64, if_false]
      refine ⟨hslow.1, ?_⟩
      intro hflag; rw [hslow.2] at hflag; cases hflag

/-! ## Refutation of the full statement (concrete witnesses, evaluated by the kernel) -/

/-- `1e-24`: the first power of ten outside Clinger's range (`5^24 > 2^53`) -/
def d1em24 : Dec := { neg := false, base2 := false, w := 1, exp := -23 }
/-- `49e-325` = `4.9e-324` -/
def d49em325 : Dec := { neg := false, base2 := false, w := 49, exp := -323 }
/-- `0.1` -/
def d0p1 : Dec := { neg := false, base2 := false, w := 1, exp := 0 }
/-- `0x1.00000000000018p0` (54 significant bits, an exact tie) -/
def dHexTie : Dec := { neg := false, base2 := true, w := 0x20000000000003, exp := 1 }
/-- `0x1p-1075` -/
def dHexTiny : Dec := { neg := false, base2 := true, w := 1, exp := -1074 }

/-- two roundings (inexact `5^24`, then the division) give the wrong neighbour for `1e-24` -/
theorem wrong_1em24 : (float64 ieee d1em24).1.toBits = 0x3AF357C299A88EA8 ∧
    (rne 1 (10 ^ 24) 0).toBits = 0x3AF357C299A88EA7 ∧ ¬ correctlyRounded ieee d1em24 := by
  unfold correctlyRounded; decide +kernel

/-- `4.9e-324 ↦ 0` (should be the least subnormal), and the flag still says exact -/
theorem wrong_49em325 : float64 ieee d49em325 = (F.zero, true) ∧
    (rne 49 (10 ^ 325) 0).toBits = 1 ∧ ¬ correctlyRounded ieee d49em325 := by
  unfold correctlyRounded; decide +kernel

/-- `0.1` is reported exact although it was rounded -/
theorem wrong_exact_0p1 : (float64 ieee d0p1).2 = true ∧ correctlyRounded ieee d0p1 ∧
    ¬ exactSound ieee d0p1 := by
  unfold correctlyRounded exactSound; decide +kernel

/-- long binary mantissas are truncated instead of rounded -/
theorem wrong_hex_tie : (float64 ieee dHexTie).1.toBits = 0x3FF0000000000001 ∧
    (rne 0x20000000000003 1 (-53)).toBits = 0x3FF0000000000002 ∧ ¬ correctlyRounded ieee dHexTie := by
  unfold correctlyRounded; decide +kernel

theorem hex_tiny_result : float64 ieee dHexTiny = (F.zero, true) := by decide +kernel

-- `0x1p-1075 ↦ 0` with `exact = true`
set_option exponentiation.threshold 2000 in
set_option maxRecDepth 100000 in
theorem wrong_exact_hex_tiny : ¬ exactSound ieee dHexTiny := by
  unfold exactSound
  rw [hex_tiny_result]
  decide +kernel

/-- **C39 is false of the current code.** -/
theorem C39_full_refuted : ¬ C39_full := fun h => wrong_1em24.2.2 (h d1em24).1

/-- already for mantissa 1 (any exponent outside `[-22, 22]` can double-round; the tables are
    correct, `pow5s_ok`) … -/
theorem C39_refuted_mantissa_one : ¬ (∀ z : Dec, z.w = 1 → correctlyRounded ieee z) :=
  fun h => wrong_1em24.2.2 (h d1em24 rfl)

/-- … and the exactness clause fails on its own -/
theorem C39_exact_refuted : ¬ (∀ z : Dec, exactSound ieee z) :=
  fun h => absurd (h d0p1) wrong_exact_0p1.2.2

/-! ## Non-vacuity -/

theorem ieee_IEEE : ieee.IEEE :=
  { ofU64 := fun _ => rfl, mul := fun _ _ _ _ => rfl,
    div := fun _ _ m2 _ h => by simp [ieee, divE, h],
    ldexp := fun _ _ _ => rfl }

/-- `123e5` satisfies the hypotheses of `fastpath_correct` (with the IEEE instance) -/
example : correctlyRounded ieee { neg := false, base2 := false, w := 123, exp := 8 } ∧
    (float64 ieee { neg := false, base2 := false, w := 123, exp := 8 }).1.toBits = 0x416775DC00000000 :=
  ⟨(fastpath_correct ieee ieee_IEEE _ rfl (by decide) (by decide) (by decide +kernel)
      (by decide +kernel) (by decide +kernel)).1, by decide +kernel⟩

/-- `0.001` (negative exponent) -/
example : correctlyRounded ieee { neg := false, base2 := false, w := 1, exp := -2 } :=
  (fastpath_correct ieee ieee_IEEE _ rfl (by decide) (by decide) (by decide +kernel)
      (by decide +kernel) (by decide +kernel)).1

end PCV.Props.C39

#print axioms PCV.Props.C39.fastpath_correct
#print axioms PCV.Props.C39.fastpath_pos
#print axioms PCV.Props.C39.fastpath_neg
#print axioms PCV.Props.C39.int_correct
#print axioms PCV.Props.C39.base2_small_correct
#print axioms PCV.Props.C39.slowpath_base10
#print axioms PCV.Props.C39.exact_flag_char
#print axioms PCV.Props.C39.exact_sound_partial
#print axioms PCV.Props.C39.pow5s_ok
#print axioms PCV.Props.C39.pow5s32_ok
#print axioms PCV.Props.C39.pow5s32neg_ok
#print axioms PCV.Props.C39.C39_full_refuted
#print axioms PCV.Props.C39.C39_refuted_mantissa_one
#print axioms PCV.Props.C39.C39_exact_refuted
#print axioms PCV.Props.C39.wrong_49em325
#print axioms PCV.Props.C39.wrong_hex_tie
#print axioms PCV.Props.C39.wrong_exact_hex_tiny
#print axioms PCV.Props.C39.ieee_IEEE
#print axioms PCV.Props.C39.fixed_correct
#print axioms PCV.Decimal.rdiv_nearest
#print axioms PCV.Decimal.rne_eq_rneRaw
#print axioms PCV.Decimal.rneDec_eq
#print axioms PCV.Decimal.flog2_lower
#print axioms PCV.Decimal.flog2_upper
