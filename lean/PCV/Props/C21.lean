/-
C21 — Lenient and unlinked interpretation agree with strict interpretation.

Model: `PCV.Options.runElem` with `Mode.lenient` / `Mode.linked` (PCV/Model/Options.lean).
strict = ⟨false, true⟩ (InterpretOptions), lenient = ⟨true, true⟩ (InterpretOptionsLenient),
unlinked = ⟨true, false⟩ (InterpretUnlinkedOptions).
-/
import PCV.Model.Options
namespace PCV.Props.C21
open PCV.Options

def strict : Mode := ⟨false, true⟩
def lenient : Mode := ⟨true, true⟩
def unlinked : Mode := ⟨true, false⟩

/-! ## lenient = strict when strict succeeds -/

theorem optLoop_lenient_of_strict (cx : Cx) (isField custom : Bool) (mi : Nat) :
    ∀ (stmts : List (Nat × Stmt)) (msg : PM) (remain : List (Nat × Stmt)) (msg' : PM) (remain' : List (Nat × Stmt)),
      optLoop cx false isField custom mi stmts msg remain = (msg', remain', none) →
      optLoop cx true isField custom mi stmts msg remain = (msg', remain', none) := by
  intro stmts
  induction stmts with
  | nil => intro msg remain msg' remain' h; simpa [optLoop] using h
  | cons a rest ih =>
    intro msg remain msg' remain' h
    obtain ⟨i, st⟩ := a
    unfold optLoop at h ⊢
    by_cases h1 : (firstIsExt st != custom) = true
    · simp only [h1, if_true] at h ⊢
      exact ih _ _ _ _ h
    · simp only [h1] at h ⊢
      by_cases h2 : isPseudo isField st = true
      · simp only [h2, if_true] at h ⊢
        exact ih _ _ _ _ h
      · simp only [h2, Bool.false_eq_true, Bool.and_false, if_false] at h ⊢
        by_cases h3 : (!custom && firstName st == "uninterpreted_option") = true
        · -- strict reports `invalid option 'uninterpreted_option'`
          simp only [h3, if_true] at h
          cases he : (interpField cx mi msg st.parts st.val).err <;> simp [firstErr] at h
        · simp only [h3, Bool.false_eq_true, Bool.false_and, if_false, firstErr] at h ⊢
          cases he : (interpField cx mi msg st.parts st.val).err with
          | some e => simp [he] at h
          | none =>
            simp only [he] at h ⊢
            exact ih _ _ _ _ h

/-- interpOptions with the loop's result named -/
theorem interpOptions_eq (s : Schema) (m : Mode) (target edition : Nat) (isField custom : Bool) (mi : Nat)
    (opts : PM) (un : List (Nat × Stmt)) (msg : PM) (remain : List (Nat × Stmt)) (fatal : Option Err)
    (hl : optLoop ⟨s, target, m.linked⟩ m.lenient isField custom mi un opts [] = (msg, remain, fatal)) :
    interpOptions s m target edition isField custom mi opts un =
      (match fatal with
       | some e => ⟨opts, un, some e⟩
       | none =>
         if (custom && ((!m.lenient && !reqV s mi (.msg msg)) || !featuresOK s edition mi msg)) = true
         then ⟨opts, un, some .validate⟩
         else if m.lenient = true then
           (if (custom && !reqV s mi (.msg msg)) = true then ⟨opts, un, none⟩ else ⟨msg, remain, none⟩)
         else ⟨msg, remain, none⟩) := by
  unfold interpOptions
  simp only [hl]
  cases fatal <;> rfl

theorem interpElem_lenient_of_strict (s : Schema) (target edition : Nat) (isField custom : Bool) (mi : Nat)
    (opts : PM) (un : List (Nat × Stmt))
    (h : (interpElem s strict target edition isField custom mi opts un).fatal = none) :
    interpElem s lenient target edition isField custom mi opts un =
      interpElem s strict target edition isField custom mi opts un := by
  unfold interpElem at h ⊢
  by_cases hu : un.isEmpty = true
  · simp only [hu, Bool.not_true, Bool.false_eq_true, if_false]
  · simp only [hu, Bool.not_false, if_true] at h ⊢
    obtain ⟨msg, remain, fatal, hl⟩ : ∃ a b c,
        optLoop ⟨s, target, strict.linked⟩ strict.lenient isField custom mi un opts [] = (a, b, c) := ⟨_, _, _, rfl⟩
    rw [interpOptions_eq s strict target edition isField custom mi opts un msg remain fatal hl] at h ⊢
    cases fatal with
    | some e => simp at h
    | none =>
      have hl2 : optLoop ⟨s, target, lenient.linked⟩ lenient.lenient isField custom mi un opts [] = (msg, remain, none) :=
        optLoop_lenient_of_strict _ _ _ _ _ _ _ _ _ hl
      rw [interpOptions_eq s lenient target edition isField custom mi opts un msg remain none hl2]
      simp only [strict, lenient] at h ⊢
      by_cases hv : (custom && ((!false && !reqV s mi (.msg msg)) || !featuresOK s edition mi msg)) = true
      · exfalso
        cases custom <;> simp_all
      · have hv2 : (custom && ((!true && !reqV s mi (.msg msg)) || !featuresOK s edition mi msg)) = false := by
          cases custom <;> simp_all
        have hv3 : (custom && !reqV s mi (.msg msg)) = false := by
          cases custom <;> simp_all
        cases custom <;> simp_all

/-- the pseudo-option pass does not depend on the mode except through `linked` -/
theorem interpFieldElem_lenient_of_strict (s : Schema) (target edition : Nat) (custom : Bool) (mi : Nat)
    (fc : FieldCtx) (opts : PM) (un : List (Nat × Stmt)) (d j : Option (List UInt8))
    (h : (interpFieldElem s strict target edition custom mi fc opts un d j).1.fatal = none) :
    interpFieldElem s lenient target edition custom mi fc opts un d j =
      interpFieldElem s strict target edition custom mi fc opts un d j := by
  have key : ∀ (p : PseudoR),
      ((match (if strict.lenient = true then none else p.err) with
        | some e => ((⟨opts, un, some e⟩ : PhaseR), d, j)
        | none =>
          if p.un.isEmpty = true then
            (⟨opts, p.un, none⟩, (match p.dflt with | some x => some x | none => d), (match p.json with | some x => some x | none => j))
          else
            (interpElem s strict target edition true custom mi opts p.un,
              (match p.dflt with | some x => some x | none => d), (match p.json with | some x => some x | none => j))).1.fatal = none) →
      (match (if lenient.lenient = true then none else p.err) with
        | some e => ((⟨opts, un, some e⟩ : PhaseR), d, j)
        | none =>
          if p.un.isEmpty = true then
            (⟨opts, p.un, none⟩, (match p.dflt with | some x => some x | none => d), (match p.json with | some x => some x | none => j))
          else
            (interpElem s lenient target edition true custom mi opts p.un,
              (match p.dflt with | some x => some x | none => d), (match p.json with | some x => some x | none => j))) =
      (match (if strict.lenient = true then none else p.err) with
        | some e => ((⟨opts, un, some e⟩ : PhaseR), d, j)
        | none =>
          if p.un.isEmpty = true then
            (⟨opts, p.un, none⟩, (match p.dflt with | some x => some x | none => d), (match p.json with | some x => some x | none => j))
          else
            (interpElem s strict target edition true custom mi opts p.un,
              (match p.dflt with | some x => some x | none => d), (match p.json with | some x => some x | none => j))) := by
    intro p hp
    simp only [strict, lenient, Bool.false_eq_true, if_false, if_true] at hp ⊢
    cases he : p.err with
    | some e => simp [he] at hp
    | none =>
      simp only [he] at hp ⊢
      by_cases hu : p.un.isEmpty = true
      · simp [hu]
      · simp only [hu, if_false, Bool.false_eq_true] at hp ⊢
        have := interpElem_lenient_of_strict s target edition true custom mi opts p.un (by simpa [strict] using hp)
        simp only [strict, lenient] at this
        rw [this]
  unfold interpFieldElem at h ⊢
  exact key _ h

/-- `lenient_eq_strict`: whenever InterpretOptions succeeds, InterpretOptionsLenient computes the
    same options message, the same pseudo-option results, and leaves the same (by C20: no)
    uninterpreted options — for every schema, element kind and list of option statements. -/
theorem lenient_eq_strict (s : Schema) (target edition mi : Nat) (fc : Option FieldCtx) (stmts : List Stmt)
    (h : (runElem s strict target edition mi fc stmts).fatal = none) :
    runElem s lenient target edition mi fc stmts = runElem s strict target edition mi fc stmts := by
  unfold runElem at h ⊢
  cases fc with
  | none =>
    simp only at h ⊢
    cases h1 : (interpElem s strict target edition false false mi [] (zipIdxFrom stmts 0)).fatal with
    | some e => simp [h1] at h
    | none =>
      rw [interpElem_lenient_of_strict s target edition false false mi [] _ h1]
      simp only [h1] at h ⊢
      cases h2 : (interpElem s strict target edition false true mi
          (interpElem s strict target edition false false mi [] (zipIdxFrom stmts 0)).opts
          (interpElem s strict target edition false false mi [] (zipIdxFrom stmts 0)).remain).fatal with
      | some e => simp [h2] at h
      | none =>
        rw [interpElem_lenient_of_strict s target edition false true mi _ _ h2]
        simp only [h2]
  | some f =>
    simp only at h ⊢
    cases h1 : (interpFieldElem s strict target edition false mi f [] (zipIdxFrom stmts 0) none none).1.fatal with
    | some e => simp [h1] at h
    | none =>
      rw [interpFieldElem_lenient_of_strict s target edition false mi f [] _ none none h1]
      simp only [h1] at h ⊢
      generalize (interpFieldElem s strict target edition false mi f [] (zipIdxFrom stmts 0) none none) = r1 at h ⊢
      obtain ⟨p1, d1, j1⟩ := r1
      simp only at h ⊢
      cases h2 : (interpFieldElem s strict target edition true mi f p1.opts p1.remain d1 j1).1.fatal with
      | some e => simp [h2] at h
      | none =>
        rw [interpFieldElem_lenient_of_strict s target edition true mi f _ _ d1 j1 h2]
        simp only [h2]

/-! ## unlinked interpretation -/

/-- without a resolver a custom option (first name part is an extension) is not interpreted and
    does not touch the options message -/
theorem unlinked_custom_untouched (s : Schema) (target mi : Nat) (pm : PM) (p : NamePart) (rest : List NamePart) (v : AV)
    (hp : p.isExt = true) :
    interpField ⟨s, target, false⟩ mi pm (p :: rest) v = ⟨pm, false, some .unkext⟩ := by
  unfold interpField
  simp [resolvePart, hp]

/-- what a pass hands on is the incoming `remain` followed by a sub-list of its statements, in order -/
theorem optLoop_remain_sublist (cx : Cx) (lenient isField custom : Bool) (mi : Nat) :
    ∀ (stmts : List (Nat × Stmt)) (msg : PM) (remain : List (Nat × Stmt)),
      ∃ l, l.Sublist stmts ∧ (optLoop cx lenient isField custom mi stmts msg remain).2.1 = remain ++ l := by
  intro stmts
  induction stmts with
  | nil => intro msg remain; exact ⟨[], List.Sublist.refl _, by simp [optLoop]⟩
  | cons a rest ih =>
    intro msg remain
    obtain ⟨i, st⟩ := a
    have keep : ∀ (m : PM), ∃ l, l.Sublist ((i, st) :: rest) ∧
        (optLoop cx lenient isField custom mi rest m (remain ++ [(i, st)])).2.1 = remain ++ l := by
      intro m
      obtain ⟨l, hl, he⟩ := ih m (remain ++ [(i, st)])
      exact ⟨(i, st) :: l, List.Sublist.cons_cons _ hl, by simp [he]⟩
    have drop : ∀ (m : PM), ∃ l, l.Sublist ((i, st) :: rest) ∧
        (optLoop cx lenient isField custom mi rest m remain).2.1 = remain ++ l := by
      intro m
      obtain ⟨l, hl, he⟩ := ih m remain
      exact ⟨l, List.Sublist.cons _ hl, he⟩
    have stop : ∀ (m : PM) (e : Option Err), ∃ l, l.Sublist ((i, st) :: rest) ∧
        ((m, remain, e) : PM × List (Nat × Stmt) × Option Err).2.1 = remain ++ l :=
      fun m e => ⟨[], List.nil_sublist _, by simp⟩
    unfold optLoop
    dsimp only
    repeat' split
    all_goals first
      | exact keep _
      | exact drop _
      | exact stop _ _

theorem interpElem_remain_sublist (s : Schema) (m : Mode) (target edition : Nat) (isField custom : Bool) (mi : Nat)
    (opts : PM) (un : List (Nat × Stmt)) :
    (interpElem s m target edition isField custom mi opts un).remain.Sublist un := by
  unfold interpElem
  repeat' split
  all_goals try exact List.Sublist.refl _
  unfold interpOptions
  obtain ⟨l, hl, he⟩ := optLoop_remain_sublist ⟨s, target, m.linked⟩ m.lenient isField custom mi un opts []
  simp only at he ⊢
  repeat' split
  all_goals first
    | exact List.Sublist.refl _
    | (simp_all)

theorem zipIdxFrom_fst {α} (l : List α) (i : Nat) : (zipIdxFrom l i).map (·.1) = List.range' i l.length := by
  induction l generalizing i with
  | nil => simp [zipIdxFrom]
  | cons a r ih => simp [zipIdxFrom, ih, List.range'_succ]

/-- `unlinked_rest_sublist`: on every element that is not a field, the statements
    InterpretUnlinkedOptions leaves uninterpreted are a sub-list, in the original order, of the
    element's statements (the model never rewrites a statement: they are kept verbatim) -/
theorem unlinked_rest_sublist (s : Schema) (m : Mode) (target edition mi : Nat) (stmts : List Stmt) :
    (runElem s m target edition mi none stmts).remain.Sublist (List.range' 0 stmts.length) := by
  unfold runElem
  simp only
  split
  · simp
  · split
    · simp
    · simp only
      rw [← zipIdxFrom_fst stmts 0]
      apply List.Sublist.map
      exact List.Sublist.trans (interpElem_remain_sublist _ _ _ _ _ _ _ _ _) (interpElem_remain_sublist _ _ _ _ _ _ _ _ _)

/-! ## "never leaves an options message half-populated" -/

def isCustom (p : Nat × Stmt) : Bool := firstIsExt p.2

/-- the property at full strength (non-field elements): the options message produced by the
    unlinked run is the one produced from the consumed statements alone, i.e. a statement that
    stays uninterpreted has had no effect -/
def C21_atomic_full : Prop :=
  ∀ (s : Schema) (target edition mi : Nat) (stmts : List Stmt),
    (runElem s unlinked target edition mi none stmts).fatal = none →
    (runElem s unlinked target edition mi none
        (((zipIdxFrom stmts 0).filter (fun p => !(runElem s unlinked target edition mi none stmts).remain.contains p.1)).map (·.2))).opts
      = (runElem s unlinked target edition mi none stmts).opts

/-- MessageOptions-like message 0 with `features` (message 1, no fields of its own) -/
def aSchema : Schema :=
  { enums := [],
    msgs := [⟨"O", "O", "", [⟨"features", 12, .msg 1, .opt, false, true, none, [], 0, 0, "O.features", "", false, false⟩], false⟩,
             ⟨"F", "F", "", [], false⟩],
    exts := [], optIdx := [0, 0, 0, 0, 0, 0, 0, 0, 0] }

/-- `option features.(pkg.ext).x = 1;` -/
def aStmt : Stmt := ⟨[⟨false, "features"⟩, ⟨true, "pkg.ext"⟩, ⟨false, "x"⟩], .uint 1⟩

/-- witness: the statement stays uninterpreted (index 0 in `remain`) but has created an empty
    `features` message; interpreting nothing leaves no `features` -/
theorem half_populated_witness :
    (runElem aSchema unlinked 3 1000 0 none [aStmt]).fatal = none ∧
    (runElem aSchema unlinked 3 1000 0 none [aStmt]).remain = [0] ∧
    (pmGet (runElem aSchema unlinked 3 1000 0 none [aStmt]).opts 12).isSome = true ∧
    (pmGet (runElem aSchema unlinked 3 1000 0 none []).opts 12).isSome = false := by
  decide

theorem C21_atomic_full_refuted : ¬ C21_atomic_full := by
  intro h
  have h1 := h aSchema 3 1000 0 [aStmt] half_populated_witness.1
  rw [half_populated_witness.2.1] at h1
  have h2 : ((zipIdxFrom [aStmt] 0).filter (fun p => !([0] : List Nat).contains p.1)).map (·.2) = [] := by decide
  rw [h2] at h1
  have := half_populated_witness.2.2.2
  rw [h1, half_populated_witness.2.2.1] at this
  exact absurd this (by decide)

/-- first pass (standard options): custom statements are handed on untouched -/
theorem optLoop_pass1_customs (cx : Cx) (lenient isField : Bool) (mi : Nat) :
    ∀ (l : List (Nat × Stmt)) (msg : PM) (remain : List (Nat × Stmt)),
      (∀ p ∈ l, isCustom p = true) →
      optLoop cx lenient isField false mi l msg remain = (msg, remain ++ l, none) := by
  intro l
  induction l with
  | nil => intro msg remain _; simp [optLoop]
  | cons a rest ih =>
    intro msg remain h
    obtain ⟨i, st⟩ := a
    have ha : firstIsExt st = true := by simpa [isCustom] using h (i, st) (by simp)
    unfold optLoop
    simp only [ha, Bool.true_bne, Bool.not_false, if_true]
    rw [ih _ _ (fun p hp => h p (by simp [hp]))]
    simp

/-- second pass without a resolver: every custom statement fails at its first name part and is
    handed on; the message is not touched -/
theorem optLoop_pass2_unlinked (s : Schema) (target : Nat) (isField : Bool) (mi : Nat) :
    ∀ (l : List (Nat × Stmt)) (msg : PM) (remain : List (Nat × Stmt)),
      (∀ p ∈ l, isCustom p = true) →
      optLoop ⟨s, target, false⟩ true isField true mi l msg remain = (msg, remain ++ l, none) := by
  intro l
  induction l with
  | nil => intro msg remain _; simp [optLoop]
  | cons a rest ih =>
    intro msg remain h
    obtain ⟨i, st⟩ := a
    have ha : firstIsExt st = true := by simpa [isCustom] using h (i, st) (by simp)
    obtain ⟨parts, v⟩ := st
    cases parts with
    | nil => simp [firstIsExt] at ha
    | cons p ps =>
      have hp : p.isExt = true := by simpa [firstIsExt] using ha
      have hps : isPseudo isField ⟨p :: ps, v⟩ = false := by
        cases ps <;> simp [isPseudo, hp]
      unfold optLoop
      simp only [ha, bne_self_eq_false, Bool.false_eq_true, if_false, hps, Bool.not_true, Bool.false_and]
      rw [unlinked_custom_untouched s target mi msg p ps v hp]
      simp only [firstErr]
      rw [ih _ _ (fun q hq => h q (by simp [hq]))]
      simp

/-- `unlinked_atomic_partial` (custom options): on an element whose options are all custom,
    InterpretUnlinkedOptions changes nothing and keeps every statement -/
theorem unlinked_all_custom_untouched (s : Schema) (target edition mi : Nat) (stmts : List Stmt)
    (hc : ∀ st ∈ stmts, firstIsExt st = true) :
    (runElem s unlinked target edition mi none stmts).fatal = none ∧
    (runElem s unlinked target edition mi none stmts).opts = [] ∧
    (runElem s unlinked target edition mi none stmts).remain = List.range' 0 stmts.length := by
  have hall : ∀ p ∈ zipIdxFrom stmts 0, isCustom p = true := by
    intro p hp
    have : ∀ (l : List Stmt) (i : Nat) (p : Nat × Stmt), p ∈ zipIdxFrom l i → p.2 ∈ l := by
      intro l
      induction l with
      | nil => intro i p h; simp [zipIdxFrom] at h
      | cons a r ih =>
        intro i p h
        simp [zipIdxFrom] at h
        rcases h with h | h
        · simp [h]
        · simp [ih _ _ h]
    exact hc _ (this _ _ _ hp)
  have hfeat : featuresOK s edition mi [] = true := by
    unfold featuresOK; split <;> simp [pmGet]
  cases hs : stmts with
  | nil =>
    subst hs
    simp [runElem, interpElem, zipIdxFrom, hfeat, unlinked]
  | cons a r =>
    have hne : (zipIdxFrom stmts 0).isEmpty = false := by rw [hs]; simp [zipIdxFrom]
    rw [← hs]
    have p1 : interpElem s unlinked target edition false false mi [] (zipIdxFrom stmts 0) =
        ⟨[], zipIdxFrom stmts 0, none⟩ := by
      unfold interpElem
      simp only [hne, Bool.not_false, if_true]
      rw [interpOptions_eq s unlinked target edition false false mi [] _ [] (zipIdxFrom stmts 0) none
        (by simpa [unlinked] using optLoop_pass1_customs ⟨s, target, false⟩ true false mi _ [] [] hall)]
      simp [unlinked]
    have p2 : (interpElem s unlinked target edition false true mi [] (zipIdxFrom stmts 0)).fatal = none ∧
        (interpElem s unlinked target edition false true mi [] (zipIdxFrom stmts 0)).opts = [] ∧
        (interpElem s unlinked target edition false true mi [] (zipIdxFrom stmts 0)).remain = zipIdxFrom stmts 0 := by
      unfold interpElem
      simp only [hne, Bool.not_false, if_true]
      rw [interpOptions_eq s unlinked target edition false true mi [] _ [] (zipIdxFrom stmts 0) none
        (by simpa [unlinked] using optLoop_pass2_unlinked s target false mi _ [] [] hall)]
      simp only [unlinked, hfeat]
      by_cases hr : reqV s mi (.msg []) = true <;> simp [hr]
    unfold runElem
    simp only [p1, p2.1, p2.2.1, p2.2.2, zipIdxFrom_fst]
    simp

/-! ### the general partial theorem: standard and custom options mixed -/

theorem optLoop_remain_mono (cx : Cx) (lenient isField custom : Bool) (mi : Nat)
    (stmts : List (Nat × Stmt)) (msg : PM) (remain : List (Nat × Stmt)) (p : Nat × Stmt) (hp : p ∈ remain) :
    p ∈ (optLoop cx lenient isField custom mi stmts msg remain).2.1 := by
  obtain ⟨l, _, he⟩ := optLoop_remain_sublist cx lenient isField custom mi stmts msg remain
  rw [he]; simp [hp]

/-- first pass with lenience: if only custom statements are handed on (no standard statement
    failed), the pass computes exactly what it computes on the standard statements alone -/
theorem optLoop_pass1_std_only (cx : Cx) (mi : Nat) :
    ∀ (l l' : List (Nat × Stmt)) (msg : PM) (remain remain0 : List (Nat × Stmt)) (m' : PM) (r' : List (Nat × Stmt)),
      l'.map (·.2) = (l.filter (fun p => !isCustom p)).map (·.2) →
      optLoop cx true false false mi l msg remain = (m', r', none) →
      (∀ p ∈ r', isCustom p = true) →
      optLoop cx true false false mi l' msg remain0 = (m', remain0, none) := by
  intro l
  induction l with
  | nil =>
    intro l' msg remain remain0 m' r' hmap h _
    have : l' = [] := by simpa using hmap
    subst this
    simp [optLoop] at h ⊢
    exact h.1
  | cons a rest ih =>
    intro l' msg remain remain0 m' r' hmap h hall
    obtain ⟨i, st⟩ := a
    by_cases hc : firstIsExt st = true
    · -- custom: handed on by the full pass, absent from the filtered list
      have hf : (((i, st) :: rest).filter (fun p => !isCustom p)) = rest.filter (fun p => !isCustom p) := by
        simp [isCustom, hc]
      rw [hf] at hmap
      unfold optLoop at h
      simp only [hc, Bool.true_bne, Bool.not_false, if_true] at h
      exact ih l' msg _ remain0 m' r' hmap h hall
    · have hc' : firstIsExt st = false := by simpa using hc
      have hf : (((i, st) :: rest).filter (fun p => !isCustom p)) = (i, st) :: rest.filter (fun p => !isCustom p) := by
        simp [isCustom, hc']
      rw [hf] at hmap
      cases l' with
      | nil => simp at hmap
      | cons b l'' =>
        obtain ⟨j, st'⟩ := b
        simp only [List.map_cons, List.cons.injEq] at hmap
        obtain ⟨hst, hmap'⟩ := hmap
        subst hst
        have notCustom : ¬ isCustom (i, st') = true := by simp [isCustom, hc']
        have handedOn : ∀ (m : PM), optLoop cx true false false mi rest m (remain ++ [(i, st')]) = (m', r', none) → False := by
          intro m hm
          have := optLoop_remain_mono cx true false false mi rest m (remain ++ [(i, st')]) (i, st') (by simp)
          rw [hm] at this
          exact notCustom (hall _ this)
        have hps : isPseudo false st' = false := by unfold isPseudo; split <;> simp
        unfold optLoop at h ⊢
        simp only [hc', Bool.false_bne, Bool.false_eq_true, if_false, hps, Bool.not_false, Bool.true_and, Bool.and_true] at h ⊢
        by_cases hu : (firstName st' == "uninterpreted_option") = true
        · simp only [hu, if_true] at h
          exact absurd h (fun h => handedOn _ h)
        · simp only [hu, if_false, Bool.false_eq_true, firstErr] at h ⊢
          cases he : (interpField cx mi msg st'.parts st'.val).err with
          | some e =>
            simp only [he] at h
            exact absurd h (fun h => handedOn _ h)
          | none =>
            simp only [he] at h ⊢
            exact ih l'' _ remain remain0 m' r' hmap' h hall

/-- second pass: every standard statement of its input is handed on -/
theorem optLoop_pass2_hands_on_std (cx : Cx) (lenient isField : Bool) (mi : Nat) :
    ∀ (l : List (Nat × Stmt)) (msg : PM) (remain : List (Nat × Stmt)) (m' : PM) (r' : List (Nat × Stmt)),
      optLoop cx lenient isField true mi l msg remain = (m', r', none) →
      ∀ p ∈ l, isCustom p = false → p ∈ r' := by
  intro l
  induction l with
  | nil => intro msg remain m' r' _ p hp; simp at hp
  | cons a rest ih =>
    intro msg remain m' r' h p hp hnc
    obtain ⟨i, st⟩ := a
    have hsub := optLoop_remain_sublist cx lenient isField true mi ((i, st) :: rest) msg remain
    simp only [List.mem_cons] at hp
    rcases hp with hp | hp
    · subst hp
      have hc' : firstIsExt st = false := by simpa [isCustom] using hnc
      unfold optLoop at h
      simp only [hc', Bool.false_bne, if_true] at h
      have := optLoop_remain_mono cx lenient isField true mi rest msg (remain ++ [(i, st)]) (i, st) (by simp)
      rw [h] at this
      exact this
    · unfold optLoop at h
      dsimp only at h
      repeat' split at h
      all_goals first
        | exact ih _ _ _ _ h p hp hnc
        | (simp at h)

theorem zipIdxFrom_snd {α} (l : List α) (i : Nat) : (zipIdxFrom l i).map (·.2) = l := by
  induction l generalizing i with
  | nil => simp [zipIdxFrom]
  | cons a r ih => simp [zipIdxFrom, ih]

theorem phase1_unlinked (s : Schema) (target edition mi : Nat) (un : List (Nat × Stmt)) (m1 : PM)
    (r1 : List (Nat × Stmt)) (f1 : Option Err)
    (hl : optLoop ⟨s, target, false⟩ true false false mi un [] [] = (m1, r1, f1)) (hne : un.isEmpty = false) :
    interpElem s unlinked target edition false false mi [] un =
      (match f1 with | some e => ⟨[], un, some e⟩ | none => ⟨m1, r1, none⟩) := by
  unfold interpElem
  simp only [hne, Bool.not_false, if_true]
  rw [interpOptions_eq s unlinked target edition false false mi [] un m1 r1 f1 (by simpa [unlinked] using hl)]
  cases f1 <;> simp [unlinked]

/-- `unlinked_atomic_partial`: on every element that is not a field — if the only statements
    InterpretUnlinkedOptions leaves uninterpreted are custom options (what the documentation of
    the function promises), then its result is exactly the result of interpreting the standard
    statements alone: the same options message, no error, nothing left. No statement is lost and
    none is half-applied. -/
theorem unlinked_atomic_partial (s : Schema) (target edition mi : Nat) (stmts : List Stmt)
    (hfatal : (runElem s unlinked target edition mi none stmts).fatal = none)
    (hrest : ∀ p ∈ zipIdxFrom stmts 0, p.1 ∈ (runElem s unlinked target edition mi none stmts).remain → isCustom p = true) :
    (runElem s unlinked target edition mi none (stmts.filter (fun st => !firstIsExt st))).fatal = none ∧
    (runElem s unlinked target edition mi none (stmts.filter (fun st => !firstIsExt st))).opts =
      (runElem s unlinked target edition mi none stmts).opts ∧
    (runElem s unlinked target edition mi none (stmts.filter (fun st => !firstIsExt st))).remain = [] := by
  -- names
  generalize hun : zipIdxFrom stmts 0 = un at hrest
  generalize hun' : zipIdxFrom (stmts.filter (fun st => !firstIsExt st)) 0 = un'
  have hmap : un'.map (·.2) = (un.filter (fun p => !isCustom p)).map (·.2) := by
    rw [← hun, ← hun', zipIdxFrom_snd]
    have : (fun p : Nat × Stmt => !isCustom p) = (fun st => !firstIsExt st) ∘ (·.2) := by
      funext p; simp [isCustom]
    rw [this, ← List.filter_map, zipIdxFrom_snd]
  obtain ⟨m1, r1, f1, hl⟩ : ∃ a b c, optLoop ⟨s, target, false⟩ true false false mi un [] [] = (a, b, c) := ⟨_, _, _, rfl⟩
  by_cases hne : un.isEmpty = true
  · -- no statements at all
    have hnil : un = [] := by simpa using hne
    have hs : stmts = [] := by
      cases stmts with
      | nil => rfl
      | cons a r => rw [← hun] at hnil; simp [zipIdxFrom] at hnil
    subst hs
    simp only [List.filter_nil]
    refine ⟨hfatal, trivial, ?_⟩
    have := unlinked_rest_sublist s unlinked target edition mi []
    simpa using this
  · have hne' : un.isEmpty = false := by simpa using hne
    have hp1 := phase1_unlinked s target edition mi un m1 r1 f1 hl hne'
    -- unfold the full run
    unfold runElem at hfatal hrest ⊢
    simp only [hun, hun'] at hfatal hrest ⊢
    rw [hp1] at hfatal hrest ⊢
    cases f1 with
    | some e => simp at hfatal
    | none =>
      simp only at hfatal hrest ⊢
      have hsub1 : r1.Sublist un := by
        obtain ⟨l, hl1, hl2⟩ := optLoop_remain_sublist ⟨s, target, false⟩ true false false mi un [] []
        rw [hl] at hl2; simp at hl2; rw [hl2]; exact hl1
      -- the second pass
      cases hf2 : (interpElem s unlinked target edition false true mi m1 r1).fatal with
      | some e => simp [hf2] at hfatal
      | none =>
        simp only [hf2] at hrest ⊢
        -- every statement handed on by the first pass is custom
        have hall : ∀ p ∈ r1, isCustom p = true := by
          intro p hp
          by_cases hc : isCustom p = true
          · exact hc
          · exfalso
            have hc' : isCustom p = false := by simpa using hc
            have hin : p ∈ (interpElem s unlinked target edition false true mi m1 r1).remain := by
              have hr1ne : r1.isEmpty = false := by
                cases r1 with
                | nil => simp at hp
                | cons _ _ => rfl
              unfold interpElem at hf2 ⊢
              simp only [hr1ne, Bool.not_false, if_true] at hf2 ⊢
              obtain ⟨m2, r2, f2, hl2⟩ : ∃ a b c, optLoop ⟨s, target, unlinked.linked⟩ unlinked.lenient false true mi r1 m1 [] = (a, b, c) := ⟨_, _, _, rfl⟩
              rw [interpOptions_eq s unlinked target edition false true mi m1 r1 m2 r2 f2 hl2] at hf2 ⊢
              cases f2 with
              | some e => simp at hf2
              | none =>
                have := optLoop_pass2_hands_on_std _ _ _ _ _ _ _ _ _ hl2 p hp hc'
                simp only at hf2 ⊢
                repeat' split
                all_goals first
                  | exact hp
                  | exact this
                  | (simp_all)
            have hmem : p.1 ∈ List.map (fun x => x.1) (interpElem s unlinked target edition false true mi m1 r1).remain :=
              List.mem_map.mpr ⟨p, hin, rfl⟩
            exact hc (hrest p (hsub1.subset hp) hmem)
        -- so the second pass does not touch the message
        have hloop2 := optLoop_pass2_unlinked s target false mi r1 m1 [] hall
        have hopts2 : (interpElem s unlinked target edition false true mi m1 r1).opts = m1 ∧ featuresOK s edition mi m1 = true := by
          unfold interpElem at hf2 ⊢
          by_cases hr1 : r1.isEmpty = true
          · simp only [hr1, Bool.not_true, Bool.false_eq_true, if_false, if_true] at hf2 ⊢
            by_cases hfo : featuresOK s edition mi m1 = true
            · simp [hfo]
            · simp [hfo] at hf2
          · simp only [hr1, Bool.not_false, if_true] at hf2 ⊢
            rw [interpOptions_eq s unlinked target edition false true mi m1 r1 m1 ([] ++ r1) none
              (by simpa [unlinked] using hloop2)] at hf2 ⊢
            simp only [unlinked] at hf2 ⊢
            by_cases hfo : featuresOK s edition mi m1 = true
            · refine ⟨?_, hfo⟩
              simp only [hfo]
              repeat' split
              all_goals rfl
            · simp [hfo] at hf2
        -- the run on the standard statements alone
        have hl' := optLoop_pass1_std_only ⟨s, target, false⟩ mi un un' [] [] [] m1 r1 hmap hl hall
        have hp1' : interpElem s unlinked target edition false false mi [] un' = ⟨m1, [], none⟩ ∨
            (interpElem s unlinked target edition false false mi [] un' = ⟨[], un', none⟩ ∧ un' = [] ∧ m1 = []) := by
          by_cases hne2 : un'.isEmpty = true
          · right
            have hnil : un' = [] := by simpa using hne2
            subst hnil
            simp [optLoop] at hl'
            refine ⟨?_, rfl, hl'⟩
            simp [interpElem]
          · left
            have := phase1_unlinked s target edition mi un' m1 [] none hl' (by simpa using hne2)
            simpa using this
        have hfinal : ∀ (o : PM), o = m1 →
            interpElem s unlinked target edition false true mi o [] = ⟨m1, [], none⟩ := by
          intro o ho; subst ho
          simp [interpElem, hopts2.2]
        rcases hp1' with h1 | ⟨h1, hnil, hm⟩
        · rw [h1]
          simp only [hfinal m1 rfl, hopts2.1]
          simp
        · rw [h1, hnil]
          simp only [hfinal [] hm.symm, hopts2.1]
          simp

/-! ## Non-vacuity -/

/-- MessageOptions-like message with `deprecated` (bool) and `features` -/
def bSchema : Schema :=
  { enums := [],
    msgs := [⟨"O", "O", "", [⟨"deprecated", 3, .bool, .opt, false, true, none, [], 0, 0, "O.deprecated", "", false, false⟩,
                              ⟨"features", 12, .msg 1, .opt, false, true, none, [], 0, 0, "O.features", "", false, false⟩], false⟩,
             ⟨"F", "F", "", [], false⟩],
    exts := [⟨"x", 50000, .i32, .opt, false, true, none, [], 0, 0, "pkg.x", "O", false, false⟩],
    optIdx := [0, 0, 0, 0, 0, 0, 0, 0, 0] }

def bStmts : List Stmt :=
  [⟨[⟨false, "deprecated"⟩], .ident "true"⟩, ⟨[⟨true, "pkg.x"⟩], .uint 7⟩]

/-- strict accepts `option deprecated = true; option (pkg.x) = 7;`, so `lenient_eq_strict` applies -/
example : runElem bSchema lenient 3 0 0 none bStmts = runElem bSchema strict 3 0 0 none bStmts :=
  lenient_eq_strict bSchema 3 0 0 none bStmts (by decide)

/-- … and the unlinked run keeps exactly the custom option: `unlinked_atomic_partial` applies and
    says the result is that of `option deprecated = true;` alone -/
example : (runElem bSchema unlinked 3 0 0 none [⟨[⟨false, "deprecated"⟩], .ident "true"⟩]).opts =
    (runElem bSchema unlinked 3 0 0 none bStmts).opts :=
  (unlinked_atomic_partial bSchema 3 0 0 bStmts (by decide) (by decide)).2.1

example : (runElem bSchema unlinked 3 0 0 none bStmts).remain = [1] := by decide
example : (pmGet (runElem bSchema unlinked 3 0 0 none bStmts).opts 3).isSome = true := by decide

end PCV.Props.C21

#print axioms PCV.Props.C21.lenient_eq_strict
#print axioms PCV.Props.C21.unlinked_custom_untouched
#print axioms PCV.Props.C21.unlinked_rest_sublist
#print axioms PCV.Props.C21.C21_atomic_full_refuted
#print axioms PCV.Props.C21.unlinked_all_custom_untouched
#print axioms PCV.Props.C21.unlinked_atomic_partial
