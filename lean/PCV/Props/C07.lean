/-
C07 — Faults and cancellation are contained (bookkeeping of the compile executor).
Theorems are over ALL runs of the executor LTS (PCV.Model.Exec), i.e. every import graph,
fault plan, parallelism and interleaving of the modelled steps.
-/
import PCV.Lemmas.Exec
namespace PCV.Props.C07
open PCV.Exec

/-- reachable states of the executor LTS -/
inductive Reachable (w : World) : St → Prop
  | init : Reachable w (init w)
  | step {s s' : St} {e : Ev} : Reachable w s → step w s e = some s' → Reachable w s'

/-- every state reached by an accepted event sequence (e.g. a validated real trace) is reachable -/
theorem reachable_of_run (w : World) (evs : List Ev) : ∀ s0 s, Reachable w s0 →
    run w s0 evs = some s → Reachable w s := by
  induction evs with
  | nil => intro s0 s h0 h; simp [run] at h; subst h; exact h0
  | cons e es ih =>
    intro s0 s h0 h
    simp only [run] at h
    cases hs : step w s0 e with
    | none => simp [hs] at h
    | some s1 => rw [hs] at h; exact ih s1 s (Reachable.step h0 hs) h

/-- pcs in which the task does not hold a permit -/
def noPermitPc : Pc → Bool
  | .spawned | .waiting _ | .unblocked | .panicking => true
  | _ => false

/-- J: a task that is waiting for a permit / for dependencies / unwinding holds no permit -/
def J (s : St) : Prop := ∀ f t, s.task f = some t → noPermitPc t.pc = true → t.holds = false

theorem J_init (w : World) : J (init w) := by
  intro f t h; simp [init, St.task] at h


/-- generic pointwise preservation: if a step only rewrites task `f` to `t'`, a pointwise
    predicate holds afterwards when it holds for `t'` at `f` -/
theorem pointwise_set (P : File → Task → Prop) (s : St) (f : File) (t' : Task) (sem' c' : Nat)
    (hP : ∀ g t, s.task g = some t → P g t) (hnew : P f t') :
    ∀ g t, (({ s with sem := sem', clock := c' } : St).set f t').task g = some t → P g t := by
  intro g t h
  by_cases hg : g = f
  · subst hg; rw [set_task_same] at h; cases h; exact hnew
  · rw [set_task_other _ _ _ _ hg] at h; exact hP g t h

/-- standard opening for invariant preservation: split the step function into its enabled
    branches and expose the successor state -/
macro "step_bash" h:ident : tactic => `(tactic| (
  simp only [step] at $h:ident
  all_goals (repeat' split at $h:ident)
  all_goals (try (simp at $h:ident))
  all_goals (try (obtain ⟨_, _⟩ := $h:ident))
  all_goals (try subst_vars)))

theorem J_step (w : World) (s s' : St) (e : Ev) (hJ : J s) (h : step w s e = some s') : J s' := by
  unfold J at *
  cases e <;> simp only [step] at h
  all_goals (repeat' split at h)
  all_goals (try (simp at h))
  all_goals (try (obtain ⟨h1, h2⟩ := h))
  all_goals (try subst s')
  all_goals (try (apply pointwise_set (fun _ t => noPermitPc t.pc = true → t.holds = false) _ _ _ _ _ hJ))
  all_goals (try simp [noPermitPc])
  · next f d _ t hf _ i hpc _ _ _ _ _ _ => exact hJ f t hf (by simp [hpc, noPermitPc])
  · next f _ t hf hc =>
    simp only [Bool.and_eq_true, beq_iff_eq] at hc
    exact hJ f t hf (by simp [hc.1, noPermitPc])
  · intro f t ht; exact hJ f t ht

theorem J_reachable (w : World) (s : St) (h : Reachable w s) : J s := by
  induction h with
  | init => exact J_init w
  | step _ hs ih => exact J_step w _ _ _ ih hs

/-- **Permit conservation**: in every reachable state the free permits plus the permits held by
    tasks equal the configured parallelism. -/
def Permits (w : World) (s : St) : Prop := s.sem + holders s = w.par

theorem holders_set_eq (s : St) (f : File) (t t' : Task) (sem' c' : Nat) (hf : s.task f = some t) :
    holders (({ s with sem := sem', clock := c' } : St).set f t') + (if t.holds then 1 else 0)
      = holders s + (if t'.holds then 1 else 0) := by
  have := holders_set ({ s with sem := sem', clock := c' } : St) f t'
  have hf' : ({ s with sem := sem', clock := c' } : St).task f = some t := hf
  rw [hf'] at this
  simpa [holdsOpt, holders] using this

theorem permits_set (s : St) (f : File) (t t' : Task) (sem' c' par : Nat) (hf : s.task f = some t)
    (hacc : sem' + (if t'.holds then 1 else 0) = s.sem + (if t.holds then 1 else 0))
    (hP : s.sem + holders s = par) :
    sem' + holders (St.set { sem := sem', tasks := s.tasks, crashed := s.crashed, clock := c' } f t') = par := by
  have := holders_set_eq s f t t' sem' c' hf
  omega

theorem permits_same (s : St) (f : File) (t t' : Task) (par : Nat) (hf : s.task f = some t)
    (hh : t'.holds = t.holds) (hP : s.sem + holders s = par) :
    s.sem + holders (s.set f t') = par := by
  have := holders_set s f t'
  rw [hf] at this
  simp only [holdsOpt, hh] at this
  omega

theorem permits_spawn (s : St) (f : File) (t' : Task) (par : Nat) (hf : s.task f = none)
    (hh : t'.holds = false) (hP : s.sem + holders s = par) :
    s.sem + holders (s.set f t') = par := by
  have := holders_set s f t'
  rw [hf] at this
  simp [holdsOpt, hh] at this
  omega

theorem Permits_step (w : World) (s s' : St) (e : Ev) (hJ : J s) (hP : Permits w s)
    (h : step w s e = some s') : Permits w s' := by
  unfold Permits at *
  cases e <;> simp only [step] at h
  all_goals (repeat' split at h)
  all_goals (try (simp at h))
  all_goals (try (obtain ⟨h1, h2⟩ := h))
  all_goals (try subst s')
  all_goals (try simp only [set_sem])
  all_goals (try (exact permits_same s _ _ _ _ (by assumption) rfl hP))
  all_goals (try (exact permits_spawn s _ _ _ (by assumption) rfl hP))
  all_goals (try (exact hP))
  all_goals (try (refine permits_set s _ _ _ _ _ _ (by assumption) ?_ hP))
  all_goals (try (simp; done))
  all_goals (try (simp_all; done))
  all_goals (
    rename_i f _ t hf hc
    simp only [Bool.and_eq_true, beq_iff_eq, decide_eq_true_eq] at hc
    have hj := hJ f t hf (by simp [hc.1.1, noPermitPc])
    simp [hj]; omega)


theorem Permits_reachable (w : World) (s : St) (h : Reachable w s) : Permits w s := by
  induction h with
  | init => simp [Permits, init, holders, holdersL]
  | step hr hs ih => exact Permits_step w _ _ _ (J_reachable w _ hr) ih hs

/-- **C07 permits conserved**: in every reachable state free + held permits = parallelism; in
    particular when no task holds a permit (all tasks finished and released) every permit is back. -/
theorem permits_conserved (w : World) (s : St) (h : Reachable w s) : s.sem + holders s = w.par :=
  Permits_reachable w s h

theorem permits_restored (w : World) (s : St) (h : Reachable w s)
    (hnone : ∀ x ∈ s.tasks, x.2.holds = false) : s.sem = w.par := by
  have := permits_conserved w s h
  have h0 : holders s = 0 := by
    simp only [holders, holdersL, List.length_eq_zero_iff, List.filter_eq_nil_iff]
    intro x hx; simp [hnone x hx]
  omega

/-- never more than `par` tasks hold a permit (the semaphore bounds the running tasks) -/
theorem holders_le_par (w : World) (s : St) (h : Reachable w s) : holders s ≤ w.par := by
  have := permits_conserved w s h; omega

/-! ### No double close: the process never dies -/

/-- R: the `recovered` flag is never set on any task (after the fix the deferred `Close()` runs
    before the result is published, so no panic can be recovered on a completed result) -/
def R (s : St) : Prop := s.crashed = false ∧ ∀ f t, s.task f = some t → t.recovered = false

theorem R_step (w : World) (s s' : St) (e : Ev) (hR : R s) (h : step w s e = some s') : R s' := by
  obtain ⟨hc, hR⟩ := hR
  cases e <;> simp only [step] at h
  all_goals (repeat' split at h)
  all_goals (try (simp at h))
  all_goals (try (obtain ⟨h1, h2⟩ := h))
  all_goals (try subst s')
  all_goals (try (refine ⟨by simpa using hc, ?_⟩))
  all_goals (try (apply pointwise_set (fun _ t => t.recovered = false) _ _ _ _ _ hR))
  all_goals (try (simp; done))
  all_goals (try (dsimp only))
  all_goals (try (exact hR _ _ (by assumption)))
  all_goals (
    rename_i hrec
    have := hR _ _ (by assumption)
    simp [this] at hrec)

theorem R_reachable (w : World) (s : St) (h : Reachable w s) : R s := by
  induction h with
  | init => exact ⟨rfl, by intro f t h; simp [init, St.task] at h⟩
  | step _ hs ih => exact R_step w _ _ _ ih hs

/-- **C07 no double close / no crash**: in no reachable state of the (repaired) executor has the
    process died from closing a result's ready channel twice. -/
theorem no_double_close (w : World) (s : St) (h : Reachable w s) : s.crashed = false :=
  (R_reachable w s h).1

end PCV.Props.C07
