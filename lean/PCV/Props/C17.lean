/-
C17 — A failed symbol import leaves the table unchanged.
The full statement is FALSE of the code as modelled (witness below: an extension-number
collision is detected after the file's symbols were committed). What holds is the partial
theorem: a failure detected by the name-collision check leaves the table exactly as it was.
`Props/C17X.lean` characterises the other kind of failure for every table and file: once the name
check passes the file is committed and recorded, whatever the extension pass reports, and a second
import is silent (`ext_pass_failure_commits`, `reimport_after_ext_failure_is_silent`,
`recorded_iff_check_passed`).
-/
import PCV.Model.Symbols
import PCV.Props.C17X
namespace PCV.Props.C17
open PCV.Symbols

/-- Full statement of C17 on the model: whenever an import reports an error, every lookup
    answers as before the attempt. -/
def import_fail_unchanged : Prop :=
  ∀ (defs : List FileDef) (fuel : Nat) (t : Table) (m : Mode) (f : FileDef),
    (importFile defs fuel t { mode := m } f).2.1.failed = true →
    ∀ n, lookup (importFile defs fuel t { mode := m } f).1 n = lookup t n

def wF1 : FileDef :=
  ⟨1, "f1.proto", ["a"], [], false, [(["a", "M"], .msg)]⟩
def wF2 : FileDef :=
  ⟨2, "f2.proto", ["a"], [1], false, [(["a", "N"], .msg), (["a", "x"], .ext ["a", "M"] 100)]⟩
def wF3 : FileDef :=
  ⟨3, "f3.proto", ["a"], [1], false, [(["a", "P"], .msg), (["a", "y"], .ext ["a", "M"] 100)]⟩
def wDefs : List FileDef := [wF1, wF2, wF3]
def wT : Table :=
  (importFile wDefs 4 (importFile wDefs 4 [] { mode := .strict } wF1).1 { mode := .strict } wF2).1

/-- the witness: importing f3 fails (extension a.M#100 is taken by f2) yet `a.P` becomes visible -/
theorem witness :
    (importFile wDefs 4 wT { mode := .strict } wF3).2.1.failed = true ∧
    lookup wT ["a", "P"] = none ∧
    lookup (importFile wDefs 4 wT { mode := .strict } wF3).1 ["a", "P"] = some "f3.proto" := by
  decide +kernel

theorem import_fail_unchanged_refuted : ¬ import_fail_unchanged := by
  intro h
  have w := witness
  have := h wDefs 4 wT .strict wF3 w.1 ["a", "P"]
  rw [w.2.1, w.2.2] at this
  cases this

/-- **Partial theorem (name collisions).** For a file without pending dependencies whose package
    is already registered, if the check pass reports a collision (or the handler already failed),
    the import returns an error and the table is *identical* to the one before the attempt. -/
theorem import_symCollision_unchanged_partial (defs : List FileDef) (fuel : Nat) (t : Table)
    (h : H) (f : FileDef) (p : Name)
    (hdeps : f.deps = [])
    (hpk : importPackages t h f.path f.pkg = (t, h, some p, false))
    (hnew : (getNode t p).files.contains f.id = false)
    (hchk : (checkFile (getNode t p) f h).2 = true ∨ (checkFile (getNode t p) f h).1.failed = true) :
    (importFile defs (fuel+1) t h f).1 = t ∧ (importFile defs (fuel+1) t h f).2.2 = .err := by
  unfold importFile
  simp only [hpk, hnew, hdeps, importDeps, Bool.false_eq_true, ite_false]
  rcases hc : checkFile (getNode t p) f h with ⟨h3, ab⟩
  rw [hc] at hchk
  simp only at hchk
  rcases hchk with rfl | hf
  · simp
  · simp [hf]

/-- Re-importing an already imported file is a no-op that reports nothing. -/
theorem reimport_noop (defs : List FileDef) (fuel : Nat) (t : Table) (h : H) (f : FileDef) (p : Name)
    (hpk : importPackages t h f.path f.pkg = (t, h, some p, false))
    (hold : (getNode t p).files.contains f.id = true) :
    importFile defs (fuel+1) t h f = (t, h, .ok) := by
  unfold importFile
  simp only [hpk, hold, ite_true]

-- non-vacuity of the partial theorem: f3' collides on the NAME a.N with f2
def wF4 : FileDef := ⟨4, "f4.proto", ["a"], [], false, [(["a", "N"], .msg)]⟩
example :
    importPackages wT { mode := .strict } wF4.path wF4.pkg = (wT, { mode := .strict }, some ["a"], false) ∧
    (getNode wT ["a"]).files.contains wF4.id = false ∧
    (checkFile (getNode wT ["a"]) wF4 { mode := .strict }).2 = true := by
  decide +kernel

-- non-vacuity of the C17X theorems: g3 passes the name check and fails in the extension pass
-- (a.M#100 is taken by g2); the hypotheses of `ext_pass_failure_commits` hold and Import errs
def wG2 : FileDef := ⟨5, "g2.proto", ["a"], [], false, [(["a", "x"], .ext ["a", "M"] 100)]⟩
def wG3 : FileDef := ⟨6, "g3.proto", ["a"], [], false, [(["a", "P"], .msg), (["a", "y"], .ext ["a", "M"] 100)]⟩
def wT2 : Table :=
  (importFile [] 4 (importFile [] 4 [] { mode := .strict } wF1).1 { mode := .strict } wG2).1
example :
    wG3.deps = [] ∧
    importPackages wT2 { mode := .strict } wG3.path wG3.pkg = (wT2, { mode := .strict }, some ["a"], false) ∧
    (getNode wT2 ["a"]).files.contains wG3.id = false ∧
    (checkFile (getNode wT2 ["a"]) wG3 { mode := .strict }).2 = false ∧
    (checkFile (getNode wT2 ["a"]) wG3 { mode := .strict }).1.failed = false ∧
    (importFile [] 4 wT2 { mode := .strict } wG3).2.2 = .err ∧
    lookup (importFile [] 4 wT2 { mode := .strict } wG3).1 ["a", "P"] = some "g3.proto" ∧
    (importFile [] 4 (importFile [] 4 wT2 { mode := .strict } wG3).1 { mode := .strict } wG3).2.2 = .ok := by
  decide +kernel

end PCV.Props.C17

#print axioms PCV.Props.C17.import_fail_unchanged_refuted
#print axioms PCV.Props.C17.import_symCollision_unchanged_partial
#print axioms PCV.Props.C17.reimport_noop
#print axioms PCV.Props.C17X.ext_pass_failure_commits
#print axioms PCV.Props.C17X.reimport_after_ext_failure_is_silent
#print axioms PCV.Props.C17X.recorded_iff_check_passed
