/-
C02 — Compiled descriptors equal protoc's.

Proved (all inputs): the construction laws that fix the non-obvious content of a descriptor —
  * `jsonName_spec`      default JSON name = protoc `ToJsonName`;
  * `mapEntryName_spec`  synthetic map entry name = protoc `MapEntryName`;
  * `synthOneof_fresh`   synthetic oneofs of proto3 `optional` fields: one per field, fresh
                         w.r.t. every name of the message, pairwise distinct; the `X` loop ends;
  * `synthOneof_agrees`  Go's and protoc's synthetic names coincide when no nested type, enum,
                         enum value or extension of the message has a name the loop could produce
                         (a name starting with `_` or `X`); `synthOneof_differs` is the witness
                         that they do differ otherwise (then protoc rejects the file — the divergence
                         the project documents as intentional, exempted in C01);
  * `label_filled`       every field leaves the parser with a label;
  * `oneofIndex_valid`   every `oneof_index` (declared or synthetic) points at an existing oneof;
  * `typeName_qualified` a linked field's `type_name` is `"." ++` the full name that scoped
                         lookup (the C15 model) returned, and the inferred type is
                         MESSAGE/ENUM/GROUP accordingly.
Checked on every run by the oracle, not proved: equality of the whole projection with the
reference construction (`Spec.linkVerdict`: "descriptor-differs-from-reference").
-/
import PCV.Lemmas.MiniProtoNames
import PCV.Lemmas.MiniProtoBuild
namespace PCV.Props.C02
open PCV.MiniProto PCV.MiniProto.Spec

theorem jsonName_spec (s : List Char) : jsonNameChars s = protocJsonName s := PCV.MiniProto.jsonName_spec s

theorem mapEntryName_spec (s : List Char) : mapEntryNameChars s = protocMapEntryName s :=
  PCV.MiniProto.mapEntryName_spec s

theorem synthOneof_fresh (fs taken : List String) :
    (synthOneofNames taken fs).length = fs.length ∧
    (∀ n ∈ synthOneofNames taken fs, n ∉ taken) ∧ (synthOneofNames taken fs).Nodup :=
  PCV.MiniProto.synthOneof_fresh fs taken

/-- in the Go code the taken names are all names of the message, so a synthetic oneof never
    collides with a field, oneof, extension, enum, enum value or nested type of its message -/
theorem synthOneof_fresh_go (m : MsgD) (fs : List String) :
    ∀ n ∈ goNaming.synthNames m fs, n ∉ goAllNames m :=
  (PCV.MiniProto.synthOneof_fresh fs (goAllNames m)).2.1

/-! ### Go's name set vs protoc's -/

/-- the candidates of the loop: `X…X` + base -/
def candidate (k : Nat) (base : String) : String := String.ofList (List.replicate k 'X') ++ base

theorem freshLoop_congr (a b : List String) :
    ∀ (fuel : Nat) (n : String), (∀ k, a.contains (candidate k n) = b.contains (candidate k n)) →
      freshLoop a fuel n = freshLoop b fuel n := by
  intro fuel
  induction fuel with
  | zero => intro n _; rfl
  | succ fuel ih =>
    intro n h
    unfold freshLoop
    have h0 := h 0
    simp only [candidate, List.replicate_zero, String.ofList_nil, String.empty_append] at h0
    rw [h0]
    split
    · apply ih
      intro k
      have := h (k + 1)
      simp only [candidate, List.replicate_succ] at this ⊢
      have e : String.ofList ('X' :: List.replicate k 'X') ++ n = String.ofList (List.replicate k 'X') ++ ("X" ++ n) := by
        rw [← String.append_assoc]
        congr 1
        apply String.ext
        simp [String.toList_append]
        rw [← List.replicate_succ', List.replicate_succ]
      rw [e] at this
      exact this
    · rfl

/-- enough fuel is enough: the result does not depend on how much more there is -/
theorem freshLoop_fuel (names : List String) :
    ∀ (f1 f2 : Nat) (n : String), longer names n < f1 → longer names n < f2 →
      freshLoop names f1 n = freshLoop names f2 n := by
  intro f1
  induction f1 with
  | zero => intro f2 n h; omega
  | succ f1 ih =>
    intro f2 n h1 h2
    cases f2 with
    | zero => omega
    | succ f2 =>
      unfold freshLoop
      by_cases hn : n ∈ names
      · have hc : names.contains n = true := by simpa using hn
        simp only [hc, if_true]
        have := longer_step names n hn
        exact ih f2 _ (by omega) (by omega)
      · have hc : names.contains n = false := by simpa using hn
        simp only [hc, Bool.false_eq_true, if_false]

/-- a string the `X`-prefix loop can produce starts with `X` or `_` -/
def startsXU (s : String) : Bool :=
  match s.toList with
  | 'X' :: _ => true
  | '_' :: _ => true
  | _ => false

theorem startsXU_base (f : String) : startsXU (synthBase f) = true := by
  unfold synthBase
  by_cases h : startsWithUnderscore f = true
  · simp only [h, if_true]
    unfold startsWithUnderscore at h
    unfold startsXU
    split at h <;> simp_all
  · simp only [h, Bool.false_eq_true, if_false]
    unfold startsXU
    simp [String.toList_append]

theorem startsXU_candidate (k : Nat) (base : String) (h : startsXU base = true) :
    startsXU (candidate k base) = true := by
  cases k with
  | zero => simpa [candidate] using h
  | succ k =>
    unfold candidate startsXU
    simp [String.toList_append, List.replicate_succ]

/-- two name sets that contain the same loop candidates -/
def Agree (a b : List String) : Prop := ∀ c, startsXU c = true → a.contains c = b.contains c

theorem Agree.cons {a b : List String} (h : Agree a b) (n : String) : Agree (n :: a) (n :: b) := by
  intro c hc
  have := h c hc
  simp only [List.contains_cons, this]

theorem synthOneofName_agree {a b : List String} (h : Agree a b) (f : String) :
    synthOneofName a f = synthOneofName b f := by
  unfold synthOneofName
  have hcand : ∀ k, a.contains (candidate k (synthBase f)) = b.contains (candidate k (synthBase f)) :=
    fun k => h _ (startsXU_candidate k _ (startsXU_base f))
  have la := longer_le a (synthBase f)
  have lb := longer_le b (synthBase f)
  rw [freshLoop_fuel a (a.length + 1) (a.length + b.length + 1) _ (by omega) (by omega),
    freshLoop_fuel b (b.length + 1) (a.length + b.length + 1) _ (by omega) (by omega)]
  exact freshLoop_congr a b _ _ hcand

theorem synthOneofNames_agree (fs : List String) : ∀ {a b : List String}, Agree a b →
    synthOneofNames a fs = synthOneofNames b fs := by
  induction fs with
  | nil => intro a b _; rfl
  | cons f rest ih =>
    intro a b h
    unfold synthOneofNames
    rw [synthOneofName_agree h f]
    simp only
    rw [ih (h.cons _)]

/-- the names only the Go code takes into account -/
def extraNames (m : MsgD) : List String :=
  m.extensions.map (·.name) ++ (m.enums.flatMap (fun e => e.name :: e.values.map (·.1))) ++ m.nested

/-- **Go's and protoc's synthetic oneof names agree** unless an extension, enum, enum value or
    nested type of the message has a name starting with `_` or `X` -/
theorem synthOneof_agrees (m : MsgD) (fs : List String) (h : ∀ n ∈ extraNames m, startsXU n = false) :
    goNaming.synthNames m fs = protocNaming.synthNames m fs := by
  show synthOneofNames (goAllNames m) fs = synthOneofNames (protocAllNames m) fs
  apply synthOneofNames_agree
  intro c hc
  have hsplit : goAllNames m = protocAllNames m ++ extraNames m := by
    simp [goAllNames, protocAllNames, extraNames, List.append_assoc]
  rw [hsplit]
  have hnot : c ∉ extraNames m := by
    intro hmem
    have := h c hmem
    rw [hc] at this
    exact absurd this (by simp)
  simp [hnot]

/-- … and they do differ otherwise: message `M { optional int32 x = 1; message _x {} }` -/
theorem synthOneof_differs :
    let m : MsgD := { fullName := "p.M", name := "M",
                      fields := [{ name := "x", number := 1, label := some 1, type := some 5, jsonName := "x", proto3Optional := true }],
                      nested := ["_x"] }
    goNaming.synthNames m ["x"] = ["X_x"] ∧ protocNaming.synthNames m ["x"] = ["_x"] := by
  decide +kernel

/-! ### labels, oneof indices, type names -/

/-- after `ResultFromAST` (construction, validation, `fillInMissingLabels`) every field and
    extension of every message, and every top-level extension, has a label -/
theorem label_filled (ck : Checks) (nm : Naming) (f : FileA) :
    (∀ m ∈ (parsePhase ck nm f).1.msgs, ∀ fd ∈ m.fields ++ m.extensions, fd.label.isSome = true) ∧
    (∀ fd ∈ (parsePhase ck nm f).1.extensions, fd.label.isSome = true) := by
  have hfill : ∀ fd : FieldD, (fillLabel fd).label.isSome = true := by
    intro fd
    unfold fillLabel
    split
    · rfl
    · rename_i h; simp [h]
  simp only [parsePhase]
  constructor
  · intro m hm fd hfd
    obtain ⟨m0, _, rfl⟩ := List.mem_map.mp hm
    simp only [fillLabelsMsg] at hfd
    rcases List.mem_append.mp hfd with h | h
    · obtain ⟨fd0, _, rfl⟩ := List.mem_map.mp h; exact hfill fd0
    · obtain ⟨fd0, _, rfl⟩ := List.mem_map.mp h; exact hfill fd0
  · intro fd hfd
    obtain ⟨fd0, _, rfl⟩ := List.mem_map.mp hfd
    exact hfill fd0

/-- every `oneof_index` — of a declared oneof member or of a proto3 `optional` field's synthetic
    oneof — points at an existing `oneof_decl` of its message, for every file, at every nesting
    depth (invariant of the construction loop, by induction over the nesting) -/
theorem oneofIndex_valid (nm : Naming) (f : FileA) :
    ∀ m ∈ (buildFile nm f).1.msgs, ∀ fd ∈ m.fields, ∀ i, fd.oneofIndex = some i → i < m.oneofs.length :=
  buildFile_oneofOk nm f

/-- a field that links without error and has a `type_name` ends up with `"." ++` the full name
    returned by the scoped lookup (the C15 model `PCV.Resolve.resolveInEnv`, not re-proved here),
    which named a message or an enum, and with the matching type (MESSAGE = 11 / ENUM = 14 when
    the parser had left the type open, unchanged — GROUP = 10 — otherwise) -/
theorem typeName_qualified (env : Env) (root : Nat) (scope : String) (f : FieldD)
    (hty : f.typeName ≠ "") (hok : (resolveType env root scope f).2 = []) :
    ∃ n k, resolveRef env root scope f.typeName true = some (.elem n k) ∧
      (k = .msg ∨ k = .enum) ∧
      (resolveType env root scope f).1.typeName = "." ++ dotted n ∧
      (resolveType env root scope f).1.type =
        (match f.type with | some t => some t | none => some (if k = .msg then 11 else 14)) := by
  unfold resolveType at hok ⊢
  have hne : (f.typeName == "") = false := by simpa using hty
  simp only [hne, Bool.false_eq_true, if_false] at hok ⊢
  cases hr : resolveRef env root scope f.typeName true with
  | none => rw [hr] at hok; simp at hok
  | some d =>
    rw [hr] at hok
    cases d with
    | sentinel s => simp at hok
    | elem n k =>
      simp only at hok ⊢
      cases k with
      | msg =>
        simp only at hok ⊢
        by_cases hc : (isMapEntryMsg env (dotted n) && f.origin != FieldOrigin.map) = true
        · simp [hc] at hok
        · simp only [hc, Bool.false_eq_true, if_false]
          refine ⟨n, .msg, rfl, Or.inl rfl, rfl, ?_⟩
          cases f.type <;> simp
      | enum =>
        refine ⟨n, .enum, rfl, Or.inr rfl, rfl, ?_⟩
        cases f.type <;> simp
      | svc => simp at hok
      | field => simp at hok
      | ext => simp at hok
      | oneof => simp at hok
      | enumVal => simp at hok
      | method => simp at hok

/-! ### the statement that is not proved in Lean -/

/-- C02 at full strength on the modelled constructs: whenever the compiler and the reference both
    accept, their descriptors have the same projection (the reference names synthetic oneofs as
    the Go code does: documented divergence, see C01). Not proved in Lean;
    the oracle of the `link` engine evaluates exactly this statement on every generated
    workspace (`descriptor-differs-from-reference`). -/
def C02_full : Prop :=
  ∀ ws : Workspace, wellFormed ws = true →
    (compileWorkspace goChecks goNaming ws).errs = [] → (reference ws).errs = [] →
    projAll (compileWorkspace goChecks goNaming ws).files = projAll (reference ws).files

/-- non-vacuity: a proto3 file with an `optional` field, a map and a oneof is accepted by both
    sides and the projections coincide -/
def sample : Workspace :=
  [{ path := "s.proto", syn := .proto3, pkg := "a", imports := [], top := [.msg 0],
     msgs := [{ name := "M", elems := [
        .field { label := .optional, ty := "int32", name := "foo_bar", number := 1, json := none, packed := none, dflt := none },
        .map "string" "M" "by_name" 2,
        .oneof "o" [.field { label := .none, ty := ".a.M", name := "x", number := 3, json := none, packed := none, dflt := none }]] }],
     enums := [], svcs := [] }]

/-- the part of a descriptor the naming laws decide -/
def namingView (c : Compiled) : List (List (String × List String × List (String × String × String × Option Nat))) :=
  c.files.map (fun f => f.msgs.map (fun m =>
    (m.fullName, m.oneofs, m.fields.map (fun x => (x.name, x.jsonName, x.typeName, x.oneofIndex)))))

example : (compileWorkspace goChecks goNaming sample).errs = [] ∧ (reference sample).errs = [] ∧
    (namingView (compileWorkspace goChecks goNaming sample) == namingView (reference sample)) = true := by
  decide +kernel

end PCV.Props.C02

#print axioms PCV.Props.C02.jsonName_spec
#print axioms PCV.Props.C02.mapEntryName_spec
#print axioms PCV.Props.C02.synthOneof_fresh
#print axioms PCV.Props.C02.synthOneof_fresh_go
#print axioms PCV.Props.C02.synthOneof_agrees
#print axioms PCV.Props.C02.synthOneof_differs
#print axioms PCV.Props.C02.label_filled
#print axioms PCV.Props.C02.oneofIndex_valid
#print axioms PCV.Props.C02.typeName_qualified
