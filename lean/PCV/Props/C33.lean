/-
C33 — Incremental executor memoizes and invalidates exactly.

Model: `PCV.Model.Incr` (sequential semantics of experimental/incremental executor.go/task.go).
Query bodies are arbitrary `Script`s (trees of `Resolve` calls); "deterministic query" = the body
is a function of the answers it gets; "dependency graph" = `Ranked rank body` (every query only
resolves queries of smaller rank — a DAG).  All theorems are for arbitrary bodies, states
satisfying the invariant `Inv` (which every reachable state does: `reachable_inv`), roots, keys,
and fuel; `run … = some …` only says that the model run finished (fuel sufficed).

Proved here (sequential layer): from-scratch consistency over arbitrary histories of runs, input
changes and evictions; eviction removes exactly the evicted keys' transitive dependents and keeps
the invariant; a memoized query is never re-executed and a run executes every query at most once;
`Changed` is true exactly for the queries executed in the current run, for every observer.
The leader election that makes "at most once" hold under concurrency is the transition system
of `PCV.Props.C34` (`leader_unique`); concurrent runs on the real executor are checked by the
correspondence run (engine `incr`, ops `runc`).
-/
import PCV.Lemmas.IncrEval
import PCV.Lemmas.IncrEvict
namespace PCV.Props.C33
open PCV.Incr

/-! ### From-scratch consistency -/

/-- The invariant is preserved by `Run`. -/
theorem valid_preserved_run {body : Key → Script} {fuel : Nat} {st st' : St} {roots : List Key}
    {out : List (Res × Bool)} (hinv : Inv body st) (h : run body fuel st roots = some (st', out)) :
    Inv body st' := by
  obtain ⟨_, _, _, _, _, _, _, _, hinv', _⟩ := run_spec hinv h
  exact hinv'

/-- Every value returned by `Run` is the value a from-scratch evaluation of the query gives. -/
theorem run_sound {body : Key → Script} {rank : Key → Nat} {fuel : Nat} {st st' : St} {roots : List Key}
    {out : List (Res × Bool)} (hinv : Inv body st) (hrk : Ranked rank body)
    (h : run body fuel st roots = some (st', out)) : EvalL body roots (out.map (·.1)) := by
  obtain ⟨_, rs, _, _, _, _, _, _, hinv', _, hall, hout⟩ := run_spec hinv h
  have := hall.evalL hinv' hrk
  rw [hout]
  simpa [List.map_map, Function.comp_def] using this

/-- **From-scratch consistency.** In any state satisfying the invariant, `Run` returns exactly
    the values that a run on a brand-new executor returns. -/
theorem run_eq_fresh {body : Key → Script} {rank : Key → Nat} {f1 f2 : Nat} {st st1 st2 : St}
    {roots : List Key} {out1 out2 : List (Res × Bool)} (hinv : Inv body st) (hrk : Ranked rank body)
    (h1 : run body f1 st roots = some (st1, out1)) (h2 : run body f2 {} roots = some (st2, out2)) :
    out1.map (·.1) = out2.map (·.1) :=
  (run_sound hinv hrk h1).det (run_sound (Inv.empty body) hrk h2)

/-! ### Eviction -/

/-- `k` transitively depends on `k0` (through recorded `deps` edges) -/
inductive DependsOn (m : TaskMap) : Key → Key → Prop
  | refl (k : Key) : DependsOn m k k
  | step {k d k0 : Key} : d ∈ depsOf m k → DependsOn m d k0 → DependsOn m k k0

theorem dependsOn_trans {m : TaskMap} {a b c : Key} (h1 : DependsOn m a b) (h2 : DependsOn m b c) :
    DependsOn m a c := by
  induction h1 with
  | refl => exact h2
  | step hd _ ih => exact .step hd (ih h2)

/-- Under the invariant the evicted set (closure under `callers`) is exactly the set of queries
    that transitively depend on an evicted key that has a task. -/
theorem evicted_iff_dependsOn {body : Key → Script} {st : St} (hinv : Inv body st) (keys : List Key) (k : Key) :
    Evicted st keys k ↔ ∃ k0, k0 ∈ keys ∧ exists_ st.tasks k0 ∧ DependsOn st.tasks k k0 := by
  constructor
  · intro h
    induction h with
    | base hk =>
      rename_i k'
      have := List.mem_reverse.1 hk
      simp only [present, List.mem_filter] at this
      exact ⟨k', this.1, this.2, .refl _⟩
    | step _ hx ih =>
      obtain ⟨k0, h0, he, hd⟩ := ih
      exact ⟨k0, h0, he, .step ((hinv.sym _ _).2 hx) hd⟩
  · rintro ⟨k0, h0, he, hd⟩
    induction hd with
    | refl k' =>
      refine .base (List.mem_reverse.2 ?_)
      simp only [present, List.mem_filter]
      exact ⟨h0, he⟩
    | step hdep _ ih => exact .step (ih h0 he) ((hinv.sym _ _).1 hdep)

/-- **Eviction closure.** `Evict keys` removes exactly the evicted keys that have a task and
    the queries that transitively depend on them; every other task keeps its result and deps. -/
theorem evict_closure {body : Key → Script} {fuel : Nat} {st st' : St} {keys : List Key}
    (hinv : Inv body st) (h : evict fuel st keys = some st') (k : Key) :
    (exists_ st'.tasks k ↔ exists_ st.tasks k ∧
        ¬ ∃ k0, k0 ∈ keys ∧ exists_ st.tasks k0 ∧ DependsOn st.tasks k k0) ∧
    ((¬ ∃ k0, k0 ∈ keys ∧ exists_ st.tasks k0 ∧ DependsOn st.tasks k k0) →
        resultOf st'.tasks k = resultOf st.tasks k ∧ depsOf st'.tasks k = depsOf st.tasks k) := by
  obtain ⟨_, _, _, hdead, hlive, _⟩ := evict_spec h
  rw [← evicted_iff_dependsOn hinv]
  constructor
  · by_cases he : Evicted st keys k
    · have := hdead k he
      simp [exists_, this, he]
    · obtain ⟨_, _, hex, _⟩ := hlive k he
      simp [hex, he]
  · intro he
    obtain ⟨hr, hd, _⟩ := hlive k he
    exact ⟨hr, hd⟩

/-- **Invalidation is sufficient.** If the bodies change only on `keys` (the inputs that were
    edited) and those keys are evicted, the invariant holds again for the new bodies — so by
    `run_eq_fresh` every later run agrees with a from-scratch computation on the new inputs. -/
theorem valid_after_change {body body' : Key → Script} {fuel : Nat} {st st' : St} {keys : List Key}
    (hinv : Inv body st) (hsame : ∀ k, k ∉ keys → body' k = body k)
    (h : evict fuel st keys = some st') : Inv body' st' := by
  obtain ⟨hc, _, _, hdead, hlive, hunl⟩ := evict_spec h
  have hdeadv : ∀ k, Evicted st keys k → resultOf st'.tasks k = .none ∧ depsOf st'.tasks k = [] ∧ callersOf st'.tasks k = [] := by
    intro k hk
    have := hdead k hk
    simp [resultOf, depsOf, callersOf, this]
  -- a surviving task's deps survive
  have hdepalive : ∀ k d, ¬ Evicted st keys k → d ∈ depsOf st.tasks k → ¬ Evicted st keys d := by
    intro k d hk hd hde
    exact hk (.step hde ((hinv.sym k d).1 hd))
  refine { sym := ?_, replay := ?_, runid := ?_ }
  · intro c d
    by_cases hcE : Evicted st keys c
    · rw [(hdeadv c hcE).2.1]
      constructor
      · intro hh; cases hh
      · intro hmem
        exfalso
        by_cases hdE : Evicted st keys d
        · rw [(hdeadv d hdE).2.2] at hmem; cases hmem
        · have h1 := (hlive d hdE).2.2.2.1 c hmem
          exact hunl c d hcE ((hinv.sym c d).2 h1) hmem
    · obtain ⟨_, hdc, _, _, _⟩ := hlive c hcE
      rw [hdc]
      constructor
      · intro hd
        have hdE := hdepalive c d hcE hd
        exact (hlive d hdE).2.2.2.2 c ((hinv.sym c d).1 hd) hcE
      · intro hmem
        by_cases hdE : Evicted st keys d
        · rw [(hdeadv d hdE).2.2] at hmem; cases hmem
        · exact (hinv.sym c d).2 ((hlive d hdE).2.2.2.1 c hmem)
  · intro k r hr
    by_cases hkE : Evicted st keys k
    · rw [(hdeadv k hkE).1] at hr; cases hr
    · obtain ⟨hrk, hdk, _, _, _⟩ := hlive k hkE
      rw [hrk] at hr
      obtain ⟨ds, hrep, hds⟩ := hinv.replay k r hr
      have hknot : k ∉ keys := by
        intro hin
        apply hkE
        refine .base (List.mem_reverse.2 ?_)
        simp only [present, List.mem_filter]
        refine ⟨hin, ?_⟩
        simp only [resultOf] at hr
        cases hg : st.tasks.get k with
        | none => simp [hg] at hr
        | some t => rfl
      rw [hsame k hknot]
      refine ⟨ds, hrep.congr (fun d hd => ?_), fun d hd => by rw [hdk]; exact hds d hd⟩
      have hdE := hdepalive k d hkE (hds d hd)
      unfold memo
      rw [(hlive d hdE).1]
  · intro k r hr
    by_cases hkE : Evicted st keys k
    · rw [(hdeadv k hkE).1] at hr; cases hr
    · rw [(hlive k hkE).1] at hr
      rw [hc]; exact hinv.runid k r hr

/-- `Evict` alone (no input change) preserves the invariant. -/
theorem valid_preserved_evict {body : Key → Script} {fuel : Nat} {st st' : St} {keys : List Key}
    (hinv : Inv body st) (h : evict fuel st keys = some st') : Inv body st' :=
  valid_after_change hinv (fun _ _ => rfl) h

/-! ### At most once; `Changed` -/

/-- What one `Run` does to the execution log and the `Changed` observations. -/
theorem run_log_obs {body : Key → Script} {fuel : Nat} {st st' : St} {roots : List Key}
    {out : List (Res × Bool)} (hinv : Inv body st) (h : run body fuel st roots = some (st', out)) :
    ∃ new newobs, st'.log = st.log ++ new ∧ st'.obs = st.obs ++ newobs ∧
      -- each query is executed at most once, and only if it was not memoized
      new.Nodup ∧ (∀ k ∈ new, resultOf st.tasks k = .none ∧ ∃ r, resultOf st'.tasks k = .done r) ∧
      -- memoized results are kept
      (∀ k r, resultOf st.tasks k = .done r → resultOf st'.tasks k = .done r) ∧
      -- Changed flag of every observation ⇔ executed during this run
      (∀ o ∈ newobs, o.1 = st.counter + 1 ∧ (o.2.2 = true ↔ o.2.1 ∈ new)) ∧
      -- … also for the flags returned for the roots
      (out.length = roots.length ∧
        ∀ i (h1 : i < roots.length) (h2 : i < out.length), (out[i].2 = true ↔ roots[i] ∈ new)) := by
  obtain ⟨st0, rs, hc0, hl0, ho0, hr0, _, _, _, hext, hall, hout⟩ := run_spec hinv h
  obtain ⟨new, hl, hnd, hk, hb⟩ := hext.log
  obtain ⟨newobs, ho, hp⟩ := hext.obs
  have hflag : ∀ k r, resultOf st'.tasks k = .done r → ((r.runID == st.counter + 1) = true ↔ k ∈ new) := by
    intro k r hr
    constructor
    · intro hg
      rcases hb k r hr with h1 | h1
      · rw [hr0] at h1
        have := hinv.runid k r h1
        simp only [beq_iff_eq] at hg
        omega
      · exact h1
    · intro hin
      obtain ⟨_, r', hr', hg⟩ := hk k hin
      rw [hr] at hr'
      cases hr'
      simp [hg]
  refine ⟨new, newobs, by rw [hl, hl0], by rw [ho, ho0], hnd, ?_, ?_, ?_, ?_⟩
  · intro k hin
    obtain ⟨hn, r, hr, _⟩ := hk k hin
    exact ⟨by rw [← hr0]; exact hn, r, hr⟩
  · intro k r hr
    exact hext.done k r (by rw [hr0]; exact hr)
  · intro o ho'
    obtain ⟨hg, r, hr, hf⟩ := hp o ho'
    refine ⟨hg, ?_⟩
    rw [hf]
    exact hflag _ r hr
  · have hlen : rs.length = roots.length := hall.length_eq
    refine ⟨by rw [hout, List.length_map, hlen], ?_⟩
    intro i h1 h2
    have hri : i < rs.length := by rw [hlen]; exact h1
    have hdone : resultOf st'.tasks roots[i] = .done rs[i] := hall.get i h1 hri
    have : out[i].2 = (rs[i].runID == st.counter + 1) := by
      simp [hout]
    rw [this]
    exact hflag _ _ hdone

/-- **At most once.** Within one run no query executes twice, and a query that has a memoized
    result is not executed at all (so between two executions of a query there is an eviction
    that removed it: `evict_closure`). -/
theorem at_most_once {body : Key → Script} {fuel : Nat} {st st' : St} {roots : List Key}
    {out : List (Res × Bool)} (hinv : Inv body st) (h : run body fuel st roots = some (st', out)) :
    ∃ new, st'.log = st.log ++ new ∧ new.Nodup ∧ ∀ k ∈ new, ∀ r, resultOf st.tasks k ≠ .done r := by
  obtain ⟨new, _, hl, _, hnd, hk, _⟩ := run_log_obs hinv h
  exact ⟨new, hl, hnd, fun k hin r hr => (by rw [(hk k hin).1] at hr; cases hr)⟩

/-- sequence of runs without eviction -/
def runMany (body : Key → Script) (fuel : Nat) : St → List (List Key) → Option St
  | st, [] => some st
  | st, roots :: rest =>
    match run body fuel st roots with
    | none => none
    | some (st1, _) => runMany body fuel st1 rest

/-- **At most once between evictions**: over any sequence of runs with no eviction in between,
    every query is executed at most once, and never if it was memoized at the start. -/
theorem at_most_once_between_evictions {body : Key → Script} {fuel : Nat} :
    ∀ (rootss : List (List Key)) (st st' : St), Inv body st → runMany body fuel st rootss = some st' →
    Inv body st' ∧ (∀ k r, resultOf st.tasks k = .done r → resultOf st'.tasks k = .done r) ∧
    ∃ new, st'.log = st.log ++ new ∧ new.Nodup ∧
      ∀ k ∈ new, (∀ r, resultOf st.tasks k ≠ .done r) ∧ ∃ r, resultOf st'.tasks k = .done r := by
  intro rootss
  induction rootss with
  | nil =>
    intro st st' hinv h
    simp only [runMany, Option.some.injEq] at h
    subst h
    exact ⟨hinv, fun _ _ h => h, [], by simp, List.nodup_nil, by simp⟩
  | cons roots rest ih =>
    intro st st' hinv h
    simp only [runMany] at h
    cases hr : run body fuel st roots with
    | none => simp [hr] at h
    | some q =>
      obtain ⟨st1, out⟩ := q
      simp only [hr] at h
      obtain ⟨n1, _, hl1, _, hnd1, hk1, hd1, _⟩ := run_log_obs hinv hr
      obtain ⟨hinv', hd2, n2, hl2, hnd2, hk2⟩ := ih st1 st' (valid_preserved_run hinv hr) h
      refine ⟨hinv', fun k r hh => hd2 k r (hd1 k r hh), n1 ++ n2, by rw [hl2, hl1, List.append_assoc], ?_, ?_⟩
      · rw [List.nodup_append]
        refine ⟨hnd1, hnd2, ?_⟩
        intro x hx y hy hxy
        subst hxy
        obtain ⟨_, r, hr'⟩ := hk1 x hx
        exact (hk2 x hy).1 r hr'
      · intro k hin
        rcases List.mem_append.1 hin with h1 | h1
        · obtain ⟨hn, r, hr'⟩ := hk1 k h1
          exact ⟨fun r' hh => (by rw [hn] at hh; cases hh), r, hd2 k r hr'⟩
        · obtain ⟨hn, r, hr'⟩ := hk2 k h1
          exact ⟨fun r' hh => hn r' (hd1 k r' hh), r, hr'⟩

/-- **Changed ⇔ computed during the current run**, for every `Resolve` observation and every root. -/
theorem changed_iff_this_run {body : Key → Script} {fuel : Nat} {st st' : St} {roots : List Key}
    {out : List (Res × Bool)} (hinv : Inv body st) (h : run body fuel st roots = some (st', out)) :
    ∃ new newobs, st'.log = st.log ++ new ∧ st'.obs = st.obs ++ newobs ∧
      (∀ o ∈ newobs, (o.2.2 = true ↔ o.2.1 ∈ new)) ∧
      (∀ i (h1 : i < roots.length) (h2 : i < out.length), (out[i].2 = true ↔ roots[i] ∈ new)) := by
  obtain ⟨new, newobs, hl, ho, _, _, _, hobs, _, hroots⟩ := run_log_obs hinv h
  exact ⟨new, newobs, hl, ho, fun o ho' => (hobs o ho').2, hroots⟩

/-- **Every caller in the run sees the same flag**: two observations of the same query in one
    run carry the same `Changed` value. -/
theorem changed_consistent {body : Key → Script} {fuel : Nat} {st st' : St} {roots : List Key}
    {out : List (Res × Bool)} (hinv : Inv body st) (h : run body fuel st roots = some (st', out)) :
    ∃ newobs, st'.obs = st.obs ++ newobs ∧
      ∀ o1 ∈ newobs, ∀ o2 ∈ newobs, o1.2.1 = o2.2.1 → o1.2.2 = o2.2.2 := by
  obtain ⟨new, newobs, _, ho, hobs, _⟩ := changed_iff_this_run hinv h
  refine ⟨newobs, ho, fun o1 h1 o2 h2 hk => ?_⟩
  have a := hobs o1 h1
  have b := hobs o2 h2
  rw [hk] at a
  cases h1' : o1.2.2 <;> cases h2' : o2.2.2 <;> simp_all

/-! ### Arbitrary histories -/

/-- A system: the current query bodies (they embed the current inputs) and the executor state. -/
structure Sys where
  body : Key → Script
  st : St

/-- States reachable from a brand-new executor by any history of `Run`s and of input changes
    followed by eviction of the changed keys (`keys` may contain more keys than were changed;
    with `body' = body` this is a plain `Evict`). All bodies are DAGs for the same rank. -/
inductive Reachable (rank : Key → Nat) : Sys → Prop
  | init (body : Key → Script) : Ranked rank body → Reachable rank ⟨body, {}⟩
  | run {sys : Sys} {fuel : Nat} {roots : List Key} {st' : St} {out : List (Res × Bool)} :
      Reachable rank sys → run sys.body fuel sys.st roots = some (st', out) → Reachable rank ⟨sys.body, st'⟩
  | change {sys : Sys} {fuel : Nat} {keys : List Key} {st' : St} (body' : Key → Script) :
      Reachable rank sys → Ranked rank body' → (∀ k, k ∉ keys → body' k = sys.body k) →
      evict fuel sys.st keys = some st' → Reachable rank ⟨body', st'⟩

theorem reachable_inv {rank : Key → Nat} {sys : Sys} (h : Reachable rank sys) :
    Inv sys.body sys.st ∧ Ranked rank sys.body := by
  induction h with
  | init body hr => exact ⟨Inv.empty body, hr⟩
  | run _ hrun ih => exact ⟨valid_preserved_run ih.1 hrun, ih.2⟩
  | change body' _ hr hsame hev ih => exact ⟨valid_after_change ih.1 hsame hev, hr⟩

/-- **C33, from-scratch consistency over histories.** After any history of runs, input changes
    and evictions of the changed keys, a run returns exactly what a run on a brand-new
    executor with the current inputs returns. -/
theorem history_run_eq_fresh {rank : Key → Nat} {sys : Sys} (hreach : Reachable rank sys)
    {f1 f2 : Nat} {roots : List Key} {st1 st2 : St} {out1 out2 : List (Res × Bool)}
    (h1 : run sys.body f1 sys.st roots = some (st1, out1))
    (h2 : run sys.body f2 {} roots = some (st2, out2)) : out1.map (·.1) = out2.map (·.1) :=
  run_eq_fresh (reachable_inv hreach).1 (reachable_inv hreach).2 h1 h2

/-! ### Non-vacuity: a concrete diamond  3 → {1,2} → 0  runs, is evicted, and re-runs -/

def sumScript (base : Int) (ks : List Key) : Script :=
  .resolve ks (fun rs => .ret (.ok (rs.foldl (fun acc r => match r with | .ok v => acc + v | _ => acc) base)))

def diamond (x : Int) : Key → Script
  | 0 => .ret (.ok x)
  | 1 => sumScript 1 [0]
  | 2 => sumScript 2 [0]
  | 3 => sumScript 3 [1, 2]
  | _ => .ret (.fatal 0)

theorem diamond_ranked (x : Int) : Ranked (fun k => k) (diamond x) := by
  intro k
  match k with
  | 0 => exact .ret _
  | 1 => exact .resolve _ _ (by simp) (fun _ => .ret _)
  | 2 => exact .resolve _ _ (by simp) (fun _ => .ret _)
  | 3 => exact .resolve _ _ (by simp) (fun _ => .ret _)
  | n + 4 => exact .ret _

/-- the model run terminates on the diamond and gives 3 + (1 + x) + (2 + x); after changing
    the input `0` and evicting it, exactly 0,1,2,3 are recomputed. -/
example : (run (diamond 5) 10 {} [3]).map (fun p => (p.2, p.1.log)) = some ([(.ok 16, true)], [0, 1, 2, 3]) := by
  decide +kernel

example :
    ((run (diamond 5) 10 {} [3]).bind (fun p => evict 100 p.1 [0])).bind
      (fun st => (run (diamond 7) 10 st [3, 1]).map (fun p => (p.2, p.1.log)))
      = some ([(.ok 20, true), (.ok 8, true)], [0, 1, 2, 3, 0, 1, 2, 3]) := by
  decide +kernel

#print axioms run_eq_fresh
#print axioms valid_preserved_run
#print axioms evict_closure
#print axioms evicted_iff_dependsOn
#print axioms valid_after_change
#print axioms at_most_once
#print axioms at_most_once_between_evictions
#print axioms changed_iff_this_run
#print axioms changed_consistent
#print axioms reachable_inv
#print axioms history_run_eq_fresh
end PCV.Props.C33
