/-
C32 — Line/column conversion round-trips (`experimental/source/file.go`).

Property (full strength): for any text and any offset on a character boundary, converting the
offset to (line, column) with `File.Location` and back with `File.InverseLocation` returns the
offset, for byte, UTF-16 and rune columns, including the end of the file and an empty last
line; the line number is one plus the number of newlines before the offset.

Result for the code as it is (model `PCV.SourceLoc`, tied to the Go code by the `sourceloc`
engine):
* the line-number clause holds for every text, offset and unit (`location_line`), and the line
  index is exactly "0, then the offset after each newline" (`lines_spec`);
* the round trip holds for byte columns at every offset (`roundTrip_bytes`), and for all three
  units at every boundary strictly inside the file (`roundTrip_interior_partial`), and at the end
  of a file whose last byte is ASCII other than newline (`roundTrip_eof_ascii`);
* `C32_exact` characterises exactly the inputs on which the round trip holds;
* the full statement is FALSE (`C32_full_refuted`): for Runes and UTF16 the loops of
  `inverseLocation` run off the end of the last line and return "start of its last rune + 1".
  So every non-empty file that ends in a newline is affected (`roundTrip_eof_after_newline`:
  the result is one past the end of the file) and so is a file whose last character is
  multi-byte (`witness_multibyte_eof_*`).

"Character boundary" is `IsBoundary`: reachable from 0 by whole decoding steps of Go's decoder
(ill-formed bytes are one-byte characters). It coincides with the executable `boundaries` used
by the oracle (`isBoundary_iff_boundaries`) and contains every ordinary character boundary of
well-formed UTF-8 (`isBoundary_of_wellformed`).
-/
import PCV.Lemmas.SourceLoc
import PCV.Lemmas.SourceLocPatched
namespace PCV.Props.C32
open PCV.SourceLoc PCV.Utf8

/-! ### line index and line number -/

/-- `(*File).lines` is 0 followed by the offset just after each newline byte, in order. -/
theorem lines_spec (t : List UInt8) : lines t = 0 :: nlAfter t 0 := lines_eq t

/-- `LineByOffset` (0-based) is the number of newline bytes before the offset. -/
theorem lineByOffset_spec (t : List UInt8) (o : Nat) : lineByOffset t o = (t.take o).count NL :=
  lineIndex_lines t o

/-- The line reported by `File.Location` is one plus the number of newlines before the offset
    (every text, every offset — boundary or not —, every unit). -/
theorem location_line (t : List UInt8) (o : Nat) (u : LUnit) :
    (location t o u).1 = 1 + (t.take o).count NL := by
  simp only [location]
  split
  · next h => subst h; simp
  · show lineIndex (lines t) o + 1 = _
    rw [lineIndex_lines]; omega

/-- Same for the unexported `location` (no `offset == 0` shortcut). -/
theorem locationRaw_line (t : List UInt8) (o : Nat) (u : LUnit) :
    (locationRaw t o u).1 = 1 + (t.take o).count NL := by
  show lineIndex (lines t) o + 1 = _
  rw [lineIndex_lines]; omega

/-! ### the full statement, and its refutation -/

/-- C32 at full strength. -/
def C32_full : Prop :=
  ∀ (t : List UInt8) (o : Nat) (u : LUnit), IsBoundary t o → roundTrip t o u = (o : Int)

/-- `"a\n"`, offset 2 (the empty last line): Runes gives 3, which is past the end of the file. -/
theorem witness_empty_last_line_runes : roundTrip [0x61, 0x0A] 2 .runes = 3 := by decide
theorem witness_empty_last_line_utf16 : roundTrip [0x61, 0x0A] 2 .utf16 = 3 := by decide
/-- `"aé"`, offset 3 (end of file after a 2-byte character): Runes gives 2, inside the `é`. -/
theorem witness_multibyte_eof_runes : roundTrip [0x61, 0xC3, 0xA9] 3 .runes = 2 := by decide
theorem witness_multibyte_eof_utf16 : roundTrip [0x61, 0xC3, 0xA9] 3 .utf16 = 2 := by decide

theorem witness_is_boundary : IsBoundary [0x61, 0x0A] 2 := isBoundary_length [0x61, 0x0A]

theorem C32_full_refuted : ¬ C32_full := by
  intro h
  have := h [0x61, 0x0A] 2 .runes witness_is_boundary
  rw [witness_empty_last_line_runes] at this
  exact absurd this (by decide)

/-! ### what does hold -/

/-- Byte columns round-trip at every offset of the file. -/
theorem roundTrip_bytes (t : List UInt8) (o : Nat) (ho : o ≤ t.length) :
    roundTrip t o .bytes = (o : Int) :=
  roundTrip_of_raw t o .bytes ho (inverseRaw_location_bytes t o ho)

/-- All three units round-trip at every character boundary strictly before the end of file. -/
theorem roundTrip_interior_partial (t : List UInt8) (o : Nat) (u : LUnit)
    (hb : IsBoundary t o) (hlt : o < t.length) : roundTrip t o u = (o : Int) :=
  roundTrip_of_raw t o u hb.le (inverseRaw_location_interior t o u hb hlt)

/-- All three units round-trip at the end of a file whose last byte is ASCII and not a newline. -/
theorem roundTrip_eof_ascii (t' : List UInt8) (b : UInt8) (hb : b.toNat < 0x80) (hnl : b ≠ NL)
    (u : LUnit) : roundTrip (t' ++ [b]) (t' ++ [b]).length u = ((t' ++ [b]).length : Nat) :=
  roundTrip_of_raw _ _ u (Nat.le_refl _) (inverseRaw_location_eof_ascii t' b hb hnl u)

/-- The empty file. -/
theorem roundTrip_empty (u : LUnit) : roundTrip [] 0 u = 0 := by cases u <;> decide

/-- The text ends with an ASCII byte other than newline. -/
def EndsAsciiNotNL (t : List UInt8) : Prop := ∃ t' b, t = t' ++ [b] ∧ b.toNat < 0x80 ∧ b ≠ NL

/-- Strongest round-trip statement that is true of the code as it is. -/
theorem C32_partial (t : List UInt8) (o : Nat) (u : LUnit) (hb : IsBoundary t o)
    (h : u = .bytes ∨ o < t.length ∨ EndsAsciiNotNL t ∨ t = []) :
    roundTrip t o u = (o : Int) := by
  rcases h with rfl | h | ⟨t', b, rfl, hb1, hb2⟩ | rfl
  · exact roundTrip_bytes t o hb.le
  · exact roundTrip_interior_partial t o u hb h
  · by_cases hlt : o < (t' ++ [b]).length
    · exact roundTrip_interior_partial _ o u hb hlt
    · have : o = (t' ++ [b]).length := by have := hb.le; omega
      subst this; exact roundTrip_eof_ascii t' b hb1 hb2 u
  · have : o = 0 := by have := hb.le; simpa using this
    subst this; exact roundTrip_empty u

/-! ### the defect, in general -/

/-- Every file that ends in a newline: at the end of the file (the empty last line) the Runes
    and UTF16 round trips return one past the end of the file. -/
theorem roundTrip_eof_after_newline (t' : List UInt8) (u : LUnit) (hu : u ≠ .bytes) :
    roundTrip (t' ++ [NL]) (t' ++ [NL]).length u = ((t' ++ [NL]).length : Nat) + 1 := by
  have hline : (locationRaw (t' ++ [NL]) (t' ++ [NL]).length u).1 ≠ 1 := by
    rw [locationRaw_line, List.take_length, List.count_append]
    simp [NL]
  have h0 : (t' ++ [NL]).length ≠ 0 := by simp
  simp only [roundTrip, location, if_neg h0, inverseLocation]
  rw [if_neg (fun h => hline h.1)]
  exact inverseRaw_location_eof_nl t' u hu

/-- …so the full statement fails on every newline-terminated file, not just on the witness. -/
theorem roundTrip_eof_after_newline_ne (t' : List UInt8) (u : LUnit) (hu : u ≠ .bytes) :
    roundTrip (t' ++ [NL]) (t' ++ [NL]).length u ≠ ((t' ++ [NL]).length : Nat) := by
  rw [roundTrip_eof_after_newline t' u hu]; omega

/-- Exactly when the Runes/UTF16 round trip succeeds at the end of a non-empty file: the file
    ends with a one-byte character (ASCII or an ill-formed byte) that is not a newline. -/
theorem roundTrip_eof_iff (t : List UInt8) (hne : t ≠ []) (u : LUnit) (hu : u ≠ .bytes) :
    roundTrip t t.length u = ((t.length : Nat) : Int) ↔ EndsOneByteChar t := by
  have h0 : t.length ≠ 0 := fun h => hne (List.eq_nil_of_length_eq_zero h)
  rw [roundTrip_eq_raw t t.length u h0 (Nat.le_refl _)]
  constructor
  · exact endsOneByteChar_of_eof t hne u hu
  · rintro ⟨A, b, rfl, hbd, hnl⟩
    exact inverseRaw_location_eof_onebyte A b hbd hnl u

/-- Exact characterisation of the inputs on which the round trip holds (all texts, all boundary
    offsets, all units): everything except the end of a non-empty file that does not end with a
    one-byte non-newline character, for Runes and UTF16. -/
theorem C32_exact (t : List UInt8) (o : Nat) (u : LUnit) (hb : IsBoundary t o) :
    roundTrip t o u = (o : Int) ↔
      (u = .bytes ∨ o < t.length ∨ t = [] ∨ EndsOneByteChar t) := by
  constructor
  · intro h
    by_cases hu : u = .bytes
    · exact Or.inl hu
    · by_cases hlt : o < t.length
      · exact Or.inr (Or.inl hlt)
      · by_cases hne : t = []
        · exact Or.inr (Or.inr (Or.inl hne))
        · have : o = t.length := by have := hb.le; omega
          subst this
          exact Or.inr (Or.inr (Or.inr ((roundTrip_eof_iff t hne u hu).mp h)))
  · rintro (rfl | hlt | rfl | he)
    · exact roundTrip_bytes t o hb.le
    · exact roundTrip_interior_partial t o u hb hlt
    · have : o = 0 := by have := hb.le; simpa using this
      subst this; exact roundTrip_empty u
    · by_cases hlt : o < t.length
      · exact roundTrip_interior_partial t o u hb hlt
      · have : o = t.length := by have := hb.le; omega
        subst this
        by_cases hu : u = .bytes
        · subst hu; exact roundTrip_bytes t _ (Nat.le_refl _)
        · have hne : t ≠ [] := by
            obtain ⟨A, b, rfl, -⟩ := he; simp
          exact (roundTrip_eof_iff t hne u hu).mpr he

/-! ### the candidate fix -/

/-- With the candidate patch to `inverseLocation` (see `PCV/Lemmas/SourceLocPatched.lean`; not the
    model of the current code) the full statement holds. -/
theorem C32_full_after_patch (t : List UInt8) (o : Nat) (u : LUnit) (hb : IsBoundary t o) :
    Patched.roundTrip t o u = (o : Int) := Patched.C32_full_after_patch t o u hb

/-! ### the notion of boundary -/

/-- The oracle's executable enumeration of boundaries is exactly `IsBoundary`. -/
theorem isBoundary_iff_boundaries (t : List UInt8) (o : Nat) :
    IsBoundary t o ↔ o ∈ boundaries t := isBoundary_iff_mem_boundaries t o

/-- Ordinary character boundaries of well-formed UTF-8 are boundaries: after any whole number of
    encoded scalar values, whatever follows. -/
theorem isBoundary_of_wellformed (pre : List Nat) (hpre : ∀ r ∈ pre, IsScalar r)
    (tail : List UInt8) : IsBoundary (encodeAll pre ++ tail) (encodeAll pre).length :=
  isBoundary_encodeAll pre hpre tail

/-- Round trip inside well-formed text, stated on characters: `pre` then at least one more
    character `c`, then anything. -/
theorem roundTrip_wellformed_interior (pre : List Nat) (c : Nat) (tail : List UInt8)
    (hpre : ∀ r ∈ pre, IsScalar r) (u : LUnit) :
    roundTrip (encodeAll pre ++ (encodeRune c ++ tail)) (encodeAll pre).length u =
      ((encodeAll pre).length : Nat) := by
  apply roundTrip_interior_partial _ _ u (isBoundary_of_wellformed pre hpre _)
  have := encodeRune_length_pos c
  simp only [List.length_append]; omega

/-! ### non-vacuity -/

-- `"a€\nb"`: offset 4 (after the 3-byte `€`) is an interior boundary; the hypotheses of
-- `roundTrip_interior_partial` are satisfiable and its conclusion is the computed value.
example : IsBoundary [0x61, 0xE2, 0x82, 0xAC, 0x0A, 0x62] 4 ∧ 4 < [0x61, 0xE2, 0x82, 0xAC, 0x0A, 0x62].length :=
  ⟨(isBoundary_iff_boundaries _ _).mpr (by decide), by decide⟩
example : location [0x61, 0xE2, 0x82, 0xAC, 0x0A, 0x62] 4 .utf16 = (1, 3) := by decide
example : roundTrip [0x61, 0xE2, 0x82, 0xAC, 0x0A, 0x62] 4 .utf16 = 4 := by decide
example : EndsAsciiNotNL [0x61, 0x0A, 0x62] := ⟨[0x61, 0x0A], 0x62, rfl, by decide, by decide⟩
-- 2 is not a boundary of `"a€"` (inside the `€`).
example : ¬ IsBoundary [0x61, 0xE2, 0x82, 0xAC] 2 := by
  rw [isBoundary_iff_boundaries]; decide

end PCV.Props.C32

#print axioms PCV.Props.C32.lines_spec
#print axioms PCV.Props.C32.lineByOffset_spec
#print axioms PCV.Props.C32.location_line
#print axioms PCV.Props.C32.C32_full_refuted
#print axioms PCV.Props.C32.witness_empty_last_line_runes
#print axioms PCV.Props.C32.witness_empty_last_line_utf16
#print axioms PCV.Props.C32.witness_multibyte_eof_runes
#print axioms PCV.Props.C32.witness_multibyte_eof_utf16
#print axioms PCV.Props.C32.roundTrip_bytes
#print axioms PCV.Props.C32.roundTrip_interior_partial
#print axioms PCV.Props.C32.roundTrip_eof_ascii
#print axioms PCV.Props.C32.C32_partial
#print axioms PCV.Props.C32.roundTrip_eof_after_newline
#print axioms PCV.Props.C32.roundTrip_eof_after_newline_ne
#print axioms PCV.Props.C32.roundTrip_eof_iff
#print axioms PCV.Props.C32.C32_exact
#print axioms PCV.Props.C32.C32_full_after_patch
#print axioms PCV.Props.C32.isBoundary_iff_boundaries
#print axioms PCV.Props.C32.isBoundary_of_wellformed
#print axioms PCV.Props.C32.roundTrip_wellformed_interior
