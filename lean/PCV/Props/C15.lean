/-
C15 — Relative name resolution follows protoc scoping.

Go side  (`PCV.Resolve.resolve` …): a LIST OF SCOPE CLOSURES — one closure per enclosing
          message, plus ONE closure for the file that walks `CreatePrefixList(pkg)`.
protoc   (`PCV.Resolve.protocLookup`): ONE LOOP that chops the last component off
          `relative_to` (`DescriptorBuilder::LookupSymbolNoPlaceholder`).

Results, for every symbol table `find`, package, enclosing scope and reference:
  * `resolve_eq_protoc_lookupAll`   extendee / method type / option-extension references
    (`onlyTypes = false`, protoc's LOOKUP_ALL): the two agree exactly — found element,
    stop-with-sentinel ("resolved to X which is not defined" / a package) and not-found.
  * `C15_full_refuted`              field-type references (`onlyTypes = true`, LOOKUP_TYPES):
    the full statement is FALSE of the code as it is. The file scope returns the first non-nil
    match among the package prefixes, so a non-type `a.b.X` hides a type `a.X` that protoc finds.
  * `resolve_types_partial`         they agree whenever no non-type match of the simple name at
    one package level is followed by a type match at an outer level (and always for qualified
    and absolute names).
  * `resolveFixed_eq_protoc`        with one scope per package prefix (the proposed patch) the
    full statement holds.
-/
import PCV.Model.Resolve
import PCV.Props.C18
namespace PCV.Props.C15
open PCV.Resolve

/-! ### Vocabulary shared by both sides -/

/-- how Go sees a protoc symbol: a PACKAGE is the namespace sentinel -/
def toDesc (n : Name) : PKind → Desc
  | .k x => .elem n x
  | .package => .sentinel n

/-- Go's `resolveElement` over the same symbol table as protoc's `FindSymbol`. -/
def goQ (find : Find) : Query := fun n => (find n).map (toDesc n)

@[simp] theorem toDesc_isAggregate (n : Name) (k : PKind) : (toDesc n k).isAggregate = k.isAggregate := by
  cases k <;> rfl

@[simp] theorem toDesc_isType (n : Name) (k : PKind) : (toDesc n k).isType = k.isType := by
  cases k <;> rfl

@[simp] theorem toGo_found (n : Name) (k : PKind) : (PRes.found n k).toGo = some (toDesc n k) := by
  cases k <;> rfl

@[simp] theorem toGo_resolvedUndefined (n : Name) : (PRes.resolvedUndefined n).toGo = some (.sentinel n) := rfl

@[simp] theorem toGo_notDefined : PRes.notDefined.toGo = none := rfl

theorem typeView_some_of_isType (d : Desc) (h : d.isType = false) : typeView (some d) = none := by
  cases d with
  | elem n k => simp [Desc.isType] at h; simp [typeView, h]
  | sentinel n => rfl

/-- the message scopes query only the current file; for names below a message of this file
    that is the same as asking all visible files (see `hs_of_wf` for concrete schemas) -/
def HS (qF : Query) (find : Find) (msgs : List Name) : Prop :=
  ∀ m ∈ msgs, ∀ suffix : Name, suffix ≠ [] → qF (m ++ suffix) = goQ find (m ++ suffix)

/-! ### protoc's loop as a fold over candidate scopes -/

/-- one iteration at scope `c`: `none` = "continue the loop" -/
def pstep (find : Find) (first : String) (name : Name) (t : Bool) (c : Name) : Option PRes :=
  match find (c ++ [first]) with
  | some k =>
    if [first] != name then
      if k.isAggregate then
        match find (c ++ name) with
        | some k' => some (.found (c ++ name) k')
        | none => some (.resolvedUndefined (c ++ name))
      else none
    else if t && !k.isType then none
    else some (.found (c ++ [first]) k)
  | none => none

def pOver (find : Find) (first : String) (name : Name) (t : Bool) : List Name → PRes → PRes
  | [], fin => fin
  | c :: cs, fin =>
    match pstep find first name t c with
    | some r => r
    | none => pOver find first name t cs fin

/-- the scopes protoc tries, innermost first, given `scope_to_try` reversed -/
def candsRev : List String → List Name
  | [] => []
  | c :: sc => (c :: sc).reverse :: candsRev sc

theorem protocLoop_cons2 (find : Find) (first : String) (name : Name) (t : Bool) (x c : String)
    (sc : List String) :
    protocLoop find first name t (x :: c :: sc) =
      match pstep find first name t (c :: sc).reverse with
      | some r => r
      | none => protocLoop find first name t (c :: sc) := by
  conv => lhs; unfold protocLoop
  simp only [pstep]
  cases find ((c :: sc).reverse ++ [first]) with
  | none => rfl
  | some k =>
    simp only
    by_cases hs : ([first] != name) = true
    · simp only [hs, if_true]
      by_cases ha : k.isAggregate = true
      · simp only [ha, if_true]
        cases find ((c :: sc).reverse ++ name) <;> rfl
      · simp [ha]
    · simp only [hs, if_false, Bool.false_eq_true]
      by_cases ht : (t && !k.isType) = true
      · simp [ht]
      · simp [ht]

theorem protocLoop_eq (find : Find) (first : String) (name : Name) (t : Bool) :
    ∀ (sc : List String) (x : String),
      protocLoop find first name t (x :: sc) =
        pOver find first name t (candsRev sc) (protocFinal find name) := by
  intro sc
  induction sc with
  | nil => intro x; simp [protocLoop, candsRev, pOver]
  | cons c sc ih =>
    intro x
    rw [protocLoop_cons2, ih c]
    simp only [candsRev, pOver]

/-! ### the Go loop over scope results -/

/-- `resolve`'s loop only looks at what each scope answers -/
def resLoop (t simple : Bool) : List (Option Desc) → Option Desc → Option Desc
  | [], best => best
  | some d :: rest, best =>
    if !t || d.isType || !simple then some d
    else resLoop t simple rest (match best with | some b => some b | none => some d)
  | none :: rest, best => resLoop t simple rest best

theorem resolveLoop_eq (t : Bool) (first : String) (name : Name) :
    ∀ (scopes : List Scope) (best : Option Desc),
      resolveLoop t first name scopes best =
        resLoop t ([first] == name) (scopes.map (fun s => s first name)) best := by
  intro scopes
  induction scopes with
  | nil => intro best; rfl
  | cons s rest ih =>
    intro best
    simp only [resolveLoop, List.map_cons]
    cases hs : s first name with
    | none => simp [resLoop, ih]
    | some d =>
      simp only [resLoop, ih, bne]
      rfl

/-- what one scope (a message scope, or one package prefix) answers -/
def attempt (q : Query) (first : String) (name : Name) (c : Name) : Option Desc :=
  resolveElementRelative q (c ++ [first]) (c ++ name)

theorem append_beq (c a b : Name) : (c ++ a == c ++ b) = (a == b) := by
  rw [Bool.eq_iff_iff]
  simp

theorem attempt_goQ (find : Find) (first : String) (name : Name) (c : Name) :
    attempt (goQ find) first name c =
      match find (c ++ [first]) with
      | none => none
      | some k =>
        if [first] == name then some (toDesc (c ++ [first]) k)
        else if !k.isAggregate then none
        else match find (c ++ name) with
          | none => some (.sentinel (c ++ name))
          | some k' => some (toDesc (c ++ name) k') := by
  unfold attempt resolveElementRelative goQ
  rw [append_beq]
  cases find (c ++ [first]) with
  | none => rfl
  | some k =>
    simp only [Option.map_some, toDesc_isAggregate]
    cases find (c ++ name) <;> rfl

theorem rer_self (q : Query) (n : Name) : resolveElementRelative q n n = q n := by
  unfold resolveElementRelative
  cases q n <;> simp

/-- a message scope whose query agrees with the visible-files query on the two names it asks -/
theorem messageScope_eq_attempt (qF : Query) (find : Find) (m : Name) (first : String) (name : Name)
    (hname : name ≠ [])
    (h : ∀ suffix : Name, suffix ≠ [] → qF (m ++ suffix) = goQ find (m ++ suffix)) :
    messageScope qF m first name = attempt (goQ find) first name m := by
  unfold messageScope attempt resolveElementRelative
  rw [h [first] (by simp), h name hname]

/-! ### one scope, split by "is the reference a simple name" -/

theorem pstep_simple (find : Find) (first : String) (name : Name) (t : Bool) (c : Name)
    (h : ([first] == name) = true) :
    pstep find first name t c =
      match find (c ++ [first]) with
      | some k => if t && !k.isType then none else some (.found (c ++ [first]) k)
      | none => none := by
  have h' : ([first] != name) = false := by simp [bne, h]
  unfold pstep
  cases find (c ++ [first]) <;> simp [h']

theorem pstep_compound (find : Find) (first : String) (name : Name) (t : Bool) (c : Name)
    (h : ([first] == name) = false) :
    pstep find first name t c =
      match find (c ++ [first]) with
      | some k =>
        if k.isAggregate then
          match find (c ++ name) with
          | some k' => some (.found (c ++ name) k')
          | none => some (.resolvedUndefined (c ++ name))
        else none
      | none => none := by
  have h' : ([first] != name) = true := by simp [bne, h]
  unfold pstep
  cases find (c ++ [first]) <;> simp [h']

theorem attempt_simple (find : Find) (first : String) (name : Name) (c : Name)
    (h : ([first] == name) = true) :
    attempt (goQ find) first name c = (find (c ++ [first])).map (toDesc (c ++ [first])) := by
  rw [attempt_goQ]
  cases find (c ++ [first]) <;> simp [h]

theorem attempt_compound (find : Find) (first : String) (name : Name) (c : Name)
    (h : ([first] == name) = false) :
    attempt (goQ find) first name c =
      match find (c ++ [first]) with
      | some k =>
        if k.isAggregate then
          match find (c ++ name) with
          | some k' => some (toDesc (c ++ name) k')
          | none => some (.sentinel (c ++ name))
        else none
      | none => none := by
  rw [attempt_goQ]
  cases find (c ++ [first]) with
  | none => rfl
  | some k =>
    simp only [h, Bool.false_eq_true, if_false]
    cases k.isAggregate <;> simp
    cases find (c ++ name) <;> rfl

/-! ### the two phases: candidate scopes, then a tail -/

/-- LOOKUP_ALL: the Go loop over `cands` then `T` is protoc's loop over `cands` then `P`. -/
theorem phase_all (find : Find) (first : String) (name : Name) (T : List (Option Desc)) (P : PRes)
    (hT : resLoop false ([first] == name) T none = P.toGo) :
    ∀ cands : List Name,
      resLoop false ([first] == name) (cands.map (attempt (goQ find) first name) ++ T) none =
        (pOver find first name false cands P).toGo := by
  intro cands
  induction cands with
  | nil => simpa [pOver] using hT
  | cons c cs ih =>
    simp only [List.map_cons, List.cons_append, pOver]
    cases hsb : ([first] == name) with
    | true =>
      rw [hsb] at ih
      rw [attempt_simple find first name c hsb, pstep_simple find first name false c hsb]
      cases find (c ++ [first]) with
      | none => simpa [resLoop] using ih
      | some k => simp [resLoop]
    | false =>
      rw [hsb] at ih
      rw [attempt_compound find first name c hsb, pstep_compound find first name false c hsb]
      cases find (c ++ [first]) with
      | none => simpa [resLoop] using ih
      | some k =>
        cases ha : k.isAggregate with
        | false => simpa [ha, resLoop] using ih
        | true =>
          simp only [ha, if_true]
          cases find (c ++ name) <;> simp [resLoop, toGo_resolvedUndefined]

/-- LOOKUP_TYPES: same, as far as a caller that needs a type can tell. -/
theorem phase_types (find : Find) (first : String) (name : Name) (T : List (Option Desc)) (P : PRes)
    (hT : ∀ best, typeView best = none →
      typeView (resLoop true ([first] == name) T best) = typeView P.toGo) :
    ∀ (cands : List Name) (best : Option Desc), typeView best = none →
      typeView (resLoop true ([first] == name) (cands.map (attempt (goQ find) first name) ++ T) best) =
        typeView (pOver find first name true cands P).toGo := by
  intro cands
  induction cands with
  | nil => intro best hb; simpa [pOver] using hT best hb
  | cons c cs ih =>
    intro best hb
    simp only [List.map_cons, List.cons_append, pOver]
    cases hsb : ([first] == name) with
    | true =>
      rw [hsb] at ih
      rw [attempt_simple find first name c hsb, pstep_simple find first name true c hsb]
      cases find (c ++ [first]) with
      | none => simpa [resLoop] using ih best hb
      | some k =>
        cases ht : k.isType with
        | true => simp [resLoop, ht]
        | false =>
          simp only [Option.map_some, resLoop, toDesc_isType, ht, Bool.not_true, Bool.or_false,
            Bool.false_eq_true, if_false, Bool.not_false, Bool.and_true, if_true]
          apply ih
          cases best with
          | some b => exact hb
          | none => exact typeView_some_of_isType _ (by simp [ht])
    | false =>
      rw [hsb] at ih
      rw [attempt_compound find first name c hsb, pstep_compound find first name true c hsb]
      cases find (c ++ [first]) with
      | none => simpa [resLoop] using ih best hb
      | some k =>
        cases ha : k.isAggregate with
        | false => simpa [ha, resLoop] using ih best hb
        | true =>
          simp only [ha, if_true]
          cases find (c ++ name) <;> simp [resLoop, toGo_resolvedUndefined]

/-! ### tails -/

/-- the outermost scope: the bare name -/
theorem tail_root_all (find : Find) (first : String) (name : Name) :
    resLoop false ([first] == name) [goQ find name] none = (protocFinal find name).toGo := by
  unfold goQ protocFinal
  cases find name <;> simp [resLoop]

theorem tail_root_types (find : Find) (first : String) (name : Name) (best : Option Desc)
    (hb : typeView best = none) :
    typeView (resLoop true ([first] == name) [goQ find name] best) =
      typeView (protocFinal find name).toGo := by
  unfold goQ protocFinal
  cases hf : find name with
  | none => simpa [resLoop, typeView] using hb
  | some k =>
    simp only [Option.map_some, resLoop, toDesc_isType, Bool.not_true, Bool.false_or, toGo_found]
    cases h : (k.isType || !([first] == name)) with
    | true => simp
    | false =>
      have ht : k.isType = false := by
        cases hk : k.isType <;> simp_all
      simp only [Bool.false_eq_true, if_false]
      rw [typeView_some_of_isType (toDesc name k) (by simp [ht])]
      cases best with
      | some b => exact hb
      | none => exact typeView_some_of_isType _ (by simp [ht])

/-- `fileScope` = first answer among the non-empty package prefixes, else the bare name. -/
def fileTail (find : Find) (first : String) (name : Name) (pcs : List Name) : Option Desc :=
  match firstSome (attempt (goQ find) first name) pcs with
  | some d => some d
  | none => goQ find name

theorem fileTail_cons (find : Find) (first : String) (name : Name) (c : Name) (cs : List Name) :
    fileTail find first name (c :: cs) =
      match attempt (goQ find) first name c with
      | some d => some d
      | none => fileTail find first name cs := by
  unfold fileTail
  simp only [firstSome]
  cases attempt (goQ find) first name c <;> rfl

theorem fileTail_nil (find : Find) (first : String) (name : Name) :
    fileTail find first name [] = goQ find name := rfl

theorem fileTail_all (find : Find) (first : String) (name : Name) :
    ∀ pcs : List Name,
      fileTail find first name pcs = (pOver find first name false pcs (protocFinal find name)).toGo := by
  intro pcs
  induction pcs with
  | nil =>
    rw [fileTail_nil]
    unfold goQ protocFinal
    cases find name <;> simp [pOver]
  | cons c cs ih =>
    rw [fileTail_cons]
    simp only [pOver]
    cases hsb : ([first] == name) with
    | true =>
      rw [attempt_simple find first name c hsb, pstep_simple find first name false c hsb]
      cases find (c ++ [first]) with
      | none => simpa using ih
      | some k => simp
    | false =>
      rw [attempt_compound find first name c hsb, pstep_compound find first name false c hsb]
      cases find (c ++ [first]) with
      | none => simpa using ih
      | some k =>
        cases ha : k.isAggregate with
        | false => simpa [ha] using ih
        | true =>
          simp only [ha, if_true]
          cases find (c ++ name) <;> simp [toGo_resolvedUndefined]

/-- a type match / a non-type match of the simple name `first` at package level `c`
    (`c = []` is the bare name) -/
def TypeHit (find : Find) (first : String) (c : Name) : Prop :=
  ∃ k, find (c ++ [first]) = some k ∧ k.isType = true

def NonTypeHit (find : Find) (first : String) (c : Name) : Prop :=
  ∃ k, find (c ++ [first]) = some k ∧ k.isType = false

theorem noTypeHit_pOver (find : Find) (first : String) (name : Name) (hs : ([first] == name) = true) :
    ∀ cs : List Name, (∀ q ∈ cs ++ [[]], ¬ TypeHit find first q) →
      typeView (pOver find first name true cs (protocFinal find name)).toGo = none := by
  have hname : name = [first] := (beq_iff_eq.mp hs).symm
  intro cs
  induction cs with
  | nil =>
    intro h
    have h0 := h [] (by simp)
    unfold protocFinal
    simp only [pOver]
    cases hf : find name with
    | none => rfl
    | some k =>
      simp only [toGo_found]
      apply typeView_some_of_isType
      simp only [toDesc_isType]
      cases hk : k.isType with
      | false => rfl
      | true => exact absurd ⟨k, by simpa [hname] using hf, hk⟩ h0
  | cons c cs ih =>
    intro h
    have hc := h c (by simp)
    have hrest : ∀ q ∈ cs ++ [[]], ¬ TypeHit find first q := fun q hq =>
      h q (by simp only [List.cons_append, List.mem_cons]; exact Or.inr hq)
    simp only [pOver]
    rw [pstep_simple find first name true c hs]
    cases hf : find (c ++ [first]) with
    | none => simpa using ih hrest
    | some k =>
      have hk : k.isType = false := by
        cases hk : k.isType with
        | false => rfl
        | true => exact absurd ⟨k, hf, hk⟩ hc
      simpa [hk] using ih hrest

/-- The file scope as it is: agreement needs that a non-type match is not followed by a type
    match further out. -/
theorem fileTail_types (find : Find) (first : String) (name : Name) :
    ∀ pcs : List Name,
      (([first] == name) = true →
        (pcs ++ [[]]).Pairwise (fun p q => NonTypeHit find first p → ¬ TypeHit find first q)) →
      ∀ best, typeView best = none →
        typeView (resLoop true ([first] == name) [fileTail find first name pcs] best) =
          typeView (pOver find first name true pcs (protocFinal find name)).toGo := by
  intro pcs
  induction pcs with
  | nil =>
    intro _ best hb
    have := tail_root_types find first name best hb
    simpa [fileTail_nil, pOver] using this
  | cons c cs ih =>
    intro hpw best hb
    have hpw' : ([first] == name) = true →
        (cs ++ [[]]).Pairwise (fun p q => NonTypeHit find first p → ¬ TypeHit find first q) := by
      intro hs
      have := hpw hs
      simp only [List.cons_append, List.pairwise_cons] at this
      exact this.2
    have ih' := ih hpw' best hb
    rw [fileTail_cons]
    simp only [pOver]
    cases hsb : ([first] == name) with
    | true =>
      rw [hsb] at ih'
      rw [attempt_simple find first name c hsb, pstep_simple find first name true c hsb]
      cases hf : find (c ++ [first]) with
      | none => simpa using ih'
      | some k =>
        cases ht : k.isType with
        | true => simp [resLoop, ht]
        | false =>
          simp only [Option.map_some, resLoop, toDesc_isType, ht, Bool.not_true, Bool.or_false,
            Bool.false_eq_true, if_false, Bool.not_false, Bool.and_true, if_true]
          have hno : ∀ q ∈ cs ++ [[]], ¬ TypeHit find first q := by
            have := hpw hsb
            simp only [List.cons_append, List.pairwise_cons] at this
            intro q hq
            exact this.1 q hq ⟨k, hf, ht⟩
          rw [noTypeHit_pOver find first name hsb cs hno]
          cases best with
          | some b => exact hb
          | none => exact typeView_some_of_isType _ (by simp [ht])
    | false =>
      rw [hsb] at ih'
      rw [attempt_compound find first name c hsb, pstep_compound find first name true c hsb]
      cases find (c ++ [first]) with
      | none => simpa using ih'
      | some k =>
        cases ha : k.isAggregate with
        | false => simpa [ha] using ih'
        | true =>
          simp only [ha, if_true]
          cases find (c ++ name) <;> simp [resLoop, toGo_resolvedUndefined]

/-! ### list bookkeeping: `CreatePrefixList`, message scopes, protoc's scopes -/

/-- the non-empty prefixes of a name, longest first -/
def descPrefixes {α : Type} (s : List α) : List (List α) :=
  (List.range s.length).reverse.map (fun i => s.take (i + 1))

theorem candsRev_eq : ∀ r : List String,
    candsRev r = (List.range r.length).reverse.map (fun i => r.reverse.take (i + 1)) := by
  intro r
  induction r with
  | nil => rfl
  | cons c sc ih =>
    simp only [candsRev, List.length_cons, List.range_succ, List.reverse_append, List.reverse_cons,
      List.reverse_nil, List.nil_append, List.singleton_append, List.map_cons]
    congr 1
    · rw [List.take_of_length_le (by simp)]
    · rw [ih]
      apply List.map_congr_left
      intro i hi
      have hi' : i < sc.length := by simpa using hi
      rw [List.take_append_of_le_length (by simp; omega)]

theorem candsRev_reverse (s : Name) : candsRev s.reverse = descPrefixes s := by
  rw [candsRev_eq]; simp [descPrefixes]

theorem reverse_range_succ_map {α : Type} (f : Nat → α) : ∀ n : Nat,
    (List.range (n + 1)).reverse.map f = (List.range n).reverse.map (fun i => f (i + 1)) ++ [f 0] := by
  intro n
  induction n with
  | zero => rfl
  | succ n ih =>
    rw [List.range_succ, List.reverse_append]
    simp only [List.reverse_cons, List.reverse_nil, List.nil_append, List.singleton_append,
      List.map_cons, ih]
    rw [List.range_succ (n := n), List.reverse_append]
    simp

/-- `createPrefixList_spec`: the package, its shorter and shorter non-empty prefixes, then "". -/
theorem createPrefixList_spec {α : Type} (pkg : List α) :
    createPrefixList pkg = descPrefixes pkg ++ [[]] := by
  unfold createPrefixList descPrefixes
  rw [reverse_range_succ_map]
  simp

theorem descPrefixes_ne_nil (s : Name) : ∀ c ∈ descPrefixes s, c ≠ [] := by
  intro c hc
  simp only [descPrefixes, List.mem_map, List.mem_reverse, List.mem_range] at hc
  obtain ⟨i, hi, rfl⟩ := hc
  intro h
  have hl : (s.take (i + 1)).length = 0 := by rw [h]; rfl
  rw [List.length_take] at hl
  omega

theorem descPrefixes_append (pkg rest : Name) :
    descPrefixes (pkg ++ rest) = (msgScopesOf pkg (pkg ++ rest)).reverse ++ descPrefixes pkg := by
  unfold descPrefixes msgScopesOf
  simp only [List.length_append, Nat.add_sub_cancel_left]
  rw [List.range_add, List.reverse_append, List.map_append, ← List.map_reverse]
  congr 1
  · simp [Function.comp_def, Nat.add_assoc]
  · apply List.map_congr_left
    intro i hi
    have hi' : i < pkg.length := by simpa using hi
    rw [List.take_append_of_le_length (by omega)]

theorem fileScope_eq_fileTail (find : Find) (pkg : Name) (first : String) (name : Name) :
    fileScope pkg (goQ find) first name = fileTail find first name (descPrefixes pkg) := by
  unfold fileScope fileTail
  rw [createPrefixList_spec]
  have hne := descPrefixes_ne_nil pkg
  generalize descPrefixes pkg = l at hne
  induction l with
  | nil =>
    simp only [List.nil_append, firstSome, List.isEmpty_nil, if_true, rer_self]
    cases goQ find name <;> rfl
  | cons c cs ih =>
    have hc : c ≠ [] := hne c (by simp)
    have hce : c.isEmpty = false := by cases c <;> simp_all
    simp only [List.cons_append, firstSome, hce, Bool.false_eq_true, if_false]
    have : resolveElementRelative (goQ find) (c ++ [first]) (c ++ name) =
        attempt (goQ find) first name c := rfl
    rw [this]
    cases attempt (goQ find) first name c with
    | some d => rfl
    | none => exact ih (fun x hx => hne x (by simp [hx]))

theorem msgScopes_map (find : Find) (qF : Query) (msgs : List Name) (first : String) (name : Name)
    (hname : name ≠ []) (hs : HS qF find msgs) :
    (msgs.map (messageScope qF)).map (fun s => s first name) =
      msgs.map (attempt (goQ find) first name) := by
  rw [List.map_map]
  apply List.map_congr_left
  intro m hm
  exact messageScope_eq_attempt qF find m first name hname (hs m hm)

/-! ### C15 for the code as it is -/

/-- `relative_to` of a reference whose innermost enclosing scope is `pkg ++ rest`: that scope
    plus one more component (the field / method / dummy name protoc appends). -/
abbrev relTo (pkg rest : Name) (last : String) : Name := pkg ++ rest ++ [last]

/-- the scopes of the current code, reversed, answer like this -/
theorem scopesFor_results (find : Find) (qF : Query) (pkg rest : Name) (first : String) (name : Name)
    (hname : name ≠ []) (hs : HS qF find (msgScopesOf pkg (pkg ++ rest))) :
    ((scopesFor pkg (goQ find) qF (msgScopesOf pkg (pkg ++ rest))).reverse.map (fun s => s first name)) =
      (msgScopesOf pkg (pkg ++ rest)).reverse.map (attempt (goQ find) first name) ++
        [fileTail find first name (descPrefixes pkg)] := by
  unfold scopesFor
  simp only [List.reverse_cons, List.map_append, List.map_cons, List.map_nil, fileScope_eq_fileTail]
  congr 1
  rw [← List.map_reverse]
  exact msgScopes_map find qF (msgScopesOf pkg (pkg ++ rest)).reverse first name hname
    (fun m hm => hs m (List.mem_reverse.mp hm))

theorem protocLookup_relative (find : Find) (pkg rest : Name) (last first : String) (tl : Name) (t : Bool) :
    protocLookup find { absolute := false, parts := first :: tl } (relTo pkg rest last) t =
      pOver find first (first :: tl) t (descPrefixes (pkg ++ rest)) (protocFinal find (first :: tl)) := by
  unfold protocLookup relTo
  simp only [Bool.false_eq_true, if_false, List.reverse_append, List.reverse_cons, List.reverse_nil,
    List.nil_append, List.singleton_append]
  rw [protocLoop_eq, ← List.reverse_append, candsRev_reverse]

theorem pOver_append (find : Find) (first : String) (name : Name) (t : Bool) (a b : List Name) (fin : PRes) :
    pOver find first name t (a ++ b) fin = pOver find first name t a (pOver find first name t b fin) := by
  induction a with
  | nil => rfl
  | cons c cs ih =>
    simp only [List.cons_append, pOver]
    cases pstep find first name t c <;> simp [ih]

/-- **C15, extendee / method-type / option-extension references (`onlyTypes = false`).**
    For every symbol table, package, enclosing scope and reference, `resolve` returns exactly
    what protoc's `LookupSymbolNoPlaceholder` returns: the element, the sentinel (protoc: a
    package symbol, or "resolved to X which is not defined"), or nothing. -/
theorem resolve_eq_protoc_lookupAll (find : Find) (qF : Query) (pkg rest : Name) (last : String)
    (ref : Ref) (hne : ref.parts ≠ []) (hs : HS qF find (msgScopesOf pkg (pkg ++ rest))) :
    resolve (goQ find) (scopesFor pkg (goQ find) qF (msgScopesOf pkg (pkg ++ rest))) ref false =
      (protocLookup find ref (relTo pkg rest last) false).toGo := by
  obtain ⟨abs, parts⟩ := ref
  cases abs with
  | true =>
    simp only [resolve, protocLookup, if_true, goQ, protocFinal]
    cases find parts <;> simp
  | false =>
    cases parts with
    | nil => exact absurd rfl hne
    | cons first tl =>
      rw [protocLookup_relative]
      simp only [resolve, Bool.false_eq_true, if_false]
      rw [resolveLoop_eq, scopesFor_results find qF pkg rest first (first :: tl) (by simp) hs,
        descPrefixes_append, pOver_append]
      apply phase_all
      rw [← fileTail_all]
      cases fileTail find first (first :: tl) (descPrefixes pkg) <;> simp [resLoop]

/-- the failing pattern, stated on `CreatePrefixList(pkg)`: a non-type match of the simple
    name at one package prefix, and a type match at a later (shorter) one -/
def NoPkgShadow (find : Find) (pkg : Name) (first : String) : Prop :=
  (createPrefixList pkg).Pairwise (fun p q => NonTypeHit find first p → ¬ TypeHit find first q)

/-- **C15, field-type references (`onlyTypes = true`), partial.** As far as a caller that
    needs a message or enum can tell, `resolve` and protoc's LOOKUP_TYPES lookup agree for
    every absolute name, every qualified name, and every simple name that is not
    non-type-shadowed between package levels. -/
theorem resolve_types_partial (find : Find) (qF : Query) (pkg rest : Name) (last : String)
    (ref : Ref) (hne : ref.parts ≠ []) (hs : HS qF find (msgScopesOf pkg (pkg ++ rest)))
    (hsh : ref.absolute = true ∨ ref.parts.length ≠ 1 ∨
      ∀ first, ref.parts = [first] → NoPkgShadow find pkg first) :
    typeView (resolve (goQ find) (scopesFor pkg (goQ find) qF (msgScopesOf pkg (pkg ++ rest))) ref true) =
      typeView (protocLookup find ref (relTo pkg rest last) true).toGo := by
  obtain ⟨abs, parts⟩ := ref
  cases abs with
  | true =>
    simp only [resolve, protocLookup, if_true, goQ, protocFinal]
    cases find parts <;> simp
  | false =>
    cases parts with
    | nil => exact absurd rfl hne
    | cons first tl =>
      rw [protocLookup_relative]
      simp only [resolve, Bool.false_eq_true, if_false]
      rw [resolveLoop_eq, scopesFor_results find qF pkg rest first (first :: tl) (by simp) hs,
        descPrefixes_append, pOver_append]
      apply phase_types
      · intro best hb
        apply fileTail_types find first (first :: tl) (descPrefixes pkg) _ best hb
        intro hsimple
        have htl : tl = [] := by simpa using hsimple
        subst htl
        rcases hsh with h | h | h
        · simp at h
        · simp at h
        · have := h first rfl
          unfold NoPkgShadow at this
          rwa [createPrefixList_spec] at this
      · rfl

/-! ### the full statement, its refutation, and the repaired code -/

/-- agreement as C15 words it: the same element, or failure on both sides -/
def Agree (onlyTypes : Bool) (go : Option Desc) (protoc : PRes) : Prop :=
  if onlyTypes then typeView go = typeView protoc.toGo else go = protoc.toGo

/-- **C15 at full strength**, for the code as it is. -/
def C15_full : Prop :=
  ∀ (find : Find) (qF : Query) (pkg rest : Name) (last : String) (ref : Ref) (onlyTypes : Bool),
    ref.parts ≠ [] → HS qF find (msgScopesOf pkg (pkg ++ rest)) →
    Agree onlyTypes
      (resolve (goQ find) (scopesFor pkg (goQ find) qF (msgScopesOf pkg (pkg ++ rest))) ref onlyTypes)
      (protocLookup find ref (relTo pkg rest last) onlyTypes)

/-- witness: package `a.b`; `a.b.X` is a service, `a.X` a message; field type `X` in `a.b.M` -/
def wFind : Find := fun n =>
  if n = ["a", "b", "X"] then some (.k .svc)
  else if n = ["a", "X"] then some (.k .msg)
  else if n = ["a", "b", "M"] then some (.k .msg)
  else if n = ["a", "b"] then some .package
  else if n = ["a"] then some .package
  else none

theorem witness_go :
    resolve (goQ wFind) (scopesFor ["a", "b"] (goQ wFind) (goQ wFind) (msgScopesOf ["a", "b"] ["a", "b", "M"]))
      { absolute := false, parts := ["X"] } true = some (.elem ["a", "b", "X"] .svc) := by
  decide

theorem witness_protoc :
    protocLookup wFind { absolute := false, parts := ["X"] } ["a", "b", "M", "f"] true =
      .found ["a", "X"] (.k .msg) := by
  decide

/-- **The full statement is false of the current code.** -/
theorem C15_full_refuted : ¬ C15_full := by
  intro h
  have := h wFind (goQ wFind) ["a", "b"] ["M"] "f" { absolute := false, parts := ["X"] } true
    (by simp) (fun _ _ _ _ => rfl)
  simp only [Agree, if_true, relTo, List.cons_append, List.nil_append] at this
  rw [witness_go, witness_protoc] at this
  simp [typeView, PRes.toGo, Kind.isType] at this

/-- the scopes of the repaired code, reversed, answer like this -/
theorem scopesForFixed_results (find : Find) (qF : Query) (pkg rest : Name) (first : String) (name : Name)
    (hname : name ≠ []) (hs : HS qF find (msgScopesOf pkg (pkg ++ rest))) :
    ((scopesForFixed pkg (goQ find) qF (msgScopesOf pkg (pkg ++ rest))).reverse.map (fun s => s first name)) =
      (descPrefixes (pkg ++ rest)).map (attempt (goQ find) first name) ++ [goQ find name] := by
  unfold scopesForFixed fileScopesFixed
  rw [List.reverse_append, List.map_append, descPrefixes_append, List.map_append, List.append_assoc]
  congr 1
  · rw [← List.map_reverse]
    exact msgScopes_map find qF (msgScopesOf pkg (pkg ++ rest)).reverse first name hname
      (fun m hm => hs m (List.mem_reverse.mp hm))
  · rw [← List.map_reverse, List.reverse_reverse, createPrefixList_spec, List.map_append, List.map_append,
      List.map_map, List.map_map]
    congr 1
    · apply List.map_congr_left
      intro c hc
      have hce : c.isEmpty = false := by
        have := descPrefixes_ne_nil pkg c hc
        cases c <;> simp_all
      simp [prefixScope, hce, attempt]
    · simp [prefixScope, rer_self]

/-- **C15 at full strength holds of the repaired code** (one scope per package prefix):
    for every symbol table, package, enclosing scope, reference and lookup mode. -/
theorem resolveFixed_eq_protoc (find : Find) (qF : Query) (pkg rest : Name) (last : String)
    (ref : Ref) (onlyTypes : Bool) (hne : ref.parts ≠ [])
    (hs : HS qF find (msgScopesOf pkg (pkg ++ rest))) :
    Agree onlyTypes
      (resolve (goQ find) (scopesForFixed pkg (goQ find) qF (msgScopesOf pkg (pkg ++ rest))) ref onlyTypes)
      (protocLookup find ref (relTo pkg rest last) onlyTypes) := by
  obtain ⟨abs, parts⟩ := ref
  cases abs with
  | true =>
    unfold Agree
    simp only [resolve, protocLookup, if_true, goQ, protocFinal]
    cases find parts <;> cases onlyTypes <;> simp
  | false =>
    cases parts with
    | nil => exact absurd rfl hne
    | cons first tl =>
      unfold Agree
      rw [protocLookup_relative]
      simp only [resolve, Bool.false_eq_true, if_false]
      rw [resolveLoop_eq, scopesForFixed_results find qF pkg rest first (first :: tl) (by simp) hs]
      cases onlyTypes with
      | false =>
        simp only [Bool.false_eq_true, if_false]
        exact phase_all find first (first :: tl) _ _ (tail_root_all find first (first :: tl)) _
      | true =>
        simp only [if_true]
        exact phase_types find first (first :: tl) _ _
          (fun best hb => tail_root_types find first (first :: tl) best hb) _ none rfl


/-! ### from the abstract symbol table to concrete files

The theorems above are about any symbol table `find`. For the concrete schemas the engine
runs, `resolveElement` (the visibility walk of C18 with `resolveElementInFile`) IS `goQ` of
protoc's `FindSymbol` (`protocFind`: visible definers by saturation, else a visible package),
provided the schema is one the symbol table of the compiler accepts: a name has one kind among
the visible files, and no defined name is a package of a visible file. -/

open PCV.Props.C18 in
/-- what the linker's symbol table guarantees about the files visible from `root` -/
structure EnvWF (fs : Files) (root : Nat) (rank : Nat → Nat) : Prop where
  acyclic : Acyclic fs.imports rank
  rankRoot : rank root ≤ fs.length
  uniq : ∀ g1 g2 d1 d2 n k1 k2, Visible fs.imports root g1 → Visible fs.imports root g2 →
    fs[g1]? = some d1 → fs[g2]? = some d2 →
    lookupDef d1.defs n = some k1 → lookupDef d2.defs n = some k2 → k1 = k2
  pkgExcl : ∀ g1 g2 d1 d2 n k, Visible fs.imports root g1 → Visible fs.imports root g2 →
    fs[g1]? = some d1 → fs[g2]? = some d2 →
    lookupDef d1.defs n = some k → matchesPkgNamespace n d2.pkg = false

theorem firstRes_findSome (f : Nat → Option Desc) (l : List Nat) :
    firstRes (fun g => optRes (f g)) l = optRes (l.findSome? f) := by
  induction l with
  | nil => rfl
  | cons g rest ih =>
    simp only [firstRes, List.findSome?_cons]
    cases hf : f g with
    | some x => simp [optRes]
    | none =>
      simp only [optRes] at ih ⊢
      exact ih

theorem resolveElement_eq_findSome (fs : Files) (root : Nat) (n : Name) :
    resolveElement fs root n =
      (dfsList fs.imports (fs.length + 1) root false []).findSome? (elemAt fs n) := by
  unfold resolveElement
  rw [PCV.Props.C18.resolveIn_eq_firstRes, firstRes_findSome]
  cases (dfsList fs.imports (fs.length + 1) root false []).findSome? (elemAt fs n) <;> rfl

/-- **Bridge.** On a well-formed schema Go's `resolveElement` and protoc's `FindSymbol`
    (dependencies computed by saturation) are the same function. -/
theorem resolveElement_eq_goQ_protocFind (fs : Files) (root : Nat) (rank : Nat → Nat)
    (wf : EnvWF fs root rank) (n : Name) :
    resolveElement fs root n = goQ (protocFind fs root) n := by
  rw [resolveElement_eq_findSome]
  have hdfs : ∀ g, g ∈ dfsList fs.imports (fs.length + 1) root false [] ↔ Visible fs.imports root g :=
    fun g => PCV.Props.C18.mem_dfsList_iff_visible fs.imports rank wf.acyclic _ root
      (by have := wf.rankRoot; omega) g
  have hvis : ∀ g, g ∈ visibleList fs.imports fs.length root ↔ Visible fs.imports root g :=
    fun g => PCV.Props.C18.mem_visibleList_iff fs.imports rank wf.acyclic fs.length root
      (by have := wf.rankRoot; omega) g
  unfold goQ protocFind
  simp only
  cases hfs : (visibleList fs.imports fs.length root).findSome? (fun g => match fs[g]? with
      | some d => lookupDef d.defs n
      | none => none) with
  | some k =>
    -- a visible file defines `n` with kind `k`
    obtain ⟨g, hg, hgk⟩ := List.exists_of_findSome?_eq_some hfs
    cases hd : fs[g]? with
    | none => simp [hd] at hgk
    | some d =>
      simp only [hd] at hgk
      have hgv := (hvis g).mp hg
      have hne : (dfsList fs.imports (fs.length + 1) root false []).findSome? (elemAt fs n) ≠ none := by
        intro hnone
        have := (List.findSome?_eq_none_iff.mp hnone) g ((hdfs g).mpr hgv)
        simp [elemAt, hd, resolveElementInFile, hgk] at this
      cases hx : (dfsList fs.imports (fs.length + 1) root false []).findSome? (elemAt fs n) with
      | none => exact absurd hx hne
      | some x =>
        obtain ⟨g', hg', hx'⟩ := List.exists_of_findSome?_eq_some hx
        have hg'v := (hdfs g').mp hg'
        unfold elemAt at hx'
        cases hd' : fs[g']? with
        | none => simp [hd'] at hx'
        | some d' =>
          simp only [hd', resolveElementInFile] at hx'
          cases hl : lookupDef d'.defs n with
          | some k' =>
            have := wf.uniq g' g d' d n k' k hg'v hgv hd' hd hl hgk
            subst this
            simp [hl] at hx'
            simp [← hx', toDesc]
          | none =>
            have := wf.pkgExcl g g' d d' n k hgv hg'v hd hd' hgk
            simp [hl, this] at hx'
  | none =>
    -- no visible file defines `n`
    have hnodef : ∀ g d, Visible fs.imports root g → fs[g]? = some d → lookupDef d.defs n = none := by
      intro g d hv hd
      have := (List.findSome?_eq_none_iff.mp hfs) g ((hvis g).mpr hv)
      simpa [hd] using this
    have helem : ∀ g, Visible fs.imports root g →
        elemAt fs n g = (match fs[g]? with
          | some d => if matchesPkgNamespace n d.pkg then some (.sentinel n) else none
          | none => none) := by
      intro g hv
      unfold elemAt
      cases hd : fs[g]? with
      | none => rfl
      | some d => simp [resolveElementInFile, hnodef g d hv hd]
    cases hany : (visibleList fs.imports fs.length root).any (fun g => match fs[g]? with
        | some d => matchesPkgNamespace n d.pkg
        | none => false) with
    | true =>
      obtain ⟨g, hg, hgp⟩ := List.any_eq_true.mp hany
      have hgv := (hvis g).mp hg
      have hne : (dfsList fs.imports (fs.length + 1) root false []).findSome? (elemAt fs n) ≠ none := by
        intro hnone
        have := (List.findSome?_eq_none_iff.mp hnone) g ((hdfs g).mpr hgv)
        rw [helem g hgv] at this
        cases hd : fs[g]? with
        | none => simp [hd] at hgp
        | some d => simp [hd] at hgp this; simp [hgp] at this
      cases hx : (dfsList fs.imports (fs.length + 1) root false []).findSome? (elemAt fs n) with
      | none => exact absurd hx hne
      | some x =>
        obtain ⟨g', hg', hx'⟩ := List.exists_of_findSome?_eq_some hx
        rw [helem g' ((hdfs g').mp hg')] at hx'
        cases hd' : fs[g']? with
        | none => simp [hd'] at hx'
        | some d' =>
          simp only [hd'] at hx'
          by_cases hp : matchesPkgNamespace n d'.pkg = true
          · simp [hp] at hx'; simp [← hx', toDesc]
          · simp [hp] at hx'
    | false =>
      have hall : ∀ g, g ∈ dfsList fs.imports (fs.length + 1) root false [] → elemAt fs n g = none := by
        intro g hg
        have hgv := (hdfs g).mp hg
        rw [helem g hgv]
        cases hd : fs[g]? with
        | none => rfl
        | some d =>
          have : ¬ (visibleList fs.imports fs.length root).any (fun g => match fs[g]? with
              | some d => matchesPkgNamespace n d.pkg
              | none => false) = true := by simp [hany]
          rw [List.any_eq_true] at this
          have hp : matchesPkgNamespace n d.pkg = false := by
            cases hp : matchesPkgNamespace n d.pkg with
            | false => rfl
            | true => exact absurd ⟨g, (hvis g).mpr hgv, by simp [hd, hp]⟩ this
          simp [hp]
      rw [List.findSome?_eq_none_iff.mpr hall]
      simp

/-- names below a message scope of the root file: only the root file can define them, and
    they are nobody's package -/
def ScopeWF (fs : Files) (root : Nat) (msgs : List Name) : Prop :=
  ∀ g d, Visible fs.imports root g → fs[g]? = some d → ∀ m ∈ msgs, ∀ suffix : Name, suffix ≠ [] →
    matchesPkgNamespace (m ++ suffix) d.pkg = false ∧ (g ≠ root → lookupDef d.defs (m ++ suffix) = none)

theorem dfsList_head (imports : Imports) (fuel root : Nat) :
    dfsList imports (fuel + 1) root false [] =
      root :: ((imports root).filter (fun i => !false || i.2)).flatMap
        (fun i => dfsList imports fuel i.1 true ([] ++ [root])) := by
  simp [dfsList]

/-- **Bridge for the message scopes**: asking the current file only (`messageScope`) is the
    same as asking all visible files, for the names a message scope asks about. -/
theorem hs_of_wf (fs : Files) (root : Nat) (rank : Nat → Nat) (wf : EnvWF fs root rank)
    (msgs : List Name) (swf : ScopeWF fs root msgs) :
    HS (queryInFile fs root) (protocFind fs root) msgs := by
  intro m hm suffix hsuf
  rw [← resolveElement_eq_goQ_protocFind fs root rank wf, resolveElement_eq_findSome]
  have hdfs : ∀ g, g ∈ dfsList fs.imports (fs.length + 1) root false [] → Visible fs.imports root g :=
    fun g hg => (PCV.Props.C18.reachPO_false_iff_visible _ _ _).mp
      (PCV.Props.C18.mem_dfsList_reach fs.imports _ root false [] g hg)
  have hother : ∀ g, g ∈ dfsList fs.imports (fs.length + 1) root false [] → g ≠ root →
      elemAt fs (m ++ suffix) g = none := by
    intro g hg hne
    unfold elemAt
    cases hd : fs[g]? with
    | none => rfl
    | some d =>
      have := swf g d (hdfs g hg) hd m hm suffix hsuf
      simp [resolveElementInFile, this.1, this.2 hne]
  have hroot : elemAt fs (m ++ suffix) root = queryInFile fs root (m ++ suffix) := by
    unfold elemAt queryInFile
    cases fs[root]? <;> rfl
  rw [dfsList_head, List.findSome?_cons, hroot]
  cases hq : queryInFile fs root (m ++ suffix) with
  | some x => rfl
  | none =>
    simp only
    symm
    rw [List.findSome?_eq_none_iff]
    intro g hg
    by_cases hgr : g = root
    · subst hgr; rw [hroot, hq]
    · apply hother g _ hgr
      rw [dfsList_head]
      exact List.mem_cons_of_mem _ hg

/-- **C15 for the concrete model, LOOKUP_ALL**: what the engine's model computes for an
    extendee / method-type / option-extension reference is protoc's lookup over the same files. -/
theorem resolveInEnv_eq_protoc_lookupAll (fs : Files) (root : Nat) (rank : Nat → Nat) (d : FileDef)
    (hd : fs[root]? = some d) (wf : EnvWF fs root rank) (rest : Name) (last : String) (ref : Ref)
    (hne : ref.parts ≠ []) (swf : ScopeWF fs root (msgScopesOf d.pkg (d.pkg ++ rest))) :
    resolveInEnv false fs root (d.pkg ++ rest) ref false =
      (protocLookup (protocFind fs root) ref (relTo d.pkg rest last) false).toGo := by
  have hq : resolveElement fs root = goQ (protocFind fs root) :=
    funext (resolveElement_eq_goQ_protocFind fs root rank wf)
  unfold resolveInEnv
  simp only [hd, Bool.false_eq_true, if_false, hq]
  exact resolve_eq_protoc_lookupAll (protocFind fs root) (queryInFile fs root) d.pkg rest last ref hne
    (hs_of_wf fs root rank wf _ swf)

/-- **C15 for the concrete model, repaired code, both lookup modes.** -/
theorem resolveInEnv_fixed_eq_protoc (fs : Files) (root : Nat) (rank : Nat → Nat) (d : FileDef)
    (hd : fs[root]? = some d) (wf : EnvWF fs root rank) (rest : Name) (last : String) (ref : Ref)
    (onlyTypes : Bool) (hne : ref.parts ≠ [])
    (swf : ScopeWF fs root (msgScopesOf d.pkg (d.pkg ++ rest))) :
    Agree onlyTypes (resolveInEnv true fs root (d.pkg ++ rest) ref onlyTypes)
      (protocLookup (protocFind fs root) ref (relTo d.pkg rest last) onlyTypes) := by
  have hq : resolveElement fs root = goQ (protocFind fs root) :=
    funext (resolveElement_eq_goQ_protocFind fs root rank wf)
  unfold resolveInEnv
  simp only [hd, if_true, hq]
  exact resolveFixed_eq_protoc (protocFind fs root) (queryInFile fs root) d.pkg rest last ref onlyTypes hne
    (hs_of_wf fs root rank wf _ swf)

/-- **C15 for the concrete model, current code, field types (partial).** -/
theorem resolveInEnv_types_partial (fs : Files) (root : Nat) (rank : Nat → Nat) (d : FileDef)
    (hd : fs[root]? = some d) (wf : EnvWF fs root rank) (rest : Name) (last : String) (ref : Ref)
    (hne : ref.parts ≠ []) (swf : ScopeWF fs root (msgScopesOf d.pkg (d.pkg ++ rest)))
    (hsh : ref.absolute = true ∨ ref.parts.length ≠ 1 ∨
      ∀ first, ref.parts = [first] → NoPkgShadow (protocFind fs root) d.pkg first) :
    typeView (resolveInEnv false fs root (d.pkg ++ rest) ref true) =
      typeView (protocLookup (protocFind fs root) ref (relTo d.pkg rest last) true).toGo := by
  have hq : resolveElement fs root = goQ (protocFind fs root) :=
    funext (resolveElement_eq_goQ_protocFind fs root rank wf)
  unfold resolveInEnv
  simp only [hd, Bool.false_eq_true, if_false, hq]
  exact resolve_types_partial (protocFind fs root) (queryInFile fs root) d.pkg rest last ref hne
    (hs_of_wf fs root rank wf _ swf) hsh


/-! ### the string helpers: `CreatePrefixList` on text = on components -/

/-- a component: non-empty and without dots -/
def CompOk (c : List Char) : Prop := c ≠ [] ∧ '.' ∉ c

theorem dotPrefixes_dotfree (acc c rest : List Char) (hc : '.' ∉ c) :
    dotPrefixes acc (c ++ rest) = dotPrefixes (acc ++ c) rest := by
  induction c generalizing acc with
  | nil => simp
  | cons x xs ih =>
    have hx : (x == '.') = false := by
      have : x ≠ '.' := fun h => hc (by simp [h])
      simpa using this
    have hxs : '.' ∉ xs := fun h => hc (List.mem_cons_of_mem _ h)
    simp only [List.cons_append, dotPrefixes, hx, Bool.false_eq_true, if_false]
    rw [ih _ hxs]
    simp

theorem joinDots_cons_cons (c c' : List Char) (rest : List (List Char)) :
    joinDots (c :: c' :: rest) = c ++ '.' :: joinDots (c' :: rest) := rfl

/-- scanning the dotted text of `c :: rest` records exactly the dotted texts of its proper
    non-empty prefixes, shortest first -/
theorem dotPrefixes_joinDots : ∀ (rest : List (List Char)) (c acc : List Char),
    (∀ x ∈ c :: rest, '.' ∉ x) →
    dotPrefixes acc (joinDots (c :: rest)) =
      (List.range rest.length).map (fun i => acc ++ joinDots ((c :: rest).take (i + 1))) := by
  intro rest
  induction rest with
  | nil =>
    intro c acc h
    have hc : '.' ∉ c := h c (by simp)
    have := dotPrefixes_dotfree acc c [] hc
    simpa [joinDots, dotPrefixes] using this
  | cons c' rest ih =>
    intro c acc h
    have hc : '.' ∉ c := h c (by simp)
    rw [joinDots_cons_cons, dotPrefixes_dotfree acc c _ hc]
    simp only [dotPrefixes, beq_self_eq_true, if_true]
    rw [ih c' (acc ++ c ++ ['.']) (fun x hx => h x (List.mem_cons_of_mem _ hx))]
    rw [List.length_cons, List.range_succ_eq_map, List.map_cons, List.map_map]
    congr 1
    apply List.map_congr_left
    intro i _
    simp only [Function.comp, List.take_succ_cons]
    cases hrest : (c' :: rest).take (i + 1) with
    | nil => simp at hrest
    | cons y ys => simp [joinDots_cons_cons]

theorem joinDots_ne_nil (c : List Char) (rest : List (List Char)) (hc : c ≠ []) :
    joinDots (c :: rest) ≠ [] := by
  cases rest with
  | nil => simpa [joinDots] using hc
  | cons c' rest => simp [joinDots_cons_cons, hc]

/-- **`createPrefixListStr_spec`.** On the dotted text of a package name, the transcription
    of `internal.CreatePrefixList` yields the dotted texts of the component-level list: the
    package, its shorter and shorter prefixes, then "". -/
theorem createPrefixListStr_spec (comps : List (List Char)) (h : ∀ c ∈ comps, CompOk c) :
    createPrefixListStr (joinDots comps) = (createPrefixList comps).map joinDots := by
  cases comps with
  | nil => simp [createPrefixListStr, createPrefixList, joinDots]
  | cons c rest =>
    have hne : joinDots (c :: rest) ≠ [] := joinDots_ne_nil c rest (h c (by simp)).1
    have hemp : (joinDots (c :: rest)).isEmpty = false := by
      cases hj : joinDots (c :: rest) with
      | nil => exact absurd hj hne
      | cons _ _ => rfl
    have hdots := dotPrefixes_joinDots rest c [] (fun x hx => (h x hx).2)
    rw [createPrefixList_spec]
    unfold createPrefixListStr descPrefixes
    simp only [hemp, Bool.false_eq_true, if_false, hdots, List.nil_append]
    rw [List.length_cons, List.range_succ, List.reverse_append]
    simp only [List.reverse_cons, List.reverse_nil, List.nil_append,
      List.map_cons, List.map_append, List.map_nil, List.cons_append]
    have htake : (c :: rest).take (rest.length + 1) = c :: rest := List.take_of_length_le (by simp)
    rw [htake]
    cases hr : rest with
    | nil => simp [joinDots]
    | cons c' rest' =>
      have hlist : ((List.range (c' :: rest').length).map
          (fun i => joinDots ((c :: c' :: rest').take (i + 1)))).isEmpty = false := by
        simp [List.range_succ]
      simp only [hlist, Bool.false_eq_true, if_false, List.map_reverse, List.map_map]
      simp [joinDots, Function.comp_def]


/-! ### `matchesPkgNamespace` on text = on components -/

/-- split a text at its dots -/
def splitDots : List Char → List (List Char)
  | [] => [[]]
  | c :: rest =>
    if c == '.' then [] :: splitDots rest
    else match splitDots rest with
      | [] => [[c]]
      | h :: t => (c :: h) :: t

theorem splitDots_ne_nil (s : List Char) : splitDots s ≠ [] := by
  cases s with
  | nil => simp [splitDots]
  | cons c rest =>
    unfold splitDots
    split
    · simp
    · split <;> simp

theorem splitDots_append_dot (x t : List Char) :
    splitDots (x ++ '.' :: t) = splitDots x ++ splitDots t := by
  induction x with
  | nil => simp [splitDots]
  | cons c xs ih =>
    by_cases hc : (c == '.') = true
    · simp [splitDots, hc, ih]
    · simp only [List.cons_append, splitDots, hc, Bool.false_eq_true, if_false, ih]
      cases hx : splitDots xs with
      | nil => exact absurd hx (splitDots_ne_nil xs)
      | cons h tl => simp

theorem splitDots_dotfree (x : List Char) (hx : '.' ∉ x) : splitDots x = [x] := by
  induction x with
  | nil => rfl
  | cons c xs ih =>
    have hc : (c == '.') = false := by
      have : c ≠ '.' := fun h => hx (by simp [h])
      simpa using this
    simp [splitDots, hc, ih (fun h => hx (List.mem_cons_of_mem _ h))]

theorem splitDots_joinDots : ∀ (rest : List (List Char)) (c : List Char),
    (∀ x ∈ c :: rest, '.' ∉ x) → splitDots (joinDots (c :: rest)) = c :: rest := by
  intro rest
  induction rest with
  | nil => intro c h; simpa [joinDots] using splitDots_dotfree c (h c (by simp))
  | cons c' rest ih =>
    intro c h
    rw [joinDots_cons_cons, splitDots_append_dot, splitDots_dotfree c (h c (by simp)),
      ih c' (fun x hx => h x (List.mem_cons_of_mem _ hx))]
    rfl

theorem joinDots_append : ∀ (a : List (List Char)) (c : List Char) (r0 : List Char) (r : List (List Char)),
    joinDots ((c :: a) ++ (r0 :: r)) = joinDots (c :: a) ++ '.' :: joinDots (r0 :: r) := by
  intro a
  induction a with
  | nil => intro c r0 r; rfl
  | cons c' a ih =>
    intro c r0 r
    simp only [List.cons_append] at ih ⊢
    rw [joinDots_cons_cons, ih c' r0 r, joinDots_cons_cons]
    simp

theorem matchesPkgNamespaceStr_iff (x y : List Char) :
    matchesPkgNamespaceStr x y = true ↔
      y ≠ [] ∧ (x = y ∨ (x.length < y.length ∧ x <+: y ∧ y[x.length]? = some '.')) := by
  unfold matchesPkgNamespaceStr
  cases y with
  | nil => simp
  | cons y0 ys =>
    simp only [List.isEmpty_cons, Bool.false_eq_true, if_false, ne_eq, reduceCtorEq,
      not_false_eq_true, true_and]
    by_cases heq : x = y0 :: ys
    · simp [heq]
    · simp only [beq_iff_eq, heq, if_false, false_or]
      by_cases hc : (decide ((y0 :: ys).length > x.length) && x.isPrefixOf (y0 :: ys)) = true
      · simp only [hc, if_true, beq_iff_eq]
        simp only [Bool.and_eq_true, decide_eq_true_eq, List.isPrefixOf_iff_prefix] at hc
        constructor
        · intro h; exact ⟨hc.1, hc.2, h⟩
        · intro h; exact h.2.2
      · simp only [hc, Bool.false_eq_true, if_false, false_iff]
        intro h
        apply hc
        simp only [Bool.and_eq_true, decide_eq_true_eq, List.isPrefixOf_iff_prefix]
        exact ⟨h.1, h.2.1⟩

theorem matchesPkgNamespace_iff (a b : List (List Char)) :
    matchesPkgNamespace a b = true ↔
      b ≠ [] ∧ (a = b ∨ (a ≠ [] ∧ a.length < b.length ∧ a <+: b)) := by
  unfold matchesPkgNamespace
  simp only [Bool.and_eq_true, bne_iff_ne, ne_eq, Bool.or_eq_true, beq_iff_eq, decide_eq_true_eq,
    List.isPrefixOf_iff_prefix]
  constructor
  · rintro ⟨h1, h2 | ⟨⟨h3, h4⟩, h5⟩⟩
    · exact ⟨h1, Or.inl h2⟩
    · exact ⟨h1, Or.inr ⟨h3, h4, h5⟩⟩
  · rintro ⟨h1, h2 | ⟨h3, h4, h5⟩⟩
    · exact ⟨h1, Or.inl h2⟩
    · exact ⟨h1, Or.inr ⟨⟨h3, h4⟩, h5⟩⟩

/-- the dotted text determines the components -/
theorem joinDots_inj (a0 b0 : List Char) (as bs : List (List Char))
    (ha : ∀ x ∈ a0 :: as, '.' ∉ x) (hb : ∀ x ∈ b0 :: bs, '.' ∉ x)
    (h : joinDots (a0 :: as) = joinDots (b0 :: bs)) : a0 :: as = b0 :: bs := by
  rw [← splitDots_joinDots as a0 ha, ← splitDots_joinDots bs b0 hb, h]

/-- "text prefix followed by a dot" = "proper component prefix" -/
theorem joinDots_prefix_iff (a0 b0 : List Char) (as bs : List (List Char))
    (ha : ∀ x ∈ a0 :: as, '.' ∉ x) (hb : ∀ x ∈ b0 :: bs, '.' ∉ x) :
    ((joinDots (a0 :: as)).length < (joinDots (b0 :: bs)).length ∧
      joinDots (a0 :: as) <+: joinDots (b0 :: bs) ∧
      (joinDots (b0 :: bs))[(joinDots (a0 :: as)).length]? = some '.') ↔
    ((a0 :: as).length < (b0 :: bs).length ∧ (a0 :: as) <+: (b0 :: bs)) := by
  have hsa := splitDots_joinDots as a0 ha
  have hsb := splitDots_joinDots bs b0 hb
  constructor
  · rintro ⟨_, ⟨t', ht'⟩, hdot⟩
    rw [← ht', List.getElem?_append_right (Nat.le_refl _)] at hdot
    cases t' with
    | nil => simp at hdot
    | cons d t =>
      have hd : d = '.' := by simpa using hdot
      subst hd
      have hb' : b0 :: bs = (a0 :: as) ++ splitDots t := by
        rw [← hsb, ← ht', splitDots_append_dot, hsa]
      rw [hb']
      constructor
      · cases hs : splitDots t with
        | nil => exact absurd hs (splitDots_ne_nil t)
        | cons _ _ => simp
      · exact List.prefix_append _ _
  · rintro ⟨hlen, ⟨r, hr⟩⟩
    cases r with
    | nil =>
      simp only [List.append_nil] at hr
      rw [hr] at hlen
      exact absurd hlen (Nat.lt_irrefl _)
    | cons r0 rs =>
      have hj := joinDots_append as a0 r0 rs
      rw [hr] at hj
      rw [hj]
      refine ⟨by simp, List.prefix_append _ _, ?_⟩
      rw [List.getElem?_append_right (Nat.le_refl _)]
      simp

/-- **`matchesPkgNamespaceStr_spec`.** On dotted texts of well-formed names, the transcription
    of `matchesPkgNamespace` (string compare, `HasPrefix`, "the next byte is a dot") decides
    exactly: `pkg` is not empty and `fqn` is `pkg` or a non-empty proper component-prefix of it. -/
theorem matchesPkgNamespaceStr_spec (a b : List (List Char))
    (ha : ∀ c ∈ a, CompOk c) (hb : ∀ c ∈ b, CompOk c) :
    matchesPkgNamespaceStr (joinDots a) (joinDots b) = matchesPkgNamespace a b := by
  rw [Bool.eq_iff_iff, matchesPkgNamespaceStr_iff, matchesPkgNamespace_iff]
  cases b with
  | nil => simp [joinDots]
  | cons b0 bs =>
    have hbne : joinDots (b0 :: bs) ≠ [] := joinDots_ne_nil b0 bs (hb b0 (by simp)).1
    have hbdf : ∀ x ∈ b0 :: bs, '.' ∉ x := fun x hx => (hb x hx).2
    simp only [ne_eq, hbne, not_false_eq_true, true_and, reduceCtorEq]
    cases a with
    | nil =>
      -- the empty name: the first byte of the package is not a dot
      have hfirst : (joinDots (b0 :: bs))[0]? ≠ some '.' := by
        obtain ⟨hne, hdf⟩ := hb b0 (by simp)
        cases b0 with
        | nil => exact absurd rfl hne
        | cons x xs =>
          have hx : x ≠ '.' := fun h => hdf (by simp [h])
          cases bs with
          | nil => simpa [joinDots] using hx
          | cons _ _ => simpa [joinDots_cons_cons] using hx
      constructor
      · rintro (h | ⟨_, _, h⟩)
        · exact absurd h.symm hbne
        · exact absurd (by simpa [joinDots] using h) hfirst
      · rintro (h | ⟨h, _⟩)
        · exact absurd h (by simp)
        · exact absurd rfl h
    | cons a0 as =>
      have hadf : ∀ x ∈ a0 :: as, '.' ∉ x := fun x hx => (ha x hx).2
      rw [joinDots_prefix_iff a0 b0 as bs hadf hbdf]
      constructor
      · rintro (h | h)
        · exact Or.inl (joinDots_inj a0 b0 as bs hadf hbdf h)
        · exact Or.inr ⟨by simp, h⟩
      · rintro (h | ⟨_, h⟩)
        · exact Or.inl (by rw [h])
        · exact Or.inr h

/-! ### corollaries -/

/-- a leading-dot name resolves to itself (or not at all) -/
theorem absolute_resolves_to_itself (find : Find) (scopes : List Scope) (parts : Name) (t : Bool) (d : Desc)
    (h : resolve (goQ find) scopes { absolute := true, parts := parts } t = some d) :
    d = .elem parts (match d with | .elem _ k => k | _ => .msg) ∨ d = .sentinel parts := by
  simp only [resolve, if_true, goQ] at h
  cases hf : find parts with
  | none => simp [hf] at h
  | some k =>
    simp only [hf, Option.map_some, Option.some.injEq] at h
    subst h
    cases k with
    | k x => left; rfl
    | package => right; rfl

/-- `shadow_nontype`, first half: an unqualified type reference skips a non-type match in a
    message scope and takes the type of the next scope. -/
theorem shadow_nontype_unqualified_skipped (s1 s2 : Scope) (first : String) (d1 d2 : Desc)
    (h1 : s1 first [first] = some d1) (hd1 : d1.isType = false)
    (h2 : s2 first [first] = some d2) (hd2 : d2.isType = true) (q : Query) :
    resolve q [s2, s1] { absolute := false, parts := [first] } true = some d2 := by
  simp [resolve, resolveLoop, h1, h2, hd1, hd2]

/-- second half: a qualified one ends the search at the innermost scope that answers. -/
theorem shadow_nontype_qualified_ends (s1 s2 : Scope) (first second : String) (d1 : Desc)
    (h1 : s1 first [first, second] = some d1) (q : Query) (t : Bool) :
    resolve q [s2, s1] { absolute := false, parts := [first, second] } t = some d1 := by
  simp [resolve, resolveLoop, h1]

/-! ### non-vacuity -/

/-- the hypotheses of the partial theorem are satisfiable with a non-trivial table:
    the witness table, asked for a qualified name -/
example : typeView (resolve (goQ wFind) (scopesFor ["a", "b"] (goQ wFind) (goQ wFind)
      (msgScopesOf ["a", "b"] (["a", "b"] ++ ["M"]))) { absolute := false, parts := ["a", "X"] } true) =
    some (["a", "X"], .msg) := by decide

example : HS (goQ wFind) wFind (msgScopesOf ["a", "b"] (["a", "b"] ++ ["M"])) := fun _ _ _ _ => rfl

/-- and the repaired scopes resolve the witness like protoc -/
example : resolve (goQ wFind) (scopesForFixed ["a", "b"] (goQ wFind) (goQ wFind)
      (msgScopesOf ["a", "b"] ["a", "b", "M"])) { absolute := false, parts := ["X"] } true =
    some (.elem ["a", "X"] .msg) := by decide


/-- a concrete schema satisfying the bridge hypotheses: file 1 (package `a.b`, message `a.b.M`
    with a field) imports file 0 (package `a`, message `a.X`) -/
def exFs : Files :=
  [ { pkg := ["a"], imports := [], defs := [(["a", "X"], .msg)] },
    { pkg := ["a", "b"], imports := [(0, false)], defs := [(["a", "b", "M"], .msg), (["a", "b", "M", "f"], .field)] } ]

theorem exFs_imports (f g : Nat) (b : Bool) (h : (g, b) ∈ exFs.imports f) : f = 1 ∧ g = 0 := by
  unfold Files.imports exFs at h
  match f with
  | 0 => simp at h
  | 1 => simp at h; exact ⟨rfl, h.1⟩
  | n + 2 => simp at h

theorem exFs_defs (g : Nat) (d : FileDef) (n : Name) (k : Kind) (hd : exFs[g]? = some d)
    (h : lookupDef d.defs n = some k) :
    n = ["a", "X"] ∨ n = ["a", "b", "M"] ∨ n = ["a", "b", "M", "f"] := by
  unfold exFs at hd
  match g with
  | 0 =>
    simp at hd; subst hd
    simp only [lookupDef] at h
    split at h
    · rename_i x hx
      have := List.find?_some hx
      have hm := List.mem_of_find?_eq_some hx
      simp at hm this
      subst hm; simp at this; exact Or.inl this.symm
    · simp at h
  | 1 =>
    simp at hd; subst hd
    simp only [lookupDef] at h
    split at h
    · rename_i x hx
      have := List.find?_some hx
      have hm := List.mem_of_find?_eq_some hx
      simp at hm this
      rcases hm with rfl | rfl
      · simp at this; exact Or.inr (Or.inl this.symm)
      · simp at this; exact Or.inr (Or.inr this.symm)
    · simp at h
  | n + 2 => simp at hd

theorem exFs_pkg (g : Nat) (d : FileDef) (hd : exFs[g]? = some d) : d.pkg = ["a"] ∨ d.pkg = ["a", "b"] := by
  unfold exFs at hd
  match g with
  | 0 => simp at hd; subst hd; exact Or.inl rfl
  | 1 => simp at hd; subst hd; exact Or.inr rfl
  | n + 2 => simp at hd

theorem exFs_kind (g : Nat) (d : FileDef) (n : Name) (k : Kind) (hd : exFs[g]? = some d)
    (h : lookupDef d.defs n = some k) :
    k = (if n = ["a", "b", "M", "f"] then Kind.field else Kind.msg) := by
  unfold exFs at hd
  match g with
  | 0 =>
    simp at hd; subst hd
    simp only [lookupDef] at h
    split at h
    · rename_i x hx
      have := List.find?_some hx
      have hm := List.mem_of_find?_eq_some hx
      simp at hm this h
      subst hm; simp at this h; subst this; simp [← h]
    · simp at h
  | 1 =>
    simp at hd; subst hd
    simp only [lookupDef] at h
    split at h
    · rename_i x hx
      have := List.find?_some hx
      have hm := List.mem_of_find?_eq_some hx
      simp at hm this h
      rcases hm with rfl | rfl
      · simp at this h; subst this; simp [← h]
      · simp at this h; subst this; simp [← h]
    · simp at h
  | n + 2 => simp at hd

/-- non-vacuity of the bridge theorems -/
theorem exFs_wf : EnvWF exFs 1 (fun g => g) where
  acyclic := by
    intro f g b h
    obtain ⟨rfl, rfl⟩ := exFs_imports f g b h
    exact Nat.zero_lt_one
  rankRoot := by decide
  uniq := by
    intro g1 g2 d1 d2 n k1 k2 _ _ h1 h2 l1 l2
    rw [exFs_kind g1 d1 n k1 h1 l1, exFs_kind g2 d2 n k2 h2 l2]
  pkgExcl := by
    intro g1 g2 d1 d2 n k _ _ h1 h2 l1
    rcases exFs_defs g1 d1 n k h1 l1 with rfl | rfl | rfl <;>
      rcases exFs_pkg g2 d2 h2 with hp | hp <;> rw [hp] <;> decide

example : resolveInEnv false exFs 1 ["a", "b", "M"] { absolute := false, parts := ["X"] } true =
    some (.elem ["a", "X"] .msg) := by decide

end PCV.Props.C15

#print axioms PCV.Props.C15.createPrefixList_spec
#print axioms PCV.Props.C15.createPrefixListStr_spec
#print axioms PCV.Props.C15.matchesPkgNamespaceStr_spec
#print axioms PCV.Props.C15.resolve_eq_protoc_lookupAll
#print axioms PCV.Props.C15.resolve_types_partial
#print axioms PCV.Props.C15.C15_full_refuted
#print axioms PCV.Props.C15.resolveFixed_eq_protoc
#print axioms PCV.Props.C15.resolveElement_eq_goQ_protocFind
#print axioms PCV.Props.C15.hs_of_wf
#print axioms PCV.Props.C15.exFs_wf
#print axioms PCV.Props.C15.resolveInEnv_eq_protoc_lookupAll
#print axioms PCV.Props.C15.resolveInEnv_types_partial
#print axioms PCV.Props.C15.resolveInEnv_fixed_eq_protoc
#print axioms PCV.Props.C15.absolute_resolves_to_itself
#print axioms PCV.Props.C15.shadow_nontype_unqualified_skipped
#print axioms PCV.Props.C15.shadow_nontype_qualified_ends
