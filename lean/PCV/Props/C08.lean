/-
C08 — Error reporter contract (reporter.Handler).
All theorems are for an ARBITRARY reporter function `rep` and arbitrary op histories.
-/
import PCV.Model.Reporter
import PCV.Spec.Reporter
import PCV.Gen.LockSites
namespace PCV.Props.C08
open PCV.Reporter PCV.Spec.Reporter

variable (rep : Nat → Err → Option Err)

/-! ### The root state is a function of the sequence of handled errors only -/

def handled (nch : Nat) : List Op → List (Bool × Err)
  | [] => []
  | .newChild :: ops => handled (nch + 1) ops
  | .handleError h wp e :: ops => if h ≤ nch then (wp, e) :: handled nch ops else handled nch ops
  | _ :: ops => handled nch ops

theorem rootHandle_spec (s : State) (wp : Bool) (e : Err) :
    ((rootHandle rep s wp e).1.root, (rootHandle rep s wp e).1.reported)
      = specStep rep (s.root, s.reported) (wp, e) ∧
    (rootHandle rep s wp e).1.children = s.children ∧
    (rootHandle rep s wp e).1.warned = s.warned := by
  unfold rootHandle specStep
  cases s.root.err <;> cases wp <;> simp

/-- Refinement: whichever handlers (root or children) errors go through, the root handler's
    state and the reporter's invocation log are the spec fold over the handled errors. -/
theorem root_refines (ops : List Op) : ∀ (s : State),
    ((run rep s ops).root, (run rep s ops).reported)
      = (handled s.children.length ops).foldl (specStep rep) (s.root, s.reported) := by
  induction ops with
  | nil => intro s; simp [run, handled]
  | cons op ops ih =>
    intro s
    cases op with
    | newChild => simp only [run, step, handled]; rw [ih]; simp
    | handleError h wp e =>
      cases h with
      | zero =>
        simp only [run, step, handled, Nat.zero_le, ite_true, List.foldl_cons]
        rw [ih]
        obtain ⟨h1, h2, _⟩ := rootHandle_spec rep s wp e
        rw [h2, ← h1]
      | succ i =>
        simp only [run, step, handled]
        by_cases hi : i < s.children.length
        · have hi' : i + 1 ≤ s.children.length := hi
          simp only [hi, hi', ite_true, List.foldl_cons]
          rw [ih]
          obtain ⟨h1, h2, _⟩ := rootHandle_spec rep s wp e
          simp only [List.length_set, h2]
          rw [← h1]
        · have hi' : ¬ (i + 1 ≤ s.children.length) := by omega
          simp only [hi, hi', ite_false]
          exact ih s
    | handleWarning h e => simp only [run, step, handled]; exact ih _
    | error h => cases h <;> (simp only [run, step, handled]; exact ih _)
    | reporterError h => cases h <;> (simp only [run, step, handled]; exact ih _)


/-! ### Consequences on the spec fold -/

theorem spec_latched (xs : List (Bool × Err)) (r : HState × List Err) (l : Err)
    (h : r.1.err = some l) : xs.foldl (specStep rep) r = r := by
  induction xs with
  | nil => rfl
  | cons x xs ih => simp only [List.foldl_cons]; rw [show specStep rep r x = r by simp [specStep, h]]; exact ih

theorem run_append (s : State) (a b : List Op) : run rep s (a ++ b) = run rep (run rep s a) b := by
  induction a generalizing s with
  | nil => rfl
  | cons op a ih => simp only [List.cons_append, run]; exact ih _

/-- **Latch.** Once the root holds an error `l` (returned by the reporter, or a non-positional
    error), no later history changes it, and the reporter is never invoked again. -/
theorem latch (s : State) (l : Err) (h : s.root.err = some l) (ops : List Op) :
    (run rep s ops).root.err = some l ∧ (run rep s ops).reported = s.reported := by
  have := root_refines rep ops s
  rw [spec_latched rep _ _ l h] at this
  have h1 := congrArg Prod.fst this
  have h2 := congrArg Prod.snd this
  simp only at h1 h2
  exact ⟨by rw [h1]; exact h, h2⟩

/-- When the reporter returns non-nil `x` for an error, that call returns `x` and `x` is latched. -/
theorem reporter_abort_latches (s : State) (e x : Err) (h0 : s.root.err = none)
    (hx : rep s.reported.length e = some x) :
    (step rep s (.handleError 0 true e)).2 = some x ∧
    (step rep s (.handleError 0 true e)).1.root.err = some x := by
  simp [step, rootHandle, h0, hx]

/-- After the latch every `HandleError` (root or existing child) returns the latched error
    and the overall result `Error()` is that same error. -/
theorem handleError_after_latch (s : State) (l : Err) (h : s.root.err = some l)
    (hd : Nat) (wp : Bool) (e : Err) (hv : hd ≤ s.children.length) :
    (step rep s (.handleError hd wp e)).2 = some l ∧ hError s.root = some l := by
  constructor
  · cases hd with
    | zero => simp [step, rootHandle, h]
    | succ i =>
      have : i < s.children.length := hv
      simp [step, rootHandle, h, this]
  · simp [hError, h]

theorem warnings_inert (s : State) (hd : Nat) (e : Err) :
    (step rep s (.handleWarning hd e)).1.root = s.root ∧
    (step rep s (.handleWarning hd e)).1.children = s.children ∧
    (step rep s (.handleWarning hd e)).1.reported = s.reported ∧
    (step rep s (.handleWarning hd e)).2 = none := by
  simp [step]

/-- Invariant of the reporter's invocation log: every invocation but possibly the last returned
    nil, and if nothing is latched all of them returned nil. -/
def LogOk (r : HState × List Err) : Prop :=
  (∀ k, k + 1 < r.2.length → rep k (r.2.getD k 0) = none) ∧
  (r.1.err = none → ∀ k, k < r.2.length → rep k (r.2.getD k 0) = none)

theorem logOk_step (r : HState × List Err) (x : Bool × Err) (h : LogOk rep r) :
    LogOk rep (specStep rep r x) := by
  unfold specStep
  cases he : r.1.err with
  | some l => simpa [he] using h
  | none =>
    simp only []
    cases hx : x.1 with
    | false =>
      simp only [Bool.false_eq_true, ite_false]
      exact ⟨h.1, by simp⟩
    | true =>
      simp only [ite_true]
      have h2 := h.2 he
      constructor
      · intro k hk
        simp only [List.length_append, List.length_singleton] at hk
        have hk' : k < r.2.length := by omega
        have := h2 k hk'
        simpa [List.getD_eq_getElem?_getD, List.getElem?_append_left hk'] using this
      · intro hn k hk
        simp only [List.length_append, List.length_singleton] at hk
        by_cases hk' : k < r.2.length
        · have := h2 k hk'
          simpa [List.getD_eq_getElem?_getD, List.getElem?_append_left hk'] using this
        · have : k = r.2.length := by omega
          subst this
          simpa [List.getD_eq_getElem?_getD] using hn

theorem logOk_fold (xs : List (Bool × Err)) (r : HState × List Err) (h : LogOk rep r) :
    LogOk rep (xs.foldl (specStep rep) r) := by
  induction xs generalizing r with
  | nil => exact h
  | cons x xs ih => exact ih _ (logOk_step rep r x h)

/-- **No error reaches the reporter after it returned non-nil** — for every history from the
    initial state: all reporter invocations except possibly the last one returned nil. -/
theorem reporter_never_called_after_abort (ops : List Op) (k : Nat)
    (hk : k + 1 < (run rep init ops).reported.length) :
    rep k ((run rep init ops).reported.getD k 0) = none := by
  have h := root_refines rep ops init
  have inv := logOk_fold rep (handled init.children.length ops) (init.root, init.reported)
    (by constructor <;> (intros; simp [init] at *))
  rw [← h] at inv
  exact inv.1 k hk

/-- Something was handled ⇒ `errsReported ∨ err ≠ nil` in the spec. -/
def Failed (r : HState × List Err) : Prop := r.1.errsReported = true ∨ r.1.err.isSome = true

theorem failed_step (r : HState × List Err) (x : Bool × Err) : Failed (specStep rep r x) := by
  unfold specStep Failed
  cases he : r.1.err with
  | some l => simp [he]
  | none => cases x.1 <;> simp

theorem failed_fold (xs : List (Bool × Err)) (r : HState × List Err) (h : Failed r) :
    Failed (xs.foldl (specStep rep) r) := by
  induction xs generalizing r with
  | nil => exact h
  | cons x xs ih => exact ih _ (failed_step rep r x)

theorem hError_none_iff (h : HState) : hError h = none ↔ (h.errsReported = false ∧ h.err = none) := by
  unfold hError
  cases h.errsReported <;> cases h.err <;> simp

/-- **A compilation succeeds only if no error was reported**: from the initial state, the root
    `Error()` is nil exactly when no `HandleError` call (on an existing handler) was made. -/
theorem success_iff_no_error (ops : List Op) :
    hError (run rep init ops).root = none ↔ handled 0 ops = [] := by
  have h := congrArg Prod.fst (root_refines rep ops init)
  simp only at h
  rw [h, hError_none_iff]
  cases hx : handled init.children.length ops with
  | nil => simp [init] at hx ⊢; simp [hx, init]
  | cons x xs =>
    have hx0 : handled 0 ops = x :: xs := by simpa [init] using hx
    simp only [List.foldl_cons, hx0]
    have := failed_fold rep xs _ (failed_step rep (init.root, init.reported) x)
    unfold Failed at this
    constructor
    · intro ⟨h1, h2⟩; rcases this with t | t <;> simp_all
    · intro h; cases h

/-- **Invalid-source sentinel**: if the reporter accepts every error (always returns nil) and only
    positional errors are handled, then `Error()` is `ErrInvalidSource` as soon as one error was
    handled. -/
theorem invalid_source (hrep : ∀ k e, rep k e = none) (ops : List Op)
    (hpos : ∀ x ∈ handled 0 ops, x.1 = true) (hne : handled 0 ops ≠ []) :
    hError (run rep init ops).root = some errInvalidSource := by
  have h := congrArg Prod.fst (root_refines rep ops init)
  simp only at h
  rw [h]
  have key : ∀ (xs : List (Bool × Err)) (r : HState × List Err), (∀ x ∈ xs, x.1 = true) →
      r.1.err = none → (xs ≠ [] ∨ r.1.errsReported = true) →
      hError (xs.foldl (specStep rep) r).1 = some errInvalidSource := by
    intro xs
    induction xs with
    | nil => intro r _ he h; simp at h; simp [hError, he, h]
    | cons x xs ih =>
      intro r hp he _
      simp only [List.foldl_cons]
      have hx : x.1 = true := hp x (by simp)
      apply ih
      · intro y hy; exact hp y (by simp [hy])
      · simp [specStep, he, hx, hrep]
      · right; simp [specStep, he, hx]
  have h0 : init.children.length = 0 := rfl
  rw [h0]
  exact key _ _ hpos rfl (Or.inl hne)

/-- A child handler that never handled an error reports success, whatever else happened. -/
theorem child_error_only_own (ops : List Op) (s : State) (i : Nat)
    (hno : ∀ wp e, Op.handleError (i+1) wp e ∉ ops) (hi : i < s.children.length) :
    (run rep s ops).children.getD i {} = s.children.getD i {} := by
  induction ops generalizing s with
  | nil => rfl
  | cons op ops ih =>
    have hno' : ∀ wp e, Op.handleError (i+1) wp e ∉ ops := fun wp e h => hno wp e (by simp [h])
    simp only [run]
    cases op with
    | newChild =>
      rw [ih _ hno' (by simp [step]; omega)]
      simp [step, List.getD_eq_getElem?_getD, List.getElem?_append_left hi]
    | handleError h wp e =>
      cases h with
      | zero =>
        have hc := (rootHandle_spec rep s wp e).2.1
        rw [ih _ hno' (by simp [step, hc, hi])]
        simp [step, hc]
      | succ j =>
        have hji : j ≠ i := by
          intro hh; subst hh; exact hno wp e (by simp)
        have hc := (rootHandle_spec rep s wp e).2.1
        by_cases hj : j < s.children.length
        · rw [ih _ hno' (by simp [step, hj, hc, hi])]
          simp [step, hj, hc, List.getD_eq_getElem?_getD, List.getElem?_set_ne hji]
        · rw [ih _ hno' (by simp [step, hj, hi])]
          simp [step, hj]
    | handleWarning h e => rw [ih _ hno' (by simp [step, hi])]; simp [step]
    | error h => cases h <;> (rw [ih _ hno' (by simp [step, hi])]; simp [step])
    | reporterError h => cases h <;> (rw [ih _ hno' (by simp [step, hi])]; simp [step])

/-- **The reporter is never called concurrently**: every access to the handler's `reporter`,
    `err` and `errsReported` fields in reporter/reporter.go — in particular the two call sites
    `h.reporter.Error(..)` / `h.reporter.Warning(..)` — holds the handler's mutex in write mode.
    Decided over the complete site table regenerated from the Go source on every run. -/
theorem reporter_serialised : ∀ s ∈ PCV.Gen.reporterSites, s.heldW = true := by decide

theorem reporter_sites_nonvacuous :
    (PCV.Gen.reporterSites.any (fun s => s.field == "reporter" && s.fn == "Handler.HandleError")
      && PCV.Gen.reporterSites.any (fun s => s.field == "reporter" && s.fn == "Handler.HandleWarning")
      && decide (PCV.Gen.reporterSites.length ≥ 10)) = true := by decide

-- non-vacuity: a reporter that aborts on its 2nd invocation; three errors via root and a child
example :
    let rep : Nat → Err → Option Err := fun k e => if k = 1 then some (100 + e) else none
    let s := run rep init [.newChild, .handleError 1 true 7, .handleError 0 true 8, .handleError 1 true 9]
    s.reported = [7, 8] ∧ s.root.err = some 108 ∧ hError s.root = some 108 := by decide

end PCV.Props.C08

#print axioms PCV.Props.C08.reporter_serialised
#print axioms PCV.Props.C08.root_refines
#print axioms PCV.Props.C08.latch
#print axioms PCV.Props.C08.reporter_abort_latches
#print axioms PCV.Props.C08.handleError_after_latch
#print axioms PCV.Props.C08.reporter_never_called_after_abort
#print axioms PCV.Props.C08.success_iff_no_error
#print axioms PCV.Props.C08.invalid_source
#print axioms PCV.Props.C08.warnings_inert
#print axioms PCV.Props.C08.child_error_only_own
