/-
C16, sequential half ("splitting a set of files across several compilations that share the table
finds a name collision exactly when compiling them together does"), at the level of one package
node of the model of `linker.Symbols` (PCV.Model.Symbols: `checkFile` = checkFileLocked /
checkResultLocked, `commitFile` = commitFileLocked):

* `check_ok_iff`      the check pass of an import reports nothing exactly when none of the file's
                      names is in the node and (for files with source) the file defines no name twice;
* `commit_names`      committing a file adds exactly its names;
* `allOk_iff`         a sequence of imports into one node succeeds entirely exactly when the files'
                      names are disjoint from the node, pairwise disjoint, and each file is
                      duplicate-free;
* `allOk_perm`        hence the outcome does not depend on the ORDER in which the files are imported
                      (any permutation, i.e. any split into consecutive compilations);
* `collision_symmetric` for two files: a collision is found in one order iff it is found in the other.

Packages (prefix registration), dependencies and extension numbers are outside these theorems (the
`symbols` engine checks them per input against the naive reference).
-/
import PCV.Model.Symbols
namespace PCV.Props.C16S
open PCV.Symbols

def names (f : FileDef) : List Name := f.syms.map (·.1)
def inNode (n : Node) (name : Name) : Bool := (lookupAssoc name n.symbols).isSome

/-- the check pass reported nothing -/
def quiet (r : H × Bool) : Prop := r.2 = false ∧ r.1.reported = []

theorem report_nonempty (h : H) (r : Rep) : (h.report r).1.reported ≠ [] := by
  unfold H.report
  cases h.mode <;> simp
  · split <;> simp_all

/-- once something was reported the check pass stays failed -/
theorem go_failed (n : Node) (f : FileDef) : ∀ (l : List (Name × SymKind)) (h : H) (seen : List Name),
    h.reported ≠ [] → (checkFile.go n f h seen l).1.reported ≠ [] := by
  intro l
  induction l with
  | nil => intro h seen hh; simpa [checkFile.go] using hh
  | cons x l ih =>
    intro h seen hh
    obtain ⟨name, k⟩ := x
    simp only [checkFile.go]
    -- first possible report
    by_cases h1 : (lookupAssoc name n.symbols).isSome = true
    · simp only [h1, if_true]
      rcases hr : h.report (.sym name) with ⟨h1', ab1⟩
      have hne1 : h1'.reported ≠ [] := by have := report_nonempty h (.sym name); rw [hr] at this; exact this
      cases ab1 with
      | true => simpa using hne1
      | false =>
        simp only [Bool.false_eq_true, if_false]
        by_cases h2 : (f.hasSource && seen.contains name) = true
        · simp only [h2, if_true]
          rcases hr2 : h1'.report (.sym name) with ⟨h2', ab2⟩
          have hne2 : h2'.reported ≠ [] := by have := report_nonempty h1' (.sym name); rw [hr2] at this; exact this
          cases ab2 with
          | true => simpa using hne2
          | false => simpa using ih h2' (name :: seen) hne2
        · simp only [h2, Bool.false_eq_true, if_false]
          exact ih h1' (name :: seen) hne1
    · simp only [h1, Bool.false_eq_true, if_false]
      by_cases h2 : (f.hasSource && seen.contains name) = true
      · simp only [h2, if_true]
        rcases hr2 : h.report (.sym name) with ⟨h2', ab2⟩
        have hne2 : h2'.reported ≠ [] := by have := report_nonempty h (.sym name); rw [hr2] at this; exact this
        cases ab2 with
        | true => simpa using hne2
        | false => simpa using ih h2' (name :: seen) hne2
      · simp only [h2, Bool.false_eq_true, if_false]
        exact ih h (name :: seen) hh

/-- characterisation of a quiet check pass, for the loop with an arbitrary `seen` prefix -/
theorem go_quiet_iff (n : Node) (f : FileDef) : ∀ (l : List (Name × SymKind)) (h : H) (seen : List Name),
    h.reported = [] →
    (quiet (checkFile.go n f h seen l) ↔
      (∀ x ∈ l.map (·.1), inNode n x = false) ∧
      (f.hasSource = true → (l.map (·.1)).Nodup ∧ ∀ x ∈ l.map (·.1), x ∉ seen)) := by
  intro l
  induction l with
  | nil => intro h seen hh; simp [checkFile.go, quiet, hh]
  | cons x l ih =>
    intro h seen hh
    obtain ⟨name, k⟩ := x
    simp only [checkFile.go, List.map_cons, List.mem_cons, forall_eq_or_imp, List.nodup_cons]
    by_cases h1 : (lookupAssoc name n.symbols).isSome = true
    · -- the name is taken: something is reported, never quiet
      have hin : inNode n name = true := h1
      simp only [h1, if_true]
      rcases hr : h.report (.sym name) with ⟨h1', ab1⟩
      have hne1 : h1'.reported ≠ [] := by have := report_nonempty h (.sym name); rw [hr] at this; exact this
      constructor
      · intro hq
        exfalso
        cases ab1 with
        | true => exact absurd hq.1 (by simp)
        | false =>
          simp only [Bool.false_eq_true, if_false] at hq
          by_cases h2 : (f.hasSource && seen.contains name) = true
          · simp only [h2, if_true] at hq
            rcases hr2 : h1'.report (.sym name) with ⟨h2', ab2⟩
            have hne2 : h2'.reported ≠ [] := by
              have := report_nonempty h1' (.sym name); rw [hr2] at this; exact this
            rw [hr2] at hq
            cases ab2 with
            | true => exact absurd hq.1 (by simp)
            | false => exact go_failed n f l h2' (name :: seen) hne2 (by simpa using hq.2)
          · simp only [h2, Bool.false_eq_true, if_false] at hq
            exact go_failed n f l h1' (name :: seen) hne1 hq.2
      · intro ⟨⟨hno, _⟩, _⟩
        rw [hin] at hno; cases hno
    · have hin : inNode n name = false := by simpa [inNode] using h1
      simp only [h1, Bool.false_eq_true, if_false]
      by_cases h2 : (f.hasSource && seen.contains name) = true
      · -- duplicate inside the file
        simp only [h2, if_true]
        rcases hr2 : h.report (.sym name) with ⟨h2', ab2⟩
        have hne2 : h2'.reported ≠ [] := by have := report_nonempty h (.sym name); rw [hr2] at this; exact this
        have hsrc : f.hasSource = true := by simp only [Bool.and_eq_true] at h2; exact h2.1
        have hseen : name ∈ seen := by
          simp only [Bool.and_eq_true, List.contains_iff_mem] at h2; exact h2.2
        constructor
        · intro hq
          exfalso
          cases ab2 with
          | true => exact absurd hq.1 (by simp)
          | false => exact go_failed n f l h2' (name :: seen) hne2 (by simpa using hq.2)
        · intro ⟨_, hs⟩
          exact absurd hseen ((hs hsrc).2.1)
      · simp only [h2, Bool.false_eq_true, if_false]
        rw [ih h (name :: seen) hh]
        have hns : f.hasSource = true → name ∉ seen := by
          intro hsrc hmem
          apply h2
          simp [hsrc, hmem]
        constructor
        · intro ⟨ha, hb⟩
          refine ⟨⟨hin, ha⟩, fun hsrc => ?_⟩
          obtain ⟨hnd, hdis⟩ := hb hsrc
          refine ⟨⟨fun hmem => (hdis name hmem) (List.mem_cons_self ..), hnd⟩, hns hsrc, ?_⟩
          intro x hx hxs
          exact hdis x hx (List.mem_cons_of_mem _ hxs)
        · intro ⟨⟨_, ha⟩, hb⟩
          refine ⟨ha, fun hsrc => ?_⟩
          obtain ⟨⟨hnm, hnd⟩, hn, hdis⟩ := hb hsrc
          refine ⟨hnd, ?_⟩
          intro x hx hxs
          rcases List.mem_cons.mp hxs with rfl | hxs
          · exact hnm hx
          · exact hdis x hx hxs

/-- **the check pass**: nothing is reported exactly when no name of the file is in the node and, for a
    file with source, no name is defined twice in the file -/
theorem check_ok_iff (n : Node) (f : FileDef) (h : H) (hh : h.reported = []) :
    quiet (checkFile n f h) ↔
      (∀ x ∈ names f, inNode n x = false) ∧ (f.hasSource = true → (names f).Nodup) := by
  unfold checkFile names
  rw [go_quiet_iff n f f.syms h [] hh]
  simp

/-! ### commit adds exactly the file's names -/

theorem lookup_setAssoc {α} (k k' : Name) (v : α) (l : List (Name × α)) :
    (lookupAssoc k' (setAssoc k v l)).isSome = (k == k' || (lookupAssoc k' l).isSome) := by
  induction l with
  | nil =>
    simp only [setAssoc, lookupAssoc]
    by_cases h : (k == k') = true <;> simp [h]
  | cons x l ih =>
    obtain ⟨a, b⟩ := x
    simp only [setAssoc]
    by_cases hak : (a == k) = true
    · have : a = k := by simpa using hak
      subst this
      simp only [hak, if_true, lookupAssoc]
      by_cases h : (a == k') = true <;> simp [h]
    · simp only [hak, Bool.false_eq_true, if_false, lookupAssoc]
      by_cases h : (a == k') = true
      · simp [h]
      · simp only [h, Bool.false_eq_true, if_false, ih]

theorem foldl_names (syms : List (Name × SymKind)) (path : String) :
    ∀ (acc : List (Name × Entry)) (x : Name),
      (lookupAssoc x (syms.foldl (fun acc (p : Name × SymKind) =>
          setAssoc p.1 { path := path, isEnumValue := isEnumVal p.2 } acc) acc)).isSome
        = ((syms.map (·.1)).contains x || (lookupAssoc x acc).isSome) := by
  induction syms with
  | nil => intro acc x; simp
  | cons s syms ih =>
    intro acc x
    simp only [List.foldl_cons, List.map_cons, List.contains_cons]
    rw [ih, lookup_setAssoc]
    by_cases hx : s.1 = x
    · subst hx
      rw [beq_self_eq_true]
      simp only [Bool.true_or, Bool.or_true]
    · have e1 : (s.1 == x) = false := beq_eq_false_iff_ne.mpr hx
      have e2 : (x == s.1) = false := beq_eq_false_iff_ne.mpr (Ne.symm hx)
      rw [e1, e2]
      simp only [Bool.false_or]

/-- **commit**: afterwards exactly the old names and the file's names are in the node -/
theorem commit_names (n : Node) (f : FileDef) (x : Name) :
    inNode (commitFile n f) x = ((names f).contains x || inNode n x) := by
  unfold inNode commitFile names
  exact foldl_names f.syms f.path n.symbols x

/-! ### sequences of imports into one node -/

def fresh : H := { mode := .strict }

/-- importing the files one after the other (each with a fresh handler) never reports anything -/
def allOk (n : Node) : List FileDef → Prop
  | [] => True
  | f :: fs => quiet (checkFile n f fresh) ∧ allOk (commitFile n f) fs

def wellFormed (f : FileDef) : Prop := f.hasSource = true → (names f).Nodup
def disjointNames (f g : FileDef) : Prop := ∀ x ∈ names f, x ∉ names g

theorem disjointNames_symm {f g : FileDef} (h : disjointNames f g) : disjointNames g f :=
  fun x hx hxf => h x hxf hx

/-- **all imports succeed** exactly when every file is duplicate-free, disjoint from the node, and the
    files are pairwise disjoint -/
theorem allOk_iff (fs : List FileDef) : ∀ n : Node,
    allOk n fs ↔ (∀ f ∈ fs, wellFormed f ∧ ∀ x ∈ names f, inNode n x = false) ∧
      fs.Pairwise disjointNames := by
  induction fs with
  | nil => intro n; simp [allOk]
  | cons f fs ih =>
    intro n
    simp only [allOk, check_ok_iff n f fresh rfl, ih, List.mem_cons, forall_eq_or_imp,
      List.pairwise_cons]
    constructor
    · intro ⟨⟨hfn, hwf⟩, hrest, hpw⟩
      refine ⟨⟨⟨hwf, hfn⟩, ?_⟩, ?_, hpw⟩
      · intro g hg
        refine ⟨(hrest g hg).1, fun x hx => ?_⟩
        have := (hrest g hg).2 x hx
        rw [commit_names] at this
        simp only [Bool.or_eq_false_iff] at this
        exact this.2
      · intro g hg x hx hxg
        have := (hrest g hg).2 x hxg
        rw [commit_names] at this
        simp only [Bool.or_eq_false_iff, List.contains_eq_mem, decide_eq_false_iff_not] at this
        exact this.1 hx
    · intro ⟨⟨⟨hwf, hfn⟩, hrest⟩, hdis, hpw⟩
      refine ⟨⟨hfn, hwf⟩, ?_, hpw⟩
      intro g hg
      refine ⟨(hrest g hg).1, fun x hx => ?_⟩
      rw [commit_names]
      simp only [Bool.or_eq_false_iff, List.contains_eq_mem, decide_eq_false_iff_not]
      exact ⟨fun hxf => hdis g hg x hxf hx, (hrest g hg).2 x hx⟩

/-- **C16 (order / split independence of name collisions).** Whether importing a set of files into a
    package node meets a collision does not depend on the order of the imports. -/
theorem allOk_perm (n : Node) {fs gs : List FileDef} (p : fs.Perm gs) : allOk n fs ↔ allOk n gs := by
  rw [allOk_iff, allOk_iff]
  constructor
  · intro ⟨h1, h2⟩
    exact ⟨fun f hf => h1 f (p.mem_iff.mpr hf), (p.pairwise_iff (fun h => disjointNames_symm h)).mp h2⟩
  · intro ⟨h1, h2⟩
    exact ⟨fun f hf => h1 f (p.mem_iff.mp hf), (p.pairwise_iff (fun h => disjointNames_symm h)).mpr h2⟩

/-- two files: a collision is found importing `f` then `g` iff it is found importing `g` then `f` -/
theorem collision_symmetric (n : Node) (f g : FileDef) : ¬ allOk n [f, g] ↔ ¬ allOk n [g, f] :=
  not_congr (allOk_perm n (List.Perm.swap g f []))

-- non-vacuity: two disjoint files succeed in both orders; overlapping ones fail in both
def exA : FileDef := ⟨1, "a.proto", ["p"], [], true, [(["p", "M"], .msg), (["p", "M", "f"], .field)]⟩
def exB : FileDef := ⟨2, "b.proto", ["p"], [], false, [(["p", "N"], .msg)]⟩
def exC : FileDef := ⟨3, "c.proto", ["p"], [], false, [(["p", "M"], .enum)]⟩
example : allOk {} [exA, exB] ∧ allOk {} [exB, exA] := by
  constructor <;> (simp only [allOk, quiet]; decide)
example : ¬ allOk {} [exA, exC] ∧ ¬ allOk {} [exC, exA] := by
  constructor <;> (simp only [allOk, quiet]; decide)

end PCV.Props.C16S

#print axioms PCV.Props.C16S.check_ok_iff
#print axioms PCV.Props.C16S.commit_names
#print axioms PCV.Props.C16S.allOk_iff
#print axioms PCV.Props.C16S.allOk_perm
#print axioms PCV.Props.C16S.collision_symmetric
