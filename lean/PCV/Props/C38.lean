/-
C38 — String interning is a bijection, also under concurrency.

Model: `PCV.Model.Intern` (char6.go, intern.go, the use of syncx.Log).  Lemmas and the
invariant proof: `PCV.Lemmas.Intern`.  This file states the property.

(a) char6: `decodeChar6 ∘ encodeChar6 = id` on the whole inline domain (structural induction
    over the string, no enumeration), hence injectivity; the domain is exactly
    `Inlineable`; inline IDs are 0 (only for "") or negative, so they never collide with
    table IDs.
(b) concurrency: `Reach` is every state reachable from the empty table by ANY interleaving of
    the atomic steps (Load / p.Load / LoadOrStore / Append / Store(nil) / p.Store) of ANY
    number of concurrent `Intern` calls.  In every such state all returned calls satisfy
    `id₁ = id₂ ↔ s₁ = s₂`, `Value(id) = s` now and for ever, and `Query` is exact.
(c) sequential use is the special case of calls run to completion one at a time
    (`SeqReach`); a sequential `Intern` always finishes, and returns an id unless the
    log is exhausted.
-/
import PCV.Lemmas.Intern
namespace PCV.Props.C38
open PCV.Intern

/-! ### (a) the inline encoding -/

/-- the alphabet has 64 distinct symbols and the last one (sextet 077) is `.` -/
theorem alphabet_ok : alphabet.length = 64 ∧ alphabet.Nodup ∧ char6ToByte 63 = DOT :=
  ⟨alphabet_length, alphabet_nodup, alphabet_last⟩

/-- **decode ∘ encode = id** for every string the encoder accepts -/
theorem char6_decode_encode (s : Str) (id : Nat) (h : encodeChar6 s = some id) :
    decodeChar6 id = s := decode_encode s id h

/-- **the inline encoding is one-to-one on its whole domain** -/
theorem char6_injective (s₁ s₂ : Str) (id : Nat)
    (h₁ : encodeChar6 s₁ = some id) (h₂ : encodeChar6 s₂ = some id) : s₁ = s₂ :=
  encode_injective s₁ s₂ id h₁ h₂

/-- the domain of the encoder: "" or ≤ 5 alphabet bytes not ending in '.' -/
theorem char6_domain (s : Str) : (encodeChar6 s).isSome ↔ Inlineable s := encode_isSome_iff s

/-- inline IDs: 0 exactly for "", otherwise the sign bit is set (a negative `int32`) -/
theorem char6_sign (s : Str) (id : Nat) (h : encodeChar6 s = some id) :
    (id = 0 ∧ s = []) ∨ (SIGN ≤ id ∧ id < U32 ∧ s ≠ []) := encode_range s id h

/-! ### (b) every interleaving -/

/-- **Goroutines interning concurrently: same ID exactly for the same string.**  `S` is any
    state reachable by any interleaving; calls `j₁`, `j₂` are any two `Intern` calls that have
    returned (they may have raced with each other and with any number of other calls). -/
theorem concurrent_same_id_iff (S : Sys) (hR : Reach S) (j₁ j₂ : Nat) (s₁ s₂ : Str) (id₁ id₂ : Nat)
    (h₁ : S.calls[j₁]? = some ⟨s₁, .ret id₁⟩) (h₂ : S.calls[j₂]? = some ⟨s₂, .ret id₂⟩) :
    id₁ = id₂ ↔ s₁ = s₂ :=
  inv_same_id_iff S (inv_reach S hR) j₁ j₂ s₁ s₂ id₁ id₂ h₁ h₂

/-- all callers interning the same string get the same id, on every interleaving -/
theorem concurrent_same_id (S : Sys) (hR : Reach S) (j₁ j₂ : Nat) (s : Str) (id₁ id₂ : Nat)
    (h₁ : S.calls[j₁]? = some ⟨s, .ret id₁⟩) (h₂ : S.calls[j₂]? = some ⟨s, .ret id₂⟩) :
    id₁ = id₂ :=
  (concurrent_same_id_iff S hR j₁ j₂ s s id₁ id₂ h₁ h₂).mpr rfl

/-- **`Value(Intern(s)) = s`**, at the moment the call has returned and in every later state,
    whatever other goroutines do meanwhile -/
theorem value_of_returned (S : Sys) (hR : Reach S) (j : Nat) (s : Str) (id : Nat)
    (h : S.calls[j]? = some ⟨s, .ret id⟩) (later : List Act) :
    value (run S later).sh id = some s :=
  inv_value_ret (run S later) (inv_reach _ (reach_run S later hR)) j s id (ret_stable S later j s id h)

/-- **`Query` reports a string as present exactly when it is inline or some `Intern(s)` has
    returned** -/
theorem query_present_iff (S : Sys) (hR : Reach S) (s : Str) :
    (query S.sh s).2 = true ↔
      Inlineable s ∨ ∃ (j : Nat) (id : Nat), S.calls[j]? = some (Call.mk s (.ret id)) :=
  inv_query_iff S (inv_reach S hR) s

/-- a successful `Query` returns the ID of the string: it converts back to `s`, and it is the
    ID every returned `Intern(s)` got -/
theorem query_id_correct (S : Sys) (hR : Reach S) (s : Str) (id : Nat)
    (hq : query S.sh s = (id, true)) :
    value S.sh id = some s ∧
      ∀ (j : Nat) (id' : Nat), S.calls[j]? = some (Call.mk s (.ret id')) → id' = id :=
  inv_query_id S (inv_reach S hR) s id hq

/-- table IDs are positive `int32`s, so they never collide with inline IDs -/
theorem table_id_positive (S : Sys) (hR : Reach S) (j : Nat) (s : Str) (id : Nat)
    (h : S.calls[j]? = some ⟨s, .ret id⟩) (hs : encodeChar6 s = none) : 0 < id ∧ id < SIGN := by
  rcases callOk_ret S (inv_reach S hR) j s id h with a | ⟨_, _, _, _, hz, hm, _⟩
  · rw [hs] at a; cases a
  · simp only [MAXI32, SIGN] at *; omega

/-! ### (c) sequential use -/

/-- a sequential `Intern` never hangs: it returns or panics -/
theorem seq_intern_finishes (S : Sys) (hS : SeqReach S) (s : Str) :
    ∃ r, (internSeq S s).2 = some r := by
  obtain ⟨hR, hQ⟩ := seqReach_spec S hS
  obtain ⟨c, _, _, hd, hres⟩ := internSeq_finishes S (inv_reach S hR) hQ s
  rw [hres]
  obtain ⟨cs, pc⟩ := c
  cases pc <;> simp [PC.done, Call.result] at hd ⊢

/-- … and it returns an ID unless the table is exhausted (2^31 - 1 entries, or a key was
    poisoned by an earlier exhaustion) -/
theorem seq_intern_returns (S : Sys) (hS : SeqReach S) (s : Str)
    (hn : S.sh.next < MAXI32) (hp : ∀ k e, S.sh.index k = some e → e.poisoned = false) :
    ∃ id, (internSeq S s).2 = some (some id) := by
  obtain ⟨hR, hQ⟩ := seqReach_spec S hS
  exact internSeq_returns S (inv_reach S hR) hQ s hn hp

/-- **looking up an interned string's ID gives back the string** (and keeps doing so) -/
theorem seq_value_intern (S : Sys) (hS : SeqReach S) (s : Str) (id : Nat)
    (h : (internSeq S s).2 = some (some id)) (later : List Act) :
    value (run (internSeq S s).1 later).sh id = some s := by
  obtain ⟨hR, hQ⟩ := seqReach_spec S hS
  obtain ⟨hR', _⟩ := seqReach_spec _ (SeqReach.intern S s hS)
  exact value_of_returned _ hR' _ s id (internSeq_record S (inv_reach S hR) hQ s id h) later

/-- **two strings get the same ID exactly when they are equal**: two sequential `Intern`s with
    anything (even concurrent activity that has finished) in between -/
theorem seq_id_eq_iff (S : Sys) (hS : SeqReach S) (s₁ s₂ : Str) (id₁ id₂ : Nat)
    (h₁ : (internSeq S s₁).2 = some (some id₁)) (between : List Act)
    (hQ₂ : Quiescent (run (internSeq S s₁).1 between))
    (h₂ : (internSeq (run (internSeq S s₁).1 between) s₂).2 = some (some id₂)) :
    id₁ = id₂ ↔ s₁ = s₂ := by
  obtain ⟨hR, hQ⟩ := seqReach_spec S hS
  obtain ⟨hR₁, _⟩ := seqReach_spec _ (SeqReach.intern S s₁ hS)
  have hR₂ := reach_run _ between hR₁
  have r₁ := internSeq_record S (inv_reach S hR) hQ s₁ id₁ h₁
  have r₂ := internSeq_record _ (inv_reach _ hR₂) hQ₂ s₂ id₂ h₂
  obtain ⟨acts, ha⟩ := internSeq_path (run (internSeq S s₁).1 between) s₂
  have hR₃ : Reach (internSeq (run (internSeq S s₁).1 between) s₂).1 := ha ▸ reach_run _ acts hR₂
  have r₁' := ret_stable _ between _ _ _ r₁
  have r₁'' : (internSeq (run (internSeq S s₁).1 between) s₂).1.calls[S.calls.length]? =
      some ⟨s₁, .ret id₁⟩ := by rw [ha]; exact ret_stable _ acts _ _ _ r₁'
  exact concurrent_same_id_iff _ hR₃ _ _ s₁ s₂ id₁ id₂ r₁'' r₂

/-- after `Intern(s)` returned `id`, `Query(s)` reports `(id, true)` -/
theorem seq_query_after_intern (S : Sys) (hS : SeqReach S) (s : Str) (id : Nat)
    (h : (internSeq S s).2 = some (some id)) : query (internSeq S s).1.sh s = (id, true) := by
  obtain ⟨hR, hQ⟩ := seqReach_spec S hS
  obtain ⟨hR', _⟩ := seqReach_spec _ (SeqReach.intern S s hS)
  have r := internSeq_record S (inv_reach S hR) hQ s id h
  have hq : (query (internSeq S s).1.sh s).2 = true :=
    (query_present_iff _ hR' s).mpr (Or.inr ⟨_, _, r⟩)
  have hq' : query (internSeq S s).1.sh s = ((query (internSeq S s).1.sh s).1, true) := by
    rw [← hq]
  rw [hq']
  have := (query_id_correct _ hR' s _ hq').2 _ _ r
  rw [this]

/-- a string that is not inline and was never interned is reported absent -/
theorem seq_query_absent (S : Sys) (hR : Reach S) (s : Str) (hi : ¬ Inlineable s)
    (hn : ∀ (j : Nat) (c : Call), S.calls[j]? = some c → c.s ≠ s) :
    (query S.sh s).2 = false := by
  cases hq : (query S.sh s).2 with
  | false => rfl
  | true =>
    rcases (query_present_iff S hR s).mp hq with h | ⟨j, id, hj⟩
    · exact absurd h hi
    · exact absurd rfl (hn j _ hj)

/-! ### non-vacuity -/

/-- "foo." (ends in a dot, so not inline) interned by two racing goroutines: call 1 finds the
    leader mid-insertion, spins once, and both return table ID 1. -/
example :
    let foo : Str := [102, 111, 111, 46]
    ((run init [.spawn foo, .spawn foo, .step 0, .step 1, .step 0, .step 1, .step 1, .step 0,
        .step 0, .step 1, .step 1]).calls.map Call.result) = [some (some 1), some (some 1)] := by
  decide

/-- a sequential history with an inline and a table string; hypotheses of the sequential
    theorems are satisfiable -/
example : (internSeq (internSeq init [97, 98]).1 [104, 101, 108, 108, 111, 33]).2 = some (some 1) := by
  decide

example : encodeChar6 [97, 46, 98] = some 4294754250 ∧ decodeChar6 4294754250 = [97, 46, 98] := by
  decide

example : Inlineable [97, 46, 98] := Or.inr ⟨by decide, by decide, by decide⟩

end PCV.Props.C38

#print axioms PCV.Props.C38.alphabet_ok
#print axioms PCV.Props.C38.char6_decode_encode
#print axioms PCV.Props.C38.char6_injective
#print axioms PCV.Props.C38.char6_domain
#print axioms PCV.Props.C38.char6_sign
#print axioms PCV.Props.C38.concurrent_same_id_iff
#print axioms PCV.Props.C38.concurrent_same_id
#print axioms PCV.Props.C38.value_of_returned
#print axioms PCV.Props.C38.query_present_iff
#print axioms PCV.Props.C38.query_id_correct
#print axioms PCV.Props.C38.table_id_positive
#print axioms PCV.Props.C38.seq_intern_finishes
#print axioms PCV.Props.C38.seq_intern_returns
#print axioms PCV.Props.C38.seq_value_intern
#print axioms PCV.Props.C38.seq_id_eq_iff
#print axioms PCV.Props.C38.seq_query_after_intern
#print axioms PCV.Props.C38.seq_query_absent
