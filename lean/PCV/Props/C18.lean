/-
C18 — Resolvers expose exactly the visible elements.

`resolveInFile` (model: `PCV.Resolve.resolveIn`) answers with `fn g` of the FIRST file `g`, in
its depth-first visiting order, on which `fn` does not say NotFound; the files it visits are
exactly `Visible f = {f} ∪ direct imports ∪ public closure of the direct imports`.
Hence: found (or a non-NotFound error) ⇔ some visible file defines the element — for every
callback `fn` (by name, by extension number, by path are instances).

The import graph is assumed acyclic (a rank function decreasing along imports — the compiler
rejects import cycles); the theorems are for all such graphs, all callbacks, all files.
-/
import PCV.Model.Resolve
namespace PCV.Props.C18
open PCV.Resolve

variable {α ε : Type}

/-! ### `resolveInFile` = first answer along the DFS visiting order -/

theorem firstRes_append (fn : Nat → Res α ε) (l1 l2 : List Nat) :
    firstRes fn (l1 ++ l2) =
      match firstRes fn l1 with
      | .notFound => firstRes fn l2
      | r => r := by
  induction l1 with
  | nil => simp [firstRes]
  | cons g rest ih =>
    simp only [List.cons_append, firstRes]
    cases h : fn g <;> simp [ih]

theorem loopImports_eq (fn : Nat → Res α ε) (rec : Nat → Res α ε) (L : Nat → List Nat)
    (h : ∀ g, rec g = firstRes fn (L g)) (po : Bool) (imps : List (Nat × Bool)) :
    loopImports rec po imps =
      firstRes fn ((imps.filter (fun i => !po || i.2)).flatMap (fun i => L i.1)) := by
  induction imps with
  | nil => simp [loopImports, firstRes]
  | cons i rest ih =>
    obtain ⟨g, pub⟩ := i
    by_cases hskip : (po && !pub) = true
    · have hf : (!po || pub) = false := by
        cases po <;> cases pub <;> simp_all
      simp [loopImports, hskip, hf, ih]
    · have hf : (!po || pub) = true := by
        cases po <;> cases pub <;> simp_all
      simp only [loopImports, hskip, List.filter_cons, hf, List.flatMap_cons, firstRes_append,
        if_true, ← h g, ← ih]
      cases rec g <;> simp

/-- **Result characterisation.** `resolveInFile` returns `fn` of the first visited file on
    which `fn` is not NotFound (and NotFound if there is none). No hypothesis on the graph. -/
theorem resolveIn_eq_firstRes (imports : Imports) (fn : Nat → Res α ε) :
    ∀ fuel f po checked,
      resolveIn imports fn fuel f po checked = firstRes fn (dfsList imports fuel f po checked) := by
  intro fuel
  induction fuel with
  | zero => intro f po checked; simp [resolveIn, dfsList, firstRes]
  | succ fuel ih =>
    intro f po checked
    by_cases hc : f ∈ checked
    · simp [resolveIn, dfsList, hc, firstRes]
    · simp only [resolveIn, dfsList, List.contains_eq_mem, hc, decide_false, if_false, firstRes,
        Bool.false_eq_true]
      cases hfn : fn f with
      | found a => simp
      | err e => simp
      | notFound =>
        simp only
        exact loopImports_eq fn _ (fun g => dfsList imports fuel g true (checked ++ [f]))
          (fun g => ih g true (checked ++ [f])) po (imports f)

theorem firstRes_ne_notFound_iff (fn : Nat → Res α ε) (l : List Nat) :
    firstRes fn l ≠ .notFound ↔ ∃ g ∈ l, fn g ≠ .notFound := by
  induction l with
  | nil => simp [firstRes]
  | cons g rest ih =>
    simp only [firstRes, List.mem_cons, exists_eq_or_imp]
    cases h : fn g <;> simp [ih]

theorem firstRes_mem (fn : Nat → Res α ε) (l : List Nat) (r : Res α ε)
    (h : firstRes fn l = r) (hr : r ≠ .notFound) : ∃ g ∈ l, fn g = r := by
  induction l with
  | nil => simp [firstRes] at h; exact absurd h.symm hr
  | cons g rest ih =>
    simp only [firstRes] at h
    cases hg : fn g with
    | notFound =>
      rw [hg] at h
      obtain ⟨g', hm, hg'⟩ := ih h
      exact ⟨g', List.mem_cons_of_mem _ hm, hg'⟩
    | found a => rw [hg] at h; exact ⟨g, List.mem_cons_self, by rw [hg]; exact h⟩
    | err e => rw [hg] at h; exact ⟨g, List.mem_cons_self, by rw [hg]; exact h⟩

/-! ### The visited files are exactly the visible files -/

/-- Reachability as the walk sees it: the node itself, or one import step (any import at the
    root, a public one below it) followed by public imports. -/
def ReachPO (imports : Imports) (po : Bool) (f g : Nat) : Prop :=
  g = f ∨ ∃ d b, (d, b) ∈ imports f ∧ (po = true → b = true) ∧ PubReach imports d g

theorem reachPO_false_iff_visible (imports : Imports) (f g : Nat) :
    ReachPO imports false f g ↔ Visible imports f g := by
  simp [ReachPO, Visible]

theorem reachPO_true_iff_pubReach (imports : Imports) (f g : Nat) :
    ReachPO imports true f g ↔ PubReach imports f g := by
  constructor
  · rintro (rfl | ⟨d, b, hm, hb, hr⟩)
    · exact PubReach.refl _
    · have : b = true := hb rfl
      subst this
      exact PubReach.step hm hr
  · intro h
    cases h with
    | refl => exact Or.inl rfl
    | step hm hr => exact Or.inr ⟨_, true, hm, fun _ => rfl, hr⟩

/-- Soundness of the walk: every visited file is reachable (any graph, any fuel). -/
theorem mem_dfsList_reach (imports : Imports) :
    ∀ fuel f po checked g, g ∈ dfsList imports fuel f po checked → ReachPO imports po f g := by
  intro fuel
  induction fuel with
  | zero => intro f po checked g h; simp [dfsList] at h
  | succ fuel ih =>
    intro f po checked g h
    by_cases hc : f ∈ checked
    · simp [dfsList, hc] at h
    · simp only [dfsList, List.contains_eq_mem, hc, decide_false, if_false, Bool.false_eq_true,
        List.mem_cons, List.mem_flatMap, List.mem_filter] at h
      rcases h with rfl | ⟨⟨d, b⟩, ⟨hm, hb⟩, hg⟩
      · exact Or.inl rfl
      · have := ih d true (checked ++ [f]) g hg
        rw [reachPO_true_iff_pubReach] at this
        refine Or.inr ⟨d, b, hm, ?_, this⟩
        intro hpo
        subst hpo
        simpa using hb

/-- Acyclicity: a rank that strictly decreases along every import. -/
def Acyclic (imports : Imports) (rank : Nat → Nat) : Prop :=
  ∀ f g b, (g, b) ∈ imports f → rank g < rank f

/-- Completeness of the walk on an acyclic graph: with `rank f < fuel` and only ancestors in
    `checked` (all of larger rank), every reachable file is visited. -/
theorem reach_mem_dfsList (imports : Imports) (rank : Nat → Nat) (hac : Acyclic imports rank) :
    ∀ fuel f po checked g, rank f < fuel → (∀ c ∈ checked, rank f < rank c) →
      ReachPO imports po f g → g ∈ dfsList imports fuel f po checked := by
  intro fuel
  induction fuel with
  | zero => intro f po checked g hf; omega
  | succ fuel ih =>
    intro f po checked g hf hck hr
    have hc : ¬ f ∈ checked := by
      intro hm
      have := hck f hm
      omega
    simp only [dfsList, List.contains_eq_mem, hc, decide_false, if_false, Bool.false_eq_true,
      List.mem_cons, List.mem_flatMap, List.mem_filter]
    rcases hr with rfl | ⟨d, b, hm, hb, hp⟩
    · exact Or.inl rfl
    · refine Or.inr ⟨(d, b), ⟨hm, ?_⟩, ?_⟩
      · cases po with
        | false => simp
        | true => simp [hb rfl]
      · have hlt := hac f d b hm
        apply ih d true (checked ++ [f]) g (by omega)
        · intro c hcm
          rcases List.mem_append.mp hcm with h1 | h1
          · have := hck c h1; omega
          · have : c = f := by simpa using h1
            subst this; exact hlt
        · exact (reachPO_true_iff_pubReach imports d g).mpr hp

/-- **Visited = visible.** -/
theorem mem_dfsList_iff_visible (imports : Imports) (rank : Nat → Nat) (hac : Acyclic imports rank)
    (fuel f : Nat) (hf : rank f < fuel) (g : Nat) :
    g ∈ dfsList imports fuel f false [] ↔ Visible imports f g := by
  rw [← reachPO_false_iff_visible]
  constructor
  · exact mem_dfsList_reach imports fuel f false [] g
  · exact reach_mem_dfsList imports rank hac fuel f false [] g hf (by simp)

/-! ### C18 -/

/-- **C18, headline.** A resolver built from file `f` (`resolveInFile(f, false, nil, fn)`)
    answers something other than NotFound exactly when `fn` does so on some file that is
    `f` itself, a direct import, or reachable from a direct import through public imports. -/
theorem resolveInFile_found_iff (imports : Imports) (rank : Nat → Nat) (hac : Acyclic imports rank)
    (fn : Nat → Res α ε) (fuel f : Nat) (hf : rank f < fuel) :
    resolveIn imports fn fuel f false [] ≠ .notFound ↔
      ∃ g, Visible imports f g ∧ fn g ≠ .notFound := by
  rw [resolveIn_eq_firstRes, firstRes_ne_notFound_iff]
  constructor
  · rintro ⟨g, hm, hg⟩
    exact ⟨g, (mem_dfsList_iff_visible imports rank hac fuel f hf g).mp hm, hg⟩
  · rintro ⟨g, hv, hg⟩
    exact ⟨g, (mem_dfsList_iff_visible imports rank hac fuel f hf g).mpr hv, hg⟩

/-- Soundness without any hypothesis on the graph or the fuel: whatever is returned is the
    callback's answer on a visible file. -/
theorem resolveInFile_sound (imports : Imports) (fn : Nat → Res α ε) (fuel f : Nat)
    (r : Res α ε) (h : resolveIn imports fn fuel f false [] = r) (hr : r ≠ .notFound) :
    ∃ g, Visible imports f g ∧ fn g = r := by
  rw [resolveIn_eq_firstRes] at h
  obtain ⟨g, hm, hg⟩ := firstRes_mem fn _ r h hr
  exact ⟨g, (reachPO_false_iff_visible imports f g).mp (mem_dfsList_reach imports fuel f false [] g hm), hg⟩

/-- The answer does not depend on the fuel once it exceeds the rank of the file. -/
theorem resolveInFile_fuel_irrelevant (imports : Imports) (rank : Nat → Nat)
    (hac : Acyclic imports rank) (fn : Nat → Res α ε) (f fuel₁ fuel₂ : Nat)
    (h1 : rank f < fuel₁) (h2 : rank f < fuel₂) :
    (resolveIn imports fn fuel₁ f false [] = .notFound ↔
      resolveIn imports fn fuel₂ f false [] = .notFound) := by
  have a := resolveInFile_found_iff imports rank hac fn fuel₁ f h1
  have b := resolveInFile_found_iff imports rank hac fn fuel₂ f h2
  constructor
  · intro h; exact Classical.byContradiction (fun hn => (a.mpr (b.mp hn)) h)
  · intro h; exact Classical.byContradiction (fun hn => (b.mpr (a.mp hn)) h)

/-! ### Instances: by name, by extension number, by path -/

/-- `fileResolver.FindDescriptorByName` -/
def byName (fs : Files) (n : Name) : Nat → Res (Nat × Kind) Unit := fun g =>
  match fs[g]? with
  | some d => match d.findByName n with
    | some k => .found (g, k)
    | none => .notFound
  | none => .notFound

/-- `fileResolver.FindExtensionByNumber` -/
def byExtNumber (fs : Files) (msg : Name) (num : Nat) : Nat → Res (Nat × Name) Unit := fun g =>
  match fs[g]? with
  | some d => match d.findExt msg num with
    | some x => .found (g, x)
    | none => .notFound
  | none => .notFound

/-- `fileResolver.FindFileByPath` -/
def byPath (p : Nat) : Nat → Res Nat Unit := fun g => if g = p then .found g else .notFound

/-- `fileResolver.FindMessageByName`: a name defined as something else is an error (not
    NotFound), which also ends the walk. -/
def msgByName (fs : Files) (n : Name) : Nat → Res Nat Kind := fun g =>
  match fs[g]? with
  | some d => match d.findByName n with
    | some .msg => .found g
    | some k => .err k
    | none => .notFound
  | none => .notFound

section instances
variable (fs : Files) (rank : Nat → Nat) (hac : Acyclic fs.imports rank) (f : Nat)
include hac

theorem findDescriptorByName_iff (n : Name) :
    resolveIn fs.imports (byName fs n) (rank f + 1) f false [] ≠ .notFound ↔
      ∃ g d, Visible fs.imports f g ∧ fs[g]? = some d ∧ d.findByName n ≠ none := by
  rw [resolveInFile_found_iff fs.imports rank hac _ _ f (Nat.lt_succ_self _)]
  constructor
  · rintro ⟨g, hv, hg⟩
    unfold byName at hg
    cases hd : fs[g]? with
    | none => simp [hd] at hg
    | some d =>
      refine ⟨g, d, hv, hd, ?_⟩
      intro hnone
      simp [hd, hnone] at hg
  · rintro ⟨g, d, hv, hd, hn⟩
    refine ⟨g, hv, ?_⟩
    unfold byName
    cases hk : d.findByName n with
    | none => exact absurd hk hn
    | some k => simp [hd, hk]

theorem findExtensionByNumber_iff (msg : Name) (num : Nat) :
    resolveIn fs.imports (byExtNumber fs msg num) (rank f + 1) f false [] ≠ .notFound ↔
      ∃ g d, Visible fs.imports f g ∧ fs[g]? = some d ∧ d.findExt msg num ≠ none := by
  rw [resolveInFile_found_iff fs.imports rank hac _ _ f (Nat.lt_succ_self _)]
  constructor
  · rintro ⟨g, hv, hg⟩
    unfold byExtNumber at hg
    cases hd : fs[g]? with
    | none => simp [hd] at hg
    | some d =>
      refine ⟨g, d, hv, hd, ?_⟩
      intro hnone
      simp [hd, hnone] at hg
  · rintro ⟨g, d, hv, hd, hn⟩
    refine ⟨g, hv, ?_⟩
    unfold byExtNumber
    cases hk : d.findExt msg num with
    | none => exact absurd hk hn
    | some k => simp [hd, hk]

theorem findFileByPath_iff (p : Nat) :
    resolveIn fs.imports (byPath p) (rank f + 1) f false [] ≠ .notFound ↔
      Visible fs.imports f p := by
  rw [resolveInFile_found_iff fs.imports rank hac _ _ f (Nat.lt_succ_self _)]
  constructor
  · rintro ⟨g, hv, hg⟩
    unfold byPath at hg
    by_cases h : g = p
    · subst h; exact hv
    · simp [h] at hg
  · intro hv
    exact ⟨p, hv, by simp [byPath]⟩

theorem findMessageByName_iff (n : Name) :
    resolveIn fs.imports (msgByName fs n) (rank f + 1) f false [] ≠ .notFound ↔
      ∃ g d, Visible fs.imports f g ∧ fs[g]? = some d ∧ d.findByName n ≠ none := by
  rw [resolveInFile_found_iff fs.imports rank hac _ _ f (Nat.lt_succ_self _)]
  constructor
  · rintro ⟨g, hv, hg⟩
    unfold msgByName at hg
    cases hd : fs[g]? with
    | none => simp [hd] at hg
    | some d =>
      refine ⟨g, d, hv, hd, ?_⟩
      intro hnone
      simp [hd, hnone] at hg
  · rintro ⟨g, d, hv, hd, hn⟩
    refine ⟨g, hv, ?_⟩
    unfold msgByName
    cases hk : d.findByName n with
    | none => exact absurd hk hn
    | some k => cases k <;> simp [hd, hk]

end instances

/-! ### The oracle's saturation computes the visible set -/

/-- `k`-step public reachability. -/
inductive PubReachN (imports : Imports) : Nat → Nat → Nat → Prop where
  | refl (g : Nat) : PubReachN imports 0 g g
  | step {k f h g : Nat} : (h, true) ∈ imports f → PubReachN imports k h g →
      PubReachN imports (k + 1) f g

theorem pubReachN_of_pubReach (imports : Imports) (rank : Nat → Nat) (hac : Acyclic imports rank)
    {f g : Nat} (h : PubReach imports f g) : ∃ k, k ≤ rank f ∧ PubReachN imports k f g := by
  induction h with
  | refl g => exact ⟨0, Nat.zero_le _, PubReachN.refl g⟩
  | step hm _ ih =>
    obtain ⟨k, hk, hr⟩ := ih
    have := hac _ _ _ hm
    exact ⟨k + 1, by omega, PubReachN.step hm hr⟩

theorem pubReach_of_pubReachN (imports : Imports) {k f g : Nat} (h : PubReachN imports k f g) :
    PubReach imports f g := by
  induction h with
  | refl g => exact PubReach.refl g
  | step hm _ ih => exact PubReach.step hm ih

theorem pubReach_trans (imports : Imports) {a b c : Nat} (h1 : PubReach imports a b)
    (h2 : PubReach imports b c) : PubReach imports a c := by
  induction h1 with
  | refl => exact h2
  | step hm _ ih => exact PubReach.step hm (ih h2)

theorem mem_pubStep (imports : Imports) (s : List Nat) (g : Nat) :
    g ∈ pubStep imports s ↔ g ∈ s ∨ ∃ h ∈ s, (g, true) ∈ imports h := by
  simp only [pubStep, List.mem_append, List.mem_flatMap, List.mem_map, List.mem_filter]
  constructor
  · rintro (h | ⟨h, hs, ⟨⟨g', b⟩, ⟨hm, hb⟩, rfl⟩⟩)
    · exact Or.inl h
    · simp at hb; subst hb; exact Or.inr ⟨h, hs, hm⟩
  · rintro (h | ⟨h, hs, hm⟩)
    · exact Or.inl h
    · exact Or.inr ⟨h, hs, ⟨(g, true), ⟨hm, rfl⟩, rfl⟩⟩

theorem mem_saturate_sound (imports : Imports) :
    ∀ n s g, g ∈ saturate imports n s → ∃ d ∈ s, PubReach imports d g := by
  intro n
  induction n with
  | zero => intro s g h; exact ⟨g, h, PubReach.refl g⟩
  | succ n ih =>
    intro s g h
    obtain ⟨d, hd, hr⟩ := ih (pubStep imports s) g h
    rcases (mem_pubStep imports s d).mp hd with h1 | ⟨e, he, hm⟩
    · exact ⟨d, h1, hr⟩
    · exact ⟨e, he, PubReach.step hm hr⟩

theorem mem_saturate_mono (imports : Imports) :
    ∀ n s g, g ∈ s → g ∈ saturate imports n s := by
  intro n
  induction n with
  | zero => intro s g h; exact h
  | succ n ih => intro s g h; exact ih _ g ((mem_pubStep imports s g).mpr (Or.inl h))

theorem mem_saturate_complete (imports : Imports) :
    ∀ k n s d g, k ≤ n → d ∈ s → PubReachN imports k d g → g ∈ saturate imports n s := by
  intro k
  induction k with
  | zero =>
    intro n s d g _ hd hr
    cases hr
    exact mem_saturate_mono imports n s d hd
  | succ k ih =>
    intro n s d g hkn hd hr
    cases n with
    | zero => omega
    | succ n =>
      cases hr with
      | step hm hr' =>
        exact ih n (pubStep imports s) _ g (by omega)
          ((mem_pubStep imports s _).mpr (Or.inr ⟨d, hd, hm⟩)) hr'

/-- The computable visible set used by the property oracle is the declarative one, as soon as
    the number of saturation rounds bounds the rank of every direct import. -/
theorem mem_visibleList_iff (imports : Imports) (rank : Nat → Nat) (hac : Acyclic imports rank)
    (rounds f : Nat) (hr : rank f ≤ rounds + 1) (g : Nat) :
    g ∈ visibleList imports rounds f ↔ Visible imports f g := by
  unfold visibleList Visible
  simp only [List.mem_cons]
  constructor
  · rintro (h | h)
    · exact Or.inl h
    · obtain ⟨d, hd, hp⟩ := mem_saturate_sound imports rounds _ g h
      obtain ⟨⟨d', b⟩, hm, rfl⟩ := List.mem_map.mp hd
      exact Or.inr ⟨d', b, hm, hp⟩
  · rintro (h | ⟨d, b, hm, hp⟩)
    · exact Or.inl h
    · obtain ⟨k, hk, hn⟩ := pubReachN_of_pubReach imports rank hac hp
      have := hac f d b hm
      exact Or.inr (mem_saturate_complete imports k rounds _ d g (by omega)
        (List.mem_map.mpr ⟨(d, b), hm, rfl⟩) hn)

/-! ### Non-vacuity: a diamond with a private edge -/

/-- 3 imports 1 (plain) and 2 (plain); 1 imports 0 publicly; 2 imports 0 and 4 plainly. -/
def exImports : Imports := fun f =>
  match f with
  | 3 => [(1, false), (2, false)]
  | 1 => [(0, true)]
  | 2 => [(0, false), (4, false)]
  | _ => []

theorem exImports_acyclic : Acyclic exImports (fun f => if f = 4 then 0 else f) := by
  intro f g b h
  unfold exImports at h
  split at h <;> simp at h
  · rcases h with ⟨rfl, _⟩ | ⟨rfl, _⟩ <;> simp
  · obtain ⟨rfl, _⟩ := h; simp
  · rcases h with ⟨rfl, _⟩ | ⟨rfl, _⟩ <;> simp

example : dfsList exImports 4 3 false [] = [3, 1, 0, 2] := by decide
example : visibleList exImports 3 3 = [3, 1, 2, 0, 0, 0] := by decide
/-- file 4 (imported privately by 2) is not visible from 3, file 0 (public through 1) is. -/
example : resolveIn exImports (byPath 4) 4 3 false [] = (.notFound : Res Nat Unit) := by decide
example : resolveIn exImports (byPath 0) 4 3 false [] = (.found 0 : Res Nat Unit) := by decide

end PCV.Props.C18

#print axioms PCV.Props.C18.resolveIn_eq_firstRes
#print axioms PCV.Props.C18.mem_dfsList_iff_visible
#print axioms PCV.Props.C18.resolveInFile_found_iff
#print axioms PCV.Props.C18.resolveInFile_sound
#print axioms PCV.Props.C18.resolveInFile_fuel_irrelevant
#print axioms PCV.Props.C18.findDescriptorByName_iff
#print axioms PCV.Props.C18.findExtensionByNumber_iff
#print axioms PCV.Props.C18.findFileByPath_iff
#print axioms PCV.Props.C18.findMessageByName_iff
#print axioms PCV.Props.C18.mem_visibleList_iff
