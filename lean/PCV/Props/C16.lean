/-
C16 — Shared symbol table: safe concurrent use, same collisions as one compile.
(1) Lock discipline over the access sites REGENERATED from linker/symbols.go on every run.
(2) Sequential semantics of name collisions inside one package node (Props.C16S): the check pass is
    quiet iff the file's names are new and duplicate-free (`check_ok_iff`), commit adds exactly the
    file's names (`commit_names`), a sequence of imports succeeds entirely iff the files are pairwise
    disjoint and disjoint from the node (`allOk_iff`), hence the outcome does not depend on the order
    or split of the imports (`allOk_perm`, `collision_symmetric`). Packages, dependencies and
    extension numbers: Props.C17 and the `symbols` engine oracle (collision reported iff a name /
    extension number is defined by two files, whatever the split into imports).
-/
import PCV.Gen.LockSites
import PCV.Model.Symbols
import PCV.Props.C16S
namespace PCV.Props.C16
open PCV.Gen

/-- every write holds the owning write lock; every read holds the read or the write lock -/
def siteOk (s : LockSite) : Bool := (s.heldW || (s.heldR && !s.write))

/-- **Lock discipline of `linker.Symbols`**: all accesses to `children/files/symbols/exts` hold the
    owning `packageSymbols.mu` (writes: write mode), `extDecls` accesses hold `extDeclsMu`, and every
    call of a `*Locked` helper holds the write lock. Decided over the complete regenerated table. -/
theorem lock_discipline : ∀ s ∈ symbolsSites, siteOk s = true := by decide

/-- the table is not vacuous: it contains reads and writes, inside and outside `*Locked` helpers -/
theorem sites_nonvacuous :
    (symbolsSites.any (·.write) && symbolsSites.any (fun s => !s.write)
      && symbolsSites.any (fun s => s.fn == "Symbols.Lookup")
      && symbolsSites.any (fun s => s.fn == "Symbols.LookupExtension")
      && symbolsSites.any (fun s => s.field == "call:commitFileLocked")
      && decide (symbolsSites.length ≥ 30)) = true := by decide

end PCV.Props.C16

#print axioms PCV.Props.C16.lock_discipline
#print axioms PCV.Props.C16.sites_nonvacuous
#print axioms PCV.Props.C16S.check_ok_iff
#print axioms PCV.Props.C16S.commit_names
#print axioms PCV.Props.C16S.allOk_iff
#print axioms PCV.Props.C16S.allOk_perm
#print axioms PCV.Props.C16S.collision_symmetric
