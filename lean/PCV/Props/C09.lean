/-
C09 — All input forms give the same result; inputs are not mutated.

Model: PCV.Model.Pipeline (`asParseResult`, `finalSrcInfo`, `compileFile` mirror compiler.go
`task.asParseResult / asAST / link / needsSourceInfo`; `toDesc` mirrors parser/result.go; `link`
mirrors linker/resolve.go; the heap section mirrors the defensive copies).

Proved (for every workspace, every per-file assignment of forms, every source-info mode):
* `forms_agree` — the compiled descriptors (everything except source code info) are the same
  whichever consistent form (source, AST, parse result, unlinked proto, or several at once —
  the priority order of `asParseResult` is modelled) the resolver supplies for each file.
* `forms_agree_with_srcinfo` — including source code info, provided every file supplied ONLY
  as a descriptor proto carries the source info of that mode (or the mode is "none", where
  `task.link` strips it).  `srcinfo_of_bare_proto` says what happens otherwise, and
  `agreement_incl_srcinfo_refuted` shows that this side condition cannot be dropped: a
  descriptor proto without source info has no source to compute it from.
* `supplied_unchanged` / `load_sees_original` — on the heap model, for EVERY interleaving of the
  steps of any number of compilations sharing the supplied objects: no supplied object is ever
  written, and every working copy is a copy of the supplied object as it originally was.

Only observed by the `forms` engine (snapshots before/after, also under concurrent reuse):
that the real `parser.Clone` / `proto.Clone` copies share no memory with their originals and
that the real linker writes nowhere else.  Not modelled: the options interpreter's two code
paths (AST vs. aggregate text) — this is where the engine finds the disagreements reported as
known findings.
-/
import PCV.Lemmas.Pipeline
namespace PCV.Props.C09
open PCV.Pipeline

variable {σ : Type}

/-! ### consistent input forms -/

/-- `r` offers representations of source `s` only: every component present is what the
    pipeline itself would derive from `s`, and at least one is present. -/
structure Consistent (parse : σ → SrcFile) (s : σ) (r : SearchResult σ) : Prop where
  source : ∀ x, r.source = some x → parse x = parse s
  ast : ∀ a, r.ast = some a → a = parse s
  proto : ∀ d sci, r.proto = some (d, sci) → d = toDesc (parse s)
  parseResult : ∀ pr, r.parseResult = some pr →
    pr.desc = toDesc (parse s) ∧ pr.hasAST = true ∧ pr.sci = .absent
  nonempty : r.source.isSome ∨ r.ast.isSome ∨ r.proto.isSome ∨ r.parseResult.isSome

def fromSource (s : σ) : SearchResult σ := { source := some s }

theorem fromSource_consistent (parse : σ → SrcFile) (s : σ) : Consistent parse s (fromSource s) := by
  refine ⟨?_, ?_, ?_, ?_, ?_⟩ <;> simp [fromSource]

/-- `asParseResult` on consistent input yields the descriptor of the source. -/
theorem asParseResult_desc {parse : σ → SrcFile} {s : σ} {r : SearchResult σ}
    (h : Consistent parse s r) : ∃ pr, asParseResult parse r = some pr ∧ pr.desc = toDesc (parse s) := by
  unfold asParseResult
  cases hpr : r.parseResult with
  | some pr => exact ⟨pr, rfl, (h.parseResult pr hpr).1⟩
  | none =>
    cases hp : r.proto with
    | some dp =>
      obtain ⟨d, sci⟩ := dp
      exact ⟨_, rfl, h.proto d sci hp⟩
    | none =>
      cases ha : r.ast with
      | some a => exact ⟨_, rfl, by rw [h.ast a ha]⟩
      | none =>
        cases hs : r.source with
        | some x => exact ⟨_, rfl, by simp [h.source x hs]⟩
        | none =>
          have := h.nonempty
          simp [hpr, hp, ha, hs] at this

/-- the form actually used carries an AST unless only a descriptor proto was usable -/
theorem asParseResult_ast {parse : σ → SrcFile} {s : σ} {r : SearchResult σ}
    (h : Consistent parse s r) (hform : r.parseResult.isSome ∨ r.proto = none) :
    ∀ pr, asParseResult parse r = some pr → pr.hasAST = true ∧ pr.sci = .absent := by
  intro pr hpr
  unfold asParseResult at hpr
  cases hp : r.parseResult with
  | some p =>
    simp only [hp, Option.some.injEq] at hpr; subst hpr
    exact (h.parseResult p hp).2
  | none =>
    have hno : r.proto = none := by
      rcases hform with h1 | h1
      · simp [hp] at h1
      · exact h1
    simp only [hp, hno] at hpr
    cases ha : r.ast with
    | some a => simp only [ha, Option.some.injEq] at hpr; subst hpr; exact ⟨rfl, rfl⟩
    | none =>
      cases hs : r.source with
      | some x => simp only [ha, hs, Option.some.injEq] at hpr; subst hpr; exact ⟨rfl, rfl⟩
      | none => simp [ha, hs] at hpr

/-! ### compiling a workspace -/

def collect {α : Type} : List (Option α) → Option (List α)
  | [] => some []
  | none :: _ => none
  | some x :: xs => (collect xs).map (x :: ·)

/-- `Compiler.Compile` for all files of the workspace, each file supplied as `rs[i]` -/
def compileWS (parse : σ → SrcFile) (mode : SIMode) (rs : List (SearchResult σ)) :
    Option (List (Except String (FileD × SrcInfo))) :=
  (collect (rs.map (asParseResult parse))).map (fun prs =>
    prs.map (compileFile (prs.map (·.desc) ++ builtins) mode))

def descOf : Except String (FileD × SrcInfo) → Except String FileD
  | .ok p => .ok p.1
  | .error e => .error e

theorem descOf_compileFile (env : Env) (mode : SIMode) (pr : ParseRes) :
    descOf (compileFile env mode pr) = link env pr.desc := by
  unfold compileFile
  cases link env pr.desc <;> rfl

theorem collect_consistent {parse : σ → SrcFile} :
    ∀ {srcs : List σ} {rs : List (SearchResult σ)}, All₂ (Consistent parse) srcs rs →
      ∃ prs, collect (rs.map (asParseResult parse)) = some prs ∧
        prs.map (·.desc) = srcs.map (fun s => toDesc (parse s)) := by
  intro srcs rs h
  induction h with
  | nil => exact ⟨[], rfl, rfl⟩
  | cons hc _ ih =>
    obtain ⟨prs, h1, h2⟩ := ih
    obtain ⟨pr, h3, h4⟩ := asParseResult_desc hc
    exact ⟨pr :: prs, by simp [collect, h3, h1], by simp [h4, h2]⟩

theorem all₂_fromSource (parse : σ → SrcFile) :
    ∀ srcs : List σ, All₂ (Consistent parse) srcs (srcs.map fromSource)
  | [] => .nil
  | s :: ss => .cons (fromSource_consistent parse s) (all₂_fromSource parse ss)

/-- **C09 (descriptors).** For every workspace, every assignment of consistent input forms
    and every source-info mode, each file's compiled descriptor (or its failure) is the one
    obtained when every file is supplied as source. -/
theorem forms_agree (parse : σ → SrcFile) (mode : SIMode) (srcs : List σ)
    (rs : List (SearchResult σ)) (h : All₂ (Consistent parse) srcs rs) :
    (compileWS parse mode rs).map (·.map descOf) =
    (compileWS parse mode (srcs.map fromSource)).map (·.map descOf) := by
  obtain ⟨prs, h1, h2⟩ := collect_consistent h
  obtain ⟨prs0, h3, h4⟩ := collect_consistent (all₂_fromSource parse srcs)
  unfold compileWS
  rw [h1, h3]
  simp only [Option.map_some, List.map_map]
  have e1 : ∀ (env : Env) (l : List ParseRes),
      l.map (descOf ∘ compileFile env mode) = (l.map (·.desc)).map (link env) := by
    intro env l
    simp [List.map_map, Function.comp_def, descOf_compileFile]
  rw [e1, e1, h2, h4]

/-! ### source code info -/

theorem srcinfo_of_ast_form (mode : SIMode) (pr : ParseRes) (h1 : pr.hasAST = true) (h2 : pr.sci = .absent) :
    finalSrcInfo mode pr = if mode = .none then .absent else .generated mode := by
  unfold finalSrcInfo
  cases mode <;> simp [h1, h2]

/-- a file supplied only as a descriptor proto keeps the source info it carries, or loses it
    when the mode is "none" — it never gets source info generated -/
theorem srcinfo_of_bare_proto (mode : SIMode) (d : FileD) (sci : SrcInfo) :
    finalSrcInfo mode { desc := d, hasAST := false, sci := sci } = if mode = .none then .absent else sci := by
  unfold finalSrcInfo
  cases mode <;> simp

/-- the form used for the file yields the same source info as the source form -/
def SciOK (mode : SIMode) (r : SearchResult σ) : Prop :=
  r.parseResult.isSome ∨ r.proto = none ∨
    ∃ d sci, r.proto = some (d, sci) ∧ (mode = .none ∨ sci = .generated mode)

theorem asParseResult_srcinfo {parse : σ → SrcFile} {s : σ} {r : SearchResult σ} (mode : SIMode)
    (h : Consistent parse s r) (hs : SciOK mode r) :
    ∀ pr, asParseResult parse r = some pr →
      finalSrcInfo mode pr = if mode = .none then .absent else .generated mode := by
  intro pr hpr
  rcases hs with h1 | h1 | ⟨d, sci, h1, h2⟩
  · obtain ⟨ha, hb⟩ := asParseResult_ast h (Or.inl h1) pr hpr
    exact srcinfo_of_ast_form mode pr ha hb
  · obtain ⟨ha, hb⟩ := asParseResult_ast h (Or.inr h1) pr hpr
    exact srcinfo_of_ast_form mode pr ha hb
  · cases hp : r.parseResult with
    | some p =>
      obtain ⟨ha, hb⟩ := asParseResult_ast h (Or.inl (by simp [hp])) pr hpr
      exact srcinfo_of_ast_form mode pr ha hb
    | none =>
      unfold asParseResult at hpr
      simp only [hp, h1, Option.some.injEq] at hpr
      subst hpr
      rw [srcinfo_of_bare_proto]
      rcases h2 with h2 | h2
      · simp [h2]
      · simp [h2]

theorem compileFile_eq_of (env : Env) (mode : SIMode) (a b : ParseRes) (hd : a.desc = b.desc)
    (hs : finalSrcInfo mode a = finalSrcInfo mode b) : compileFile env mode a = compileFile env mode b := by
  unfold compileFile
  rw [hd, hs]

theorem collect_consistent_sci {parse : σ → SrcFile} (mode : SIMode) :
    ∀ {srcs : List σ} {rs : List (SearchResult σ)}, All₂ (Consistent parse) srcs rs →
      (∀ r ∈ rs, SciOK mode r) →
      ∃ prs, collect (rs.map (asParseResult parse)) = some prs ∧
        prs.map (·.desc) = srcs.map (fun s => toDesc (parse s)) ∧
        ∀ pr ∈ prs, finalSrcInfo mode pr = if mode = .none then .absent else .generated mode := by
  intro srcs rs h
  induction h with
  | nil => intro _; exact ⟨[], rfl, rfl, by simp⟩
  | @cons s r ss rs' hc _ ih =>
    intro hall
    obtain ⟨prs, h1, h2, h5⟩ := ih (fun r hr => hall r (List.mem_cons_of_mem _ hr))
    obtain ⟨pr, h3, h4⟩ := asParseResult_desc hc
    have h6 := asParseResult_srcinfo mode hc (hall r (List.mem_cons_self ..)) pr h3
    refine ⟨pr :: prs, by simp [collect, h3, h1], by simp [h4, h2], ?_⟩
    intro p hp
    rcases List.mem_cons.mp hp with rfl | hp
    · exact h6
    · exact h5 p hp

theorem map_compileFile_eq (env : Env) (mode : SIMode) (v : SrcInfo) :
    ∀ (l l' : List ParseRes), l.map (·.desc) = l'.map (·.desc) →
      (∀ p ∈ l, finalSrcInfo mode p = v) → (∀ p ∈ l', finalSrcInfo mode p = v) →
      l.map (compileFile env mode) = l'.map (compileFile env mode)
  | [], [], _, _, _ => rfl
  | [], _ :: _, h, _, _ => by simp at h
  | _ :: _, [], h, _, _ => by simp at h
  | a :: l, b :: l', h, h1, h2 => by
    simp only [List.map_cons, List.cons.injEq] at h
    simp only [List.map_cons, List.cons.injEq]
    refine ⟨compileFile_eq_of env mode a b h.1 ?_, map_compileFile_eq env mode v l l' h.2
      (fun p hp => h1 p (List.mem_cons_of_mem _ hp)) (fun p hp => h2 p (List.mem_cons_of_mem _ hp))⟩
    rw [h1 a (List.mem_cons_self ..), h2 b (List.mem_cons_self ..)]

theorem sciOK_fromSource (mode : SIMode) (s : σ) : SciOK mode (fromSource s) := by
  right; left; rfl

/-- **C09 (including source code info).** Full agreement with the all-source compilation,
    for every assignment in which the files supplied only as descriptor protos carry the
    source info of the mode (or the mode is "none"). -/
theorem forms_agree_with_srcinfo (parse : σ → SrcFile) (mode : SIMode) (srcs : List σ)
    (rs : List (SearchResult σ)) (h : All₂ (Consistent parse) srcs rs) (hs : ∀ r ∈ rs, SciOK mode r) :
    compileWS parse mode rs = compileWS parse mode (srcs.map fromSource) := by
  obtain ⟨prs, h1, h2, h5⟩ := collect_consistent_sci mode h hs
  obtain ⟨prs0, h3, h4, h6⟩ := collect_consistent_sci mode (all₂_fromSource parse srcs)
    (by intro r hr; obtain ⟨s, _, rfl⟩ := List.mem_map.mp hr; exact sciOK_fromSource mode s)
  simp only [compileWS, h1, h3, Option.map_some, Option.some.injEq]
  rw [h2, h4]
  exact map_compileFile_eq _ mode _ prs prs0 (by rw [h2, h4]) h5 h6

/-- the statement WITHOUT the side condition on bare descriptor protos -/
def AgreementInclSrcInfo : Prop :=
  ∀ (mode : SIMode) (srcs : List SrcFile) (rs : List (SearchResult SrcFile)),
    All₂ (Consistent id) srcs rs → compileWS id mode rs = compileWS id mode (srcs.map fromSource)

def emptyFile : SrcFile := { path := "a.proto", syn := .proto3, pkg := [], body := [] }

def sciOf : Except String (FileD × SrcInfo) → Option SrcInfo
  | .ok p => some p.2
  | .error _ => none

/-- It is false: a descriptor proto without source info has none after compilation, while the
    source form gets it generated.  (This is inherent — there is no source text to compute it
    from — and is why the oracle compares such files modulo source code info.) -/
theorem agreement_incl_srcinfo_refuted : ¬ AgreementInclSrcInfo := by
  intro h
  have hc : Consistent id emptyFile { proto := some (toDesc emptyFile, SrcInfo.absent) } := by
    refine ⟨?_, ?_, ?_, ?_, ?_⟩ <;> simp
  have := h .standard [emptyFile] [{ proto := some (toDesc emptyFile, SrcInfo.absent) }] (.cons hc .nil)
  have h2 := congrArg (fun o => o.map (·.map sciOf)) this
  revert h2
  decide +kernel

/-! ### no mutation of supplied objects (heap model) -/

theorem alloc_get (h : Heap) (o : ParseRes) (i : Nat) (hi : i < h.objs.length) :
    (h.alloc o).1.objs[i]? = h.objs[i]? := by
  simp [Heap.alloc, List.getElem?_append_left hi]

theorem alloc_len (h : Heap) (o : ParseRes) : (h.alloc o).1.objs.length = h.objs.length + 1 := by
  simp [Heap.alloc]

theorem write_get (h : Heap) (o : ParseRes) (i id : Nat) (hne : i ≠ id) :
    (h.write id o).objs[i]? = h.objs[i]? := by
  simp [Heap.write, List.getElem?_set_ne (Ne.symm hne)]

theorem write_len (h : Heap) (o : ParseRes) (id : Nat) : (h.write id o).objs.length = h.objs.length := by
  simp [Heap.write]

theorem taskLink_get (env : Env) (mode : SIMode) (pw : ParseRes → ParseRes) (h : Heap) (id i : Nat)
    (hne : i ≠ id) : (taskLink env mode pw h id).objs[i]? = h.objs[i]? := by
  unfold taskLink
  split
  · rfl
  · split <;> exact write_get _ _ _ _ hne

theorem taskLink_len (env : Env) (mode : SIMode) (pw : ParseRes → ParseRes) (h : Heap) (id : Nat) :
    (taskLink env mode pw h id).objs.length = h.objs.length := by
  unfold taskLink
  split
  · rfl
  · split <;> exact write_len _ _ _

theorem load_spec {parse : σ → SrcFile} {h h' : Heap} {sup : Supplied σ} {id : Nat}
    (hl : taskAsParseResult parse h sup = some (h', id)) :
    id = h.objs.length ∧ h'.objs.length = h.objs.length + 1 ∧
    ∀ i, i < h.objs.length → h'.objs[i]? = h.objs[i]? := by
  cases sup with
  | parseResult j =>
    simp only [taskAsParseResult, Option.map_eq_some_iff] at hl
    obtain ⟨o, _, ho⟩ := hl
    have : h' = (h.alloc o).1 ∧ id = h.objs.length := by
      simp only [Heap.alloc, Prod.mk.injEq] at ho; exact ⟨ho.1.symm, ho.2.symm⟩
    rw [this.1]
    exact ⟨this.2, alloc_len h o, fun i hi => alloc_get h o i hi⟩
  | proto j =>
    simp only [taskAsParseResult, Option.map_eq_some_iff] at hl
    obtain ⟨o, _, ho⟩ := hl
    have : h' = (h.alloc { o with hasAST := false }).1 ∧ id = h.objs.length := by
      simp only [Heap.alloc, Prod.mk.injEq] at ho; exact ⟨ho.1.symm, ho.2.symm⟩
    rw [this.1]
    exact ⟨this.2, alloc_len h _, fun i hi => alloc_get h _ i hi⟩
  | ast a =>
    simp only [taskAsParseResult, Option.some.injEq] at hl
    have : h' = (h.alloc { desc := toDesc a, hasAST := true, sci := .absent }).1 ∧ id = h.objs.length := by
      simp only [Heap.alloc, Prod.mk.injEq] at hl; exact ⟨hl.1.symm, hl.2.symm⟩
    rw [this.1]
    exact ⟨this.2, alloc_len h _, fun i hi => alloc_get h _ i hi⟩
  | source s =>
    simp only [taskAsParseResult, Option.some.injEq] at hl
    have : h' = (h.alloc { desc := toDesc (parse s), hasAST := true, sci := .absent }).1 ∧ id = h.objs.length := by
      simp only [Heap.alloc, Prod.mk.injEq] at hl; exact ⟨hl.1.symm, hl.2.symm⟩
    rw [this.1]
    exact ⟨this.2, alloc_len h _, fun i hi => alloc_get h _ i hi⟩

/-- Frame invariant of any schedule: objects below `n0` are never written, provided the working
    copies allocated so far lie at or above `n0`. -/
theorem runSteps_frame (parse : σ → SrcFile) (n0 : Nat) :
    ∀ (steps : List (Step σ)) (h : Heap) (owned : List Nat),
      n0 ≤ h.objs.length → (∀ id ∈ owned, n0 ≤ id) →
      ∀ i, i < n0 → (runSteps parse steps (h, owned)).1.objs[i]? = h.objs[i]? := by
  intro steps
  induction steps with
  | nil => intro h owned _ _ i _; rfl
  | cons st rest ih =>
    intro h owned hlen hown i hi
    cases st with
    | load sup =>
      simp only [runSteps]
      cases hl : taskAsParseResult parse h sup with
      | none => exact ih h owned hlen hown i hi
      | some p =>
        obtain ⟨h', id⟩ := p
        obtain ⟨hid, hl', hget⟩ := load_spec hl
        simp only
        rw [ih h' (owned ++ [id]) (by omega) (by
          intro x hx
          rcases List.mem_append.mp hx with hx | hx
          · exact hown x hx
          · simp only [List.mem_singleton] at hx; omega) i hi]
        exact hget i (by omega)
    | link env mode pw k =>
      simp only [runSteps]
      cases hk : owned[k]? with
      | none => exact ih h owned hlen hown i hi
      | some id =>
        have hidge : n0 ≤ id := hown id (List.mem_of_getElem? hk)
        simp only
        rw [ih (taskLink env mode pw h id) owned (by rw [taskLink_len]; exact hlen) hown i hi]
        exact taskLink_get env mode pw h id i (by omega)

/-- **C09 (no mutation).** Whatever the interleaving of the steps of any number of
    compilations, every object supplied by the resolver is left exactly as it was. -/
theorem supplied_unchanged (parse : σ → SrcFile) (h0 : Heap) (steps : List (Step σ)) :
    ∀ i, i < h0.objs.length → (runSteps parse steps (h0, [])).1.objs[i]? = h0.objs[i]? :=
  runSteps_frame parse h0.objs.length steps h0 [] (Nat.le_refl _) (by simp)

theorem runSteps_append (parse : σ → SrcFile) :
    ∀ (a b : List (Step σ)) (st : Heap × List Nat),
      runSteps parse (a ++ b) st = runSteps parse b (runSteps parse a st) := by
  intro a
  induction a with
  | nil => intro b st; rfl
  | cons s a ih =>
    intro b st
    obtain ⟨h, owned⟩ := st
    cases s with
    | load sup =>
      simp only [List.cons_append, runSteps]
      split <;> exact ih b _
    | link env mode pw k =>
      simp only [List.cons_append, runSteps]
      split <;> exact ih b _

/-- Consequently a working copy taken at ANY point of ANY schedule is a copy of the supplied
    parse result as it originally was: concurrent compilations cannot observe each other
    through the shared inputs. -/
theorem load_sees_original (parse : σ → SrcFile) (h0 : Heap) (pre : List (Step σ)) (i : Nat)
    (hi : i < h0.objs.length) (h' : Heap) (id : Nat)
    (hl : taskAsParseResult parse (runSteps parse pre (h0, [])).1 (.parseResult i) = some (h', id)) :
    h'.objs[id]? = h0.objs[i]? := by
  have hframe := supplied_unchanged parse h0 pre i hi
  simp only [taskAsParseResult, Option.map_eq_some_iff] at hl
  obtain ⟨o, ho, hal⟩ := hl
  simp only [Heap.alloc, Prod.mk.injEq] at hal
  rw [← hal.1, ← hal.2, ← hframe, ho]
  simp

end PCV.Props.C09

#print axioms PCV.Props.C09.forms_agree
#print axioms PCV.Props.C09.forms_agree_with_srcinfo
#print axioms PCV.Props.C09.agreement_incl_srcinfo_refuted
#print axioms PCV.Props.C09.srcinfo_of_bare_proto
#print axioms PCV.Props.C09.supplied_unchanged
#print axioms PCV.Props.C09.load_sees_original
