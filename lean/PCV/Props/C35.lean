/-
C35 — Incremental recompilation equals batch compilation.

The compiler queries File/AST/IR/Link are an INSTANCE of the executor model of C33: their keys
and dependency structure are `PCV.IncrQueries.qBody` (values are opaque content identifiers; the
determinism of the real parser/lowering/linker as functions of the file contents is observed by
the correspondence run, not proved).  Proved here, for every content table, workspace table and
rank of paths along which imports descend:
 * `qBody_ranked`            the query graph is a DAG;
 * `only_F0_reads_env`       only `File{ReportError:false}` depends on the environment (the opener);
 * `edit_then_evict_eq_batch` after changing any set of files and evicting their `File` keys, a
                             run returns what a run on a brand-new executor returns;
 * `queries_history_eq_batch` the same after ANY history of runs and edits+evictions.
The facts "only file.go calls Opener.Open" and "which query types each Execute resolves" are
inspected from the sources of /repo on every check run (op `shape` of engine `incr_queries`);
the real dependency edges are compared with the model's after every step (op `dump`).
-/
import PCV.Props.C33
import PCV.Model.IncrQueries
namespace PCV.Props.C35
open PCV.Incr PCV.IncrQueries PCV.Props.C33

def listMax : List Nat → Nat
  | [] => 0
  | x :: xs => max x (listMax xs)

theorem le_listMax {l : List Nat} {x : Nat} (h : x ∈ l) : x ≤ listMax l := by
  induction l with
  | nil => cases h
  | cons y ys ih =>
    simp only [listMax]
    rcases List.mem_cons.1 h with h1 | h1
    · subst h1; exact Nat.le_max_left _ _
    · exact Nat.le_trans (ih h1) (Nat.le_max_right _ _)

/-- rank of a query key, from a rank `rp` of paths -/
def rankQ (rp : Nat → Nat) (wss : Nat → List Nat) (k : Key) : Nat :=
  if k % 8 < 4 then 4 * rp (k / 8) + k % 8 + 1
  else if k % 8 = 4 then 4 * (listMax ((wss (k / 8)).map rp) + 1) + 1
  else 0

/-- imports descend along `rp`, and descriptor.proto (path 0) is below every other path -/
structure PathRank (table : Nat → Content) (rp : Nat → Nat) : Prop where
  imports : ∀ id q, q ∈ (table id).imports → rp q < rp (table id).path
  desc : ∀ p, p ≠ 0 → rp 0 < rp p

theorem rankQ_qk (rp : Nat → Nat) (wss : Nat → List Nat) (kind p : Nat) (h : kind < 4) :
    rankQ rp wss (qk kind p) = 4 * rp p + kind + 1 := by
  unfold rankQ qk
  have h1 : (8 * p + kind) % 8 = kind := by omega
  have h2 : (8 * p + kind) / 8 = p := by omega
  simp [h1, h2, h]

theorem rankQ_qZ (rp : Nat → Nat) (wss : Nat → List Nat) : rankQ rp wss qZ = 0 := by
  unfold rankQ qZ; simp

theorem importLoop_below {rp : Nat → Nat} {wss : Nat → List Nat} {n bound : Nat}
    (hn : 4 * bound + 1 < n ∧ 4 * bound ≤ n) :
    ∀ (imps : List Nat) (acc : List Key) (k : List Key → Script),
    (∀ q ∈ imps, rp q < bound) → (∀ x ∈ acc, rankQ rp wss x < n) →
    (∀ qs, (∀ x ∈ qs, rankQ rp wss x < n) → ScriptBelow (rankQ rp wss) n (k qs)) →
    ScriptBelow (rankQ rp wss) n (importLoop imps acc k) := by
  intro imps
  induction imps with
  | nil => intro acc k _ hacc hk; exact hk acc hacc
  | cons q rest ih =>
    intro acc k himps hacc hk
    simp only [importLoop]
    have hq : rp q < bound := himps q List.mem_cons_self
    refine .resolve _ _ ?_ ?_
    · intro x hx
      simp only [List.mem_singleton] at hx
      subst hx
      rw [rankQ_qk _ _ 0 q (by omega)]; omega
    · intro rs
      split
      · refine ih _ k (fun x hx => himps x (List.mem_cons_of_mem _ hx)) ?_ hk
        intro x hx
        rcases List.mem_append.1 hx with h1 | h1
        · exact hacc x h1
        · simp only [List.mem_singleton] at h1
          subst h1
          rw [rankQ_qk _ _ 3 q (by omega)]; omega
      · refine ih _ k (fun x hx => himps x (List.mem_cons_of_mem _ hx)) ?_ hk
        intro x hx
        rcases List.mem_append.1 hx with h1 | h1
        · exact hacc x h1
        · simp only [List.mem_singleton] at h1
          subst h1
          rw [rankQ_qZ]; omega

/-- **The query graph is a DAG** (for the bodies without the ignored self-dependency of
    IR{descriptor.proto}). -/
theorem qBody_ranked {table : Nat → Content} {rp : Nat → Nat} (hpr : PathRank table rp)
    (wss : Nat → List Nat) (env : Nat → Option Nat) :
    Ranked (rankQ rp wss) (qBody false table wss env) := by
  intro k
  unfold qBody
  simp only
  split
  · -- F0
    split
    · exact .ret _
    · split <;> exact .ret _
  · -- F1
    rename_i h1
    refine .resolve _ _ ?_ (fun _ => .ret _)
    intro x hx
    simp only [List.mem_singleton] at hx
    subst hx
    rw [rankQ_qk _ _ 0 _ (by omega)]
    unfold rankQ; simp [h1]
  · -- AST
    rename_i h1
    refine .resolve _ _ ?_ (fun _ => .ret _)
    intro x hx
    simp only [List.mem_singleton] at hx
    subst hx
    rw [rankQ_qk _ _ 1 _ (by omega)]
    unfold rankQ; simp [h1]
  · -- IR
    rename_i h1
    have hr : rankQ rp wss k = 4 * rp (k / 8) + 4 := by unfold rankQ; simp [h1]
    rw [hr]
    refine .resolve _ _ ?_ ?_
    · intro x hx
      simp only [List.mem_singleton] at hx
      subst hx
      rw [rankQ_qk _ _ 2 _ (by omega)]; omega
    · intro rs
      split
      · rename_i id _
        refine .resolve _ _ ?_ ?_
        · intro x hx
          simp only [List.mem_singleton] at hx
          subst hx
          rw [rankQ_qk _ _ 0 0 (by omega)]
          by_cases hp : k / 8 = 0
          · rw [hp]; omega
          · have := hpr.desc _ hp; omega
        · intro rs2
          split
          · exact .ret _
          · split
            · simp only [Bool.false_eq_true, if_false]; exact .ret _
            · rename_i hp
              split
              · exact .ret _
              · rename_i hid
                have hid' : ¬ id < 0 ∧ (table id.toNat).path = k / 8 := by
                  constructor
                  · intro h; exact hid (Or.inl h)
                  · apply Classical.byContradiction; intro h; exact hid (Or.inr h)
                refine importLoop_below (bound := rp (k / 8)) ⟨by omega, by omega⟩ _ [] _ ?_ (by simp) ?_
                · intro q hq
                  have := hpr.imports _ q hq
                  rw [hid'.2] at this; exact this
                · intro qs hqs
                  refine .resolve _ _ ?_ (fun _ => .ret _)
                  intro x hx
                  rcases List.mem_append.1 hx with h2 | h2
                  · exact hqs x h2
                  · simp only [List.mem_singleton] at h2
                    subst h2
                    rw [rankQ_qk _ _ 3 0 (by omega)]
                    have := hpr.desc _ hp; omega
      · exact .ret _
  · -- Link
    rename_i h1
    have hr : rankQ rp wss k = 4 * (listMax ((wss (k / 8)).map rp) + 1) + 1 := by unfold rankQ; simp [h1]
    rw [hr]
    refine .resolve _ _ ?_ ?_
    · intro x hx
      obtain ⟨p, hp, rfl⟩ := List.mem_map.1 hx
      rw [rankQ_qk _ _ 3 p (by omega)]
      have := le_listMax (List.mem_map_of_mem (f := rp) hp)
      omega
    · intro rs; split <;> exact .ret _
  · exact .ret _

/-- **Only `File{ReportError:false}` reads the environment**: the body of every other query is
    the same for all environments. -/
theorem only_F0_reads_env (se : Bool) (table : Nat → Content) (wss : Nat → List Nat)
    (env env' : Nat → Option Nat) (k : Key) (h : k % 8 = 0 → env' (k / 8) = env (k / 8)) :
    qBody se table wss env' k = qBody se table wss env k := by
  unfold qBody
  simp only
  split
  · rename_i h0
    rw [h h0]
  all_goals rfl

theorem changed_bodies {se : Bool} {table : Nat → Content} {wss : Nat → List Nat}
    {env env' : Nat → Option Nat} {changed : List Nat} (hch : ∀ p, p ∉ changed → env' p = env p) :
    ∀ k, k ∉ changed.map (qk 0) → qBody se table wss env' k = qBody se table wss env k := by
  intro k hk
  apply only_F0_reads_env
  intro h0
  apply hch
  intro hin
  apply hk
  refine List.mem_map.2 ⟨k / 8, hin, ?_⟩
  have := Nat.div_add_mod k 8
  rw [h0] at this
  exact this

/-- **Edit then evict = batch.** In any state satisfying the executor invariant for the old
    files, after the files in `changed` were edited, added or deleted (`env'`) and their `File`
    queries evicted, every run returns exactly what a run on a brand-new executor returns for
    the new files. -/
theorem edit_then_evict_eq_batch {table : Nat → Content} {rp : Nat → Nat} (hpr : PathRank table rp)
    {wss : Nat → List Nat} {env env' : Nat → Option Nat} {changed : List Nat}
    (hch : ∀ p, p ∉ changed → env' p = env p)
    {fuel f1 f2 : Nat} {st st' s1 s2 : St} {roots : List Key} {out1 out2 : List (Res × Bool)}
    (hinv : Inv (qBody false table wss env) st)
    (hev : evict fuel st (changed.map (qk 0)) = some st')
    (h1 : run (qBody false table wss env') f1 st' roots = some (s1, out1))
    (h2 : run (qBody false table wss env') f2 {} roots = some (s2, out2)) :
    out1.map (·.1) = out2.map (·.1) :=
  run_eq_fresh (valid_after_change hinv (changed_bodies hch) hev) (qBody_ranked hpr wss env') h1 h2

/-- executor states reachable by compilations and by edits followed by the eviction of the
    edited files' `File` keys -/
inductive QReachable (table : Nat → Content) (wss : Nat → List Nat) : (Nat → Option Nat) → St → Prop
  | init (env : Nat → Option Nat) : QReachable table wss env {}
  | run {env : Nat → Option Nat} {st st' : St} {fuel : Nat} {roots : List Key} {out : List (Res × Bool)} :
      QReachable table wss env st → run (qBody false table wss env) fuel st roots = some (st', out) →
      QReachable table wss env st'
  | edit {env : Nat → Option Nat} {st st' : St} {fuel : Nat} (env' : Nat → Option Nat) (changed : List Nat) :
      QReachable table wss env st → (∀ p, p ∉ changed → env' p = env p) →
      evict fuel st (changed.map (qk 0)) = some st' → QReachable table wss env' st'

theorem qreachable_inv {table : Nat → Content} {wss : Nat → List Nat} {env : Nat → Option Nat} {st : St}
    (h : QReachable table wss env st) : Inv (qBody false table wss env) st := by
  induction h with
  | init env => exact Inv.empty _
  | run _ hr ih => exact valid_preserved_run ih hr
  | edit env' changed _ hch hev ih => exact valid_after_change ih (changed_bodies hch) hev

/-- **C35.** After any sequence of compilations, file edits, additions and deletions, each edit
    followed by evicting the changed files' queries, recompiling with the long-lived executor
    gives the same results as a brand-new executor on the final files. -/
theorem queries_history_eq_batch {table : Nat → Content} {rp : Nat → Nat} (hpr : PathRank table rp)
    {wss : Nat → List Nat} {env : Nat → Option Nat} {st : St} (hreach : QReachable table wss env st)
    {f1 f2 : Nat} {s1 s2 : St} {roots : List Key} {out1 out2 : List (Res × Bool)}
    (h1 : run (qBody false table wss env) f1 st roots = some (s1, out1))
    (h2 : run (qBody false table wss env) f2 {} roots = some (s2, out2)) :
    out1.map (·.1) = out2.map (·.1) :=
  run_eq_fresh (qreachable_inv hreach) (qBody_ranked hpr wss env) h1 h2

/-! ### Non-vacuity: f2 imports f1; edit f1, evict it, recompile the workspace {f1, f2} -/

def exTable : Nat → Content
  | 0 => { path := 1, imports := [] }
  | 1 => { path := 2, imports := [1] }
  | 2 => { path := 1, imports := [] }      -- second version of f1
  | _ => { path := 0, imports := [] }

def exWss : Nat → List Nat := fun _ => [1, 2]
def exEnv : Nat → Option Nat | 1 => some 0 | 2 => some 1 | _ => none
def exEnv' : Nat → Option Nat | 1 => some 2 | 2 => some 1 | _ => none

theorem exRank : PathRank exTable (fun p => p) :=
  { imports := fun id q hq => by
      match id with
      | 0 => simp [exTable] at hq
      | 1 => simp [exTable] at hq; subst hq; simp [exTable]
      | 2 => simp [exTable] at hq
      | n + 3 => simp [exTable] at hq,
    desc := fun p hp => Nat.pos_of_ne_zero hp }

/-- the first compilation executes 13 queries; after the edit of f1 and the eviction of its
    `File` key exactly File/AST/IR of f1, IR of f2 and Link are recomputed (6 executions), AST
    of f2 and everything of descriptor.proto are reused -/
example :
    ((run (qBody false exTable exWss exEnv) 20 {} [qL 0]).bind (fun p =>
      (evict 4096 p.1 [qk 0 1]).bind (fun st =>
        (run (qBody false exTable exWss exEnv') 20 st [qL 0]).map (fun q =>
          (p.1.log.length, q.1.log.drop p.1.log.length, q.2)))))
      = some (13, [qk 0 1, qk 1 1, qk 2 1, qk 3 1, qk 3 2, qL 0], [(.ok 0, true)]) := by
  decide +kernel

#print axioms qBody_ranked
#print axioms only_F0_reads_env
#print axioms edit_then_evict_eq_batch
#print axioms qreachable_inv
#print axioms queries_history_eq_batch
end PCV.Props.C35
