/-
C06 — Compilation always terminates and reports exactly the import cycles.
What is proved here (over all runs of the executor LTS): cycle errors are sound; failures of
requested files are always justified by a bad file or a cycle; a successful file reaches no bad
file. What is NOT proved (stated, left open): that every maximal run reaches a final state
(deadlock freedom, T2/T3 of DESIGN.md) — on the implementation that clause is decided per run by
the watchdog of the `exec` engine and the final-state check of the trace validator.
-/
import PCV.Props.C05
namespace PCV.Props.C06
open PCV.Exec PCV.Props.C07 PCV.Props.C05

/-- An acyclic import graph never fails because of a cycle: the `cycle` transition is never
    enabled. -/
theorem acyclic_never_cycle_error (w : World) (hacyc : ∀ g, w.reachesCycle g = false)
    (s : St) (f d : File) : step w s (.cycle f d) = none := by
  cases h : step w s (.cycle f d) with
  | none => rfl
  | some s' => have := cycle_error_sound w s s' f d h; rw [hacyc f] at this; cases this

/-- A self-import is reported as a cycle only where there is one. -/
theorem selfimport_sound (w : World) (s s' : St) (f : File) (h : step w s (.selfimport f) = some s') :
    w.reachesCycle f = true := by
  simp only [step] at h
  repeat' split at h
  all_goals (try (simp at h))
  all_goals (try (obtain ⟨h1, h2⟩ := h))
  rename_i hc
  simp only [Bool.and_eq_true, beq_iff_eq] at hc
  exact reachesCycle_self w f (mem_of_get? _ _ _ hc.1)

/-- Exactness, failure direction: without cancellation, a requested file whose result is ready and
    failed in an acyclic world failed because of a bad file it reaches — never because of a cycle. -/
theorem acyclic_failure_is_bad_file (w : World) (hc : w.cancelable = false)
    (hacyc : ∀ g, w.reachesCycle g = false) (s : St) (hr : Reachable w s) (r : File)
    (hreq : r ∈ w.req) (t : Task) (ht : s.task r = some t) (hpc : t.pc = .finished false) :
    ∃ g, Reach w r g ∧ w.bad g = true := by
  obtain ⟨g, hg, hb⟩ := failure_justified w hc s hr r hreq t ht hpc
  rcases hb with hb | hcyc
  · exact ⟨g, hg, hb⟩
  · rw [hacyc g] at hcyc; cases hcyc

/-- Full termination statement (open): from every reachable state in which some requested result
    is not ready, some transition is enabled. Not proved; see the header. -/
def no_stuck_state (w : World) : Prop :=
  ∀ s, Reachable w s → (∃ r ∈ w.req, isFinished s r = false) → ∃ e s', step w s e = some s'

end PCV.Props.C06

#print axioms PCV.Props.C06.acyclic_never_cycle_error
#print axioms PCV.Props.C06.selfimport_sound
#print axioms PCV.Props.C06.acyclic_failure_is_bad_file
