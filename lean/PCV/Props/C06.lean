/-
C06 — Compilation always terminates and reports exactly the import cycles.
What is proved here (over all runs of the executor LTS): cycle errors are sound; failures of
requested files are always justified by a bad file or a cycle; a successful file reaches no bad
file and no cycle; and deadlock freedom on EVERY import graph, cyclic or not (Props.C06D): no
reachable state is stuck while a result is missing — the argument why `checkForDependencyCycle`
prevents deadlock (of the files on a cycle the one that publishes `blockedOn` last finds it).
Termination (Props.C06B): every run has at most `bound w` transitions (each task only moves
forward through boundedly many stages, and only requested files and imports are ever started), and
a run that cannot be extended has finished every requested file. Whether the Go scheduler actually
keeps scheduling enabled goroutines is outside the model; on the implementation that is what the
watchdog of the `exec` engine and the final-state check of the trace validator observe per run.
-/
import PCV.Props.C05
import PCV.Props.C06T
import PCV.Props.C06D
import PCV.Props.C06B
namespace PCV.Props.C06
open PCV.Exec PCV.Props.C07 PCV.Props.C05

/-- An acyclic import graph never fails because of a cycle: the `cycle` transition is never
    enabled. -/
theorem acyclic_never_cycle_error (w : World) (hacyc : ∀ g, w.reachesCycle g = false)
    (s : St) (f d : File) : step w s (.cycle f d) = none := by
  cases h : step w s (.cycle f d) with
  | none => rfl
  | some s' => have := cycle_error_sound w s s' f d h; rw [hacyc f] at this; cases this

/-- A self-import is reported as a cycle only where there is one. -/
theorem selfimport_sound (w : World) (s s' : St) (f : File) (h : step w s (.selfimport f) = some s') :
    w.reachesCycle f = true := by
  simp only [step] at h
  repeat' split at h
  all_goals (try (simp at h))
  all_goals (try (obtain ⟨h1, h2⟩ := h))
  rename_i hc
  simp only [Bool.and_eq_true, beq_iff_eq] at hc
  exact reachesCycle_self w f (mem_of_get? _ _ _ hc.1.1)

/-- Exactness, failure direction: without cancellation, a requested file whose result is ready and
    failed in an acyclic world failed because of a bad file it reaches — never because of a cycle. -/
theorem acyclic_failure_is_bad_file (w : World) (hc : w.cancelable = false)
    (hacyc : ∀ g, w.reachesCycle g = false) (s : St) (hr : Reachable w s) (r : File)
    (hreq : r ∈ w.req) (t : Task) (ht : s.task r = some t) (hpc : t.pc = .finished false) :
    ∃ g, Reach w r g ∧ w.bad g = true := by
  obtain ⟨g, hg, hb⟩ := failure_justified w hc s hr r hreq t ht hpc
  rcases hb with hb | hcyc
  · exact ⟨g, hg, hb⟩
  · rw [hacyc g] at hcyc; cases hcyc

/-! ### A file on an import cycle never compiles successfully -/

/-- the successor of `f` on a cycle through `f` is itself on a cycle -/
theorem onCycle_succ (w : World) (f d : File) (hd : d ∈ w.imports f) (hr : Reach w d f) : TReach w d d := by
  cases hr with
  | refl _ => exact ⟨_, hd, Reach.refl _⟩
  | step hd' hr' => exact ⟨_, hd', reach_snoc w hr' hd⟩

/-- Z: no successfully finished file lies on an import cycle -/
def Z (w : World) (s : St) : Prop := ∀ f, finOk s f → ¬ TReach w f f

theorem Z_step (w : World) (s s' : St) (e : Ev) (hK : K w s) (hZ : Z w s) (h : step w s e = some s') :
    Z w s' := by
  obtain ⟨f, hf⟩ : ∃ f, f = e.file := ⟨_, rfl⟩
  unfold Z at *
  cases e <;> simp only [Ev.file] at hf <;> subst hf <;> simp only [step] at h
  all_goals (repeat' split at h)
  all_goals (try (simp at h))
  all_goals (try (obtain ⟨h1, h2⟩ := h))
  all_goals (try subst s')
  all_goals (try (exact hZ))
  all_goals (intro g hg; by_cases hgf : g = f)
  all_goals (try (
    obtain ⟨tg, htg, hpcg⟩ := hg
    rw [set_task_other _ _ _ _ hgf] at htg
    exact hZ g ⟨tg, htg, hpcg⟩))
  all_goals (
    subst hgf
    obtain ⟨tg, htg, hpcg⟩ := hg
    rw [set_task_same] at htg
    cases htg)
  all_goals (try (simp at hpcg; done))
  · -- release of a finished task: it was already finished successfully
    exact hZ g ⟨_, by assumption, by simpa using hpcg⟩
  · -- complete(g): all imports of g are already finished successfully, none of them is on a cycle
    rename_i hc
    simp only [Bool.and_eq_true, Bool.or_eq_true, beq_iff_eq] at hc
    intro ⟨d, hd, hr⟩
    have hk := hK g _ (by assumption)
    rcases hc.1.1 with ⟨_, hemp⟩ | hpc
    · have : w.imports g = [] := by simpa using hemp
      rw [this] at hd; cases hd
    · simp only [Kat, hpc] at hk
      exact hZ d (hk.2 d hd) (onCycle_succ w g d hd hr)

theorem Z_reachable (w : World) (s : St) (h : Reachable w s) : Z w s := by
  induction h with
  | init => intro f ⟨t, ht, _⟩; simp [init, St.task] at ht
  | step hr hs ih => exact Z_step w _ _ _ (K_reachable w _ hr) ih hs

/-- **C06 (cycles are never silently accepted).** On every run, a file whose result is ready and
    successful reaches no import cycle: neither it nor anything it transitively imports lies on a
    cycle. Hence whenever the requested files reach a cycle and the call returns, it returns an error. -/
theorem success_reaches_no_cycle (w : World) (s : St) (hr : Reachable w s) (f g : File)
    (hf : finOk s f) (hfg : Reach w f g) : ¬ TReach w g g :=
  Z_reachable w s hr g (success_sound w s hr f g hfg hf).1

/-- Full termination statement: from every reachable state in which some requested result is not
    ready, some transition is enabled. -/
def no_stuck_state (w : World) : Prop :=
  ∀ s, Reachable w s → (∃ r ∈ w.req, isFinished s r = false) → ∃ e s', step w s e = some s'

/-- **C06 (no deadlock).** `no_stuck_state` holds for EVERY import graph — with or without cycles —,
    every fault plan, every cancellation behaviour and every parallelism ≥ 1. -/
theorem no_stuck_state_all (w : World) (hpar : w.par ≥ 1) : no_stuck_state w := by
  intro s hr ⟨r, hreq, hnf⟩
  exact PCV.Props.C06D.no_stuck_state w hpar s hr r (Or.inl hreq) hnf

/-- **C06 (every run is finite)**, restated: at most `bound w` transitions, whatever the schedule. -/
theorem every_run_finite (w : World) (evs : List Ev) (s : St) (h : run w (init w) evs = some s) :
    evs.length ≤ PCV.Props.C06B.bound w :=
  PCV.Props.C06B.run_length_bounded w evs s h

/-- **C06 (termination)**, restated: a run that cannot be extended has finished every requested file. -/
theorem terminates (w : World) (hpar : w.par ≥ 1) (evs : List Ev) (s : St)
    (h : run w (init w) evs = some s) (hmax : ∀ e, step w s e = none) :
    ∀ r ∈ w.req, isFinished s r = true :=
  PCV.Props.C06B.maximal_run_finished w hpar evs s h hmax

/-- special case kept for reference: acyclic import graphs (rank function) -/
theorem no_stuck_state_acyclic (w : World) (hpar : w.par ≥ 1) (rank : File → Nat)
    (_hrank : ∀ f d, d ∈ w.imports f → rank d < rank f) : no_stuck_state w :=
  no_stuck_state_all w hpar

/-- the two-file cycle a ⇄ b with both files requested -/
def cycW : World := { files := [("a", ["b"]), ("b", ["a"])], faults := [], par := 2, req := ["a", "b"] }

/-- non-vacuity of the cyclic case: a run of the two-file cycle in which both files publish their
    `blockedOn` lists; `b`, the later one, finds the chain b → a → b when it has compiled `a`: its flag
    is raised, it can neither go on nor release its permit, and the `cycle` event is enabled -/
example :
    ∃ s, run cycW (init cycW)
        [.spawn "a", .spawn "b", .acquire "a", .acquire "b", .resolved "a" true, .resolved "b" true,
         .blocked "a" ["b"], .dep "a" "b", .blocked "b" ["a"], .dep "b" "a"] = some s ∧
      (s.task "b").map (·.flag) = some true ∧
      step cycW s (.release "b") = none ∧ (step cycW s (.cycle "b" "a")).isSome = true ∧
      (s.task "a").map (·.flag) = some false := by
  refine ⟨_, rfl, ?_, ?_, ?_, ?_⟩ <;> decide

-- non-vacuity: the diamond a→{b,c}→d has a rank function
example : ∃ rank : File → Nat, ∀ f d,
    d ∈ ({ files := [("a", ["b", "c"]), ("b", ["d"]), ("c", ["d"]), ("d", [])], faults := [], par := 2 } : World).imports f →
      rank d < rank f := by
  refine ⟨fun f => if f = "a" then 3 else if f = "b" then 2 else if f = "c" then 2 else if f = "d" then 1 else 0, ?_⟩
  intro f d hd
  simp only [World.imports] at hd
  by_cases ha : f = "a"
  · subst ha; simp at hd; rcases hd with rfl | rfl <;> decide
  by_cases hb : f = "b"
  · subst hb; simp at hd; subst hd; decide
  by_cases hc : f = "c"
  · subst hc; simp at hd; subst hd; decide
  by_cases hdd : f = "d"
  · subst hdd; simp at hd
  · have h1 : ("a" == f) = false := by simpa using Ne.symm ha
    have h2 : ("b" == f) = false := by simpa using Ne.symm hb
    have h3 : ("c" == f) = false := by simpa using Ne.symm hc
    have h4 : ("d" == f) = false := by simpa using Ne.symm hdd
    simp [List.find?, h1, h2, h3, h4] at hd

end PCV.Props.C06

#print axioms PCV.Props.C06.success_reaches_no_cycle
#print axioms PCV.Props.C06.no_stuck_state_all
#print axioms PCV.Props.C06.every_run_finite
#print axioms PCV.Props.C06.terminates
#print axioms PCV.Props.C06.no_stuck_state_acyclic
#print axioms PCV.Props.C06.acyclic_never_cycle_error
#print axioms PCV.Props.C06.selfimport_sound
#print axioms PCV.Props.C06.acyclic_failure_is_bad_file
