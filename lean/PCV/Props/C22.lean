/-
C22 — Stripping source-retention options is exact.

Statement (full strength): stripping removes exactly the option fields declared with source
retention, *at any nesting depth*, leaves every other field unchanged, never modifies its
input, is idempotent, and removes exactly the source-code-info locations that point into the
removed options.

Result for the model of `options/source_retention_options.go`:
* `C22_full` (strip = `idealFile`, the any-depth reference) is **refuted** (`C22_full_refuted`):
  the Go code only inspects the fields of the options message itself, a source-retention field
  nested inside a retained option value survives, and so does its location.
* What does hold, for all descriptor trees and all location lists:
  `strip_eq_top` (strip = the depth-0 reference `topFile`: exactly the top-level
  source-retention fields of every element's options go, everything else stays, the locations
  dropped are exactly those under a removed field / removed options message),
  `strip_exact_toplevel_partial` (strip = `idealFile` whenever all source-retention fields are
  top-level), `strip_exact_iff_nestedClean` (that hypothesis is also necessary: the code meets
  the reference exactly on the files without a nested source-retention field),
  `strip_idempotent`, `strip_unchanged_as_is`, `trie_isRemoved_spec`, `locations_removed_iff`,
  and `ideal_allDeepClean` (the reference really leaves no source-retention field at any depth).
"Never modifies its input" is vacuous for a functional model; it is checked on the real code
by the correspondence run (`in=1`).
-/
import PCV.Model.Retention
namespace PCV.Props.C22
open PCV.Retention

/-! ## The source path trie -/

theorem getKid_setKid (cs : List (Nat × Trie)) (x y : Nat) (v : Trie) :
    getKid (setKid cs x v) y = if x = y then some v else getKid cs y := by
  induction cs with
  | nil =>
    by_cases h : x = y <;> simp [setKid, getKid, h]
  | cons kc rest ih =>
    obtain ⟨k, c⟩ := kc
    by_cases hk : k = x
    · subst hk
      by_cases h : k = y <;> simp [setKid, getKid, h]
    · by_cases h : x = y
      · subst h
        simp [setKid, getKid, hk, ih]
      · by_cases hky : k = y
        · subst hky
          simp [setKid, getKid, hk, h]
        · simp [setKid, getKid, hk, hky, ih, h]

theorem isRemoved_empty (p : Path) : isRemoved Trie.empty p = false := by
  cases p <;> simp [Trie.empty, isRemoved, getKid]

theorem isRemoved_addPath (q : Path) : ∀ (t : Trie) (p : Path),
    isRemoved (addPath q t) p = (isRemoved t p || q.isPrefixOf p) := by
  induction q with
  | nil =>
    intro t p
    obtain ⟨r, cs⟩ := t
    simp [addPath, isRemoved]
  | cons x q ih =>
    intro t p
    obtain ⟨r, cs⟩ := t
    cases r with
    | true => simp [addPath, isRemoved]
    | false =>
      cases p with
      | nil => simp [addPath, isRemoved]
      | cons y p =>
        simp only [addPath, isRemoved, getKid_setKid]
        by_cases h : x = y
        · subst h
          simp only [if_true, ih, List.isPrefixOf, beq_self_eq_true, Bool.true_and]
          cases hg : getKid cs x with
          | none => simp [isRemoved_empty]
          | some c => simp
        · have h' : (x == y) = false := by simpa using h
          simp only [if_neg h, List.isPrefixOf, h', Bool.false_and, Bool.or_false]

theorem isRemoved_foldl (ps : List Path) : ∀ (t : Trie) (p : Path),
    isRemoved (ps.foldl (fun t q => addPath q t) t) p
      = (isRemoved t p || ps.any (fun q => q.isPrefixOf p)) := by
  induction ps with
  | nil => intro t p; simp
  | cons q ps ih =>
    intro t p
    simp only [List.foldl_cons, ih, isRemoved_addPath, List.any_cons, Bool.or_assoc]

/-- **Trie specification.** After `addPath` of every path in `ps` (in any order, with
    repetitions), `isRemoved p` holds iff some inserted path is a prefix of `p`. -/
theorem trie_isRemoved_spec (ps : List Path) (p : Path) :
    isRemoved (buildTrie ps) p = ps.any (fun q => q.isPrefixOf p) := by
  simp [buildTrie, isRemoved_foldl, isRemoved_empty]

theorem stripLocs_buildTrie (ps locs : List Path) :
    stripLocs locs (buildTrie ps) = keepLocs ps locs := by
  simp [stripLocs, keepLocs, trie_isRemoved_spec]

/-! ## One options message -/

theorem keep_length_zero (fs : List OTree) :
    ((fs.filter (fun f => !f.isSrc)).length == 0) = fs.all OTree.isSrc := by
  induction fs with
  | nil => simp
  | cons t ts ih =>
    cases h : t.isSrc <;> simp [h] at ih ⊢
    exact ih

theorem filter_notSrc_of_noSrc (fs : List OTree) (h : fs.any OTree.isSrc = false) :
    fs.filter (fun f => !f.isSrc) = fs := by
  rw [List.filter_eq_self]
  intro a ha
  have := (List.any_eq_false.mp h) a ha
  simpa using this

theorem filter_src_of_noSrc (fs : List OTree) (h : fs.any OTree.isSrc = false) :
    fs.filter OTree.isSrc = [] := by
  rw [List.filter_eq_nil_iff]
  intro a ha
  have := (List.any_eq_false.mp h) a ha
  simpa using this

/-- `stripSourceRetentionOptions` computes exactly: the depth-0 filtered message, whether a
    source-retention field was present, and the depth-0 removed paths. -/
theorem stripOpts_eq (opts : Option (List OTree)) (path : Path) :
    stripOpts opts path = (topOpts opts, hasSrc opts, topRemovedOpts path opts) := by
  cases opts with
  | none => rfl
  | some fs =>
    simp only [stripOpts, topOpts, hasSrc, topRemovedOpts, wholeRemoved, keep_length_zero]
    rcases Bool.eq_false_or_eq_true (fs.any OTree.isSrc) with h1 | h1
    · rcases Bool.eq_false_or_eq_true (fs.all OTree.isSrc) with h2 | h2 <;> simp [h1, h2]
    · simp [h1, filter_notSrc_of_noSrc fs h1, filter_src_of_noSrc fs h1]

theorem topOpts_of_noSrc (opts : Option (List OTree)) (h : hasSrc opts = false) :
    topOpts opts = opts := by
  cases opts with
  | none => rfl
  | some fs =>
    simp only [hasSrc] at h
    simp [topOpts, wholeRemoved, h, filter_notSrc_of_noSrc fs h]

theorem topRemovedOpts_of_noSrc (p : Path) (opts : Option (List OTree)) (h : hasSrc opts = false) :
    topRemovedOpts p opts = [] := by
  cases opts with
  | none => rfl
  | some fs =>
    simp only [hasSrc] at h
    simp [topRemovedOpts, wholeRemoved, h, filter_src_of_noSrc fs h]

theorem hasSrc_topOpts (opts : Option (List OTree)) : hasSrc (topOpts opts) = false := by
  cases opts with
  | none => rfl
  | some fs =>
    simp only [topOpts]
    split
    · rfl
    · simp [hasSrc, List.any_filter]

/-! ## Elements: dirty flags -/

mutual
/-- The `changed`/`dirty` result of every strip function says exactly whether some walked
    element has a source-retention field at the top level of its options. -/
theorem stripElem_changed (p : Path) : ∀ e : Elem, (stripElem p e).2.1 = hasTopSrc e
  | .mk k tag idx opts kids => by
    have hk := stripKids_changed k p kids
    simp only [stripElem, stripOpts_eq, hasTopSrc]
    rw [← hk]
    split <;> simp_all
theorem stripKids_changed (k : Kind) (p : Path) :
    ∀ es : List Elem, (stripKids k p es).2.1 = hasTopSrcKids k es
  | [] => rfl
  | e :: es => by
    have h1 := stripElem_changed (p ++ [e.tag, e.idx]) e
    have h2 := stripKids_changed k p es
    simp only [stripKids, hasTopSrcKids]
    cases hv : visits k e <;> simp [h1, h2]
end

mutual
/-- "If there is nothing to strip the value is returned as is" and no path is recorded. -/
theorem stripElem_noSrc (p : Path) :
    ∀ e : Elem, hasTopSrc e = false → stripElem p e = (e, false, [])
  | .mk k tag idx opts kids => by
    intro h
    simp only [hasTopSrc, Bool.or_eq_false_iff] at h
    have ho : hasSrc opts = false := h.1
    have hk := stripKids_noSrc k p kids h.2
    simp [stripElem, stripOpts_eq, ho, hk, topRemovedOpts_of_noSrc]
theorem stripKids_noSrc (k : Kind) (p : Path) :
    ∀ es : List Elem, hasTopSrcKids k es = false → stripKids k p es = (es, false, [])
  | [] => fun _ => rfl
  | e :: es => by
    intro h
    simp only [hasTopSrcKids, Bool.or_eq_false_iff, Bool.and_eq_false_iff] at h
    have h2 := stripKids_noSrc k p es h.2
    cases hv : visits k e with
    | false => simp [stripKids, hv, h2]
    | true =>
      have he : hasTopSrc e = false := by
        rcases h.1 with h1 | h1
        · rw [hv] at h1; cases h1
        · exact h1
      simp [stripKids, hv, h2, stripElem_noSrc (p ++ [e.tag, e.idx]) e he]
end

/-- **Returned as is.** If the call reports "unchanged", its result is its argument. -/
theorem strip_unchanged_as_is (p : Path) (e : Elem) (h : (stripElem p e).2.1 = false) :
    stripElem p e = (e, false, []) :=
  stripElem_noSrc p e (by rw [← stripElem_changed p e]; exact h)

theorem stripElem_kind_tag_idx (p : Path) (e : Elem) :
    (stripElem p e).1.kind = e.kind ∧ (stripElem p e).1.tag = e.tag ∧ (stripElem p e).1.idx = e.idx := by
  cases e with
  | mk k tag idx opts kids =>
    simp only [stripElem]
    split <;> simp [Elem.kind, Elem.tag, Elem.idx]

theorem visits_stripElem (k : Kind) (p : Path) (e : Elem) :
    visits k (stripElem p e).1 = visits k e := by
  have h := stripElem_kind_tag_idx p e
  simp [visits, h.1, h.2.1]

mutual
/-- After stripping, no walked element has a top-level source-retention field left. -/
theorem hasTopSrc_stripElem (p : Path) : ∀ e : Elem, hasTopSrc (stripElem p e).1 = false
  | .mk k tag idx opts kids => by
    have hk := hasTopSrcKids_stripKids k p kids
    have hc := stripElem_changed p (.mk k tag idx opts kids)
    simp only [stripElem, stripOpts_eq] at hc ⊢
    split
    · have ho := hasSrc_topOpts opts
      simp only [hasTopSrc, ho, hk, Bool.or_self]
    · next hne =>
      rw [if_neg hne] at hc
      exact hc.symm
theorem hasTopSrcKids_stripKids (k : Kind) (p : Path) :
    ∀ es : List Elem, hasTopSrcKids k (stripKids k p es).1 = false
  | [] => rfl
  | e :: es => by
    have h2 := hasTopSrcKids_stripKids k p es
    cases hv : visits k e with
    | false =>
      simp [stripKids, hv, hasTopSrcKids, h2]
    | true =>
      have h1 := hasTopSrc_stripElem (p ++ [e.tag, e.idx]) e
      simp [stripKids, hv, hasTopSrcKids, h2, h1]
end

/-! ## Exactness at depth 0 -/

mutual
theorem topElem_of_noSrc : ∀ e : Elem, wf e = true → hasTopSrc e = false → topElem e = e
  | .mk k tag idx opts kids => by
    intro hw h
    simp only [hasTopSrc, Bool.or_eq_false_iff] at h
    simp only [wf] at hw
    have ho : hasSrc opts = false := h.1
    simp [topElem, topOpts_of_noSrc opts ho, topKids_of_noSrc k kids hw h.2]
theorem topKids_of_noSrc (k : Kind) :
    ∀ es : List Elem, wfKids k es = true → hasTopSrcKids k es = false → topKids es = es
  | [] => fun _ _ => rfl
  | e :: es => by
    intro hw h
    simp only [wfKids, Bool.and_eq_true] at hw
    simp only [hasTopSrcKids, Bool.or_eq_false_iff, hw.1.1, Bool.true_and] at h
    simp [topKids, topElem_of_noSrc e hw.1.2 h.1, topKids_of_noSrc k es hw.2 h.2]
end

mutual
/-- On a descriptor-shaped tree every strip function returns the depth-0 reference result,
    the dirty flag, and the depth-0 removed paths. -/
theorem stripElem_eq_top (p : Path) :
    ∀ e : Elem, wf e = true → stripElem p e = (topElem e, hasTopSrc e, topRemoved p e)
  | .mk k tag idx opts kids => by
    intro hw
    have hc := stripElem_changed p (.mk k tag idx opts kids)
    simp only [wf] at hw
    have hk := stripKids_eq_top k p kids hw
    cases hs : hasTopSrc (.mk k tag idx opts kids) with
    | false =>
      rw [stripElem_noSrc p _ hs, topElem_of_noSrc _ (by simpa [wf] using hw) hs]
      simp only [hasTopSrc, Bool.or_eq_false_iff] at hs
      have ho : hasSrc opts = false := hs.1
      have hk0 := stripKids_noSrc k p kids hs.2
      rw [hk] at hk0
      have hr : topRemovedKids p kids = [] := by
        have := congrArg (fun x => x.2.2) hk0
        simpa using this
      simp [topRemoved, topRemovedOpts_of_noSrc _ opts ho, hr]
    | true =>
      rw [hs] at hc
      simp only [stripElem, stripOpts_eq, hk] at hc ⊢
      split
      · simp [topElem, topRemoved]
      · next hne =>
        rw [if_neg hne] at hc
        cases hc
theorem stripKids_eq_top (k : Kind) (p : Path) :
    ∀ es : List Elem, wfKids k es = true →
      stripKids k p es = (topKids es, hasTopSrcKids k es, topRemovedKids p es)
  | [] => fun _ => rfl
  | e :: es => by
    intro hw
    simp only [wfKids, Bool.and_eq_true] at hw
    have h1 := stripElem_eq_top (p ++ [e.tag, e.idx]) e hw.1.2
    have h2 := stripKids_eq_top k p es hw.2
    simp [stripKids, hw.1.1, h1, h2, topKids, hasTopSrcKids, topRemovedKids]
end

/-- **Exact at the top level (unconditional).** For every descriptor-shaped file and every
    list of locations, `StripSourceRetentionOptionsFromFile` yields exactly the depth-0
    reference: in every element the options keep precisely the fields whose own retention is
    not SOURCE (the message disappears when none is left), and a location is dropped iff a
    removed field's path / removed options message's path is a prefix of its path. -/
theorem strip_eq_top (f : Elem) (locs : Option (List Path)) (hw : wf f = true) :
    ((stripFile f locs).1, (stripFile f locs).2.2) = topFile f locs := by
  have h := stripElem_eq_top [] f hw
  simp only [stripFile, topFile, h]
  cases hs : hasTopSrc f with
  | false =>
    have h0 := stripElem_noSrc [] f hs
    rw [h] at h0
    have hr : topRemoved [] f = [] := by
      have := congrArg (fun x => x.2.2) h0
      simpa using this
    have ht : topElem f = f := topElem_of_noSrc f hw hs
    cases locs with
    | none => simp [ht]
    | some ls =>
      have : List.filter (fun _ : Path => true) ls = ls := List.filter_eq_self.mpr (fun _ _ => rfl)
      simp [ht, hr, keepLocs, this]
  | true =>
    cases locs with
    | none => simp
    | some ls =>
      cases ls with
      | nil => simp [keepLocs]
      | cons l ls => simp [stripLocs_buildTrie]

/-- **Locations.** In the result of a call that changed something, a location path occurs
    iff it occurred in the input and no path recorded by `addPath` is a prefix of it
    (order and multiplicity preserved: the result is that filter of the input list). -/
theorem locations_removed_iff (f : Elem) (ls : List Path) (hd : (stripElem [] f).2.1 = true) :
    (stripFile f (some ls)).2.2 = some (keepLocs (stripElem [] f).2.2 ls) := by
  simp only [stripFile, hd]
  cases ls with
  | nil => simp [keepLocs]
  | cons l ls => simp [stripLocs_buildTrie]

/-! ## Idempotence -/

/-- **Idempotent.** Stripping the result again returns it as is (same pointer: `changed = false`),
    with the same locations. -/
theorem strip_idempotent (f : Elem) (locs : Option (List Path)) :
    stripFile (stripFile f locs).1 (stripFile f locs).2.2
      = ((stripFile f locs).1, false, (stripFile f locs).2.2) := by
  have hno : hasTopSrc (stripFile f locs).1 = false := by
    simp only [stripFile]
    split
    · next h =>
      have := stripElem_changed [] f
      simp only [Bool.not_eq_true'] at h
      rw [h] at this
      exact this.symm
    · exact hasTopSrc_stripElem [] f
  generalize (stripFile f locs).1 = g at hno
  generalize (stripFile f locs).2.2 = l
  simp [stripFile, stripElem_noSrc [] g hno]

/-! ## From depth 0 to any depth: needs "all source-retention fields are top-level" -/

mutual
theorem pruneO_of_deepClean : ∀ t : OTree, deepCleanO t = true → pruneO t = t
  | .node n r v ks => by
    intro h
    simp only [deepCleanO, Bool.and_eq_true] at h
    simp [pruneO, pruneOs_of_deepClean ks h.2]
theorem pruneOs_of_deepClean : ∀ ts : List OTree, deepClean ts = true → pruneOs ts = ts
  | [] => fun _ => rfl
  | t :: ts => by
    intro h
    simp only [deepClean, Bool.and_eq_true] at h
    have hns : t.isSrc = false := by
      cases t with
      | node n r v ks =>
        have := h.1
        simp only [deepCleanO, Bool.and_eq_true] at this
        have h1 : ¬ r = Ret.source := by simpa using this.1
        simp [OTree.isSrc, OTree.ret, h1]
    simp [pruneOs, hns, pruneO_of_deepClean t h.1, pruneOs_of_deepClean ts h.2]
end

mutual
theorem srcPathsO_of_deepClean (b : Path) : ∀ t : OTree, deepCleanO t = true → srcPathsO b t = []
  | .node n r v ks => by
    intro h
    simp only [deepCleanO, Bool.and_eq_true] at h
    have hr : decide (r = Ret.source) = false := by simpa using h.1
    simp [srcPathsO, hr, srcPaths_of_deepClean (b ++ [n]) ks h.2]
theorem srcPaths_of_deepClean (b : Path) : ∀ ts : List OTree, deepClean ts = true → srcPaths b ts = []
  | [] => fun _ => rfl
  | t :: ts => by
    intro h
    simp only [deepClean, Bool.and_eq_true] at h
    simp [srcPaths, srcPathsO_of_deepClean b t h.1, srcPaths_of_deepClean b ts h.2]
end

theorem pruneOs_of_nestedClean : ∀ fs : List OTree, nestedCleanFields fs = true →
    pruneOs fs = fs.filter (fun f => !f.isSrc)
  | [] => fun _ => rfl
  | t :: ts => by
    intro h
    simp only [nestedCleanFields, Bool.and_eq_true] at h
    have ih := pruneOs_of_nestedClean ts h.2
    cases hs : t.isSrc with
    | true => simp [pruneOs, hs, ih]
    | false =>
      have hk : deepClean t.kids = true := by simpa [hs] using h.1
      have ht : pruneO t = t := by
        cases t with
        | node n r v ks => simp [pruneO, pruneOs_of_deepClean ks (by simpa [OTree.kids] using hk)]
      simp [pruneOs, hs, ih, ht]

theorem srcPaths_of_nestedClean (b : Path) : ∀ fs : List OTree, nestedCleanFields fs = true →
    srcPaths b fs = (fs.filter OTree.isSrc).map (fun f => b ++ [f.num])
  | [] => fun _ => rfl
  | t :: ts => by
    intro h
    simp only [nestedCleanFields, Bool.and_eq_true] at h
    have ih := srcPaths_of_nestedClean b ts h.2
    cases t with
    | node n r v ks =>
      cases hs : (OTree.node n r v ks).isSrc with
      | true =>
        have hr : decide (r = Ret.source) = true := hs
        simp [srcPaths, srcPathsO, hr, hs, ih, OTree.num]
      | false =>
        have hr : decide (r = Ret.source) = false := hs
        have hk : deepClean ks = true := by simpa [hs, OTree.kids] using h.1
        simp [srcPaths, srcPathsO, hr, hs, ih, srcPaths_of_deepClean (b ++ [n]) ks hk]

theorem topOpts_eq_ideal (opts : Option (List OTree)) (h : nestedCleanOpts opts = true) :
    topOpts opts = idealOpts opts := by
  cases opts with
  | none => rfl
  | some fs => simp [topOpts, idealOpts, pruneOs_of_nestedClean fs (by simpa [nestedCleanOpts] using h)]

theorem topRemovedOpts_eq_ideal (p : Path) (opts : Option (List OTree))
    (h : nestedCleanOpts opts = true) : topRemovedOpts p opts = idealRemovedOpts p opts := by
  cases opts with
  | none => rfl
  | some fs =>
    simp [topRemovedOpts, idealRemovedOpts,
      srcPaths_of_nestedClean p fs (by simpa [nestedCleanOpts] using h)]

mutual
theorem topElem_eq_ideal : ∀ e : Elem, nestedClean e = true → topElem e = idealElem e
  | .mk k tag idx opts kids => by
    intro h
    simp only [nestedClean, Bool.and_eq_true] at h
    simp [topElem, idealElem, topOpts_eq_ideal opts h.1, topKids_eq_ideal kids h.2]
theorem topKids_eq_ideal : ∀ es : List Elem, nestedCleanKids es = true → topKids es = idealKids es
  | [] => fun _ => rfl
  | e :: es => by
    intro h
    simp only [nestedCleanKids, Bool.and_eq_true] at h
    simp [topKids, idealKids, topElem_eq_ideal e h.1, topKids_eq_ideal es h.2]
end

mutual
theorem topRemoved_eq_ideal (p : Path) :
    ∀ e : Elem, nestedClean e = true → topRemoved p e = idealRemoved p e
  | .mk k tag idx opts kids => by
    intro h
    simp only [nestedClean, Bool.and_eq_true] at h
    simp [topRemoved, idealRemoved, topRemovedOpts_eq_ideal _ opts h.1,
      topRemovedKids_eq_ideal p kids h.2]
theorem topRemovedKids_eq_ideal (p : Path) :
    ∀ es : List Elem, nestedCleanKids es = true → topRemovedKids p es = idealRemovedKids p es
  | [] => fun _ => rfl
  | e :: es => by
    intro h
    simp only [nestedCleanKids, Bool.and_eq_true] at h
    simp [topRemovedKids, idealRemovedKids, topRemoved_eq_ideal _ e h.1,
      topRemovedKids_eq_ideal p es h.2]
end

/-! ## … and the hypothesis is necessary -/

mutual
/-- number of nodes (proof device) -/
def countO : OTree → Nat
  | .node _ _ _ ks => 1 + countOs ks
def countOs : List OTree → Nat
  | [] => 0
  | t :: ts => countO t + countOs ts
end

theorem countO_pos (t : OTree) : 0 < countO t := by
  cases t with
  | node n r v ks => simp [countO]; omega

mutual
theorem count_pruneO : ∀ t : OTree,
    countO (pruneO t) ≤ countO t ∧ (countO (pruneO t) = countO t → deepClean t.kids = true)
  | .node n r v ks => by
    have h := count_pruneOs ks
    simp only [pruneO, countO, OTree.kids]
    constructor
    · omega
    · intro he
      exact h.2 (by omega)
theorem count_pruneOs : ∀ ts : List OTree,
    countOs (pruneOs ts) ≤ countOs ts ∧ (countOs (pruneOs ts) = countOs ts → deepClean ts = true)
  | [] => by simp [pruneOs, countOs, deepClean]
  | t :: ts => by
    have h1 := count_pruneO t
    have h2 := count_pruneOs ts
    have hp := countO_pos t
    cases hs : t.isSrc with
    | true =>
      simp only [pruneOs, hs, if_true, countOs]
      constructor
      · omega
      · intro he; omega
    | false =>
      simp only [pruneOs, hs, Bool.false_eq_true, if_false, countOs]
      constructor
      · omega
      · intro he
        have e1 : countO (pruneO t) = countO t := by omega
        have e2 : countOs (pruneOs ts) = countOs ts := by omega
        have hk := h1.2 e1
        have hd : deepCleanO t = true := by
          cases t with
          | node n r v ks =>
            have hr : decide (r = Ret.source) = false := hs
            simp [deepCleanO, hr]
            simpa [OTree.kids] using hk
        simp [deepClean, hd, h2.2 e2]
end

theorem deepClean_of_pruneOs_eq (ks : List OTree) (h : pruneOs ks = ks) : deepClean ks = true :=
  (count_pruneOs ks).2 (by rw [h])

theorem nestedClean_of_filter_eq_prune : ∀ fs : List OTree,
    fs.filter (fun f => !f.isSrc) = pruneOs fs → nestedCleanFields fs = true
  | [] => fun _ => rfl
  | t :: ts => by
    intro h
    cases hs : t.isSrc with
    | true =>
      simp only [List.filter_cons, hs, pruneOs, if_true, Bool.not_true] at h
      simp [nestedCleanFields, hs, nestedClean_of_filter_eq_prune ts (by simpa using h)]
    | false =>
      simp only [List.filter_cons, hs, pruneOs, Bool.not_false, if_true] at h
      simp only [Bool.false_eq_true, if_false, List.cons.injEq] at h
      have hk : deepClean t.kids = true := by
        cases t with
        | node n r v ks =>
          have := h.1
          simp only [pruneO, OTree.node.injEq, true_and] at this
          exact deepClean_of_pruneOs_eq ks this.symm
      simp [nestedCleanFields, hk, nestedClean_of_filter_eq_prune ts h.2]

theorem nestedCleanOpts_of_top_eq_ideal (opts : Option (List OTree))
    (h : topOpts opts = idealOpts opts) : nestedCleanOpts opts = true := by
  cases opts with
  | none => rfl
  | some fs =>
    simp only [topOpts, idealOpts] at h
    cases hw : wholeRemoved fs with
    | true =>
      -- every field is source-retention: nothing is nested inside a retained value
      have hall : fs.all OTree.isSrc = true := by
        simp only [wholeRemoved, Bool.and_eq_true] at hw; exact hw.2
      have : ∀ gs : List OTree, gs.all OTree.isSrc = true → nestedCleanFields gs = true := by
        intro gs
        induction gs with
        | nil => intro _; rfl
        | cons g gs ih =>
          intro hg
          simp only [List.all_cons, Bool.and_eq_true] at hg
          simp [nestedCleanFields, hg.1, ih hg.2]
      exact this fs hall
    | false =>
      simp only [hw, Bool.false_eq_true, if_false, Option.some.injEq] at h
      exact nestedClean_of_filter_eq_prune fs h

mutual
theorem nestedClean_of_top_eq_ideal : ∀ e : Elem, topElem e = idealElem e → nestedClean e = true
  | .mk k tag idx opts kids => by
    intro h
    simp only [topElem, idealElem, Elem.mk.injEq, true_and] at h
    simp [nestedClean, nestedCleanOpts_of_top_eq_ideal opts h.1,
      nestedCleanKids_of_top_eq_ideal kids h.2]
theorem nestedCleanKids_of_top_eq_ideal :
    ∀ es : List Elem, topKids es = idealKids es → nestedCleanKids es = true
  | [] => fun _ => rfl
  | e :: es => by
    intro h
    simp only [topKids, idealKids, List.cons.injEq] at h
    simp [nestedCleanKids, nestedClean_of_top_eq_ideal e h.1,
      nestedCleanKids_of_top_eq_ideal es h.2]
end

/-! ## Sanity of the reference: nothing source-retention is left in it, at any depth -/

mutual
theorem deepCleanO_pruneO : ∀ t : OTree, t.isSrc = false → deepCleanO (pruneO t) = true
  | .node n r v ks => by
    intro h
    have hr : decide (r = Ret.source) = false := h
    simp [pruneO, deepCleanO, hr, deepClean_pruneOs ks]
theorem deepClean_pruneOs : ∀ ts : List OTree, deepClean (pruneOs ts) = true
  | [] => rfl
  | t :: ts => by
    cases hs : t.isSrc with
    | true => simp [pruneOs, hs, deepClean_pruneOs ts]
    | false => simp [pruneOs, hs, deepClean, deepCleanO_pruneO t hs, deepClean_pruneOs ts]
end

def optsDeepClean : Option (List OTree) → Bool
  | none => true
  | some fs => deepClean fs

mutual
/-- no options message anywhere in the tree contains a source-retention field at any depth -/
def allDeepClean : Elem → Bool
  | .mk _ _ _ opts kids => optsDeepClean opts && allDeepCleanKids kids
def allDeepCleanKids : List Elem → Bool
  | [] => true
  | e :: es => allDeepClean e && allDeepCleanKids es
end

mutual
theorem ideal_allDeepClean : ∀ e : Elem, allDeepClean (idealElem e) = true
  | .mk k tag idx opts kids => by
    have ho : optsDeepClean (idealOpts opts) = true := by
      cases opts with
      | none => rfl
      | some fs =>
        simp only [idealOpts]
        split
        · rfl
        · exact deepClean_pruneOs fs
    simp [idealElem, allDeepClean, ho, ideal_allDeepCleanKids kids]
theorem ideal_allDeepCleanKids : ∀ es : List Elem, allDeepCleanKids (idealKids es) = true
  | [] => rfl
  | e :: es => by
    simp [idealKids, allDeepCleanKids, ideal_allDeepClean e, ideal_allDeepCleanKids es]
end

/-! ## The full statement, its refutation, and the partial theorem -/

/-- **C22 at full strength**: on every descriptor-shaped file with any source code info,
    the stripped file and its locations are exactly the any-depth reference
    (`idealFile`: every source-retention field at every nesting depth removed, nothing else
    touched, exactly the locations under removed options dropped), and stripping again
    changes nothing. -/
def C22_full : Prop :=
  ∀ (f : Elem) (locs : Option (List Path)), wf f = true →
    ((stripFile f locs).1, (stripFile f locs).2.2) = idealFile f locs ∧
    stripFile (stripFile f locs).1 (stripFile f locs).2.2
      = ((stripFile f locs).1, false, (stripFile f locs).2.2)

/-- Witness: `message M { option (m1) = { a: 1 }; }` where extension `m1` (number 1001) has no
    retention and field `a` (number 1) of its message type has `retention = RETENTION_SOURCE`,
    compiled with option-value locations. -/
def witness : Elem :=
  .mk .file 0 0 none
    [.mk .message 4 0 (some [.node 1001 .unset 0 [.node 1 .source 1 []]]) []]

def witnessLocs : Option (List Path) := some [[4, 0, 7], [4, 0, 7, 1001], [4, 0, 7, 1001, 1]]

theorem witness_wf : wf witness = true := by decide

/-- the code returns the witness untouched … -/
theorem witness_strip : stripFile witness witnessLocs = (witness, false, witnessLocs) := by
  rfl

/-- … while the property demands that the nested field and its location go. -/
theorem witness_ideal : idealFile witness witnessLocs =
    (.mk .file 0 0 none [.mk .message 4 0 (some [.node 1001 .unset 0 []]) []],
     some [[4, 0, 7], [4, 0, 7, 1001]]) := by
  rfl

/-- **The full statement is false of the code as it is.** -/
theorem C22_full_refuted : ¬ C22_full := by
  intro h
  have h1 := (h witness witnessLocs witness_wf).1
  rw [witness_strip, witness_ideal] at h1
  have h2 := congrArg Prod.snd h1
  revert h2
  decide

/-- **Partial theorem.** If every source-retention field in every options message of the file
    is a field of the options message itself (none nested inside a retained option value),
    the code is exact at any depth and on locations, and idempotent. -/
theorem strip_exact_toplevel_partial (f : Elem) (locs : Option (List Path))
    (hw : wf f = true) (hn : nestedClean f = true) :
    ((stripFile f locs).1, (stripFile f locs).2.2) = idealFile f locs ∧
    stripFile (stripFile f locs).1 (stripFile f locs).2.2
      = ((stripFile f locs).1, false, (stripFile f locs).2.2) := by
  refine ⟨?_, strip_idempotent f locs⟩
  rw [strip_eq_top f locs hw]
  simp [topFile, idealFile, topElem_eq_ideal f hn, topRemoved_eq_ideal [] f hn]

/-- **Exactly the failing inputs.** On a descriptor-shaped file the code meets the any-depth
    reference (for every source code info) iff no source-retention field is nested inside a
    retained option value.  So the property oracle fails on precisely those compiled files. -/
theorem strip_exact_iff_nestedClean (f : Elem) (hw : wf f = true) :
    (∀ locs, ((stripFile f locs).1, (stripFile f locs).2.2) = idealFile f locs)
      ↔ nestedClean f = true := by
  constructor
  · intro h
    have h0 := h none
    rw [strip_eq_top f none hw] at h0
    simp only [topFile, idealFile, Prod.mk.injEq] at h0
    exact nestedClean_of_top_eq_ideal f h0.1
  · intro hn locs
    exact (strip_exact_toplevel_partial f locs hw hn).1

/-! ## Non-vacuity -/

/-- A file satisfying both hypotheses in which the strip is not the identity: file options
    wholly removed, a message keeping one of two fields, a field option dropped, and locations
    filtered. -/
def sample : Elem :=
  .mk .file 0 0 (some [.node 1004 .source 5 []])
    [.mk .message 4 0 (some [.node 3 .unset 1 [], .node 1007 .source 0 [.node 1 .source 2 []],
                             .node 1005 .runtime 0 [.node 2 .runtime 9 []]])
       [.mk .field 2 0 (some [.node 1004 .source 1 []]) [],
        .mk .field 2 1 none []]]

example : wf sample = true ∧ nestedClean sample = true := by decide

example : stripFile sample (some [[8], [8, 1004], [4, 0, 7], [4, 0, 7, 1007, 1], [4, 0, 2, 0, 8, 1004], [4, 0, 2, 1]]) =
    (.mk .file 0 0 none
      [.mk .message 4 0 (some [.node 3 .unset 1 [], .node 1005 .runtime 0 [.node 2 .runtime 9 []]])
        [.mk .field 2 0 none [], .mk .field 2 1 none []]],
     true, some [[4, 0, 7], [4, 0, 2, 1]]) := by rfl

end PCV.Props.C22

#print axioms PCV.Props.C22.trie_isRemoved_spec
#print axioms PCV.Props.C22.strip_eq_top
#print axioms PCV.Props.C22.locations_removed_iff
#print axioms PCV.Props.C22.strip_unchanged_as_is
#print axioms PCV.Props.C22.strip_idempotent
#print axioms PCV.Props.C22.C22_full_refuted
#print axioms PCV.Props.C22.strip_exact_toplevel_partial
#print axioms PCV.Props.C22.strip_exact_iff_nestedClean
#print axioms PCV.Props.C22.ideal_allDeepClean
