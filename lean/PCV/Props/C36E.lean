/-
C36 — the executor clause: "the same diagnostics for every parallelism and schedule".

`incremental.Run` gathers the diagnostics of the requested queries by a worklist walk over the
recorded dependency edges (`PCV.ReportCollect.collect`) and then calls `Report.Canonicalize`.
Two things in that walk depend on the schedule: the order in which `sync.Map.Range`
enumerates a task's dependencies, and (through the caller) the order of the requested queries.
What the walk visits does not:

* `collect_spec` — the walk visits exactly the tasks reachable from the requested ones over the
  recorded edges, each once, and the gathered list is the concatenation of their diagnostics
  in visiting order;
* `collect_perm` — for any two enumeration orders of the same dependency sets and any two
  orders of the same requested set, the two gathered lists are permutations of each other;
* `collect_terminates` — the loop ends, within `budget` iterations, on every finite graph
  (cycles included: the dedup set stops them);
* `report_independent_of_schedule_partial` — hence the canonicalized report is the same, when
  the sort key separates the diagnostics (the hypothesis `C36_full_refuted` shows to be needed);
  `report_keys_independent_of_schedule` is the unconditional version up to key ties;
* `C36_executor_full_refuted` — the executor-level face of `C36_full_refuted`: two dependencies
  whose diagnostics tie on the key come out in `Range` order.

Assumed, not proved here: each task's own diagnostic list is a function of the task (the
per-query determinism C33 is about), and the recorded dependency sets are the same in both
runs.
-/
import PCV.Model.ReportCollect
import PCV.Props.C36C
namespace PCV.Props.C36E
open PCV.ReportCollect PCV.Report PCV.Props.C36

variable {α δ : Type}

/-- reachable from one of `S` over the recorded dependency edges -/
inductive Reach (rng : α → List α) (S : List α) : α → Prop
  | root {x : α} : x ∈ S → Reach rng S x
  | step {x y : α} : Reach rng S x → y ∈ rng x → Reach rng S y

theorem Reach.mono {rng : α → List α} {S T : List α} (h : ∀ x ∈ S, Reach rng T x) {y : α}
    (hy : Reach rng S y) : Reach rng T y := by
  induction hy with
  | root hx => exact h _ hx
  | step _ hm ih => exact ih.step hm

/-- Two enumerations of the same dependency sets and two lists of the same roots reach the
    same tasks. -/
theorem Reach.congr {rng rng' : α → List α} {S S' : List α}
    (hr : ∀ x, x ∈ S ↔ x ∈ S') (hd : ∀ x y, y ∈ rng x ↔ y ∈ rng' x) {y : α}
    (hy : Reach rng S y) : Reach rng' S' y := by
  induction hy with
  | root hx => exact .root ((hr _).1 hx)
  | step _ hm ih => exact ih.step ((hd _ _).1 hm)

variable [DecidableEq α]

/-- The loop invariant, stated for a finished walk. -/
theorem collect_inv (rng : α → List α) (diag : α → List δ) :
    ∀ (f : Nat) (st seen : List α) (acc : List δ) (seen' : List α) (acc' : List δ),
      collect rng diag f st seen acc = some (seen', acc') → seen.Nodup →
      ∃ vs : List α, seen' = vs ++ seen ∧ seen'.Nodup ∧
        acc' = acc ++ vs.reverse.flatMap diag ∧
        (∀ v ∈ vs, Reach rng st v) ∧ (∀ x ∈ st, x ∈ seen') ∧
        (∀ v ∈ vs, ∀ y ∈ rng v, y ∈ seen') := by
  intro f
  induction f with
  | zero => intro st seen acc seen' acc' h; simp [collect] at h
  | succ f ih =>
    intro st seen acc seen' acc' h hn
    cases st with
    | nil =>
      simp only [collect, Option.some.injEq, Prod.mk.injEq] at h
      obtain ⟨rfl, rfl⟩ := h
      exact ⟨[], by simp, hn, by simp, by simp, by simp, by simp⟩
    | cons x st =>
      simp only [collect] at h
      by_cases hx : x ∈ seen
      · rw [if_pos hx] at h
        obtain ⟨vs, h1, h2, h3, h4, h5, h6⟩ := ih st seen acc seen' acc' h hn
        refine ⟨vs, h1, h2, h3, ?_, ?_, h6⟩
        · intro v hv
          exact Reach.mono (fun z hz => .root (List.mem_cons_of_mem _ hz)) (h4 v hv)
        · intro z hz
          rcases List.mem_cons.1 hz with rfl | hz
          · rw [h1]; exact List.mem_append_right _ hx
          · exact h5 z hz
      · rw [if_neg hx] at h
        have hn' : (x :: seen).Nodup := List.nodup_cons.2 ⟨hx, hn⟩
        obtain ⟨vs, h1, h2, h3, h4, h5, h6⟩ :=
          ih ((rng x).reverse ++ st) (x :: seen) (acc ++ diag x) seen' acc' h hn'
        have hxs : x ∈ seen' := by rw [h1]; exact List.mem_append_right _ (List.mem_cons_self ..)
        refine ⟨vs ++ [x], by simp [h1], h2, ?_, ?_, ?_, ?_⟩
        · rw [h3]; simp [List.append_assoc]
        · intro v hv
          rcases List.mem_append.1 hv with hv | hv
          · refine Reach.mono ?_ (h4 v hv)
            intro z hz
            rcases List.mem_append.1 hz with hz | hz
            · exact (Reach.root (List.mem_cons_self ..)).step (List.mem_reverse.1 hz)
            · exact .root (List.mem_cons_of_mem _ hz)
          · rw [List.mem_singleton.1 hv]; exact .root (List.mem_cons_self ..)
        · intro z hz
          rcases List.mem_cons.1 hz with rfl | hz
          · exact hxs
          · exact h5 z (List.mem_append_right _ hz)
        · intro v hv y hy
          rcases List.mem_append.1 hv with hv | hv
          · exact h6 v hv y hy
          · rw [List.mem_singleton.1 hv] at hy
            exact h5 y (List.mem_append_left _ (List.mem_reverse.2 hy))

/-- **What the walk gathers.**  A finished walk has visited exactly the tasks reachable from
    the requested ones, each once, and gathered their diagnostics in visiting order. -/
theorem collect_spec (rng : α → List α) (diag : α → List δ) (fuel : Nat) (roots vs : List α)
    (acc : List δ) (h : runCollect rng diag fuel roots = some (vs, acc)) :
    vs.Nodup ∧ (∀ x, x ∈ vs ↔ Reach rng roots x) ∧ acc = vs.reverse.flatMap diag := by
  obtain ⟨ws, h1, h2, h3, h4, h5, h6⟩ :=
    collect_inv rng diag fuel roots.reverse [] [] vs acc h List.nodup_nil
  simp only [List.append_nil] at h1
  subst h1
  refine ⟨h2, ?_, by simpa using h3⟩
  intro x
  constructor
  · intro hx
    exact Reach.mono (fun z hz => .root (List.mem_reverse.1 hz)) (h4 x hx)
  · intro hx
    induction hx with
    | root hr => exact h5 _ (List.mem_reverse.2 hr)
    | step _ hm ih => exact h6 _ ih _ hm

/-- **Schedule independence of the gathered multiset.**  Whatever order `Range` enumerates the
    dependencies in and whatever order the queries were requested in, two finished walks over
    the same edges gather permutations of one list. -/
theorem collect_perm (rng rng' : α → List α) (diag : α → List δ) (roots roots' : List α)
    (hr : ∀ x, x ∈ roots ↔ x ∈ roots') (hd : ∀ x y, y ∈ rng x ↔ y ∈ rng' x)
    (f f' : Nat) (vs vs' : List α) (acc acc' : List δ)
    (h : runCollect rng diag f roots = some (vs, acc))
    (h' : runCollect rng' diag f' roots' = some (vs', acc')) :
    vs.Perm vs' ∧ acc.Perm acc' := by
  obtain ⟨n1, m1, a1⟩ := collect_spec rng diag f roots vs acc h
  obtain ⟨n2, m2, a2⟩ := collect_spec rng' diag f' roots' vs' acc' h'
  have hp : vs.Perm vs' := by
    rw [List.perm_ext_iff_of_nodup n1 n2]
    intro x
    rw [m1, m2]
    exact ⟨Reach.congr hr hd, Reach.congr (fun x => (hr x).symm) (fun x y => (hd x y).symm)⟩
  refine ⟨hp, ?_⟩
  rw [a1, a2]
  exact ((List.reverse_perm vs).trans (hp.trans (List.reverse_perm vs').symm)).flatMap_right diag

/-! ## Termination -/

/-- weight of the tasks of `univ` not yet visited -/
def W (rng : α → List α) (univ seen : List α) : Nat :=
  ((univ.filter (fun y => y ∉ seen)).map (fun x => 2 + (rng x).length)).sum

theorem W_cons (rng : α → List α) (u : α) (us seen : List α) :
    W rng (u :: us) seen = (if u ∈ seen then 0 else 2 + (rng u).length) + W rng us seen := by
  unfold W
  by_cases hu : u ∈ seen <;> simp [hu]

theorem W_anti (rng : α → List α) (univ seen : List α) (x : α) :
    W rng univ (x :: seen) ≤ W rng univ seen := by
  induction univ with
  | nil => simp [W]
  | cons u us ih =>
    rw [W_cons, W_cons]
    by_cases hu : u ∈ seen
    · have : u ∈ x :: seen := List.mem_cons_of_mem _ hu
      rw [if_pos hu, if_pos this]; omega
    · rw [if_neg hu]
      split <;> omega

theorem W_visit (rng : α → List α) (univ seen : List α) (x : α) (hx : x ∈ univ)
    (hs : x ∉ seen) : W rng univ (x :: seen) + (2 + (rng x).length) ≤ W rng univ seen := by
  induction univ with
  | nil => cases hx
  | cons u us ih =>
    rw [W_cons, W_cons]
    by_cases hux : u = x
    · subst hux
      have h := W_anti rng us seen u
      rw [if_pos (List.mem_cons_self ..), if_neg hs]
      omega
    · have hx' : x ∈ us := by
        rcases List.mem_cons.1 hx with h | h
        · exact absurd h.symm hux
        · exact h
      have ih' := ih hx'
      by_cases hu : u ∈ seen
      · have : u ∈ x :: seen := List.mem_cons_of_mem _ hu
        rw [if_pos hu, if_pos this]; omega
      · have : u ∉ x :: seen := by simp [hux, hu]
        rw [if_neg hu, if_neg this]; omega

theorem W_nil (rng : α → List α) (univ : List α) :
    W rng univ [] = (univ.map (fun x => 2 + (rng x).length)).sum := by
  induction univ with
  | nil => simp [W]
  | cons u us ih => rw [W_cons, ih]; simp

theorem collect_fuel (rng : α → List α) (diag : α → List δ) (univ : List α)
    (hcl : ∀ x ∈ univ, ∀ y ∈ rng x, y ∈ univ) :
    ∀ (f : Nat) (st seen : List α) (acc : List δ), (∀ x ∈ st, x ∈ univ) →
      st.length + W rng univ seen < f → (collect rng diag f st seen acc).isSome = true := by
  intro f
  induction f with
  | zero => intro st seen acc _ h; omega
  | succ f ih =>
    intro st seen acc hst hlt
    cases st with
    | nil => simp [collect]
    | cons x st =>
      simp only [collect]
      by_cases hx : x ∈ seen
      · rw [if_pos hx]
        refine ih st seen _ (fun z hz => hst z (List.mem_cons_of_mem _ hz)) ?_
        simp only [List.length_cons] at hlt
        omega
      · rw [if_neg hx]
        have hxu : x ∈ univ := hst x (List.mem_cons_self ..)
        refine ih _ _ _ ?_ ?_
        · intro z hz
          rcases List.mem_append.1 hz with hz | hz
          · exact hcl x hxu z (List.mem_reverse.1 hz)
          · exact hst z (List.mem_cons_of_mem _ hz)
        · have := W_visit rng univ seen x hxu hx
          simp only [List.length_cons, List.length_append, List.length_reverse] at hlt ⊢
          omega

/-- **The walk ends.**  On every finite dependency graph (any shape, cycles included) the loop
    finishes within `budget` iterations. -/
theorem collect_terminates (rng : α → List α) (diag : α → List δ) (univ roots : List α)
    (hr : ∀ x ∈ roots, x ∈ univ) (hcl : ∀ x ∈ univ, ∀ y ∈ rng x, y ∈ univ)
    (f : Nat) (hf : budget rng univ roots ≤ f) :
    (runCollect rng diag f roots).isSome = true := by
  refine collect_fuel rng diag univ hcl f _ _ _ (fun x hx => hr x (List.mem_reverse.1 hx)) ?_
  have := W_nil rng univ
  simp only [budget] at hf
  simp only [List.length_reverse, this]
  omega

/-! ## The report -/

/-- **C36, executor clause (partial).**  For any two enumeration orders of the same recorded
    dependencies and any two request orders, the canonicalized reports of two finished walks
    are equal — provided no two different gathered diagnostics tie on the sort key. -/
theorem report_independent_of_schedule_partial (rng rng' : α → List α)
    (diag : α → List Diagnostic) (roots roots' : List α)
    (hr : ∀ x, x ∈ roots ↔ x ∈ roots') (hd : ∀ x y, y ∈ rng x ↔ y ∈ rng' x)
    (f f' : Nat) (vs vs' : List α) (acc acc' : List Diagnostic)
    (h : runCollect rng diag f roots = some (vs, acc))
    (h' : runCollect rng' diag f' roots' = some (vs', acc'))
    (keep : Bool) (hinj : KeyInjective acc) :
    canonicalize keep acc = canonicalize keep acc' :=
  canonicalize_perm_invariant_partial keep acc acc'
    (collect_perm rng rng' diag roots roots' hr hd f f' vs vs' acc acc' h h').2 hinj

/-- Unconditionally the two reports carry the same sequence of sort keys (KeepDuplicates):
    only diagnostics tying on all six fields can change places between schedules. -/
theorem report_keys_independent_of_schedule (rng rng' : α → List α)
    (diag : α → List Diagnostic) (roots roots' : List α)
    (hr : ∀ x, x ∈ roots ↔ x ∈ roots') (hd : ∀ x y, y ∈ rng x ↔ y ∈ rng' x)
    (f f' : Nat) (vs vs' : List α) (acc acc' : List Diagnostic)
    (h : runCollect rng diag f roots = some (vs, acc))
    (h' : runCollect rng' diag f' roots' = some (vs', acc')) :
    (canonicalize true acc).map keyOf = (canonicalize true acc').map keyOf :=
  canon_keys_invariant_keep acc acc'
    (collect_perm rng rng' diag roots roots' hr hd f f' vs vs' acc acc' h h').2

/-- The executor clause at full strength. -/
def C36_executor_full : Prop :=
  ∀ (rng rng' : Nat → List Nat) (diag : Nat → List Diagnostic) (roots roots' : List Nat),
    (∀ x, x ∈ roots ↔ x ∈ roots') → (∀ x y, y ∈ rng x ↔ y ∈ rng' x) →
    ∀ (f f' : Nat) (vs vs' : List Nat) (acc acc' : List Diagnostic),
      runCollect rng diag f roots = some (vs, acc) →
      runCollect rng' diag f' roots' = some (vs', acc') →
      ValidLevels acc →
      SameDiags (canonicalize false acc) (canonicalize false acc')

def wRng : Nat → List Nat | 0 => [1, 2] | _ => []
def wRng' : Nat → List Nat | 0 => [2, 1] | _ => []
def wDiag : Nat → List Diagnostic | 1 => [witnessA] | 2 => [witnessB] | _ => []

/-- One query with two dependencies whose diagnostics tie on the key: the report follows the
    order in which `Range` enumerated the dependencies. -/
theorem C36_executor_full_refuted : ¬ C36_executor_full := by
  intro h
  have hd : ∀ x y, y ∈ wRng x ↔ y ∈ wRng' x := by
    intro x y
    match x with
    | 0 => simp [wRng, wRng']; omega
    | _ + 1 => simp [wRng, wRng']
  have := h wRng wRng' wDiag [0] [0] (fun _ => Iff.rfl) hd 10 10 [1, 2, 0] [2, 1, 0]
    [witnessB, witnessA] [witnessA, witnessB] (by decide) (by decide) (by decide)
  exact absurd this (by decide)

/-! ## Non-vacuity -/

/-- a diamond with a back edge: 0 → 1, 2; 1 → 3; 2 → 3; 3 → 0 -/
def exRng : Nat → List Nat | 0 => [1, 2] | 1 => [3] | 2 => [3] | 3 => [0] | _ => []
def exDiag (n : Nat) : List Diagnostic := [{ witnessA with msg := [n.toUInt8] }]

example : budget exRng [0, 1, 2, 3] [0] = 15 ∧
    (runCollect exRng exDiag 15 [0]).map (·.1) = some [1, 3, 2, 0] := by decide

example : ∃ vs acc, runCollect exRng exDiag 15 [0] = some (vs, acc) ∧ KeyInjective acc ∧
    acc.length = 4 := by
  refine ⟨[1, 3, 2, 0], _, rfl, by decide, by decide⟩

end PCV.Props.C36E
