/-
C10 — Re-linking compiled output is a fixpoint.

On the pipeline model (PCV.Model.Pipeline: descriptor fields names / numbers / labels / types /
type names / extendees / JSON names / oneof indexes / map entries / services; name resolution
exactly as linker/resolve.go):

* `resolve_leadingDot_id` — whatever `resolve` finds for any spelling of a reference, the
  leading-dot fully-qualified name it writes back resolves to the very same element.
* `link_idempotent` — a successfully linked file, linked again in any environment that offers
  the same symbols, comes back unchanged (types already set are accepted, names stay, the
  consumed `json_name` option is not re-applied, nothing is re-synthesised).
* `relink_fixpoint` — for EVERY workspace: if compiling it from source succeeds, feeding all
  outputs back as unlinked protos succeeds and yields exactly the same outputs
  (`relink_fixpoint_iter`: and so does every further round).

What is NOT in the model and therefore only observed by the `relink` engine's byte comparison:
re-encoding of interpreted options / unknown fields, source code info, and the `Desc` input
form (already-linked descriptors wrapped by `linker.NewFile`).
-/
import PCV.Lemmas.Pipeline
namespace PCV.Props.C10
open PCV.Pipeline

/-- Already-qualified references resolve to themselves. -/
theorem resolve_leadingDot_id {env : Env} {f : FileD} {ref : Ref} {onlyTypes : Bool}
    {scopes : List Name} {m : Name} {k : Kind}
    (h : resolve env f ref onlyTypes scopes = .found m k) :
    resolve env f ⟨true, m⟩ onlyTypes scopes = .found m k :=
  resolve_found_lookup h

/-- and they do so from every scope: a dotted reference ignores the scopes. -/
theorem resolve_dotted_scope_irrelevant (env : Env) (f : FileD) (m : Name) (ot ot' : Bool)
    (sc sc' : List Name) : resolve env f ⟨true, m⟩ ot sc = resolve env f ⟨true, m⟩ ot' sc' := rfl

theorem link_idempotent {env env' : Env} (he : All₂ SymEq env env') {d d' : FileD}
    (h : link env d = .ok d') : link env' d' = .ok d' :=
  PCV.Pipeline.link_idempotent he h

theorem all₂_append {α β : Type} {R : α → β → Prop} {xs : List α} {ys : List β} {zs : List α} {ws : List β}
    (h1 : All₂ R xs ys) (h2 : All₂ R zs ws) : All₂ R (xs ++ zs) (ys ++ ws) := by
  induction h1 with
  | nil => exact h2
  | cons h _ ih => exact .cons h ih

theorem all₂_refl {α : Type} {R : α → α → Prop} (hr : ∀ x, R x x) : ∀ xs : List α, All₂ R xs xs
  | [] => .nil
  | x :: xs => .cons (hr x) (all₂_refl hr xs)

theorem all₂_imp {α β : Type} {R S : α → β → Prop} {xs : List α} {ys : List β}
    (h : All₂ R xs ys) (hrs : ∀ x y, R x y → S x y) : All₂ S xs ys := by
  induction h with
  | nil => exact .nil
  | cons h _ ih => exact .cons (hrs _ _ h) ih

/-- linking a list of files one by one: outputs are symbol-equivalent to the inputs -/
theorem linked_env_symEq {env : Env} {descs linked : List FileD}
    (h : mapE (link env) descs = .ok linked) : All₂ SymEq (descs ++ builtins) (linked ++ builtins) :=
  all₂_append (all₂_imp (mapE_forall₂ h) (fun _ _ hxy => link_symEq hxy)) (all₂_refl SymEq.refl _)

/-- **C10 on the model.** If the workspace compiles, re-linking its output is a fixpoint. -/
theorem relink_fixpoint (files : List SrcFile) (linked : List FileD)
    (h : compileAll files = .ok linked) : relinkAll linked = .ok linked := by
  unfold compileAll at h
  unfold relinkAll
  have he := linked_env_symEq h
  exact mapE_idem h (fun x y hxy => PCV.Pipeline.link_idempotent he hxy)

/-- the same for unlinked descriptors that did not come from `toDesc` (any descriptor protos) -/
theorem relink_fixpoint_descs (descs linked : List FileD)
    (h : mapE (link (descs ++ builtins)) descs = .ok linked) : relinkAll linked = .ok linked := by
  unfold relinkAll
  exact mapE_idem h (fun x y hxy => PCV.Pipeline.link_idempotent (linked_env_symEq h) hxy)

/-- every further round is a fixpoint too -/
def relinkRounds : Nat → List FileD → Except String (List FileD)
  | 0, l => .ok l
  | n + 1, l => match relinkAll l with
    | .ok l' => relinkRounds n l'
    | .error e => .error e

theorem relink_fixpoint_iter (files : List SrcFile) (linked : List FileD)
    (h : compileAll files = .ok linked) : ∀ n : Nat, relinkRounds n linked = .ok linked := by
  intro n
  induction n with
  | zero => rfl
  | succ n ih => simp [relinkRounds, relink_fixpoint files linked h, ih]

/-! Non-vacuity: a two-file workspace (nested scopes, relative references, a map, a group, an
    extension, a service, an explicit JSON name, a public import) compiles in the model. -/

def exA : SrcFile :=
  { path := "a.proto", syn := .proto2, pkg := ["p", "q"],
    body := [ .msg "A" [ .msg "B" [], .field .optional ⟨false, ["B"]⟩ "x" 1 (some "JX") 0,
                         .mapf "string" ⟨false, ["q", "E"]⟩ "m_a" 2 none 0,
                         .group .repeated "Grp" 3 0 [ .field .optional ⟨false, ["A"]⟩ "back" 1 none 0 ],
                         .extRange [(100, 199)] 0 ],
              .enum "E" [ .val "Z" 0 0 ],
              .extend ⟨false, ["A"]⟩ [ .field .optional ⟨true, ["p", "q", "A", "B"]⟩ "ext" 100 none 0 ] ] }

def exB : SrcFile :=
  { path := "b.proto", syn := .proto3, pkg := ["p"],
    body := [ .imp "a.proto" true,
              .msg "C" [ .field .optional ⟨false, ["q", "A", "B"]⟩ "b" 1 none 0 ],
              .svc "S" [ .rpc "Get" ⟨false, ["C"]⟩ ⟨true, ["p", "q", "A"]⟩ false true none ] ] }

def isOk {α : Type} : Except String α → Bool
  | .ok _ => true
  | .error _ => false


/-- structural equality of two results (both must have succeeded) -/
def sameOk : Except String (List FileD) → Except String (List FileD) → Bool
  | .ok a, .ok b => a == b
  | _, _ => false

example : isOk (compileAll [exA, exB]) = true := by decide +kernel
example : sameOk ((compileAll [exA, exB]).bind relinkAll) (compileAll [exA, exB]) = true := by decide +kernel

end PCV.Props.C10

#print axioms PCV.Props.C10.relink_fixpoint
#print axioms PCV.Props.C10.relink_fixpoint_descs
#print axioms PCV.Props.C10.relink_fixpoint_iter
#print axioms PCV.Props.C10.link_idempotent
#print axioms PCV.Props.C10.resolve_leadingDot_id
