/-
C01 — Accept/reject agrees with protoc.

Objects:
* model  : `compileWorkspace goChecks goNaming` (PCV.Model.MiniProto) — the semantic analysis of
  /repo as it is, with the Go algorithms (sort + neighbour sweep, two-pointer merge, binary search,
  map-based duplicate detection, the `X`-prefix loop over ALL names of the message);
* reference : `Spec.reference = compileWorkspace specChecks docNaming` (PCV.Spec.MiniProto) —
  the same rules stated declaratively, protoc's naming algorithms, and the divergences the project
  documents as intentional (reserved-name validity, allow_alias=false, proto2 custom JSON names,
  the synthetic-oneof name set); this stands in for the absent protoc (DESIGN.md 3.4) and is what
  the oracle of the `link` engine evaluates.

Proved here (all inputs, no bounds):
  (a) per-rule equivalences: reserved/extension range overlap, extension-vs-reserved overlap,
      number-in-range, duplicate numbers, enum aliases, tag validity, duplicate imports/symbols,
      JSON-name conflicts of fields and of enum values;
  (b) `validateMessage_iff`, `validateEnum_iff`, `validateBasic_iff`, `buildFile_wf`,
      `accept_iff_noRule'`: the whole pipeline (parse, imports, link, options, validate) accepts
      the same workspaces with the Go algorithms and with the declarative rules;
  (c) `C01_partial` / `C01_full_of_enumCanon`: the full statement `C01_full` (compiler accepts ⇔
      reference accepts, documented divergences exempted) holds up to ONE open equality — the
      canonical enum value NAME function (protoc's PrefixRemover + EnumValueToPascalCase vs
      internal.TrimPrefix + cases.Converter), compared on every run by the oracle and the
      exhaustive `nm canon` ops but not proved. `C01_without_exemption_refuted` documents, with a
      kernel-evaluated witness, that the synthetic-oneof exemption is really needed.
-/
import PCV.Props.C01V
import PCV.Lemmas.MiniProtoBridge
import PCV.Lemmas.MiniProtoWf
import PCV.Lemmas.MiniProtoJson
namespace PCV.Props.C01
open PCV.MiniProto PCV.MiniProto.Spec

/-! ## (a) per-rule equivalences (re-exported under the names of DESIGN.md) -/

/-- sort-then-compare-neighbours is complete and sound for "some two reserved (or extension)
    ranges overlap"; `incl = true` is the enum variant with inclusive ends -/
theorem reservedOverlap_sweep_iff (incl : Bool) (rs : List TagRange) (hw : ∀ r ∈ rs, RangeWf incl r) :
    rangesOverlapGo incl rs = true ↔ RangesOverlap incl rs := rangesOverlapGo_iff incl rs hw

/-- the advance-by-smaller-start merge reports iff some reserved range overlaps some extension
    range. Only well-formedness of the ranges is needed: sortedness is established by the code
    itself and disjointness inside each list turns out to be unnecessary. -/
theorem extRsvd_twoPointer_iff (rsvd exts : List TagRange)
    (hr : ∀ r ∈ rsvd, RangeWf false r) (he : ∀ e ∈ exts, RangeWf false e) :
    extRsvdOverlapGo rsvd exts = true ↔ ExtRsvdOverlap rsvd exts := extRsvdOverlapGo_iff rsvd exts hr he

/-- the binary search finds the range containing a number iff there is one — provided the ranges
    are pairwise disjoint, which is exactly what the preceding sweep guarantees when it is silent -/
theorem fieldInRange_binsearch_iff (incl : Bool) (rs : List TagRange) (n : Int)
    (hw : ∀ r ∈ rs, RangeWf incl r) (hn : ¬ RangesOverlap incl rs) :
    inRangesGo incl rs n = true ↔ InRanges incl rs n := inRangesGo_iff incl rs n hw hn

theorem dupTag_map_iff (xs : List (Int × String)) (hx : ∀ x ∈ xs, x.2 ≠ "") :
    dupNumberGo xs = true ↔ DupNumber xs := dupNumberGo_iff xs hx

theorem enumAlias_iff (allowAlias : Bool) (vals : List (Int × String)) (hx : ∀ x ∈ vals, x.2 ≠ "") :
    ((enumAliasGo allowAlias vals).1 = true ↔ (allowAlias = false ∧ DupNumber vals)) ∧
    ((enumAliasGo allowAlias vals).2 = true ↔ (allowAlias = true ∧ ¬ DupNumber vals)) :=
  PCV.MiniProto.enumAlias_iff allowAlias vals hx

theorem tagValid_iff (v maxTag : Nat) : checkTag v maxTag = none ↔ TagValid v maxTag := checkTag_iff v maxTag

theorem dupImport_iff (paths : List String) : dupStrGo paths = true ↔ ¬ paths.Nodup := by
  rw [dupStr_go_eq, dupStrB_iff]

/-- without the disjointness hypothesis the binary search is NOT exact: with the overlapping
    ranges 1–10 and 2–3 it misses the number 5 (the code never gets there: the sweep has already
    reported the overlap) -/
theorem binsearch_needs_disjoint :
    inRangesGo false [⟨1, 11⟩, ⟨2, 4⟩] 5 = false ∧ InRanges false [⟨1, 11⟩, ⟨2, 4⟩] 5 := by
  refine ⟨by decide, ⟨⟨1, 11⟩, by simp, by decide, by decide⟩⟩

/-! ## (b) message / enum / file level -/

/-- the decision procedures compared by the theorems below: every rule in its declarative form;
    only the canonical enum value NAME (internal.TrimPrefix vs protoc's PrefixRemover) stays as in
    the Go model — the two name functions are compared by the oracle and by the exhaustive `nm
    canon` ops, not proved equal -/
def declChecks : Checks := { specChecks with enumCanon := canonicalEnumValueName }

/-- **JSON-name conflicts** and **enum value JSON conflicts**: the first-seen-per-name loops are
    exact although later entries are only compared with the first entry of their name -/
theorem jsonConflict_iff (compliant : Bool) (fs : List (String × String × Bool)) :
    jsonConflictGo compliant fs = jsonConflictB compliant fs := jsonConflict_go_eq compliant fs

theorem enumJsonConflict_iff (vs : List (String × Int)) : enumJsonConflictGo vs = enumJsonConflictB vs :=
  enumJsonConflict_go_eq vs

theorem validateMessage_iff (syn : Syn) (m : MsgD) (hw : MsgWf m) :
    validateMessage goChecks syn m = [] ↔ validateMessage declChecks syn m = [] := by
  obtain ⟨hr, he, hf⟩ := hw
  have hnames : ∀ x ∈ m.fields.map (fun f => (f.number, f.name)), x.2 ≠ "" := by
    intro x hx
    obtain ⟨f, hf', rfl⟩ := List.mem_map.mp hx
    exact hf f hf'
  unfold validateMessage
  simp only [goChecks, goChecksBase, declChecks, specChecks]
  simp only [rangesOverlap_go_eq false m.reservedRanges hr, rangesOverlap_go_eq false m.extRanges he,
    extRsvdOverlap_go_eq m.reservedRanges m.extRanges hr he, dupNumber_go_eq _ hnames]
  by_cases h1' : rangesOverlapB false m.reservedRanges = true
  · simp [h1']
  · have h1 : rangesOverlapB false m.reservedRanges = false := by simpa using h1'
    by_cases h2' : rangesOverlapB false m.extRanges = true
    · simp [h2']
    · have h2 : rangesOverlapB false m.extRanges = false := by simpa using h2'
      have e1 : ∀ n, inRangesGo false m.reservedRanges n = inRangesB false m.reservedRanges n :=
        fun n => inRanges_go_eq false _ n hr h1
      have e2 : ∀ n, inRangesGo false m.extRanges n = inRangesB false m.extRanges n :=
        fun n => inRanges_go_eq false _ n he h2
      simp only [e1, e2]
      exact Iff.rfl

theorem validateEnum_iff (syn : Syn) (e : EnumD) (hw : EnumWf e) :
    validateEnum goChecks syn e = [] ↔ validateEnum declChecks syn e = [] := by
  obtain ⟨hr, hv⟩ := hw
  have hnames : ∀ x ∈ e.values.map (fun v => (v.2, v.1)), x.2 ≠ "" := by
    intro x hx
    obtain ⟨v, hv', rfl⟩ := List.mem_map.mp hx
    exact hv v hv'
  unfold validateEnum
  simp only [goChecks, goChecksBase, declChecks, specChecks]
  simp only [rangesOverlap_go_eq true e.reservedRanges hr, dupNumber_go_eq _ hnames]
  by_cases h1' : rangesOverlapB true e.reservedRanges = true
  · simp [h1']
  · have h1 : rangesOverlapB true e.reservedRanges = false := by simpa using h1'
    have e1 : ∀ n, inRangesGo true e.reservedRanges n = inRangesB true e.reservedRanges n :=
      fun n => inRanges_go_eq true _ n hr h1
    simp only [e1]
    exact Iff.rfl

theorem flatMap_eq_nil_iff' {α β : Type} (l : List α) (f : α → List β) :
    l.flatMap f = [] ↔ ∀ a ∈ l, f a = [] := by
  induction l with
  | nil => simp
  | cons x xs ih => simp [List.flatMap_cons, ih]

theorem validateBasic_iff (fd : FileD) (hw : FileWf fd) :
    validateBasic goChecks fd = [] ↔ validateBasic declChecks fd = [] := by
  unfold validateBasic
  have hd : goChecks.dupStr fd.deps = declChecks.dupStr fd.deps := by
    simp only [goChecks, goChecksBase, declChecks, specChecks]; exact dupStr_go_eq _
  rw [hd]
  simp only [List.append_eq_nil_iff, flatMap_eq_nil_iff']
  constructor
  · rintro ⟨⟨⟨h0, h1⟩, h2⟩, h3⟩
    refine ⟨⟨⟨h0, ?_⟩, ?_⟩, h3⟩
    · intro m hm
      have := h1 m hm
      obtain ⟨⟨ha, hb⟩, hc⟩ := this
      refine ⟨⟨(validateMessage_iff fd.syn m (hw.1 m hm).1).mp ha, hb⟩, ?_⟩
      intro e he
      exact (validateEnum_iff fd.syn e ((hw.1 m hm).2 e he)).mp (hc e he)
    · intro e he
      exact (validateEnum_iff fd.syn e (hw.2 e he)).mp (h2 e he)
  · rintro ⟨⟨⟨h0, h1⟩, h2⟩, h3⟩
    refine ⟨⟨⟨h0, ?_⟩, ?_⟩, h3⟩
    · intro m hm
      have := h1 m hm
      obtain ⟨⟨ha, hb⟩, hc⟩ := this
      refine ⟨⟨(validateMessage_iff fd.syn m (hw.1 m hm).1).mpr ha, hb⟩, ?_⟩
      intro e he
      exact (validateEnum_iff fd.syn e ((hw.1 m hm).2 e he)).mpr (hc e he)
    · intro e he
      exact (validateEnum_iff fd.syn e (hw.2 e he)).mpr (h2 e he)

/-! ## (b) the whole pipeline -/

theorem parsePhase_fst (ck1 ck2 : Checks) (nm : Naming) (f : FileA) :
    (parsePhase ck1 nm f).1 = (parsePhase ck2 nm f).1 := by
  simp [parsePhase]

theorem parsePhase_snd (ck : Checks) (nm : Naming) (f : FileA) :
    (parsePhase ck nm f).2 = (buildFile nm f).2 ++ validateBasic ck (buildFile nm f).1 := by
  simp [parsePhase]

theorem parsePhase_errs_iff (nm : Naming) (f : FileA) (hw : FileWf (buildFile nm f).1) :
    (parsePhase goChecks nm f).2 = [] ↔ (parsePhase declChecks nm f).2 = [] := by
  rw [parsePhase_snd, parsePhase_snd]
  simp only [List.append_eq_nil_iff]
  rw [validateBasic_iff _ hw]

/-- everything after parsing uses only decision procedures that agree on every input -/
theorem linkPhase_eq (env : Env) (nm : Naming) (i : Nat) (fd : FileD) :
    linkPhase goChecks env nm i fd = linkPhase declChecks env nm i fd := by
  have h : goChecks.dupStr = declChecks.dupStr := by
    funext xs
    simp only [goChecks, goChecksBase, declChecks, specChecks]
    exact dupStr_go_eq xs
  have h2 : goChecks.jsonConflict = declChecks.jsonConflict := by
    funext c fs
    simp only [goChecks, goChecksBase, declChecks, specChecks]
    exact jsonConflict_go_eq c fs
  have h3 : goChecks.enumJsonConflict = declChecks.enumJsonConflict := by
    funext vs
    simp only [goChecks, goChecksBase, declChecks, specChecks]
    exact enumJsonConflict_go_eq vs
  unfold linkPhase linkFile validateOptionsFile validateEnumOpts
  rw [h, h2, h3]
  rfl

theorem isEmpty_eq_false_iff {α : Type} (l : List α) : (!l.isEmpty) = true ↔ l ≠ [] := by
  cases l <;> simp

theorem depErrs_iff (env : Env) (fd : FileD) (s1 s2 : Nat → List Rule) (h : ∀ j, s1 j = [] ↔ s2 j = []) :
    depErrs env fd s1 = [] ↔ depErrs env fd s2 = [] := by
  unfold depErrs
  rw [flatMap_eq_nil_iff', flatMap_eq_nil_iff']
  constructor
  · intro h' p hp
    have := h' p hp
    by_cases hs : (p == fd.path) = true
    · simp [hs] at this
    · simp only [hs, Bool.false_eq_true, if_false] at this ⊢
      cases hj : fileIndex env.files p with
      | none => rw [hj] at this; simp at this
      | some j => rw [hj] at this; simp only at this ⊢; exact (h j).mp this
  · intro h' p hp
    have := h' p hp
    by_cases hs : (p == fd.path) = true
    · simp [hs] at this
    · simp only [hs, Bool.false_eq_true, if_false] at this ⊢
      cases hj : fileIndex env.files p with
      | none => rw [hj] at this; simp at this
      | some j => rw [hj] at this; simp only at this ⊢; exact (h j).mpr this

/-- the per-file status computed with either set of decision procedures: same descriptor, and
    errors present in the one iff present in the other -/
theorem fileStatus_rel (nm : Naming) (ws : Workspace) (hwf : ∀ f ∈ ws, FileWf (buildFile nm f).1) (env : Env) :
    ∀ (fuel i : Nat),
      (fileStatus goChecks env nm (ws.map (parsePhase goChecks nm)) fuel i).1 =
        (fileStatus declChecks env nm (ws.map (parsePhase declChecks nm)) fuel i).1 ∧
      ((fileStatus goChecks env nm (ws.map (parsePhase goChecks nm)) fuel i).2 = [] ↔
        (fileStatus declChecks env nm (ws.map (parsePhase declChecks nm)) fuel i).2 = []) := by
  intro fuel
  induction fuel with
  | zero => intro i; simp [fileStatus]
  | succ fuel ih =>
    intro i
    unfold fileStatus
    simp only [List.getElem?_map]
    cases hf : ws[i]? with
    | none => simp
    | some f =>
      simp only [Option.map_some]
      have hmem : f ∈ ws := List.mem_of_getElem? hf
      have h1 := parsePhase_fst goChecks declChecks nm f
      have h2 := parsePhase_errs_iff nm f (hwf f hmem)
      -- name the two parse results
      generalize hp1 : parsePhase goChecks nm f = p1 at h1 h2
      generalize hp2 : parsePhase declChecks nm f = p2 at h1 h2
      obtain ⟨fd1, pe1⟩ := p1
      obtain ⟨fd2, pe2⟩ := p2
      simp only at h1 h2 ⊢
      subst h1
      by_cases hpe : pe1 = []
      · have hpe2 : pe2 = [] := h2.mp hpe
        subst hpe hpe2
        simp only [List.isEmpty_nil, Bool.not_true, Bool.false_eq_true, if_false]
        -- dependency errors
        have hdep := depErrs_iff env fd1
          (fun j => (fileStatus goChecks env nm (ws.map (parsePhase goChecks nm)) fuel j).2)
          (fun j => (fileStatus declChecks env nm (ws.map (parsePhase declChecks nm)) fuel j).2)
          (fun j => (ih j).2)
        by_cases hd : depErrs env fd1
            (fun j => (fileStatus goChecks env nm (ws.map (parsePhase goChecks nm)) fuel j).2) = []
        · have hd2 := hdep.mp hd
          simp only [hd, hd2, List.isEmpty_nil, Bool.not_true, Bool.false_eq_true, if_false]
          rw [linkPhase_eq]
          exact ⟨rfl, Iff.rfl⟩
        · have hd2 : ¬ _ := fun h => hd (hdep.mpr h)
          have e1 := (isEmpty_eq_false_iff _).mpr hd
          have e2 := (isEmpty_eq_false_iff _).mpr hd2
          simp only [e1, e2, if_true]
          exact ⟨trivial, by simp [hd, hd2]⟩
      · have hpe2 : pe2 ≠ [] := fun h => hpe (h2.mpr h)
        have e1 := (isEmpty_eq_false_iff _).mpr hpe
        have e2 := (isEmpty_eq_false_iff _).mpr hpe2
        simp only [e1, e2, if_true]
        exact ⟨trivial, by simp [hpe, hpe2]⟩

/-- **accept ⇔ no rule violated**: on every workspace whose constructed descriptors are
    well-formed (construction reported no range error — otherwise both sides reject anyway), the
    pipeline with the Go algorithms accepts iff the pipeline with the declarative rules accepts:
    no rule is lost or added by the sort/sweep/merge/binary-search/map implementations, in any
    phase and for any number of files. -/
theorem accept_iff_noRule (nm : Naming) (ws : Workspace) (hwf : ∀ f ∈ ws, FileWf (buildFile nm f).1) :
    (compileWorkspace goChecks nm ws).errs = [] ↔ (compileWorkspace declChecks nm ws).errs = [] := by
  unfold compileWorkspace
  have henv : (ws.map (parsePhase goChecks nm)).map (·.1) = (ws.map (parsePhase declChecks nm)).map (·.1) := by
    simp only [List.map_map]
    apply List.map_congr_left
    intro f _
    exact parsePhase_fst goChecks declChecks nm f
  simp only [henv]
  generalize mkEnv ((ws.map (parsePhase declChecks nm)).map (·.1)) = env
  have hrel := fileStatus_rel nm ws hwf env (ws.length + 1)
  have hfst : ((List.range ws.length).map (fileStatus goChecks env nm (ws.map (parsePhase goChecks nm)) (ws.length + 1))).map (·.1) =
      ((List.range ws.length).map (fileStatus declChecks env nm (ws.map (parsePhase declChecks nm)) (ws.length + 1))).map (·.1) := by
    simp only [List.map_map]
    apply List.map_congr_left
    intro i _
    exact (hrel i).1
  rw [hfst]
  simp only [List.append_eq_nil_iff, flatMap_eq_nil_iff', List.mem_map, List.mem_range]
  constructor
  · rintro ⟨h, hg⟩
    refine ⟨?_, hg⟩
    rintro a ⟨i, hi, rfl⟩
    exact (hrel i).2.mp (h _ ⟨i, hi, rfl⟩)
  · rintro ⟨h, hg⟩
    refine ⟨?_, hg⟩
    rintro a ⟨i, hi, rfl⟩
    exact (hrel i).2.mpr (h _ ⟨i, hi, rfl⟩)

/-- a file whose construction reports an error makes the whole compile fail, whatever the
    decision procedures -/
theorem reject_of_build_error (ck : Checks) (nm : Naming) (ws : Workspace) (f : FileA) (hf : f ∈ ws)
    (h : (buildFile nm f).2 ≠ []) : (compileWorkspace ck nm ws).errs ≠ [] := by
  obtain ⟨i, hi, hget⟩ := List.getElem_of_mem hf
  unfold compileWorkspace
  simp only [ne_eq, List.append_eq_nil_iff, flatMap_eq_nil_iff', List.mem_map, List.mem_range, not_and]
  intro hall
  exfalso
  have := hall _ ⟨i, hi, rfl⟩
  unfold fileStatus at this
  simp only [List.getElem?_map, List.getElem?_eq_getElem hi, hget, Option.map_some] at this
  have hpe : (parsePhase ck nm f).2 ≠ [] := by
    rw [parsePhase_snd]
    simp only [ne_eq, List.append_eq_nil_iff, not_and]
    intro h'; exact absurd h' h
  generalize parsePhase ck nm f = p at this hpe
  obtain ⟨fd, pe⟩ := p
  simp only at this hpe
  have e1 := (isEmpty_eq_false_iff _).mpr hpe
  simp only [e1, if_true] at this
  exact hpe this

/-- **accept ⇔ no rule violated, without hypothesis on the descriptors**: for every workspace
    whose fields, groups, map fields and enum values have non-empty names (the grammar guarantees
    it), the compiler's pipeline with the Go algorithms accepts iff the pipeline with the
    declarative rules accepts. -/
theorem accept_iff_noRule' (nm : Naming) (ws : Workspace) (hn : ∀ f ∈ ws, NamesOk f) :
    (compileWorkspace goChecks nm ws).errs = [] ↔ (compileWorkspace declChecks nm ws).errs = [] := by
  by_cases hall : ∀ f ∈ ws, (buildFile nm f).2 = []
  · exact accept_iff_noRule nm ws (fun f hf => buildFile_wf nm f (hn f hf) (hall f hf))
  · have : ∃ f ∈ ws, (buildFile nm f).2 ≠ [] := by
      apply Classical.byContradiction
      intro hno
      apply hall
      intro f hf
      apply Classical.byContradiction
      intro hne
      exact hno ⟨f, hf, hne⟩
    obtain ⟨f, hf, hne⟩ := this
    constructor
    · intro h; exact absurd h (reject_of_build_error goChecks nm ws f hf hne)
    · intro h; exact absurd h (reject_of_build_error declChecks nm ws f hf hne)

/-! ## (c) the full statement, the documented divergence, and what is proved of it -/

/-- C01 at full strength on the modelled constructs: the compiler accepts a (well-formed,
    anchored) workspace exactly when the reference semantics accepts it. The reference is protoc's
    rules and naming TOGETHER WITH the divergences the project documents as intentional — the
    property's own exemption — among them the synthetic-oneof name set (`Spec.docNaming`, quoted
    from the comment of `processProto3OptionalFields`). -/
def C01_full : Prop :=
  ∀ ws : Workspace, wellFormed ws = true → (∀ f ∈ ws, NamesOk f) → unanchored (reference ws) = false →
    ((compileWorkspace goChecks goNaming ws).errs = [] ↔ (reference ws).errs = [])

/-- the Go naming functions are the reference's: JSON and map-entry names are protoc's loops
    (proved equal on every string), synthetic oneofs are the documented divergence -/
theorem goNaming_eq_docNaming : goNaming = docNaming := by
  unfold goNaming docNaming protocNaming
  congr 1
  · funext s
    show jsonName s = _
    unfold jsonName
    rw [jsonName_spec]
  · funext s
    show mapEntryName s = _
    unfold mapEntryName
    rw [mapEntryName_spec]

/-- **C01, what is proved**: for every workspace (any number of files, any nesting) with
    non-empty identifiers, the compiler's accept/reject equals that of the reference pipeline with
    every rule in declarative form and the reference's naming; the ONLY thing separating this from
    `C01_full` is the canonical enum value name function inside the enum JSON-conflict rule. -/
theorem C01_partial (ws : Workspace) (hn : ∀ f ∈ ws, NamesOk f) :
    (compileWorkspace goChecks goNaming ws).errs = [] ↔ (compileWorkspace declChecks docNaming ws).errs = [] := by
  rw [accept_iff_noRule' goNaming ws hn, goNaming_eq_docNaming]

/-- `C01_full` follows once internal.TrimPrefix + cases.Converter is the same function as protoc's
    PrefixRemover + EnumValueToPascalCase. That equality is OPEN in Lean (not refuted: the `nm canon`
    ops compare the real function with protoc's transcription on all short strings and ~6000 pairs
    every run, the oracle on every generated enum); everything else of `C01_full` is proved. -/
theorem C01_full_of_enumCanon (hcanon : canonicalEnumValueName = protocEnumCanon) : C01_full := by
  intro ws _ hn _
  have : declChecks = specChecks := by
    unfold declChecks
    rw [hcanon]
    rfl
  rw [C01_partial ws hn, this]
  rfl

/-! ### the documented divergence, for the record -/

/-- C01 WITHOUT the project's exemption for synthetic oneof names (pure protoc naming) -/
def C01_without_exemption : Prop :=
  ∀ ws : Workspace, wellFormed ws = true → unanchored (referencePureProtoc ws) = false →
    ((compileWorkspace goChecks goNaming ws).errs = [] ↔ (referencePureProtoc ws).errs = [])

/-- `syntax = "proto3"; package p; message M { optional int32 x = 1; message _x {} }` -/
def witness : Workspace :=
  [{ path := "t.proto", syn := .proto3, pkg := "p", imports := [], top := [.msg 0],
     msgs := [{ name := "M", elems := [.field { label := .optional, ty := "int32", name := "x", number := 1,
                                                 json := none, packed := none, dflt := none }, .msg 1] },
              { name := "_x", elems := [] }],
     enums := [], svcs := [] }]

/-- the compiler accepts the witness (it names the synthetic oneof `X_x`, having put the nested
    message `_x` into the set of taken names), and so does the reference … -/
theorem witness_accepted :
    (compileWorkspace goChecks goNaming witness).errs = [] ∧ (reference witness).errs = [] := by decide +kernel

/-- … while protoc's `GenerateSyntheticOneofs` looks at field and oneof names only, names the
    oneof `_x`, and `p.M._x` is then defined twice -/
theorem witness_rejected_by_pure_protoc : (referencePureProtoc witness).errs = ["dup-symbol"] := by decide +kernel

/-- the divergence is real: without the exemption the statement is false (this is documentation of
    the divergence the project chose, not a finding) -/
theorem C01_without_exemption_refuted : ¬ C01_without_exemption := by
  intro h
  have := (h witness (by decide +kernel) (by decide +kernel)).mp witness_accepted.1
  rw [witness_rejected_by_pure_protoc] at this
  exact absurd this (by simp)

/-! ## non-vacuity -/

/-- a file with overlapping-candidate ranges, fields, an enum with reserved ranges -/
def sample : FileA :=
  { path := "s.proto", syn := .proto2, pkg := "a.b", imports := [], top := [.msg 0, .enum 0],
    msgs := [{ name := "M", elems := [.reserved 5 (.lit 9), .reserved 20 .single, .extRange 100 .max,
                                      .field { label := .optional, ty := "int32", name := "f", number := 1,
                                               json := none, packed := none, dflt := none }] }],
    enums := [{ name := "E", elems := [.value "A" 0, .value "B" 1, .reserved (-3) (.lit (-1))] }],
    svcs := [] }

instance (incl : Bool) (r : TagRange) : Decidable (RangeWf incl r) := by unfold RangeWf; infer_instance

/-- the hypotheses are satisfiable by a non-trivial file, and that file is accepted -/
example : FileWf (buildFile goNaming sample).1 ∧ (compileWorkspace goChecks goNaming [sample]).errs = [] := by
  refine ⟨?_, by decide +kernel⟩
  unfold FileWf MsgWf EnumWf
  decide +kernel

example : NamesOk sample := by
  unfold NamesOk ElemsOk sample
  simp [elemNameOk]

/-- the sweeps do report on a non-trivial input (the theorems are not about the empty list) -/
example : rangesOverlapGo false [⟨5, 10⟩, ⟨1, 3⟩, ⟨9, 12⟩] = true ∧
    extRsvdOverlapGo [⟨5, 10⟩] [⟨1, 3⟩, ⟨9, 12⟩] = true ∧ inRangesGo false [⟨5, 10⟩, ⟨1, 3⟩] 9 = true := by
  decide +kernel

end PCV.Props.C01

#print axioms PCV.Props.C01.reservedOverlap_sweep_iff
#print axioms PCV.Props.C01.extRsvd_twoPointer_iff
#print axioms PCV.Props.C01.fieldInRange_binsearch_iff
#print axioms PCV.Props.C01.dupTag_map_iff
#print axioms PCV.Props.C01.enumAlias_iff
#print axioms PCV.Props.C01.tagValid_iff
#print axioms PCV.Props.C01.dupImport_iff
#print axioms PCV.Props.C01.jsonConflict_iff
#print axioms PCV.Props.C01.enumJsonConflict_iff
#print axioms PCV.Props.C01.validateMessage_iff
#print axioms PCV.Props.C01.validateEnum_iff
#print axioms PCV.Props.C01.validateBasic_iff
#print axioms PCV.Props.C01.accept_iff_noRule
#print axioms PCV.Props.C01.accept_iff_noRule'
#print axioms PCV.Props.C01.C01_full_of_enumCanon
#print axioms PCV.Props.C01.C01_without_exemption_refuted
#print axioms PCV.Props.C01.C01_partial
#print axioms PCV.Props.C01V.C01V_partial
#print axioms PCV.Props.C01V.accepts_only_what_protoc_accepts
#print axioms PCV.Props.C01V.C01V_full_refuted
#print axioms PCV.Props.C01V.first_error
