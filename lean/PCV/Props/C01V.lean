/-
C01 (second engine `optvalidate`) — accept/reject agrees with protoc, for the OPTION-DEPENDENT
validation rules of /repo/linker/validate.go (the `link` engine of PCV.Props.C01 has no options).

Objects:
* model     : `validate : Files → Verdict` (PCV.Model.OptValidate) — ValidateOptions as it is:
  validateFile, validateField (validatePacked, closed enums, defaults, ctype, lazy, jstype),
  validateFieldFeatures, validateExtension (message sets, tag bound, LITE_RUNTIME, declaration
  matching), validateExtensionDeclarations with the symbol table of declared names; per file the
  list of ALL reported error classes in the order of the code, `validate` = the first one of the
  first failing file; three panic sites included;
* reference : `Spec.refAccepts` (PCV.Spec.OptValidate) — protoc's rules written declaratively in
  protoc's notions, anchored case by case in TestLinkerValidation (re-run as calibration ops on
  every check), plus the two divergences the project documents (expectedDiffWithProtoc):
  declared extension names are unique per symbol table, a dotted declared type must be a valid
  name; `Spec.protocAccepts` is protoc alone.

Proved here, for ALL file sets (no bounds on files, messages, fields, ranges, declarations):
  (a) per rule, the decision logic stated outright as an iff on membership in the error list;
  (b) dead rules: packedEditions, ctype2024, extTagTooHigh can never be the reason of a rejection;
  (c) `validate_ok_iff` : the compile succeeds iff every file passes the earlier phases, imports
      only earlier files and reports nothing; `first_error` : what a fail-fast compile reports;
  (d) `C01V_partial` : on well-formed sets without edition-2024 files the model accepts exactly
      what the reference accepts; `accepts_only_what_protoc_accepts`: and never something protoc
      rejects; `C01V_full` (agreement with protoc ALONE) is refuted by the two documented
      divergences (`C01V_full_refuted`, kernel-evaluated witnesses);
  (e) non-vacuity examples.
-/
import PCV.Lemmas.OptValidateRef
namespace PCV.Props.C01V
open PCV.OptValidate PCV.OptValidate.Spec

/-! ## (a) the decision logic of every rule, stated outright

`fieldCoreErrs fs f v` is everything validateField reports for the field `v` of file `f` before the
extension part; `extErrs` the extension part; `validateFileErrs` validateFile. -/

/-- `lazy = true` is rejected exactly on fields whose kind is not "message" (scalars, enums, proto2
    groups, DELIMITED message fields of edition files) -/
theorem lazy_only_on_messages (fs : Files) (f : File) (v : FieldView) :
    .lazyNonMessage ∈ fieldCoreErrs fs f v ↔ v.opts.lazy = some true ∧ kind f v ≠ .message := by
  simp [mem_fieldCoreErrs, mem_packedErrs, mem_closedEnumErrs, mem_lazyErrs, mem_jstypeErrs, mem_featureErrs,
    mem_presenceErrs, mem_rencErrs, mem_utf8Errs, mem_mencErrs]
  exact And.comm

/-- `unverified_lazy = true` likewise; it is the reported option only when `lazy` is not also true -/
theorem unverified_lazy_only_on_messages (fs : Files) (f : File) (v : FieldView) :
    .ulazyNonMessage ∈ fieldCoreErrs fs f v ↔
      v.opts.lazy ≠ some true ∧ v.opts.unverifiedLazy = some true ∧ kind f v ≠ .message := by
  simp [mem_fieldCoreErrs, mem_packedErrs, mem_closedEnumErrs, mem_lazyErrs, mem_jstypeErrs, mem_featureErrs,
    mem_presenceErrs, mem_rencErrs, mem_utf8Errs, mem_mencErrs]
  constructor
  · rintro ⟨a, b, c⟩; exact ⟨b, c, a⟩
  · rintro ⟨b, c, a⟩; exact ⟨a, b, c⟩

/-- `jstype` other than JS_NORMAL is rejected exactly outside int64, uint64, sint64, fixed64, sfixed64 -/
theorem jstype_only_on_64bit (fs : Files) (f : File) (v : FieldView) :
    .jstypeNon64 ∈ fieldCoreErrs fs f v ↔
      (v.opts.jstype = some .string ∨ v.opts.jstype = some .number) ∧ (kind f v).is64BitInt = false := by
  simp [mem_fieldCoreErrs, mem_packedErrs, mem_closedEnumErrs, mem_lazyErrs, mem_jstypeErrs, mem_featureErrs,
    mem_presenceErrs, mem_rencErrs, mem_utf8Errs, mem_mencErrs]

theorem is64BitInt_iff (k : Kind) :
    k.is64BitInt = true ↔ k = .scalar .int64 ∨ k = .scalar .uint64 ∨ k = .scalar .sint64 ∨
      k = .scalar .fixed64 ∨ k = .scalar .sfixed64 := by
  cases k with
  | scalar s => cases s <;> simp [Kind.is64BitInt]
  | enum => simp [Kind.is64BitInt]
  | message => simp [Kind.is64BitInt]
  | group => simp [Kind.is64BitInt]

/-- a default value is rejected exactly on fields without presence -/
theorem default_needs_presence (fs : Files) (f : File) (v : FieldView) :
    .defaultImplicit ∈ fieldCoreErrs fs f v ↔ v.opts.hasDefault = true ∧ hasPresence f v = false := by
  simp [mem_fieldCoreErrs, mem_packedErrs, mem_closedEnumErrs, mem_lazyErrs, mem_jstypeErrs, mem_featureErrs,
    mem_presenceErrs, mem_rencErrs, mem_utf8Errs, mem_mencErrs]

/-- a closed enum is rejected exactly in singular fields without presence -/
theorem closed_enum_needs_presence (fs : Files) (f : File) (v : FieldView) :
    .closedEnumImplicit ∈ fieldCoreErrs fs f v ↔
      ∃ r, v.ty = .enum r ∧ v.label ≠ .repeated ∧ hasPresence f v = false ∧ enumClosed fs r = true := by
  simp [mem_fieldCoreErrs, mem_packedErrs, mem_closedEnumErrs, mem_lazyErrs, mem_jstypeErrs, mem_featureErrs,
    mem_presenceErrs, mem_rencErrs, mem_utf8Errs, mem_mencErrs]

/-- what "presence" means: never for repeated/map fields; always for extensions, message-typed
    fields and oneof members (incl. proto3 `optional`); otherwise by the resolved feature -/
theorem hasPresence_iff (f : File) (v : FieldView) :
    hasPresence f v = true ↔
      v.isRepeated = false ∧
        (v.isExt = true ∨ kind f v = .message ∨ kind f v = .group ∨ v.inOneof f = true ∨
         resolvedPresence f v ≠ .implicit) := by
  unfold hasPresence
  by_cases hr : v.isRepeated = true
  · simp [hr]
  · simp only [hr, Bool.false_eq_true, if_false, Bool.not_eq_true, true_and]
    cases hp : resolvedPresence f v <;> simp <;> grind

/-- `packed = true` on a non-repeated field: reported when the field has a label keyword … -/
theorem packed_non_repeated (fs : Files) (f : File) (v : FieldView) :
    .packedNonRepeated ∈ fieldCoreErrs fs f v ↔
      v.opts.packed = some true ∧ v.isRepeated = false ∧ v.label ≠ .none := by
  simp [mem_fieldCoreErrs, mem_packedErrs, mem_closedEnumErrs, mem_lazyErrs, mem_jstypeErrs, mem_featureErrs,
    mem_presenceErrs, mem_rencErrs, mem_utf8Errs, mem_mencErrs]

/-- … and a nil dereference when it has none (proto3 singular field, oneof member): the defect of
    validatePacked the model reproduces -/
theorem packed_without_label_panics (fs : Files) (f : File) (v : FieldView) (hx : v.isExt = false) :
    .panicNilLabel ∈ fieldCoreErrs fs f v ↔
      v.opts.packed = some true ∧ v.isRepeated = false ∧ v.label = .none := by
  simp [mem_fieldCoreErrs, mem_packedErrs, mem_closedEnumErrs, mem_lazyErrs, mem_jstypeErrs, mem_featureErrs,
    mem_presenceErrs, mem_rencErrs, mem_utf8Errs, mem_mencErrs]

theorem packed_non_packable (fs : Files) (f : File) (v : FieldView) :
    .packedNonPackable ∈ fieldCoreErrs fs f v ↔
      v.opts.packed = some true ∧ v.ty.unpackableProtoType = true := by
  simp [mem_fieldCoreErrs, mem_packedErrs, mem_closedEnumErrs, mem_lazyErrs, mem_jstypeErrs, mem_featureErrs,
    mem_presenceErrs, mem_rencErrs, mem_utf8Errs, mem_mencErrs]

/-! validateFieldFeatures: only in edition files, never for the fields of map entries -/

theorem presence_feature_placement (fs : Files) (f : File) (v : FieldView) (e : Err)
    (he : e = .presenceOneof ∨ e = .presenceRepeated ∨ e = .presenceExtension ∨ e = .presenceImplicitMessage) :
    e ∈ fieldCoreErrs fs f v ↔
      f.isEditions = true ∧ v.inMapEntry = false ∧ ∃ p, v.opts.presence = some p ∧
        ((e = .presenceOneof ∧ v.inOneof f = true) ∨
         (e = .presenceRepeated ∧ v.inOneof f = false ∧ v.isRepeated = true) ∨
         (e = .presenceExtension ∧ v.inOneof f = false ∧ v.isRepeated = false ∧ v.isExt = true) ∨
         (e = .presenceImplicitMessage ∧ v.inOneof f = false ∧ v.isRepeated = false ∧ v.isExt = false ∧
            v.ty.hasMessage = true ∧ p = .implicit)) := by
  rcases he with rfl | rfl | rfl | rfl <;>
    simp [mem_fieldCoreErrs, mem_packedErrs, mem_closedEnumErrs, mem_lazyErrs, mem_jstypeErrs, mem_featureErrs,
      mem_presenceErrs, mem_rencErrs, mem_utf8Errs, mem_mencErrs]

theorem repeated_field_encoding_placement (fs : Files) (f : File) (v : FieldView) :
    (.rencNonRepeated ∈ fieldCoreErrs fs f v ↔
      f.isEditions = true ∧ v.inMapEntry = false ∧ v.opts.repEnc.isSome = true ∧ v.isRepeated = false) ∧
    (.rencPackedNonPackable ∈ fieldCoreErrs fs f v ↔
      f.isEditions = true ∧ v.inMapEntry = false ∧ v.opts.repEnc = some .packed ∧ v.isRepeated = true ∧
        (kind f v).canPack = false) := by
  constructor <;>
    simp [mem_fieldCoreErrs, mem_packedErrs, mem_closedEnumErrs, mem_lazyErrs, mem_jstypeErrs, mem_featureErrs,
      mem_presenceErrs, mem_rencErrs, mem_utf8Errs, mem_mencErrs]
  · cases v.opts.repEnc <;> simp
  · intro _ _
    constructor
    · rintro ⟨r, h1, h2, h3, rfl⟩; exact ⟨h1, h2, h3⟩
    · rintro ⟨h1, h2, h3⟩; exact ⟨_, h1, h2, h3, rfl⟩

theorem utf8_validation_placement (fs : Files) (f : File) (v : FieldView) :
    .utf8NonString ∈ fieldCoreErrs fs f v ↔
      f.isEditions = true ∧ v.inMapEntry = false ∧ v.opts.utf8.isSome = true ∧
        ((v.ty.isMap = false ∧ kind f v ≠ .scalar .string) ∨
         (v.ty.isMap = true ∧ mapKeyIsString v.ty = false ∧ mapValIsString v.ty = false)) := by
  simp [mem_fieldCoreErrs, mem_packedErrs, mem_closedEnumErrs, mem_lazyErrs, mem_jstypeErrs, mem_featureErrs,
    mem_presenceErrs, mem_rencErrs, mem_utf8Errs, mem_mencErrs]

theorem message_encoding_placement (fs : Files) (f : File) (v : FieldView) :
    .mencNonMessage ∈ fieldCoreErrs fs f v ↔
      f.isEditions = true ∧ v.inMapEntry = false ∧ v.opts.msgEnc.isSome = true ∧
        (v.ty.hasMessage = false ∨ v.ty.isMap = true) := by
  simp [mem_fieldCoreErrs, mem_packedErrs, mem_closedEnumErrs, mem_lazyErrs, mem_jstypeErrs, mem_featureErrs,
    mem_presenceErrs, mem_rencErrs, mem_utf8Errs, mem_mencErrs]

/-! validateFile -/

theorem lite_import_rule (fs : Files) (f : File) :
    .liteImport ∈ validateFileErrs fs f ↔
      f.optFor ≠ some .lite ∧ ∃ k ∈ f.imports, ∃ d, fs[k]? = some d ∧ d.optFor = some .lite := by
  unfold validateFileErrs
  have hr : ¬ (Err.liteImport ∈ (if f.isEditions = true then
      errIf (f.presence == some .legacyRequired) .fileLegacyRequired ++ errIf f.javaUtf8.isSome .javaUtf8Editions
      else [])) := by
    by_cases he : f.isEditions = true <;> simp [he, mem_errIf]
  simp only [List.mem_append, hr, or_false]
  by_cases ho : f.optFor = some .lite
  · simp [ho]
  · have : (f.optFor != some .lite) = true := by simpa using ho
    simp only [this, if_true, List.mem_flatMap, mem_errIf, and_true, ne_eq, ho, not_false_eq_true, true_and]
    constructor
    · rintro ⟨k, hk, hl⟩
      unfold importIsLite at hl
      cases hd : fs[k]? with
      | none => simp [hd] at hl
      | some d => exact ⟨k, hk, d, hd, by simpa [hd] using hl⟩
    · rintro ⟨k, hk, d, hd, hl⟩
      exact ⟨k, hk, by simp [importIsLite, hd, hl]⟩

theorem file_feature_rules (fs : Files) (f : File) :
    (.fileLegacyRequired ∈ validateFileErrs fs f ↔ f.isEditions = true ∧ f.presence = some .legacyRequired) ∧
    (.javaUtf8Editions ∈ validateFileErrs fs f ↔ f.isEditions = true ∧ f.javaUtf8.isSome = true) := by
  unfold validateFileErrs
  have hn : ∀ e, e ≠ Err.liteImport →
      ¬ (e ∈ (if (f.optFor != some .lite) = true then f.imports.flatMap (fun k => errIf (importIsLite fs k) .liteImport) else [])) := by
    intro e he
    split
    · simp only [List.mem_flatMap, mem_errIf, not_exists, not_and]
      intro k _ _ h; exact he h
    · simp
  have h1 := hn .fileLegacyRequired (by simp)
  have h2 := hn .javaUtf8Editions (by simp)
  constructor
  · simp only [List.mem_append, h1, false_or]
    by_cases he : f.isEditions = true <;> simp [he, mem_errIf]
  · simp only [List.mem_append, h2, false_or]
    by_cases he : f.isEditions = true <;> simp [he, mem_errIf]

/-! validateExtension -/

/-- message-set extendee: the extension must be a non-repeated field of kind "message";
    otherwise: the tag bound -/
theorem message_set_extension_rules (f : File) (m : Message) (x : Ext) :
    (.msgSetScalarExt ∈ msgSetErrs f m x ↔ m.msgSet = some true ∧ kind f x.view ≠ .message) ∧
    (.msgSetRepeatedExt ∈ msgSetErrs f m x ↔ m.msgSet = some true ∧ x.view.isRepeated = true) ∧
    (.extTagTooHigh ∈ msgSetErrs f m x ↔ m.msgSet ≠ some true ∧ fieldMax < x.number) := by
  refine ⟨?_, ?_, ?_⟩ <;> simp [mem_msgSetErrs]

theorem lite_extension_rule (fs : Files) (file : Nat) (f : File) (n : Nat) (x : Ext) (ef : File) (m : Message)
    (hl : lookupMsg fs x.extendee = some (ef, m)) :
    .liteExtendsNonLite ∈ extErrs fs file f n x ↔ f.optFor = some .lite ∧ ef.optFor ≠ some .lite := by
  unfold extErrs
  simp only [hl, List.mem_append, mem_errIf, mem_msgSetErrs]
  have h3 : Err.liteExtendsNonLite ∉ matchRanges (extInfo file n x) m.ranges := by
    generalize extInfo file n x = xi
    induction m.ranges with
    | nil => simp [matchRanges]
    | cons r rest ih =>
      obtain ⟨sp, st⟩ := r
      unfold matchRanges
      split
      · exact ih
      · split
        · simp
        · simp only [List.mem_append, not_or]
          refine ⟨?_, ih⟩
          rw [matchDecls_eq]
          split
          · split <;> simp
          · split
            · simp
            · simp only [List.mem_append, mem_errIf, not_or]
              refine ⟨⟨by simp, by simp⟩, ?_⟩
              split
              · split <;> simp
              · simp
  simp [h3]

/-- the declaration check looks at the FIRST declaration carrying the extension's number -/
theorem declaration_match_rules (x : ExtInfo) (ds : List Decl) (d : Decl)
    (hd : firstDecl x.number ds = some d) :
    (.extReserved ∈ matchDecls x ds ↔ d.reserved = some true) ∧
    (.extNameMismatch ∈ matchDecls x ds ↔ d.reserved ≠ some true ∧ d.fullName.getD [] ≠ '.' :: x.fullName) ∧
    (.extTypeMismatch ∈ matchDecls x ds ↔ d.reserved ≠ some true ∧ d.type.getD [] ≠ x.typeName) ∧
    (.extRepeatedMismatch ∈ matchDecls x ds ↔
        d.reserved ≠ some true ∧ d.repeated.getD false ≠ x.isRep ∧ x.noLabel = false) := by
  rw [matchDecls_eq, hd]
  have hr : d.reserved.getD false = true ↔ d.reserved = some true := by
    cases d.reserved with
    | none => simp
    | some b => cases b <;> simp
  by_cases h : d.reserved = some true
  · simp [h]
  · have h' : d.reserved.getD false = false := by
      cases hh : d.reserved.getD false with
      | false => rfl
      | true => exact absurd (hr.mp hh) h
    simp only [h', Bool.false_eq_true, if_false, List.mem_append, mem_errIf, h, not_false_eq_true, true_and,
      ne_eq, reduceCtorEq, and_false, false_or, or_false, bne_iff_ne, and_true]
    refine ⟨?_, ?_, ?_, ?_⟩
    · split
      · split <;> simp
      · simp
    · constructor
      · rintro (h1 | h1)
        · exact h1
        · split at h1
          · split at h1 <;> simp at h1
          · simp at h1
      · intro h1; exact Or.inl h1
    · constructor
      · rintro (h1 | h1)
        · exact h1
        · split at h1
          · split at h1 <;> simp at h1
          · simp at h1
      · intro h1; exact Or.inl h1
    · by_cases h3 : d.repeated.getD false = x.isRep
      · simp [h3]
      · cases hn : x.noLabel <;> simp [h3, hn]

/-- no declaration carries the number: "not declared" — or the panic when the extendee lives in
    another file (the range node is looked up in the wrong file) -/
theorem undeclared_extension (x : ExtInfo) (ds : List Decl) (hd : firstDecl x.number ds = none) :
    matchDecls x ds = (if x.otherFile then [.panicRangeNode] else [.extNotDeclared]) := by
  rw [matchDecls_eq, hd]

/-! ## (b) rules that can never decide: dead code behind earlier phases -/

/-- the parser has rejected every edition file that uses `packed` before ValidateOptions runs -/
theorem packedEditions_dead (fs : Files) (f : File) (m : Message) (fl : Field)
    (hm : m ∈ f.msgs) (hfl : fl ∈ m.fields) (h : .packedEditions ∈ fieldCoreErrs fs f fl.view) :
    parsePre f = true := by
  have : fl.opts.packed.isSome = true ∧ f.isEditions = true := by
    simpa [mem_fieldCoreErrs, mem_packedErrs, mem_closedEnumErrs, mem_lazyErrs, mem_jstypeErrs, mem_featureErrs,
      mem_presenceErrs, mem_rencErrs, mem_utf8Errs, mem_mencErrs, Field.view] using h
  unfold parsePre
  have h1 : f.msgs.any (fun m => m.fields.any (fun fl => fl.opts.packed.isSome)) = true :=
    List.any_eq_true.mpr ⟨m, hm, List.any_eq_true.mpr ⟨fl, hfl, this.1⟩⟩
  simp [this.2, h1]

/-- the parser rejects edition 2024, so the ctype rule never fires -/
theorem ctype2024_dead (fs : Files) (f : File) (v : FieldView) (h : .ctype2024 ∈ fieldCoreErrs fs f v) :
    parsePre f = true := by
  have : v.opts.ctype.isSome = true ∧ f.syn = .ed2024 := by
    simpa [mem_fieldCoreErrs, mem_packedErrs, mem_closedEnumErrs, mem_lazyErrs, mem_jstypeErrs, mem_featureErrs,
      mem_presenceErrs, mem_rencErrs, mem_utf8Errs, mem_mencErrs] using h
  unfold parsePre
  simp [this.2]

/-- when the extendee is not a message set its ranges end at FieldMax, and the resolver has checked
    that the tag lies in one of them: the "higher than max allowed tag number" branch is unreachable -/
theorem extTagTooHigh_dead (f : File) (m : Message) (x : Ext)
    (hin : inSomeRange m x.number = true)
    (hmax : m.msgSet ≠ some true → ∀ r ∈ m.ranges, r.1.hi ≤ fieldMax) :
    .extTagTooHigh ∉ msgSetErrs f m x := by
  rw [(message_set_extension_rules f m x).2.2]
  rintro ⟨hs, hlt⟩
  unfold inSomeRange at hin
  obtain ⟨r, hr, hc⟩ := List.any_eq_true.mp hin
  have := hmax hs r hr
  simp only [Bool.and_eq_true, decide_eq_true_eq] at hc
  omega

/-- the boundary itself is accepted: tag = FieldMax on a plain extendee reports nothing -/
example : msgSetErrs { syn := .proto2 } {} { extendee := ⟨0, 0⟩, number := fieldMax, label := .optional, ty := .scalar .int32 } = [] := by
  decide

/-! ## (c) accept/reject of the whole set; the first error -/

/-- the compile of the set succeeds iff every file passes the earlier phases, imports only earlier
    files, and ValidateOptions reports nothing for it -/
theorem validate_ok_iff (fs : Files) :
    validate fs = .ok ↔ ∀ i f, fs[i]? = some f → FileGood fs i f :=
  PCV.OptValidate.validate_ok_iff fs

/-- ValidateOptions reports nothing for a file iff validateFile is silent, every message is fine
    (ranges, fields, map entries), no declared name clashes, and every extension is fine -/
theorem fileErrs_nil_iff (fs : Files) (i : Nat) (f : File) :
    fileErrs fs i f = [] ↔
      validateFileErrs fs f = [] ∧
      ((∀ m ∈ f.msgs, MsgLocalOk fs f m) ∧ Consistent (msgsOccs i 0 f.msgs)) ∧
      (∀ p ∈ f.exts.zipIdx, fieldCoreErrs fs f p.1.view = [] ∧ extErrs fs i f p.2 p.1 = []) := by
  rw [fileErrs_nil, addAll_nil_ok_iff]

/-- the first-entry-wins table of declared names (symbols.AddExtensionDeclaration) is exact: some
    call fails iff two declarations give one name to different (extendee, number) pairs — although
    a later declaration is only compared with the FIRST entry of its name -/
theorem declared_names_table_exact (l : List Occ) : (addAll [] l).1 = false ↔ Consistent l :=
  addAll_nil_ok_iff l

/-- the duplicate-number map of one range is exact -/
theorem declared_numbers_exact (seen l : List Int) : numsFresh seen l ↔ l.Nodup ∧ ∀ n ∈ l, n ∉ seen :=
  numsFresh_iff seen l

/-- what a fail-fast compile reports: if the files before `i` compile and file `i` reaches
    ValidateOptions with first error `e` (not a panic), the verdict is `.err e` -/
theorem first_error (fs : Files) (pre : List File) (f : File) (post : List File) (e : Err) (rest : List Err)
    (hfs : fs = pre ++ f :: post)
    (hpre : ∀ j g, pre[j]? = some g → FileGood fs j g)
    (h1 : parsePre f = false) (h2 : ∀ k ∈ f.imports, k < pre.length) (h3 : linkPre fs f = false)
    (he : fileErrs fs pre.length f = e :: rest) (hp : e.isPanic = false) :
    validate fs = .err e := by
  -- the good prefix is processed into an all-ok `done`
  have key : ∀ (l : List File) (done : List Outcome),
      done.all Outcome.isOk = true → (∀ j g, l[j]? = some g → FileGood fs (done.length + j) g) →
      ∀ tail, ∃ done', done'.all Outcome.isOk = true ∧ done'.length = done.length + l.length ∧
        outcomesAux fs done (l ++ tail) = outcomesAux fs done' tail := by
    intro l
    induction l with
    | nil => intro done hd _ tail; exact ⟨done, hd, by simp, rfl⟩
    | cons g l ih =>
      intro done hd hg tail
      have hgood := (fileOutcome_isOk fs done g hd).mpr (by simpa using hg 0 g (by simp))
      have hd' : (done ++ [fileOutcome fs done g]).all Outcome.isOk = true := by
        simp [List.all_append, hd, hgood]
      obtain ⟨done', h1', h2', h3'⟩ := ih (done ++ [fileOutcome fs done g]) hd' (by
        intro j g' hj
        have := hg (j + 1) g' (by simpa using hj)
        simpa [Nat.add_assoc, Nat.add_comm 1 j] using this) tail
      refine ⟨done', h1', ?_, ?_⟩
      · simp only [List.length_append, List.length_cons, List.length_nil] at h2' ⊢; omega
      · simpa [outcomesAux] using h3'
  -- everything computed later is appended
  have hprefix : ∀ (tl : List File) (os : List Outcome), ∃ more, outcomesAux fs os tl = os ++ more := by
    intro tl
    induction tl with
    | nil => intro os; exact ⟨[], by simp [outcomesAux]⟩
    | cons t tl ih =>
      intro os
      obtain ⟨more, hm⟩ := ih (os ++ [fileOutcome fs os t])
      exact ⟨fileOutcome fs os t :: more, by simp [outcomesAux, hm]⟩
  -- an all-ok prefix does not decide the verdict
  have hverd : ∀ (os more : List Outcome), os.all Outcome.isOk = true → verdictOf (os ++ more) = verdictOf more := by
    intro os more hos
    induction os with
    | nil => rfl
    | cons a os ih =>
      rw [List.all_cons, Bool.and_eq_true] at hos
      cases a <;> first
        | (simpa [verdictOf] using ih hos.2)
        | (exact absurd hos.1 (by simp [Outcome.isOk]))
  obtain ⟨done, hd, hlen, heq⟩ := key pre [] (by simp) (by simpa using hpre) (f :: post)
  simp only [List.length_nil, Nat.zero_add] at hlen
  have himp : f.imports.any (importBad done) = false :=
    (importBad_all done hd f.imports).mpr (by rw [hlen]; exact h2)
  have hout : fileOutcome fs done f = .errs (e :: rest.filter (fun e => !e.isPanic)) := by
    unfold fileOutcome
    simp only [h1, Bool.false_eq_true, if_false, himp, h3, hlen, he]
    simp [hp, List.filter]
  unfold validate outcomes
  rw [← hfs] at heq
  rw [heq]
  simp only [outcomesAux]
  obtain ⟨more, hm⟩ := hprefix post (done ++ [fileOutcome fs done f])
  rw [hm, List.append_assoc, hverd done _ hd, hout]
  rfl

/-! ## (d) agreement with the reference -/

theorem refAccepts_iff (fs : Files) :
    refAccepts fs = true ↔ ∀ i f, fs[i]? = some f → NoneViolated (fileRules false fs i f) := by
  unfold refAccepts setViolations
  simp only [List.isEmpty_iff, List.flatMap_eq_nil_iff, violated_nil_iff]
  constructor
  · intro h i f hf
    exact h (f, i) (List.mem_zipIdx_iff_getElem?.mpr hf)
  · intro h p hp
    exact h p.2 p.1 (List.mem_zipIdx_iff_getElem?.mp hp)

theorem protocAccepts_iff (fs : Files) :
    protocAccepts fs = true ↔ ∀ i f, fs[i]? = some f → NoneViolated (fileRules true fs i f) := by
  unfold protocAccepts setViolations
  simp only [List.isEmpty_iff, List.flatMap_eq_nil_iff, violated_nil_iff]
  constructor
  · intro h i f hf
    exact h (f, i) (List.mem_zipIdx_iff_getElem?.mpr hf)
  · intro h p hp
    exact h p.2 p.1 (List.mem_zipIdx_iff_getElem?.mp hp)

/-- per file: the model lets a file through iff no reference rule is violated in it -/
theorem file_agrees (fs : Files) (i : Nat) (f : File) (hyp : FileHyp fs i f) :
    FileGood fs i f ↔ NoneViolated (fileRules false fs i f) := fileGood_iff fs i f hyp

/-- C01 for the option-dependent rules, as far as it holds: on every well-formed file set without
    edition-2024 files, compilation succeeds exactly when the reference — protoc's rules plus the
    two divergences the project documents — accepts. -/
theorem C01V_partial (fs : Files) (hw : wellFormed fs = true) (h24 : ∀ f ∈ fs, f.syn ≠ .ed2024) :
    accepts fs = true ↔ refAccepts fs = true := by
  unfold accepts
  rw [beq_iff_eq, validate_ok_iff, refAccepts_iff]
  constructor
  · intro h i f hf
    exact (fileGood_iff fs i f (fileHyp_of_wellFormed fs hw h24 i f hf)).mp (h i f hf)
  · intro h i f hf
    exact (fileGood_iff fs i f (fileHyp_of_wellFormed fs hw h24 i f hf)).mpr (h i f hf)

/-- the reference is protoc made stricter: whatever it accepts, protoc accepts -/
theorem refAccepts_imp_protocAccepts (fs : Files) (h : refAccepts fs = true) : protocAccepts fs = true := by
  rw [refAccepts_iff] at h
  rw [protocAccepts_iff]
  intro i f hf
  have hr := h i f hf
  unfold fileRules at hr ⊢
  simp only [noneViolated_append, noneViolated_flatMap] at hr ⊢
  obtain ⟨⟨⟨⟨⟨h1, h2⟩, h3⟩, h4⟩, h5⟩, h6⟩ := hr
  refine ⟨⟨⟨⟨⟨h1, h2⟩, h3⟩, h4⟩, ?_⟩, ?_⟩
  · intro m hm r hr'
    have := h5 m hm r hr'
    unfold rangeRules at this ⊢
    by_cases hne : r.2.decls.isEmpty = true
    · simp [hne, NoneViolated]
    · simp only [hne, Bool.false_eq_true, if_false, Bool.not_false, Bool.not_true, noneViolated_append,
        noneViolated_flatMap] at this ⊢
      refine ⟨this.1, fun d hd => ?_⟩
      have hd' := this.2 d hd
      unfold NoneViolated declRules at hd' ⊢
      simp only [List.mem_cons, List.not_mem_nil, or_false, forall_eq_or_imp, forall_eq] at hd' ⊢
      refine ⟨hd'.1, hd'.2.1, hd'.2.2.1, hd'.2.2.2.1, ?_⟩
      have h7 := hd'.2.2.2.2
      cases hty : d.type with
      | none => simp
      | some t =>
        rw [hty] at h7
        by_cases hdot : hasDotPrefix t = true
        · simp [hdot]
        · simpa [hdot] using h7
  · unfold NoneViolated at h6 ⊢
    simp only [List.mem_cons, List.not_mem_nil, or_false, forall_eq, Bool.false_eq_true, if_false, if_true] at h6 ⊢
    rw [nameClash_false_iff] at h6
    rw [List.any_eq_false]
    intro p hp
    rw [Bool.not_eq_true, nameClash_false_iff]
    intro a ha b hb hab
    have hsub : ∀ o ∈ msgDeclOccs i p.2 p.1, o ∈ fileDeclOccs i f := by
      intro o ho
      unfold fileDeclOccs
      exact List.mem_flatMap.mpr ⟨p, hp, ho⟩
    exact h6 a (hsub a ha) b (hsub b hb) hab

/-- in particular: on well-formed sets the compiler never accepts what protoc rejects -/
theorem accepts_only_what_protoc_accepts (fs : Files) (hw : wellFormed fs = true)
    (h24 : ∀ f ∈ fs, f.syn ≠ .ed2024) (h : accepts fs = true) : protocAccepts fs = true :=
  refAccepts_imp_protocAccepts fs ((C01V_partial fs hw h24).mp h)

/-- the full statement: agreement with protoc ALONE -/
def C01V_full : Prop :=
  ∀ fs : Files, wellFormed fs = true → (∀ f ∈ fs, f.syn ≠ .ed2024) → (accepts fs = true ↔ protocAccepts fs = true)

/-- `message M0 { extensions 4 to 8 [declaration = { number: 5 full_name: ".p0.x0" type: ".1bad" }]; }`:
    protoc accepts the malformed type name, the compiler rejects it (documented divergence,
    linker_test.go failure_extension_declaration_with_invalid_type) -/
def witnessType : Files :=
  [{ syn := .proto2, msgs := [{ stmts := [{ spans := [⟨4, 8⟩], decls := [{ number := some 5, fullName := some ".p0.x0".toList, type := some ".1bad".toList }] }] }] }]

def declY : Decl := { number := some 5, fullName := some ".p0.y".toList, type := some "int32".toList }

/-- the same extension name declared by two messages of one file: fine for protoc, a symbol-table
    clash for the compiler (documented divergence, failure_extension_declared_multiple_times_across_files) -/
def witnessName : Files :=
  [{ syn := .proto2, msgs := [{ stmts := [{ spans := [⟨4, 8⟩], decls := [declY] }] }, { stmts := [{ spans := [⟨4, 8⟩], decls := [declY] }] }] }]

theorem witnessType_facts :
    wellFormed witnessType = true ∧ validate witnessType = .err .declTypeInvalid ∧
    refAccepts witnessType = false ∧ protocAccepts witnessType = true := by decide +kernel

theorem witnessName_facts :
    wellFormed witnessName = true ∧ validate witnessName = .err .declNameDup ∧
    refAccepts witnessName = false ∧ protocAccepts witnessName = true := by decide +kernel

/-- without the two documented divergences the statement is false -/
theorem C01V_full_refuted : ¬ C01V_full := by
  intro h
  have := h witnessType witnessType_facts.1 (by decide)
  have hacc : accepts witnessType = false := by
    unfold accepts; rw [witnessType_facts.2.1]; decide
  rw [hacc, witnessType_facts.2.2.2] at this
  exact absurd (this.mpr rfl) (by decide)

/-! ## (e) non-vacuity: concrete sets on which the rules fire and on which they are silent -/

/-- `message M0 { optional string f0 = 1 [lazy = true, jstype = JS_STRING]; }` -/
example : validate [{ syn := .proto2, msgs := [{ fields := [{ label := .optional, ty := .scalar .string, opts := { lazy := some true, jstype := some .string } }] }] }] = .err .lazyNonMessage := by decide +kernel

/-- edition file with `features.message_encoding = DELIMITED`: a lazy MESSAGE field is rejected,
    with LENGTH_PREFIXED on the field it is accepted -/
example : validate [{ syn := .ed2023, msgEnc := some .delimited, msgs := [{ fields := [{ label := .none, ty := .message ⟨0, 0⟩, opts := { lazy := some true } }] }] }] = .err .lazyNonMessage := by decide +kernel
example : validate [{ syn := .ed2023, msgEnc := some .delimited, msgs := [{ fields := [{ label := .none, ty := .message ⟨0, 0⟩, opts := { lazy := some true, msgEnc := some .lengthPrefixed } }] }] }] = .ok := by decide +kernel

/-- a non-lite file importing a LITE_RUNTIME file; the reverse is fine -/
example : validate [{ syn := .proto2, optFor := some .lite }, { syn := .proto3, imports := [0] }] = .err .liteImport := by decide +kernel
example : validate [{ syn := .proto2 }, { syn := .proto3, optFor := some .lite, imports := [0] }] = .ok := by decide +kernel

/-- message set: a scalar extension is rejected, an optional message extension beyond FieldMax accepted -/
example : validate [{ syn := .proto2, msgs := [{ msgSet := some true, stmts := [{ spans := [⟨4, messageSetMax⟩] }] }], exts := [{ extendee := ⟨0, 0⟩, number := 5, label := .optional, ty := .scalar .int32 }] }] = .err .msgSetScalarExt := by decide +kernel
example : validate [{ syn := .proto2, msgs := [{ msgSet := some true, stmts := [{ spans := [⟨4, messageSetMax⟩] }] }], exts := [{ extendee := ⟨0, 0⟩, number := messageSetMax, label := .optional, ty := .message ⟨0, 0⟩ }] }] = .ok := by decide +kernel

/-- a verified range: the declared extension passes, an undeclared number is rejected, and the
    same undeclared extension written in ANOTHER file makes the compiler panic -/
def declared : Message := { stmts := [{ verification := some .declaration, spans := [⟨4, 8⟩], decls := [{ number := some 5, fullName := some ".p0.x0".toList, type := some "int32".toList }] }] }
example : validate [{ syn := .proto2, msgs := [declared], exts := [{ extendee := ⟨0, 0⟩, number := 5, label := .optional, ty := .scalar .int32 }] }] = .ok := by decide +kernel
example : validate [{ syn := .proto2, msgs := [declared], exts := [{ extendee := ⟨0, 0⟩, number := 6, label := .optional, ty := .scalar .int32 }] }] = .err .extNotDeclared := by decide +kernel
example : validate [{ syn := .proto2, msgs := [declared] }, { syn := .proto2, imports := [0], exts := [{ extendee := ⟨0, 0⟩, number := 6, label := .optional, ty := .scalar .int32 }] }] = .crash := by decide +kernel

/-- the hypotheses of `C01V_partial` are satisfiable by a set that exercises several rules at once -/
example : wellFormed [{ syn := .proto2, optFor := some .lite, enums := [none], msgs := [declared] }, { syn := .ed2023, imports := [0], presence := some .implicit, msgs := [{ fields := [{ label := .none, ty := .enum ⟨0, 0⟩ }, { label := .none, ty := .map .int32 (.scalar .string), opts := { utf8 := some .verify } }] }], exts := [{ extendee := ⟨0, 0⟩, number := 5, label := .none, ty := .scalar .int32 }] }] = true := by decide +kernel

end PCV.Props.C01V

open PCV.Props.C01V in
#print axioms lazy_only_on_messages
open PCV.Props.C01V in
#print axioms unverified_lazy_only_on_messages
open PCV.Props.C01V in
#print axioms jstype_only_on_64bit
open PCV.Props.C01V in
#print axioms default_needs_presence
open PCV.Props.C01V in
#print axioms closed_enum_needs_presence
open PCV.Props.C01V in
#print axioms hasPresence_iff
open PCV.Props.C01V in
#print axioms packed_non_repeated
open PCV.Props.C01V in
#print axioms packed_without_label_panics
open PCV.Props.C01V in
#print axioms packed_non_packable
open PCV.Props.C01V in
#print axioms presence_feature_placement
open PCV.Props.C01V in
#print axioms repeated_field_encoding_placement
open PCV.Props.C01V in
#print axioms utf8_validation_placement
open PCV.Props.C01V in
#print axioms message_encoding_placement
open PCV.Props.C01V in
#print axioms lite_import_rule
open PCV.Props.C01V in
#print axioms file_feature_rules
open PCV.Props.C01V in
#print axioms message_set_extension_rules
open PCV.Props.C01V in
#print axioms lite_extension_rule
open PCV.Props.C01V in
#print axioms declaration_match_rules
open PCV.Props.C01V in
#print axioms undeclared_extension
open PCV.Props.C01V in
#print axioms packedEditions_dead
open PCV.Props.C01V in
#print axioms ctype2024_dead
open PCV.Props.C01V in
#print axioms extTagTooHigh_dead
open PCV.Props.C01V in
#print axioms validate_ok_iff
open PCV.Props.C01V in
#print axioms fileErrs_nil_iff
open PCV.Props.C01V in
#print axioms declared_names_table_exact
open PCV.Props.C01V in
#print axioms declared_numbers_exact
open PCV.Props.C01V in
#print axioms first_error
open PCV.Props.C01V in
#print axioms file_agrees
open PCV.Props.C01V in
#print axioms C01V_partial
open PCV.Props.C01V in
#print axioms refAccepts_imp_protocAccepts
open PCV.Props.C01V in
#print axioms accepts_only_what_protoc_accepts
open PCV.Props.C01V in
#print axioms C01V_full_refuted
