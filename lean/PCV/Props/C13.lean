/-
C13 — Line and column positions are correct.

"For any file and any offset, the reported line is one plus the number of newlines before that
offset. The reported column is one plus the number of characters since the line start, with a
tab advancing to the next multiple of eight. Every node's span starts no later than it ends."

Model: `FileInfo.sourcePos` (ast/file_info.go SourcePos) on the line table built by the lexer
model `Lex.lexAll` (parser/lexer.go maybeNewLine / AddLine). Specification: `Spec.Lex.specLine`,
`Spec.Lex.specCol` (characters = UTF-8 sequences).

* `C13_position_formula`: on a line table that is complete up to `p`, for every offset ≤ p the
  result is exactly (specLine, specCol).
* `lex_lines_complete`: for EVERY byte string and either reporter the table the lexer builds is
  complete for everything it has scanned (invariant of the whole lexer, `Lemmas.LexInv`).
* `C13_full`: hence for every file, every reporter and every scanned offset (all of them once the
  EOF token exists, `lex_eof_scanned_all`) `SourcePos` is the specified line and column.
* `span_start_le_end`, `item_span_start_le_end`: spans start no later than they end, on any table.

History: on the tree before /repo commit bf5e1388 the full statement was refuted by this machinery
(witness `"` + newline: `readStringLiteral` consumed a newline without `AddLine`, so with a reporter
that lets lexing continue every later position was one line short; the model then had
`sourcePos (lexAll true [0x22, 0x0A]).fi 2 = some (1, 3)`). The fix calls `maybeNewLine` for every
rune consumed inside a string literal; the model mirrors it (`Lex.advNL`).
-/
import PCV.Model.Lex
import PCV.Spec.Lex
import PCV.Lemmas.Pos
import PCV.Lemmas.LexInv
namespace PCV.Props.C13
open PCV.Lex PCV.FileInfo PCV.Spec.Lex PCV.Lemmas.Pos PCV.Lemmas.LexInv

/-- **Position formula.** On a line table complete up to `p` (`LinesUpTo`), `SourcePos(off)` for
    `off ≤ p` is (1 + newlines before `off`, 1 + characters since the line start with tabs to the
    next multiple of 8) whenever the line prefix is well-formed UTF-8 (`specCol` defined). -/
theorem C13_position_formula (fi : FI) (p off c : Nat) (hl : LinesUpTo fi p) (hop : off ≤ p)
    (hp : p ≤ fi.data.length) (hc : specCol fi.data off = some c) :
    sourcePos fi (off : Int) = some (specLine fi.data off, c) :=
  sourcePos_correct fi p off c hl hop hp hc

/-- The line is right even where the text is not well-formed UTF-8; the column is then the byte
    fold of `SourcePos` (one per UTF-8 start byte, tab to the next multiple of 8). -/
theorem C13_line_formula (fi : FI) (p off : Nat) (hl : LinesUpTo fi p) (hop : off ≤ p)
    (hp : p ≤ fi.data.length) :
    ∃ c, sourcePos fi (off : Int) = some (specLine fi.data off, c) :=
  ⟨_, sourcePos_fold fi p off hl hop hp⟩

/-- **`lines_spec`.** Whatever the input and the reporter, the lexer's line table is
    `0 :: [i+1 | data[i] = '\n', i < pos]`: complete for everything scanned so far. -/
theorem lex_lines_complete (lenient : Bool) (bs : List UInt8) :
    LinesUpTo (lexAll lenient bs).fi (lexAll lenient bs).pos ∧
    (lexAll lenient bs).pos ≤ (lexAll lenient bs).fi.data.length ∧
    (lexAll lenient bs).fi.data = stripBOM bs := by
  obtain ⟨⟨rs, hc⟩, _, _⟩ := lexAll_final lenient bs
  refine ⟨?_, ?_, hc.hdata⟩
  · rw [LinesUpTo, hc.hdata]; exact hc.lines_eq
  · rw [hc.hdata]; exact hc.pos_le

/-- **C13 (full statement).** For every file, either reporter, and every offset the lexer has
    scanned, `SourcePos` is exactly the specified line and column. -/
theorem C13_full (lenient : Bool) (bs : List UInt8) (off c : Nat)
    (hoff : off ≤ (lexAll lenient bs).pos)
    (hc : specCol (stripBOM bs) off = some c) :
    sourcePos (lexAll lenient bs).fi (off : Int) = some (specLine (stripBOM bs) off, c) := by
  obtain ⟨hl, hp, hd⟩ := lex_lines_complete lenient bs
  have := C13_position_formula (lexAll lenient bs).fi _ off c hl hoff hp (by rw [hd]; exact hc)
  rw [hd] at this
  exact this

/-- the line clause without any assumption on the encoding of the text -/
theorem C13_full_line (lenient : Bool) (bs : List UInt8) (off : Nat)
    (hoff : off ≤ (lexAll lenient bs).pos) :
    ∃ c, sourcePos (lexAll lenient bs).fi (off : Int) = some (specLine (stripBOM bs) off, c) := by
  obtain ⟨hl, hp, hd⟩ := lex_lines_complete lenient bs
  have := C13_line_formula (lexAll lenient bs).fi _ off hl hoff hp
  rw [hd] at this
  exact this

/-- when the lexer produced the EOF token it has scanned the whole file -/
theorem lex_eof_scanned_all (lenient : Bool) (bs : List UInt8) (k : Nat)
    (heof : (lexAll lenient bs).eof = some k) :
    (lexAll lenient bs).pos = (stripBOM bs).length := by
  obtain ⟨_, _, he⟩ := lexAll_final lenient bs
  rcases he with he | he
  · rw [he] at heof; cases heof
  · exact he.1

/-- **Spans.** `SourcePos` is monotone, so any span built from two offsets in order starts no later
    than it ends (lexicographically on line, column) — on any line table. -/
theorem span_start_le_end (fi : FI) (o1 o2 l1 c1 l2 c2 : Nat) (h : o1 ≤ o2)
    (h1 : sourcePos fi (o1 : Int) = some (l1, c1)) (h2 : sourcePos fi (o2 : Int) = some (l2, c2)) :
    l1 < l2 ∨ (l1 = l2 ∧ c1 ≤ c2) :=
  sourcePos_mono fi o1 o2 l1 c1 l2 c2 h h1 h2

/-- `NodeInfo.Start()` / `NodeInfo.End()` of the node spanning items `s … e`, when item `s` starts
    no later than item `e` (items are in order by `AddToken`'s check): offset, line and column of
    the start are no later than those of the end. -/
theorem item_span_start_le_end (fi : FI) (s e : Nat) (is ie : Item)
    (hs : fi.items[s]? = some is) (he : fi.items[e]? = some ie) (hord : is.off ≤ ie.off)
    (so sl sc eo el ec : Nat)
    (h1 : nodeStart fi s = some (so, sl, sc)) (h2 : nodeEnd fi e = some (eo, el, ec)) :
    so ≤ eo ∧ (sl < el ∨ (sl = el ∧ sc ≤ ec)) := by
  simp only [nodeStart, hs, Option.map_eq_some_iff] at h1
  simp only [nodeEnd, he, Option.map_eq_some_iff] at h2
  obtain ⟨⟨l1, c1⟩, hp1, heq1⟩ := h1
  obtain ⟨⟨l2, c2⟩, hp2, heq2⟩ := h2
  simp only [Prod.mk.injEq] at heq1 heq2
  obtain ⟨rfl, rfl, rfl⟩ := heq1
  obtain ⟨rfl, rfl, rfl⟩ := heq2
  by_cases hlen : ie.len > 0
  · simp only [hlen, if_true] at hp2 ⊢
    have hle : is.off ≤ ie.off + ie.len - 1 := by omega
    have := sourcePos_mono fi is.off (ie.off + ie.len - 1) l1 c1 l2 c2 hle hp1 hp2
    refine ⟨hle, ?_⟩
    rcases this with h | ⟨h, h'⟩
    · exact Or.inl h
    · exact Or.inr ⟨h, by omega⟩
  · simp only [hlen, if_false] at hp2 ⊢
    have := sourcePos_mono fi is.off ie.off l1 c1 l2 c2 hord hp1 hp2
    exact ⟨hord, this⟩

-- non-vacuity: a<TAB>"é"<CR><LF>/* x<LF>*/ b  (tab, multi-byte character, CRLF, block comment)
def sample : List UInt8 :=
  [0x61, 9, 0x22, 0xC3, 0xA9, 0x22, 13, 10, 0x2F, 0x2A, 0x20, 0x78, 10, 0x2A, 0x2F, 0x20, 0x62]
example : (lexAll true sample).pos = 17 := by decide
example : sourcePos (lexAll true sample).fi 17 = some (3, 5) := by decide
example : specCol sample 6 = some 12 ∧ specLine sample 17 = 3 ∧ specCol sample 17 = some 5 := by decide
-- the former counterexample: `"` newline `$` with a reporter that continues; `$` is at 2:1
example : sourcePos (lexAll true [0x22, 0x0A, 0x24]).fi 2 = some (2, 1) := by decide

end PCV.Props.C13

#print axioms PCV.Props.C13.C13_position_formula
#print axioms PCV.Props.C13.C13_line_formula
#print axioms PCV.Props.C13.lex_lines_complete
#print axioms PCV.Props.C13.C13_full
#print axioms PCV.Props.C13.C13_full_line
#print axioms PCV.Props.C13.lex_eof_scanned_all
#print axioms PCV.Props.C13.span_start_le_end
#print axioms PCV.Props.C13.item_span_start_le_end
