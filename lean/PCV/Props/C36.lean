/-
C36 — Diagnostics are deterministic.

* `PCV.Props.C36C` (namespace `PCV.Props.C36`): the `Report.Canonicalize` clauses — idempotence,
  order independence when the sort key separates the diagnostics, order independence up to key
  ties unconditionally, and the refutation of the full statement (`C36_full_refuted`).
* `PCV.Props.C36E`: the executor clause — the diagnostic collection walk of `incremental.Run`
  gathers exactly the diagnostics of the tasks reachable from the requested queries, each
  once, terminates on every finite graph, and the gathered list is the same up to permutation
  for every `sync.Map.Range` order and every request order; with the Canonicalize theorems the
  report is schedule independent (under the same key-separation hypothesis, refuted without).
-/
import PCV.Props.C36C
import PCV.Props.C36E

#print axioms PCV.Props.C36.isort_isSorter
#print axioms PCV.Props.C36.isort_fixesSorted
#print axioms PCV.Props.C36.canon_perm_invariant_partial
#print axioms PCV.Props.C36.canonicalize_perm_invariant_partial
#print axioms PCV.Props.C36.canon_idempotent_with
#print axioms PCV.Props.C36.cmpKey_eq_iff
#print axioms PCV.Props.C36.sort_keys_invariant
#print axioms PCV.Props.C36.canon_keys_invariant_keep
#print axioms PCV.Props.C36.canon_idempotent
#print axioms PCV.Props.C36.canon_sorted_sublist
#print axioms PCV.Props.C36.dedupF_drops_only_duplicates
#print axioms PCV.Props.C36.C36_full_refuted
#print axioms PCV.Props.C36.witness_count_dependent
#print axioms PCV.Props.C36.idempotence_needs_valid_levels
#print axioms PCV.Props.C36.C36_idempotence_clause
#print axioms PCV.Props.C36.C36_order_clause_partial
#print axioms PCV.Props.C36E.collect_spec
#print axioms PCV.Props.C36E.collect_perm
#print axioms PCV.Props.C36E.collect_terminates
#print axioms PCV.Props.C36E.report_independent_of_schedule_partial
#print axioms PCV.Props.C36E.report_keys_independent_of_schedule
#print axioms PCV.Props.C36E.C36_executor_full_refuted
