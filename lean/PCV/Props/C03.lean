/-
C03 — Source code info matches protoc.

"With standard source info enabled, the source code info of every compiled file has the same
locations, spans and comments, in the same order, as protoc's. The only allowed differences are the
protoc bugs that the project's own tests already correct for."

protoc is not available in the sandbox (DESIGN.md 3.4).  What stands in for it:

* `PCV.Spec.SourceInfo.protocRef` — a transcription of protoc's `Tokenizer::NextWithComments` /
  `CommentCollector` on the stream of comments between two tokens, each branch labelled with a clause;
* calibration on every run (`calib` ops of the `comments` engine): for the three files of
  /repo/internal/testdata/source_info.protoset (protoc's own output, with the two corrections that
  sourceinfo/source_code_info_test.go applies: default_value span, duplicate json_name location)
  (a) the compiler's standard-mode locations equal protoc's — paths, order, spans, comments — and
  (b) the reference, applied to the token gaps around every declaration, reproduces protoc's leading,
  trailing and detached comments; the clauses exercised there (`calibratedClauses`, re-derived and
  compared on every run by `calib-summary`) and those documented in descriptor.proto are the ANCHORED
  region.  Outside it the oracle makes no claim.
* the oracle of `pairs` ops: on generated sources (every shape of up to 3 comments × same line / next
  line / blank line, between every kind of declaration boundary; random files with random trivia) the
  real `attributeComments` (through the verif hook) must give, for every gap a location reports, what
  the reference gives, whenever the reference's decision uses anchored clauses only.

Proved here (model `PCV.SourceInfo`, all inputs):

* `span_encoding`            `makeSpan`: three elements iff start and end line coincide, zero-based.
* `stream_partition`, `comment_partition`  every comment between two tokens is attributed exactly once
                             and in order (lexer step `lexSplit` included): trailing of the previous
                             token ++ detached groups ++ leading of the next.
* `same_line_line_comment_is_trailing`, `ambiguous_block_comment_is_detached`  two documented rules, for
                             every stream / every line numbering.
* `detached_groups_nonempty`, `attributed_runs_are_consecutive` the pieces are runs of consecutive comments.
* `combine_spec`             `combineComments` = the documented stripping (`stripComment`): `//` and
                             `/* */` removed; on every line of a block comment but the first, leading
                             blanks and one `*` removed; newlines kept.
* `group_spec`               `groupComments` starts a new group exactly at a block comment, at a change of
                             style, or after a blank line.
* `locations_order_and_paths` (from C23's development) the location list — paths and spans, in order — is
                             a function of the AST walk alone, the same in all modes.

Only checked by correspondence / calibration (not proved): that the model's attribution equals
`protocRef` on the anchored region (0 differences on all generated gaps), and the order of locations
against protoc (three calibration files).

Divergences seen outside the anchored region (no claim, reported): a file that starts with a single
comment on the line of its first token (the reconstruction says protoc detaches it, the compiler makes
it the leading comment); `maybeDonate` treats `,` and `;` as closing symbols, protoc only `}` `]` `)`;
enum `reserved` identifiers (editions) get no locations.
-/
import PCV.Model.SourceInfo
import PCV.Spec.SourceInfo
import PCV.Lemmas.SourceInfo
import PCV.Lemmas.SourceInfoComments
import PCV.Lemmas.SourceInfoSpans
set_option linter.unusedSimpArgs false
namespace PCV.Props.C03
open PCV.SourceInfo PCV.FileInfo
open PCV.Lemmas.SourceInfo PCV.Lemmas.SourceInfoComments PCV.Lemmas.SourceInfoSpans
open PCV.Spec.SourceInfo (stripComment)

/-- **Span encoding.** Three elements (line, start column, end column) iff start and end are on the
    same line, four otherwise; every element is the one-based position minus one. -/
theorem span_encoding (s e : Nat × Nat) :
    ((makeSpan s e).length = 3 ↔ s.1 = e.1) ∧ ((makeSpan s e).length = 4 ↔ s.1 ≠ e.1) ∧
    (s.1 = e.1 → makeSpan s e = [(s.1 : Int) - 1, (s.2 : Int) - 1, (e.2 : Int) - 1]) ∧
    (s.1 ≠ e.1 → makeSpan s e = [(s.1 : Int) - 1, (s.2 : Int) - 1, (e.1 : Int) - 1, (e.2 : Int) - 1]) :=
  ⟨(makeSpan_length s e).1, (makeSpan_length s e).2, (makeSpan_encoding s e).1, (makeSpan_encoding s e).2⟩

/-- **Comment partition.** Whatever the lexer attributed to the previous token (`prev`, none at the
    start of the file) and to the next one (`leadLex`), `attributeComments` hands out every comment
    exactly once and in source order. -/
theorem comment_partition (ec : Bool) (prev : Option (Nat × List Cm)) (nStart : Nat) (tk : TK) (leadLex : List Cm) :
    (attributeAbs ec prev nStart tk leadLex).1 ++ (attributeAbs ec prev nStart tk leadLex).2.1.flatten
      ++ (attributeAbs ec prev nStart tk leadLex).2.2 = ((prev.map (·.2)).getD []) ++ leadLex :=
  attributeAbs_partition ec prev nStart tk leadLex

theorem lexSplit_partition (prev : Option Nat) (cs : List Cm) (nStart : Nat) (isEOF : Bool) :
    (lexSplit prev cs nStart isEOF).1 ++ (lexSplit prev cs nStart isEOF).2 = cs := by
  unfold lexSplit
  cases prev with
  | none => simp
  | some p =>
    cases cs with
    | nil => simp
    | cons c rest => simp only; split <;> (split <;> simp)

/-- **Comment partition, lexer included.** For the comments `cs` standing between two tokens, the
    lexer's split (`setPrevAndAddComments`) followed by `attributeComments` gives every comment to
    exactly one of: trailing of the previous token, a detached group, leading of the next token — in
    source order, none dropped, none duplicated. -/
theorem stream_partition (ec : Bool) (prev : Option Nat) (cs : List Cm) (nStart : Nat) (tk : TK) :
    (attributeStream ec prev cs nStart tk).1 ++ (attributeStream ec prev cs nStart tk).2.1.flatten
      ++ (attributeStream ec prev cs nStart tk).2.2 = cs := by
  unfold attributeStream
  simp only
  rw [attributeAbs_partition]
  cases prev with
  | none =>
    simp only [Option.map_none, Option.getD_none, List.nil_append]
    simp [lexSplit]
  | some p =>
    simp only [Option.map_some, Option.getD_some]
    exact lexSplit_partition (some p) cs nStart _

/-- **Documented rule: "optional int32 foo = 1;  // Comment attached to foo."** A `//` comment that
    starts on the line of the previous token is that token's trailing comment, whatever follows. -/
theorem same_line_line_comment_is_trailing (ec : Bool) (p nStart : Nat) (c : Cm) (rest : List Cm) (tk : TK)
    (hl : c.isLine = true) (hs : c.sl = p) (hn : p < nStart) :
    (attributeStream ec (some p) (c :: rest) nStart tk).1 = [c] := by
  have hne : ¬ (nStart = p ∧ tk = TK.eof) := by intro h; omega
  simp [attributeStream, lexSplit, attributeAbs, hl, hs, hne, hn]

/-- **Documented rule (ast/file_info.go, "fizz /* … */ buzz"; protoc ≥ 22):** a lone block comment that
    starts on the line of the previous token and ends on the line of the next one belongs to neither:
    it is detached. -/
theorem ambiguous_block_comment_is_detached (p nStart : Nat) (c : Cm) (hb : c.isLine = false)
    (hs : c.sl = p) (he : c.el = nStart) :
    attributeStream false (some p) [c] nStart .other = ([], [[c]], []) := by
  have h1 : ¬ (nStart > c.el) := by omega
  have h2 : ¬ (c.sl > c.sl + 1) := by omega
  have h3 : ¬ (c.el < c.el - 1) := by omega
  subst hs he
  simp [attributeStream, lexSplit, attributeAbs, hb, groupComments, groupGo, maybeDonate, maybeAttach,
    firstSl, lastEl, h2, h3]

theorem detached_groups_nonempty (ec : Bool) (prev : Option (Nat × List Cm)) (nStart : Nat) (tk : TK)
    (leadLex : List Cm) : ∀ g ∈ (attributeAbs ec prev nStart tk leadLex).2.1, g ≠ [] :=
  attributeAbs_detached_nonempty ec prev nStart tk leadLex

theorem mem_infix_flatten {α} (g : List α) (l : List (List α)) (h : g ∈ l) : g <:+: l.flatten := by
  obtain ⟨a, b, rfl⟩ := List.append_of_mem h
  exact ⟨a.flatten, b.flatten, by simp⟩

/-- every attributed piece (trailing, each detached group, leading) is a run of consecutive comments
    of the gap -/
theorem attributed_runs_are_consecutive (ec : Bool) (prev : Option (Nat × List Cm)) (nStart : Nat) (tk : TK)
    (leadLex : List Cm) :
    let all := ((prev.map (·.2)).getD []) ++ leadLex
    let a := attributeAbs ec prev nStart tk leadLex
    a.1 <:+: all ∧ a.2.2 <:+: all ∧ ∀ g ∈ a.2.1, g <:+: all := by
  intro all a
  have hp : a.1 ++ a.2.1.flatten ++ a.2.2 = all := attributeAbs_partition ec prev nStart tk leadLex
  refine ⟨⟨[], a.2.1.flatten ++ a.2.2, by simp [← hp]⟩, ⟨a.1 ++ a.2.1.flatten, [], by simp [← hp]⟩, ?_⟩
  intro g hg
  obtain ⟨x, y, hxy⟩ := mem_infix_flatten g a.2.1 hg
  exact ⟨a.1 ++ x, y ++ a.2.2, by rw [← hp, ← hxy]; simp⟩

/-- **`combineComments` is the documented stripping.** -/
theorem combine_spec (fi : FI) (cs : List Cm) :
    combine fi cs = cs.flatMap (fun c => stripComment (rawText fi c.item) (nlFollows fi c.item)) := by
  unfold combine combineOne
  congr 1
  funext c
  exact combineText_spec _ _

/-- **Grouping.** The comments of a group other than its first are `//` comments that follow a `//`
    comment with no blank line in between: a new group starts exactly at a block comment, at a change
    of style, or after a blank line. -/
theorem group_spec (cur : List Cm) (p : Bool) (line : Nat) (c : Cm) (rest : List Cm) :
    groupGo cur p line (c :: rest) =
      if c.isLine = true ∧ p = true ∧ c.sl ≤ line + 1 then groupGo (cur ++ [c]) true c.el rest
      else cur :: groupGo [c] c.isLine c.el rest := by
  simp only [groupGo]
  cases hc : c.isLine <;> cases p <;> simp [hc]
  by_cases h : c.sl ≤ line + 1
  · have h' : ¬ (line + 1 < c.sl) := by omega
    simp [h, h']
  · have h' : line + 1 < c.sl := by omega
    simp [h, h']

/-- the location list without comments is the same in every mode and fixed by the walk -/
theorem locations_order_and_paths (fi : FI) (ec : Bool) (f : File) :
    (generate fi ec false f).map (fun l => (l.path, l.span)) =
      (genFile false f).map (fun r => (r.path, reqSpan fi r)) :=
  realize_path_span fi ec (genFile false f) []

/-! ### non-vacuity: the documented examples of descriptor.proto, on the model -/

def ln (i l : Nat) : Cm := ⟨i, true, l, l⟩
def bl (i s e : Nat) : Cm := ⟨i, false, s, e⟩

-- `optional int32 foo = 1;  // Comment attached to foo.` (the lexer gives it to the previous token)
example : attributeAbs false (some (1, [ln 0 1])) 3 .other [ln 1 2] = ([ln 0 1], [], [ln 1 2]) := by decide
-- `baz = 3;` / two comment lines / blank line / …: trailing for baz
example : (attributeAbs false (some (5, [])) 11 .other [ln 0 6, ln 1 7, ln 2 9, ln 3 10]).1 = [ln 0 6, ln 1 7] := by
  decide
-- detached paragraphs, then a block comment attached to the next element
example : attributeAbs false (some (1, [ln 0 1])) 8 .other [ln 1 3, ln 2 5, bl 3 7 7] =
    ([ln 0 1], [[ln 1 3], [ln 2 5]], [bl 3 7 7]) := by decide
-- the ambiguous single comment between two tokens on one line stays detached (protoc ≥ 22)
example : attributeAbs false (some (1, [])) 1 .other [bl 0 1 1] = ([], [[bl 0 1 1]], []) := by decide

end PCV.Props.C03

#print axioms PCV.Props.C03.span_encoding
#print axioms PCV.Props.C03.comment_partition
#print axioms PCV.Props.C03.stream_partition
#print axioms PCV.Props.C03.same_line_line_comment_is_trailing
#print axioms PCV.Props.C03.ambiguous_block_comment_is_detached
#print axioms PCV.Props.C03.detached_groups_nonempty
#print axioms PCV.Props.C03.attributed_runs_are_consecutive
#print axioms PCV.Props.C03.combine_spec
#print axioms PCV.Props.C03.group_spec
#print axioms PCV.Props.C03.locations_order_and_paths
