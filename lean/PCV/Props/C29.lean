/-
C29 — Lexer tokens tile the input.

"For any source text, the experimental lexer's tokens are contiguous and cover the whole input
with no gaps or overlaps. Concatenating their text reproduces the input exactly, and bracket
tokens are matched or reported as errors."

Model: PCV.Model.TokenStream (stream = cumulative ends, push/flush accounting, bracket stack
machine) and PCV.Model.XLexer (the lexer main loop, byte for byte), mirroring /repo after the fixes
d839c04c (lone backslash at EOF no longer panics) and cb845bb5 (`flushUnrecognized` after the loop).

* `stream_tiles` / `stream_contiguous`: ANY stream built by pushes is contiguous, without gaps or
  overlaps, and its texts concatenate to `text[0 : lastEnd]` (by construction of the ends).
* `accounting_covers`: for EVERY input (and every Unicode class table) that the prelude lets
  through, the run completes and the stream ends exactly at `len(text)`.
* `C29_tiles`: for every such input the tokens are contiguous, cover the whole input and concatenate
  to it; `C29_tiles_input` states the hypothesis on the input alone (empty, or valid UTF-8 that does
  not trip the UTF-16 heuristics); `tiles_iff`: the tokens tile the input IFF the prelude passes.
* The statement for ALL byte strings, `C29_tiles_full`, is still false: `C29_tiles_refuted` — the
  prelude refuses files that are not UTF-8 (`witness_not_utf8`) or look like UTF-16
  (`witness_utf16_heuristic`: the UTF-8 file `a<NUL>`) with an empty stream. That is the only
  remaining failure (`tiles_iff`).
* `brackets_matched_or_reported` / `lex_brackets_matched_or_reported`: after `fuseBraces`, every
  bracket token is fused with a partner or covered by an "unmatched delimiter" error
  (`fused_pairs_match`: loop pairs have matching kinds).
* documentation of fixed defects: `witness_dropped_tailPrefix` (before cb845bb5 a trailing
  unrecognised byte got no token and no diagnostic), `witness_escape` (`"\` is now one String token).
-/
import PCV.Lemmas.XFuseOk
namespace PCV.Props.C29
open PCV.TokenStream PCV.XLexer

/-! ## the stream layer -/

/-- spans `[a,b)` that start at `p`, each starting where the previous one ended -/
def Contig : Nat → List (Nat × Nat) → Prop
  | _, [] => True
  | p, (a, b) :: r => a = p ∧ a ≤ b ∧ Contig b r

/-- Tokens of a stream built by pushes are contiguous: no gaps, no overlaps, non-negative length. -/
theorem stream_contiguous (prev : Nat) (ts : List Tok) (h : MonoFrom prev ts) :
    Contig prev (spansFrom prev ts) := by
  induction ts generalizing prev with
  | nil => simp [spansFrom, Contig]
  | cons t ts ih =>
    simp only [MonoFrom] at h
    simp only [spansFrom, Contig]
    exact ⟨trivial, h.1, ih _ h.2⟩

/-- **stream_tiles.** For every stream built by pushes (newest-first list `ts` with monotone
    ends), the texts of its tokens concatenate to exactly the first `lastEnd` bytes of the file. -/
theorem stream_tiles (text : Bytes) (ts : List Tok) (h : Mono ts) :
    concatTexts text ts.reverse = text.take (lastEnd ts) := by
  unfold concatTexts
  rw [tiles_from text 0 ts.reverse (mono_reverse ts h), lastIn_reverse]
  simp

/-- every push keeps the stream monotone, whatever the lexer does -/
theorem push_keeps_mono (n : Nat) (s : LS) (len kind kw : Nat) (h : Mono s.toks) :
    Mono (push n s len kind kw).toks := push_mono n s len kind kw h

/-! ## the accounting of the real lexer loop -/

/-- **accounting_covers.** Whenever the prelude lets the file through, the run completes, the
    stream is monotone and ends exactly at `len(text)`: every byte the cursor consumed has been
    pushed, the pending unrecognised bytes included (`flushUnrecognized` after the loop). -/
theorem accounting_covers (E : Env) (hcls : ClsOK E) (hp : (prelude E {}).2 = true) :
    (lex E).status = .done ∧ MonoFrom 0 (lex E).toks ∧ lastIn 0 (lex E).toks = E.n := by
  rcases lex_cases E hcls with ⟨hf, _, _⟩ | ⟨s0, s1, hp', hm, hpost, hlast, hfin, hends, _⟩
  · rw [hf] at hp; cases hp
  · have hd := lex_done_of_prelude E hcls s0 hp'
    have hfb := fuseBraces_post E.n _ hpost
    refine ⟨hd, ?_, ?_⟩
    · rw [monoFrom_congr 0 _ _ hends]
      exact mono_reverse _ hfb.1.mono
    · rw [lastIn_congr 0 _ _ hends, lastIn_reverse]
      by_cases he : (fuseGo (flush E.n s1).braces.reverse [] {} false).2 = []
      · rw [hfb.2.2 he]; exact hlast
      · exact hfb.2.1 he

/-- the state handed to `fuseBraces` has no unrecognised bytes pending -/
theorem nothing_pending (E : Env) (hcls : ClsOK E) (hp : (prelude E {}).2 = true) :
    (lex E).final.bad ≤ 0 := by
  rcases lex_cases E hcls with ⟨hf, _, _⟩ | ⟨s0, s1, hp', hm, hpost, hlast, hfin, _⟩
  · rw [hf] at hp; cases hp
  · rw [hfin]
    have := hpost.eq
    omega

/-- **C29, tiling clause.** For every input that passes the prelude — and every Unicode class
    table with XID_Start ⊆ XID_Continue — the tokens are contiguous (no gaps, no overlaps), cover the
    whole input, and their texts concatenate to the input exactly. -/
theorem C29_tiles (E : Env) (hcls : ClsOK E) (hp : (prelude E {}).2 = true) :
    Contig 0 (spansFrom 0 (lex E).toks) ∧ lastIn 0 (lex E).toks = E.n ∧
    concatTexts E.text (lex E).toks = E.text := by
  obtain ⟨_, hmono, hlast⟩ := accounting_covers E hcls hp
  refine ⟨stream_contiguous 0 _ hmono, hlast, ?_⟩
  unfold concatTexts
  rw [tiles_from E.text 0 _ hmono, hlast]
  simp [Env.n]

/-- the same with the hypothesis on the input alone: the empty file, or valid UTF-8 that does not
    trip the UTF-16 heuristics (BOM `FE FF`/`FF FE`, NUL among the first two bytes) -/
theorem C29_tiles_input (E : Env) (hcls : ClsOK E)
    (hin : E.text = [] ∨ (looksUtf16 E.text = false ∧ V E.text)) :
    Contig 0 (spansFrom 0 (lex E).toks) ∧ lastIn 0 (lex E).toks = E.n ∧
    concatTexts E.text (lex E).toks = E.text :=
  C29_tiles E hcls ((prelude_passes_iff E).mpr hin)

/-- when the prelude refuses a file it has pushed nothing, and the file is not empty -/
theorem prelude_refusal (E : Env) (h : (prelude E {}).2 = false) :
    (prelude E {}).1.toks = [] ∧ E.text ≠ [] := by
  unfold prelude at h ⊢
  simp only at h ⊢
  split
  · next ht => rw [if_pos ht] at h; cases h
  · next ht =>
    rw [if_neg ht] at h
    refine ⟨?_, ht⟩
    split
    · rfl
    · next h16 =>
      rw [if_neg h16] at h
      split
      · next x hs =>
        rw [hs] at h
        simp only at h
        split at h <;> cases h
      · split <;> rfl

/-- **Exact characterisation.** The tokens tile the input iff the prelude lets the file through. -/
theorem tiles_iff (E : Env) (hcls : ClsOK E) :
    concatTexts E.text (lex E).toks = E.text ↔ (prelude E {}).2 = true := by
  constructor
  · intro h
    cases hp : (prelude E {}).2 with
    | true => rfl
    | false =>
      exfalso
      rcases lex_cases E hcls with ⟨_, _, htoks⟩ | ⟨s0, _, hp', _⟩
      · obtain ⟨h1, h2⟩ := prelude_refusal E hp
        rw [htoks, h1] at h
        simp [concatTexts, spansFrom] at h
        exact h2 h
      · rw [hp'] at hp; cases hp
  · intro hp; exact (C29_tiles E hcls hp).2.2

/-! ## the property for all byte strings, its refutation (prelude refusals only) -/

/-- C29, tiling clause, for every byte string (and every class table). -/
def C29_tiles_full : Prop := ∀ E : Env, concatTexts E.text (lex E).toks = E.text

/-- a file that is not UTF-8 is refused by the prelude with an empty stream -/
theorem witness_not_utf8 :
    (lex (envA [0xff])).status = .abort ∧ (lex (envA [0xff])).toks = [] := by
  decide +kernel

/-- valid UTF-8 (and ASCII) `a<NUL>` is refused by the UTF-16 heuristic -/
theorem witness_utf16_heuristic :
    (lex (envA [97, 0])).status = .abort ∧ (lex (envA [97, 0])).toks = [] := by
  decide +kernel

theorem C29_tiles_refuted : ¬ C29_tiles_full := by
  intro h
  have := h (envA [0xff])
  rw [witness_not_utf8.2] at this
  simp [concatTexts, spansFrom, envA] at this

/-- non-vacuity of `C29_tiles_input`: `message M {}\n` satisfies every hypothesis -/
example : concatTexts [109, 101, 115, 115, 97, 103, 101, 32, 77, 32, 123, 125, 10]
    (lex (envA [109, 101, 115, 115, 97, 103, 101, 32, 77, 32, 123, 125, 10])).toks
    = [109, 101, 115, 115, 97, 103, 101, 32, 77, 32, 123, 125, 10] :=
  (C29_tiles_input (envA [109, 101, 115, 115, 97, 103, 101, 32, 77, 32, 123, 125, 10])
    (clsOK_ascii _)
    (Or.inr ⟨by decide, utf8Scan_valid 14 _ 0 0 none (by decide) (by decide +kernel)⟩)).2.2

/-! ### fixed defects (documentation) -/

/-- before cb845bb5 a file consisting of one unrecognised byte (a backquote) got NO token and no
    diagnostic; now it gets one `Unrecognized` token and an "unrecognized token" error -/
theorem witness_dropped_tailPrefix :
    ((lexPrefix (envA [96])).status = .done ∧ (lexPrefix (envA [96])).toks = [] ∧
      (lexPrefix (envA [96])).diags = []) ∧
    ((lex (envA [96])).toks = [{ end_ := 1, kind := kUnrecognized, kw := 0 }] ∧
      (lex (envA [96])).diags = [⟨"unrec", lvError, [(0, 1)]⟩]) := by
  decide +kernel

/-- `"\` (which used to panic, see `C28.strContentPrefix_panics`) is one unterminated String token -/
theorem witness_escape :
    (lex (envA [34, 92])).status = .done ∧
    (lex (envA [34, 92])).toks = [{ end_ := 2, kind := kString, kw := 0 }] := by
  decide +kernel

/-! ## brackets -/

/-- **brackets_matched_or_reported.** After `fuseBraces`, every bracket token pushed by the main
    loop is one end of a fused pair, or its span is annotated in an "unmatched delimiter" error. -/
theorem brackets_matched_or_reported (n : Nat) (s : LS) :
    ∀ t ∈ s.braces,
      (∃ p ∈ (fuseBraces n s).2, p.1 = t.id ∨ p.2 = t.id) ∨
      (∃ d ∈ (fuseBraces n s).1.diags, d.cls = "unm" ∧ d.level = lvError ∧ spanOf t ∈ d.spans) := by
  intro t ht
  unfold fuseBraces
  have hspec := fuseGo_spec s.braces.reverse [] {} false (by simp) (by simp)
  cases hg : fuseGo s.braces.reverse [] {} false with
  | mk acc opens =>
    rw [hg] at hspec
    simp only
    have hfold : ∀ (l : List BItem) (st : LS) (d : Diag), d ∈ st.diags →
        d ∈ (l.foldl (fun st o => addDiag st ⟨"unm", lvError, [spanOf o]⟩) st).diags := by
      intro l
      induction l with
      | nil => intro st d hd; exact hd
      | cons o os ih =>
        intro st d hd
        simp only [List.foldl_cons]
        exact ih _ d (by simp [addDiag, hd])
    have hco := closeOpens_spec n opens
      (opens.reverse.foldl (fun st o => addDiag st ⟨"unm", lvError, [spanOf o]⟩)
        { s with diags := acc.unms.map unmDiag ++ s.diags })
      (acc.pairs.reverse.map (fun x => (x.1.id, x.2.id)))
    rcases hspec.items t (by simpa using ht) with hop | hh
    · left
      obtain ⟨p, hp, hpid⟩ := hco.2.2 t hop
      exact ⟨p, hp, Or.inl hpid⟩
    · rcases hh with ⟨p, hp, hpt⟩ | ⟨u, hu, hut⟩
      · left
        refine ⟨(p.1.id, p.2.id), hco.2.1 _ ?_, ?_⟩
        · simp only [List.mem_map, List.mem_reverse]
          exact ⟨p, hp, rfl⟩
        · rcases hpt with rfl | rfl
          · exact Or.inl rfl
          · exact Or.inr rfl
      · right
        refine ⟨unmDiag u, hco.1 _ (hfold _ _ _ ?_), ?_⟩
        · simp only [List.mem_append, List.mem_map]
          exact Or.inl ⟨u, hu, rfl⟩
        · obtain ⟨u1, um, us⟩ := u
          simp only [unmDiag]
          refine ⟨trivial, trivial, ?_⟩
          rcases hut with rfl | ⟨hms, hopen⟩
          · simp
          · simp only at hms hopen
            rw [if_pos hopen]
            simp only [List.mem_cons, List.mem_map, List.mem_append, Option.mem_toList]
            right
            rcases hms with rfl | rfl
            · exact ⟨t, Or.inl rfl, rfl⟩
            · exact ⟨t, Or.inr rfl, rfl⟩

/-- the same on a whole completed run of the lexer: every bracket token the main loop pushed is
    fused, or an `unmatched delimiter` error among the lexer's diagnostics annotates its span -/
theorem lex_brackets_matched_or_reported (E : Env) (hcls : ClsOK E) (hp : (prelude E {}).2 = true) :
    ∀ t ∈ (lex E).final.braces,
      (∃ p ∈ (fuseBraces E.n (lex E).final).2, p.1 = t.id ∨ p.2 = t.id) ∨
      (∃ d ∈ (lex E).diags, d.cls = "unm" ∧ d.level = lvError ∧ spanOf t ∈ d.spans) := by
  rcases lex_cases E hcls with ⟨hf, _, _⟩ | ⟨s0, s1, hp', hm, _⟩
  · rw [hf] at hp; cases hp
  · have hd := lex_done_of_prelude E hcls s0 hp'
    have hfin : (lex E).final = flush E.n s1 ∧
        (lex E).diags = (fuseBraces E.n (flush E.n s1)).1.diags.reverse := by
      simp only [lex, lexCore, hp', hm, if_true] at hd ⊢
      cases hfb : fuseBraces E.n (flush E.n s1) with
      | mk s2 bp =>
        rw [hfb] at hd
        simp only at hd ⊢
        cases hf1 : fuseAll s2.toks.reverse bp with
        | mk ts1 p1 =>
          rw [hf1] at hd
          simp only at hd ⊢
          cases hf2 : fuseAll ts1 (strRuns ts1 1 none) with
          | mk ts2 p2 =>
            rw [hf2] at hd
            simp only at hd ⊢
            split
            · next hc => rw [if_pos hc] at hd; cases hd
            · exact ⟨rfl, rfl⟩
    rw [hfin.1, hfin.2]
    intro t ht
    rcases brackets_matched_or_reported E.n (flush E.n s1) t ht with h | ⟨d, hdm, hrest⟩
    · exact Or.inl h
    · exact Or.inr ⟨d, by simpa using hdm, hrest⟩

/-- pairs fused by the matching loop join an opening bracket with a closing bracket of its kind -/
theorem fused_pairs_match (braces : List BItem) :
    ∀ p ∈ (fuseGo braces [] {} false).1.pairs,
      p.1.kw = openOf p.2.kw ∧ isOpenB p.1 = true ∧ isOpenB p.2 = false := by
  intro p hp
  have := (fuseGo_spec braces [] {} false (by simp) (by simp)).good p hp
  rcases this with h | h
  · simp at h
  · exact h

end PCV.Props.C29

#print axioms PCV.Props.C29.stream_tiles
#print axioms PCV.Props.C29.stream_contiguous
#print axioms PCV.Props.C29.accounting_covers
#print axioms PCV.Props.C29.nothing_pending
#print axioms PCV.Props.C29.C29_tiles
#print axioms PCV.Props.C29.C29_tiles_input
#print axioms PCV.Props.C29.tiles_iff
#print axioms PCV.Props.C29.C29_tiles_refuted
#print axioms PCV.Props.C29.witness_not_utf8
#print axioms PCV.Props.C29.witness_utf16_heuristic
#print axioms PCV.Props.C29.witness_dropped_tailPrefix
#print axioms PCV.Props.C29.witness_escape
#print axioms PCV.Props.C29.brackets_matched_or_reported
#print axioms PCV.Props.C29.lex_brackets_matched_or_reported
#print axioms PCV.Props.C29.fused_pairs_match
