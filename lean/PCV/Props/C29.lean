/-
C29 — Lexer tokens tile the input.

"For any source text, the experimental lexer's tokens are contiguous and cover the whole input
with no gaps or overlaps. Concatenating their text reproduces the input exactly, and bracket
tokens are matched or reported as errors."

Model: PCV.Model.TokenStream (stream = cumulative ends, push/flush accounting, bracket stack
machine) and PCV.Model.XLexer (the lexer main loop, byte for byte).

* `stream_tiles` / `stream_contiguous`: ANY stream built by pushes is contiguous, without gaps or
  overlaps, and its texts concatenate to `text[0 : lastEnd]` (by construction of the ends).
* `accounting_covers`: for EVERY input (and every Unicode class table) on which the lexer runs to
  completion, `lastEnd = len(text)` minus the run of unrecognised bytes still pending in
  `badBytes` when the main loop ends — nothing flushes it unless a bracket is left unclosed.
* The full statement `C29_tiles_full` is therefore FALSE of the code as it is; `C29_tiles_refuted`
  gives kernel-checked witnesses (trailing unrecognised byte, a string ending in `\` at EOF,
  a file that is not UTF-8, the UTF-8 file `a<NUL>`); `tiles_iff` characterises exactly when the
  tokens of a completed run tile; `C29_tiles_partial_input` proves tiling from hypotheses on the
  INPUT alone: valid UTF-8, no UTF-16 look, no backslash, final newline.
* `brackets_matched_or_reported` / `lex_brackets_matched_or_reported`: after `fuseBraces`, every
  bracket token is fused with a partner or covered by an "unmatched delimiter" error
  (`fused_pairs_match`: loop pairs have matching kinds).
-/
import PCV.Lemmas.XTail
namespace PCV.Props.C29
open PCV.TokenStream PCV.XLexer

/-! ## the stream layer -/

/-- spans `[a,b)` that start at `p`, each starting where the previous one ended -/
def Contig : Nat → List (Nat × Nat) → Prop
  | _, [] => True
  | p, (a, b) :: r => a = p ∧ a ≤ b ∧ Contig b r

/-- Tokens of a stream built by pushes are contiguous: no gaps, no overlaps, non-negative length. -/
theorem stream_contiguous (prev : Nat) (ts : List Tok) (h : MonoFrom prev ts) :
    Contig prev (spansFrom prev ts) := by
  induction ts generalizing prev with
  | nil => simp [spansFrom, Contig]
  | cons t ts ih =>
    simp only [MonoFrom] at h
    simp only [spansFrom, Contig]
    exact ⟨trivial, h.1, ih _ h.2⟩

/-- **stream_tiles.** For every stream built by pushes (newest-first list `ts` with monotone
    ends), the texts of its tokens concatenate to exactly the first `lastEnd` bytes of the file. -/
theorem stream_tiles (text : Bytes) (ts : List Tok) (h : Mono ts) :
    concatTexts text ts.reverse = text.take (lastEnd ts) := by
  unfold concatTexts
  rw [tiles_from text 0 ts.reverse (mono_reverse ts h), lastIn_reverse]
  simp

/-- every push keeps the stream monotone, whatever the lexer does -/
theorem push_keeps_mono (n : Nat) (s : LS) (len kind kw : Nat) (h : Mono s.toks) :
    Mono (push n s len kind kw).toks := push_mono n s len kind kw h

/-! ## the accounting of the real lexer loop -/

/-- brackets still open when `fuseBraces` has matched everything it can -/
def unclosed (E : Env) : List BItem := (fuseGo (lex E).final.braces.reverse [] {} false).2

/-- **accounting_covers.** Whenever the lexer runs to completion, the stream is monotone and ends at
    `len(text)` minus the unrecognised bytes that were still pending (`badBytes`) when the main loop
    ended — unless an unclosed bracket made `fuseBraces` push (and thereby flush). -/
theorem accounting_covers (E : Env) (hcls : ClsOK E) (hd : (lex E).status = .done) :
    MonoFrom 0 (lex E).toks ∧
    lastIn 0 (lex E).toks = (if unclosed E = [] then E.n - (lex E).final.bad.toNat else E.n) := by
  rcases lex_cases E hcls with ⟨_, ha, _⟩ | ⟨_, _, _, _, hi⟩ | ⟨s0, s1, hp, hm, hpost, hfin, hends, _⟩
  · rw [ha] at hd; cases hd
  · rw [hi] at hd; cases hd
  · have hfb := fuseBraces_post E.n s1 hpost
    have hmono : MonoFrom 0 (lex E).toks := by
      rw [monoFrom_congr 0 _ _ hends]
      exact mono_reverse _ hfb.1.mono
    refine ⟨hmono, ?_⟩
    rw [lastIn_congr 0 _ _ hends, lastIn_reverse]
    unfold unclosed
    rw [hfin]
    split
    · next he =>
      rw [hfb.2.2 he]
      have := hpost.eq
      omega
    · next hne => exact hfb.2.1 hne

/-- when the lexer completes, the token texts concatenate to the prefix of the file that the
    stream covers -/
theorem lex_concat (E : Env) (hcls : ClsOK E) (hd : (lex E).status = .done) :
    concatTexts E.text (lex E).toks = E.text.take (lastIn 0 (lex E).toks) := by
  have := (accounting_covers E hcls hd).1
  unfold concatTexts
  rw [tiles_from E.text 0 _ this]
  simp

/-- **Exact characterisation.** On a completed run the tokens tile the input iff no unrecognised
    bytes were pending at the end of the main loop, or some bracket was left unclosed. -/
theorem tiles_iff (E : Env) (hcls : ClsOK E) (hd : (lex E).status = .done) :
    concatTexts E.text (lex E).toks = E.text ↔ ((lex E).final.bad ≤ 0 ∨ unclosed E ≠ []) := by
  rw [lex_concat E hcls hd, (accounting_covers E hcls hd).2]
  have hlen : ∀ k, E.text.take k = E.text ↔ E.n ≤ k := by
    intro k
    unfold Env.n
    constructor
    · intro h
      have := congrArg List.length h
      simp only [List.length_take] at this
      omega
    · intro h; exact List.take_of_length_le h
  rw [hlen]
  split
  · next he =>
    constructor
    · intro h
      left
      rcases lex_cases E hcls with ⟨_, ha, _⟩ | ⟨_, _, _, _, hi⟩ | ⟨s0, s1, hp, hm, hpost, hfin, _, _⟩
      · rw [ha] at hd; cases hd
      · rw [hi] at hd; cases hd
      · rw [hfin]
        have := hpost.eq
        rw [hfin] at h
        have hle : lastEnd s1.toks ≤ E.n := by omega
        omega
    · rintro (h | h)
      · have : (lex E).final.bad.toNat = 0 := by omega
        omega
      · exact absurd he h
  · next hne => simp [hne]

/-! ## the property at full strength, its refutation, and what does hold -/

/-- C29, tiling clause, at full strength: for every byte string (and every class table) the token
    texts concatenate to the input. -/
def C29_tiles_full : Prop := ∀ E : Env, concatTexts E.text (lex E).toks = E.text


/-- witness 1: a file consisting of one unrecognised byte (a backquote) gets NO token at all -/
theorem witness_dropped_tail :
    (lex (envA [96])).status = .done ∧ (lex (envA [96])).toks = [] ∧ (lex (envA [96])).diags = [] := by
  decide +kernel

/-- witness 2: `"\` — a string whose content ends in a backslash at the end of the file panics
    (caught by CatchICE); the token is never pushed -/
theorem witness_escape_ice :
    (lex (envA [34, 92])).status = .icePanic ∧ (lex (envA [34, 92])).toks = [] := by
  decide +kernel

/-- witness 3: a file that is not UTF-8 is refused by the prelude with an empty stream -/
theorem witness_not_utf8 :
    (lex (envA [0xff])).status = .abort ∧ (lex (envA [0xff])).toks = [] := by
  decide +kernel

/-- witness 4: valid UTF-8 (and ASCII) `a<NUL>` is refused by the UTF-16 heuristic -/
theorem witness_utf16_heuristic :
    (lex (envA [97, 0])).status = .abort ∧ (lex (envA [97, 0])).toks = [] := by
  decide +kernel

theorem C29_tiles_refuted : ¬ C29_tiles_full := by
  intro h
  have := h (envA [96])
  rw [witness_dropped_tail.2.1] at this
  simp [concatTexts, spansFrom, envA] at this

/-- **Partial theorem.** For every input on which the lexer completes with no unrecognised bytes
    pending (`badBytes ≤ 0` after the main loop), the tokens are contiguous, cover the whole input and
    their texts concatenate to it. -/
theorem C29_tiles_partial (E : Env) (hcls : ClsOK E) (hd : (lex E).status = .done)
    (hbad : (lex E).final.bad ≤ 0) :
    Contig 0 (spansFrom 0 (lex E).toks) ∧ lastIn 0 (lex E).toks = E.n ∧
    concatTexts E.text (lex E).toks = E.text := by
  have hacc := accounting_covers E hcls hd
  refine ⟨stream_contiguous 0 _ hacc.1, ?_, (tiles_iff E hcls hd).mpr (Or.inl hbad)⟩
  rw [hacc.2]
  split
  · have : (lex E).final.bad.toNat = 0 := by omega
    omega
  · rfl

/-- **Partial theorem, stated on the input alone.** Every valid UTF-8 file that contains no
    backslash, does not trip the UTF-16 heuristics and ends with a newline is tiled by its tokens:
    contiguous, covering, and concatenating back to the file — for every Unicode class table in
    which `\n` is white space and XID_Start ⊆ XID_Continue. -/
theorem C29_tiles_partial_input (E : Env) (hcls : ClsOK E) (hnl : E.has cWhite 10 = true)
    (hv : V E.text) (h16 : looksUtf16 E.text = false) (hbs : (92 : UInt8) ∉ E.text)
    (hlast : E.text.getLast? = some 10) :
    (lex E).status = .done ∧ Contig 0 (spansFrom 0 (lex E).toks) ∧ lastIn 0 (lex E).toks = E.n ∧
    concatTexts E.text (lex E).toks = E.text := by
  have hd := lex_done_of_no_backslash E hcls hv h16 hbs
  exact ⟨hd, C29_tiles_partial E hcls hd (final_bad_of_trailing_newline E hcls hnl hlast hd)⟩

/-- the same for any completed run (backslashes allowed) of a file ending in a newline -/
theorem tiles_of_trailing_newline (E : Env) (hcls : ClsOK E) (hnl : E.has cWhite 10 = true)
    (hlast : E.text.getLast? = some 10) (hd : (lex E).status = .done) :
    concatTexts E.text (lex E).toks = E.text :=
  (C29_tiles_partial E hcls hd (final_bad_of_trailing_newline E hcls hnl hlast hd)).2.2

/-- non-vacuity of `C29_tiles_partial_input`: `message M {}\n` satisfies every hypothesis -/
example : concatTexts [109, 101, 115, 115, 97, 103, 101, 32, 77, 32, 123, 125, 10]
    (lex (envA [109, 101, 115, 115, 97, 103, 101, 32, 77, 32, 123, 125, 10])).toks
    = [109, 101, 115, 115, 97, 103, 101, 32, 77, 32, 123, 125, 10] :=
  (C29_tiles_partial_input (envA [109, 101, 115, 115, 97, 103, 101, 32, 77, 32, 123, 125, 10])
    (clsOK_ascii _) (by decide)
    (utf8Scan_valid 14 _ 0 0 none (by decide) (by decide +kernel)) (by decide) (by decide) (by decide)).2.2.2

/-- non-vacuity: a small proto file satisfies the hypotheses of the partial theorems -/
example : (lex (envA [109, 101, 115, 115, 97, 103, 101, 32, 77, 32, 123, 125, 10])).status = .done ∧
    (lex (envA [109, 101, 115, 115, 97, 103, 101, 32, 77, 32, 123, 125, 10])).final.bad ≤ 0 := by
  decide +kernel

/-! ## brackets -/

/-- **brackets_matched_or_reported.** After `fuseBraces`, every bracket token pushed by the main
    loop is one end of a fused pair, or its span is annotated in an "unmatched delimiter" error. -/
theorem brackets_matched_or_reported (n : Nat) (s : LS) :
    ∀ t ∈ s.braces,
      (∃ p ∈ (fuseBraces n s).2, p.1 = t.id ∨ p.2 = t.id) ∨
      (∃ d ∈ (fuseBraces n s).1.diags, d.cls = "unm" ∧ d.level = lvError ∧ spanOf t ∈ d.spans) := by
  intro t ht
  unfold fuseBraces
  have hspec := fuseGo_spec s.braces.reverse [] {} false (by simp) (by simp)
  cases hg : fuseGo s.braces.reverse [] {} false with
  | mk acc opens =>
    rw [hg] at hspec
    simp only
    have hfold : ∀ (l : List BItem) (st : LS) (d : Diag), d ∈ st.diags →
        d ∈ (l.foldl (fun st o => addDiag st ⟨"unm", lvError, [spanOf o]⟩) st).diags := by
      intro l
      induction l with
      | nil => intro st d hd; exact hd
      | cons o os ih =>
        intro st d hd
        simp only [List.foldl_cons]
        exact ih _ d (by simp [addDiag, hd])
    have hco := closeOpens_spec n opens
      (opens.reverse.foldl (fun st o => addDiag st ⟨"unm", lvError, [spanOf o]⟩)
        { s with diags := acc.unms.map unmDiag ++ s.diags })
      (acc.pairs.reverse.map (fun x => (x.1.id, x.2.id)))
    rcases hspec.items t (by simpa using ht) with hop | hh
    · left
      obtain ⟨p, hp, hpid⟩ := hco.2.2 t hop
      exact ⟨p, hp, Or.inl hpid⟩
    · rcases hh with ⟨p, hp, hpt⟩ | ⟨u, hu, hut⟩
      · left
        refine ⟨(p.1.id, p.2.id), hco.2.1 _ ?_, ?_⟩
        · simp only [List.mem_map, List.mem_reverse]
          exact ⟨p, hp, rfl⟩
        · rcases hpt with rfl | rfl
          · exact Or.inl rfl
          · exact Or.inr rfl
      · right
        refine ⟨unmDiag u, hco.1 _ (hfold _ _ _ ?_), ?_⟩
        · simp only [List.mem_append, List.mem_map]
          exact Or.inl ⟨u, hu, rfl⟩
        · obtain ⟨u1, um, us⟩ := u
          simp only [unmDiag]
          refine ⟨trivial, trivial, ?_⟩
          rcases hut with rfl | ⟨hms, hopen⟩
          · simp
          · simp only at hms hopen
            rw [if_pos hopen]
            simp only [List.mem_cons, List.mem_map, List.mem_append, Option.mem_toList]
            right
            rcases hms with rfl | rfl
            · exact ⟨t, Or.inl rfl, rfl⟩
            · exact ⟨t, Or.inr rfl, rfl⟩

/-- the same on a whole completed run of the lexer: every bracket token the main loop pushed is
    fused, or an `unmatched delimiter` error among the lexer's diagnostics annotates its span -/
theorem lex_brackets_matched_or_reported (E : Env) (hcls : ClsOK E) (hd : (lex E).status = .done) :
    ∀ t ∈ (lex E).final.braces,
      (∃ p ∈ (fuseBraces E.n (lex E).final).2, p.1 = t.id ∨ p.2 = t.id) ∨
      (∃ d ∈ (lex E).diags, d.cls = "unm" ∧ d.level = lvError ∧ spanOf t ∈ d.spans) := by
  rcases lex_trichotomy E hcls with ⟨_, ha⟩ | ⟨_, _, _, _, hi⟩ | ⟨s0, s1, hp, hm, _⟩
  · rw [ha] at hd; cases hd
  · rw [hi] at hd; cases hd
  · have hfin : (lex E).final = s1 ∧ (lex E).diags = (fuseBraces E.n s1).1.diags.reverse := by
      simp only [lex, hp, hm] at hd ⊢
      cases hfb : fuseBraces E.n s1 with
      | mk s2 bp =>
        rw [hfb] at hd
        simp only at hd ⊢
        cases hf1 : fuseAll s2.toks.reverse bp with
        | mk ts1 p1 =>
          rw [hf1] at hd
          simp only at hd ⊢
          cases hf2 : fuseAll ts1 (strRuns ts1 1 none) with
          | mk ts2 p2 =>
            rw [hf2] at hd
            simp only at hd ⊢
            split
            · next hc => rw [if_pos hc] at hd; cases hd
            · exact ⟨rfl, rfl⟩
    rw [hfin.1, hfin.2]
    intro t ht
    rcases brackets_matched_or_reported E.n s1 t ht with h | ⟨d, hdm, hrest⟩
    · exact Or.inl h
    · exact Or.inr ⟨d, by simpa using hdm, hrest⟩

/-- pairs fused by the matching loop join an opening bracket with a closing bracket of its kind -/
theorem fused_pairs_match (braces : List BItem) :
    ∀ p ∈ (fuseGo braces [] {} false).1.pairs,
      p.1.kw = openOf p.2.kw ∧ isOpenB p.1 = true ∧ isOpenB p.2 = false := by
  intro p hp
  have := (fuseGo_spec braces [] {} false (by simp) (by simp)).good p hp
  rcases this with h | h
  · simp at h
  · exact h

end PCV.Props.C29

#print axioms PCV.Props.C29.stream_tiles
#print axioms PCV.Props.C29.stream_contiguous
#print axioms PCV.Props.C29.accounting_covers
#print axioms PCV.Props.C29.tiles_iff
#print axioms PCV.Props.C29.C29_tiles_refuted
#print axioms PCV.Props.C29.C29_tiles_partial
#print axioms PCV.Props.C29.C29_tiles_partial_input
#print axioms PCV.Props.C29.tiles_of_trailing_newline
#print axioms PCV.Props.C29.witness_dropped_tail
#print axioms PCV.Props.C29.witness_escape_ice
#print axioms PCV.Props.C29.witness_not_utf8
#print axioms PCV.Props.C29.witness_utf16_heuristic
#print axioms PCV.Props.C29.brackets_matched_or_reported
#print axioms PCV.Props.C29.lex_brackets_matched_or_reported
#print axioms PCV.Props.C29.fused_pairs_match
