/-
C06 (termination half, bound): every run of the executor LTS is finite, with an explicit bound that
depends only on the world (requested files and import lists) — whatever the scheduler does. Together
with `no_stuck_state` (Props.C06D) this is termination: no run can be extended for ever, and a run
that cannot be extended has finished every requested file.

Each task only moves forward: `rho` numbers the stages of a task's life; every transition of a task
strictly increases it, a task is created at stage 0 and stages are bounded by `11 + 2·|imports|`.
-/
import PCV.Props.C06D
namespace PCV.Props.C06B
open PCV.Exec PCV.Props.C07 PCV.Props.C05 PCV.Props.C06T PCV.Props.C06D

/-- stage of a task (strictly increasing along its transitions); `L` = number of imports -/
def rhoL (L : Nat) (t : Task) : Nat :=
  match t.pc with
  | .spawned => 0
  | .holding => 1
  | .resolved => 2
  | .deps i => 3 + min i L
  | .waiting i => 4 + L + min i L
  | .unblocked => 5 + 2 * L
  | .linking => 6 + 2 * L
  | .failing c => if t.holds then 7 + 2 * L else if c == .panic then 9 + 2 * L else 8 + 2 * L
  | .panicking => 8 + 2 * L
  | .finished _ => if t.holds then 10 + 2 * L else 11 + 2 * L

def rho (w : World) (f : File) (t : Task) : Nat := rhoL (w.imports f).length t

theorem rho_le (w : World) (f : File) (t : Task) : rho w f t ≤ 11 + 2 * (w.imports f).length := by
  unfold rho rhoL
  split <;> (try split) <;> (try split) <;> omega

def psiL (w : World) : List (File × Task) → Nat
  | [] => 0
  | (f, t) :: r => rho w f t + 1 + psiL w r

def psi (w : World) (s : St) : Nat := psiL w s.tasks

def stageOpt (w : World) (f : File) : Option Task → Nat
  | some t => rho w f t + 1
  | none => 0

theorem psiL_setTask (w : World) (f : File) (t' : Task) (l : List (File × Task)) :
    psiL w (setTask f t' l) + stageOpt w f (lookupT f l) = psiL w l + rho w f t' + 1 := by
  induction l with
  | nil => simp [setTask, psiL, lookupT, stageOpt]
  | cons x l ih =>
    obtain ⟨g, u⟩ := x
    rw [setTask_cons, lookupT_cons]
    by_cases h : (g == f) = true
    · have hgf : g = f := by simpa using h
      subst hgf
      rw [if_pos h, if_pos h]
      simp only [psiL, stageOpt]; omega
    · rw [if_neg h, if_neg h]
      simp only [psiL]; omega

theorem psi_set (w : World) (s : St) (f : File) (t t' : Task) (sem' c' : Nat) (hf : s.task f = some t)
    (hlt : rho w f t < rho w f t') :
    psi w s + 1 ≤ psi w (({ s with sem := sem', clock := c' } : St).set f t') := by
  have := psiL_setTask w f t' s.tasks
  have hl : lookupT f s.tasks = some t := hf
  rw [hl] at this
  simp only [stageOpt] at this
  show psiL w s.tasks + 1 ≤ psiL w (setTask f t' s.tasks)
  omega

theorem psi_spawn (w : World) (s : St) (f : File) (t' : Task) (hf : s.task f = none) :
    psi w s + 1 ≤ psi w (s.set f t') := by
  have := psiL_setTask w f t' s.tasks
  have hl : lookupT f s.tasks = none := hf
  rw [hl] at this
  simp only [stageOpt] at this
  show psiL w s.tasks + 1 ≤ psiL w (setTask f t' s.tasks)
  omega

theorem lt_of_get? {α} (l : List α) (i : Nat) (d : α) (h : l[i]? = some d) : i < l.length :=
  (List.getElem?_eq_some_iff.mp h).1

/-- every transition consumes one unit of the potential -/
theorem psi_step (w : World) (s s' : St) (e : Ev) (hJ : J s) (hR : R s) (h : step w s e = some s') :
    psi w s + 1 ≤ psi w s' := by
  obtain ⟨f, hf⟩ : ∃ f, f = e.file := ⟨_, rfl⟩
  cases e <;> simp only [Ev.file] at hf <;> subst hf <;> simp only [step] at h
  all_goals (repeat' split at h)
  all_goals (try (simp at h))
  all_goals (try (obtain ⟨h1, h2⟩ := h))
  all_goals (try subst s')
  all_goals (try (refine psi_spawn w s f _ (by assumption)))
  all_goals (try (refine psi_set w s f _ _ _ _ (by assumption) ?_))
  all_goals (try unfold rho)
  all_goals (try (simp_all [rhoL]; done))
  all_goals (try (simp_all [rhoL]; omega))
  all_goals (try (simp_all [rhoL]; split <;> (try split) <;> omega))
  · -- dep(f, d)
    rename_i d _ t ht _ i hpc hc
    simp only [Bool.and_eq_true, beq_iff_eq] at hc
    have hi := lt_of_get? _ _ _ hc.1.1.1.1
    simp only [rhoL, hpc]; omega
  · -- waited(f, d) ok
    rename_i d _ t ht _ i hpc hc _ td hd _ hdpc
    simp only [Bool.and_eq_true, beq_iff_eq] at hc
    have hi := lt_of_get? _ _ _ hc.1
    simp only [rhoL, hpc]; omega
  · -- complete
    rename_i t ht hc
    simp only [Bool.and_eq_true, Bool.or_eq_true, beq_iff_eq] at hc
    rcases hc.1.1 with ⟨hpc, _⟩ | hpc <;> (simp only [rhoL, hpc]; split <;> omega)
  · -- crash: impossible, no task is ever marked `recovered`
    rename_i t ht _ _ _ hrec
    have := hR.2 f t ht
    rw [this] at hrec; cases hrec
  · -- recovered from panicking: the permit was given back while unwinding
    rename_i t ht _ _ hpc
    have hh := hJ f t ht (by simp [hpc, noPermitPc])
    simp [rhoL, hpc, hh]

theorem run_psi (w : World) (evs : List Ev) : ∀ s0 s, Reachable w s0 → run w s0 evs = some s →
    psi w s0 + evs.length ≤ psi w s := by
  induction evs with
  | nil => intro s0 s _ h; simp [run] at h; subst h; simp
  | cons e es ih =>
    intro s0 s h0 h
    simp only [run] at h
    cases hs : step w s0 e with
    | none => simp [hs] at h
    | some s1 =>
      rw [hs] at h
      have h1 := psi_step w s0 s1 e (J_reachable w s0 h0) (R_reachable w s0 h0) hs
      have h2 := ih s1 s (Reachable.step h0 hs) h
      simp only [List.length_cons]; omega

/-! ### Only requested files and imports are ever started -/

/-- every file named in some import list -/
def allImports (w : World) : List File := w.files.flatMap (·.2)

theorem imports_sub (w : World) (g d : File) (h : d ∈ w.imports g) : d ∈ allImports w := by
  unfold World.imports at h
  cases hf : w.files.find? (·.1 == g) with
  | none => simp [hf] at h
  | some x =>
    simp only [hf, Option.map_some, Option.getD_some] at h
    exact List.mem_flatMap.mpr ⟨x, List.mem_of_find?_eq_some hf, h⟩

theorem imports_len (w : World) (g : File) : (w.imports g).length ≤ (allImports w).length := by
  unfold World.imports
  cases hf : w.files.find? (·.1 == g) with
  | none => simp
  | some x =>
    simp only [Option.map_some, Option.getD_some]
    have hm := List.mem_of_find?_eq_some hf
    unfold allImports
    obtain ⟨l1, l2, hl⟩ := List.append_of_mem hm
    rw [hl]; simp; omega

def KB (w : World) (s : St) : Prop := ∀ f ∈ keys s.tasks, f ∈ w.req ++ allImports w

theorem KB_set_present (w : World) (s : St) (f : File) (t t' : Task) (sem' c' : Nat) (hK : KB w s)
    (hf : s.task f = some t) : KB w (({ s with sem := sem', clock := c' } : St).set f t') := by
  unfold KB St.set at *
  simp only
  rw [keys_setTask_present f t' _ (by rw [← task_eq, hf]; rfl)]
  exact hK

theorem KB_step (w : World) (s s' : St) (e : Ev) (hK : KB w s) (h : step w s e = some s') : KB w s' := by
  obtain ⟨f, hf⟩ : ∃ f, f = e.file := ⟨_, rfl⟩
  cases e <;> simp only [Ev.file] at hf <;> subst hf <;> simp only [step] at h
  all_goals (repeat' split at h)
  all_goals (try (simp at h))
  all_goals (try (obtain ⟨h1, h2⟩ := h))
  all_goals (try subst s')
  all_goals (try (exact KB_set_present w s f _ _ _ _ hK (by assumption)))
  all_goals (try (exact hK))
  -- spawn
  rename_i hg _ hnone
  unfold KB St.set at *
  simp only
  rw [keys_setTask_absent f _ _ (by rw [← task_eq]; exact hnone)]
  intro x hx
  rcases List.mem_append.mp hx with hx | hx
  · exact hK x hx
  · have : x = f := by simpa using hx
    subst this
    have hok : spawnOk w s x = true := by
      cases hs : spawnOk w s x with
      | true => rfl
      | false => exact absurd (by simp [hs]) hg
    unfold spawnOk at hok
    rcases Bool.or_eq_true _ _ |>.mp hok with hreq | hdep
    · exact List.mem_append_left _ (by simpa using hreq)
    · obtain ⟨y, _, hy⟩ := List.any_eq_true.mp hdep
      split at hy
      · exact List.mem_append_right _ (imports_sub w y.1 x (List.mem_of_getElem? (by simpa using hy)))
      · cases hy

theorem KB_reachable (w : World) (s : St) (h : Reachable w s) : KB w s := by
  induction h with
  | init => intro f hf; simp [init, keys] at hf
  | step _ hs ih => exact KB_step w _ _ _ ih hs

theorem psiL_le (w : World) (l : List (File × Task)) :
    psiL w l ≤ l.length * (12 + 2 * (allImports w).length) := by
  induction l with
  | nil => simp [psiL]
  | cons x l ih =>
    obtain ⟨f, t⟩ := x
    have h1 := rho_le w f t
    have h2 := imports_len w f
    simp only [psiL, List.length_cons, Nat.add_mul]
    omega

/-- the explicit bound: (requested files + import entries) × (12 + 2 × import entries) -/
def bound (w : World) : Nat := (w.req.length + (allImports w).length) * (12 + 2 * (allImports w).length)

/-- **C06 (every run is finite).** Whatever the scheduler, the fault plan and the cancellation
    behaviour, a run of the executor has at most `bound w` transitions. -/
theorem run_length_bounded (w : World) (evs : List Ev) (s : St) (h : run w (init w) evs = some s) :
    evs.length ≤ bound w := by
  have hr : Reachable w s := reachable_of_run w evs (init w) s Reachable.init h
  have h1 := run_psi w evs (init w) s Reachable.init h
  have h2 := psiL_le w s.tasks
  have hU := U_reachable w s hr
  have hK := KB_reachable w s hr
  have h3 : (keys s.tasks).length ≤ (w.req ++ allImports w).length :=
    nodup_subset_length hU hK
  have h4 : s.tasks.length = (keys s.tasks).length := by simp [keys]
  have h5 : s.tasks.length ≤ w.req.length + (allImports w).length := by
    rw [h4]; simpa using h3
  have h6 := Nat.mul_le_mul_right (12 + 2 * (allImports w).length) h5
  unfold bound
  unfold psi at h1
  omega

/-- **C06 (termination).** A run that cannot be extended has finished every requested file (and
    by `run_length_bounded` every run can be extended only finitely often). -/
theorem maximal_run_finished (w : World) (hpar : w.par ≥ 1) (evs : List Ev) (s : St)
    (h : run w (init w) evs = some s) (hmax : ∀ e, step w s e = none) :
    ∀ r ∈ w.req, isFinished s r = true := by
  intro r hreq
  have hr : Reachable w s := reachable_of_run w evs (init w) s Reachable.init h
  cases hfin : isFinished s r with
  | true => rfl
  | false =>
    obtain ⟨e, s', he⟩ := no_stuck_state w hpar s hr r (Or.inl hreq) hfin
    rw [hmax e] at he; cases he

end PCV.Props.C06B

#print axioms PCV.Props.C06B.run_length_bounded
#print axioms PCV.Props.C06B.maximal_run_finished
