/-
C20 — Option values are interpreted like protoc.

The model is `PCV.Options` (PCV/Model/Options.lean, a transcription of options/options.go); the
reference is `PCV.OptionsSpec.ref*` (PCV/Spec/Options.lean, a transcription of protoc's
SetOptionValue / text-format rules, calibrated on every run against protoc-checked test tables).
-/
import PCV.Spec.Options
namespace PCV.Props.C20
open PCV.Options PCV.OptionsSpec

/-! ## Scalar coercion table -/

/-- what the parser can produce: uint64 literals, and int64 values only from a literal written
    with a minus sign -/
def WF : AV → Prop
  | .uint n => n < 18446744073709551616
  | .sint i => -9223372036854775808 ≤ i ∧ i ≤ 0
  | _ => True

def isScalar : Kind → Bool
  | .enum _ => false | .msg _ => false | .group _ => false | _ => true

/-- model result and reference result say the same thing -/
def agree : Except Err PV → RO PV → Prop
  | .ok a, .ok b => a = b
  | .error _, .reject => True
  | _, _ => False

def isUnsigned (k : Kind) : Bool := isUnsigned32 k || isUnsigned64 k
def isFloat (k : Kind) : Bool := k == .flt || k == .dbl

/-- the inputs on which the Go code and protoc are known to differ, or on which the reference makes
    no claim -/
def Divergent (k : Kind) (v : AV) (inside : Bool) : Prop :=
  (isUnsigned k = true ∧ v = .sint 0)
  ∨ (inside = true ∧ isFloat k = true ∧ ∃ s, v = .ident s ∧ s ≠ "inf" ∧ s ≠ "nan" ∧
        (s.toLower = "inf" ∨ s.toLower = "infinity" ∨ s.toLower = "nan"))
  ∨ (inside = true ∧ k = .bool ∧ ∃ n, v = .uint n ∧ n ≤ 1)
  ∨ (inside = true ∧ k = .flt ∧
        ((∃ n, v = .uint n ∧ natToF32 n ≠ f64ToF32 (natToF64 n))
          ∨ (∃ i, v = .sint i ∧ natToF32 i.natAbs ≠ f64ToF32 (natToF64 i.natAbs))))

/-- C20 for scalars at full strength -/
def C20_scalar_full : Prop :=
  ∀ k v inside, isScalar k = true → WF v → agree (scalarFieldValue k v inside) (refScalar protoc k v inside)

theorem C20_scalar_full_refuted : ¬ C20_scalar_full := by
  intro h
  have := h .u32 (.sint 0) false rfl (by simp [WF])
  simp [scalarFieldValue, refScalar, intRange, isSigned32, isUnsigned32, protoc, agree, maxU32] at this

/-- the second witness: `f: INF` inside a message literal (accepted by protoc, see
    parser/validate_test.go success_inf_nan_in_message_literal) is rejected -/
theorem float_ident_case_witness :
    scalarFieldValue .dbl (.ident "Inf") true = .error .type := by
  simp [scalarFieldValue]

theorem str_beq {s t : String} : (s == t) = true ↔ s = t := by simp

/-- `scalar_coercion_eq`: for every scalar field kind, every literal the parser can produce and
    both contexts (option value / inside a message literal), the Go conversion and protoc's agree
    on accept/reject and on the value — outside the named divergences (and the integers the reference is silent about: float fields inside
    a message literal when rounding once and rounding via double differ). -/
theorem scalar_coercion_eq (k : Kind) (v : AV) (inside : Bool)
    (hk : isScalar k = true) (hwf : WF v) (hd : ¬ Divergent k v inside) :
    agree (scalarFieldValue k v inside) (refScalar protoc k v inside) := by
  cases k <;> simp [isScalar] at hk <;> cases v <;>
    simp_all [scalarFieldValue, refScalar, intRange, isSigned32, isUnsigned32, isSigned64, isUnsigned64,
      protoc, WF, Divergent, isUnsigned, isFloat, maxI32, minI32, maxU32, maxI64, floatIdent,
      f32OfNat, f32OfInt, f64OfNat, f64OfInt] <;>
    (repeat' split) <;> (try simp_all [agree]) <;> (try omega)

/-! ## Bool identifiers -/

/-- `bool_ident_rules`: an option value accepts only `true`/`false`; inside a message literal the
    text-format spellings `t`, `f`, `True`, `False` are accepted as well; nothing else is. -/
theorem bool_ident_rules (s : String) (inside : Bool) :
    (scalarFieldValue .bool (.ident s) inside = .ok (.num 1) ↔
        (s = "true" ∨ (inside = true ∧ (s = "t" ∨ s = "True")))) ∧
    (scalarFieldValue .bool (.ident s) inside = .ok (.num 0) ↔
        (s = "false" ∨ (inside = true ∧ (s = "f" ∨ s = "False")))) ∧
    (scalarFieldValue .bool (.ident s) inside = .error .type ↔
        ¬ (s = "true" ∨ s = "false" ∨ (inside = true ∧ (s = "t" ∨ s = "True" ∨ s = "f" ∨ s = "False")))) := by
  cases inside <;> simp [scalarFieldValue] <;> (repeat' split) <;> simp_all <;> grind

/-- only identifiers can be bool values -/
theorem bool_needs_ident (v : AV) (inside : Bool) (h : ∀ s, v ≠ .ident s) :
    scalarFieldValue .bool v inside = .error .type := by
  cases v <;> simp_all [scalarFieldValue]

/-- the model's bool rule is protoc's, in both contexts (a special case of scalar_coercion_eq that
    needs no well-formedness assumption) -/
theorem bool_ident_eq_protoc (s : String) (inside : Bool) :
    agree (scalarFieldValue .bool (.ident s) inside) (refScalar protoc .bool (.ident s) inside) := by
  cases inside <;> simp [scalarFieldValue, refScalar, intRange, isSigned32, isUnsigned32, isSigned64, isUnsigned64] <;>
    (repeat' split) <;> simp_all [agree]

/-! ## Enums -/

def agreeI : Except Err Int → RO PV → Prop
  | .ok a, .ok b => b = .num a
  | .error _, .reject => True
  | _, _ => False

/-- `enum_coercion_eq`: by name everywhere; by number only inside a message literal, within int32,
    and — for a closed enum — only a declared number. Exactly protoc's rule, for every enum. -/
theorem enum_coercion_eq (e : EnumS) (v : AV) (inside : Bool) :
    agreeI (enumFieldValue e v inside) (refEnum e v inside) := by
  cases v <;> simp [enumFieldValue, refEnum, enumByNumber, maxI32, minI32] <;>
    (repeat' split) <;> simp_all [agreeI] <;> (try omega)

/-! ## Target types -/

/-- `target_type_rule` (checkFieldUsage): a field without `targets` may be used anywhere, otherwise
    exactly on the listed element kinds -/
theorem target_type_rule (t : Nat) (f : FieldS) :
    checkFieldUsage t f = none ↔ (f.targets = [] ∨ t ∈ f.targets) := by
  unfold checkFieldUsage
  cases h : f.targets <;> simp
  grind

theorem target_type_rule_eq_protoc (t : Nat) (f : FieldS) :
    (checkFieldUsage t f = none) ↔ targetOK t f = true := by
  unfold checkFieldUsage targetOK
  cases h : f.targets <;> simp
  grind

/-- every field named by an option that strict interpretation accepts allows the element's target
    type (first name part; the same check guards every later part and every message-literal field) -/
theorem fieldUsage_none (cx : Cx) (f : FieldS) (h : fieldUsage cx f = none) : checkFieldUsage cx.target f = none := by
  unfold fieldUsage firstErr at h
  split at h
  · simp at h
  · exact h

theorem accepted_first_part_allows_target (cx : Cx) (mi : Nat) (pm : PM) (p : NamePart) (rest : List NamePart)
    (v : AV) (f : FieldS) (hf : resolvePart cx mi p = .ok f)
    (hok : (interpField cx mi pm (p :: rest) v).err = none) :
    f.targets = [] ∨ cx.target ∈ f.targets := by
  rw [← target_type_rule]
  apply fieldUsage_none
  unfold interpField at hok
  simp only [hf] at hok
  cases hc : fieldUsage cx f with
  | none => rfl
  | some e =>
    exfalso
    cases rest with
    | nil => simp [hc, firstErr] at hok
    | cons q qs =>
      simp only [hc] at hok
      split at hok
      · simp [firstErr] at hok
      · split at hok
        · simp [firstErr] at hok
        · split at hok
          · simp [firstErr] at hok
          · split at hok <;> simp [firstErr] at hok

/-! ## The name-path walk (interpretField) -/

theorem pmGet_pmSet_eq (m : PM) (n : Nat) (v : PV) : pmGet (pmSet m n v) n = some v := by
  induction m with
  | nil => simp [pmSet, pmGet]
  | cons a r ih =>
    obtain ⟨k, w⟩ := a
    by_cases h : k = n <;> simp [pmSet, pmGet, h, ih]

theorem pmGet_pmSet_ne (m : PM) (n k : Nat) (v : PV) (h : k ≠ n) : pmGet (pmSet m n v) k = pmGet m k := by
  induction m with
  | nil => simp [pmSet, pmGet]; intro h2; exact absurd h2.symm h
  | cons a r ih =>
    obtain ⟨j, w⟩ := a
    by_cases hj : j = n
    · subst hj
      have : ¬ j = k := fun e => h e.symm
      simp [pmSet, pmGet, this]
    · by_cases hk : j = k
      · subst hk; simp [pmSet, pmGet, hj]
      · simp [pmSet, pmGet, hj, hk, ih]

theorem pmGet_pmDel_ne (m : PM) (n k : Nat) (h : k ≠ n) : pmGet (pmDel m n) k = pmGet m k := by
  induction m with
  | nil => simp [pmDel, pmGet]
  | cons a r ih =>
    obtain ⟨j, w⟩ := a
    by_cases hj : j = n
    · subst hj
      have : ¬ j = k := fun e => h e.symm
      simp [pmDel, pmGet, this]
    · by_cases hk : j = k
      · subst hk; simp [pmDel, pmGet, hj]
      · simp [pmDel, pmGet, hj, hk, ih]

theorem pmGet_pmStore_ne (m : PM) (f : FieldS) (k : Nat) (v : PV) (h : k ≠ f.num) :
    pmGet (pmStore m f v) k = pmGet m k := by
  unfold pmStore; split
  · exact pmGet_pmDel_ne m f.num k h
  · exact pmGet_pmSet_ne m f.num k v h

theorem pmGet_appendList_ne (m : PM) (f : FieldS) (k : Nat) (v : PV) (h : k ≠ f.num) :
    pmGet (appendList m f v) k = pmGet m k := by
  unfold appendList; exact pmGet_pmSet_ne _ _ _ _ h

theorem pmGet_setMapEntry_ne (s : Schema) (m : PM) (f : FieldS) (k : Nat) (v : PV) (h : k ≠ f.num) :
    pmGet (setMapEntry s m f v) k = pmGet m k := by
  unfold setMapEntry; exact pmGet_pmSet_ne _ _ _ _ h

/-- the array loop only touches the field it fills -/
theorem setItems_frame (cx : Cx) (mi : Nat) (f : FieldS) (inside : Bool) (k : Nat) (hk : k ≠ f.num) :
    ∀ (vs : AVs) (pm : PM), pmGet (setItems cx mi pm f vs inside).pm k = pmGet pm k
  | .nil, pm => by simp [setItems]
  | .cons item rest, pm => by
    rw [setItems]
    cases hv : (fieldValue cx f item inside).val with
    | none => simp
    | some pv =>
      simp only
      rw [setItems_frame cx mi f inside k hk rest]
      split
      · exact pmGet_setMapEntry_ne _ _ _ _ _ hk
      · exact pmGet_appendList_ne _ _ _ _ hk

theorem setOne_frame (cx : Cx) (mi : Nat) (pm : PM) (f : FieldS) (r : VR) (k : Nat) (hk : k ≠ f.num) :
    pmGet (setOne cx mi pm f r).pm k = pmGet pm k := by
  unfold setOne
  cases r.val with
  | none => simp
  | some pv =>
    simp only
    repeat' split
    all_goals first
      | rfl
      | exact pmGet_setMapEntry_ne _ _ _ _ _ hk
      | exact pmGet_appendList_ne _ _ _ _ hk
      | exact pmGet_pmStore_ne _ _ _ _ hk

theorem setOptionField_frame (cx : Cx) (mi : Nat) (pm : PM) (f : FieldS) (v : AV) (inside : Bool)
    (k : Nat) (hk : k ≠ f.num) : pmGet (setOptionField cx mi pm f v inside).pm k = pmGet pm k := by
  unfold setOptionField
  split
  · unfold setOptionFieldCore
    simp only [if_true]
    repeat' split
    all_goals first
      | rfl
      | exact setItems_frame cx mi f inside k hk _ _
  · unfold setOptionFieldCore
    simp only [Bool.false_eq_true, if_false]
    repeat' split
    all_goals first
      | rfl
      | exact setOne_frame cx mi pm f _ k hk

/-- `path_walk_frame`: an option statement can only change the top-level field its first name part
    names; every other field of the options message keeps its value (also when the statement fails) -/
theorem path_walk_frame (cx : Cx) (mi : Nat) (pm : PM) (p : NamePart) (rest : List NamePart) (v : AV)
    (f : FieldS) (hf : resolvePart cx mi p = .ok f) (k : Nat) (hk : k ≠ f.num) :
    pmGet (interpField cx mi pm (p :: rest) v).pm k = pmGet pm k := by
  unfold interpField
  simp only [hf]
  cases rest with
  | nil => simp only; exact setOptionField_frame cx mi pm f v false k hk
  | cons q qs =>
    simp only
    repeat' split
    all_goals first
      | rfl
      | exact pmGet_pmSet_ne _ _ _ _ hk

/-- an option whose first name part cannot be resolved changes nothing -/
theorem unresolved_first_part_unchanged (cx : Cx) (mi : Nat) (pm : PM) (p : NamePart) (rest : List NamePart)
    (v : AV) (e : Err) (hf : resolvePart cx mi p = .error e) :
    interpField cx mi pm (p :: rest) v = ⟨pm, false, some e⟩ := by
  unfold interpField
  simp only [hf]

def getPath : PM → List Nat → Option PV
  | pm, [] => some (.msg pm)
  | pm, [n] => pmGet pm n
  | pm, n :: m :: rest => match pmGet pm n with
    | some (.msg sub) => getPath sub (m :: rest)
    | _ => none

/-- the field descriptors an option name walks through -/
def resolvePath (cx : Cx) : Nat → List NamePart → Option (List FieldS)
  | _, [] => some []
  | mi, p :: rest =>
    match resolvePart cx mi p with
    | .ok f => (resolvePath cx f.kind.msgIdx rest).map (f :: ·)
    | .error _ => none

theorem setOne_ok (cx : Cx) (mi : Nat) (pm : PM) (f : FieldS) (r : VR)
    (hok : (setOne cx mi pm f r).ok = true) (hcard : f.card ≠ .rep) (hmap : f.isMap = false)
    (hpres : f.presence = true) :
    ∃ pv, r.val = some pv ∧ pmGet (setOne cx mi pm f r).pm f.num = some pv := by
  unfold setOne at hok ⊢
  cases hval : r.val with
  | none => simp [hval] at hok
  | some pv =>
    refine ⟨pv, rfl, ?_⟩
    simp only [hval] at hok ⊢
    have hc : (f.card == Card.rep) = false := by
      cases h : f.card <;> simp_all
    simp only [hmap, hc, Bool.false_eq_true, if_false] at hok ⊢
    split at hok
    · simp at hok
    · split at hok
      · simp at hok
      · rename_i h1 h2
        simp only [h1, h2, if_false, Bool.false_eq_true]
        unfold pmStore
        simp [hpres, pmGet_pmSet_eq]

theorem getPath_cons_set (pm : PM) (n : Nat) (sub : PM) (q : Nat) (qs : List Nat) :
    getPath (pmSet pm n (.msg sub)) (n :: q :: qs) = getPath sub (q :: qs) := by
  simp [getPath, pmGet_pmSet_eq]

/-- `path_walk_spec`: when `a.b.(ext).c = v` is applied, exactly the leaf named by the path holds
    the converted value afterwards (intermediate messages are created on the way) -/
theorem path_walk_spec (cx : Cx) (v : AV) (hv : v.isArr = false) :
    ∀ (parts : List NamePart) (mi : Nat) (pm : PM) (fs : List FieldS) (leaf : FieldS),
      resolvePath cx mi parts = some fs → fs.getLast? = some leaf →
      leaf.card ≠ .rep → leaf.isMap = false → leaf.presence = true →
      (interpField cx mi pm parts v).ok = true →
      ∃ pv, (fieldValue cx leaf v false).val = some pv ∧
        getPath (interpField cx mi pm parts v).pm (fs.map (·.num)) = some pv := by
  intro parts
  induction parts with
  | nil => intro mi pm fs leaf h hl; simp [resolvePath] at h; subst h; simp at hl
  | cons p rest ih =>
    intro mi pm fs leaf hres hlast hcard hmap hpres hok
    unfold resolvePath at hres
    cases hf : resolvePart cx mi p with
    | error e => simp [hf] at hres
    | ok f =>
      simp only [hf] at hres
      cases hr : resolvePath cx f.kind.msgIdx rest with
      | none => simp [hr] at hres
      | some fs' =>
        simp [hr] at hres; subst hres
        cases rest with
        | nil =>
          simp [resolvePath] at hr; subst hr
          simp at hlast; subst hlast
          unfold interpField at hok ⊢
          simp only [hf] at hok ⊢
          have hcore : setOptionField cx mi pm f v false = setOne cx mi pm f (fieldValue cx f v false) := by
            unfold setOptionField
            cases v <;> simp_all [AV.isArr, setOptionFieldCore]
          rw [hcore] at hok ⊢
          obtain ⟨pv, h1, h2⟩ := setOne_ok cx mi pm f _ hok hcard hmap hpres
          exact ⟨pv, h1, by simpa [getPath] using h2⟩
        | cons q qs =>
          unfold interpField at hok ⊢
          simp only [hf] at hok ⊢
          -- the remaining path resolves to a non-empty list
          have hne : ∃ g gs, fs' = g :: gs := by
            unfold resolvePath at hr
            cases hq : resolvePart cx f.kind.msgIdx q with
            | error e => simp [hq] at hr
            | ok g =>
              simp only [hq] at hr
              cases hr2 : resolvePath cx g.kind.msgIdx qs with
              | none => simp [hr2] at hr
              | some gs => simp [hr2] at hr; exact ⟨g, gs, hr.symm⟩
          obtain ⟨g, gs, hgs⟩ := hne
          subst hgs
          have hlast' : (g :: gs).getLast? = some leaf := by
            simpa [List.getLast?_cons_cons] using hlast
          by_cases hm : (!f.kind.isMessage) = true
          · simp [hm] at hok
          · by_cases hrp : (f.card == Card.rep) = true
            · simp [hm, hrp] at hok
            · simp only [hm, hrp, Bool.false_eq_true, if_false] at hok ⊢
              have newCase : ∀ (hne : ∀ sub, pmGet pm f.num ≠ some (.msg sub)),
                  (if oneofConflict cx.sch mi pm f = true then
                      ({ pm := pm, ok := false, err := firstErr (fieldUsage cx f) (some Err.oneof) } : SR)
                    else
                      { pm := pmSet pm f.num (PV.msg (interpField cx f.kind.msgIdx [] (q :: qs) v).pm),
                        ok := (interpField cx f.kind.msgIdx [] (q :: qs) v).ok,
                        err := firstErr (fieldUsage cx f) (interpField cx f.kind.msgIdx [] (q :: qs) v).err }).ok = true →
                  ∃ pv, (fieldValue cx leaf v false).val = some pv ∧
                    getPath (if oneofConflict cx.sch mi pm f = true then
                      ({ pm := pm, ok := false, err := firstErr (fieldUsage cx f) (some Err.oneof) } : SR)
                    else
                      { pm := pmSet pm f.num (PV.msg (interpField cx f.kind.msgIdx [] (q :: qs) v).pm),
                        ok := (interpField cx f.kind.msgIdx [] (q :: qs) v).ok,
                        err := firstErr (fieldUsage cx f) (interpField cx f.kind.msgIdx [] (q :: qs) v).err }).pm
                      (List.map (fun x => x.num) (f :: g :: gs)) = some pv := by
                intro _ hok2
                by_cases hoc : oneofConflict cx.sch mi pm f = true
                · simp [hoc] at hok2
                · simp only [hoc, Bool.false_eq_true, if_false] at hok2 ⊢
                  obtain ⟨pv, h1, h2⟩ := ih f.kind.msgIdx [] (g :: gs) leaf hr hlast' hcard hmap hpres hok2
                  refine ⟨pv, h1, ?_⟩
                  simp only [List.map]
                  rw [getPath_cons_set]
                  exact h2
              cases hget : pmGet pm f.num with
              | none => simp only [hget] at hok ⊢; exact newCase (by simp [hget]) hok
              | some w =>
                cases w with
                | msg sub =>
                  simp only [hget] at hok ⊢
                  obtain ⟨pv, h1, h2⟩ := ih f.kind.msgIdx sub (g :: gs) leaf hr hlast' hcard hmap hpres hok
                  refine ⟨pv, h1, ?_⟩
                  simp only [List.map]
                  rw [getPath_cons_set]
                  exact h2
                | num n => simp only [hget] at hok ⊢; exact newCase (by simp [hget]) hok
                | bytes n => simp only [hget] at hok ⊢; exact newCase (by simp [hget]) hok
                | many n => simp only [hget] at hok ⊢; exact newCase (by simp [hget]) hok

/-- `set_twice_rejected`: a non-repeated field that is already set is not set again: the statement
    is not applied and the message is unchanged (the error is "already set" unless the value itself is bad) -/
theorem set_twice_rejected (cx : Cx) (mi : Nat) (pm : PM) (p : NamePart) (f : FieldS) (v : AV)
    (hv : v.isArr = false) (hf : resolvePart cx mi p = .ok f)
    (hcard : f.card ≠ .rep) (hmap : f.isMap = false) (hhas : pmHas pm f = true) :
    (interpField cx mi pm [p] v).ok = false ∧ (interpField cx mi pm [p] v).pm = pm ∧
    ((fieldValue cx f v false).val ≠ none → oneofConflict cx.sch mi pm f = false →
        (fieldValue cx f v false).err = none → fieldUsage cx f = none →
        (interpField cx mi pm [p] v).err = some .dup) := by
  have hc : (f.card == Card.rep) = false := by cases h : f.card <;> simp_all
  have hcore : setOptionField cx mi pm f v false = setOne cx mi pm f (fieldValue cx f v false) := by
    unfold setOptionField
    cases v <;> simp_all [AV.isArr, setOptionFieldCore]
  unfold interpField
  simp only [hf, hcore]
  unfold setOne
  cases hval : (fieldValue cx f v false).val with
  | none => simp
  | some pv =>
    simp only [hmap, hc, hhas, Bool.false_eq_true, if_false, if_true]
    split
    · simp_all
    · simp_all [firstErr]

/-- `oneof_conflict_rejected`: a second member of a oneof is not set -/
theorem oneof_conflict_rejected (cx : Cx) (mi : Nat) (pm : PM) (f : FieldS) (r : VR)
    (hconf : oneofConflict cx.sch mi pm f = true) :
    (setOne cx mi pm f r).ok = false ∧ (setOne cx mi pm f r).pm = pm := by
  unfold setOne
  cases r.val <;> simp [hconf]

/-! ## Nothing stays uninterpreted after success -/

def strictRun (s : Schema) (target edition mi : Nat) (fc : Option FieldCtx) (stmts : List Stmt) : ElemR :=
  runElem s ⟨false, true⟩ target edition mi fc stmts

/-- last clause of C20 at full strength: every element kind, fields included -/
def C20_none_left_full : Prop :=
  ∀ s target edition mi fc stmts,
    (strictRun s target edition mi fc stmts).fatal = none → (strictRun s target edition mi fc stmts).remain = []

/-- `optional int32 f = 1 [default.foo = 1];` — before 3b5d7843 interpretation succeeded and left the
    statement in uninterpreted_option (refuted statement of the first delivery); now it is rejected -/
def witnessStmt : Stmt := ⟨[⟨false, "default"⟩, ⟨false, "foo"⟩], .uint 1⟩
def witnessField : FieldCtx := ⟨.i32, false, false, "f"⟩

theorem multi_part_pseudo_name_rejected :
    (strictRun default 4 0 0 (some witnessField) [witnessStmt]).fatal = some .nofield := by
  decide

def keepP (isField custom : Bool) (p : Nat × Stmt) : Bool :=
  firstIsExt p.2 != custom || isPseudo isField p.2

/-- in a strict pass that returns no error, exactly the statements of the other pass (and the
    one-part field pseudo-option names) are handed on -/
theorem optLoop_strict_remain (cx : Cx) (isField custom : Bool) (mi : Nat) :
    ∀ (stmts : List (Nat × Stmt)) (msg : PM) (remain : List (Nat × Stmt)) (msg' : PM) (remain' : List (Nat × Stmt)),
      optLoop cx false isField custom mi stmts msg remain = (msg', remain', none) →
      remain' = remain ++ stmts.filter (keepP isField custom) := by
  intro stmts
  induction stmts with
  | nil => intro msg remain msg' remain' h; simp [optLoop] at h; simp [h.2]
  | cons a rest ih =>
    intro msg remain msg' remain' h
    obtain ⟨i, st⟩ := a
    unfold optLoop at h
    by_cases h1 : (firstIsExt st != custom) = true
    · simp only [h1, if_true] at h
      have := ih _ _ _ _ h
      simp [this, keepP, h1]
    · simp only [h1] at h
      by_cases h2 : isPseudo isField st = true
      · simp only [h2, if_true] at h
        have := ih _ _ _ _ h
        simp [this, keepP, h2]
      · simp only [h2, Bool.false_eq_true, Bool.and_false, if_false] at h
        have hk : keepP isField custom (i, st) = false := by
          simp [keepP]; exact ⟨by simpa using h1, by simpa using h2⟩
        simp only [List.filter_cons, hk]
        split at h
        · simp at h
        · exact ih _ _ _ _ h

theorem interpElem_strict_remain (s : Schema) (linked : Bool) (target edition : Nat) (isField custom : Bool) (mi : Nat)
    (opts : PM) (un : List (Nat × Stmt))
    (h : (interpElem s ⟨false, linked⟩ target edition isField custom mi opts un).fatal = none) :
    (interpElem s ⟨false, linked⟩ target edition isField custom mi opts un).remain = un.filter (keepP isField custom) := by
  unfold interpElem at h ⊢
  by_cases hu : un.isEmpty = true
  · have : un = [] := by simpa using hu
    subst this
    simp only [List.isEmpty_nil, Bool.not_true, Bool.false_eq_true, if_false, List.filter_nil]
    repeat' split
    all_goals rfl
  · simp only [hu, Bool.not_false, if_true] at h ⊢
    unfold interpOptions at h ⊢
    simp only at h ⊢
    cases hl : optLoop ⟨s, target, linked⟩ false isField custom mi un opts [] with
    | mk msg r2 =>
      obtain ⟨remain, fatal⟩ := r2
      simp only [hl] at h ⊢
      cases fatal with
      | some e => simp at h
      | none =>
        simp only at h ⊢
        have := optLoop_strict_remain _ _ _ _ _ _ _ _ _ hl
        split at h
        · simp at h
        · rename_i hv
          simp only [hv, if_false, Bool.false_eq_true]
          simpa using this

/-- a statement is the pseudo-option `name` -/
def isNamed (name : String) (p : Nat × Stmt) : Bool :=
  p.2.parts.length == 1 && !firstIsExt p.2 && firstName p.2 == name

theorem isPseudo_iff (st : Stmt) (i : Nat) :
    isPseudo true st = (isNamed "default" (i, st) || isNamed "json_name" (i, st)) := by
  obtain ⟨parts, v⟩ := st
  cases parts with
  | nil => simp [isPseudo, isNamed]
  | cons p ps =>
    cases ps with
    | nil => cases hp : p.isExt <;> simp [isPseudo, isNamed, firstIsExt, firstName, hp]
    | cons q qs => simp [isPseudo, isNamed]

theorem findOptionIdxs_nil (name : String) :
    ∀ (l : List (Nat × Stmt)) (i : Nat), findOptionIdxs name l i = [] → ∀ p ∈ l, isNamed name p = false := by
  intro l
  induction l with
  | nil => intro i _ p hp; simp at hp
  | cons a r ih =>
    intro i h p hp
    obtain ⟨j, st⟩ := a
    unfold findOptionIdxs at h
    split at h
    · simp at h
    · rename_i hc
      simp only [List.mem_cons] at hp
      rcases hp with hp | hp
      · subst hp; simpa [isNamed] using hc
      · exact ih _ h p hp

theorem mem_removeAt {α} (l : List α) (n : Nat) (a : α) (h : a ∈ removeAt l n) : a ∈ l := by
  induction l generalizing n with
  | nil => simp [removeAt] at h
  | cons b r ih =>
    cases n with
    | zero => simp [removeAt] at h; simp [h]
    | succ m =>
      simp [removeAt] at h
      rcases h with h | h
      · simp [h]
      · simp [ih _ h]

theorem findOptionIdxs_ge (name : String) :
    ∀ (l : List (Nat × Stmt)) (i : Nat), ∀ j ∈ findOptionIdxs name l i, i ≤ j := by
  intro l
  induction l with
  | nil => intro i j hj; simp [findOptionIdxs] at hj
  | cons a r ih =>
    intro i j hj
    obtain ⟨k, st⟩ := a
    unfold findOptionIdxs at hj
    split at hj
    · simp only [List.mem_cons] at hj
      rcases hj with hj | hj
      · omega
      · have := ih _ _ hj; omega
    · have := ih _ _ hj; omega

/-- the unique match is the one that gets removed -/
theorem findOptionIdxs_single (name : String) :
    ∀ (l : List (Nat × Stmt)) (i j : Nat), findOptionIdxs name l i = [j] →
      ∀ p ∈ removeAt l (j - i), isNamed name p = false := by
  intro l
  induction l with
  | nil => intro i j h; simp [findOptionIdxs] at h
  | cons a r ih =>
    intro i j h p hp
    obtain ⟨k, st⟩ := a
    unfold findOptionIdxs at h
    split at h
    · -- the head matches: it is the one, the tail has no match
      simp only [List.cons.injEq] at h
      obtain ⟨hij, htl⟩ := h
      subst hij
      simp [removeAt] at hp
      exact findOptionIdxs_nil name r _ htl p hp
    · rename_i hc
      have hge := findOptionIdxs_ge name r (i + 1) j (by rw [h]; simp)
      have hji : j - i = (j - (i + 1)) + 1 := by omega
      rw [hji] at hp
      simp [removeAt] at hp
      rcases hp with hp | hp
      · subst hp; simpa [isNamed] using hc
      · exact ih _ _ h p hp

theorem findOption_none (un : List (Nat × Stmt)) (name : String) (h : findOption un name = .ok none) :
    ∀ p ∈ un, isNamed name p = false := by
  unfold findOption at h
  cases hi : findOptionIdxs name un 0 with
  | nil => exact findOptionIdxs_nil name un 0 hi
  | cons j js => cases js <;> simp [hi] at h

theorem findOption_some (un : List (Nat × Stmt)) (name : String) (i : Nat) (h : findOption un name = .ok (some i)) :
    ∀ p ∈ removeAt un i, isNamed name p = false := by
  unfold findOption at h
  cases hi : findOptionIdxs name un 0 with
  | nil => simp [hi] at h
  | cons j js =>
    cases js with
    | cons _ _ => simp [hi] at h
    | nil =>
      simp [hi] at h; subst h
      simpa using findOptionIdxs_single name un 0 j hi

theorem jsonStep_clears (fc : FieldCtx) (un : List (Nat × Stmt)) (h : (jsonStep fc un).2.2.1 = none) :
    (∀ p ∈ (jsonStep fc un).1, isNamed "json_name" p = false) ∧
    (∀ p ∈ (jsonStep fc un).1, p ∈ un) ∧ (jsonStep fc un).2.2.2 = false := by
  unfold jsonStep at h ⊢
  cases hf : findOption un "json_name" with
  | error e => simp [hf] at h
  | ok o =>
    cases o with
    | none => simp only [hf]; exact ⟨findOption_none un _ hf, fun _ hp => hp, trivial⟩
    | some i =>
      simp only [hf] at h ⊢
      split at h
      · split at h
        · simp at h
        · split at h
          · simp at h
          · rename_i h1 h2
            simp only [h1, h2, if_false, Bool.false_eq_true]
            exact ⟨findOption_some un _ i hf, fun p hp => mem_removeAt _ _ _ hp, trivial⟩
      · simp at h

theorem defaultStep_clears (s : Schema) (linked : Bool) (fc : FieldCtx) (un : List (Nat × Stmt))
    (h : (defaultStep s linked fc un).2.2 = none) :
    (∀ p ∈ (defaultStep s linked fc un).1, isNamed "default" p = false) ∧
    (∀ p ∈ (defaultStep s linked fc un).1, p ∈ un) := by
  unfold defaultStep at h ⊢
  cases hf : findOption un "default" with
  | error e => simp [hf] at h
  | ok o =>
    cases o with
    | none => simp only [hf]; exact ⟨findOption_none un _ hf, fun _ hp => hp⟩
    | some i =>
      simp only [hf] at h ⊢
      split at h
      · simp at h
      · split at h
        · simp at h
        · rename_i h1 h2
          simp only [h1, h2, if_false, Bool.false_eq_true]
          split at h
          · simp at h
          · rename_i txt htxt
            simp only [htxt]
            exact ⟨findOption_some un _ i hf, fun p hp => mem_removeAt _ _ _ hp⟩

/-- after a pseudo-option pass without error no one-part `default` / `json_name` is left -/
theorem pseudoOptions_clears (s : Schema) (linked : Bool) (fc : FieldCtx) (un : List (Nat × Stmt))
    (h : (pseudoOptions s linked fc un).err = none) :
    ∀ p ∈ (pseudoOptions s linked fc un).un, isPseudo true p.2 = false := by
  unfold pseudoOptions at h ⊢
  simp only at h ⊢
  by_cases hr : (jsonStep (unlinkedFieldCtx linked fc) un).2.2.2 = true
  · simp only [hr, if_true] at h
    have := (jsonStep_clears _ un h).2.2
    rw [hr] at this; exact absurd this (by decide)
  · simp only [hr, if_false, Bool.false_eq_true] at h ⊢
    have hj : (jsonStep (unlinkedFieldCtx linked fc) un).2.2.1 = none := by
      cases hx : (jsonStep (unlinkedFieldCtx linked fc) un).2.2.1 <;> simp [hx, firstErr] at h ⊢
    have hd : (defaultStep s linked (unlinkedFieldCtx linked fc) (jsonStep (unlinkedFieldCtx linked fc) un).1).2.2 = none := by
      simpa [hj, firstErr] using h
    obtain ⟨j1, _, _⟩ := jsonStep_clears _ un hj
    obtain ⟨d1, d2⟩ := defaultStep_clears s linked _ _ hd
    intro p hp
    rw [isPseudo_iff p.2 p.1]
    simp [d1 p hp, j1 p (d2 p hp)]

theorem filter_keepP_noPseudo (custom : Bool) (l : List (Nat × Stmt)) (h : ∀ p ∈ l, isPseudo true p.2 = false) :
    l.filter (keepP true custom) = l.filter (fun p => firstIsExt p.2 != custom) := by
  apply List.filter_congr
  intro p hp
  simp [keepP, h p hp]

/-- a sub-list of statements without pseudo-options has none either -/
theorem noPseudo_filter (l : List (Nat × Stmt)) (q : Nat × Stmt → Bool) (h : ∀ p ∈ l, isPseudo true p.2 = false) :
    ∀ p ∈ l.filter q, isPseudo true p.2 = false :=
  fun p hp => h p (List.mem_filter.mp hp).1

/-- `no_uninterpreted_left`: C20's last clause holds at full strength (since 3b5d7843): whenever
    strict interpretation of an element — of any kind, fields with their pseudo-options included —
    succeeds, no option statement stays uninterpreted. -/
theorem no_uninterpreted_left : C20_none_left_full := by
  intro s target edition mi fc stmts h
  unfold strictRun runElem at h ⊢
  cases fc with
  | none =>
    simp only at h ⊢
    cases h1 : (interpElem s ⟨false, true⟩ target edition false false mi [] (zipIdxFrom stmts 0)).fatal with
    | some e => simp [h1] at h
    | none =>
      simp only [h1] at h ⊢
      have r1 := interpElem_strict_remain s true target edition false false mi [] _ h1
      cases h2 : (interpElem s ⟨false, true⟩ target edition false true mi
          (interpElem s ⟨false, true⟩ target edition false false mi [] (zipIdxFrom stmts 0)).opts
          (interpElem s ⟨false, true⟩ target edition false false mi [] (zipIdxFrom stmts 0)).remain).fatal with
      | some e => simp [h2] at h
      | none =>
        have r2 := interpElem_strict_remain s true target edition false true mi _ _ h2
        rw [r2, r1]
        simp only [List.filter_filter, List.map_eq_nil_iff, List.filter_eq_nil_iff]
        intro a _
        have hp : ∀ st, isPseudo false st = false := by
          intro st; unfold isPseudo; split <;> simp
        simp only [keepP, hp, Bool.or_false]
        cases firstIsExt a.2 <;> simp
  | some f =>
    simp only at h ⊢
    -- first pass
    generalize hun : zipIdxFrom stmts 0 = un at h ⊢
    unfold interpFieldElem at h ⊢
    simp only [Bool.false_eq_true, if_false, Bool.not_false, Bool.and_true, Bool.not_true, Bool.and_false] at h ⊢
    -- the pseudo-option pass of the first call
    generalize hp1 : (if (!un.isEmpty) = true then pseudoOptions s true f un else ⟨un, none, none, none⟩) = P1 at h ⊢
    have hP1 : P1.err = none → ∀ p ∈ P1.un, isPseudo true p.2 = false := by
      intro he
      by_cases hne : (!un.isEmpty) = true
      · simp only [hne, if_true] at hp1; subst hp1; exact pseudoOptions_clears s true f un he
      · simp only [hne, if_false, Bool.false_eq_true] at hp1; subst hp1
        have : un = [] := by simpa using hne
        subst this; intro p hp; simp at hp
    cases he1 : P1.err with
    | some e => simp [he1] at h
    | none =>
      simp only [he1] at h ⊢
      have clean := hP1 he1
      by_cases hu1 : P1.un.isEmpty = true
      · -- nothing left after the pseudo-options
        simp only [hu1, if_true] at h ⊢
        have : P1.un = [] := by simpa using hu1
        simp [this]
      · simp only [hu1, if_false, Bool.false_eq_true] at h ⊢
        cases h1 : (interpElem s ⟨false, true⟩ target edition true false mi [] P1.un).fatal with
        | some e => simp [h1] at h
        | none =>
          simp only [h1] at h ⊢
          have r1 := interpElem_strict_remain s true target edition true false mi [] _ h1
          rw [filter_keepP_noPseudo false _ clean] at r1
          generalize hR : (interpElem s ⟨false, true⟩ target edition true false mi [] P1.un).remain = R at h r1 ⊢
          generalize (interpElem s ⟨false, true⟩ target edition true false mi [] P1.un).opts = O at h ⊢
          have cleanR : ∀ p ∈ R, isPseudo true p.2 = false := by
            rw [r1]; exact noPseudo_filter _ _ clean
          by_cases hu2 : R.isEmpty = true
          · simp only [hu2, if_true] at h ⊢
            have : R = [] := by simpa using hu2
            simp [this]
          · simp only [hu2, if_false, Bool.false_eq_true] at h ⊢
            cases h2 : (interpElem s ⟨false, true⟩ target edition true true mi O R).fatal with
            | some e => simp [h2] at h
            | none =>
              simp only [h2]
              have r2 := interpElem_strict_remain s true target edition true true mi O R h2
              rw [filter_keepP_noPseudo true _ cleanR] at r2
              rw [r2, r1]
              simp only [List.filter_filter, List.map_eq_nil_iff, List.filter_eq_nil_iff]
              intro a _
              cases firstIsExt a.2 <;> simp

/-! ## The two former panics are rejections (28d6433e, 47c63915)

The model has no panic outcome any more (`VR`, `SR`, `Err` carry none): on every input every model
function returns a value or one of the listed error classes, and the correspondence run compares
that with the implementation — an implementation panic would be a disagreement and an oracle
failure (`impl-panics[…]`). -/

/-- an extension of another message inside a message literal is an error (first delivery: a
    dynamicpb panic); `msgLit` turns the error into an invalid literal -/
theorem foreign_extension_in_literal_rejected (cx : Cx) (mi : Nat) (fqn : String) (f : FieldS)
    (hl : cx.linked = true) (hf : cx.sch.findExt fqn = some f) (hfo : foreignExt cx.sch mi f = true) :
    resolveLiteralExt cx mi fqn = .error .extendee := by
  simp [resolveLiteralExt, hl, hf, hfo]

/-- … and an extension of the literal's own message resolves -/
theorem own_extension_in_literal_resolves (cx : Cx) (mi : Nat) (fqn : String) (f : FieldS)
    (hl : cx.linked = true) (hf : cx.sch.findExt fqn = some f) (hfo : foreignExt cx.sch mi f = false) :
    resolveLiteralExt cx mi fqn = .ok f := by
  simp [resolveLiteralExt, hl, hf, hfo]

/-- a field name that matches a scalar, enum or plain message field only after lower-casing is
    "not found" (first delivery: nil dereference for scalar and enum fields) -/
theorem lowercase_match_of_non_group_not_found (s : Schema) (mi : Nat) (name : String) (f : FieldS)
    (h1 : findByName (s.msg mi).fields name = none)
    (h2 : findByName (s.msg mi).fields name.toLower = some f)
    (h3 : ∀ g, f.kind ≠ .group g) :
    lookupLiteralField s mi name = none := by
  unfold lookupLiteralField
  simp only [h1, h2]   -- the catch-all arm of the match: no `group` kind by h3

/-! ## Which statements are rejected: validation after the two passes -/

/-- acceptance implies that the final options message has its required fields and only uses
    features the file's edition supports (protoc validates every options message) -/
def C20_validated_full : Prop :=
  ∀ s target edition mi fc stmts,
    (strictRun s target edition mi fc stmts).fatal = none →
      reqV s mi (.msg (strictRun s target edition mi fc stmts).opts) = true ∧
      featuresOK s edition mi (strictRun s target edition mi fc stmts).opts = true

/-- a two-message schema: FieldOptions-like message 0 with `features` (message 1), and a feature `x`
    introduced in edition 2024 (1001) -/
def vSchema : Schema :=
  { enums := [],
    msgs := [⟨"O", "O", "", [⟨"features", 21, .msg 1, .opt, false, true, none, [], 0, 0, "O.features", "", false, false⟩], false⟩,
             ⟨"F", "F", "", [⟨"x", 1, .i32, .opt, false, true, none, [], 1001, 0, "F.x", "", false, false⟩], false⟩],
    exts := [], optIdx := [0, 0, 0, 0, 0, 0, 0, 0, 0] }

def vStmt : Stmt := ⟨[⟨false, "features"⟩, ⟨false, "x"⟩], .uint 1⟩

/-- witness: `int32 f = 1 [features.x = 1];` in an edition-2023 file is accepted although `x` does
    not exist before edition 2024 — interpretFieldOptions returns before the second-pass validation
    when no option is left; the same statement on a message is rejected -/
theorem field_options_not_validated :
    (strictRun vSchema 4 1000 0 (some witnessField) [vStmt]).fatal = none ∧
    featuresOK vSchema 1000 0 (strictRun vSchema 4 1000 0 (some witnessField) [vStmt]).opts = false ∧
    (strictRun vSchema 3 1000 0 none [vStmt]).fatal = some .validate := by
  decide

theorem C20_validated_full_refuted : ¬ C20_validated_full := by
  intro h
  have := (h vSchema 4 1000 0 (some witnessField) [vStmt] field_options_not_validated.1).2
  rw [field_options_not_validated.2.1] at this
  exact absurd this (by decide)

/-- partial: on every element that is not a field, feature lifetimes are always validated -/
theorem features_validated_nonfield (s : Schema) (target edition mi : Nat) (stmts : List Stmt)
    (h : (strictRun s target edition mi none stmts).fatal = none) :
    featuresOK s edition mi (strictRun s target edition mi none stmts).opts = true := by
  unfold strictRun runElem at h ⊢
  simp only at h ⊢
  cases h1 : (interpElem s ⟨false, true⟩ target edition false false mi [] (zipIdxFrom stmts 0)).fatal with
  | some e => simp [h1] at h
  | none =>
    simp only [h1] at h ⊢
    generalize (interpElem s ⟨false, true⟩ target edition false false mi [] (zipIdxFrom stmts 0)).opts = o1 at h ⊢
    generalize (interpElem s ⟨false, true⟩ target edition false false mi [] (zipIdxFrom stmts 0)).remain = u1 at h ⊢
    cases h2 : (interpElem s ⟨false, true⟩ target edition false true mi o1 u1).fatal with
    | some e => simp [h2] at h
    | none =>
      simp only
      unfold interpElem at h2 ⊢
      by_cases hu : u1.isEmpty = true
      · simp only [hu, Bool.not_true, Bool.false_eq_true, if_false, if_true] at h2 ⊢
        by_cases hf : featuresOK s edition mi o1 = true
        · simp [hf]
        · simp [hf] at h2
      · simp only [hu, Bool.not_false, if_true] at h2 ⊢
        unfold interpOptions at h2 ⊢
        simp only at h2 ⊢
        cases hl : optLoop ⟨s, target, true⟩ false false true mi u1 o1 [] with
        | mk msg r2 =>
          obtain ⟨remain, fatal⟩ := r2
          simp only [hl] at h2 ⊢
          cases fatal with
          | some e => simp at h2
          | none =>
            simp only at h2 ⊢
            by_cases hv : (true && ((!false && !reqV s mi (.msg msg)) || !featuresOK s edition mi msg)) = true
            · exfalso
              simp at hv
              simp [hv] at h2
            · simp only [hv, if_false, Bool.false_eq_true]
              simp at hv
              exact hv.2

/-! ## Feature lifetimes and the message-set gate -/

/-- `feature_lifetime_rule` (validateFeatureSupport): a feature field may be used in edition `e` iff
    it has been introduced (edition_introduced ≤ e) and not yet removed (e < edition_removed);
    edition_deprecated never rejects -/
theorem feature_lifetime_rule (e : Nat) (f : FieldS) :
    featureFieldOK e f = true ↔ (f.intro = 0 ∨ f.intro ≤ e) ∧ (f.removed = 0 ∨ e < f.removed) := by
  unfold featureFieldOK
  simp only [Bool.and_eq_true, Bool.not_eq_true', Bool.and_eq_false_iff, bne_eq_false_iff_eq,
    decide_eq_false_iff_not, Nat.not_lt, ge_iff_le, Nat.not_le]

/-- the same rule for the values of an enum-typed feature; unknown numbers are not checked -/
theorem enum_value_lifetime_rule (en : EnumS) (e : Nat) (n : Int) :
    enumValueOK en e n = true ↔
      ∀ i r, en.life.find? (·.1 == n) = some (n, i, r) → (i = 0 ∨ i ≤ e) ∧ (r = 0 ∨ e < r) := by
  unfold enumValueOK
  cases h : en.life.find? (·.1 == n) with
  | none => simp
  | some x =>
    obtain ⟨m, i, r⟩ := x
    have hm : m = n := by
      have := List.find?_some h
      simpa using this
    subst hm
    simp only [Bool.and_eq_true, Bool.not_eq_true', Bool.and_eq_false_iff, bne_eq_false_iff_eq,
      decide_eq_false_iff_not, Nat.not_lt, ge_iff_le, Nat.not_le, Option.some.injEq, Prod.mk.injEq, true_and]
    constructor
    · intro hh i' r' heq; obtain ⟨h1, h2⟩ := heq; subst h1; subst h2; exact hh
    · intro hh; exact hh i r ⟨rfl, rfl⟩

/-- only extensions of a message with message-set wire format hit the gate -/
theorem msgSetGate_ordinary_field (s : Schema) (f : FieldS) (h : f.extendee = "") : msgSetGate s f = none := by
  simp [msgSetGate, h]

/-! ## Integer literals for float options: one rounding step -/

/-- an integer that fits the significand is not rounded at all -/
theorem roundToSig_exact (p n : Nat) (h : n < 2 ^ p) : roundToSig p n = (n, 0) := by
  unfold roundToSig
  by_cases hn : n = 0
  · simp [hn]
  · have hlt : n.log2 < p := (Nat.log2_lt hn).mpr h
    have : n.log2 + 1 ≤ p := hlt
    simp [hn, this]

/-- `float32(n)` is exact below 2^24 and `float64(n)` below 2^53: the bits are those of `n` itself -/
theorem natToF32_exact (n : Nat) (h : n < 2 ^ 24) : natToF32 n = packSig 24 127 255 n 0 := by
  unfold natToF32; rw [roundToSig_exact 24 n h]

theorem natToF64_exact (n : Nat) (h : n < 2 ^ 53) : natToF64 n = packSig 53 1023 2047 n 0 := by
  unfold natToF64; rw [roundToSig_exact 53 n h]

/-- the model converts an integer literal for a float field in ONE step (Go: `float32(u)`), in
    option values and inside message literals alike … -/
theorem float_option_from_integer_single_rounding (n : Nat) (inside : Bool) :
    scalarFieldValue .flt (.uint n) inside = .ok (.num (natToF32 n)) := by
  simp [scalarFieldValue, f32OfNat]

/-- … and so does the protoc reference for option values (`static_cast<float>(uint64)`) -/
theorem float_option_from_integer_eq_protoc (n : Nat) :
    refScalar protoc .flt (.uint n) false = .ok (.num (natToF32 n)) := by
  simp [refScalar, intRange, isSigned32, isUnsigned32, isSigned64, isUnsigned64]

/-- rounding once and rounding via float64 are different functions: 2^60 + 2^36 + 1 lies just above
    the midpoint of two float32 values (→ 0x5d800001), its float64 image lies exactly on it
    (→ ties-to-even 0x5d800000) -/
theorem single_vs_double_rounding_witness :
    natToF32 (2 ^ 60 + 2 ^ 36 + 1) = 0x5d800001 ∧ f64ToF32 (natToF64 (2 ^ 60 + 2 ^ 36 + 1)) = 0x5d800000 := by
  decide +kernel

theorem single_ne_double_rounding :
    natToF32 (2 ^ 60 + 2 ^ 36 + 1) ≠ f64ToF32 (natToF64 (2 ^ 60 + 2 ^ 36 + 1)) := by
  rw [single_vs_double_rounding_witness.1, single_vs_double_rounding_witness.2]; decide

/-- ties go to the even significand, on both sides of 2^24 -/
theorem natToF32_ties_to_even :
    natToF32 16777217 = natToF32 16777216 ∧ natToF32 16777219 = natToF32 16777220 ∧
    natToF32 16777218 ≠ natToF32 16777216 := by
  decide +kernel

/-- monotone across the first rounding boundary (complete finite table: 2^24 ± 128), and across
    the witness region at every exponent 54..63 -/
theorem natToF32_monotone_near_2_24 :
    ∀ n < 256, natToF32 (2 ^ 24 - 128 + n) ≤ natToF32 (2 ^ 24 - 128 + n + 1) := by
  decide +kernel

theorem natToF32_single_ne_double_each_exponent :
    ∀ j < 10, natToF32 (2 ^ (54 + j) + 2 ^ (30 + j) + 1) = f64ToF32 (natToF64 (2 ^ (54 + j) + 2 ^ (30 + j) + 1)) + 1 := by
  decide +kernel

/-! ## Non-vacuity -/

/-- the hypotheses of `scalar_coercion_eq` are satisfiable and the conclusion is not trivial -/
example : agree (scalarFieldValue .i32 (.uint 7) false) (refScalar protoc .i32 (.uint 7) false) :=
  scalar_coercion_eq .i32 (.uint 7) false rfl (by simp [WF]) (by simp [Divergent, isUnsigned, isFloat, isUnsigned32, isUnsigned64])

example : scalarFieldValue .i32 (.uint 2147483648) false = .error .range := by simp [scalarFieldValue, maxI32]
example : scalarFieldValue .u32 (.sint 0) false = .ok (.num 0) := by simp [scalarFieldValue, maxU32]

end PCV.Props.C20

#print axioms PCV.Props.C20.scalar_coercion_eq
#print axioms PCV.Props.C20.C20_scalar_full_refuted
#print axioms PCV.Props.C20.float_ident_case_witness
#print axioms PCV.Props.C20.bool_ident_rules
#print axioms PCV.Props.C20.bool_ident_eq_protoc
#print axioms PCV.Props.C20.enum_coercion_eq
#print axioms PCV.Props.C20.target_type_rule
#print axioms PCV.Props.C20.target_type_rule_eq_protoc
#print axioms PCV.Props.C20.accepted_first_part_allows_target
#print axioms PCV.Props.C20.path_walk_frame
#print axioms PCV.Props.C20.unresolved_first_part_unchanged
#print axioms PCV.Props.C20.path_walk_spec
#print axioms PCV.Props.C20.set_twice_rejected
#print axioms PCV.Props.C20.oneof_conflict_rejected
#print axioms PCV.Props.C20.multi_part_pseudo_name_rejected
#print axioms PCV.Props.C20.pseudoOptions_clears
#print axioms PCV.Props.C20.no_uninterpreted_left
#print axioms PCV.Props.C20.C20_validated_full_refuted
#print axioms PCV.Props.C20.features_validated_nonfield
#print axioms PCV.Props.C20.foreign_extension_in_literal_rejected
#print axioms PCV.Props.C20.lowercase_match_of_non_group_not_found
#print axioms PCV.Props.C20.feature_lifetime_rule
#print axioms PCV.Props.C20.enum_value_lifetime_rule
#print axioms PCV.Props.C20.roundToSig_exact
#print axioms PCV.Props.C20.float_option_from_integer_single_rounding
#print axioms PCV.Props.C20.float_option_from_integer_eq_protoc
#print axioms PCV.Props.C20.single_ne_double_rounding
#print axioms PCV.Props.C20.natToF32_ties_to_even
#print axioms PCV.Props.C20.natToF32_monotone_near_2_24
#print axioms PCV.Props.C20.natToF32_single_ne_double_each_exponent
