/-
C23 — Source code info is well-formed in every mode.

"In every source-info mode, each location's path names an element or field that exists in the
descriptor, each span is a well-formed range (start no later than end) inside the file, and each
comment is text taken from the source. The extra-comments mode has the same locations as the
standard mode and differs only by added comments. The extra-option-locations mode only adds
locations inside option values."

Model: `PCV.SourceInfo.generate fi ec xo file` (sourceinfo/source_code_info.go, all of it) on the file
tables `fi` of the lexer model and an abstract AST + option index.  `ec` / `xo` are the two flags that
`task.link` (compiler.go) derives from `SourceInfoMode` (bits 2 and 4).  Specification:
`PCV.Spec.SourceInfo` (`descSchema` = descriptor.proto, compared with descriptorpb and internal/tags on
every run; `pathValid`, `spanOk`, mode relations).  The engine `srcinfo` evaluates the same predicates
on the REAL compiler's output for every generated file × {1, 2, 4, 6}.

Proved here, for EVERY abstract AST (all node kinds of the walk, not only a subset):

* `model_paths_typed`      every path is well-typed against descriptor.proto in all four modes (field
                           numbers exist at the message type reached, indexes exactly after repeated
                           fields and non-negative, nothing after a scalar), up to the options
                           messages, whose contents come from the option interpreter (not modelled;
                           hypothesis `astOk` on the shape of its index).  The index *bounds* and the
                           paths below an options message are checked by the engine on the real
                           descriptor (`pathValid` with the file's own schema).
* `model_spans_ok`         every span is `spanOk`: 3 or 4 elements, zero-based, start ≤ end, inside the
                           file — on the tables of the lexer model (`lexAll_wf`), for nodes whose tokens
                           exist, are in order and end in a character's first byte.
* `span_encoding`          three elements iff start and end line coincide.
* `extraComments_same_locations`  mode 2 (6) has exactly the paths and spans of mode 1 (4), in order.
* `extraOptionLocs_only_adds_std` mode 4 ⊇ mode 1 as a sublist with identical locations (comments too);
  `extraOptionLocs_only_adds`     mode 6 ⊇ mode 2 on (path, span);
  `extraOptionLocs_exact`         the added requests are exactly those made under the flag;
  `added_inside_options`          every added path strictly extends a path that leads to an options
                                  message (`insideOptions`).
* `attribute_extra_vs_std`  how `WithExtraComments` changes the attribution of one gap: not at all,
                           except that a lone comment between a token and a closing `} ] ) , ;` on
                           the same lines is donated to the previous token instead of staying detached.

Refuted: `C23_extra_comments_only_adds` ("differs only by added comments").  Witness: a group without a
label (inside a oneof) with a leading comment: with extra comments the comment moves from the group's
message location [4,0,3,0] to the location of the field's type [4,0,2,0,5], because the `group`
keyword is the first token of both and `newLoc` for the type runs first and records the comment as used
(`generateSourceCodeInfoForField` guards the label against this, not the type).

Found by the engine only (the option interpreter is not modelled): with extra option locations the
paths of fields inside an expanded `google.protobuf.Any` literal continue below `Any.value` (a `bytes`
field): `…, 6 (any), 2 (value), 1` names no field of the descriptor.
-/
import PCV.Model.Lex
import PCV.Model.SourceInfo
import PCV.Spec.SourceInfo
import PCV.Lemmas.SourceInfo
import PCV.Lemmas.SourceInfoPaths
import PCV.Lemmas.SourceInfoSpans
set_option linter.unusedSimpArgs false
namespace PCV.Props.C23
open PCV.SourceInfo PCV.FileInfo
open PCV.Lemmas.SourceInfo PCV.Lemmas.SourceInfoPaths PCV.Lemmas.SourceInfoSpans
open PCV.Spec.SourceInfo (descSchema isOptionsType insideOptions spanOk lineWidths pathValid)

/-- a model location as the specification sees it -/
def toSpec (l : PCV.SourceInfo.Loc) : PCV.Spec.SourceInfo.Loc :=
  { path := l.path, span := l.span, lead := l.lead, trail := l.trail, detached := l.detached }

theorem mem_generate (fi : FI) (ec xo : Bool) (f : File) (l : PCV.SourceInfo.Loc)
    (hl : l ∈ generate fi ec xo f) : ∃ r ∈ genFile xo f, l.path = r.path ∧ l.span = reqSpan fi r := by
  have h := realize_path_span fi ec (genFile xo f) []
  have hm : (l.path, l.span) ∈ (generate fi ec xo f).map (fun l => (l.path, l.span)) :=
    List.mem_map.mpr ⟨l, hl, rfl⟩
  rw [generate, h] at hm
  obtain ⟨r, hr, he⟩ := List.mem_map.mp hm
  simp only [Prod.mk.injEq] at he
  exact ⟨r, hr, he.1.symm, he.2.symm⟩

/-- **Paths.** In every mode, every location's path is well-typed against descriptor.proto up to the
    options messages. All ASTs; `astOk` is the hypothesis on the (unmodelled) option index. -/
theorem model_paths_typed (fi : FI) (ec xo : Bool) (f : File) (hok : astOk f = true) :
    ∀ l ∈ generate fi ec xo f, pathTyped descSchema isOptionsType 0 l.path = true := by
  intro l hl
  obtain ⟨r, hr, hp, _⟩ := mem_generate fi ec xo f l hl
  rw [hp]; exact (good_file xo f hok r hr).1

/-- whatever descriptor value is used, `pathValid` can only fail on an index bound or below an
    options message: it implies this typing -/
theorem pathValid_implies_typed (t : PCV.Spec.SourceInfo.DTree) (p : Path)
    (h : pathValid descSchema isOptionsType 0 t p = true) :
    pathTyped descSchema isOptionsType 0 p = true :=
  pathValid_typed _ _ _ _ _ h

/-- **Extra option locations lie inside option values.** Every request made only under
    WithExtraOptionLocations has a path that strictly extends a path leading to an options message. -/
theorem added_inside_options (f : File) (hok : astOk f = true) :
    ∀ r ∈ genFile true f, nx r = false → ExtendsOptions r.path ∧ insideOptions descSchema 0 r.path = true := by
  intro r hr hx
  have hex : r.extra = true := by
    unfold nx at hx
    cases h : r.extra <;> simp [h] at hx ⊢
  have := (good_file true f hok r hr).2 hex
  exact ⟨this, this.inside⟩

/-- the requests of the walk with the flag, minus the added ones, are the walk without the flag -/
theorem extraOptionLocs_exact (f : File) : (genFile true f).filter nx = genFile false f :=
  genFile_filter f

/-- **Mode 4 ⊇ mode 1**, as a sublist of identical locations (path, span and all comment fields). -/
theorem extraOptionLocs_only_adds_std (fi : FI) (f : File) :
    List.Sublist (generate fi false false f) (generate fi false true f) := by
  unfold generate
  rw [← genFile_filter f]
  exact realize_std_sublist fi (genFile true f) []

/-- **Mode 6 ⊇ mode 2 (and 4 ⊇ 1) on paths and spans.** -/
theorem extraOptionLocs_only_adds (fi : FI) (ec : Bool) (f : File) :
    List.Sublist ((generate fi ec false f).map (fun l => (l.path, l.span)))
      ((generate fi ec true f).map (fun l => (l.path, l.span))) := by
  unfold generate
  rw [realize_path_span, realize_path_span, ← genFile_filter f]
  exact (List.filter_sublist).map _

/-- **Extra comments: same locations.** With and without WithExtraComments the paths and spans are
    the same, in the same order (whatever the other flag). -/
theorem extraComments_same_locations (fi : FI) (xo : Bool) (f : File) :
    PCV.Spec.SourceInfo.samePathsSpans ((generate fi false xo f).map toSpec)
      ((generate fi true xo f).map toSpec) = true := by
  have h1 := realize_path_span fi false (genFile xo f) []
  have h2 := realize_path_span fi true (genFile xo f) []
  simp only [PCV.Spec.SourceInfo.samePathsSpans, List.map_map, beq_iff_eq]
  have : ∀ ls : List PCV.SourceInfo.Loc,
      ls.map ((fun l : PCV.Spec.SourceInfo.Loc => (l.path, l.span)) ∘ toSpec) = ls.map (fun l => (l.path, l.span)) := by
    intro ls; apply List.map_congr_left; intro l _; rfl
  rw [this, this, generate, generate, h1, h2]

/-- **`makeSpan`**: three elements iff the start and end lines coincide, four otherwise; zero-based. -/
theorem span_encoding (s e : Nat × Nat) :
    ((makeSpan s e).length = 3 ↔ s.1 = e.1) ∧ ((makeSpan s e).length = 4 ↔ s.1 ≠ e.1) ∧
    (s.1 = e.1 → makeSpan s e = [(s.1 : Int) - 1, (s.2 : Int) - 1, (e.2 : Int) - 1]) ∧
    (s.1 ≠ e.1 → makeSpan s e = [(s.1 : Int) - 1, (s.2 : Int) - 1, (e.1 : Int) - 1, (e.2 : Int) - 1]) :=
  ⟨(makeSpan_length s e).1, (makeSpan_length s e).2, (makeSpan_encoding s e).1, (makeSpan_encoding s e).2⟩

/-- the tokens of a request exist, are in order, and the last one ends in a character's first byte -/
def ReqOk (fi : FI) (r : Req) : Prop :=
  match r.kind with
  | .file hasKids lastEnd => hasKids = true → (NdOk fi ⟨r.n.s, lastEnd⟩ ∧ EndByteOk fi lastEnd)
  | _ => NdOk fi r.n ∧ EndByteOk fi r.n.e

theorem lineWidths_head (data : List UInt8) : ∃ w, (lineWidths data)[0]? = some w := by
  obtain ⟨w, hw, _⟩ := lw_head data 0
  exact ⟨w, hw⟩

/-- **Spans.** On well-formed file tables (those of the lexer model: `lexAll_wf`) every location of
    every mode has a span that is `spanOk`: 3 or 4 elements, zero-based, start ≤ end, inside the file. -/
theorem model_spans_ok (fi : FI) (hwf : WfFI fi) (ec xo : Bool) (f : File)
    (hreq : ∀ r ∈ genFile xo f, ReqOk fi r) :
    ∀ l ∈ generate fi ec xo f, spanOk (lineWidths fi.data) l.span = true := by
  intro l hl
  obtain ⟨r, hr, _, hs⟩ := mem_generate fi ec xo f l hl
  have hok := hreq r hr
  rw [hs]
  unfold reqSpan
  unfold ReqOk at hok
  cases hk : r.kind with
  | file hasKids lastEnd =>
    rw [hk] at hok
    simp only at hok ⊢
    by_cases hh : hasKids = true
    · simp only [hh, if_true]
      have := nodeSpan_spanOk fi hwf ⟨r.n.s, lastEnd⟩ (hok hh).1 (hok hh).2
      simpa [nodeSpan] using this
    · simp only [hh, if_false, Bool.false_eq_true]
      obtain ⟨w, hw⟩ := lineWidths_head fi.data
      simp [makeSpan, spanOk, PCV.Spec.SourceInfo.inFile, hw]
  | bare => rw [hk] at hok; exact nodeSpan_spanOk fi hwf r.n hok.1 hok.2
  | plain => rw [hk] at hok; exact nodeSpan_spanOk fi hwf r.n hok.1 hok.2
  | cmts => rw [hk] at hok; exact nodeSpan_spanOk fi hwf r.n hok.1 hok.2
  | block b => rw [hk] at hok; exact nodeSpan_spanOk fi hwf r.n hok.1 hok.2

/-- the lexer model's tables are well-formed for every file it lexes to the end -/
theorem lexer_tables_wf (bs : List UInt8) (k : Nat) (h : (PCV.Lex.lexAll false bs).eof = some k) :
    WfFI (PCV.Lex.lexAll false bs).fi := lexAll_wf false bs k h

/-! ### extra comments: what changes in the attribution of one gap -/

/-- the one situation in which `maybeDonate` reads `extraComments`: a single group, attached to both
    the previous token's line and the line of a following closing symbol -/
def ambiguousCloser (prev : Option (Nat × List Cm)) (nStart : Nat) (tk : TK) (leadLex : List Cm) : Prop :=
  ∃ pEnd g, prev = some (pEnd, []) ∧ groupComments leadLex = [g] ∧ tk = .closer ∧
    firstSl g = pEnd ∧ lastEl g = nStart

/-- **`WithExtraComments` and attribution.** For one gap the attribution is the same with and without
    extra comments, except in the `ambiguousCloser` situation, where the lone comment group is detached
    in standard mode and the previous token's trailing comment with extra comments. -/
theorem attribute_extra_vs_std (prev : Option (Nat × List Cm)) (nStart : Nat) (tk : TK) (leadLex : List Cm) :
    (¬ ambiguousCloser prev nStart tk leadLex →
      attributeAbs true prev nStart tk leadLex = attributeAbs false prev nStart tk leadLex) ∧
    (∀ pEnd g, prev = some (pEnd, []) → groupComments leadLex = [g] → tk = .closer →
      firstSl g = pEnd → lastEl g = nStart →
      attributeAbs false prev nStart tk leadLex = ([], [g], []) ∧
      attributeAbs true prev nStart tk leadLex = (g, [], [])) := by
  constructor
  · intro hna
    unfold attributeAbs
    cases prev with
    | none => rfl
    | some p =>
      obtain ⟨pEnd, trailLex⟩ := p
      by_cases ht : trailLex.isEmpty = true
      · have htl : trailLex = [] := by simpa using ht
        subst htl
        have hd : maybeDonate true pEnd nStart tk (groupComments leadLex) =
            maybeDonate false pEnd nStart tk (groupComments leadLex) := by
          unfold maybeDonate
          cases hg : groupComments leadLex with
          | nil => rfl
          | cons g gs =>
            simp only
            by_cases h1 : firstSl g > pEnd + 1
            · simp [h1]
            · simp only [h1, if_false]
              by_cases h2 : (!gs.isEmpty) = true
              · simp [h2]
              · simp only [h2, if_false]
                by_cases h3 : lastEl g < nStart - 1
                · simp [h3]
                · simp only [h3, if_false]
                  by_cases h4 : (tk != .other) = true
                  · simp only [h4, if_true]
                    by_cases h5 : (tk == .closer && firstSl g == pEnd && lastEl g == nStart) = true
                    · exfalso
                      simp only [Bool.and_eq_true, beq_iff_eq] at h5
                      have hgs : gs = [] := by simpa using h2
                      exact hna ⟨pEnd, g, rfl, by rw [hg, hgs], h5.1.1, h5.1.2, h5.2⟩
                    · simp
                      intro a b c
                      apply h5
                      simp [a, b, c]
                  · simp [h4]
        simp only [List.isEmpty_nil, if_true, hd]
      · simp [ht]
  · intro pEnd g hp hg htk hf hl
    subst hp htk
    subst hf hl
    have h1 : ¬ (firstSl g > firstSl g + 1) := by omega
    have h3 : ¬ (lastEl g < lastEl g - 1) := by omega
    constructor
    · simp [attributeAbs, hg, maybeDonate, h1, h3, maybeAttach]
    · simp [attributeAbs, hg, maybeDonate, h1, h3, maybeAttach]

/-! ### the refuted clause -/

/-- "The extra-comments mode … differs only by added comments": every comment of the standard mode is
    still at the same location in the extra-comments mode. -/
def C23_extra_comments_only_adds : Prop :=
  ∀ (fi : FI) (f : File) (xo : Bool),
    PCV.Spec.SourceInfo.onlyAddsComments ((generate fi false xo f).map toSpec)
      ((generate fi true xo f).map toSpec) = true

/-- `message M{oneof o{` newline `//c` newline `group G=1{}}}` -/
def witnessSrc : List UInt8 :=
  [109, 101, 115, 115, 97, 103, 101, 32, 77, 123, 111, 110, 101, 111, 102, 32, 111, 123, 10, 47, 47, 99, 10,
   103, 114, 111, 117, 112, 32, 71, 61, 49, 123, 125, 125, 125]

def witnessFI : FI := (PCV.Lex.lexAll false witnessSrc).fi

/-- the AST the parser builds for it (token indexes; item 6 is the comment) -/
def witnessFile : File :=
  ⟨true, 0, 14, none, none,
    [.msg ⟨0, 14⟩ ⟨2, 2⟩ ⟨1, 1⟩
      [.oneof ⟨3, 13⟩ ⟨5, 5⟩ ⟨4, 4⟩
        [.group ⟨⟨7, 12⟩, true, none, none, ⟨7, 7⟩, false, ⟨8, 8⟩, ⟨10, 10⟩, none⟩ ⟨7, 12⟩ ⟨11, 11⟩ ⟨8, 8⟩ []]]]⟩

/-- standard mode: the comment is the leading comment of the group's message, [4,0,3,0];
    extra comments: it is the leading comment of the field's type, [4,0,2,0,5], and [4,0,3,0] has none -/
theorem witness_moves_comment :
    ((generate witnessFI false false witnessFile).map (fun l => (l.path, l.lead))).filter (fun p => p.2.isSome)
      = [([4, 0, 3, 0], some [99, 10])] ∧
    ((generate witnessFI true false witnessFile).map (fun l => (l.path, l.lead))).filter (fun p => p.2.isSome)
      = [([4, 0, 2, 0, 5], some [99, 10])] := by
  decide +kernel

theorem C23_extra_comments_only_adds_refuted : ¬ C23_extra_comments_only_adds := by
  intro h
  have := h witnessFI witnessFile false
  revert this
  decide +kernel

/-! ### non-vacuity -/

example : astOk witnessFile = true := by decide
example : WfFI witnessFI := lexer_tables_wf witnessSrc 15 (by decide +kernel)
example : ∀ r ∈ genFile false witnessFile, nx r = true := by decide +kernel
/-- an AST with a message-literal option: two added requests, both inside the option -/
def optFile : File :=
  ⟨true, 0, 20, none, none,
    [.msg ⟨0, 20⟩ ⟨2, 2⟩ ⟨1, 1⟩
      [.opt ⟨⟨3, 19⟩, [(⟨4, 6⟩, ⟨5, 5⟩)],
        .msg ⟨8, 18⟩ [.fld ⟨9, 11⟩ ⟨9, 9⟩ false (.scalar ⟨11, 11⟩),
                      .fld ⟨12, 17⟩ ⟨12, 12⟩ false (.array ⟨14, 17⟩ [.scalar ⟨15, 15⟩, .scalar ⟨17, 17⟩])],
        8, some (.mk [50000] true 2 [.mk [50000, 1] true 0 [], .mk [50000, 2, 0] true 0 []])⟩]]⟩
example : astOk optFile = true := by decide
example : ((genFile true optFile).filter (fun r => !nx r)).map (·.path) =
    [[4, 0, 7, 50000, 1], [4, 0, 7, 50000, 2, 0], [4, 0, 7, 50000, 2, 1]] := by decide +kernel

end PCV.Props.C23

#print axioms PCV.Props.C23.model_paths_typed
#print axioms PCV.Props.C23.pathValid_implies_typed
#print axioms PCV.Props.C23.added_inside_options
#print axioms PCV.Props.C23.extraOptionLocs_exact
#print axioms PCV.Props.C23.extraOptionLocs_only_adds_std
#print axioms PCV.Props.C23.extraOptionLocs_only_adds
#print axioms PCV.Props.C23.extraComments_same_locations
#print axioms PCV.Props.C23.span_encoding
#print axioms PCV.Props.C23.model_spans_ok
#print axioms PCV.Props.C23.lexer_tables_wf
#print axioms PCV.Props.C23.attribute_extra_vs_std
#print axioms PCV.Props.C23.witness_moves_comment
#print axioms PCV.Props.C23.C23_extra_comments_only_adds_refuted
