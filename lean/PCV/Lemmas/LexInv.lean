/-
Invariants of the lexer model (`PCV.Model.Lex`): position bookkeeping, the line table,
the item table, the comment table, error offsets, and where a panic can come from.
-/
import PCV.Model.Lex
import PCV.Lemmas.Utf8Dec
import PCV.Lemmas.Pos
namespace PCV.Lemmas.LexInv
open PCV.Lex PCV.FileInfo PCV.Lemmas.Pos PCV.Num

def flat (rs : List Rn) : List UInt8 := rs.flatMap (·.bytes)

@[simp] theorem flat_nil : flat [] = [] := rfl
@[simp] theorem flat_cons (c : Rn) (rs : List Rn) : flat (c :: rs) = c.bytes ++ flat rs := by
  simp [flat]
theorem flat_append (a b : List Rn) : flat (a ++ b) = flat a ++ flat b := by
  simp [flat]

/-- a rune as `DecodeRune` produces it: non-empty; an ASCII rune is its own single byte;
    any other rune consists of bytes ≥ 0x80 only -/
def RnOk (c : Rn) : Prop :=
  c.bytes ≠ [] ∧ (c.r < 0x80 → c.bytes = [UInt8.ofNat c.r]) ∧ (0x80 ≤ c.r → ∀ b ∈ c.bytes, 0x80 ≤ b.toNat)

theorem rnOk_decode (b : UInt8) (bs : List UInt8) :
    RnOk ⟨(Utf8.decodeRune (b :: bs)).1, (b :: bs).take (Utf8.decodeRune (b :: bs)).2⟩ := by
  have hpos := Utf8.decodeRune_width_pos (b :: bs) (by simp)
  by_cases h1 : (Utf8.decodeRune (b :: bs)).2 = 1
  · rcases Utf8.decodeRune_w1 b bs h1 with ⟨hb, hr⟩ | ⟨hb, hr⟩
    · refine ⟨by simp [h1], ?_, ?_⟩
      · intro _; simp [h1, hr]
      · intro h; simp only [hr] at h; omega
    · refine ⟨by simp [h1], ?_, ?_⟩
      · intro h; simp only [hr, Utf8.runeError] at h; omega
      · intro _ x hx; simp only [h1, List.take_succ_cons, List.take_zero, List.mem_singleton] at hx
        subst hx; exact hb
  · have h2 : 2 ≤ (Utf8.decodeRune (b :: bs)).2 := by omega
    obtain ⟨hb, hr, hc⟩ := Utf8.decodeRune_multi b bs h2
    refine ⟨?_, ?_, ?_⟩
    · intro h; have := congrArg List.length h; simp at this; omega
    · intro h; simp only at h; omega
    · intro _ x hx
      obtain ⟨k, hk⟩ : ∃ k, (Utf8.decodeRune (b :: bs)).2 = k + 1 := ⟨(Utf8.decodeRune (b :: bs)).2 - 1, by omega⟩
      rw [hk, List.take_succ_cons] at hx
      simp only [List.mem_cons] at hx
      rcases hx with hx | hx
      · subst hx; omega
      · have := hc x (by rw [hk]; simpa using hx)
        simp only [Utf8.isCont, Bool.and_eq_true, decide_eq_true_eq] at this
        exact this.1

theorem runesGo_spec (s : Nat) (bs : List UInt8) :
    flat (runesGo s bs) = bs.drop s ∧ ∀ c ∈ runesGo s bs, RnOk c := by
  induction bs generalizing s with
  | nil => simp [runesGo]
  | cons b bs ih =>
    cases s with
    | succ s => simpa [runesGo] using ih s
    | zero =>
      simp only [runesGo, flat_cons, List.drop_zero]
      have hpos := Utf8.decodeRune_width_pos (b :: bs) (by simp)
      obtain ⟨k, hk⟩ : ∃ k, (Utf8.decodeRune (b :: bs)).2 = k + 1 := ⟨(Utf8.decodeRune (b :: bs)).2 - 1, by omega⟩
      constructor
      · rw [(ih _).1, hk]
        simp
      · intro c hc
        simp only [List.mem_cons] at hc
        rcases hc with rfl | hc
        · exact rnOk_decode b bs
        · exact (ih _).2 c hc

theorem flat_runes (bs : List UInt8) : flat (runes bs) = bs := by
  simpa [runes] using (runesGo_spec 0 bs).1

theorem runes_ok (bs : List UInt8) : ∀ c ∈ runes bs, RnOk c := (runesGo_spec 0 bs).2

theorem RnOk.w_pos {c : Rn} (h : RnOk c) : 1 ≤ c.w := by
  have := h.1
  cases hb : c.bytes with
  | nil => exact absurd hb this
  | cons x xs => simp [Rn.w, hb]

/-- a rune that is not the newline rune contains no newline byte -/
theorem RnOk.no_nl {c : Rn} (h : RnOk c) (hr : c.r ≠ 10) : ∀ b ∈ c.bytes, b ≠ 10 := by
  intro b hb
  by_cases hlt : c.r < 0x80
  · rw [h.2.1 hlt] at hb
    simp only [List.mem_singleton] at hb
    subst hb
    intro h10
    have h2 : (UInt8.ofNat c.r).toNat = 10 := by rw [h10]; rfl
    simp only [UInt8.toNat_ofNat'] at h2
    omega
  · have := h.2.2 (by omega) b hb
    intro h10; subst h10; simp at this

theorem RnOk.nl_bytes {c : Rn} (h : RnOk c) (hr : c.r = 10) : c.bytes = [10] := by
  have := h.2.1 (by omega)
  rw [this, hr]; rfl

/-! ### the line-start table over concatenations -/

theorem lineStartsFrom_append (i : Nat) (a b : List UInt8) :
    lineStartsFrom i (a ++ b) = lineStartsFrom i a ++ lineStartsFrom (i + a.length) b := by
  induction a generalizing i with
  | nil => simp [lineStartsFrom]
  | cons x xs ih =>
    simp only [List.cons_append, lineStartsFrom, List.length_cons]
    have hl : i + (xs.length + 1) = i + 1 + xs.length := by omega
    split
    · rw [ih, hl]; simp
    · rw [ih, hl]

theorem lineStartsFrom_no_nl (i : Nat) (a : List UInt8) (h : ∀ b ∈ a, b ≠ 10) :
    lineStartsFrom i a = [] := by
  induction a generalizing i with
  | nil => rfl
  | cons x xs ih =>
    have hx : x ≠ 10 := h x (by simp)
    simp only [lineStartsFrom, hx, if_false]
    exact ih _ (fun b hb => h b (by simp [hb]))


/-! ### the core invariant -/

/-- the error `e` was positioned at an offset `o ≤ p` of the file and carries exactly the line and
    column that `SourcePos` computes for `o` on a complete line table: line = 1 + newlines before
    `o`, column = 1 + the byte fold since the line start -/
def ErrAt (data : List UInt8) (p : Nat) (e : Err) : Prop :=
  ∃ o : Nat, e.off = (o : Int) ∧ o ≤ p ∧ e.line = Spec.Lex.specLine data o ∧
    e.col = (slice data (Spec.Lex.lineStart data o) o).foldl colStep 0 + 1

theorem ErrAt.mono {data p p' e} (h : ErrAt data p e) (hp : p ≤ p') : ErrAt data p' e := by
  obtain ⟨o, a, b, c, d⟩ := h
  exact ⟨o, a, Nat.le_trans b hp, c, d⟩

theorem ErrAt.bounds {data p e} (h : ErrAt data p e) : 0 ≤ e.off ∧ e.off ≤ (p : Int) := by
  obtain ⟨o, a, b, _, _⟩ := h
  omega

/-- Position bookkeeping, line table and error offsets. `rs` are the runes still to be read.
    The line table is complete for everything read so far (`lines_eq`). -/
structure Core (data : List UInt8) (st : St) (rs : List Rn) : Prop where
  hdata : st.fi.data = data
  pos_eq : st.pos + (flat rs).length = data.length
  data_eq : data.drop st.pos = flat rs
  rok : ∀ c ∈ rs, RnOk c
  prev_le : st.prevOffset ≤ st.pos
  lines_hd : ∃ t, st.fi.lines = 0 :: t
  lines_le : ∀ l ∈ st.fi.lines, l ≤ st.pos
  lines_eq : st.fi.lines = 0 :: lineStartsFrom 0 (data.take st.pos)
  errs_ok : ∀ e ∈ st.errs, ErrAt data st.pos e
  herr_errs : st.herr = true → st.errs ≠ []
  nopanic : st.panicked = false

theorem Core.pos_le {data st rs} (h : Core data st rs) : st.pos ≤ data.length := by
  have := h.pos_eq; omega

theorem take_add_bytes (data : List UInt8) (pos : Nat) (bytes rest : List UInt8)
    (h : data.drop pos = bytes ++ rest) :
    data.take (pos + bytes.length) = data.take pos ++ bytes := by
  rw [List.take_add, h]; simp

/-- consuming a rune; the line table stays complete when the rune is not a newline -/
theorem Core.adv {data st c rs} (h : Core data st (c :: rs)) (hc : c.r ≠ 10) :
    Core data (adv st c) rs := by
  have hok := h.rok c (by simp)
  have hd := h.data_eq
  have hp := h.pos_eq
  simp only [flat_cons, List.length_append] at hd hp
  refine { hdata := h.hdata, pos_eq := ?_, data_eq := ?_, rok := ?_, prev_le := ?_, lines_hd := h.lines_hd,
           lines_le := ?_, lines_eq := ?_, errs_ok := ?_, herr_errs := h.herr_errs, nopanic := h.nopanic }
  · simp only [Lex.adv, Rn.w]; omega
  · simp only [Lex.adv, Rn.w]
    rw [← List.drop_drop, hd]; simp
  · intro x hx; exact h.rok x (by simp [hx])
  · have := h.prev_le; simp only [Lex.adv]; omega
  · intro l hl; have := h.lines_le l hl; simp only [Lex.adv]; omega
  · have := h.lines_eq
    simp only [Lex.adv, Rn.w]
    rw [take_add_bytes data st.pos c.bytes (flat rs) hd, lineStartsFrom_append,
      lineStartsFrom_no_nl _ c.bytes (hok.no_nl hc)]
    simpa using this
  · intro e he
    exact (h.errs_ok e he).mono (by simp [Lex.adv])

theorem getLast?_mem {α} (l : List α) (x : α) (h : l.getLast? = some x) : x ∈ l := by
  exact List.mem_of_getLast? h

/-- the position facts after consuming any rune (the line table is dealt with by the caller) -/
theorem Core.adv_facts {data st c rs} (h : Core data st (c :: rs)) :
    (Lex.adv st c).pos + (flat rs).length = data.length ∧
    data.drop (Lex.adv st c).pos = flat rs ∧
    (∀ x ∈ rs, RnOk x) ∧ (Lex.adv st c).prevOffset ≤ (Lex.adv st c).pos ∧
    (∀ l ∈ (Lex.adv st c).fi.lines, l ≤ (Lex.adv st c).pos) ∧
    (∀ e ∈ (Lex.adv st c).errs, ErrAt data (Lex.adv st c).pos e) := by
  have hd := h.data_eq
  have hp := h.pos_eq
  simp only [flat_cons, List.length_append] at hd hp
  refine ⟨?_, ?_, ?_, ?_, ?_, ?_⟩
  · simp only [Lex.adv, Rn.w]; omega
  · simp only [Lex.adv, Rn.w]
    rw [← List.drop_drop, hd]; simp
  · intro x hx; exact h.rok x (by simp [hx])
  · have := h.prev_le; simp only [Lex.adv]; omega
  · intro l hl; have := h.lines_le l hl; simp only [Lex.adv]; omega
  · intro e he
    exact (h.errs_ok e he).mono (by simp [Lex.adv])

/-- `maybeNewLine` after consuming `c` never panics and keeps the line table complete -/
theorem Core.maybeNewLine {data st c rs} (h : Core data st (c :: rs)) :
    Core data (Lex.maybeNewLine (Lex.adv st c) c) rs := by
  by_cases hc : c.r = 10
  · have hok := h.rok c (by simp)
    have hb := hok.nl_bytes hc
    obtain ⟨a1, a2, a3, a4, a5, a6⟩ := h.adv_facts
    have hd := h.data_eq
    simp only [flat_cons, hb] at hd
    have hpos : (Lex.adv st c).pos = st.pos + 1 := by simp [Lex.adv, Rn.w, hb]
    obtain ⟨t, ht⟩ := h.lines_hd
    have hlast : ∃ last, (Lex.adv st c).fi.lines.getLast? = some last ∧ last ≤ st.pos := by
      have hne : st.fi.lines ≠ [] := by simp [ht]
      refine ⟨st.fi.lines.getLast hne, ?_, ?_⟩
      · simp [Lex.adv, List.getLast?_eq_some_getLast hne]
      · exact h.lines_le _ (List.getLast_mem hne)
    obtain ⟨last, hl1, hl2⟩ := hlast
    have hdata : (Lex.adv st c).fi.data = data := h.hdata
    have hlen : ¬ ((Lex.adv st c).pos > (Lex.adv st c).fi.data.length) := by
      rw [hdata]; omega
    have hnl : ¬ ((Lex.adv st c).pos ≤ last) := by omega
    simp only [Lex.maybeNewLine, hc, if_true, addLine, hlen, if_false, hl1, hnl]
    refine { hdata := hdata, pos_eq := a1, data_eq := a2, rok := a3, prev_le := a4,
             lines_hd := ?_, lines_le := ?_, lines_eq := ?_, errs_ok := a6, herr_errs := h.herr_errs,
             nopanic := h.nopanic }
    · exact ⟨t ++ [(Lex.adv st c).pos], by simp [Lex.adv, ht]⟩
    · intro l hl
      simp only [List.mem_append, List.mem_singleton] at hl
      rcases hl with hl | hl
      · exact a5 l hl
      · show l ≤ (Lex.adv st c).pos
        omega
    · have := h.lines_eq
      show (Lex.adv st c).fi.lines ++ [(Lex.adv st c).pos] = 0 :: lineStartsFrom 0 (List.take (Lex.adv st c).pos data)
      simp only [Lex.adv] at this ⊢
      rw [this]
      have e1 : st.pos + c.w = st.pos + [(10 : UInt8)].length := by simp [Rn.w, hb]
      rw [e1, take_add_bytes data st.pos [10] (flat rs) hd, lineStartsFrom_append]
      have := h.pos_le
      simp [lineStartsFrom]
      omega
  · have := h.adv hc
    simpa [Lex.maybeNewLine, hc] using this

/-- `SourcePos` of an offset inside the file does not panic once the table starts with 0 -/
theorem sourcePos_some (fi : FI) (off : Nat) (t : List Nat) (hl : fi.lines = 0 :: t)
    (ho : off ≤ fi.data.length) : ∃ l c, sourcePos fi (off : Int) = some (l, c) ∧ 1 ≤ l := by
  have h0 : ¬ ((off : Int) < 0) := by omega
  have hlen : ¬ (off > fi.data.length) := by omega
  simp only [sourcePos, h0, if_false, Int.toNat_natCast, hl, List.filter_cons, Nat.zero_le, decide_true,
    if_true, List.length_cons, Nat.add_eq_zero_iff, Nat.succ_ne_self, and_false, hlen]
  exact ⟨_, _, rfl, by omega⟩

/-- an error positioned by `SourcePos` at an offset already read carries the specified position -/
theorem Core.errAt {data st rs} (h : Core data st rs) (cls : EC) (off l c : Nat) (ho : off ≤ st.pos)
    (hsp : sourcePos st.fi (off : Int) = some (l, c)) : ErrAt data st.pos ⟨cls, off, l, c⟩ := by
  have hl : LinesUpTo st.fi st.pos := by rw [LinesUpTo, h.hdata]; exact h.lines_eq
  have := sourcePos_fold st.fi st.pos off hl ho (by rw [h.hdata]; exact h.pos_le)
  rw [hsp, h.hdata] at this
  simp only [Option.some.injEq, Prod.mk.injEq] at this
  exact ⟨off, rfl, ho, this.1, this.2⟩

theorem Core.handleError {data st rs} (h : Core data st rs) (e : Err)
    (he : ErrAt data st.pos e) :
    Core data (Lex.handleError st e).1 rs ∧ (Lex.handleError st e).1.errs ≠ [] ∧
    (Lex.handleError st e).1.pos = st.pos ∧ (Lex.handleError st e).1.fi = st.fi := by
  by_cases hh : st.herr = true
  · have : Lex.handleError st e = (st, false) := by simp [Lex.handleError, hh]
    rw [this]
    exact ⟨h, h.herr_errs hh, rfl, rfl⟩
  · have key : ∀ b : Bool, Core data { st with errs := st.errs ++ [e], herr := b } rs := by
      intro b
      refine { hdata := h.hdata, pos_eq := h.pos_eq, data_eq := h.data_eq, rok := h.rok, prev_le := h.prev_le,
               lines_hd := h.lines_hd, lines_le := h.lines_le, lines_eq := h.lines_eq, errs_ok := ?_,
               herr_errs := ?_, nopanic := h.nopanic }
      · intro x hx
        simp only [List.mem_append, List.mem_singleton] at hx
        rcases hx with hx | hx
        · exact h.errs_ok x hx
        · subst hx; exact he
      · intro _; simp
    by_cases hl : st.lenient = true
    · have : Lex.handleError st e = ({ st with errs := st.errs ++ [e] }, true) := by
        simp [Lex.handleError, hh, hl]
      rw [this]
      have k := key st.herr
      exact ⟨k, by simp, rfl, rfl⟩
    · have : Lex.handleError st e = ({ st with errs := st.errs ++ [e], herr := true }, false) := by
        simp [Lex.handleError, hh, hl]
      rw [this]
      exact ⟨key true, by simp, rfl, rfl⟩


/-! ### `strconv` facts -/

theorem parseUintGo_ok_digits (base maxVal : Nat) (n : Nat) (s : List UInt8) (m : Nat)
    (h : parseUintGo base maxVal n s = .ok m) : ∀ b ∈ s, (digitVal b).isSome = true := by
  induction s generalizing n with
  | nil => simp
  | cons c cs ih =>
    simp only [parseUintGo] at h
    cases hd : digitVal c with
    | none => simp [hd] at h
    | some d =>
      simp only [hd] at h
      split at h
      · simp at h
      · split at h
        · simp at h
        · split at h
          · simp at h
          · intro b hb
            simp only [List.mem_cons] at hb
            rcases hb with rfl | hb
            · simp [hd]
            · exact ih _ h b hb

theorem digitVal_nl : digitVal 10 = none := by decide

theorem enc_ascii (r : Nat) (h : r < 0x80) : enc r = [UInt8.ofNat r] := by
  simp [enc, Utf8.encodeRune, h]

/-- what `readU` returns is a prefix of the input, at most `n` long -/
theorem readU_some (q : Nat) (n : Nat) (rs u : List Rn) (h : readU q n rs = some u) :
    u = rs.take u.length ∧ u.length ≤ n ∧ u.length ≤ rs.length := by
  induction n generalizing rs u with
  | zero => simp [readU] at h; subst h; simp
  | succ n ih =>
    cases rs with
    | nil => simp [readU] at h
    | cons c rs =>
      simp only [readU] at h
      split at h
      · simp at h; subst h; simp
      · simp only [Option.map_eq_some_iff] at h
        obtain ⟨u', hu', rfl⟩ := h
        obtain ⟨h1, h2, h3⟩ := ih rs u' hu'
        refine ⟨?_, ?_, ?_⟩
        · simp only [List.length_cons, List.take_succ_cons]; rw [← h1]
        · simp; omega
        · simp; omega


/-! ### the string-literal plan -/

/-- the plan consumes at least the current rune and no more than there are -/
def PlanOk (c : Rn) (rs : List Rn) (p : Nat × Act) : Prop :=
  1 ≤ p.1 ∧ p.1 ≤ (c :: rs).length

theorem planHex_ok (q : Nat) (c e : Rn) (rs1 : List Rn) : PlanOk c (e :: rs1) (planHex q rs1) := by
  unfold planHex
  split
  · simp [PlanOk]
  · split
    · simp [PlanOk]
    · split
      · simp [PlanOk]
      · rename_i c2 rs3
        by_cases hx : isHexR c2.r = true
        · simp only [hx, if_true]
          split <;> simp [PlanOk]
        · simp only [hx, Bool.false_eq_true, if_false]
          split <;> simp [PlanOk]

theorem planOct_ok (c e : Rn) (rs1 : List Rn) : PlanOk c (e :: rs1) (planOct e rs1) := by
  unfold planOct
  split
  · simp [PlanOk]
  · split
    · simp [PlanOk]
    · split
      · simp [PlanOk]
      · split
        · simp [PlanOk]
        · simp only
          split <;> simp [PlanOk]

theorem planUni_ok (q n : Nat) (c e : Rn) (rs1 : List Rn) : PlanOk c (e :: rs1) (planUni q n rs1) := by
  unfold planUni
  split
  · simp [PlanOk]; omega
  · rename_i u hu
    obtain ⟨_, _, hul⟩ := readU_some q n rs1 u hu
    have hk : ∀ a : Act, PlanOk c (e :: rs1) (2 + u.length, a) := by
      intro a; simp [PlanOk]; omega
    simp only
    split
    · exact hk _
    · split
      · split
        · exact hk _
        · exact hk _
      · exact hk _

theorem planEsc_ok (q : Nat) (c e : Rn) (rs1 : List Rn) : PlanOk c (e :: rs1) (planEsc q e rs1) := by
  have h2 : ∀ a : Act, PlanOk c (e :: rs1) (2, a) := by intro a; simp [PlanOk]
  unfold planEsc
  by_cases h1 : e.r = 120 ∨ e.r = 88
  · rw [if_pos h1]; exact planHex_ok q c e rs1
  rw [if_neg h1]
  by_cases h2' : isOctR e.r = true
  · rw [if_pos h2']; exact planOct_ok c e rs1
  rw [if_neg h2']
  by_cases h3 : e.r = 117
  · rw [if_pos h3]; exact planUni_ok q 4 c e rs1
  rw [if_neg h3]
  by_cases h4 : e.r = 85
  · rw [if_pos h4]; exact planUni_ok q 8 c e rs1
  rw [if_neg h4]
  by_cases g0 : e.r = 97
  · rw [if_pos g0]; exact h2 _
  rw [if_neg g0]
  by_cases g1 : e.r = 98
  · rw [if_pos g1]; exact h2 _
  rw [if_neg g1]
  by_cases g2 : e.r = 102
  · rw [if_pos g2]; exact h2 _
  rw [if_neg g2]
  by_cases g3 : e.r = 110
  · rw [if_pos g3]; exact h2 _
  rw [if_neg g3]
  by_cases g4 : e.r = 114
  · rw [if_pos g4]; exact h2 _
  rw [if_neg g4]
  by_cases g5 : e.r = 116
  · rw [if_pos g5]; exact h2 _
  rw [if_neg g5]
  by_cases g6 : e.r = 118
  · rw [if_pos g6]; exact h2 _
  rw [if_neg g6]
  by_cases g7 : e.r = 92
  · rw [if_pos g7]; exact h2 _
  rw [if_neg g7]
  by_cases g8 : e.r = 39
  · rw [if_pos g8]; exact h2 _
  rw [if_neg g8]
  by_cases g9 : e.r = 34
  · rw [if_pos g9]; exact h2 _
  rw [if_neg g9]
  by_cases g10 : e.r = 63
  · rw [if_pos g10]; exact h2 _
  rw [if_neg g10]
  exact h2 _

theorem strPlan_ok (q : Nat) (c : Rn) (rs : List Rn) : PlanOk c rs (strPlan q c rs) := by
  unfold strPlan
  split
  · simp [PlanOk]
  split
  · simp [PlanOk]
  split
  · simp [PlanOk]
  split
  · split
    · simp [PlanOk]
    · exact planEsc_ok q c _ _
  · simp [PlanOk]

/-! ### frames: which fields a step leaves alone -/

structure Frame (st st' : St) : Prop where
  items : st'.fi.items = st.fi.items
  comments : st'.fi.comments = st.fi.comments
  pending : st'.pending = st.pending
  prevSym : st'.prevSym = st.prevSym
  mark : st'.mark = st.mark
  prevOffset : st'.prevOffset = st.prevOffset
  lenient : st'.lenient = st.lenient
  eof : st'.eof = st.eof
  pos_le : st.pos ≤ st'.pos

theorem Frame.refl (st : St) : Frame st st :=
  ⟨rfl, rfl, rfl, rfl, rfl, rfl, rfl, rfl, Nat.le_refl _⟩

theorem Frame.trans {a b c : St} (h1 : Frame a b) (h2 : Frame b c) : Frame a c :=
  ⟨h2.items.trans h1.items, h2.comments.trans h1.comments, h2.pending.trans h1.pending,
   h2.prevSym.trans h1.prevSym, h2.mark.trans h1.mark, h2.prevOffset.trans h1.prevOffset,
   h2.lenient.trans h1.lenient, h2.eof.trans h1.eof, Nat.le_trans h1.pos_le h2.pos_le⟩

theorem frame_adv (st : St) (c : Rn) : Frame st (Lex.adv st c) :=
  ⟨rfl, rfl, rfl, rfl, rfl, rfl, rfl, rfl, by simp [Lex.adv]⟩

theorem advAll_idx (st : St) (cs : List Rn) : (advAll st cs).idx = st.idx + cs.length := by
  induction cs generalizing st with
  | nil => simp [advAll]
  | cons c cs ih =>
    simp only [advAll, List.foldl_cons] at ih ⊢
    rw [ih]; simp [Lex.adv]; omega

theorem frame_advAll (st : St) (cs : List Rn) : Frame st (advAll st cs) := by
  induction cs generalizing st with
  | nil => exact Frame.refl st
  | cons c cs ih =>
    simp only [advAll, List.foldl_cons] at ih ⊢
    exact (frame_adv st c).trans (ih _)

theorem advAll_pos (st : St) (cs : List Rn) : (advAll st cs).pos = st.pos + (flat cs).length := by
  induction cs generalizing st with
  | nil => simp [advAll]
  | cons c cs ih =>
    simp only [advAll, List.foldl_cons] at ih ⊢
    rw [ih]; simp [Lex.adv, Rn.w]; omega

theorem advAll_errs (st : St) (cs : List Rn) :
    (advAll st cs).errs = st.errs ∧ (advAll st cs).herr = st.herr ∧ (advAll st cs).fi = st.fi ∧
    (advAll st cs).panicked = st.panicked := by
  induction cs generalizing st with
  | nil => simp [advAll]
  | cons c cs ih =>
    simp only [advAll, List.foldl_cons] at ih ⊢
    have := ih (Lex.adv st c)
    simpa [Lex.adv] using this

theorem Core.advAll_clean {data st cs rs} (h : Core data st (cs ++ rs)) (hc : ∀ x ∈ cs, x.r ≠ 10) :
    Core data (advAll st cs) rs := by
  induction cs generalizing st with
  | nil => simpa [advAll] using h
  | cons c cs ih =>
    simp only [advAll, List.foldl_cons] at ih ⊢
    exact ih (h.adv (hc c (by simp))) (fun x hx => hc x (by simp [hx]))

theorem addLine_some (f f' : FI) (o : Nat) (h : addLine f o = some f') :
    f'.items = f.items ∧ f'.comments = f.comments ∧ f'.data = f.data := by
  unfold addLine at h
  split at h
  · simp at h
  · split at h
    · split at h
      · simp at h
      · simp only [Option.some.injEq] at h; subst h; exact ⟨rfl, rfl, rfl⟩
    · simp only [Option.some.injEq] at h; subst h; exact ⟨rfl, rfl, rfl⟩

theorem frame_maybeNewLine (st : St) (c : Rn) :
    Frame st (Lex.maybeNewLine st c) ∧ (Lex.maybeNewLine st c).idx = st.idx := by
  unfold Lex.maybeNewLine
  split
  · split
    · exact ⟨⟨rfl, rfl, rfl, rfl, rfl, rfl, rfl, rfl, Nat.le_refl _⟩, rfl⟩
    · rename_i fi hfi
      obtain ⟨h1, h2, _⟩ := addLine_some _ _ _ hfi
      exact ⟨⟨h1, h2, rfl, rfl, rfl, rfl, rfl, rfl, Nat.le_refl _⟩, rfl⟩
  · exact ⟨Frame.refl st, rfl⟩

theorem frame_advNL (st : St) (c : Rn) : Frame st (advNL st c) ∧ (advNL st c).idx = st.idx + 1 := by
  obtain ⟨a, b⟩ := frame_maybeNewLine (Lex.adv st c) c
  exact ⟨(frame_adv st c).trans a, by rw [advNL, b]; simp [Lex.adv]⟩

theorem advAllNL_idx (st : St) (cs : List Rn) : (advAllNL st cs).idx = st.idx + cs.length := by
  induction cs generalizing st with
  | nil => simp [advAllNL]
  | cons c cs ih =>
    simp only [advAllNL, List.foldl_cons] at ih ⊢
    rw [ih, (frame_advNL st c).2]; simp; omega

theorem frame_advAllNL (st : St) (cs : List Rn) : Frame st (advAllNL st cs) := by
  induction cs generalizing st with
  | nil => exact Frame.refl st
  | cons c cs ih =>
    simp only [advAllNL, List.foldl_cons] at ih ⊢
    exact (frame_advNL st c).1.trans (ih _)

/-- consuming runes inside a string literal: every newline among them reaches the line table -/
theorem Core.advAllNL {data st cs rs} (h : Core data st (cs ++ rs)) : Core data (advAllNL st cs) rs := by
  induction cs generalizing st with
  | nil => simpa [Lex.advAllNL] using h
  | cons c cs ih =>
    simp only [Lex.advAllNL, List.foldl_cons] at ih ⊢
    exact ih h.maybeNewLine

/-- what is known about the pending escape error of `readStringLiteral` -/
structure SSOk (data : List UInt8) (st : St) (ss : SS) : Prop where
  esc_ok : ∀ e, ss.escErr = some e → ErrAt data st.pos e
  nomore : ss.noMore = true → ss.escErr ≠ none

theorem SSOk.mono {data : List UInt8} {st st' : St} {ss : SS} (h : SSOk data st ss) (hp : st.pos ≤ st'.pos) :
    SSOk data st' ss :=
  ⟨fun e he => (h.esc_ok e he).mono hp, h.nomore⟩

theorem frame_handleError (st : St) (e : Err) :
    Frame st (Lex.handleError st e).1 ∧ (Lex.handleError st e).1.idx = st.idx := by
  unfold Lex.handleError
  split
  · exact ⟨Frame.refl st, rfl⟩
  · split <;> exact ⟨⟨rfl, rfl, rfl, rfl, rfl, rfl, rfl, rfl, Nat.le_refl _⟩, rfl⟩


/-- recording a new pending escape error at `escStart ≤ pos` never panics -/
theorem newEscErr_spec {data st rs} (ss : SS) (cls : EC) (escStart : Nat) (h : Core data st rs)
    (hes : escStart ≤ st.pos) :
    ∃ ss', Lex.newEscErr st ss cls escStart = .cont st ss' ∧ SSOk data st ss' ∧ ss'.escErr ≠ none := by
  obtain ⟨t, ht⟩ := h.lines_hd
  have hle : escStart ≤ st.fi.data.length := by
    have := h.pos_le; rw [h.hdata]; omega
  obtain ⟨l, c, hsp, _⟩ := sourcePos_some st.fi escStart t ht hle
  simp only [Lex.newEscErr, hsp]
  refine ⟨_, rfl, ⟨?_, ?_⟩, by simp⟩
  · intro e he
    simp only [Option.some.injEq] at he
    subst he
    exact h.errAt cls escStart l c hes hsp
  · intro _; simp

/-- `reportErr` never panics: it records a pending escape error whose offset lies in the file -/
theorem reportErr_spec {data st rs} (ss : SS) (cls : EC) (escStart : Nat)
    (h : Core data st rs) (hs : SSOk data st ss) (hes : escStart ≤ st.pos) :
    ∃ st' ss', Lex.reportErr st ss cls escStart = .cont st' ss' ∧ Core data st' rs ∧ SSOk data st' ss' ∧
      Frame st st' ∧ st'.idx = st.idx ∧ ss'.escErr ≠ none := by
  unfold Lex.reportErr
  by_cases hnm : ss.noMore = true
  · simp only [hnm, if_true]
    exact ⟨st, ss, rfl, h, hs, Frame.refl st, rfl, hs.nomore hnm⟩
  · simp only [hnm, Bool.false_eq_true, if_false]
    cases he : ss.escErr with
    | none =>
      simp only
      obtain ⟨ss', h1, h2, h3⟩ := newEscErr_spec (data := data) (rs := rs) ss cls escStart h hes
      exact ⟨st, ss', h1, h, h2, Frame.refl st, rfl, h3⟩
    | some e =>
      simp only
      obtain ⟨hc, _, hp, hf⟩ := h.handleError e (hs.esc_ok e he)
      obtain ⟨hfr, hidx⟩ := frame_handleError st e
      obtain ⟨ss', h1, h2, h3⟩ := newEscErr_spec (data := data) (rs := rs)
        { buf := ss.buf, escErr := some e, noMore := !(Lex.handleError st e).2 } cls escStart hc (by rw [hp]; exact hes)
      exact ⟨_, ss', h1, hc, h2, hfr, hidx, h3⟩

/-- how a finished `readStringLiteral` leaves the lexer, `k` runes after `rs0` began -/
def StrPost (data : List UInt8) (st0 : St) (k : Nat) (rs0 : List Rn) (st' : St) (res : StrRes) : Prop :=
  st'.idx = st0.idx + k ∧ Frame st0 st' ∧ Core data st' (rs0.drop k) ∧
  match res with
  | .panic => False
  | .pos e => ErrAt data st'.pos e
  | _ => True

theorem strIter_spec {data : List UInt8} (q : Nat) (c : Rn) (rs : List Rn) (st : St) (ss : SS)
    (h : Core data st (c :: rs)) (hs : SSOk data st ss) :
    1 ≤ (strPlan q c rs).1 ∧ (strPlan q c rs).1 ≤ (c :: rs).length ∧
    match strIter q st ss c rs with
    | .cont st' ss' => Core data st' ((c :: rs).drop (strPlan q c rs).1) ∧
        SSOk data st' ss' ∧ Frame st st' ∧ st'.idx = st.idx + (strPlan q c rs).1
    | .done st' res => StrPost data st (strPlan q c rs).1 (c :: rs) st' res := by
  obtain ⟨hk1, hk2⟩ := strPlan_ok q c rs
  refine ⟨hk1, hk2, ?_⟩
  generalize hp : strPlan q c rs = p at hk1 hk2
  obtain ⟨k, act⟩ := p
  simp only at hk1 hk2
  have hsplit : c :: rs = (c :: rs).take k ++ (c :: rs).drop k := (List.take_append_drop k _).symm
  have hlen : ((c :: rs).take k).length = k := by
    simp only [List.length_cons] at hk2; simp only [List.length_take, List.length_cons]; omega
  have hidx : (advAllNL st ((c :: rs).take k)).idx = st.idx + k := by rw [advAllNL_idx, hlen]
  have hfr := frame_advAllNL st ((c :: rs).take k)
  have hcore : Core data (advAllNL st ((c :: rs).take k)) ((c :: rs).drop k) := by
    have h' := h; rw [hsplit] at h'; exact h'.advAllNL
  have hss : SSOk data (advAllNL st ((c :: rs).take k)) ss := hs.mono hfr.pos_le
  simp only [strIter, hp]
  cases act with
  | eol => exact ⟨hidx, hfr, hcore, trivial⟩
  | eof => exact ⟨hidx, hfr, hcore, trivial⟩
  | close =>
    cases he : ss.escErr with
    | some e =>
      exact ⟨hidx, hfr, hcore, (hs.esc_ok e he).mono hfr.pos_le⟩
    | none => exact ⟨hidx, hfr, hcore, trivial⟩
  | push bs =>
    simp only [Lex.push]
    exact ⟨hcore, ⟨hss.esc_ok, hss.nomore⟩, hfr, hidx⟩
  | report cls =>
    obtain ⟨st', ss', heq, a, b, c1, d, _⟩ := reportErr_spec (data := data) ss cls st.pos hcore hss hfr.pos_le
    dsimp only
    rw [heq]
    exact ⟨a, b, hfr.trans c1, by rw [d, hidx]⟩

/-- outcome of `strGo q s st ss rs` (the first `s` cells of `rs` are already consumed) -/
def GoPost (data : List UInt8) (st : St) (s : Nat) (rs : List Rn) (st' : St) (res : StrRes) : Prop :=
  ∃ k, s ≤ k ∧ k ≤ rs.length ∧ st'.idx = st.idx + (k - s) ∧ Frame st st' ∧ Core data st' (rs.drop k) ∧
  match res with
  | .panic => False
  | .pos e => ErrAt data st'.pos e
  | _ => True

theorem strGo_spec {data : List UInt8} (q : Nat) (rs : List Rn) :
    ∀ (s : Nat) (st : St) (ss : SS), s ≤ rs.length →
    Core data st (rs.drop s) → SSOk data st ss →
    GoPost data st s rs (strGo q s st ss rs).1 (strGo q s st ss rs).2 := by
  induction rs with
  | nil =>
    intro s st ss hs h _
    have hs0 : s = 0 := by simpa using hs
    subst hs0
    simp only [strGo]
    exact ⟨0, Nat.le_refl _, Nat.le_refl _, rfl, Frame.refl st, by simpa using h, trivial⟩
  | cons c rs ih =>
    intro s st ss hs h hss
    cases s with
    | succ s =>
      simp only [strGo]
      have hs' : s ≤ rs.length := by simpa using hs
      obtain ⟨k, h1, h2, h3, h4, h5, h6⟩ := ih s st ss hs' (by simpa using h) hss
      exact ⟨k + 1, by omega, by simp; omega, by rw [h3]; omega, h4, by simpa using h5, h6⟩
    | zero =>
      simp only [List.drop_zero] at h
      obtain ⟨hk1, hk2, hit⟩ := strIter_spec q c rs st ss h hss
      simp only [strGo]
      generalize hkk : (strPlan q c rs).1 = kk at hk1 hk2 hit
      cases hstep : strIter q st ss c rs with
      | done st' res =>
        rw [hstep] at hit
        simp only
        obtain ⟨a, b, cc, d⟩ := hit
        exact ⟨kk, Nat.zero_le _, hk2, by simpa using a, b, cc, d⟩
      | cont st' ss' =>
        rw [hstep] at hit
        simp only
        obtain ⟨hc', hss', hfr, hidx⟩ := hit
        have hskip : st'.idx - st.idx - 1 = kk - 1 := by omega
        rw [hskip]
        have hlen : kk - 1 ≤ rs.length := by simp at hk2; omega
        have hdrop : (c :: rs).drop kk = rs.drop (kk - 1) := by
          obtain ⟨j, hj⟩ : ∃ j, kk = j + 1 := ⟨kk - 1, by omega⟩
          subst hj; simp
        rw [hdrop] at hc'
        obtain ⟨k, h1, h2, h3, h4, h5, h6⟩ := ih (kk - 1) st' ss' hlen hc' hss'
        exact ⟨k + 1, Nat.zero_le _, by simp; omega, by rw [h3, hidx]; omega, hfr.trans h4, by simpa using h5, h6⟩

/-! ### errors with the position of the current token, comments -/

theorem frame_errs (st : St) (errs : List Err) (herr : Bool) (toks : List Tok) (fresh : Bool) :
    Frame st { st with errs := errs, herr := herr, toks := toks, fresh := fresh } :=
  ⟨rfl, rfl, rfl, rfl, rfl, rfl, rfl, rfl, Nat.le_refl _⟩

theorem setErrorPlain_spec {data st rs} (cls : EC) (h : Core data st rs) :
    Core data (Lex.setErrorPlain st cls) rs ∧ Frame st (Lex.setErrorPlain st cls) ∧
    (Lex.setErrorPlain st cls).idx = st.idx ∧ (Lex.setErrorPlain st cls).errs ≠ [] := by
  obtain ⟨t, ht⟩ := h.lines_hd
  have hle : st.prevOffset ≤ st.fi.data.length := by
    have := h.pos_le; have := h.prev_le; rw [h.hdata]; omega
  obtain ⟨l, c, hsp, _⟩ := sourcePos_some st.fi st.prevOffset t ht hle
  simp only [Lex.setErrorPlain, hsp]
  have hp := h.prev_le
  obtain ⟨hc, hne, hpos, hfi⟩ := h.handleError ⟨cls, st.prevOffset, l, c⟩ (h.errAt cls st.prevOffset l c hp hsp)
  obtain ⟨hfr, hidx⟩ := frame_handleError st ⟨cls, st.prevOffset, l, c⟩
  refine ⟨?_, ?_, hidx, hne⟩
  · exact { hdata := hc.hdata, pos_eq := hc.pos_eq, data_eq := hc.data_eq, rok := hc.rok, prev_le := hc.prev_le,
            lines_hd := hc.lines_hd, lines_le := hc.lines_le,
            lines_eq := hc.lines_eq, errs_ok := hc.errs_ok,
            herr_errs := hc.herr_errs, nopanic := hc.nopanic }
  · exact hfr.trans ⟨rfl, rfl, rfl, rfl, rfl, rfl, rfl, rfl, Nat.le_refl _⟩

theorem setErrorPos_spec {data st rs} (e : Err) (h : Core data st rs)
    (he : ErrAt data st.pos e) :
    Core data (Lex.setErrorPos st e) rs ∧ Frame st (Lex.setErrorPos st e) ∧
    (Lex.setErrorPos st e).idx = st.idx ∧ (Lex.setErrorPos st e).errs ≠ [] := by
  simp only [Lex.setErrorPos]
  obtain ⟨hc, hne, hpos, hfi⟩ := h.handleError e he
  obtain ⟨hfr, hidx⟩ := frame_handleError st e
  refine ⟨?_, ?_, hidx, hne⟩
  · exact { hdata := hc.hdata, pos_eq := hc.pos_eq, data_eq := hc.data_eq, rok := hc.rok, prev_le := hc.prev_le,
            lines_hd := hc.lines_hd, lines_le := hc.lines_le,
            lines_eq := hc.lines_eq, errs_ok := hc.errs_ok,
            herr_errs := hc.herr_errs, nopanic := hc.nopanic }
  · exact hfr.trans ⟨rfl, rfl, rfl, rfl, rfl, rfl, rfl, rfl, Nat.le_refl _⟩

/-- outcome of a scanner that started at `st` with `rs` to read -/
def ScanPost (data : List UInt8) (st : St) (rs : List Rn) (st' : St) : Prop :=
  ∃ k, k ≤ rs.length ∧ st'.idx = st.idx + k ∧ Frame st st' ∧ Core data st' (rs.drop k)

theorem lineCommentGo_spec {data} (rs : List Rn) : ∀ (st : St), Core data st rs →
    ScanPost data st rs (lineCommentGo st rs).1 ∧
    ((lineCommentGo st rs).2 = true → (lineCommentGo st rs).1.errs ≠ []) := by
  induction rs with
  | nil =>
    intro st h
    simp only [lineCommentGo]
    exact ⟨⟨0, Nat.le_refl _, rfl, Frame.refl st, by simpa using h⟩, by simp⟩
  | cons c rs ih =>
    intro st h
    simp only [lineCommentGo]
    by_cases h10 : c.r = 10
    · simp only [h10, if_true]
      exact ⟨⟨0, Nat.zero_le _, rfl, Frame.refl st, by simpa using h⟩, by simp⟩
    · simp only [h10, if_false]
      by_cases h0 : c.r = 0
      · simp only [h0, if_true]
        have ha := h.adv h10
        obtain ⟨a, b, cc, d⟩ := setErrorPlain_spec .controlChar ha
        refine ⟨⟨1, by simp, by rw [cc]; simp [Lex.adv], (frame_adv st c).trans b, ?_⟩, fun _ => d⟩
        simpa using a
      · simp only [h0, if_false]
        obtain ⟨⟨k, h1, h2, h3, h4⟩, h5⟩ := ih (Lex.adv st c) (h.adv h10)
        refine ⟨⟨k + 1, by simp; omega, by rw [h2]; simp [Lex.adv]; omega, (frame_adv st c).trans h3, ?_⟩, h5⟩
        simpa using h4


theorem blockCommentGo_spec {data} (rs : List Rn) : ∀ (st : St), Core data st rs →
    ScanPost data st rs (blockCommentGo st rs).1 ∧
    ((blockCommentGo st rs).2 = .err → (blockCommentGo st rs).1.errs ≠ []) := by
  induction rs with
  | nil =>
    intro st h
    simp only [blockCommentGo]
    exact ⟨⟨0, Nat.le_refl _, rfl, Frame.refl st, by simpa using h⟩, by simp⟩
  | cons c rs ih =>
    intro st h
    simp only [blockCommentGo]
    by_cases h0 : c.r = 0
    · simp only [h0, if_true]
      have ha := h.adv (by omega)
      obtain ⟨a, b, cc, d⟩ := setErrorPlain_spec .controlChar ha
      refine ⟨⟨1, by simp, by rw [cc]; simp [Lex.adv], (frame_adv st c).trans b, ?_⟩, fun _ => d⟩
      simpa using a
    · simp only [h0, if_false]
      have hm := h.maybeNewLine
      obtain ⟨hfm, him⟩ := frame_maybeNewLine (Lex.adv st c) c
      have hnp : (Lex.maybeNewLine (Lex.adv st c) c).panicked = false := hm.nopanic
      simp only [hnp, Bool.false_eq_true, if_false]
      have hidx1 : (Lex.maybeNewLine (Lex.adv st c) c).idx = st.idx + 1 := by rw [him]; simp [Lex.adv]
      have hfr1 : Frame st (Lex.maybeNewLine (Lex.adv st c) c) := (frame_adv st c).trans hfm
      have hrec : ScanPost data st (c :: rs) (blockCommentGo (Lex.maybeNewLine (Lex.adv st c) c) rs).1 ∧
          ((blockCommentGo (Lex.maybeNewLine (Lex.adv st c) c) rs).2 = .err →
            (blockCommentGo (Lex.maybeNewLine (Lex.adv st c) c) rs).1.errs ≠ []) := by
        obtain ⟨⟨k, h1, h2, h3, h4⟩, h5⟩ := ih _ hm
        refine ⟨⟨k + 1, by simp; omega, by rw [h2, hidx1]; omega, hfr1.trans h3, by simpa using h4⟩, h5⟩
      by_cases h42 : c.r = 42
      · simp only [h42, if_true]
        cases rs with
        | nil =>
          simp only
          refine ⟨⟨1, by simp, hidx1, hfr1, by simpa using hm⟩, ?_⟩
          intro hcontra; simp at hcontra
        | cons d rs' =>
          simp only
          by_cases h47 : d.r = 47
          · simp only [h47, if_true]
            have hd := hm.adv (c := d) (by omega)
            refine ⟨⟨2, by simp, ?_, hfr1.trans (frame_adv _ d), by simpa using hd⟩, by simp⟩
            show (Lex.maybeNewLine (Lex.adv st c) c).idx + 1 = st.idx + 2
            omega
          · simp only [h47, if_false]
            exact hrec
      · simp only [h42, if_false]
        exact hrec


/-! ### the item and comment tables -/

/-- items in order, not overlapping: what `AddToken` enforces. `pe` = end of the previous item -/
def ItemsOk : Nat → List Item → Prop
  | _, [] => True
  | pe, it :: rest => pe ≤ it.off ∧ ItemsOk (it.off + it.len) rest

/-- end offset of the last item (`pe` if there is none) -/
def endFrom (pe : Nat) (items : List Item) : Nat := items.foldl (fun _ it => it.off + it.len) pe

theorem itemsOk_append (pe : Nat) (items : List Item) (it : Item) :
    ItemsOk pe (items ++ [it]) ↔ ItemsOk pe items ∧ endFrom pe items ≤ it.off := by
  induction items generalizing pe with
  | nil => simp [ItemsOk, endFrom]
  | cons x xs ih =>
    simp only [List.cons_append, ItemsOk, endFrom, List.foldl_cons]
    rw [ih]
    simp only [endFrom, and_assoc]

theorem endFrom_append (pe : Nat) (items : List Item) (it : Item) :
    endFrom pe (items ++ [it]) = it.off + it.len := by
  simp [endFrom]

theorem endFrom_getLast (items : List Item) (last : Item) (h : items.getLast? = some last) :
    endFrom 0 items = last.off + last.len := by
  obtain ⟨ys, rfl⟩ := List.getLast?_eq_some_iff.mp h
  exact endFrom_append 0 ys last

theorem addToken_spec (f : FI) (offset length : Nat) (hlen : offset + length ≤ f.data.length)
    (hend : endFrom 0 f.items ≤ offset) :
    addToken f offset length = some ({ f with items := f.items ++ [⟨offset, length⟩] }, f.items.length) := by
  unfold addToken
  have h1 : ¬ (offset + length > f.data.length) := by omega
  simp only [h1, if_false]
  cases hl : f.items.getLast? with
  | none => rfl
  | some last =>
    have := endFrom_getLast f.items last hl
    have h2 : ¬ (offset + 1 ≤ last.off + last.len) := by omega
    simp only [h2, if_false]

/-- the lexer's bookkeeping about items, pending comments and recorded comments.
    `m` bounds the end of the last item (the current token starts at or after `m`). -/
structure Tab (m : Nat) (st : St) : Prop where
  items_ok : ItemsOk 0 st.fi.items
  items_end : endFrom 0 st.fi.items ≤ m
  cm_all : ∀ c ∈ st.fi.comments,
    (∀ t ∈ st.pending, c.index < t.1) ∧ c.index < st.fi.items.length ∧
    ∃ p, st.prevSym = some p ∧ c.attr ≤ p
  pend_sorted : st.pending.Pairwise (fun a b => a.1 < b.1)
  pend_lt : ∀ t ∈ st.pending, t.1 < st.fi.items.length
  prev_lt : ∀ p, st.prevSym = some p → p < st.fi.items.length

theorem Tab.mono {m m' : Nat} {st : St} (h : Tab m st) (hm : m ≤ m') : Tab m' st :=
  { h with items_end := Nat.le_trans h.items_end hm }

/-- a step that leaves items, comments, pending and prevSym alone keeps `Tab` -/
theorem Tab.frame {m : Nat} {st st' : St} (h : Tab m st) (hf : Frame st st') : Tab m st' := by
  refine ⟨?_, ?_, ?_, ?_, ?_, ?_⟩
  · rw [hf.items]; exact h.items_ok
  · rw [hf.items]; exact h.items_end
  · intro c hc
    rw [hf.comments] at hc
    rw [hf.pending, hf.items, hf.prevSym]
    exact h.cm_all c hc
  · rw [hf.pending]; exact h.pend_sorted
  · rw [hf.pending, hf.items]; exact h.pend_lt
  · rw [hf.prevSym, hf.items]; exact h.prev_lt

theorem Tab.transfer {m : Nat} {st st' : St} (h : Tab m st) (hi : st'.fi.items = st.fi.items)
    (hc : st'.fi.comments = st.fi.comments) (hp : st'.pending = st.pending) (hs : st'.prevSym = st.prevSym) :
    Tab m st' := by
  refine ⟨?_, ?_, ?_, ?_, ?_, ?_⟩
  · rw [hi]; exact h.items_ok
  · rw [hi]; exact h.items_end
  · intro c hc'
    rw [hc] at hc'
    rw [hp, hi, hs]
    exact h.cm_all c hc'
  · rw [hp]; exact h.pend_sorted
  · rw [hp, hi]; exact h.pend_lt
  · rw [hs, hi]; exact h.prev_lt

/-- moving the core invariant across a change of the item / comment tables -/
theorem Core.transfer {data st st' rs} (h : Core data st rs)
    (hd : st'.fi.data = st.fi.data) (hl : st'.fi.lines = st.fi.lines) (hp : st'.pos = st.pos)
    (hpo : st'.prevOffset ≤ st'.pos) (he : st'.errs = st.errs) (hh : st'.herr = st.herr)
    (hpn : st'.panicked = st.panicked) : Core data st' rs := by
  refine { hdata := ?_, pos_eq := ?_, data_eq := ?_, rok := h.rok, prev_le := hpo, lines_hd := ?_,
           lines_le := ?_, lines_eq := ?_, errs_ok := ?_, herr_errs := ?_, nopanic := ?_ }
  · rw [hd]; exact h.hdata
  · rw [hp]; exact h.pos_eq
  · rw [hp]; exact h.data_eq
  · rw [hl]; exact h.lines_hd
  · rw [hl, hp]; exact h.lines_le
  · rw [hl, hp]; exact h.lines_eq
  · rw [he, hp]; exact h.errs_ok
  · rw [he, hh]; exact h.herr_errs
  · rw [hpn]; exact h.nopanic


theorem addComment_spec (f : FI) (tok to : Nat)
    (h : ∀ last, f.comments.getLast? = some last → last.index < tok ∧ last.attr ≤ to) :
    addComment f tok to = some { f with comments := f.comments ++ [⟨tok, to⟩] } := by
  unfold addComment
  cases hl : f.comments.getLast? with
  | none => rfl
  | some last =>
    obtain ⟨h1, h2⟩ := h last hl
    have a : ¬ (tok ≤ last.index) := by omega
    have b : ¬ (to < last.attr) := by omega
    simp only [a, b, if_false]

theorem addComments_spec (cs : List (Nat × Bool)) (to : Nat) : ∀ (st : St), st.panicked = false →
    cs.Pairwise (fun a b => a.1 < b.1) →
    (∀ last, st.fi.comments.getLast? = some last → (∀ t ∈ cs, last.index < t.1) ∧ last.attr ≤ to) →
    addComments st cs to =
      { st with fi := { st.fi with comments := st.fi.comments ++ cs.map (fun t => ⟨t.1, to⟩) } } := by
  induction cs with
  | nil => intro st _ _ _; simp [addComments]
  | cons t rest ih =>
    intro st hnp hsorted hlast
    obtain ⟨tok, blk⟩ := t
    have hadd := addComment_spec st.fi tok to (by
      intro last hl
      obtain ⟨h1, h2⟩ := hlast last hl
      exact ⟨h1 (tok, blk) (by simp), h2⟩)
    rw [List.pairwise_cons] at hsorted
    have hrec := ih { st with fi := { st.fi with comments := st.fi.comments ++ [⟨tok, to⟩] } } hnp hsorted.2 (by
      intro last hl
      simp only [List.getLast?_append, List.getLast?_singleton, Option.some_or, Option.some.injEq] at hl
      subst hl
      exact ⟨fun t ht => hsorted.1 t ht, Nat.le_refl _⟩)
    have e1 : addComments st ((tok, blk) :: rest) to =
        addComments { st with fi := { st.fi with comments := st.fi.comments ++ [⟨tok, to⟩] } } rest to := by
      simp [addComments, hnp, hadd]
    rw [e1, hrec]
    simp


/-- `setPrevAndAddComments` splits the pending comments into a trailing part (attributed to the
    previous token, only when there is one) and a leading part (attributed to the new token) -/
theorem setPrev_split (st : St) (tok : Nat) (isEOF : Bool) :
    ∃ a b, a ++ b = st.pending ∧ (a ≠ [] → ∃ p, st.prevSym = some p) ∧
      Lex.setPrevAndAddComments st tok isEOF =
        { (addComments (addComments { st with pending := [], maybeDonate := 0 } a (st.prevSym.getD 0)) b tok) with
          prevSym := some tok,
          prevLine := (addComments (addComments { st with pending := [], maybeDonate := 0 } a (st.prevSym.getD 0)) b tok).curLine } := by
  unfold Lex.setPrevAndAddComments
  cases hp : st.prevSym with
  | none => exact ⟨[], st.pending, rfl, fun h => absurd rfl h, by simp [addComments]⟩
  | some p =>
    cases hc : st.pending with
    | nil => exact ⟨[], [], rfl, fun h => absurd rfl h, by simp [addComments]⟩
    | cons c0 rest =>
      simp only
      repeat' split
      all_goals first
        | (refine ⟨[c0], rest, rfl, fun _ => ⟨p, rfl⟩, ?_⟩; simp; done)
        | (refine ⟨[], c0 :: rest, rfl, fun h => absurd rfl h, ?_⟩; simp [addComments]; done)

theorem pairwise_append_left {α} {R : α → α → Prop} {a b : List α} (h : (a ++ b).Pairwise R) :
    a.Pairwise R ∧ b.Pairwise R ∧ ∀ x ∈ a, ∀ y ∈ b, R x y := by
  rw [List.pairwise_append] at h
  exact ⟨h.1, h.2.1, h.2.2⟩


/-- the state after a token was added and the pending comments attributed -/
theorem tokenStep_spec {data st rs} (isEOF : Bool)
    (h : Core data st rs) (ht : Tab st.mark st) (hm : st.mark ≤ st.pos) :
    ∃ st', Lex.tokenStep st isEOF = some (st', st.fi.items.length) ∧
    Core data st' rs ∧ Tab st'.pos st' ∧ st'.idx = st.idx ∧ st'.pos = st.pos ∧ st'.eof = st.eof ∧
    st'.toks = st.toks ∧ st'.done = st.done ∧
    st'.fi.items = st.fi.items ++ [⟨st.mark, st.pos - st.mark⟩] := by
  have hlen : st.mark + (st.pos - st.mark) ≤ st.fi.data.length := by
    have := h.pos_le; rw [h.hdata]; omega
  have hat := addToken_spec st.fi st.mark (st.pos - st.mark) hlen ht.items_end
  obtain ⟨a, b, hab, hap, hsplit⟩ := setPrev_split
    { st with fi := { st.fi with items := st.fi.items ++ [⟨st.mark, st.pos - st.mark⟩] } } st.fi.items.length isEOF
  simp only at hab hap
  have hps := ht.pend_sorted
  rw [← hab] at hps
  obtain ⟨hsa, hsb, hsab⟩ := pairwise_append_left hps
  have hmem_a : ∀ t ∈ a, t ∈ st.pending := fun t ht' => by rw [← hab]; simp [ht']
  have hmem_b : ∀ t ∈ b, t ∈ st.pending := fun t ht' => by rw [← hab]; simp [ht']
  -- first loop: trailing comments
  have e1 : addComments { st with fi := { st.fi with items := st.fi.items ++ [⟨st.mark, st.pos - st.mark⟩] },
                                  pending := [], maybeDonate := 0 } a (st.prevSym.getD 0) =
      { st with fi := { st.fi with items := st.fi.items ++ [⟨st.mark, st.pos - st.mark⟩],
                                   comments := st.fi.comments ++ a.map (fun t => ⟨t.1, st.prevSym.getD 0⟩) },
                pending := [], maybeDonate := 0 } := by
    cases ha : a with
    | nil => simp [addComments]
    | cons a0 as =>
      obtain ⟨p, hp⟩ := hap (by simp [ha])
      rw [← ha]
      rw [addComments_spec a (st.prevSym.getD 0)
        { st with fi := { st.fi with items := st.fi.items ++ [⟨st.mark, st.pos - st.mark⟩] },
                  pending := [], maybeDonate := 0 } h.nopanic hsa (by
        intro last hl
        have hmem := getLast?_mem _ _ hl
        obtain ⟨c1, _, p', hp', c3⟩ := ht.cm_all last hmem
        refine ⟨fun t ht' => c1 t (hmem_a t ht'), ?_⟩
        rw [hp] at hp'; simp only [Option.some.injEq] at hp'; subst hp'
        simp [hp, c3])]
  -- second loop: leading comments
  have e2 := addComments_spec b st.fi.items.length
    { st with fi := { st.fi with items := st.fi.items ++ [⟨st.mark, st.pos - st.mark⟩],
                                 comments := st.fi.comments ++ a.map (fun t => ⟨t.1, st.prevSym.getD 0⟩) },
              pending := [], maybeDonate := 0 } h.nopanic hsb (by
      intro last hl
      have hmem := getLast?_mem _ _ hl
      simp only [List.mem_append, List.mem_map] at hmem
      rcases hmem with hmem | ⟨t, hta, rfl⟩
      · obtain ⟨c1, _, p', hp', c3⟩ := ht.cm_all last hmem
        have := ht.prev_lt p' hp'
        exact ⟨fun t ht' => c1 t (hmem_b t ht'), by omega⟩
      · obtain ⟨p, hp⟩ := hap (by intro h0; rw [h0] at hta; simp at hta)
        have := ht.prev_lt p hp
        refine ⟨fun t' ht' => hsab t hta t' ht', ?_⟩
        simp only [hp, Option.getD_some]; omega)
  have hst : ∃ st' : St, st' =
      { st with fi := { st.fi with items := st.fi.items ++ [⟨st.mark, st.pos - st.mark⟩],
                                   comments := st.fi.comments ++ a.map (fun t => ⟨t.1, st.prevSym.getD 0⟩)
                                     ++ b.map (fun t => ⟨t.1, st.fi.items.length⟩) },
                pending := [], maybeDonate := 0, prevSym := some st.fi.items.length, prevLine := st.curLine } :=
    ⟨_, rfl⟩
  obtain ⟨st', hst'⟩ := hst
  refine ⟨st', ?_, ?_, ?_, ?_, ?_, ?_, ?_, ?_, ?_⟩ <;> subst hst'
  rotate_left 3
  · rfl
  · rfl
  · rfl
  · rfl
  · rfl
  · rfl
  · simp only [Lex.tokenStep, hat, hsplit, e1, e2]
  · exact h.transfer rfl rfl rfl h.prev_le rfl rfl rfl
  · refine ⟨?_, ?_, ?_, ?_, ?_, ?_⟩
    · exact (itemsOk_append 0 _ _).mpr ⟨ht.items_ok, ht.items_end⟩
    · simp only [endFrom_append]; omega
    · intro c hc
      simp only [List.mem_append, List.mem_map] at hc
      refine ⟨by simp, ?_, ⟨_, rfl, ?_⟩⟩
      · simp only [List.length_append, List.length_cons, List.length_nil]
        rcases hc with (hc | ⟨t, hta, rfl⟩) | ⟨t, htb, rfl⟩
        · have := (ht.cm_all c hc).2.1; omega
        · have := ht.pend_lt t (hmem_a t hta); simp only; omega
        · have := ht.pend_lt t (hmem_b t htb); simp only; omega
      · rcases hc with (hc | ⟨t, hta, rfl⟩) | ⟨t, htb, rfl⟩
        · obtain ⟨_, _, p', hp', c3⟩ := ht.cm_all c hc
          have := ht.prev_lt p' hp'; omega
        · obtain ⟨p, hp⟩ := hap (by intro h0; rw [h0] at hta; simp at hta)
          have := ht.prev_lt p hp
          simp only [hp, Option.getD_some]; omega
        · simp
    · simp
    · simp
    · intro p hp
      simp only [Option.some.injEq] at hp
      subst hp
      simp

theorem emit_spec {data st rs} (kind : Kind) (val : Val) (isEOF : Bool)
    (h : Core data st rs) (ht : Tab st.mark st) (hm : st.mark ≤ st.pos) :
    Core data (Lex.emit st kind val isEOF) rs ∧ Tab (Lex.emit st kind val isEOF).pos (Lex.emit st kind val isEOF) ∧
    (Lex.emit st kind val isEOF).idx = st.idx ∧ (Lex.emit st kind val isEOF).pos = st.pos ∧
    (Lex.emit st kind val isEOF).eof = st.eof ∧
    (Lex.emit st kind val isEOF).fi.items = st.fi.items ++ [⟨st.mark, st.pos - st.mark⟩] := by
  obtain ⟨st', hts, hc, htab, hidx, hpos, heof, _, _, hitems⟩ := tokenStep_spec isEOF h ht hm
  simp only [Lex.emit, hts]
  refine ⟨?_, ?_, hidx, hpos, heof, hitems⟩
  · exact hc.transfer rfl rfl rfl hc.prev_le rfl rfl rfl
  · exact htab.frame ⟨rfl, rfl, rfl, rfl, rfl, rfl, rfl, rfl, Nat.le_refl _⟩

theorem addCommentTok_spec {data st rs} (isBlock : Bool) (startLine : Nat)
    (h : Core data st rs) (ht : Tab st.mark st) (hm : st.mark ≤ st.pos) :
    Core data (Lex.addCommentTok st isBlock startLine) rs ∧
    Tab (Lex.addCommentTok st isBlock startLine).pos (Lex.addCommentTok st isBlock startLine) ∧
    (Lex.addCommentTok st isBlock startLine).idx = st.idx ∧
    (Lex.addCommentTok st isBlock startLine).pos = st.pos ∧
    (Lex.addCommentTok st isBlock startLine).eof = st.eof := by
  have hlen : st.mark + (st.pos - st.mark) ≤ st.fi.data.length := by
    have := h.pos_le; rw [h.hdata]; omega
  have hat := addToken_spec st.fi st.mark (st.pos - st.mark) hlen ht.items_end
  simp only [Lex.addCommentTok, hat]
  refine ⟨?_, ?_, trivial, trivial, trivial⟩
  · exact h.transfer rfl rfl rfl h.prev_le rfl rfl rfl
  · refine ⟨?_, ?_, ?_, ?_, ?_, ?_⟩
    · exact (itemsOk_append 0 _ _).mpr ⟨ht.items_ok, ht.items_end⟩
    · simp only [endFrom_append]; omega
    · intro c hc
      obtain ⟨c1, c2, c3⟩ := ht.cm_all c hc
      refine ⟨?_, ?_, c3⟩
      · intro t htm
        simp only [List.mem_append, List.mem_singleton] at htm
        rcases htm with htm | rfl
        · exact c1 t htm
        · exact c2
      · simp only [List.length_append, List.length_cons, List.length_nil]; omega
    · rw [List.pairwise_append]
      refine ⟨ht.pend_sorted, by simp, ?_⟩
      intro x hx y hy
      simp only [List.mem_singleton] at hy
      subst hy
      exact ht.pend_lt x hx
    · intro t htm
      simp only [List.mem_append, List.mem_singleton] at htm
      simp only [List.length_append, List.length_cons, List.length_nil]
      rcases htm with htm | rfl
      · have := ht.pend_lt t htm; omega
      · simp
    · intro p hp
      have := ht.prev_lt p hp
      simp only [List.length_append, List.length_cons, List.length_nil]; omega

theorem identLen_no_nl (rs : List Rn) : ∀ x ∈ rs.take (identLen rs), x.r ≠ 10 := by
  induction rs with
  | nil => simp
  | cons c rs ih =>
    simp only [identLen]
    split
    · rename_i hc
      intro x hx
      rw [Nat.add_comm, List.take_succ_cons] at hx
      simp only [List.mem_cons] at hx
      rcases hx with rfl | hx
      · intro h10; rw [h10] at hc; simp [isIdentR, isLetterR, isDigitR] at hc
      · exact ih x hx
    · simp

theorem numberLen_no_nl (rs : List Rn) : ∀ a, ∀ x ∈ rs.take (numberLen a rs), x.r ≠ 10 := by
  induction rs with
  | nil => simp
  | cons c rs ih =>
    intro a
    simp only [numberLen]
    split
    · simp
    · split
      · simp
      · rename_i hc
        intro x hx
        rw [Nat.add_comm, List.take_succ_cons] at hx
        simp only [List.mem_cons] at hx
        rcases hx with rfl | hx
        · intro h10; rw [h10] at hc; simp [isLetterR, isDigitR] at hc
        · exact ih _ x hx

theorem identLen_le (rs : List Rn) : identLen rs ≤ rs.length := by
  induction rs with
  | nil => simp [identLen]
  | cons c rs ih => simp only [identLen]; split <;> simp <;> omega

theorem numberLen_le (rs : List Rn) : ∀ a, numberLen a rs ≤ rs.length := by
  induction rs with
  | nil => simp [numberLen]
  | cons c rs ih =>
    intro a
    simp only [numberLen]
    split
    · simp
    · split
      · simp
      · have := ih (c.r == 101 || c.r == 69); simp; omega


/-! ### one iteration of `Lex` -/

/-- the invariant at the boundaries of the iterations of `Lex` -/
structure Inv (data : List UInt8) (st : St) (rs : List Rn) : Prop where
  core : Core data st rs
  tab : Tab st.pos st
  eofnone : st.eof = none

theorem fin_emit {data : List UInt8} {st0 stx : St} {rsx : List Rn} (kind : Kind) (val : Val)
    (hc : Core data stx rsx) (hf : Frame st0 stx) (ht : Tab st0.mark st0) (hm : st0.mark ≤ st0.pos)
    (he : st0.eof = none) :
    Inv data (Lex.emit stx kind val) rsx ∧ (Lex.emit stx kind val).idx = stx.idx := by
  have ht' : Tab stx.mark stx := by rw [hf.mark]; exact ht.frame hf
  have hm' : stx.mark ≤ stx.pos := by rw [hf.mark]; exact Nat.le_trans hm hf.pos_le
  obtain ⟨a, b, c, _, e, _⟩ := emit_spec kind val false hc ht' hm'
  exact ⟨⟨a, b, by rw [e, hf.eof, he]⟩, c⟩

theorem fin_err {data : List UInt8} {st0 stx : St} {rsx : List Rn} (cls : EC)
    (hc : Core data stx rsx) (hf : Frame st0 stx) (ht : Tab st0.mark st0) (hm : st0.mark ≤ st0.pos)
    (he : st0.eof = none) :
    Inv data (Lex.setErrorPlain stx cls) rsx ∧ (Lex.setErrorPlain stx cls).idx = stx.idx := by
  obtain ⟨a, b, c, _⟩ := setErrorPlain_spec cls hc
  have hfr := hf.trans b
  refine ⟨⟨a, ?_, by rw [hfr.eof, he]⟩, c⟩
  exact (ht.frame hfr).mono (Nat.le_trans hm hfr.pos_le)

theorem fin_errpos {data : List UInt8} {st0 stx : St} {rsx : List Rn} (e : Err)
    (hc : Core data stx rsx) (hf : Frame st0 stx) (ht : Tab st0.mark st0) (hm : st0.mark ≤ st0.pos)
    (he : st0.eof = none) (hoff : ErrAt data stx.pos e) :
    Inv data (Lex.setErrorPos stx e) rsx ∧ (Lex.setErrorPos stx e).idx = stx.idx := by
  obtain ⟨a, b, c, _⟩ := setErrorPos_spec e hc hoff
  have hfr := hf.trans b
  refine ⟨⟨a, ?_, by rw [hfr.eof, he]⟩, c⟩
  exact (ht.frame hfr).mono (Nat.le_trans hm hfr.pos_le)

theorem fin_comment {data : List UInt8} {st0 stx : St} {rsx : List Rn} (isBlock : Bool) (startLine : Nat)
    (hc : Core data stx rsx) (hf : Frame st0 stx) (ht : Tab st0.mark st0) (hm : st0.mark ≤ st0.pos)
    (he : st0.eof = none) :
    Inv data (Lex.addCommentTok stx isBlock startLine) rsx ∧ (Lex.addCommentTok stx isBlock startLine).idx = stx.idx := by
  have ht' : Tab stx.mark stx := by rw [hf.mark]; exact ht.frame hf
  have hm' : stx.mark ≤ stx.pos := by rw [hf.mark]; exact Nat.le_trans hm hf.pos_le
  obtain ⟨a, b, c, _, e⟩ := addCommentTok_spec isBlock startLine hc ht' hm'
  exact ⟨⟨a, b, by rw [e, hf.eof, he]⟩, c⟩

theorem fin_keep {data : List UInt8} {st0 stx : St} {rsx : List Rn}
    (hc : Core data stx rsx) (hf : Frame st0 stx) (ht : Tab st0.mark st0) (hm : st0.mark ≤ st0.pos)
    (he : st0.eof = none) : Inv data stx rsx :=
  ⟨hc, (ht.frame hf).mono (Nat.le_trans hm hf.pos_le), by rw [hf.eof, he]⟩

/-- outcome of one iteration that started at `st0` with `l` to read -/
def BodyPost (data : List UInt8) (st0 : St) (l : List Rn) (st' : St) : Prop :=
  ∃ k, 1 ≤ k ∧ k ≤ l.length ∧ st'.idx = st0.idx + k ∧ Inv data st' (l.drop k)

theorem lexNumber_spec {data : List UInt8} {st0 stx : St} {rsx : List Rn} (token : List UInt8)
    (hc : Core data stx rsx) (hf : Frame st0 stx) (ht : Tab st0.mark st0) (hm : st0.mark ≤ st0.pos)
    (he : st0.eof = none) :
    Inv data (lexNumber stx token) rsx ∧ (lexNumber stx token).idx = stx.idx := by
  simp only [lexNumber]
  repeat' split
  all_goals first
    | exact fin_emit _ _ hc hf ht hm he
    | exact fin_err _ hc hf ht hm he


theorem isWS_false_ne_nl (r : Nat) (h : ¬ isWS r = true) : r ≠ 10 := by
  intro h10; subst h10; simp [isWS] at h

theorem isDigitR_ne_nl (r : Nat) (h : isDigitR r = true) : r ≠ 10 := by
  intro h10; subst h10; simp [isDigitR] at h

theorem nextIs_cons (rs : List Rn) (r : Nat) (h : nextIs rs r = true) : ∃ cn rs1, rs = cn :: rs1 ∧ cn.r = r := by
  cases rs with
  | nil => simp [nextIs] at h
  | cons cn rs1 => exact ⟨cn, rs1, rfl, by simpa [nextIs] using h⟩

theorem lexBody_spec {data : List UInt8} (st0 : St) (c : Rn) (rs : List Rn)
    (hc : Core data st0 (c :: rs)) (ht : Tab st0.mark st0) (hm : st0.mark ≤ st0.pos)
    (he : st0.eof = none) :
    BodyPost data st0 (c :: rs) (lexBody (Lex.adv st0 c) c rs) := by
  have f1 : Frame st0 (Lex.adv st0 c) := frame_adv st0 c
  have i1 : (Lex.adv st0 c).idx = st0.idx + 1 := by simp [Lex.adv]
  unfold lexBody
  by_cases hws : isWS c.r = true
  · rw [if_pos hws]
    obtain ⟨hfm, him⟩ := frame_maybeNewLine (Lex.adv st0 c) c
    exact ⟨1, Nat.le_refl _, by simp, by rw [him, i1],
      fin_keep (by simpa using hc.maybeNewLine) (f1.trans hfm) ht hm he⟩
  rw [if_neg hws]
  have hcnl : c.r ≠ 10 := isWS_false_ne_nl _ hws
  have hc1 : Core data (Lex.adv st0 c) rs := hc.adv hcnl
  -- a token that ends right after `c`
  have one_emit : ∀ kind val, BodyPost data st0 (c :: rs) (Lex.emit (Lex.adv st0 c) kind val) := by
    intro kind val
    obtain ⟨a, b⟩ := fin_emit kind val hc1 f1 ht hm he
    exact ⟨1, Nat.le_refl _, by simp, by rw [b, i1], by simpa using a⟩
  have one_err : ∀ cls, BodyPost data st0 (c :: rs) (Lex.setErrorPlain (Lex.adv st0 c) cls) := by
    intro cls
    obtain ⟨a, b⟩ := fin_err cls hc1 f1 ht hm he
    exact ⟨1, Nat.le_refl _, by simp, by rw [b, i1], by simpa using a⟩
  by_cases h46 : c.r = 46
  · rw [if_pos h46]
    cases rs with
    | nil => exact one_emit _ _
    | cons cn rs1 =>
      show BodyPost data st0 (c :: cn :: rs1) (if isDigitR cn.r = true then _ else _)
      by_cases hd : isDigitR cn.r = true
      · rw [if_pos hd]
        simp only
        have hk := numberLen_le rs1 false
        have hsplit : rs1 = rs1.take (numberLen false rs1) ++ rs1.drop (numberLen false rs1) :=
          (List.take_append_drop _ _).symm
        have hc2 : Core data (Lex.adv (Lex.adv st0 c) cn) rs1 := hc1.adv (isDigitR_ne_nl _ hd)
        have hc3 : Core data (advAll (Lex.adv (Lex.adv st0 c) cn) (rs1.take (numberLen false rs1)))
            (rs1.drop (numberLen false rs1)) := by
          have h' := hc2; rw [hsplit] at h'
          exact h'.advAll_clean (numberLen_no_nl rs1 false)
        have f3 : Frame st0 (advAll (Lex.adv (Lex.adv st0 c) cn) (rs1.take (numberLen false rs1))) :=
          (f1.trans (frame_adv _ cn)).trans (frame_advAll _ _)
        have i3 : (advAll (Lex.adv (Lex.adv st0 c) cn) (rs1.take (numberLen false rs1))).idx =
            st0.idx + (2 + numberLen false rs1) := by
          rw [advAll_idx, List.length_take, Nat.min_eq_left hk]; simp [Lex.adv]; omega
        have hdrop : (c :: cn :: rs1).drop (2 + numberLen false rs1) = rs1.drop (numberLen false rs1) := by
          rw [Nat.add_comm]; rfl
        split
        · obtain ⟨a, b⟩ := fin_emit .floatLit (.float _) hc3 f3 ht hm he
          exact ⟨2 + numberLen false rs1, by omega, by simp; omega, by rw [b, i3], by rw [hdrop]; exact a⟩
        · obtain ⟨a, b⟩ := fin_err (.numSyntax .float) hc3 f3 ht hm he
          exact ⟨2 + numberLen false rs1, by omega, by simp; omega, by rw [b, i3], by rw [hdrop]; exact a⟩
      · rw [if_neg hd]; exact one_emit _ _
  rw [if_neg h46]
  by_cases hid : isIdentStartR c.r = true
  · rw [if_pos hid]
    simp only
    have hk := identLen_le rs
    have hsplit : rs = rs.take (identLen rs) ++ rs.drop (identLen rs) := (List.take_append_drop _ _).symm
    have hc3 : Core data (advAll (Lex.adv st0 c) (rs.take (identLen rs))) (rs.drop (identLen rs)) := by
      have h' := hc1; rw [hsplit] at h'
      exact h'.advAll_clean (identLen_no_nl rs)
    have f3 : Frame st0 (advAll (Lex.adv st0 c) (rs.take (identLen rs))) := f1.trans (frame_advAll _ _)
    have i3 : (advAll (Lex.adv st0 c) (rs.take (identLen rs))).idx = st0.idx + (1 + identLen rs) := by
      rw [advAll_idx, List.length_take, Nat.min_eq_left hk]; simp [Lex.adv]; omega
    have hdrop : (c :: rs).drop (1 + identLen rs) = rs.drop (identLen rs) := by rw [Nat.add_comm]; rfl
    obtain ⟨a, b⟩ := fin_emit (if keywordBytes.contains (asBytes (c :: rs.take (identLen rs))) then Kind.kw else Kind.name)
      Val.none hc3 f3 ht hm he
    exact ⟨1 + identLen rs, by omega, by simp; omega, by rw [b, i3], by rw [hdrop]; exact a⟩
  rw [if_neg hid]
  by_cases hdg : isDigitR c.r = true
  · rw [if_pos hdg]
    simp only
    have hk := numberLen_le rs false
    have hsplit : rs = rs.take (numberLen false rs) ++ rs.drop (numberLen false rs) := (List.take_append_drop _ _).symm
    have hc3 : Core data (advAll (Lex.adv st0 c) (rs.take (numberLen false rs))) (rs.drop (numberLen false rs)) := by
      have h' := hc1; rw [hsplit] at h'
      exact h'.advAll_clean (numberLen_no_nl rs false)
    have f3 : Frame st0 (advAll (Lex.adv st0 c) (rs.take (numberLen false rs))) := f1.trans (frame_advAll _ _)
    have i3 : (advAll (Lex.adv st0 c) (rs.take (numberLen false rs))).idx = st0.idx + (1 + numberLen false rs) := by
      rw [advAll_idx, List.length_take, Nat.min_eq_left hk]; simp [Lex.adv]; omega
    have hdrop : (c :: rs).drop (1 + numberLen false rs) = rs.drop (numberLen false rs) := by rw [Nat.add_comm]; rfl
    obtain ⟨a, b⟩ := lexNumber_spec (asBytes (c :: rs.take (numberLen false rs))) hc3 f3 ht hm he
    exact ⟨1 + numberLen false rs, by omega, by simp; omega, by rw [b, i3], by rw [hdrop]; exact a⟩
  rw [if_neg hdg]
  by_cases hq : c.r = 39 ∨ c.r = 34
  · rw [if_pos hq]
    have hpost := strGo_spec (data := data) c.r rs 0 (Lex.adv st0 c) {} (Nat.zero_le _)
      (by simpa using hc1) ⟨by intro e he'; simp at he', by intro h'; simp at h'⟩
    generalize strGo c.r 0 (Lex.adv st0 c) {} rs = r at hpost
    obtain ⟨stx, res⟩ := r
    obtain ⟨k, _, hk2, hidx, hfr, hcore, hres⟩ := hpost
    simp only [Nat.sub_zero] at hidx
    have hdrop : (c :: rs).drop (1 + k) = rs.drop k := by rw [Nat.add_comm]; rfl
    have f3 : Frame st0 stx := f1.trans hfr
    have i3 : stx.idx = st0.idx + (1 + k) := by rw [hidx, i1]; omega
    cases res with
    | panic => exact hres.elim
    | ok bs =>
      simp only at hcore ⊢
      obtain ⟨a, b⟩ := fin_emit .strLit (.str bs) hcore f3 ht hm he
      exact ⟨1 + k, by omega, by simp; omega, by rw [b, i3], by rw [hdrop]; exact a⟩
    | plain cls =>
      simp only at hcore ⊢
      obtain ⟨a, b⟩ := fin_err cls hcore f3 ht hm he
      exact ⟨1 + k, by omega, by simp; omega, by rw [b, i3], by rw [hdrop]; exact a⟩
    | pos e =>
      simp only at hcore hres ⊢
      obtain ⟨a, b⟩ := fin_errpos e hcore f3 ht hm he hres
      exact ⟨1 + k, by omega, by simp; omega, by rw [b, i3], by rw [hdrop]; exact a⟩
  rw [if_neg hq]
  by_cases hlc : c.r = 47 ∧ nextIs rs 47 = true
  · rw [if_pos hlc]
    obtain ⟨cn, rs1, rfl, hcn⟩ := nextIs_cons rs 47 hlc.2
    simp only
    have hc2 : Core data (Lex.adv (Lex.adv st0 c) cn) rs1 := hc1.adv (by omega)
    obtain ⟨⟨k, hk, hidx, hfr, hcore⟩, _⟩ := lineCommentGo_spec rs1 _ hc2
    have f3 : Frame st0 (lineCommentGo (Lex.adv (Lex.adv st0 c) cn) rs1).1 := (f1.trans (frame_adv _ cn)).trans hfr
    have i3 : (lineCommentGo (Lex.adv (Lex.adv st0 c) cn) rs1).1.idx = st0.idx + (2 + k) := by
      rw [hidx]; simp [Lex.adv]; omega
    have hdrop : (c :: cn :: rs1).drop (2 + k) = rs1.drop k := by rw [Nat.add_comm]; rfl
    split
    · exact ⟨2 + k, by omega, by simp; omega, i3, by rw [hdrop]; exact fin_keep hcore f3 ht hm he⟩
    · obtain ⟨a, b⟩ := fin_comment false (Lex.adv st0 c).curLine hcore f3 ht hm he
      exact ⟨2 + k, by omega, by simp; omega, by rw [b, i3], by rw [hdrop]; exact a⟩
  rw [if_neg hlc]
  by_cases hbc : c.r = 47 ∧ nextIs rs 42 = true
  · rw [if_pos hbc]
    obtain ⟨cn, rs1, rfl, hcn⟩ := nextIs_cons rs 42 hbc.2
    simp only
    have hc2 : Core data (Lex.adv (Lex.adv st0 c) cn) rs1 := hc1.adv (by omega)
    obtain ⟨⟨k, hk, hidx, hfr, hcore⟩, _⟩ := blockCommentGo_spec rs1 _ hc2
    generalize blockCommentGo (Lex.adv (Lex.adv st0 c) cn) rs1 = r at hidx hfr hcore
    obtain ⟨stx, res⟩ := r
    simp only at hidx hfr hcore
    have f3 : Frame st0 stx := (f1.trans (frame_adv _ cn)).trans hfr
    have i3 : stx.idx = st0.idx + (2 + k) := by rw [hidx]; simp [Lex.adv]; omega
    have hdrop : (c :: cn :: rs1).drop (2 + k) = rs1.drop k := by rw [Nat.add_comm]; rfl
    cases res with
    | err => exact ⟨2 + k, by omega, by simp; omega, i3, by rw [hdrop]; exact fin_keep hcore f3 ht hm he⟩
    | eof =>
      obtain ⟨a, b⟩ := fin_err .blockCommentEOF hcore f3 ht hm he
      exact ⟨2 + k, by omega, by simp; omega, by rw [b, i3], by rw [hdrop]; exact a⟩
    | ok =>
      obtain ⟨a, b⟩ := fin_comment true (Lex.adv st0 c).curLine hcore f3 ht hm he
      exact ⟨2 + k, by omega, by simp; omega, by rw [b, i3], by rw [hdrop]; exact a⟩
  rw [if_neg hbc]
  by_cases hctl : c.r < 32 ∨ c.r = 127
  · rw [if_pos hctl]; exact one_err _
  rw [if_neg hctl]
  by_cases hp : (!isPunct c.r) = true
  · rw [if_pos hp]; exact one_err _
  rw [if_neg hp]; exact one_emit _ _


/-! ### the driver loop -/

theorem beginIter_spec {data : List UInt8} {st : St} {rs : List Rn} (h : Inv data st rs) :
    Core data (beginIter st) rs ∧ Tab (beginIter st).mark (beginIter st) ∧
    (beginIter st).mark ≤ (beginIter st).pos ∧ (beginIter st).eof = none ∧
    (beginIter st).idx = st.idx ∧ (beginIter st).pos = st.pos ∧ (beginIter st).toks = st.toks ∧
    (beginIter st).done = st.done := by
  unfold beginIter
  split
  · refine ⟨?_, ?_, Nat.le_refl _, h.eofnone, rfl, rfl, rfl, rfl⟩
    · exact h.core.transfer rfl rfl rfl (Nat.le_refl _) rfl rfl rfl
    · refine ⟨h.tab.items_ok, h.tab.items_end, ?_, by simp, by simp, h.tab.prev_lt⟩
      intro c hc
      obtain ⟨_, c2, c3⟩ := h.tab.cm_all c hc
      exact ⟨by simp, c2, c3⟩
  · refine ⟨?_, ?_, Nat.le_refl _, h.eofnone, rfl, rfl, rfl, rfl⟩
    · exact h.core.transfer rfl rfl rfl (Nat.le_refl _) rfl rfl rfl
    · exact ⟨h.tab.items_ok, h.tab.items_end, h.tab.cm_all, h.tab.pend_sorted, h.tab.pend_lt, h.tab.prev_lt⟩

/-- outcome of one call of `lexIter` -/
def IterPost (data : List UInt8) (st : St) (l : List Rn) (st' : St) : Prop :=
  ∃ k, k ≤ l.length ∧ st'.idx = st.idx + k ∧ Inv data st' (l.drop k) ∧ (k = 0 → st'.done = true)

theorem lexIter_spec {data : List UInt8} (st : St) (c : Rn) (rs : List Rn) (h : Inv data st (c :: rs)) :
    IterPost data st (c :: rs) (lexIter st c rs) := by
  unfold lexIter
  split
  · refine ⟨0, Nat.zero_le _, rfl, ?_, fun _ => rfl⟩
    exact ⟨h.core.transfer rfl rfl rfl h.core.prev_le rfl rfl rfl,
      h.tab.frame ⟨rfl, rfl, rfl, rfl, rfl, rfl, rfl, rfl, Nat.le_refl _⟩, h.eofnone⟩
  · obtain ⟨hc, ht, hm, he, hidx, _, _, _⟩ := beginIter_spec h
    obtain ⟨k, hk1, hk2, hk3, hk4⟩ := lexBody_spec (beginIter st) c rs hc ht hm he
    exact ⟨k, hk2, by rw [hk3, hidx], hk4, fun h0 => by omega⟩

/-- the lexer reached the end of the input: the EOF item is the last item, empty, at the end -/
def EofOk (data : List UInt8) (st : St) : Prop :=
  st.pos = data.length ∧ ∃ k, st.eof = some k ∧ k + 1 = st.fi.items.length ∧
  st.fi.items.getLast? = some ⟨data.length, 0⟩

/-- what holds of the state in which the driver loop stops -/
def Final (data : List UInt8) (st : St) : Prop :=
  (∃ rs, Core data st rs) ∧ Tab st.pos st ∧ (st.eof = none ∨ EofOk data st)

theorem lexEOF_spec {data : List UInt8} (st : St) (h : Inv data st []) :
    Final data (lexEOF st) := by
  unfold lexEOF
  split
  · refine ⟨⟨[], ?_⟩, ?_, Or.inl h.eofnone⟩
    · exact h.core.transfer rfl rfl rfl h.core.prev_le rfl rfl rfl
    · exact h.tab.frame ⟨rfl, rfl, rfl, rfl, rfl, rfl, rfl, rfl, Nat.le_refl _⟩
  · obtain ⟨hc, ht, hm, he, hidx, hpos, _, _⟩ := beginIter_spec h
    obtain ⟨st', hts, hc', htab, _, hpos', _, _, _, hitems⟩ := tokenStep_spec true hc ht hm
    simp only [hts]
    have hp : st.pos = data.length := by have := h.core.pos_eq; simpa using this
    have hmark : (beginIter st).mark = (beginIter st).pos := by simp [beginIter]
    refine ⟨⟨[], hc'.transfer rfl rfl rfl hc'.prev_le rfl rfl rfl⟩, ?_, Or.inr ?_⟩
    · exact htab.transfer rfl rfl rfl rfl
    · refine ⟨by show st'.pos = data.length; rw [hpos', hpos, hp], (beginIter st).fi.items.length, rfl, ?_, ?_⟩
      · show _ = st'.fi.items.length; rw [hitems]; simp
      · show st'.fi.items.getLast? = _
        rw [hitems, hmark, hpos, hp]; simp

theorem lexGo_done (s : Nat) (st : St) (rs : List Rn) (h : st.done = true) : lexGo s st rs = st := by
  cases rs with
  | nil => simp [lexGo, h]
  | cons c rs => cases s <;> simp [lexGo, h]

theorem lexGo_spec {data : List UInt8} (rs : List Rn) : ∀ (s : Nat) (st : St), s ≤ rs.length →
    Inv data st (rs.drop s) → Final data (lexGo s st rs) := by
  induction rs with
  | nil =>
    intro s st hs h
    have hs0 : s = 0 := by simpa using hs
    subst hs0
    simp only [lexGo]
    split
    · exact ⟨⟨[], by simpa using h.core⟩, h.tab, Or.inl h.eofnone⟩
    · exact lexEOF_spec st (by simpa using h)
  | cons c rs ih =>
    intro s st hs h
    cases s with
    | succ s =>
      simp only [lexGo]
      split
      · exact ⟨⟨_, h.core⟩, h.tab, Or.inl h.eofnone⟩
      · exact ih s st (by simpa using hs) (by simpa using h)
    | zero =>
      simp only [lexGo]
      split
      · exact ⟨⟨_, h.core⟩, h.tab, Or.inl h.eofnone⟩
      · simp only [List.drop_zero] at h
        obtain ⟨k, hk1, hk2, hk3, hk4⟩ := lexIter_spec st c rs h
        by_cases hk0 : k = 0
        · rw [lexGo_done _ _ _ (hk4 hk0)]
          subst hk0
          exact ⟨⟨_, hk3.core⟩, hk3.tab, Or.inl hk3.eofnone⟩
        · have hskip : (lexIter st c rs).idx - st.idx - 1 = k - 1 := by omega
          rw [hskip]
          have hdrop : (c :: rs).drop k = rs.drop (k - 1) := by
            obtain ⟨j, hj⟩ : ∃ j, k = j + 1 := ⟨k - 1, by omega⟩
            subst hj; simp
          rw [hdrop] at hk3
          exact ih (k - 1) _ (by simp at hk1; omega) hk3

theorem inv_init (data : List UInt8) (lenient : Bool) : Inv data (initSt data lenient) (runes data) := by
  refine ⟨?_, ?_, rfl⟩
  · refine { hdata := rfl, pos_eq := ?_, data_eq := ?_, rok := runes_ok data, prev_le := Nat.le_refl _,
             lines_hd := ⟨[], rfl⟩, lines_le := ?_, lines_eq := ?_, errs_ok := ?_, herr_errs := ?_,
             nopanic := rfl }
    · simp [initSt, flat_runes]
    · simp [initSt, flat_runes]
    · intro l hl; simp [initSt, FileInfo.new] at hl; subst hl; exact Nat.le_refl _
    · simp [initSt, FileInfo.new, lineStartsFrom]
    · intro e he; simp [initSt] at he
    · intro h; simp [initSt] at h
  · refine ⟨?_, ?_, ?_, ?_, ?_, ?_⟩ <;> simp [initSt, FileInfo.new, ItemsOk, endFrom]

/-- **the lexer invariant, whole run**: the state in which "call `Lex` until it returns 0" stops.
    In particular the lexer model never panics (`Core.nopanic`). -/
theorem lexAll_final (lenient : Bool) (bs : List UInt8) : Final (stripBOM bs) (lexAll lenient bs) := by
  unfold lexAll
  exact lexGo_spec (runes (stripBOM bs)) 0 _ (Nat.zero_le _) (by simpa using inv_init (stripBOM bs) lenient)

end PCV.Lemmas.LexInv
