/-
Soundness of the instrumented renderer (`PCV.Spec.Printer.diagList`): when it raises no flag,
`print` writes exactly the texts of the `Always` text tags, in order (`printList_clean`), and
`render` returns them, up to the end-of-output rule (`render_clean`).
-/
import PCV.Spec.Printer
import PCV.Lemmas.Dom
namespace PCV.PrinterRT
open PCV.Trivia PCV.Dom

theorem orFlags_none (a b : Flags) : (orFlags a b).none = true ↔ a.none = true ∧ b.none = true := by
  cases a; cases b
  simp only [orFlags, Flags.none, Bool.and_eq_true, Bool.not_eq_true', Bool.or_eq_false_iff]
  constructor
  · rintro ⟨⟨⟨⟨h1, h2⟩, h3, h4⟩, h5, h6⟩, h7, h8⟩; exact ⟨⟨⟨⟨h1, h3⟩, h5⟩, h7⟩, ⟨⟨h2, h4⟩, h6⟩, h8⟩
  · rintro ⟨⟨⟨⟨h1, h3⟩, h5⟩, h7⟩, ⟨⟨h2, h4⟩, h6⟩, h8⟩; exact ⟨⟨⟨⟨h1, h2⟩, h3, h4⟩, h5, h6⟩, h7, h8⟩

theorem flag_none (p : DSt) (f : Flags) : (p.flag f).flags.none = true ↔ p.flags.none = true ∧ f.none = true := by
  simp [DSt.flag, orFlags_none]

-- flags are never cleared
mutual
theorem diagTag_mono : ∀ (cond : Cond) (q : DSt) (t : LTag),
    (diagTag cond q t).flags.none = true → q.flags.none = true
  | cond, q, .text c s w col br, h => by
    simp only [diagTag] at h
    split at h
    · exact h
    · split at h
      · exact ((flag_none _ _).mp h).1
      · split at h <;> exact ((flag_none _ _).mp h).1
  | cond, q, .group c limit w col br kids, h => by
    simp only [diagTag] at h
    split at h
    · exact ((flag_none _ _).mp h).1
    · exact diagList_mono _ q kids h
  | cond, q, .indent by_ w col br kids, h => by
    simp only [diagTag] at h
    exact diagList_mono cond { q with indentLen := q.indentLen + by_.length } kids h
  | cond, q, .unindent w col br kids, h => by
    simp only [diagTag] at h
    exact ((flag_none _ _).mp h).1
theorem diagList_mono : ∀ (cond : Cond) (q : DSt) (ts : List LTag),
    (diagList cond q ts).flags.none = true → q.flags.none = true
  | _, _, [], h => by simpa [diagList] using h
  | cond, q, t :: ts, h => by
    simp only [diagList] at h
    exact diagTag_mono cond q t (diagList_mono cond _ ts h)
end


/-- the whitespace `print` has buffered -/
def pendText (nl sp : Nat) : Bytes := List.replicate nl 10 ++ List.replicate sp 32

/-- everything `print` has accepted so far: written or buffered -/
def accText (p : PSt) : Bytes := p.out ++ pendText p.newlines p.spaces

structure Inv (p : PSt) (q : DSt) : Prop where
  sp : p.spaces = q.spaces
  nl : p.newlines = q.newlines
  il : p.indent.length = q.indentLen
  pn : p.panic = none
  one : q.spaces = 0 ∨ q.newlines = 0

theorem all_eq_replicate (s : Bytes) (b : UInt8) (h : s.all (· == b) = true) :
    s = List.replicate s.length b := by
  induction s with
  | nil => rfl
  | cons x xs ih =>
    simp only [List.all_cons, Bool.and_eq_true, beq_iff_eq] at h
    rw [List.length_cons, List.replicate_succ, ← ih h.2, h.1]

theorem kindOf_space (s : Bytes) (h : kindOf s = .space) : s = List.replicate s.length 32 := by
  unfold kindOf at h
  split at h
  · next h1 => exact all_eq_replicate s 32 h1
  · split at h <;> cases h

theorem kindOf_brk (s : Bytes) (h : kindOf s = .brk) : s = List.replicate s.length 10 := by
  unfold kindOf at h
  split at h
  · cases h
  · split at h
    · next h1 => exact all_eq_replicate s 10 h1
    · cases h

theorem renderIf_always (c : Cond) : renderIf .always c = true := by simp [renderIf]

theorem alwaysText_cons (t : Tag) (ts : List Tag) : alwaysText (t :: ts) = alwaysText [t] ++ alwaysText ts := by
  cases t <;> simp [alwaysText, alwaysTextTag]

mutual
theorem printTag_clean : ∀ (cond : Cond) (p : PSt) (q : DSt) (t : LTag), Inv p q →
    (diagTag cond q t).flags.none = true →
    Inv (printTag cond p t) (diagTag cond q t) ∧
      accText (printTag cond p t) = accText p ++ alwaysText [eraseT t]
  | cond, p, q, .text c s w col br, inv, h => by
    have hp' : p.panic.isSome = false := by simp [inv.pn]
    simp only [printTag, hp', Bool.false_eq_true, if_false]
    simp only [diagTag] at h ⊢
    by_cases hr : renderIf c cond = true
    · simp only [hr, Bool.not_true, Bool.false_eq_true, if_false] at h ⊢
      by_cases hc : c = .always
      · subst hc
        simp only [bne_self_eq_false, Bool.false_eq_true, if_false] at h ⊢
        cases hk : kindOf s with
        | text =>
          simp only [hk] at h ⊢
          have hf := ((flag_none _ _).mp h).2
          simp only [Flags.none, Bool.not_false, Bool.and_true, Bool.not_eq_true', Bool.and_eq_false_iff,
            decide_eq_false_iff_not, Nat.not_lt, Nat.le_zero_eq] at hf
          have hi : p.newlines > 0 → p.indent = [] := by
            intro hn
            have : q.indentLen = 0 := by
              rcases hf with hf | hf
              · rw [← inv.nl] at hf; omega
              · exact hf
            exact List.eq_nil_of_length_eq_zero (by rw [inv.il, this])
          refine ⟨⟨by simp [writeText, DSt.flag], by simp [writeText, DSt.flag], by simp [writeText, DSt.flag, inv.il],
            by simp [writeText, inv.pn], by simp [DSt.flag]⟩, ?_⟩
          simp only [accText, writeText, pendText, eraseT, alwaysText, alwaysTextTag, List.replicate_zero, List.append_nil,
            beq_self_eq_true, if_true]
          by_cases hn : p.newlines > 0
          · have hs : p.spaces = 0 := by
              have := inv.one; rw [← inv.sp, ← inv.nl] at this; omega
            simp [hn, hi hn, hs]
          · have hn0 : p.newlines = 0 := by omega
            simp [hn0]
        | space =>
          simp only [hk] at h ⊢
          have hf := ((flag_none _ _).mp h).2
          simp only [Flags.none, Bool.not_false, Bool.and_true, Bool.true_and, Bool.not_eq_true', Bool.or_eq_false_iff,
            decide_eq_false_iff_not, Nat.not_lt, Nat.le_zero_eq] at hf
          have hs : p.spaces = 0 := by rw [inv.sp]; exact hf.1
          have hn : p.newlines = 0 := by rw [inv.nl]; exact hf.2
          refine ⟨⟨by simp [DSt.flag, inv.sp], by simp [DSt.flag, inv.nl], by simp [DSt.flag, inv.il], inv.pn,
            by simp [DSt.flag]; right; exact hf.2⟩, ?_⟩
          simp only [accText, pendText, eraseT, alwaysText, alwaysTextTag, hs, hn, List.replicate_zero, List.append_nil,
            beq_self_eq_true, if_true, Nat.zero_max]
          rw [← kindOf_space s hk]; simp
        | brk =>
          simp only [hk] at h ⊢
          have hf := ((flag_none _ _).mp h).2
          simp only [Flags.none, Bool.not_false, Bool.and_true, Bool.true_and, Bool.not_eq_true', Bool.or_eq_false_iff,
            decide_eq_false_iff_not, Nat.not_lt, Nat.le_zero_eq] at hf
          have hs : p.spaces = 0 := by rw [inv.sp]; exact hf.1
          have hn : p.newlines = 0 := by rw [inv.nl]; exact hf.2
          refine ⟨⟨by simp [DSt.flag, inv.sp], by simp [DSt.flag, inv.nl], by simp [DSt.flag, inv.il], inv.pn,
            by simp [DSt.flag]; left; exact hf.1⟩, ?_⟩
          simp only [accText, pendText, eraseT, alwaysText, alwaysTextTag, hs, hn, List.replicate_zero, List.append_nil,
            beq_self_eq_true, if_true, Nat.zero_max]
          rw [← kindOf_brk s hk]
      · have hne : (c != .always) = true := by simp [hc]
        simp only [hne, if_true] at h
        have := ((flag_none _ _).mp h).2
        simp [Flags.none] at this
    · have hc : c ≠ .always := by
        intro hc; subst hc; simp [renderIf_always] at hr
      simp only [hr, Bool.not_false, if_true] at h ⊢
      refine ⟨inv, ?_⟩
      simp [eraseT, alwaysText, alwaysTextTag, hc]
  | cond, p, q, .group c limit w col br kids, inv, h => by
    have hp' : p.panic.isSome = false := by simp [inv.pn]
    simp only [printTag, hp', Bool.false_eq_true, if_false]
    simp only [diagTag] at h ⊢
    by_cases hc : c = .always
    · subst hc
      simp only [bne_self_eq_false, Bool.false_eq_true, if_false, renderIf_always, Bool.not_true] at h ⊢
      have := printList_clean (if br then .broken else .flat) p q kids inv h
      refine ⟨this.1, ?_⟩
      rw [this.2]; simp [eraseT, alwaysText, alwaysTextTag]
    · have hne : (c != .always) = true := by simp [hc]
      simp only [hne, if_true] at h
      have := ((flag_none _ _).mp h).2
      simp [Flags.none] at this
  | cond, p, q, .indent by_ w col br kids, inv, h => by
    have hp' : p.panic.isSome = false := by simp [inv.pn]
    simp only [printTag, hp', Bool.false_eq_true, if_false]
    simp only [diagTag] at h ⊢
    have ih := printList_clean cond { p with indent := p.indent ++ by_, indents := p.indents ++ [by_] }
      { q with indentLen := q.indentLen + by_.length } kids
      ⟨inv.sp, inv.nl, by simp [inv.il], inv.pn, inv.one⟩ h
    rw [if_neg (by simp [ih.1.pn])]
    refine ⟨⟨ih.1.sp, ih.1.nl, inv.il, ih.1.pn, ih.1.one⟩, ?_⟩
    have := ih.2
    simp only [accText] at this ⊢
    rw [this]; simp [eraseT, alwaysText, alwaysTextTag]
  | cond, p, q, .unindent w col br kids, inv, h => by
    simp only [diagTag] at h
    have := ((flag_none _ _).mp h).2
    simp [Flags.none] at this
theorem printList_clean : ∀ (cond : Cond) (p : PSt) (q : DSt) (ts : List LTag), Inv p q →
    (diagList cond q ts).flags.none = true →
    Inv (printList cond p ts) (diagList cond q ts) ∧
      accText (printList cond p ts) = accText p ++ alwaysText (eraseL ts)
  | cond, p, q, [], inv, _ => by simp [printList, diagList, eraseL, alwaysText, alwaysTextTag, inv]
  | cond, p, q, t :: ts, inv, h => by
    simp only [diagList] at h
    have h1 := printTag_clean cond p q t inv (diagList_mono cond _ ts h)
    have h2 := printList_clean cond (printTag cond p t) (diagTag cond q t) ts h1.1 h
    simp only [printList, diagList, eraseL]
    refine ⟨h2.1, ?_⟩
    rw [h2.2, h1.2, List.append_assoc, ← alwaysText_cons]
end


theorem inv_init : Inv PSt.init {} := ⟨rfl, rfl, rfl, rfl, Or.inl rfl⟩

theorem accText_init : accText PSt.init = [] := by simp [accText, pendText, PSt.init]

/-- what `print` has accepted at the end of a flag-free run is the `Always` text of the dom -/
theorem renderState_clean (o : Dom.Options) (d : List Tag) (hfl : (diagRender o d).flags.none = true) :
    Inv (renderState o d) (diagRender o d) ∧ accText (renderState o d) = alwaysText d := by
  have := printList_clean .broken PSt.init {} (layout o.withDefaults d) inv_init hfl
  refine ⟨this.1, ?_⟩
  have h2 := this.2
  rw [accText_init, eraseL_layout, List.nil_append] at h2
  exact h2

/-- **render is transparent when the instrumented run raises no flag** (file mode): the output
    is the concatenation of the `Always` texts -/
theorem render_clean (o : Dom.Options) (d : List Tag) (ho : o.omitTrailingNewline = false)
    (hfl : (diagRender o d).flags.none = true)
    (heof : eofOk (diagRender o d) (renderState o d).out = true) :
    render o d = alwaysText d := by
  obtain ⟨inv, hacc⟩ := renderState_clean o d hfl
  simp only [eofOk, Bool.and_eq_true, Bool.or_eq_true, beq_iff_eq, Bool.not_eq_true'] at heof
  obtain ⟨hsp, hnl⟩ := heof
  have hsp' : (renderState o d).spaces = 0 := by rw [inv.sp]; exact hsp
  simp only [render, finish, ho, Bool.false_eq_true, if_false]
  simp only [accText, pendText, hsp', List.replicate_zero, List.append_nil] at hacc
  rcases hnl with ⟨h0, hend⟩ | ⟨h1, hend⟩
  · have : (renderState o d).newlines = 0 := by rw [inv.nl]; exact h0
    rw [this] at hacc
    simp only [List.replicate_zero, List.append_nil] at hacc
    rw [if_pos hend]; exact hacc
  · have : (renderState o d).newlines = 1 := by rw [inv.nl]; exact h1
    rw [this] at hacc
    rw [if_neg (by simp [hend])]
    simpa using hacc

/-- snippet mode (`OmitTrailingNewline`): buffered newlines are flushed, buffered spaces are lost -/
theorem render_clean_omit (o : Dom.Options) (d : List Tag) (ho : o.omitTrailingNewline = true)
    (hfl : (diagRender o d).flags.none = true) (hsp : (diagRender o d).spaces = 0) :
    render o d = alwaysText d := by
  obtain ⟨inv, hacc⟩ := renderState_clean o d hfl
  have hsp' : (renderState o d).spaces = 0 := by rw [inv.sp]; exact hsp
  simp only [render, finish, ho, if_true]
  simpa [accText, pendText, hsp'] using hacc

/-! ### plan level: the text pushed into the dom is the text of the trace -/

def pieceText (e : Env) : Piece → Bytes
  | .sk s => s.text
  | .nat id => e.text id
  | .gap => []
  | .reflow => []

def piecesText (e : Env) (ps : List Piece) : Bytes := ps.flatMap (pieceText e)

def noSynth (ps : List Piece) : Bool := ps.all (fun p => p != .gap && p != .reflow)

theorem alwaysText_append (a b : List Tag) : alwaysText (a ++ b) = alwaysText a ++ alwaysText b := by
  induction a with
  | nil => simp [alwaysText, alwaysTextTag]
  | cons t ts ih => rw [List.cons_append, alwaysText_cons, alwaysText_cons t ts, ih, List.append_assoc]

theorem alwaysText_domText (s : Bytes) : alwaysText (domText s) = s := by
  unfold domText
  split
  · next h => simp [alwaysText, alwaysTextTag, List.isEmpty_iff.mp h]
  · simp [alwaysText, alwaysTextTag]

theorem piecesText_sk (e : Env) (ts : List Skip) : piecesText e (ts.map .sk) = textOf ts := by
  simp [piecesText, textOf, List.flatMap_map, pieceText]

theorem noSynth_append (a b : List Piece) : noSynth (a ++ b) = (noSynth a && noSynth b) := by
  simp [noSynth]

mutual
theorem execOne_trace (e : Env) : ∀ (pending : List Skip) (p : Plan),
    noSynth (traceOne e pending p).2 = true →
    (execOne e pending p).1 = (traceOne e pending p).1 ∧
      alwaysText (execOne e pending p).2 = piecesText e (traceOne e pending p).2
  | pending, .tok id gap, h => by
    simp only [execOne, traceOne] at h ⊢
    cases hatt : e.ix.att? id with
    | some a =>
      simp only []
      refine ⟨trivial, ?_⟩
      rw [alwaysText_append, alwaysText_domText, alwaysText_domText]
      simp [piecesText, pieceText, textOf, List.flatMap_map]
    | none =>
      rw [hatt] at h
      simp only [] at h ⊢
      by_cases hg : gap = .none
      · subst hg
        refine ⟨trivial, ?_⟩
        simp [gapTags, alwaysText_domText, piecesText, pieceText]
      · have : (gap == Gap.none) = false := by simp [hg]
        simp [this, noSynth] at h
  | pending, .slot scope i, _ => by simp [execOne, traceOne, alwaysText, alwaysTextTag, piecesText]
  | pending, .remain scope i, _ => by simp [execOne, traceOne, alwaysText, alwaysTextTag, piecesText]
  | pending, .comma id, _ => by
    simp only [execOne, traceOne]
    cases hatt : e.ix.att? id <;> simp [alwaysText, alwaysTextTag, piecesText]
  | pending, .flush, _ => by
    simp only [execOne, traceOne]
    exact ⟨trivial, by rw [alwaysText_domText, piecesText_sk]⟩
  | pending, .softbreak, _ => by simp [execOne, traceOne, alwaysText, alwaysTextTag, piecesText]
  | pending, .closeComments, h => by
    simp only [execOne, traceOne] at h ⊢
    split
    · next hc => simp [hc, noSynth] at h
    · simp [alwaysText, alwaysTextTag, piecesText]
  | pending, .indent kids, h => by
    simp only [execOne, traceOne] at h ⊢
    have := execList_trace e pending kids h
    exact ⟨this.1, by simp [alwaysText, alwaysTextTag, this.2]⟩
  | pending, .group kids, h => by
    simp only [execOne, traceOne] at h ⊢
    have := execList_trace e pending kids h
    exact ⟨this.1, by simp [alwaysText, alwaysTextTag, this.2]⟩
  | pending, .ifNonEmpty scope a b, h => by
    simp only [execOne, traceOne] at h ⊢
    split
    · next hc => simp only [hc, if_true] at h; exact execList_trace e pending a h
    · next hc => simp only [hc] at h; exact execList_trace e pending b h
theorem execList_trace (e : Env) : ∀ (pending : List Skip) (ps : List Plan),
    noSynth (traceList e pending ps).2 = true →
    (execList e pending ps).1 = (traceList e pending ps).1 ∧
      alwaysText (execList e pending ps).2 = piecesText e (traceList e pending ps).2
  | pending, [], _ => by simp [execList, traceList, alwaysText, alwaysTextTag, piecesText]
  | pending, p :: ps, h => by
    simp only [execList, traceList] at h ⊢
    rw [noSynth_append, Bool.and_eq_true] at h
    have h1 := execOne_trace e pending p h.1
    rw [h1.1]
    have h2 := execList_trace e (traceOne e pending p).1 ps h.2
    refine ⟨h2.1, ?_⟩
    rw [alwaysText_append, h1.2, h2.2]
    simp [piecesText]
end


/-! ### the token-text table of a tree -/

theorem lookup_of_nodup {α : Type} : ∀ (l : List (Nat × α)), (l.map Prod.fst).Nodup →
    ∀ p ∈ l, l.lookup p.1 = some p.2
  | [], _, p, hp => by cases hp
  | (k, v) :: l, hnd, p, hp => by
    simp only [List.map_cons, List.nodup_cons] at hnd
    rcases List.mem_cons.mp hp with rfl | hp'
    · simp [List.lookup]
    · have hne : p.1 ≠ k := by
        intro h
        apply hnd.1
        rw [← h]
        exact List.mem_map_of_mem (f := Prod.fst) hp'
      simp only [List.lookup]
      have : (p.1 == k) = false := by simp [hne]
      rw [this]
      exact lookup_of_nodup l hnd.2 p hp'

theorem piecesText_append (e : Env) (a b : List Piece) :
    piecesText e (a ++ b) = piecesText e a ++ piecesText e b := by simp [piecesText]

theorem piecesText_cons (e : Env) (a : Piece) (b : List Piece) :
    piecesText e (a :: b) = pieceText e a ++ piecesText e b := by simp [piecesText]

/-- if the table knows the text of every natural token of the tree, the texts of all tokens in
    source order are the source -/
theorem piecesText_DFS (e : Env) : ∀ (items : List Item),
    (∀ p ∈ textsOf items, e.texts.lookup p.1 = some p.2) →
    piecesText e (piecesDFS items) = sourceOf items
  | [], _ => by simp [piecesDFS, sourceOf, piecesText]
  | .skip s :: r, h => by
    simp only [piecesDFS, piecesOfItem, sourceOf, sourceOfItem, piecesText_append]
    rw [piecesText_DFS e r (by intro p hp; exact h p (by simpa [textsOf, textsOfItem] using hp))]
    simp [piecesText, pieceText]
  | .leaf id kw t :: r, h => by
    simp only [piecesDFS, piecesOfItem, sourceOf, sourceOfItem, piecesText_append]
    rw [piecesText_DFS e r (by intro p hp; exact h p (by simp [textsOf, textsOfItem, hp]))]
    have := h (id, t) (by simp [textsOf, textsOfItem])
    simp only at this
    simp [piecesText, pieceText, Env.text, this]
  | .fused id br ot kids cid ct :: r, h => by
    simp only [piecesDFS, piecesOfItem, sourceOf, sourceOfItem, piecesText_append, piecesText_cons]
    rw [piecesText_DFS e kids (by intro p hp; exact h p (by simp [textsOf, textsOfItem, hp]))]
    rw [piecesText_DFS e r (by intro p hp; exact h p (by simp [textsOf, textsOfItem, hp]))]
    have h1 := h (id, ot) (by simp [textsOf, textsOfItem])
    have h2 := h (cid, ct) (by simp [textsOf, textsOfItem])
    simp only at h1 h2
    simp [piecesText, pieceText, Env.text, h1, h2]

/-- natural token IDs of the tree are pairwise distinct (they are stream positions) -/
def idsDistinct (items : List Item) : Prop := ((textsOf items).map Prod.fst).Nodup

instance (items : List Item) : Decidable (idsDistinct items) := by unfold idsDistinct; infer_instance

theorem piecesText_ofItems (items : List Item) (h : idsDistinct items) :
    piecesText (Env.ofItems items) (piecesDFS items) = sourceOf items :=
  piecesText_DFS _ items (lookup_of_nodup _ h)

theorem noSynth_DFS : ∀ (items : List Item), noSynth (piecesDFS items) = true
  | [] => by simp [piecesDFS, piecesOfItem, noSynth]
  | .skip s :: r => by
    have := noSynth_DFS r
    simp only [noSynth, piecesDFS, piecesOfItem, List.all_cons] at this ⊢
    simp [this]
  | .leaf id kw t :: r => by
    have := noSynth_DFS r
    simp only [noSynth, piecesDFS, piecesOfItem, List.all_cons] at this ⊢
    simp [this]
  | .fused id br ot kids cid ct :: r => by
    have h1 := noSynth_DFS r
    have h2 := noSynth_DFS kids
    simp only [noSynth, piecesDFS, piecesOfItem, List.all_cons, List.all_append] at h1 h2 ⊢
    simp [h1, h2]

/-- **Round trip of the model under the clean condition.** If the plan emits every token of the
    tree once and in order, the instrumented renderer raises no flag and the end-of-output rule is
    harmless (`fileClean`), then `PrintFile` in round-trip mode returns the source text. -/
theorem printFile_of_clean (items : List Item) (plan : List Plan) (hid : idsDistinct items)
    (h : fileClean (Env.ofItems items) items plan = true) :
    printFile (Env.ofItems items) plan = sourceOf items := by
  simp only [fileClean, planFaithful, Bool.and_eq_true, beq_iff_eq] at h
  obtain ⟨⟨⟨_, htr⟩, hfl⟩, heof⟩ := h
  have hns : noSynth (traceList (Env.ofItems items) [] plan).2 = true := by
    rw [htr]; exact noSynth_DFS items
  have ht := (execList_trace (Env.ofItems items) [] plan hns).2
  unfold printFile
  rw [render_clean _ _ rfl hfl heof]
  unfold execPlan
  rw [ht, htr]
  exact piecesText_ofItems items hid

end PCV.PrinterRT
