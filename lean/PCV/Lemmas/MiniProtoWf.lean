/-
Lemmas for Props/C01: when descriptor construction (PCV.Model.MiniProto.Build) reports no error,
every declared range of every message and enum is well-formed (non-empty), and names are
non-empty if they are in the source. This discharges the hypothesis of the rule equivalences.
-/
import PCV.Spec.MiniProto
namespace PCV.MiniProto
open PCV.MiniProto.Spec

/-- what the rule equivalences need of a message descriptor -/
def MsgWf (m : MsgD) : Prop :=
  (∀ r ∈ m.reservedRanges, RangeWf false r) ∧ (∀ r ∈ m.extRanges, RangeWf false r) ∧
  (∀ f ∈ m.fields, f.name ≠ "")

def EnumWf (e : EnumD) : Prop :=
  (∀ r ∈ e.reservedRanges, RangeWf true r) ∧ (∀ v ∈ e.values, v.1 ≠ "")

def FileWf (fd : FileD) : Prop :=
  (∀ m ∈ fd.msgs, MsgWf m ∧ ∀ e ∈ m.enums, EnumWf e) ∧ (∀ e ∈ fd.enums, EnumWf e)

/-- message + its enums -/
def MsgWf' (m : MsgD) : Prop := MsgWf m ∧ ∀ e ∈ m.enums, EnumWf e

/-! ### names in the abstract syntax (guaranteed by the grammar: identifiers are non-empty) -/

def memberNameOk : Member → Prop
  | .field a => a.name ≠ ""
  | .group g => toLowerStr g.name ≠ ""

def elemNameOk : Elem → Prop
  | .field a => a.name ≠ ""
  | .group g => toLowerStr g.name ≠ ""
  | .map _ _ n _ => n ≠ ""
  | .oneof _ ms => ∀ m ∈ ms, memberNameOk m
  | .value n _ => n ≠ ""
  | _ => True

def ElemsOk (es : List Elem) : Prop := ∀ e ∈ es, elemNameOk e

/-- every field, group, map field and enum value of the file has a non-empty name -/
def NamesOk (f : FileA) : Prop :=
  (∀ b ∈ f.msgs, ElemsOk b.elems) ∧ (∀ b ∈ f.enums, ElemsOk b.elems) ∧ ElemsOk f.top

/-! ### ranges -/

theorem rangeBounds_ok (s : Int) (e : RangeEnd) (lo hi : Int) (h : (rangeBounds s e lo hi).2 = []) :
    (rangeBounds s e lo hi).1.1 ≤ (rangeBounds s e lo hi).1.2 := by
  unfold rangeBounds at h ⊢
  simp only [List.append_eq_nil_iff] at h
  obtain ⟨⟨h1, h2⟩, h3⟩ := h
  cases e with
  | single => simp
  | max =>
    simp only at h1 h3 ⊢
    by_cases hs : (decide (lo ≤ s) && decide (s ≤ hi)) = true
    · simp only [Bool.and_eq_true, decide_eq_true_eq] at hs; omega
    · simp [hs] at h1
  | lit v =>
    simp only at h1 h2 h3 ⊢
    by_cases hs : (decide (lo ≤ s) && decide (s ≤ hi)) = true
    · by_cases hv : (decide (lo ≤ v) && decide (v ≤ hi)) = true
      · simp only [hs, hv, Bool.true_and] at h3
        by_cases hgt : s > v
        · simp [hgt] at h3
        · omega
      · simp [hv] at h2
    · simp [hs] at h1

/-! ### enums -/

theorem foldl_enum_ok (syn : Syn) :
    ∀ (es : List Elem) (acc : EnumD × List Rule), ElemsOk es →
      (acc.2 = [] → EnumWf acc.1) →
      let r := es.foldl (fun (acc : EnumD × List Rule) (e : Elem) =>
        let (ed, errs) := acc
        match e with
        | .allowAlias v => ({ ed with allowAlias := (match ed.allowAlias with | some x => some x | none => some v) }, errs)
        | .value n num =>
          ({ ed with values := ed.values ++ [(n, num)] },
           errs ++ (if decide (int32Min ≤ num) && decide (num ≤ int32Max) then [] else ["enum-value-oob"]))
        | .reserved s e =>
          let (r, es) := rangeBounds s e int32Min int32Max
          ({ ed with reservedRanges := ed.reservedRanges ++ [{ start := r.1, stop := r.2 }] }, errs ++ es)
        | .reservedName n i =>
          let (names, es) := addReservedName syn ed.reservedNames n i
          ({ ed with reservedNames := names }, errs ++ es)
        | _ => (ed, errs)) acc
      r.2 = [] → EnumWf r.1
  | [], acc, _, h => by simpa using h
  | e :: rest, (ed, errs), hn, h => by
    simp only [List.foldl_cons]
    apply foldl_enum_ok syn rest _ (fun x hx => hn x (List.mem_cons_of_mem _ hx))
    have hne := hn e (List.mem_cons_self ..)
    cases e with
    | allowAlias v => exact fun he => ⟨(h he).1, (h he).2⟩
    | value n num =>
      simp only [List.append_eq_nil_iff]
      rintro ⟨he, _⟩
      have := h he
      refine ⟨this.1, ?_⟩
      intro v hv
      rcases List.mem_append.mp hv with h' | h'
      · exact this.2 v h'
      · rw [List.mem_singleton.mp h']; exact hne
    | reserved s e =>
      simp only [List.append_eq_nil_iff]
      rintro ⟨he, hr⟩
      have := h he
      refine ⟨?_, this.2⟩
      intro r hr'
      rcases List.mem_append.mp hr' with h' | h'
      · exact this.1 r h'
      · rw [List.mem_singleton.mp h']
        have := rangeBounds_ok s e int32Min int32Max hr
        simpa [RangeWf] using this
    | reservedName n i =>
      simp only [List.append_eq_nil_iff]
      rintro ⟨he, _⟩
      exact h he
    | msg i => simpa using h
    | enum i => simpa using h
    | svc i => simpa using h
    | field a => simpa using h
    | group g => simpa using h
    | map k v n num => simpa using h
    | oneof n ms => simpa using h
    | extend x ms => simpa using h
    | extRange s e => simpa using h
    | rpc n i o cs ss => simpa using h
    | msgSet b => simpa using h

theorem buildEnum_ok (syn : Syn) (scope : String) (b : Body) (hn : ElemsOk b.elems)
    (h : (buildEnum syn scope b).2 = []) : EnumWf (buildEnum syn scope b).1 := by
  unfold buildEnum at h ⊢
  exact foldl_enum_ok syn b.elems _ hn (fun _ => ⟨by simp, by simp⟩) h

/-! ### messages -/

theorem newFieldD_name (nm : Naming) (name ty : String) (n : Int) (l : Option Nat) :
    (newFieldD nm name ty n l).name = name := by
  unfold newFieldD; split <;> rfl

theorem asFieldD_name (nm : Naming) (syn : Syn) (mt : Nat) (a : FieldA) : (asFieldD nm syn mt a).1.name = a.name := by
  unfold asFieldD
  simp only
  split <;> simp [newFieldD_name]

theorem asGroupFieldD_name (nm : Naming) (mt : Nat) (g : GroupA) :
    (asGroupFieldD nm mt g).1.name = toLowerStr g.name := by
  unfold asGroupFieldD; rfl

/-- property of a recursive body builder -/
def RecWf (rec : BodyRec) : Prop :=
  ∀ scope name elems depth, ElemsOk elems → (rec scope name elems depth).errs = [] →
    ∀ k ∈ (rec scope name elems depth).msgs, MsgWf' k

theorem buildGroup_wf (nm : Naming) (f : FileA) (hf : ∀ b ∈ f.msgs, ElemsOk b.elems) (rec : BodyRec) (hrec : RecWf rec)
    (scope : String) (mt depth : Nat) (g : GroupA) :
    (buildGroup nm f rec scope mt depth g).1.name = toLowerStr g.name ∧
    ((buildGroup nm f rec scope mt depth g).2.2 = [] →
      ∀ k ∈ (buildGroup nm f rec scope mt depth g).2.1.msgs, MsgWf' k) := by
  unfold buildGroup
  simp only
  split
  · refine ⟨asGroupFieldD_name nm mt g, ?_⟩
    intro _ k hk
    exact absurd hk (by simp [default])
  · rename_i b hb
    refine ⟨asGroupFieldD_name nm mt g, ?_⟩
    intro he k hk
    simp only [List.append_eq_nil_iff] at he
    exact hrec _ _ _ _ (hf b (List.mem_of_getElem? hb)) he.2 k hk

theorem buildMembers_wf (nm : Naming) (f : FileA) (hf : ∀ b ∈ f.msgs, ElemsOk b.elems) (syn : Syn) (rec : BodyRec)
    (hrec : RecWf rec) (scope : String) (mt depth : Nat) : ∀ (ms : List Member), (∀ m ∈ ms, memberNameOk m) →
      (∀ fd ∈ (buildMembers nm f syn rec scope mt depth ms).1, fd.name ≠ "") ∧
      ((buildMembers nm f syn rec scope mt depth ms).2.2 = [] →
        ∀ p ∈ (buildMembers nm f syn rec scope mt depth ms).2.1, ∀ k ∈ p.2.msgs, MsgWf' k)
  | [], _ => by simp [buildMembers]
  | .field a :: rest, hn => by
    have ih := buildMembers_wf nm f hf syn rec hrec scope mt depth rest (fun m hm => hn m (List.mem_cons_of_mem _ hm))
    have ha : a.name ≠ "" := hn (.field a) (List.mem_cons_self ..)
    unfold buildMembers
    simp only
    constructor
    · intro fd hfd
      rcases List.mem_cons.mp hfd with rfl | h
      · rw [asFieldD_name]; exact ha
      · exact ih.1 fd h
    · intro he
      simp only [List.append_eq_nil_iff] at he
      exact ih.2 he.2
  | .group g :: rest, hn => by
    have ih := buildMembers_wf nm f hf syn rec hrec scope mt depth rest (fun m hm => hn m (List.mem_cons_of_mem _ hm))
    have hg := buildGroup_wf nm f hf rec hrec scope mt depth g
    have hgn : toLowerStr g.name ≠ "" := hn (.group g) (List.mem_cons_self ..)
    unfold buildMembers
    simp only
    constructor
    · intro fd hfd
      rcases List.mem_cons.mp hfd with rfl | h
      · rw [hg.1]; exact hgn
      · exact ih.1 fd h
    · intro he p hp
      simp only [List.append_eq_nil_iff] at he
      rcases List.mem_cons.mp hp with rfl | h
      · exact hg.2 he.1
      · exact ih.2 he.2 p h

/-- the group bodies produced for the members of a block are fine whatever the members are called -/
theorem extendKids (nm : Naming) (f : FileA) (hf : ∀ b ∈ f.msgs, ElemsOk b.elems) (syn : Syn) (rec : BodyRec)
    (hrec : RecWf rec) (scope : String) (mt depth : Nat) : ∀ (ms : List Member),
      (buildMembers nm f syn rec scope mt depth ms).2.2 = [] →
        ∀ p ∈ (buildMembers nm f syn rec scope mt depth ms).2.1, ∀ k ∈ p.2.msgs, MsgWf' k
  | [] => by simp [buildMembers]
  | .field a :: rest => by
    have ih := extendKids nm f hf syn rec hrec scope mt depth rest
    unfold buildMembers
    simp only
    intro he
    simp only [List.append_eq_nil_iff] at he
    exact ih he.2
  | .group g :: rest => by
    have ih := extendKids nm f hf syn rec hrec scope mt depth rest
    have hg := buildGroup_wf nm f hf rec hrec scope mt depth g
    unfold buildMembers
    simp only
    intro he p hp
    simp only [List.append_eq_nil_iff] at he
    rcases List.mem_cons.mp hp with rfl | h
    · exact hg.2 he.1
    · exact ih he.2 p h

/-- invariant of the `addMessageBody` loop -/
def AccWf (acc : BodyAcc) : Prop := acc.errs = [] → MsgWf' acc.m ∧ ∀ k ∈ acc.kids, MsgWf' k

theorem mem_flatMap_msgs' {ms : List (String × MsgOut)} {k : MsgD} (hk : k ∈ ms.flatMap (·.2.msgs)) :
    ∃ p ∈ ms, k ∈ p.2.msgs := by
  simpa [List.mem_flatMap] using hk

theorem msgWf'_fields {m m' : MsgD} (h : MsgWf' m) (fs : List FieldD) (hfs : ∀ fd ∈ fs, fd.name ≠ "")
    (h1 : m'.fields = m.fields ++ fs) (h2 : m'.reservedRanges = m.reservedRanges) (h3 : m'.extRanges = m.extRanges)
    (h4 : m'.enums = m.enums) : MsgWf' m' := by
  obtain ⟨⟨a, b, c⟩, d⟩ := h
  refine ⟨⟨by rw [h2]; exact a, by rw [h3]; exact b, ?_⟩, by rw [h4]; exact d⟩
  intro fd hfd
  rw [h1] at hfd
  rcases List.mem_append.mp hfd with h' | h'
  · exact c fd h'
  · exact hfs fd h'

theorem buildElem_wf (nm : Naming) (f : FileA) (hf : ∀ b ∈ f.msgs, ElemsOk b.elems) (hfe : ∀ b ∈ f.enums, ElemsOk b.elems)
    (syn : Syn) (rec : BodyRec) (hrec : RecWf rec) (mt : Nat) (fq : String) (depth : Nat) (acc : BodyAcc) (hacc : AccWf acc)
    (e : Elem) (hne : elemNameOk e) : AccWf (buildElem nm f syn rec mt fq depth acc e) := by
  unfold buildElem AccWf
  cases e with
  | enum i =>
    simp only
    split
    · exact hacc
    · rename_i b hb
      simp only [List.append_eq_nil_iff]
      rintro ⟨he, hee⟩
      obtain ⟨⟨hm, hen⟩, hk⟩ := hacc he
      refine ⟨⟨hm, ?_⟩, hk⟩
      intro e' he'
      rcases List.mem_append.mp he' with h | h
      · exact hen e' h
      · rw [List.mem_singleton.mp h]
        exact buildEnum_ok syn fq b (hfe b (List.mem_of_getElem? hb)) hee
  | extend x members =>
    simp only [List.append_eq_nil_iff]
    rintro ⟨⟨he, hee⟩, _⟩
    obtain ⟨hm, hk⟩ := hacc he
    -- members of an extend block are not fields of the message: only their group bodies matter.
    -- Their names are not constrained here, so use the builder's own guarantee on group bodies.
    refine ⟨msgWf'_fields hm [] (by simp) (by simp) rfl rfl rfl, ?_⟩
    intro k hk'
    rcases List.mem_append.mp hk' with h | h
    · exact hk k h
    · obtain ⟨p, hp, hkp⟩ := mem_flatMap_msgs' h
      exact extendKids nm f hf syn rec hrec fq messageSetMax (depth + 1) members hee p hp k hkp
  | extRange s e =>
    simp only [List.append_eq_nil_iff]
    rintro ⟨he, hee⟩
    obtain ⟨⟨⟨a, b, c⟩, d⟩, hk⟩ := hacc he
    refine ⟨⟨⟨a, ?_, c⟩, d⟩, hk⟩
    intro r hr
    rcases List.mem_append.mp hr with h | h
    · exact b r h
    · rw [List.mem_singleton.mp h]
      have := rangeBounds_ok s e 1 (Int.ofNat mt) hee
      simp only [RangeWf, Bool.false_eq_true, if_false]
      omega
  | field a =>
    simp only [List.append_eq_nil_iff]
    rintro ⟨he, _⟩
    obtain ⟨hm, hk⟩ := hacc he
    refine ⟨msgWf'_fields hm [(asFieldD nm syn mt a).1] ?_ rfl rfl rfl rfl, hk⟩
    intro fd hfd
    rw [List.mem_singleton.mp hfd, asFieldD_name]
    exact hne
  | map k v n num =>
    simp only [List.append_eq_nil_iff]
    rintro ⟨⟨he, _⟩, _⟩
    obtain ⟨hm, hk⟩ := hacc he
    constructor
    · refine msgWf'_fields hm [(mapDescriptors nm syn fq mt k v n num).1] ?_ rfl rfl rfl rfl
      intro fd hfd
      rw [List.mem_singleton.mp hfd]
      simp only [mapDescriptors, newFieldD_name]
      exact hne
    · intro k' hk'
      rcases List.mem_append.mp hk' with h | h
      · exact hk k' h
      · rw [List.mem_singleton.mp h]
        refine ⟨⟨by simp [mapDescriptors], by simp [mapDescriptors], ?_⟩, by simp [mapDescriptors]⟩
        intro fd hfd
        simp only [mapDescriptors] at hfd
        rcases List.mem_cons.mp hfd with rfl | h'
        · simp [newFieldD_name]
        · rw [List.mem_singleton.mp h']; simp [newFieldD_name]
  | group g =>
    simp only [List.append_eq_nil_iff]
    have hg := buildGroup_wf nm f hf rec hrec fq mt (depth + 1) g
    rintro ⟨he, hee⟩
    obtain ⟨hm, hk⟩ := hacc he
    constructor
    · refine msgWf'_fields hm [(buildGroup nm f rec fq mt (depth + 1) g).1] ?_ rfl rfl rfl rfl
      intro fd hfd
      rw [List.mem_singleton.mp hfd, hg.1]
      exact hne
    · intro k hk'
      rcases List.mem_append.mp hk' with h | h
      · exact hk k h
      · exact hg.2 hee k h
  | oneof n members =>
    simp only [List.append_eq_nil_iff]
    have hb := buildMembers_wf nm f hf syn rec hrec fq mt (depth + 1) members hne
    rintro ⟨⟨he, hee⟩, _⟩
    obtain ⟨hm, hk⟩ := hacc he
    constructor
    · refine msgWf'_fields hm _ ?_ rfl rfl rfl rfl
      intro fd hfd
      obtain ⟨fd0, hfd0, rfl⟩ := List.mem_map.mp hfd
      exact hb.1 fd0 hfd0
    · intro k hk'
      rcases List.mem_append.mp hk' with h | h
      · exact hk k h
      · obtain ⟨p, hp, hkp⟩ := mem_flatMap_msgs' h
        exact hb.2 hee p hp k hkp
  | msg i =>
    simp only
    split
    · exact hacc
    · rename_i b hb
      simp only [List.append_eq_nil_iff]
      rintro ⟨he, hee⟩
      obtain ⟨hm, hk⟩ := hacc he
      refine ⟨msgWf'_fields hm [] (by simp) (by simp) rfl rfl rfl, ?_⟩
      intro k hk'
      rcases List.mem_append.mp hk' with h | h
      · exact hk k h
      · exact hrec _ _ _ _ (hf b (List.mem_of_getElem? hb)) hee k h
  | reserved s e =>
    simp only [List.append_eq_nil_iff]
    rintro ⟨he, hee⟩
    obtain ⟨⟨⟨a, b, c⟩, d⟩, hk⟩ := hacc he
    refine ⟨⟨⟨?_, b, c⟩, d⟩, hk⟩
    intro r hr
    rcases List.mem_append.mp hr with h | h
    · exact a r h
    · rw [List.mem_singleton.mp h]
      have := rangeBounds_ok s e 1 (Int.ofNat mt) hee
      simp only [RangeWf, Bool.false_eq_true, if_false]
      omega
  | reservedName n i =>
    simp only [List.append_eq_nil_iff]
    rintro ⟨he, _⟩
    obtain ⟨hm, hk⟩ := hacc he
    exact ⟨msgWf'_fields hm [] (by simp) (by simp) rfl rfl rfl, hk⟩
  | svc i => exact hacc
  | value n num => exact hacc
  | allowAlias b => exact hacc
  | msgSet b => exact hacc
  | rpc n i o cs ss => exact hacc

theorem foldl_buildElem_wf (nm : Naming) (f : FileA) (hf : ∀ b ∈ f.msgs, ElemsOk b.elems) (hfe : ∀ b ∈ f.enums, ElemsOk b.elems)
    (syn : Syn) (rec : BodyRec) (hrec : RecWf rec) (mt : Nat) (fq : String) (depth : Nat) :
    ∀ (es : List Elem) (acc : BodyAcc), ElemsOk es → AccWf acc → AccWf (es.foldl (buildElem nm f syn rec mt fq depth) acc)
  | [], _, _, h => h
  | e :: rest, acc, hn, h =>
    foldl_buildElem_wf nm f hf hfe syn rec hrec mt fq depth rest _ (fun x hx => hn x (List.mem_cons_of_mem _ hx))
      (buildElem_wf nm f hf hfe syn rec hrec mt fq depth acc h e (hn e (List.mem_cons_self ..)))

theorem assignSynthetic_names (base : Nat) : ∀ (fs : List FieldD) (names : List String),
    (∀ f ∈ fs, f.name ≠ "") → ∀ f ∈ assignSynthetic base fs names, f.name ≠ ""
  | [], _, _ => by simp [assignSynthetic]
  | f :: rest, names, h => by
    have hrest : ∀ g ∈ rest, g.name ≠ "" := fun g hg => h g (List.mem_cons_of_mem _ hg)
    have hf := h f (List.mem_cons_self ..)
    unfold assignSynthetic
    by_cases hp : f.proto3Optional = true
    · simp only [hp, if_true]
      cases names with
      | nil =>
        intro g hg
        rcases List.mem_cons.mp hg with rfl | hg'
        · exact hf
        · exact assignSynthetic_names base rest [] hrest g hg'
      | cons n ns =>
        intro g hg
        rcases List.mem_cons.mp hg with rfl | hg'
        · exact hf
        · exact assignSynthetic_names (base + 1) rest ns hrest g hg'
    · simp only [hp, Bool.false_eq_true, if_false]
      intro g hg
      rcases List.mem_cons.mp hg with rfl | hg'
      · exact hf
      · exact assignSynthetic_names base rest names hrest g hg'

theorem processProto3Optional_wf (nm : Naming) (m : MsgD) (h : MsgWf' m) : MsgWf' (processProto3Optional nm m) := by
  unfold processProto3Optional
  simp only
  split
  · exact h
  · obtain ⟨⟨a, b, c⟩, d⟩ := h
    exact ⟨⟨a, b, assignSynthetic_names _ _ _ c⟩, d⟩

theorem buildBody_wf (nm : Naming) (f : FileA) (hf : ∀ b ∈ f.msgs, ElemsOk b.elems) (hfe : ∀ b ∈ f.enums, ElemsOk b.elems)
    (syn : Syn) : ∀ (fuel : Nat), RecWf (buildBody nm f syn fuel)
  | 0 => by
    intro scope name elems depth _ _ k hk
    exact absurd hk (by simp [buildBody, default])
  | fuel + 1 => by
    intro scope name elems depth hn he k hk
    unfold buildBody at he hk
    simp only at he hk
    split at he
    · simp at he
    · rename_i hd
      simp only [hd, if_false] at hk
      split at he
      · simp at he
      · rename_i ho
        simp only [ho, if_false] at hk
        have hacc := foldl_buildElem_wf nm f hf hfe syn (buildBody nm f syn fuel) (buildBody_wf nm f hf hfe syn fuel)
          (if (msgSetOptions elems == [true]) = true then messageSetMax else fieldMax)
          (joinName scope name) depth elems
          { m := { fullName := joinName scope name, name := name, messageSet := (msgSetOptions elems).head? },
            errs := if (msgSetOptions elems == [true] && syn == Syn.proto3) = true then ["msgset-proto3"] else [] } hn
          (fun _ => ⟨⟨⟨by simp, by simp, by simp⟩, by simp⟩, by simp⟩)
        simp only [List.append_eq_nil_iff] at he
        obtain ⟨hm, hkids⟩ := hacc he.1
        rcases List.mem_cons.mp hk with rfl | hk'
        · split
          · exact processProto3Optional_wf nm _ hm
          · exact hm
        · exact hkids k hk'

/-- invariant of the file-level loop -/
def TopWf (acc : FileD × List Rule) : Prop :=
  acc.2 = [] → (∀ m ∈ acc.1.msgs, MsgWf' m) ∧ (∀ e ∈ acc.1.enums, EnumWf e)

theorem buildTop_wf (nm : Naming) (f : FileA) (hf : ∀ b ∈ f.msgs, ElemsOk b.elems) (hfe : ∀ b ∈ f.enums, ElemsOk b.elems) :
    ∀ (es : List Elem) (acc : FileD × List Rule), TopWf acc → TopWf (buildTop nm f es acc)
  | [], acc, h => by simpa [buildTop] using h
  | e :: rest, (fd, errs), h => by
    unfold buildTop
    apply buildTop_wf nm f hf hfe rest
    unfold TopWf
    cases e with
    | enum i =>
      simp only
      split
      · exact h
      · rename_i b hb
        simp only [List.append_eq_nil_iff]
        rintro ⟨he, hee⟩
        obtain ⟨hm, hen⟩ := h he
        refine ⟨hm, ?_⟩
        intro e' he'
        rcases List.mem_append.mp he' with h' | h'
        · exact hen e' h'
        · rw [List.mem_singleton.mp h']
          exact buildEnum_ok f.syn f.pkg b (hfe b (List.mem_of_getElem? hb)) hee
    | extend x members =>
      simp only [List.append_eq_nil_iff]
      rintro ⟨⟨he, hee⟩, _⟩
      obtain ⟨hm, hen⟩ := h he
      refine ⟨?_, hen⟩
      intro m hm'
      rcases List.mem_append.mp hm' with h' | h'
      · exact hm m h'
      · obtain ⟨p, hp, hkp⟩ := mem_flatMap_msgs' h'
        exact extendKids nm f hf f.syn (buildBody nm f f.syn buildFuel) (buildBody_wf nm f hf hfe f.syn buildFuel)
          f.pkg messageSetMax 1 members hee p hp m hkp
    | msg i =>
      simp only
      split
      · exact h
      · rename_i b hb
        simp only [List.append_eq_nil_iff]
        rintro ⟨he, hee⟩
        obtain ⟨hm, hen⟩ := h he
        refine ⟨?_, hen⟩
        intro m hm'
        rcases List.mem_append.mp hm' with h' | h'
        · exact hm m h'
        · exact buildBody_wf nm f hf hfe f.syn buildFuel _ _ _ _ (hf b (List.mem_of_getElem? hb)) hee m h'
    | svc i =>
      simp only
      split
      · exact h
      · exact h
    | field a => exact h
    | group g => exact h
    | map k v n num => exact h
    | oneof n ms => exact h
    | extRange s e => exact h
    | reserved s e => exact h
    | reservedName n i => exact h
    | value n num => exact h
    | allowAlias b => exact h
    | msgSet b => exact h
    | rpc n i o cs ss => exact h

/-- **construction without errors yields well-formed descriptors** -/
theorem buildFile_wf (nm : Naming) (f : FileA) (hn : NamesOk f) (he : (buildFile nm f).2 = []) :
    FileWf (buildFile nm f).1 := by
  unfold buildFile at he ⊢
  simp only [List.append_eq_nil_iff] at he
  have := buildTop_wf nm f hn.1 hn.2.1 f.top _ (fun _ => ⟨by simp, by simp⟩) he.2
  exact ⟨fun m hm => this.1 m hm, this.2⟩

end PCV.MiniProto
