/-
Lemmas about the model of `resolveInFile` and the scoped resolution (C19).
-/
import PCV.Model.UnusedImports
namespace PCV.UnusedImports

/-! ### well-formed workspaces and declarative visibility -/

/-- imports point to earlier files (the compiler rejects import cycles; the generator lists
    files in dependency order) -/
def WF (ws : WS) : Prop :=
  ∀ (idx : Nat) (f : FileM), ws[idx]? = some f → ∀ imp ∈ f.imports, imp.1 < idx

/-- `c` is `a` or reachable from `a` by a chain of *public* imports -/
inductive PubReach (ws : WS) : Nat → Nat → Prop
  | refl (a : Nat) : PubReach ws a a
  | step {a b c : Nat} {f : FileM} :
      ws[a]? = some f → (b, true) ∈ f.imports → PubReach ws b c → PubReach ws a c

/-- file `g` answers the per-file query `fn` with `r` -/
def AnswersWith {α : Type} (ws : WS) (fn : FileM → Option α) (g : Nat) (r : α) : Prop :=
  ∃ f, ws[g]? = some f ∧ fn f = some r

/-- some file visible through `i` (that is `i` itself or a transitive public import of it)
    answers `fn` -/
def Provides {α : Type} (ws : WS) (fn : FileM → Option α) (i : Nat) : Prop :=
  ∃ g r, PubReach ws i g ∧ AnswersWith ws fn g r

theorem viaImport_isSome {α : Type} (idx : Nat) (imp : Nat × Bool) (o : Option (α × List Mark)) :
    (viaImport idx imp o).isSome = o.isSome := by
  cases o with
  | none => rfl
  | some v => cases v; rfl

theorem viaImport_eq_none {α : Type} (idx : Nat) (imp : Nat × Bool) (o : Option (α × List Mark)) :
    viaImport idx imp o = none ↔ o = none := by
  cases o with
  | none => simp [viaImport]
  | some v => cases v; simp [viaImport]

theorem not_contains_of_lt (checked : List Nat) (idx : Nat) (h : ∀ c ∈ checked, idx < c) :
    checked.contains idx = false := by
  cases hc : checked.contains idx with
  | false => rfl
  | true =>
    have := List.contains_iff_mem.mp hc
    have := h idx this
    omega

/-- unfolding of one level of `resolveInFile` when the `checked` test does not fire -/
theorem resolveInFile_succ {α : Type} (ws : WS) (fn : FileM → Option α) (fuel : Nat)
    (checked : List Nat) (pubOnly : Bool) (idx : Nat) (f : FileM)
    (hc : ∀ c ∈ checked, idx < c) (hf : ws[idx]? = some f) :
    resolveInFile ws fn (fuel + 1) checked pubOnly idx =
      match fn f with
      | some r => some (r, [])
      | none => (f.imports.filter (fun imp => !pubOnly || imp.2)).findSome? (fun imp =>
          viaImport idx imp (resolveInFile ws fn fuel (idx :: checked) true imp.1)) := by
  simp only [resolveInFile, not_contains_of_lt checked idx hc, hf]
  rfl

theorem resolveInFile_none_of_missing {α : Type} (ws : WS) (fn : FileM → Option α) (fuel : Nat)
    (checked : List Nat) (pubOnly : Bool) (idx : Nat) (hf : ws[idx]? = none) :
    resolveInFile ws fn fuel checked pubOnly idx = none := by
  cases fuel with
  | zero => rfl
  | succ n =>
    simp only [resolveInFile, hf]
    split <;> rfl

/-- soundness of the search below the top level: what is found is the answer of a file
    reachable by public imports, and nothing is marked (only public imports are followed) -/
theorem resolveInFile_pub_sound {α : Type} {ws : WS} (hwf : WF ws) (fn : FileM → Option α) :
    ∀ fuel idx checked, (∀ c ∈ checked, idx < c) →
      ∀ r ms, resolveInFile ws fn fuel checked true idx = some (r, ms) →
        ms = [] ∧ ∃ g, PubReach ws idx g ∧ AnswersWith ws fn g r := by
  intro fuel
  induction fuel with
  | zero => intro idx checked _ r ms h; simp [resolveInFile] at h
  | succ n ih =>
    intro idx checked hc r ms h
    cases hf : ws[idx]? with
    | none => rw [resolveInFile_none_of_missing ws fn _ _ _ _ hf] at h; cases h
    | some f =>
      rw [resolveInFile_succ ws fn n checked true idx f hc hf] at h
      cases hfn : fn f with
      | some r' =>
        simp only [hfn] at h
        cases h
        exact ⟨rfl, idx, PubReach.refl idx, f, hf, hfn⟩
      | none =>
        simp only [hfn] at h
        obtain ⟨imp, himp, hv⟩ := List.exists_of_findSome?_eq_some h
        have hmem := (List.mem_filter.mp himp)
        have hpub : imp.2 = true := by simpa using hmem.2
        have hlt : imp.1 < idx := hwf idx f hf imp hmem.1
        cases hrec : resolveInFile ws fn n (idx :: checked) true imp.1 with
        | none => simp [hrec, viaImport] at hv
        | some v =>
          obtain ⟨r0, ms0⟩ := v
          have hc' : ∀ c ∈ idx :: checked, imp.1 < c := by
            intro c hcm
            cases List.mem_cons.mp hcm with
            | inl h1 => omega
            | inr h2 => have := hc c h2; omega
          obtain ⟨hms, g, hreach, hans⟩ := ih imp.1 (idx :: checked) hc' r0 ms0 hrec
          simp only [hrec, viaImport, hpub, if_true] at hv
          cases hv
          refine ⟨hms, g, ?_, hans⟩
          have : (imp.1, true) ∈ f.imports := by
            have : imp = (imp.1, true) := by cases imp; simp_all
            rw [← this]; exact hmem.1
          exact PubReach.step hf this hreach

/-- completeness below the top level: if a file reachable by public imports answers, the
    search succeeds (with enough fuel) -/
theorem resolveInFile_pub_complete {α : Type} {ws : WS} (hwf : WF ws) (fn : FileM → Option α) :
    ∀ fuel idx checked, idx < fuel → (∀ c ∈ checked, idx < c) →
      Provides ws fn idx → (resolveInFile ws fn fuel checked true idx).isSome := by
  intro fuel
  induction fuel with
  | zero => intro idx _ h; omega
  | succ n ih =>
    intro idx checked hlt hc hp
    obtain ⟨g, r, hreach, f', hf', hans⟩ := hp
    cases hreach with
    | refl =>
      rw [resolveInFile_succ ws fn n checked true idx f' hc hf']
      simp [hans]
    | @step _ b _ f hf hb hrest =>
      rw [resolveInFile_succ ws fn n checked true idx f hc hf]
      cases hfn : fn f with
      | some r' => simp
      | none =>
        simp only []
        rw [List.findSome?_isSome_iff]
        refine ⟨(b, true), ?_, ?_⟩
        · exact List.mem_filter.mpr ⟨hb, by simp⟩
        · rw [viaImport_isSome]
          have hbl : b < idx := hwf idx f hf (b, true) hb
          apply ih b (idx :: checked) (by omega)
          · intro c hcm
            cases List.mem_cons.mp hcm with
            | inl h1 => omega
            | inr h2 => have := hc c h2; omega
          · exact ⟨g, r, hrest, f', hf', hans⟩

/-- below the top level: found ⇔ provided -/
theorem resolveInFile_pub_isSome_iff {α : Type} {ws : WS} (hwf : WF ws) (fn : FileM → Option α)
    (fuel idx : Nat) (checked : List Nat) (hlt : idx < fuel) (hc : ∀ c ∈ checked, idx < c) :
    (resolveInFile ws fn fuel checked true idx).isSome ↔ Provides ws fn idx := by
  constructor
  · intro h
    cases hres : resolveInFile ws fn fuel checked true idx with
    | none => simp [hres] at h
    | some v =>
      obtain ⟨r, ms⟩ := v
      obtain ⟨_, g, hreach, hans⟩ := resolveInFile_pub_sound hwf fn fuel idx checked hc r ms hres
      exact ⟨g, r, hreach, hans⟩
  · exact resolveInFile_pub_complete hwf fn fuel idx checked hlt hc

/-! ### the top level: which import is marked -/

/-- the search started by file `t` itself (public and non-public imports are followed) -/
def lookTop {α : Type} (ws : WS) (fn : FileM → Option α) (t : Nat) : Option (α × List Mark) :=
  resolveInFile ws fn ws.length [] false t

theorem lookTop_unfold {α : Type} (ws : WS) (fn : FileM → Option α) (t : Nat) (f : FileM)
    (ht : ws[t]? = some f) :
    lookTop ws fn t =
      match fn f with
      | some r => some (r, [])
      | none => f.imports.findSome? (fun imp =>
          viaImport t imp (resolveInFile ws fn (ws.length - 1) [t] true imp.1)) := by
  have hlen : t < ws.length := by
    have := List.getElem?_eq_some_iff.mp ht
    exact this.1
  unfold lookTop
  have : ws.length = (ws.length - 1) + 1 := by omega
  rw [this, resolveInFile_succ ws fn (ws.length - 1) [] false t f (by simp) ht]
  have hfil : f.imports.filter (fun imp => !false || imp.2) = f.imports := by
    apply List.filter_eq_self.mpr
    intro a _; simp
  rw [hfil]
  simp

/-- import `i` is the *first* import of `f` through which `fn` is answered, it is not
    public, and `f` does not answer itself -/
def FirstProvider {α : Type} (ws : WS) (fn : FileM → Option α) (f : FileM) (i : Nat) : Prop :=
  fn f = none ∧ ∃ pre post, f.imports = pre ++ (i, false) :: post ∧ Provides ws fn i ∧
    ∀ x ∈ pre, ¬ Provides ws fn x.1

theorem lookTop_marks_iff {α : Type} {ws : WS} (hwf : WF ws) (fn : FileM → Option α) (t : Nat)
    (f : FileM) (ht : ws[t]? = some f) (i : Nat) :
    (∃ r ms, lookTop ws fn t = some (r, ms) ∧ (t, i) ∈ ms) ↔ FirstProvider ws fn f i := by
  have hlen : t < ws.length := (List.getElem?_eq_some_iff.mp ht).1
  rw [lookTop_unfold ws fn t f ht]
  have hrec : ∀ x ∈ f.imports,
      ((resolveInFile ws fn (ws.length - 1) [t] true x.1).isSome ↔ Provides ws fn x.1) := by
    intro x hx
    have hxl : x.1 < t := hwf t f ht x hx
    exact resolveInFile_pub_isSome_iff hwf fn _ _ _ (by omega) (by simp; omega)
  cases hfn : fn f with
  | some r' =>
    simp only []
    constructor
    · rintro ⟨r, ms, h, hm⟩; cases h; cases hm
    · rintro ⟨h, _⟩; rw [hfn] at h; cases h
  | none =>
    simp only []
    constructor
    · rintro ⟨r, ms, h, hm⟩
      obtain ⟨pre, a, post, hsplit, ha, hpre⟩ := List.findSome?_eq_some_iff.mp h
      have ha_mem : a ∈ f.imports := by rw [hsplit]; simp
      cases hra : resolveInFile ws fn (ws.length - 1) [t] true a.1 with
      | none => simp [hra, viaImport] at ha
      | some v =>
        obtain ⟨r0, ms0⟩ := v
        have hal : a.1 < t := hwf t f ht a ha_mem
        obtain ⟨hms0, _⟩ := resolveInFile_pub_sound hwf fn _ a.1 [t] (by simp; omega) r0 ms0 hra
        subst hms0
        simp only [hra, viaImport] at ha
        cases hpub : a.2 with
        | true =>
          simp [hpub] at ha
          obtain ⟨_, h2⟩ := ha
          subst h2
          cases hm
        | false =>
          simp [hpub] at ha
          obtain ⟨_, h2⟩ := ha
          subst h2
          have hai : a.1 = i := by
            have := List.mem_singleton.mp hm
            exact (Prod.mk.inj this).2.symm
          have haeq : a = (i, false) := by cases a; simp_all
          refine ⟨hfn, pre, post, by rw [hsplit, haeq], ?_, ?_⟩
          · rw [← hai]; exact (hrec a ha_mem).mp (by simp [hra])
          · intro x hx hprov
            have hxm : x ∈ f.imports := by rw [hsplit]; simp [hx]
            have := (hrec x hxm).mpr hprov
            have hnone := (viaImport_eq_none t x _).mp (hpre x hx)
            simp [hnone] at this
    · rintro ⟨_, pre, post, hsplit, hprov, hpre⟩
      have hi_mem : (i, false) ∈ f.imports := by rw [hsplit]; simp
      have hsome := (hrec (i, false) hi_mem).mpr hprov
      cases hri : resolveInFile ws fn (ws.length - 1) [t] true i with
      | none => simp [hri] at hsome
      | some v =>
        obtain ⟨r0, ms0⟩ := v
        refine ⟨r0, (t, i) :: ms0, ?_, by simp⟩
        apply List.findSome?_eq_some_iff.mpr
        refine ⟨pre, (i, false), post, hsplit, by simp [viaImport, hri], ?_⟩
        intro x hx
        have hxm : x ∈ f.imports := by rw [hsplit]; simp [hx]
        apply (viaImport_eq_none t x _).mpr
        have := hpre x hx
        cases hrx : resolveInFile ws fn (ws.length - 1) [t] true x.1 with
        | none => rfl
        | some v => exact absurd ((hrec x hxm).mp (by simp [hrx])) this

/-! ### removing an import of the file under test -/

theorem findSome?_congr' {α β : Type} (l : List α) (g h : α → Option β)
    (hgh : ∀ x ∈ l, g x = h x) : l.findSome? g = l.findSome? h := by
  induction l with
  | nil => rfl
  | cons x xs ih =>
    simp only [List.findSome?_cons]
    rw [hgh x (by simp)]
    cases h x with
    | some b => rfl
    | none => exact ih (fun y hy => hgh y (by simp [hy]))

/-- the search from `idx` reads only files `≤ idx` -/
theorem resolveInFile_agree {α : Type} {ws ws' : WS} (hwf : WF ws) (fn : FileM → Option α) :
    ∀ fuel idx checked pubOnly, (∀ j, j ≤ idx → ws'[j]? = ws[j]?) →
      resolveInFile ws' fn fuel checked pubOnly idx = resolveInFile ws fn fuel checked pubOnly idx := by
  intro fuel
  induction fuel with
  | zero => intro idx checked pubOnly _; rfl
  | succ n ih =>
    intro idx checked pubOnly hag
    simp only [resolveInFile]
    rw [hag idx (Nat.le_refl idx)]
    cases hc : checked.contains idx with
    | true => rfl
    | false =>
      simp only [Bool.false_eq_true, if_false]
      cases hf : ws[idx]? with
      | none => rfl
      | some f =>
        simp only []
        cases fn f with
        | some r => rfl
        | none =>
          simp only []
          apply findSome?_congr'
          intro x hx
          have hxm := (List.mem_filter.mp hx).1
          have hlt : x.1 < idx := hwf idx f hf x hxm
          rw [ih x.1 (idx :: checked) true (fun j hj => hag j (by omega))]

theorem findSome?_filter_unmarked {β : Type} (g : Nat × Bool → Option β) (p : β → Prop) (i : Nat)
    (l : List (Nat × Bool))
    (hg : ∀ x ∈ l, x.1 = i → ∀ b, g x = some b → p b)
    (h : ∀ b, l.findSome? g = some b → ¬ p b) :
    (l.filter (fun x => x.1 != i)).findSome? g = l.findSome? g := by
  induction l with
  | nil => rfl
  | cons x xs ih =>
    simp only [List.findSome?_cons, List.filter_cons] at h ⊢
    cases hgx : g x with
    | some b =>
      have hnp : ¬ p b := h b (by simp [hgx])
      have hne : x.1 ≠ i := fun he => hnp (hg x (by simp) he b hgx)
      have : (x.1 != i) = true := by simp [hne]
      simp [this, hgx]
    | none =>
      have ih' := ih (fun y hy => hg y (by simp [hy])) (fun b hb => h b (by simp [hgx, hb]))
      by_cases hx : (x.1 != i) = true
      · simp [hx, hgx, ih']
      · simp [hx, ih']

theorem getElem?_removeImport_ne (ws : WS) (t i j : Nat) (h : j ≠ t) :
    (removeImport ws t i)[j]? = ws[j]? := by
  unfold removeImport
  cases ws[t]? with
  | none => rfl
  | some f => exact List.getElem?_set_ne (Ne.symm h)

theorem getElem?_removeImport_self (ws : WS) (t i : Nat) (f : FileM) (ht : ws[t]? = some f) :
    (removeImport ws t i)[t]? = some (dropImport f i) := by
  unfold removeImport
  rw [ht]
  exact List.getElem?_set_self (List.getElem?_eq_some_iff.mp ht).1

theorem length_removeImport (ws : WS) (t i : Nat) : (removeImport ws t i).length = ws.length := by
  unfold removeImport
  cases ws[t]? with
  | none => rfl
  | some f => simp

/-- A lookup whose marks do not contain import `i` gives the same answer (and the same
    marks) after import `i` has been removed from the file under test. -/
theorem lookTop_removeImport {α : Type} {ws : WS} (hwf : WF ws) (fn : FileM → Option α) (t i : Nat)
    (f : FileM) (ht : ws[t]? = some f)
    (hfn : fn (dropImport f i) = fn f)
    (hnp : ∀ x ∈ f.imports, x.1 = i → x.2 = false)
    (hun : ∀ r ms, lookTop ws fn t = some (r, ms) → (t, i) ∉ ms) :
    lookTop (removeImport ws t i) fn t = lookTop ws fn t := by
  have ht' := getElem?_removeImport_self ws t i f ht
  rw [lookTop_unfold _ fn t _ ht', lookTop_unfold ws fn t f ht] at *
  rw [hfn]
  cases hself : fn f with
  | some r => rfl
  | none =>
    simp only [hself] at hun ⊢
    rw [length_removeImport]
    have hcongr : (dropImport f i).imports.findSome? (fun imp =>
          viaImport t imp (resolveInFile (removeImport ws t i) fn (ws.length - 1) [t] true imp.1)) =
        (dropImport f i).imports.findSome? (fun imp =>
          viaImport t imp (resolveInFile ws fn (ws.length - 1) [t] true imp.1)) := by
      apply findSome?_congr'
      intro x hx
      have hxm : x ∈ f.imports := (List.mem_filter.mp hx).1
      have hlt : x.1 < t := hwf t f ht x hxm
      rw [resolveInFile_agree hwf fn _ x.1 [t] true
        (fun j hj => getElem?_removeImport_ne ws t i j (by omega))]
    rw [hcongr]
    apply findSome?_filter_unmarked _ (fun b => (t, i) ∈ b.2) i f.imports
    · intro x hx hxi b hb
      have hpub := hnp x hx hxi
      cases hr : resolveInFile ws fn (ws.length - 1) [t] true x.1 with
      | none => simp [hr, viaImport] at hb
      | some v =>
        obtain ⟨r0, ms0⟩ := v
        simp only [hr, viaImport, hpub] at hb
        cases hb
        simp [hxi]
    · intro b hb
      obtain ⟨r, ms⟩ := b
      exact hun r ms hb

/-! ### the scoped resolution only depends on the answers to the lookups it performs -/

theorem resolveElementRelative_congr (q q' : Name → Option Desc) (first full : Name)
    (h : ∀ n ∈ (resolveElementRelative q first full).2, q' n = q n) :
    resolveElementRelative q' first full = resolveElementRelative q first full := by
  unfold resolveElementRelative at h ⊢
  cases hq : q first with
  | none =>
    simp only [hq] at h
    have h1 : q' first = none := by rw [h first (by simp), hq]
    simp [h1]
  | some d =>
    simp only [hq] at h
    by_cases e : first = full
    · simp only [e, if_true] at h ⊢
      have h1 : q' full = some d := by rw [h full (by simp), ← e, hq]
      simp [h1]
    · simp only [e, if_false] at h ⊢
      by_cases ha : isAggregate d
      · simp only [ha, Bool.not_true, Bool.false_eq_true, if_false] at h ⊢
        have hfirst : q' first = some d := by
          cases hqf : q full <;> simp only [hqf] at h <;> rw [h first (by simp), hq]
        have hfull : q' full = q full := by
          cases hqf : q full <;> simp only [hqf] at h <;> rw [h full (by simp), hqf]
        simp [hfirst, hfull, ha]
      · simp only [ha, Bool.not_false, if_true] at h ⊢
        have h1 : q' first = some d := by rw [h first (by simp), hq]
        simp [h1, ha]

theorem fileScopeLoop_congr (q q' : Name → Option Desc) (first full : Name) (ps : List Name)
    (h : ∀ n ∈ (fileScopeLoop q first full ps).2, q' n = q n) :
    fileScopeLoop q' first full ps = fileScopeLoop q first full ps := by
  induction ps with
  | nil => rfl
  | cons p ps ih =>
    simp only [fileScopeLoop] at h ⊢
    cases hr : resolveElementRelative q (if p = [] then full else p ++ first) (p ++ full) with
    | mk d tr =>
      rw [hr] at h
      cases d with
      | some d =>
        simp only at h
        have := resolveElementRelative_congr q q' (if p = [] then full else p ++ first) (p ++ full)
          (by rw [hr]; exact h)
        rw [this, hr]
      | none =>
        simp only at h
        have h1 := resolveElementRelative_congr q q' (if p = [] then full else p ++ first) (p ++ full)
          (by rw [hr]; intro n hn; exact h n (by simp [hn]))
        have h2 := ih (fun n hn => h n (by simp [hn]))
        rw [h1, hr, h2]

theorem resolveScopes_congr (ql q q' : Name → Option Desc) (prefixes : List Name) (onlyTypes : Bool)
    (first full : Name) (scopes : List Name) (best : Option Desc)
    (h : ∀ n ∈ (resolveScopes ql q prefixes onlyTypes first full scopes best).2, q' n = q n) :
    resolveScopes ql q' prefixes onlyTypes first full scopes best =
      resolveScopes ql q prefixes onlyTypes first full scopes best := by
  induction scopes generalizing best with
  | nil =>
    simp only [resolveScopes] at h ⊢
    have hfs : fileScopeLoop q' first full prefixes = fileScopeLoop q first full prefixes := by
      apply fileScopeLoop_congr
      intro n hn
      apply h
      cases hr : fileScopeLoop q first full prefixes with
      | mk d tr =>
        rw [hr] at hn
        cases d with
        | none => simpa using hn
        | some d => simp only; split <;> simpa using hn
    rw [hfs]
  | cons m ms ih =>
    simp only [resolveScopes] at h ⊢
    cases hr : (resolveElementRelative ql (m ++ first) (m ++ full)).1 with
    | none =>
      simp only [hr] at h ⊢
      exact ih best h
    | some d =>
      simp only [hr] at h ⊢
      split
      · rfl
      · rename_i hc
        simp only [hc] at h
        exact ih _ h

theorem resolveName_congr (ql q q' : Name → Option Desc) (pkg : Name) (onlyTypes dot : Bool)
    (scopes : List Name) (name : Name)
    (h : ∀ n ∈ (resolveName ql q pkg onlyTypes dot scopes name).2, q' n = q n) :
    resolveName ql q' pkg onlyTypes dot scopes name = resolveName ql q pkg onlyTypes dot scopes name := by
  unfold resolveName at h ⊢
  cases dot with
  | true =>
    simp only [if_true] at h ⊢
    rw [h name (by simp)]
  | false =>
    simp only [Bool.false_eq_true, if_false] at h ⊢
    exact resolveScopes_congr ql q q' _ _ _ _ _ _ h


/-! ### removal at the level of references and of the whole file -/

theorem flatMap_congr' {α β : Type} (l : List α) (g h : α → List β)
    (hgh : ∀ x ∈ l, g x = h x) : l.flatMap g = l.flatMap h := by
  induction l with
  | nil => rfl
  | cons x xs ih =>
    simp only [List.flatMap_cons]
    rw [hgh x (by simp), ih (fun y hy => hgh y (by simp [hy]))]

theorem lookElem_eq_lookTop (ws : WS) (t : Nat) (n : Name) :
    lookElem ws t n = lookTop ws (resolveElementInFile n) t := rfl

theorem lookPlain_eq_lookTop (ws : WS) (t : Nat) (n : Name) :
    lookPlain ws t n = lookTop ws (findDesc n) t := rfl

section remove
variable {ws : WS} (hwf : WF ws) {t i : Nat} {f : FileM} (ht : ws[t]? = some f)
  (hnp : ∀ x ∈ f.imports, x.1 = i → x.2 = false)
include hwf ht hnp

theorem lookElem_removeImport (n : Name)
    (hun : ∀ d ms, lookElem ws t n = some (d, ms) → (t, i) ∉ ms) :
    lookElem (removeImport ws t i) t n = lookElem ws t n :=
  lookTop_removeImport hwf _ t i f ht rfl hnp hun

theorem lookPlain_removeImport (n : Name)
    (hun : ∀ d ms, lookPlain ws t n = some (d, ms) → (t, i) ∉ ms) :
    lookPlain (removeImport ws t i) t n = lookPlain ws t n :=
  lookTop_removeImport hwf _ t i f ht rfl hnp hun

theorem relook_removeImport (d : Option Desc) (hun : (t, i) ∉ relook ws t d) :
    relook (removeImport ws t i) t d = relook ws t d := by
  unfold relook at hun ⊢
  cases d with
  | none => rfl
  | some d =>
    cases d with
    | sentinel n => rfl
    | real s =>
      simp only at hun ⊢
      rw [lookPlain_removeImport hwf ht hnp s.name]
      intro d ms h
      rw [h] at hun
      exact hun

/-- the trace-level statement: if none of the lookups performed marks import `i`, the
    resolution and its marks are the same after the removal -/
theorem resolveName_removeImport (ql : Name → Option Desc) (pkg : Name) (onlyTypes dot : Bool)
    (scopes : List Name) (name : Name)
    (hun : (t, i) ∉ marksOfTrace (lookElem ws t)
      (resolveName ql (descOf (lookElem ws t)) pkg onlyTypes dot scopes name).2) :
    resolveName ql (descOf (lookElem (removeImport ws t i) t)) pkg onlyTypes dot scopes name =
      resolveName ql (descOf (lookElem ws t)) pkg onlyTypes dot scopes name ∧
    marksOfTrace (lookElem (removeImport ws t i) t)
        (resolveName ql (descOf (lookElem ws t)) pkg onlyTypes dot scopes name).2 =
      marksOfTrace (lookElem ws t)
        (resolveName ql (descOf (lookElem ws t)) pkg onlyTypes dot scopes name).2 := by
  have hall : ∀ n ∈ (resolveName ql (descOf (lookElem ws t)) pkg onlyTypes dot scopes name).2,
      lookElem (removeImport ws t i) t n = lookElem ws t n := by
    intro n hn
    apply lookElem_removeImport hwf ht hnp
    intro d ms hl hm
    apply hun
    unfold marksOfTrace
    exact List.mem_flatMap.mpr ⟨n, hn, by simp [hl, hm]⟩
  constructor
  · apply resolveName_congr
    intro n hn
    unfold descOf
    rw [hall n hn]
  · unfold marksOfTrace
    apply flatMap_congr'
    intro n hn
    rw [hall n hn]

theorem resolveRef_removeImport (r : Ref) (hun : (t, i) ∉ (resolveRef ws t f r).marks) :
    resolveRef (removeImport ws t i) t (dropImport f i) r = resolveRef ws t f r := by
  have hql : (fun n => resolveElementInFile n (dropImport f i)) = (fun n => resolveElementInFile n f) := rfl
  have hpkg : (dropImport f i).pkg = f.pkg := rfl
  unfold resolveRef at hun ⊢
  rw [hql, hpkg]
  cases hk : r.kind <;> simp only [hk] at hun ⊢
  · -- fieldType
    obtain ⟨h1, h2⟩ := resolveName_removeImport hwf ht hnp (fun n => resolveElementInFile n f) f.pkg true r.dot r.scopes r.name hun
    rw [h1, h2]
  · obtain ⟨h1, h2⟩ := resolveName_removeImport hwf ht hnp (fun n => resolveElementInFile n f) f.pkg false r.dot r.scopes r.name hun
    rw [h1, h2]
  · obtain ⟨h1, h2⟩ := resolveName_removeImport hwf ht hnp (fun n => resolveElementInFile n f) f.pkg false r.dot r.scopes r.name hun
    rw [h1, h2]
  · -- optName
    have hun1 := fun h => hun (List.mem_append.mpr (Or.inl h))
    have hun2 := fun h => hun (List.mem_append.mpr (Or.inr h))
    obtain ⟨h1, h2⟩ := resolveName_removeImport hwf ht hnp (fun n => resolveElementInFile n f) f.pkg false r.dot r.scopes r.name hun1
    rw [h1, h2, relook_removeImport hwf ht hnp _ hun2]
  · have hun1 := fun h => hun (List.mem_append.mpr (Or.inl h))
    have hun2 := fun h => hun (List.mem_append.mpr (Or.inr h))
    obtain ⟨h1, h2⟩ := resolveName_removeImport hwf ht hnp (fun n => resolveElementInFile n f) f.pkg false r.dot [] r.name hun1
    rw [h1, h2, relook_removeImport hwf ht hnp _ hun2]
  · -- anyType
    rw [lookPlain_removeImport hwf ht hnp r.name]
    intro d ms h
    rw [h] at hun
    exact hun
  · rw [lookPlain_removeImport hwf ht hnp r.name]
    intro d ms h
    rw [h] at hun
    exact hun

/-- **unused ⇒ removable**, on the model: if import `i` of the file under test was never
    marked, removing it changes nothing: every reference resolves to the same descriptor,
    the same imports are marked and the link succeeds or fails as before. -/
theorem link_removeImport (refs : List Ref) (hun : (t, i) ∉ (link ws t refs).marks) :
    link (removeImport ws t i) t refs = link ws t refs := by
  unfold link at hun ⊢
  rw [getElem?_removeImport_self ws t i f ht]
  simp only [ht] at hun ⊢
  have hmap : refs.map (resolveRef (removeImport ws t i) t (dropImport f i)) =
      refs.map (resolveRef ws t f) := by
    apply List.map_congr_left
    intro r hr
    apply resolveRef_removeImport hwf ht hnp
    intro hm
    apply hun
    exact List.mem_flatMap.mpr ⟨resolveRef ws t f r, List.mem_map.mpr ⟨r, hr, rfl⟩, hm⟩
  rw [hmap]

end remove

/-! ### the marks of a reference are the marks of the lookups performed for it -/

/-- the lookups through `resolveInFile` performed for a reference -/
inductive Query where
  | elem (n : Name)    -- `resolveElement`: FindDescriptorByName or package-namespace sentinel
  | plain (n : Name)   -- interpreter: FindDescriptorByName only
  deriving Repr

def Query.fn : Query → FileM → Option Desc
  | .elem n => resolveElementInFile n
  | .plain n => findDesc n

def relookQ : Option Desc → List Query
  | some (.real s) => [.plain s.name]
  | _ => []

/-- every lookup performed (through the file's imports) while resolving reference `r` -/
def queriesOf (ws : WS) (t : Nat) (f : FileM) (r : Ref) : List Query :=
  let ql : Name → Option Desc := fun n => resolveElementInFile n f
  let q : Name → Option Desc := descOf (lookElem ws t)
  match r.kind with
  | .fieldType => (resolveName ql q f.pkg true r.dot r.scopes r.name).2.map .elem
  | .extendee | .rpc => (resolveName ql q f.pkg false r.dot r.scopes r.name).2.map .elem
  | .optName =>
    let res := resolveName ql q f.pkg false r.dot r.scopes r.name
    res.2.map .elem ++ relookQ res.1
  | .litExt =>
    let res := resolveName ql q f.pkg false r.dot [] r.name
    res.2.map .elem ++ relookQ res.1
  | .anyType | .optsType => [.plain r.name]

def QueryMarks (ws : WS) (t i : Nat) (qy : Query) : Prop :=
  ∃ d ms, lookTop ws qy.fn t = some (d, ms) ∧ (t, i) ∈ ms

theorem mem_marksOfTrace (ws : WS) (t i : Nat) (tr : List Name) :
    (t, i) ∈ marksOfTrace (lookElem ws t) tr ↔ ∃ qy ∈ tr.map Query.elem, QueryMarks ws t i qy := by
  unfold marksOfTrace
  rw [List.mem_flatMap]
  constructor
  · rintro ⟨n, hn, hm⟩
    refine ⟨.elem n, List.mem_map.mpr ⟨n, hn, rfl⟩, ?_⟩
    cases hl : lookElem ws t n with
    | none => simp [hl] at hm
    | some v => obtain ⟨d, ms⟩ := v; simp only [hl] at hm; exact ⟨d, ms, hl, hm⟩
  · rintro ⟨qy, hq, d, ms, hl, hm⟩
    obtain ⟨n, hn, rfl⟩ := List.mem_map.mp hq
    refine ⟨n, hn, ?_⟩
    have : lookElem ws t n = some (d, ms) := hl
    simp [this, hm]

theorem mem_relook (ws : WS) (t i : Nat) (d : Option Desc) :
    (t, i) ∈ relook ws t d ↔ ∃ qy ∈ relookQ d, QueryMarks ws t i qy := by
  unfold relook relookQ
  cases d with
  | none => simp
  | some d =>
    cases d with
    | sentinel n => simp
    | real s =>
      simp only [List.mem_singleton, exists_eq_left]
      cases hl : lookPlain ws t s.name with
      | none =>
        simp only [List.not_mem_nil, false_iff]
        rintro ⟨d, ms, h, _⟩
        have : lookPlain ws t s.name = some (d, ms) := h
        rw [hl] at this; cases this
      | some v =>
        obtain ⟨d, ms⟩ := v
        simp only
        constructor
        · intro hm; exact ⟨d, ms, hl, hm⟩
        · rintro ⟨d', ms', h, hm⟩
          have : lookPlain ws t s.name = some (d', ms') := h
          rw [hl] at this; cases this; exact hm

theorem mem_marks_plain (ws : WS) (t i : Nat) (n : Name) (o : Option Desc → Option Desc) :
    (t, i) ∈ (match lookPlain ws t n with
        | some (d, ms) => (⟨o (some d), ms⟩ : RefOut)
        | none => ⟨none, []⟩).marks ↔ QueryMarks ws t i (.plain n) := by
  cases hl : lookPlain ws t n with
  | none =>
    simp only [List.not_mem_nil, false_iff]
    rintro ⟨d, ms, h, _⟩
    have : lookPlain ws t n = some (d, ms) := h
    rw [hl] at this; cases this
  | some v =>
    obtain ⟨d, ms⟩ := v
    simp only
    constructor
    · intro hm; exact ⟨d, ms, hl, hm⟩
    · rintro ⟨d', ms', h, hm⟩
      have : lookPlain ws t n = some (d', ms') := h
      rw [hl] at this; cases this; exact hm

/-- the marks of a reference are exactly the marks of the lookups performed for it -/
theorem mem_marks_resolveRef (ws : WS) (t i : Nat) (f : FileM) (r : Ref) :
    (t, i) ∈ (resolveRef ws t f r).marks ↔ ∃ qy ∈ queriesOf ws t f r, QueryMarks ws t i qy := by
  unfold resolveRef queriesOf
  cases hk : r.kind <;> simp only []
  · exact mem_marksOfTrace ws t i _
  · exact mem_marksOfTrace ws t i _
  · exact mem_marksOfTrace ws t i _
  · rw [List.mem_append, mem_marksOfTrace, mem_relook]
    constructor
    · rintro (⟨qy, h1, h2⟩ | ⟨qy, h1, h2⟩)
      · exact ⟨qy, List.mem_append.mpr (Or.inl h1), h2⟩
      · exact ⟨qy, List.mem_append.mpr (Or.inr h1), h2⟩
    · rintro ⟨qy, h1, h2⟩
      cases List.mem_append.mp h1 with
      | inl h => exact Or.inl ⟨qy, h, h2⟩
      | inr h => exact Or.inr ⟨qy, h, h2⟩
  · rw [List.mem_append, mem_marksOfTrace, mem_relook]
    constructor
    · rintro (⟨qy, h1, h2⟩ | ⟨qy, h1, h2⟩)
      · exact ⟨qy, List.mem_append.mpr (Or.inl h1), h2⟩
      · exact ⟨qy, List.mem_append.mpr (Or.inr h1), h2⟩
    · rintro ⟨qy, h1, h2⟩
      cases List.mem_append.mp h1 with
      | inl h => exact Or.inl ⟨qy, h, h2⟩
      | inr h => exact Or.inr ⟨qy, h, h2⟩
  · simp only [List.mem_singleton, exists_eq_left]
    exact mem_marks_plain ws t i r.name id
  · simp only [List.mem_singleton, exists_eq_left]
    exact mem_marks_plain ws t i r.name (fun _ => none)


/-! ### where a resolved descriptor comes from -/

/-- a lookup function answers a real descriptor only under that descriptor's own name -/
def Faithful (q : Name → Option Desc) : Prop := ∀ m s, q m = some (.real s) → s.name = m

theorem findDesc_real {n : Name} {f : FileM} {s : Sym} (h : findDesc n f = some (.real s)) :
    s.name = n := by
  unfold findDesc at h
  cases hf : f.syms.find? (fun s => s.name == n) with
  | none => simp [hf] at h
  | some s' =>
    simp only [hf, Option.some.injEq, Desc.real.injEq] at h
    subst h
    have := List.find?_some hf
    simpa using this

theorem findDesc_isReal {n : Name} {f : FileM} {d : Desc} (h : findDesc n f = some d) :
    ∃ s, d = .real s := by
  unfold findDesc at h
  cases hf : f.syms.find? (fun s => s.name == n) with
  | none => simp [hf] at h
  | some s' => simp only [hf, Option.some.injEq] at h; exact ⟨s', h.symm⟩

theorem resolveElementInFile_real {n : Name} {f : FileM} {s : Sym}
    (h : resolveElementInFile n f = some (.real s)) : findDesc n f = some (.real s) := by
  unfold resolveElementInFile at h
  cases hd : findDesc n f with
  | some d => simp only [hd] at h; exact h
  | none =>
    simp only [hd] at h
    split at h <;> simp at h

theorem faithful_local (f : FileM) : Faithful (fun n => resolveElementInFile n f) :=
  fun _ _ h => findDesc_real (resolveElementInFile_real h)

/-- soundness of the top-level search, with the value: the answer is the file's own or that
    of a file visible through one of its imports -/
theorem lookTop_sound {α : Type} {ws : WS} (hwf : WF ws) (fn : FileM → Option α) (t : Nat)
    (f : FileM) (ht : ws[t]? = some f) (r : α) (ms : List Mark)
    (h : lookTop ws fn t = some (r, ms)) :
    fn f = some r ∨ ∃ x ∈ f.imports, ∃ g, PubReach ws x.1 g ∧ AnswersWith ws fn g r := by
  rw [lookTop_unfold ws fn t f ht] at h
  cases hfn : fn f with
  | some r' => simp only [hfn, Option.some.injEq, Prod.mk.injEq] at h; exact Or.inl (by rw [h.1])
  | none =>
    simp only [hfn] at h
    obtain ⟨x, hx, hv⟩ := List.exists_of_findSome?_eq_some h
    right
    refine ⟨x, hx, ?_⟩
    have hlt : x.1 < t := hwf t f ht x hx
    cases hr : resolveInFile ws fn (ws.length - 1) [t] true x.1 with
    | none => simp [hr, viaImport] at hv
    | some v =>
      obtain ⟨r0, ms0⟩ := v
      obtain ⟨_, g, hreach, hans⟩ := resolveInFile_pub_sound hwf fn _ x.1 [t] (by simp; omega) r0 ms0 hr
      simp only [hr, viaImport, Option.some.injEq, Prod.mk.injEq] at hv
      rw [← hv.1]
      exact ⟨g, hreach, hans⟩

theorem faithful_lookElem {ws : WS} (hwf : WF ws) (t : Nat) (f : FileM) (ht : ws[t]? = some f) :
    Faithful (descOf (lookElem ws t)) := by
  intro m s h
  unfold descOf at h
  cases hl : lookElem ws t m with
  | none => simp [hl] at h
  | some v =>
    obtain ⟨d, ms⟩ := v
    simp only [hl, Option.map_some, Option.some.injEq] at h
    subst h
    rcases lookTop_sound hwf _ t f ht _ ms hl with h1 | ⟨x, _, g, _, f', _, h2⟩
    · exact findDesc_real (resolveElementInFile_real h1)
    · exact findDesc_real (resolveElementInFile_real h2)

theorem resolveElementRelative_real {q : Name → Option Desc} (hq : Faithful q) {first full : Name}
    {s : Sym} (h : (resolveElementRelative q first full).1 = some (.real s)) :
    q s.name = some (.real s) := by
  unfold resolveElementRelative at h
  cases hq1 : q first with
  | none => simp [hq1] at h
  | some d =>
    simp only [hq1] at h
    by_cases e : first = full
    · simp only [e, if_true, Option.some.injEq] at h
      subst h
      rw [hq first s hq1]; exact hq1
    · simp only [e, if_false] at h
      by_cases ha : isAggregate d
      · simp only [ha, Bool.not_true, Bool.false_eq_true, if_false] at h
        cases hq2 : q full with
        | none => simp [hq2] at h
        | some d' =>
          simp only [hq2, Option.some.injEq] at h
          subst h
          rw [hq full s hq2]; exact hq2
      · simp [ha] at h

theorem fileScopeLoop_real {q : Name → Option Desc} (hq : Faithful q) {first full : Name}
    (ps : List Name) {s : Sym} (h : (fileScopeLoop q first full ps).1 = some (.real s)) :
    q s.name = some (.real s) := by
  induction ps with
  | nil => simp [fileScopeLoop] at h
  | cons p ps ih =>
    simp only [fileScopeLoop] at h
    cases hr : resolveElementRelative q (if p = [] then full else p ++ first) (p ++ full) with
    | mk d tr =>
      rw [hr] at h
      cases d with
      | some d =>
        simp only at h
        exact resolveElementRelative_real hq (by rw [hr]; exact h)
      | none =>
        simp only at h
        exact ih h

/-- a real descriptor returned by the scoped resolution was answered, under its own name,
    by the file-scope lookup or by the local lookup -/
theorem resolveScopes_real {ql q : Name → Option Desc} (hql : Faithful ql) (hq : Faithful q)
    (prefixes : List Name) (onlyTypes : Bool) (first full : Name) (scopes : List Name)
    (best : Option Desc) {s : Sym}
    (hbest : best = some (.real s) → q s.name = some (.real s) ∨ ql s.name = some (.real s))
    (h : (resolveScopes ql q prefixes onlyTypes first full scopes best).1 = some (.real s)) :
    q s.name = some (.real s) ∨ ql s.name = some (.real s) := by
  induction scopes generalizing best with
  | nil =>
    simp only [resolveScopes] at h
    cases hr : fileScopeLoop q first full prefixes with
    | mk d tr =>
      rw [hr] at h
      cases d with
      | none => simp only at h; exact hbest h
      | some d =>
        simp only at h
        split at h
        · simp only [Option.some.injEq] at h
          subst h
          exact Or.inl (fileScopeLoop_real hq prefixes (by rw [hr]))
        · simp only at h
          cases best with
          | some b => simp only [Option.orElse] at h; exact hbest h
          | none =>
            simp only [Option.orElse, Option.some.injEq] at h
            subst h
            exact Or.inl (fileScopeLoop_real hq prefixes (by rw [hr]))
  | cons m ms ih =>
    simp only [resolveScopes] at h
    cases hr : (resolveElementRelative ql (m ++ first) (m ++ full)).1 with
    | none =>
      simp only [hr] at h
      exact ih best hbest h
    | some d =>
      simp only [hr] at h
      split at h
      · simp only [Option.some.injEq] at h
        subst h
        exact Or.inr (resolveElementRelative_real hql hr)
      · apply ih _ _ h
        intro hb
        cases best with
        | some b => simp only [Option.orElse] at hb; exact hbest hb
        | none =>
          simp only [Option.orElse, Option.some.injEq] at hb
          subst hb
          exact Or.inr (resolveElementRelative_real hql hr)

theorem resolveName_real {ql q : Name → Option Desc} (hql : Faithful ql) (hq : Faithful q)
    (pkg : Name) (onlyTypes dot : Bool) (scopes : List Name) (name : Name) {s : Sym}
    (h : (resolveName ql q pkg onlyTypes dot scopes name).1 = some (.real s)) :
    q s.name = some (.real s) ∨ ql s.name = some (.real s) := by
  unfold resolveName at h
  cases dot with
  | true =>
    simp only [if_true] at h
    left
    rw [hq name s h]; exact h
  | false =>
    simp only [Bool.false_eq_true, if_false] at h
    exact resolveScopes_real hql hq _ _ _ _ _ none (by simp) h


end PCV.UnusedImports
