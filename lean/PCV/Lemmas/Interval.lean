/-
Helper lemmas for C40 (interval maps): the list-valued ("abstract") instance of the
`Intersect.Insert` loop computes a clean recursive specification `insSpec`, and `insSpec`
adds the new value exactly on `[a, b]`.
-/
import PCV.Model.Interval
namespace PCV.Interval

abbrev E := Entry (List Int)

/-- entry `x` lies entirely to the left of `y` -/
def Lt {S : Type} (x y : Entry S) : Prop := x.stop < y.start

/-- sorted, pairwise disjoint, every entry a non-empty interval -/
def Inv {S : Type} (t : List (Entry S)) : Prop :=
  t.Pairwise Lt ∧ ∀ x ∈ t, x.start ≤ x.stop

def KeySorted {S : Type} (t : List (Entry S)) : Prop := t.Pairwise (fun x y => x.stop < y.stop)

theorem Inv.keySorted {S : Type} {t : List (Entry S)} (h : Inv t) : KeySorted t := by
  obtain ⟨hp, hw⟩ := h
  induction t with
  | nil => exact List.Pairwise.nil
  | cons x xs ih =>
    rw [List.pairwise_cons] at hp
    refine List.pairwise_cons.mpr ⟨?_, ih hp.2 (fun y hy => hw y (List.mem_cons_of_mem _ hy))⟩
    intro y hy
    have h1 := hp.1 y hy
    have h2 := hw y (List.mem_cons_of_mem _ hy)
    unfold Lt at h1; omega

theorem Inv.tail {S : Type} {x : Entry S} {xs : List (Entry S)} (h : Inv (x :: xs)) : Inv xs :=
  ⟨(List.pairwise_cons.mp h.1).2, fun y hy => h.2 y (List.mem_cons_of_mem _ hy)⟩

/-! ### treeSet -/

theorem treeSet_keySorted {S : Type} (t : List (Entry S)) (n : Entry S) (h : KeySorted t) :
    KeySorted (treeSet t n) ∧ ∀ y ∈ treeSet t n, y = n ∨ y ∈ t := by
  induction t with
  | nil => simp [treeSet, KeySorted]
  | cons x xs ih =>
    unfold KeySorted at h ih ⊢
    rw [List.pairwise_cons] at h
    simp only [treeSet]
    split
    · next h1 =>
      refine ⟨List.pairwise_cons.mpr ⟨?_, List.pairwise_cons.mpr h⟩, ?_⟩
      · intro y hy
        rcases List.mem_cons.mp hy with rfl | hy
        · exact h1
        · have := h.1 y hy; omega
      · intro y hy; simpa using hy
    · split
      · next h1 h2 =>
        refine ⟨List.pairwise_cons.mpr ⟨?_, h.2⟩, ?_⟩
        · intro y hy; have := h.1 y hy; omega
        · intro y hy
          rcases List.mem_cons.mp hy with rfl | hy
          · exact Or.inl rfl
          · exact Or.inr (List.mem_cons_of_mem _ hy)
      · next h1 h2 =>
        obtain ⟨ih1, ih2⟩ := ih h.2
        refine ⟨List.pairwise_cons.mpr ⟨?_, ih1⟩, ?_⟩
        · intro y hy
          rcases ih2 y hy with rfl | hy
          · omega
          · exact h.1 y hy
        · intro y hy
          rcases List.mem_cons.mp hy with rfl | hy
          · exact Or.inr (List.mem_cons_self)
          · rcases ih2 y hy with rfl | hy
            · exact Or.inl rfl
            · exact Or.inr (List.mem_cons_of_mem _ hy)

theorem mem_treeSet_self {S : Type} (t : List (Entry S)) (n : Entry S) : n ∈ treeSet t n := by
  induction t with
  | nil => simp [treeSet]
  | cons x xs ih =>
    simp only [treeSet]
    split
    · simp
    · split
      · simp
      · exact List.mem_cons_of_mem _ ih

/-- an old entry survives `Set` unless its key is the new key -/
theorem mem_treeSet_of_mem {S : Type} (t : List (Entry S)) (n y : Entry S) (hy : y ∈ t)
    (hk : y.stop = n.stop → y = n) : y ∈ treeSet t n := by
  induction t with
  | nil => cases hy
  | cons x xs ih =>
    simp only [treeSet]
    split
    · exact List.mem_cons_of_mem _ hy
    · split
      · next h1 h2 =>
        rcases List.mem_cons.mp hy with rfl | hy
        · have := hk h2.symm; subst this; exact List.mem_cons_self
        · exact List.mem_cons_of_mem _ hy
      · rcases List.mem_cons.mp hy with rfl | hy
        · exact List.mem_cons_self
        · exact List.mem_cons_of_mem _ (ih hy)

/-- two strictly key-sorted lists with the same members are equal -/
theorem keySorted_ext {S : Type} : ∀ (l1 l2 : List (Entry S)), KeySorted l1 → KeySorted l2 →
    (∀ y, y ∈ l1 ↔ y ∈ l2) → l1 = l2
  | [], [], _, _, _ => rfl
  | [], y :: ys, _, _, h => by have := (h y).mpr List.mem_cons_self; cases this
  | x :: xs, [], _, _, h => by have := (h x).mp List.mem_cons_self; cases this
  | x :: xs, y :: ys, h1, h2, h => by
    unfold KeySorted at h1 h2
    rw [List.pairwise_cons] at h1 h2
    have hxy : x = y := by
      have hx := (h x).mp List.mem_cons_self
      have hy := (h y).mpr List.mem_cons_self
      rcases List.mem_cons.mp hx with rfl | hx
      · rfl
      · rcases List.mem_cons.mp hy with rfl | hy
        · rfl
        · have a1 := h2.1 x hx
          have a2 := h1.1 y hy
          omega
    subst hxy
    congr 1
    apply keySorted_ext xs ys h1.2 h2.2
    intro z
    constructor
    · intro hz
      have := (h z).mp (List.mem_cons_of_mem _ hz)
      rcases List.mem_cons.mp this with rfl | h'
      · have := h1.1 z hz; omega
      · exact h'
    · intro hz
      have := (h z).mpr (List.mem_cons_of_mem _ hz)
      rcases List.mem_cons.mp this with rfl | h'
      · have := h2.1 z hz; omega
      · exact h'

/-- `for _, entry := range pending { tree.Set(entry.End, entry) }` yields the strictly sorted
    list `out` as soon as tree ∪ pending and `out` have the same members. -/
theorem foldl_treeSet_eq {S : Type} (out : List (Entry S)) (hout : KeySorted out) :
    ∀ (P t1 : List (Entry S)), KeySorted t1 → (∀ y, (y ∈ t1 ∨ y ∈ P) ↔ y ∈ out) →
      P.foldl treeSet t1 = out
  | [], t1, h1, h => by
    simp only [List.foldl_nil]
    exact keySorted_ext t1 out h1 hout (by simpa using h)
  | n :: P, t1, h1, h => by
    simp only [List.foldl_cons]
    have hks := treeSet_keySorted t1 n h1
    apply foldl_treeSet_eq out hout P (treeSet t1 n) hks.1
    -- members of `out` with equal keys are equal
    have huniq : ∀ y z, y ∈ out → z ∈ out → y.stop = z.stop → y = z := by
      intro y z hy hz hyz
      unfold KeySorted at hout
      clear h hks h1
      induction out with
      | nil => cases hy
      | cons o os ih =>
        rw [List.pairwise_cons] at hout
        rcases List.mem_cons.mp hy with rfl | hy' <;> rcases List.mem_cons.mp hz with rfl | hz'
        · rfl
        · have := hout.1 z hz'; omega
        · have := hout.1 y hy'; omega
        · exact ih hout.2 hy' hz'
    intro y
    constructor
    · rintro (hy | hy)
      · rcases hks.2 y hy with rfl | hy
        · exact (h y).mp (Or.inr List.mem_cons_self)
        · exact (h y).mp (Or.inl hy)
      · exact (h y).mp (Or.inr (List.mem_cons_of_mem _ hy))
    · intro hy
      rcases (h y).mpr hy with h' | h'
      · left
        apply mem_treeSet_of_mem t1 n y h'
        intro hk
        exact huniq y n hy ((h n).mp (Or.inr List.mem_cons_self)) hk
      · rcases List.mem_cons.mp h' with rfl | h'
        · exact Or.inl (mem_treeSet_self t1 y)
        · exact Or.inr h'


/-! ### point semantics and the clean specification of `Insert` -/

/-- values of the (first) entry containing `p` -/
def sem : List E → Int → List Int
  | [], _ => []
  | x :: xs, p => if x.start ≤ p ∧ p ≤ x.stop then x.val else sem xs p

theorem sem_nil_of_not_cont (t : List E) (p : Int) (h : ∀ x ∈ t, ¬(x.start ≤ p ∧ p ≤ x.stop)) :
    sem t p = [] := by
  induction t with
  | nil => rfl
  | cons x xs ih =>
    simp only [sem]
    rw [if_neg (h x List.mem_cons_self)]
    exact ih (fun y hy => h y (List.mem_cons_of_mem _ hy))

def gapE (lo hi v : Int) : List E := if lo ≤ hi then [⟨lo, hi, [v]⟩] else []

/-- What inserting `[lo, b] ↦ v` into a sorted disjoint list should produce. -/
def insSpec (b v : Int) : Int → List E → List E
  | lo, [] => gapE lo b v
  | lo, x :: xs =>
    if b < lo then x :: xs
    else if x.stop < lo then x :: insSpec b v lo xs
    else if b < x.start then gapE lo b v ++ x :: xs
    else
      gapE lo (x.start - 1) v
      ++ (if x.start < lo then [⟨x.start, lo - 1, x.val⟩] else [])
      ++ [⟨max x.start lo, min x.stop b, x.val ++ [v]⟩]
      ++ (if b < x.stop then [⟨b + 1, x.stop, x.val⟩] else [])
      ++ insSpec b v (min x.stop b + 1) xs

theorem sem_insSpec (b v p : Int) : ∀ (t : List E) (lo : Int), Inv t →
    sem (insSpec b v lo t) p = sem t p ++ (if lo ≤ p ∧ p ≤ b then [v] else [])
  | [], lo, _ => by
    simp only [insSpec, gapE]
    by_cases h1 : lo ≤ b
    · by_cases h2 : lo ≤ p ∧ p ≤ b
      · simp [sem, h1, h2]
      · have h3 : ¬(lo ≤ p ∧ p ≤ b) := h2
        simp only [sem, h1, if_true, if_neg h3, List.append_nil]
    · have h3 : ¬(lo ≤ p ∧ p ≤ b) := by omega
      simp only [sem, h1, if_false, if_neg h3, List.append_nil]
  | x :: xs, lo, h => by
    have ih := sem_insSpec b v p xs
    have hx := h.2 x List.mem_cons_self
    have hlt : ∀ y ∈ xs, x.stop < y.start := (List.pairwise_cons.mp h.1).1
    have htail := h.tail
    have hnil : p ≤ x.stop → sem xs p = [] := by
      intro hp
      apply sem_nil_of_not_cont
      intro y hy hc
      have := hlt y hy
      omega
    simp only [insSpec]
    split
    · next h1 =>
      have : ¬(lo ≤ p ∧ p ≤ b) := by omega
      simp [this]
    · next h1 =>
      split
      · next h2 =>
        simp only [sem]
        split
        · next h3 =>
          have : ¬(lo ≤ p ∧ p ≤ b) := by omega
          simp [this]
        · exact ih lo htail
      · next h2 =>
        split
        · next h3 =>
          simp only [gapE]
          rw [if_pos (by omega)]
          simp only [List.cons_append, List.nil_append, sem]
          split
          · next h4 =>
            rw [if_neg (by omega), hnil (by omega)]
            simp
          · next h4 =>
            split
            · next h5 =>
              simp
            · next h5 =>
              simp
        · next h3 =>
          have ih' := ih (min x.stop b + 1) htail
          simp only [gapE]
          by_cases c1 : lo ≤ x.start - 1 <;> by_cases c2 : x.start < lo <;> by_cases c3 : b < x.stop <;>
            simp only [c1, c2, c3, if_true, if_false, List.cons_append, List.nil_append, sem, ih',
              List.append_nil] <;>
            (repeat' split) <;> (try (first | omega | (simp; done))) <;>
            (try (rw [hnil (by omega)])) <;> (try simp) <;> (try omega)

/-- every entry of the result is a non-empty interval with non-empty values, lying either in
    the new range `[lo, b]` or inside an old entry -/
theorem insSpec_mem (b v : Int) : ∀ (t : List E) (lo : Int), Inv t → (∀ x ∈ t, x.val ≠ []) →
    ∀ y ∈ insSpec b v lo t, y.start ≤ y.stop ∧ y.val ≠ [] ∧
      ((lo ≤ y.start ∧ y.stop ≤ b) ∨ ∃ x ∈ t, x.start ≤ y.start ∧ y.stop ≤ x.stop)
  | [], lo, _, _ => by
    intro y hy
    simp only [insSpec, gapE] at hy
    split at hy
    · simp only [List.mem_singleton] at hy; subst hy; simp; omega
    · cases hy
  | x :: xs, lo, h, hne => by
    have ih := insSpec_mem b v xs
    have hx := h.2 x List.mem_cons_self
    have hxne := hne x List.mem_cons_self
    have htail := h.tail
    have hne' : ∀ y ∈ xs, y.val ≠ [] := fun y hy => hne y (List.mem_cons_of_mem _ hy)
    have old : ∀ y ∈ x :: xs, y.start ≤ y.stop ∧ y.val ≠ [] ∧
        ((lo ≤ y.start ∧ y.stop ≤ b) ∨ ∃ z ∈ x :: xs, z.start ≤ y.start ∧ y.stop ≤ z.stop) :=
      fun y hy => ⟨h.2 y hy, hne y hy, Or.inr ⟨y, hy, Int.le_refl _, Int.le_refl _⟩⟩
    have lift : ∀ (lo' : Int) (y : E), lo ≤ lo' →
        (y.start ≤ y.stop ∧ y.val ≠ [] ∧
          ((lo' ≤ y.start ∧ y.stop ≤ b) ∨ ∃ z ∈ xs, z.start ≤ y.start ∧ y.stop ≤ z.stop)) →
        (y.start ≤ y.stop ∧ y.val ≠ [] ∧
          ((lo ≤ y.start ∧ y.stop ≤ b) ∨ ∃ z ∈ x :: xs, z.start ≤ y.start ∧ y.stop ≤ z.stop)) := by
      intro lo' y hl ⟨a1, a2, a3⟩
      refine ⟨a1, a2, ?_⟩
      rcases a3 with a3 | ⟨z, hz, a3⟩
      · left; omega
      · right; exact ⟨z, List.mem_cons_of_mem _ hz, a3⟩
    intro y hy
    simp only [insSpec] at hy
    split at hy
    · exact old y hy
    · next h1 =>
      split at hy
      · next h2 =>
        rcases List.mem_cons.mp hy with rfl | hy
        · exact old _ List.mem_cons_self
        · exact lift lo y (Int.le_refl _) (ih lo htail hne' y hy)
      · next h2 =>
        split at hy
        · next h3 =>
          simp only [gapE] at hy
          rw [if_pos (by omega)] at hy
          rcases List.mem_append.mp hy with hy | hy
          · simp only [List.mem_singleton] at hy; subst hy; simp; omega
          · exact old y hy
        · next h3 =>
          simp only [List.mem_append, gapE] at hy
          rcases hy with (((hy | hy) | hy) | hy) | hy
          · split at hy
            · simp only [List.mem_singleton] at hy; subst hy; simp; omega
            · cases hy
          · split at hy
            · simp only [List.mem_singleton] at hy; subst hy
              refine ⟨by simp; omega, hxne, Or.inr ⟨x, List.mem_cons_self, ?_, ?_⟩⟩ <;> simp <;> omega
            · cases hy
          · simp only [List.mem_singleton] at hy; subst hy
            refine ⟨by simp; omega, by simp, Or.inl ?_⟩
            simp; omega
          · split at hy
            · simp only [List.mem_singleton] at hy; subst hy
              refine ⟨by simp; omega, hxne, Or.inr ⟨x, List.mem_cons_self, ?_, ?_⟩⟩ <;> simp <;> omega
            · cases hy
          · exact lift _ y (by omega) (ih _ htail hne' y hy)

theorem insSpec_inv (b v : Int) : ∀ (t : List E) (lo : Int), Inv t → (∀ x ∈ t, x.val ≠ []) →
    Inv (insSpec b v lo t)
  | [], lo, _, _ => by
    simp only [insSpec, gapE]
    split
    · exact ⟨List.pairwise_singleton _ _, by simp; omega⟩
    · exact ⟨List.Pairwise.nil, by simp⟩
  | x :: xs, lo, h, hne => by
    have hx := h.2 x List.mem_cons_self
    have htail := h.tail
    have hne' : ∀ y ∈ xs, y.val ≠ [] := fun y hy => hne y (List.mem_cons_of_mem _ hy)
    have hlt : ∀ y ∈ xs, x.stop < y.start := (List.pairwise_cons.mp h.1).1
    refine ⟨?_, fun y hy => (insSpec_mem b v (x :: xs) lo h hne y hy).1⟩
    have ihp := fun lo' => (insSpec_inv b v xs lo' htail hne').1
    have ihm := fun lo' => insSpec_mem b v xs lo' htail hne'
    -- everything produced from the tail starts after `q` when `q` ends at or before `x.stop`
    -- (and before the new lower limit)
    have cross : ∀ (lo' qs : Int), qs ≤ x.stop → qs < lo' → ∀ y ∈ insSpec b v lo' xs, qs < y.start := by
      intro lo' qs h1 h2 y hy
      obtain ⟨_, _, hb⟩ := ihm lo' y hy
      rcases hb with hb | ⟨z, hz, hb⟩
      · omega
      · have := hlt z hz; omega
    simp only [insSpec]
    split
    · exact h.1
    · next h1 =>
      split
      · next h2 =>
        exact List.pairwise_cons.mpr ⟨fun y hy => cross lo x.stop (Int.le_refl _) h2 y hy, ihp lo⟩
      · next h2 =>
        split
        · next h3 =>
          simp only [gapE]
          rw [if_pos (by omega)]
          refine List.pairwise_cons.mpr ⟨?_, h.1⟩
          intro y hy
          rcases List.mem_cons.mp hy with rfl | hy
          · exact h3
          · have := hlt y hy; simp only [Lt]; omega
        · next h3 =>
          have hrec := ihp (min x.stop b + 1)
          have hwf := fun y hy => (ihm (min x.stop b + 1) y hy).1
          have hb := fun y hy => (ihm (min x.stop b + 1) y hy).2.2
          -- tail results start after min(x.stop, b); if `b < x.stop` they are old entries
          have c1 : ∀ y ∈ insSpec b v (min x.stop b + 1) xs, min x.stop b < y.start :=
            cross _ _ (by omega) (by omega)
          have c2 : b < x.stop → ∀ y ∈ insSpec b v (min x.stop b + 1) xs, x.stop < y.start := by
            intro hbx y hy
            rcases hb y hy with hb | ⟨z, hz, hb⟩
            · have := hwf y hy; omega
            · have := hlt z hz; omega
          simp only [gapE]
          by_cases d1 : lo ≤ x.start - 1 <;> by_cases d2 : x.start < lo <;> by_cases d3 : b < x.stop <;>
            simp only [d1, d2, d3, if_true, if_false, List.cons_append, List.nil_append,
              List.pairwise_cons, List.mem_cons, forall_eq_or_imp, Lt] <;>
            refine ⟨?_, ?_⟩ <;> (try refine ⟨?_, ?_⟩) <;> (try refine ⟨?_, ?_⟩) <;>
            (try refine ⟨?_, ?_⟩) <;> (try refine ⟨?_, ?_⟩) <;> (try refine ⟨?_, ?_⟩) <;>
            (try exact hrec) <;>
            (try (intro y hy; have e1 := c1 y hy; first | omega | (have e2 := c2 (by omega) y hy; omega))) <;>
            (try omega)

/-! ### the Go loop on plain lists computes `insSpec` -/

def fin (a b v : Int) : Option Int → List E
  | none => [⟨a, b, [v]⟩]
  | some pe => if pe < b then [⟨pe + 1, b, [v]⟩] else []

def loOf (a : Int) : Option Int → Int
  | none => a
  | some pe => pe + 1

/-- the pieces `insSpec` emits for one intersecting entry -/
def pieces (b v lo : Int) (x : E) : List E :=
  gapE lo (x.start - 1) v
  ++ (if x.start < lo then [⟨x.start, lo - 1, x.val⟩] else [])
  ++ [⟨max x.start lo, min x.stop b, x.val ++ [v]⟩]
  ++ (if b < x.stop then [⟨b + 1, x.stop, x.val⟩] else [])

theorem bodyA_none (fixGap : Bool) (a b v : Int) (hab : a ≤ b) (x : E) (pend : List E)
    (h1 : ¬ b < x.start) (h2 : a ≤ x.stop) :
    let r := body listOps fixGap a b v x ⟨(), pend, none⟩
    r.2.prev = some (min x.stop b) ∧ r.1.stop = x.stop ∧
    ∃ newP, r.2.pend = pend ++ newP ∧ ∀ y, (y = r.1 ∨ y ∈ newP) ↔ y ∈ pieces b v a x := by
  simp only [body, gap3, mkGap, listOps, pieces, gapE]
  by_cases c1 : a < x.start <;> by_cases c2 : x.start < a <;> by_cases c3 : b < x.stop <;>
    by_cases c4 : x.start ≤ b ∧ b ≤ x.stop <;> (try omega)
  all_goals
    have e1 : max x.start a = (if x.start < a then a else x.start) := by split <;> omega
    have e2 : min x.stop b = (if b < x.stop then b else x.stop) := by split <;> omega
    have e3 : (a ≤ x.start - 1) = (a < x.start) := by apply propext; omega
    simp [c1, c2, c3, c4, e1, e2, e3]
    try grind

theorem bodyA_some (fixGap : Bool) (a b v pe : Int) (x : E) (pend : List E)
    (h1 : ¬ b < x.start) (h2 : a ≤ pe + 1) (h3 : pe < x.start)
    (hg : fixGap = true ∨ pe + 1 ≠ x.start) :
    let r := body listOps fixGap a b v x ⟨(), pend, some pe⟩
    r.2.prev = some (min x.stop b) ∧ r.1.stop = x.stop ∧
    ∃ newP, r.2.pend = pend ++ newP ∧ ∀ y, (y = r.1 ∨ y ∈ newP) ↔ y ∈ pieces b v (pe + 1) x := by
  simp only [body, gap3, mkGap, listOps, pieces, gapE]
  have c2 : ¬ x.start < a := by omega
  have c5 : ¬ x.start < pe + 1 := by omega
  by_cases c1 : pe + 1 < x.start <;> by_cases c3 : b < x.stop <;>
    by_cases c4 : x.start ≤ b ∧ b ≤ x.stop <;> (try omega)
  all_goals
    have e1 : max x.start (pe + 1) = x.start := by omega
    have e2 : min x.stop b = (if b < x.stop then b else x.stop) := by split <;> omega
    have e3 : (pe + 1 ≤ x.start - 1) = (pe + 1 < x.start) := by apply propext; omega
    have e4 : (pe < x.start) = True := by simp [h3]
    rcases hg with hg | hg
    · simp [c1, c2, c3, c4, c5, e1, e2, e3, hg]
      try grind
    · cases fixGap <;> simp [c1, c2, c3, c4, c5, e1, e2, e3, e4] <;> (try grind) <;> (try omega)

/-- what the loop needs to know about `prev` and the entry it is about to process -/
def PreX (fixGap : Bool) (a b : Int) (prev : Option Int) (x : E) : Prop :=
  match prev with
  | none => a ≤ x.stop
  | some pe => a ≤ pe + 1 ∧ pe < x.start ∧ (fixGap = true ∨ (x.start ≤ b → pe + 1 ≠ x.start))

theorem bodyA (fixGap : Bool) (a b v : Int) (hab : a ≤ b) (x : E) (st : LoopSt Unit (List Int))
    (h1 : ¬ b < x.start) (hpre : PreX fixGap a b st.prev x) :
    (body listOps fixGap a b v x st).2.prev = some (min x.stop b) ∧
    (body listOps fixGap a b v x st).1.stop = x.stop ∧
    ∃ newP, (body listOps fixGap a b v x st).2.pend = st.pend ++ newP ∧
      ∀ y, (y = (body listOps fixGap a b v x st).1 ∨ y ∈ newP) ↔ y ∈ pieces b v (loOf a st.prev) x := by
  obtain ⟨u, pend, prev⟩ := st
  cases prev with
  | none => exact bodyA_none fixGap a b v hab x pend h1 hpre
  | some pe =>
    obtain ⟨p1, p2, p3⟩ := hpre
    refine bodyA_some fixGap a b v pe x pend h1 p1 p2 ?_
    rcases p3 with p3 | p3
    · exact Or.inl p3
    · exact Or.inr (p3 (by omega))

theorem fin_eq_gapE (a b v : Int) (hab : a ≤ b) (prev : Option Int) :
    fin a b v prev = gapE (loOf a prev) b v := by
  cases prev with
  | none => simp [fin, gapE, loOf, hab]
  | some pe =>
    have e : (pe + 1 ≤ b) = (pe < b) := by apply propext; omega
    simp [fin, gapE, loOf, e]

def PreL (fixGap : Bool) (a b : Int) (prev : Option Int) (xs : List E) : Prop :=
  (∀ x ∈ xs, PreX fixGap a b prev x) ∧
  (fixGap = true ∨ xs.Pairwise (fun x y => y.start ≤ b → x.stop + 1 ≠ y.start))

theorem loopA_mem (fixGap : Bool) (a b v : Int) (hab : a ≤ b) :
    ∀ (xs : List E) (st : LoopSt Unit (List Int)), Inv xs → PreL fixGap a b st.prev xs →
    ∀ y, (y ∈ (loop listOps fixGap a b v xs st).1 ∨ y ∈ (loop listOps fixGap a b v xs st).2.pend ∨
            y ∈ fin a b v (loop listOps fixGap a b v xs st).2.prev) ↔
         (y ∈ st.pend ∨ y ∈ insSpec b v (loOf a st.prev) xs)
  | [], st, _, _ => by
    intro y
    simp only [loop, insSpec, fin_eq_gapE a b v hab]
    simp
  | x :: xs, st, hinv, hpre => by
    intro y
    have hx := hinv.2 x List.mem_cons_self
    have hlt : ∀ z ∈ xs, x.stop < z.start := (List.pairwise_cons.mp hinv.1).1
    have hpx := hpre.1 x List.mem_cons_self
    have hlo : loOf a st.prev ≤ x.stop := by
      unfold PreX at hpx; unfold loOf
      split at hpx <;> simp_all <;> omega
    simp only [loop]
    split
    · next h1 =>
      -- nothing (more) intersects
      simp only [insSpec]
      split
      · next h2 =>
        have : fin a b v st.prev = [] := by
          rw [fin_eq_gapE a b v hab, gapE, if_neg (by omega)]
        rw [this]; simp; grind
      · rw [if_neg (by omega), fin_eq_gapE a b v hab]
        simp only [List.mem_append]; grind
    · next h1 =>
      obtain ⟨b1, b2, newP, b3, b4⟩ := bodyA fixGap a b v hab x st h1 hpx
      have hlob : loOf a st.prev ≤ b := by
        unfold PreX at hpx; unfold loOf
        split at hpx <;> simp_all <;> omega
      have hpre' : PreL fixGap a b (body listOps fixGap a b v x st).2.prev xs := by
        rw [b1]
        refine ⟨?_, ?_⟩
        · intro z hz
          have hz1 := hlt z hz
          refine ⟨?_, by omega, ?_⟩
          · unfold PreX at hpx
            split at hpx <;> omega
          · rcases hpre.2 with hf | hp
            · exact Or.inl hf
            · right
              intro hzb
              have := (List.pairwise_cons.mp hp).1 z hz hzb
              omega
        · rcases hpre.2 with hf | hp
          · exact Or.inl hf
          · exact Or.inr (List.pairwise_cons.mp hp).2
      have ih := loopA_mem fixGap a b v hab xs (body listOps fixGap a b v x st).2 hinv.tail hpre' y
      rw [b1] at ih
      simp only [loOf] at ih
      have hspec : insSpec b v (loOf a st.prev) (x :: xs) =
          pieces b v (loOf a st.prev) x ++ insSpec b v (min x.stop b + 1) xs := by
        simp only [insSpec, pieces]
        rw [if_neg (by omega), if_neg (by omega), if_neg h1]
      rw [hspec]
      simp only [List.mem_cons, List.mem_append]
      rw [b3] at ih
      simp only [List.mem_append] at ih
      have b4y := b4 y
      constructor
      · rintro ((h | h) | h)
        · exact Or.inr (Or.inl (b4y.mp (Or.inl h)))
        · rcases ih.mp (Or.inl h) with (h | h) | h
          · exact Or.inl h
          · exact Or.inr (Or.inl (b4y.mp (Or.inr h)))
          · exact Or.inr (Or.inr h)
        · rcases ih.mp (Or.inr h) with (h | h) | h
          · exact Or.inl h
          · exact Or.inr (Or.inl (b4y.mp (Or.inr h)))
          · exact Or.inr (Or.inr h)
      · rintro (h | h | h)
        · rcases ih.mpr (Or.inl (Or.inl h)) with h | h
          · exact Or.inl (Or.inr h)
          · exact Or.inr h
        · rcases b4y.mpr h with h | h
          · exact Or.inl (Or.inl h)
          · rcases ih.mpr (Or.inl (Or.inr h)) with h | h
            · exact Or.inl (Or.inr h)
            · exact Or.inr h
        · rcases ih.mpr (Or.inr h) with h | h
          · exact Or.inl (Or.inr h)
          · exact Or.inr h

/-- the in-place mutations never change a key -/
theorem body_stop {H S : Type} (ops : Ops H S) (fixGap : Bool) (a b v : Int) (x : Entry S)
    (st : LoopSt H S) : (body ops fixGap a b v x st).1.stop = x.stop := by
  simp only [body]
  split <;> simp_all

theorem loop_stops {H S : Type} (ops : Ops H S) (fixGap : Bool) (a b v : Int) :
    ∀ (xs : List (Entry S)) (st : LoopSt H S),
      (loop ops fixGap a b v xs st).1.map (·.stop) = xs.map (·.stop)
  | [], st => by simp [loop]
  | x :: xs, st => by
    simp only [loop]
    split
    · rfl
    · simp only [List.map_cons, body_stop, loop_stops ops fixGap a b v xs]

theorem keySorted_of_map_stop {S S' : Type} (l1 : List (Entry S)) (l2 : List (Entry S'))
    (h : l1.map (·.stop) = l2.map (·.stop)) (hk : KeySorted l2) : KeySorted l1 := by
  unfold KeySorted at *
  have h1 : (l1.map (·.stop)).Pairwise (· < ·) := by
    rw [h]; exact (List.pairwise_map).mpr hk
  exact (List.pairwise_map).mp h1

theorem insSpec_pre (b v a : Int) (hab : a ≤ b) : ∀ (pre suf : List E),
    (∀ x ∈ pre, x.stop < a) → insSpec b v a (pre ++ suf) = pre ++ insSpec b v a suf
  | [], suf, _ => rfl
  | x :: pre, suf, h => by
    simp only [List.cons_append, insSpec]
    rw [if_neg (by omega), if_pos (h x List.mem_cons_self),
      insSpec_pre b v a hab pre suf (fun y hy => h y (List.mem_cons_of_mem _ hy))]

theorem mem_takeWhile_prop {α : Type} (p : α → Bool) : ∀ (l : List α) (x : α),
    x ∈ l.takeWhile p → p x = true
  | [], x, h => by simp at h
  | y :: ys, x, h => by
    simp only [List.takeWhile_cons] at h
    split at h
    · rcases List.mem_cons.mp h with rfl | h
      · assumption
      · exact mem_takeWhile_prop p ys x h
    · cases h

theorem finalGap_list (u : Unit) (a b v : Int) (prev : Option Int) :
    (finalGap listOps u a b v prev).2 = fin a b v prev := by
  cases prev with
  | none => rfl
  | some pe => simp only [finalGap, fin, mkGap, listOps]; split <;> rfl

/-- `Seek(a)`: everything that is skipped has a key below `a`, everything else does not -/
theorem dropWhile_stop_ge {S : Type} (a : Int) : ∀ (t : List (Entry S)), KeySorted t →
    ∀ x ∈ t.dropWhile (fun x => x.stop < a), a ≤ x.stop
  | [], _ => by simp
  | y :: ys, h => by
    unfold KeySorted at h
    rw [List.pairwise_cons] at h
    simp only [List.dropWhile_cons]
    split
    · exact dropWhile_stop_ge a ys h.2
    · next hy =>
      intro x hx
      have hy' : a ≤ y.stop := by simpa using hy
      rcases List.mem_cons.mp hx with rfl | hx
      · exact hy'
      · have := h.1 x hx; omega

/-- The step hypothesis under which the code as it is (no `fixGap`) is right: the inserted
    interval does not span two ADJACENT entries. -/
def GapOK {S : Type} (fixGap : Bool) (a b : Int) (t : List (Entry S)) : Prop :=
  fixGap = true ∨ t.Pairwise (fun x y => a ≤ x.stop → y.start ≤ b → x.stop + 1 ≠ y.start)

/-- **The list-valued instance of the Go loop computes the clean specification.** -/
theorem insertA_eq_spec (fixGap : Bool) (t : List E) (a b v : Int) (hab : a ≤ b) (hinv : Inv t)
    (hne : ∀ x ∈ t, x.val ≠ []) (hg : GapOK fixGap a b t) :
    (insertG listOps fixGap t () a b v).1 = insSpec b v a t := by
  have hks := hinv.keySorted
  have hsplit : t.takeWhile (fun x => x.stop < a) ++ t.dropWhile (fun x => x.stop < a) = t :=
    List.takeWhile_append_dropWhile
  generalize hpre : t.takeWhile (fun x => decide (x.stop < a)) = pre at hsplit
  generalize hsuf : t.dropWhile (fun x => decide (x.stop < a)) = suf at hsplit
  have hpre_lt : ∀ x ∈ pre, x.stop < a := by
    intro x hx; rw [← hpre] at hx
    simpa using mem_takeWhile_prop _ t x hx
  have hsuf_ge : ∀ x ∈ suf, a ≤ x.stop := by
    rw [← hsuf]; exact dropWhile_stop_ge a t hks
  have hinv_suf : Inv suf := by
    rw [← hsplit] at hinv
    exact ⟨(List.pairwise_append.mp hinv.1).2.1, fun x hx => hinv.2 x (List.mem_append_right _ hx)⟩
  have hpreL : PreL fixGap a b none suf := by
    refine ⟨fun x hx => hsuf_ge x hx, ?_⟩
    rcases hg with hg | hg
    · exact Or.inl hg
    · right
      rw [← hsplit] at hg
      have := (List.pairwise_append.mp hg).2.1
      exact this.imp_of_mem (fun {x y} hx _ hxy => hxy (hsuf_ge x hx))
  have hmem := loopA_mem fixGap a b v hab suf ⟨(), [], none⟩ hinv_suf hpreL
  have hout : insSpec b v a t = pre ++ insSpec b v a suf := by
    rw [← hsplit]; exact insSpec_pre b v a hab pre suf hpre_lt
  -- the final tree
  have hfinal : (insertG listOps fixGap t () a b v).1 =
      ((loop listOps fixGap a b v suf ⟨(), [], none⟩).2.pend ++
        fin a b v (loop listOps fixGap a b v suf ⟨(), [], none⟩).2.prev).foldl treeSet
        (pre ++ (loop listOps fixGap a b v suf ⟨(), [], none⟩).1) := by
    simp only [insertG, hpre, hsuf, finalGap_list]
  rw [hfinal, hout]
  apply foldl_treeSet_eq
  · rw [← hout]
    exact (insSpec_inv b v t a hinv hne).keySorted
  · apply keySorted_of_map_stop _ t _ hks
    rw [List.map_append, loop_stops, ← List.map_append, hsplit]
  · intro y
    have := hmem y
    simp only [loOf, List.not_mem_nil, false_or] at this
    simp only [List.mem_append]
    rw [← this]
    grind

/-! ### histories: the list-valued model matches the naive reference -/

abbrev Hist := List (Int × Int × Int)

/-- values of the inserted intervals containing `p`, in insertion order -/
def naive (h : Hist) (p : Int) : List Int :=
  (h.filter (fun i => decide (i.1 ≤ p) && decide (p ≤ i.2.1))).map (fun i => i.2.2)

/-- `[a, b]` is disjoint from every inserted interval -/
def naiveDisjoint (h : Hist) (a b : Int) : Bool :=
  h.all (fun i => decide (i.2.1 < a) || decide (b < i.1))

def ValidHist (h : Hist) : Prop := ∀ i ∈ h, i.1 ≤ i.2.1

theorem naive_append (h : Hist) (a b v p : Int) :
    naive (h ++ [(a, b, v)]) p = naive h p ++ (if a ≤ p ∧ p ≤ b then [v] else []) := by
  simp only [naive, List.filter_append, List.map_append, List.filter_cons, List.filter_nil]
  by_cases c : a ≤ p ∧ p ≤ b
  · simp [c]
  · have : (decide (a ≤ p) && decide (p ≤ b)) = false := by simpa using c
    simp [this, c]

/-- the abstract tree represents the history -/
def Good (h : Hist) (t : List E) : Prop :=
  Inv t ∧ (∀ x ∈ t, x.val ≠ []) ∧ ∀ p, sem t p = naive h p

theorem sem_ne_nil_iff (t : List E) (hne : ∀ x ∈ t, x.val ≠ []) (p : Int) :
    sem t p ≠ [] ↔ ∃ x ∈ t, x.start ≤ p ∧ p ≤ x.stop := by
  induction t with
  | nil => simp [sem]
  | cons x xs ih =>
    have ih' := ih (fun y hy => hne y (List.mem_cons_of_mem _ hy))
    simp only [sem]
    split
    · next hc =>
      constructor
      · intro _; exact ⟨x, List.mem_cons_self, hc⟩
      · intro _; exact hne x List.mem_cons_self
    · next hc =>
      rw [ih']
      constructor
      · rintro ⟨y, hy, h⟩; exact ⟨y, List.mem_cons_of_mem _ hy, h⟩
      · rintro ⟨y, hy, h⟩
        rcases List.mem_cons.mp hy with rfl | hy
        · exact absurd h hc
        · exact ⟨y, hy, h⟩

theorem naive_ne_nil_iff (h : Hist) (p : Int) :
    naive h p ≠ [] ↔ ∃ i ∈ h, i.1 ≤ p ∧ p ≤ i.2.1 := by
  simp only [naive, ne_eq, List.map_eq_nil_iff, List.filter_eq_nil_iff]
  simp

/-- no entry meets `[a, b]` iff no inserted interval does -/
theorem disjoint_iff (h : Hist) (t : List E) (hg : Good h t) (hv : ValidHist h) (a b : Int) (hab : a ≤ b) :
    (∀ x ∈ t, x.stop < a ∨ b < x.start) ↔ naiveDisjoint h a b = true := by
  obtain ⟨hinv, hne, hsem⟩ := hg
  simp only [naiveDisjoint, List.all_eq_true, Bool.or_eq_true, decide_eq_true_eq]
  constructor
  · intro hx i hi
    have hiv := hv i hi
    false_or_by_contra
    rename_i hc
    have hp : naive h (max a i.1) ≠ [] :=
      (naive_ne_nil_iff h _).mpr ⟨i, hi, by omega, by omega⟩
    rw [← hsem] at hp
    obtain ⟨x, hxt, hx1, hx2⟩ := (sem_ne_nil_iff t hne _).mp hp
    have := hx x hxt
    omega
  · intro hi x hx
    have hxw := hinv.2 x hx
    false_or_by_contra
    rename_i hc
    have hp : sem t (max a x.start) ≠ [] :=
      (sem_ne_nil_iff t hne _).mpr ⟨x, hx, by omega, by omega⟩
    rw [hsem] at hp
    obtain ⟨i, hit, hi1, hi2⟩ := (naive_ne_nil_iff h _).mp hp
    have := hi i hit
    omega

theorem body_prev {H S : Type} (ops : Ops H S) (fixGap : Bool) (a b v : Int) (x : Entry S)
    (st : LoopSt H S) : (body ops fixGap a b v x st).2.prev = some (if (decide (x.start ≤ b) && decide (b ≤ x.stop) && decide (b < x.stop)) = true then b else x.stop) := by
  simp only [body]

theorem loop_prev_some {H S : Type} (ops : Ops H S) (fixGap : Bool) (a b v : Int) :
    ∀ (xs : List (Entry S)) (st : LoopSt H S), st.prev.isSome = true →
      (loop ops fixGap a b v xs st).2.prev.isSome = true
  | [], st, h => by simpa [loop] using h
  | x :: xs, st, h => by
    simp only [loop]
    split
    · exact h
    · exact loop_prev_some ops fixGap a b v xs _ (by rw [body_prev]; rfl)

/-- `disjoint` is returned iff the first entry at or after `Seek(a)` starts after `b` -/
theorem loop_prev_none {H S : Type} (ops : Ops H S) (fixGap : Bool) (a b v : Int)
    (xs : List (Entry S)) (st : LoopSt H S) (h : st.prev = none) :
    (loop ops fixGap a b v xs st).2.prev.isNone = true ↔ ∀ x ∈ xs.head?, b < x.start := by
  cases xs with
  | nil => simp [loop, h]
  | cons x xs =>
    simp only [loop, List.head?_cons, Option.mem_def, Option.some.injEq, forall_eq']
    split
    · next hb => simp [h, hb]
    · next hb =>
      have := loop_prev_some ops fixGap a b v xs (body ops fixGap a b v x st).2 (by rw [body_prev]; rfl)
      constructor
      · intro hn
        rw [Option.isNone_iff_eq_none] at hn
        rw [hn] at this
        cases this
      · intro h'; exact absurd h' hb

theorem flag_iff {H S : Type} (ops : Ops H S) (fixGap : Bool) (t : List (Entry S)) (h : H)
    (a b v : Int) (hinv : Inv t) :
    (insertG ops fixGap t h a b v).2.2 = true ↔ ∀ x ∈ t, x.stop < a ∨ b < x.start := by
  have hks := hinv.keySorted
  simp only [insertG]
  rw [loop_prev_none ops fixGap a b v _ _ rfl]
  have hsplit : t.takeWhile (fun x => x.stop < a) ++ t.dropWhile (fun x => x.stop < a) = t :=
    List.takeWhile_append_dropWhile
  generalize hpre : t.takeWhile (fun x => decide (x.stop < a)) = pre at hsplit
  generalize hsuf : t.dropWhile (fun x => decide (x.stop < a)) = suf at hsplit
  have hpre_lt : ∀ x ∈ pre, x.stop < a := by
    intro x hx; rw [← hpre] at hx
    simpa using mem_takeWhile_prop _ t x hx
  have hsuf_ge : ∀ x ∈ suf, a ≤ x.stop := by
    rw [← hsuf]; exact dropWhile_stop_ge a t hks
  have hinv_suf : Inv suf := by
    rw [← hsplit] at hinv
    exact ⟨(List.pairwise_append.mp hinv.1).2.1, fun x hx => hinv.2 x (List.mem_append_right _ hx)⟩
  rw [← hsplit]
  constructor
  · intro hh x hx
    rcases List.mem_append.mp hx with hx | hx
    · exact Or.inl (hpre_lt x hx)
    · right
      cases suf with
      | nil => cases hx
      | cons y ys =>
        have hy : b < y.start := hh y (by simp)
        rcases List.mem_cons.mp hx with rfl | hx
        · exact hy
        · have h1 := (List.pairwise_cons.mp hinv_suf.1).1 x hx
          have h2 := hinv_suf.2 y List.mem_cons_self
          unfold Lt at h1; omega
  · intro hh x hx
    cases suf with
    | nil => simp at hx
    | cons y ys =>
      simp only [List.head?_cons, Option.mem_def, Option.some.injEq] at hx
      rw [← hx]
      have h1 := hh y (List.mem_append_right _ List.mem_cons_self)
      have h2 := hsuf_ge y List.mem_cons_self
      omega

/-- **One `Insert` on the list-valued model**: the history invariant is preserved and the
    `disjoint` flag is right. -/
theorem stepA (fixGap : Bool) (h : Hist) (t : List E) (a b v : Int) (hab : a ≤ b)
    (hg : Good h t) (hv : ValidHist h) (hgap : GapOK fixGap a b t) :
    Good (h ++ [(a, b, v)]) (insertG listOps fixGap t () a b v).1 ∧
    (insertG listOps fixGap t () a b v).2.2 = naiveDisjoint h a b := by
  obtain ⟨hinv, hne, hsem⟩ := hg
  refine ⟨?_, ?_⟩
  · rw [insertA_eq_spec fixGap t a b v hab hinv hne hgap]
    refine ⟨insSpec_inv b v t a hinv hne, fun y hy => (insSpec_mem b v t a hinv hne y hy).2.1, ?_⟩
    intro p
    rw [sem_insSpec b v p t a hinv, naive_append, hsem]
  · have h1 := flag_iff listOps fixGap t () a b v hinv
    have h2 := disjoint_iff h t ⟨hinv, hne, hsem⟩ hv a b hab
    cases hf : (insertG listOps fixGap t () a b v).2.2 <;> cases hd : naiveDisjoint h a b <;> simp_all

end PCV.Interval
