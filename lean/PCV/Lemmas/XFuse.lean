/-
The bracket stack machine (`fuseStep` / `fuseGo` / `fuseBraces`): every bracket token ends up in a
fused pair or in an `errtoken.Unmatched` diagnostic (as the offending delimiter, the mismatching
closer or the closer it should have matched), or stays on the stack (then it is reported as
unclosed and fused with an empty closer).
-/
import PCV.Lemmas.TokenStream
namespace PCV.TokenStream

def Paired (acc : FAcc) (t : BItem) : Prop := ∃ p ∈ acc.pairs, p.1 = t ∨ p.2 = t
def Reported (acc : FAcc) (t : BItem) : Prop :=
  ∃ u ∈ acc.unms, u.1 = t ∨ ((u.2.1 = some t ∨ u.2.2 = some t) ∧ isOpenB u.1 = true)
def Handled (acc : FAcc) (t : BItem) : Prop := Paired acc t ∨ Reported acc t

/-- the opener is the opening bracket of the closer's kind, and the closer is a closing bracket -/
def GoodPair (p : BItem × BItem) : Prop :=
  p.1.kw = openOf p.2.kw ∧ isOpenB p.1 = true ∧ isOpenB p.2 = false

def AccLe (a b : FAcc) : Prop := (∀ p ∈ a.pairs, p ∈ b.pairs) ∧ (∀ u ∈ a.unms, u ∈ b.unms)

theorem AccLe.refl (a : FAcc) : AccLe a a := ⟨fun _ h => h, fun _ h => h⟩
theorem AccLe.trans {a b c : FAcc} (h1 : AccLe a b) (h2 : AccLe b c) : AccLe a c :=
  ⟨fun p h => h2.1 p (h1.1 p h), fun u h => h2.2 u (h1.2 u h)⟩

theorem accLe_pair (a : FAcc) (o c : BItem) : AccLe a (a.pair o c) :=
  ⟨fun p h => by simp [FAcc.pair, h], fun u h => by simp [FAcc.pair, h]⟩
theorem accLe_unm (a : FAcc) (t : BItem) (m s : Option BItem) : AccLe a (a.unm t m s) :=
  ⟨fun p h => by simp [FAcc.unm, h], fun u h => by simp [FAcc.unm, h]⟩

theorem Handled.mono {a b : FAcc} (h : AccLe a b) {t : BItem} (ht : Handled a t) : Handled b t := by
  rcases ht with ⟨p, hp, hpt⟩ | ⟨u, hu, hut⟩
  · exact Or.inl ⟨p, h.1 p hp, hpt⟩
  · exact Or.inr ⟨u, h.2 u hu, hut⟩

theorem paired_left (a : FAcc) (o c : BItem) : Handled (a.pair o c) o :=
  Or.inl ⟨(o, c), by simp [FAcc.pair], Or.inl rfl⟩
theorem paired_right (a : FAcc) (o c : BItem) : Handled (a.pair o c) c :=
  Or.inl ⟨(o, c), by simp [FAcc.pair], Or.inr rfl⟩
theorem reported_main (a : FAcc) (t : BItem) (m s : Option BItem) : Handled (a.unm t m s) t :=
  Or.inr ⟨(t, m, s), by simp [FAcc.unm], Or.inl rfl⟩
theorem reported_m (a : FAcc) (t x : BItem) (s : Option BItem) (ho : isOpenB t = true) :
    Handled (a.unm t (some x) s) x :=
  Or.inr ⟨(t, some x, s), by simp [FAcc.unm], Or.inr ⟨Or.inl rfl, ho⟩⟩
theorem reported_s (a : FAcc) (t x : BItem) (m : Option BItem) (ho : isOpenB t = true) :
    Handled (a.unm t m (some x)) x :=
  Or.inr ⟨(t, m, some x), by simp [FAcc.unm], Or.inr ⟨Or.inr rfl, ho⟩⟩

/-- the pairs of `b` that are not in `a` are good -/
def NewGood (a b : FAcc) : Prop := ∀ p ∈ b.pairs, p ∈ a.pairs ∨ GoodPair p

theorem NewGood.refl (a : FAcc) : NewGood a a := fun _ h => Or.inl h
theorem NewGood.trans {a b c : FAcc} (h1 : NewGood a b) (h2 : NewGood b c) : NewGood a c := by
  intro p hp
  rcases h2 p hp with h | h
  · exact h1 p h
  · exact Or.inr h

structure StepSpec (t2 : BItem) (t3? : Option BItem) (opens : List BItem) (acc : FAcc)
    (r : List BItem × FAcc × Bool) : Prop where
  le : AccLe acc r.2.1
  opens : ∀ o ∈ opens, o ∈ r.1 ∨ Handled r.2.1 o
  cur : t2 ∈ r.1 ∨ Handled r.2.1 t2
  skip : r.2.2 = true → ∃ t3, t3? = some t3 ∧ Handled r.2.1 t3
  allOpen : ∀ o ∈ r.1, isOpenB o = true
  good : NewGood acc r.2.1

theorem isOpenB_of_eq {t1 t2 : BItem} (h : (t1.kw == openOf t2.kw) = true)
    (hb : openOf (openOf t2.kw) = openOf t2.kw) : isOpenB t1 = true := by
  simp only [beq_iff_eq] at h
  simp only [isOpenB, beq_iff_eq, h, hb]

theorem openOf_idem (k : Nat) : openOf (openOf k) = openOf k := by
  unfold openOf brackets
  repeat' split
  all_goals simp_all

theorem fuseStep_spec (t2 : BItem) (t3? : Option BItem) (opens : List BItem) (acc : FAcc)
    (hopen : ∀ o ∈ opens, isOpenB o = true) : StepSpec t2 t3? opens acc (fuseStep t2 t3? opens acc) := by
  unfold fuseStep
  split
  · next ho =>
    exact ⟨AccLe.refl _, fun o h => Or.inl (by simp [h]), Or.inl (by simp), by simp,
      fun o h => by
        simp only [List.mem_cons] at h
        rcases h with rfl | h
        · exact ho
        · exact hopen o h, NewGood.refl _⟩
  · next hcl =>
    have hcl' : isOpenB t2 = false := by simpa using hcl
    split
    · exact ⟨accLe_unm _ _ _ _, by simp, Or.inr (reported_main _ _ _ _), by simp, by simp,
        fun p hp => Or.inl (by simpa [FAcc.unm] using hp)⟩
    · next t1 os =>
      have ho1 : isOpenB t1 = true := hopen t1 (by simp)
      have hos : ∀ o ∈ os, isOpenB o = true := fun o h => hopen o (by simp [h])
      split
      · next hm =>
        -- common case
        refine ⟨accLe_pair _ _ _, ?_, Or.inr (paired_right _ _ _), by simp, hos, ?_⟩
        · intro o h
          simp only [List.mem_cons] at h
          rcases h with rfl | h
          · exact Or.inr (paired_left _ _ _)
          · exact Or.inl h
        · intro p hp
          simp only [FAcc.pair, List.mem_cons] at hp
          rcases hp with rfl | hp
          · exact Or.inr ⟨by simpa using hm, ho1, hcl'⟩
          · exact Or.inl hp
      · next hnm =>
        split
        · next t0 os' t3 =>
          have ho0 : isOpenB t0 = true := hos t0 (by simp)
          simp only
          split
          · next hb =>
            -- leftMatch && rightMatch
            simp only [Bool.and_eq_true] at hb
            refine ⟨AccLe.trans (accLe_unm _ _ _ _) (accLe_pair _ _ _), ?_,
              Or.inr (paired_right _ _ _), ?_, fun o h => hos o (by simp [h]), ?_⟩
            · intro o h
              simp only [List.mem_cons] at h
              rcases h with rfl | rfl | h
              · exact Or.inr (Handled.mono (accLe_pair _ _ _) (reported_main _ _ _ _))
              · exact Or.inr (paired_left _ _ _)
              · exact Or.inl h
            · intro _
              exact ⟨t3, rfl, Handled.mono (accLe_pair _ _ _) (reported_s _ _ _ _ ho1)⟩
            · intro p hp
              simp only [FAcc.pair, FAcc.unm, List.mem_cons] at hp
              rcases hp with rfl | hp
              · exact Or.inr ⟨by simpa using hb.1, ho0, hcl'⟩
              · exact Or.inl hp
          · split
            · next hl =>
              -- leftMatch only
              refine ⟨AccLe.trans (accLe_unm _ _ _ _) (accLe_pair _ _ _), ?_,
                Or.inr (paired_right _ _ _), by simp, fun o h => hos o (by simp [h]), ?_⟩
              · intro o h
                simp only [List.mem_cons] at h
                rcases h with rfl | rfl | h
                · exact Or.inr (Handled.mono (accLe_pair _ _ _) (reported_main _ _ _ _))
                · exact Or.inr (paired_left _ _ _)
                · exact Or.inl h
              · intro p hp
                simp only [FAcc.pair, FAcc.unm, List.mem_cons] at hp
                rcases hp with rfl | hp
                · exact Or.inr ⟨by simpa using hl, ho0, hcl'⟩
                · exact Or.inl hp
            · split
              · next hr =>
                -- rightMatch only
                simp only [Bool.and_eq_true, bne_iff_ne, ne_eq, beq_iff_eq] at hr
                refine ⟨AccLe.trans (accLe_unm _ _ _ _) (accLe_pair _ _ _), ?_,
                  Or.inr (Handled.mono (accLe_pair _ _ _) (reported_m _ _ _ _ ho1)), ?_, hos, ?_⟩
                · intro o h
                  rcases List.mem_cons.mp h with rfl | h
                  · exact Or.inr (paired_left _ _ _)
                  · exact Or.inl h
                · intro _
                  exact ⟨t3, rfl, paired_right _ _ _⟩
                · intro p hp
                  simp only [FAcc.pair, FAcc.unm, List.mem_cons] at hp
                  rcases hp with rfl | hp
                  · refine Or.inr ⟨hr.2, ho1, ?_⟩
                    simp only [isOpenB, beq_eq_false_iff_ne, ne_eq]
                    exact hr.1
                  · exact Or.inl hp
              · exact ⟨accLe_unm _ _ _ _, fun o h => Or.inl h, Or.inr (reported_main _ _ _ _), by simp,
                  hopen, fun p hp => Or.inl (by simpa [FAcc.unm] using hp)⟩
        · next t0 os' =>
          have ho0 : isOpenB t0 = true := hos t0 (by simp)
          split
          · next hl =>
            refine ⟨AccLe.trans (accLe_unm _ _ _ _) (accLe_pair _ _ _), ?_,
              Or.inr (paired_right _ _ _), by simp, fun o h => hos o (by simp [h]), ?_⟩
            · intro o h
              simp only [List.mem_cons] at h
              rcases h with rfl | rfl | h
              · exact Or.inr (Handled.mono (accLe_pair _ _ _) (reported_main _ _ _ _))
              · exact Or.inr (paired_left _ _ _)
              · exact Or.inl h
            · intro p hp
              simp only [FAcc.pair, FAcc.unm, List.mem_cons] at hp
              rcases hp with rfl | hp
              · exact Or.inr ⟨by simpa using hl, ho0, hcl'⟩
              · exact Or.inl hp
          · exact ⟨accLe_unm _ _ _ _, fun o h => Or.inl h, Or.inr (reported_main _ _ _ _), by simp,
              hopen, fun p hp => Or.inl (by simpa [FAcc.unm] using hp)⟩
        · next t3 =>
          split
          · next hr =>
            simp only [Bool.and_eq_true, bne_iff_ne, ne_eq, beq_iff_eq] at hr
            refine ⟨AccLe.trans (accLe_unm _ _ _ _) (accLe_pair _ _ _), ?_,
              Or.inr (Handled.mono (accLe_pair _ _ _) (reported_m _ _ _ _ ho1)), ?_, hos, ?_⟩
            · intro o h
              simp only [List.mem_cons] at h
              rcases h with rfl | h
              · exact Or.inr (paired_left _ _ _)
              · exact Or.inl h
            · intro _
              exact ⟨t3, rfl, paired_right _ _ _⟩
            · intro p hp
              simp only [FAcc.pair, FAcc.unm, List.mem_cons] at hp
              rcases hp with rfl | hp
              · refine Or.inr ⟨hr.2, ho1, ?_⟩
                simp only [isOpenB, beq_eq_false_iff_ne, ne_eq]
                exact hr.1
              · exact Or.inl hp
          · exact ⟨accLe_unm _ _ _ _, fun o h => Or.inl h, Or.inr (reported_main _ _ _ _), by simp,
              hopen, fun p hp => Or.inl (by simpa [FAcc.unm] using hp)⟩
        · exact ⟨accLe_unm _ _ _ _, fun o h => Or.inl h, Or.inr (reported_main _ _ _ _), by simp,
            hopen, fun p hp => Or.inl (by simpa [FAcc.unm] using hp)⟩

structure GoSpec (l opens : List BItem) (acc : FAcc) (skip : Bool) (r : FAcc × List BItem) : Prop where
  le : AccLe acc r.1
  items : ∀ t ∈ l, t ∈ r.2 ∨ Handled r.1 t
  opens : ∀ o ∈ opens, o ∈ r.2 ∨ Handled r.1 o
  allOpen : ∀ o ∈ r.2, isOpenB o = true
  good : NewGood acc r.1

theorem fuseGo_spec (l opens : List BItem) (acc : FAcc) (skip : Bool)
    (hopen : ∀ o ∈ opens, isOpenB o = true)
    (hskip : skip = true → ∃ t rest, l = t :: rest ∧ Handled acc t) :
    GoSpec l opens acc skip (fuseGo l opens acc skip) := by
  induction l generalizing opens acc skip with
  | nil =>
    simp only [fuseGo]
    exact ⟨AccLe.refl _, by simp, fun o h => Or.inl h, hopen, NewGood.refl _⟩
  | cons t2 rest ih =>
    simp only [fuseGo]
    split
    · next hs =>
      obtain ⟨t, rest', hl, ht⟩ := hskip hs
      simp only [List.cons.injEq] at hl
      obtain ⟨rfl, rfl⟩ := hl
      have := ih opens acc false hopen (by simp)
      refine ⟨this.le, ?_, this.opens, this.allOpen, this.good⟩
      intro t hm
      simp only [List.mem_cons] at hm
      rcases hm with rfl | hm
      · exact Or.inr (Handled.mono this.le ht)
      · exact this.items t hm
    · have hst := fuseStep_spec t2 rest.head? opens acc hopen
      have := ih (fuseStep t2 rest.head? opens acc).1 (fuseStep t2 rest.head? opens acc).2.1
        (fuseStep t2 rest.head? opens acc).2.2 hst.allOpen (by
          intro hs
          obtain ⟨t3, h3, hh⟩ := hst.skip hs
          cases rest with
          | nil => simp at h3
          | cons x xs =>
            simp only [List.head?_cons, Option.some.injEq] at h3
            subst h3
            exact ⟨x, xs, rfl, hh⟩)
      refine ⟨AccLe.trans hst.le this.le, ?_, ?_, this.allOpen, NewGood.trans hst.good this.good⟩
      · intro t hm
        simp only [List.mem_cons] at hm
        rcases hm with rfl | hm
        · rcases hst.cur with h | h
          · exact this.opens _ h
          · exact Or.inr (Handled.mono this.le h)
        · exact this.items t hm
      · intro o ho
        rcases hst.opens o ho with h | h
        · exact this.opens _ h
        · exact Or.inr (Handled.mono this.le h)

/-! ### `fuseBraces` on the lexer state -/

theorem push_diags_mem (n : Nat) (s : LS) (len kind kw : Nat) (d : Diag) (h : d ∈ s.diags) :
    d ∈ (push n s len kind kw).diags := by
  unfold push flush rawPush
  repeat' split
  all_goals simp [h]

theorem closeOpens_spec (n : Nat) (opens : List BItem) (s : LS) (ps : List (Nat × Nat)) :
    (∀ d ∈ s.diags, d ∈ (closeOpens n opens s ps).1.diags) ∧
    (∀ p ∈ ps, p ∈ (closeOpens n opens s ps).2) ∧
    (∀ o ∈ opens, ∃ p ∈ (closeOpens n opens s ps).2, p.1 = o.id) := by
  induction opens generalizing s ps with
  | nil => simp [closeOpens]
  | cons o os ih =>
    simp only [closeOpens]
    have := ih (push n s 0 kUnrecognized 0) (ps ++ [(o.id, (push n s 0 kUnrecognized 0).toks.length)])
    refine ⟨fun d hd => this.1 d (push_diags_mem n s _ _ _ d hd),
      fun p hp => this.2.1 p (by simp [hp]), ?_⟩
    intro x hx
    simp only [List.mem_cons] at hx
    rcases hx with rfl | hx
    · exact ⟨(x.id, (push n s 0 kUnrecognized 0).toks.length), this.2.1 _ (by simp), rfl⟩
    · exact this.2.2 x hx

/-! ### ids: no token is fused twice -/

def usedIds (acc : FAcc) : List Nat := acc.pairs.flatMap (fun p => [p.1.id, p.2.id])

@[simp] theorem usedIds_pair (acc : FAcc) (o c : BItem) :
    usedIds (acc.pair o c) = o.id :: c.id :: usedIds acc := by
  simp [usedIds, FAcc.pair]

@[simp] theorem usedIds_unm (acc : FAcc) (t : BItem) (m s : Option BItem) :
    usedIds (acc.unm t m s) = usedIds acc := by
  simp [usedIds, FAcc.unm]

@[simp] theorem pairs_unm (acc : FAcc) (t : BItem) (m s : Option BItem) :
    (acc.unm t m s).pairs = acc.pairs := rfl

@[simp] theorem pairs_pair (acc : FAcc) (o c : BItem) : (acc.pair o c).pairs = (o, c) :: acc.pairs := rfl

/-- ids used in pairs are distinct, below `m`, disjoint from the (strictly sorted) stack -/
structure IdSt (m : Nat) (opens : List BItem) (acc : FAcc) : Prop where
  nd : (usedIds acc).Nodup
  srt : opens.Pairwise (fun a b => b.id < a.id)
  dj : ∀ x ∈ usedIds acc, ∀ o ∈ opens, x ≠ o.id
  ord : ∀ p ∈ acc.pairs, p.1.id < p.2.id
  bu : ∀ x ∈ usedIds acc, x ≤ m
  bo : ∀ o ∈ opens, o.id ≤ m

/-- where the new pairs and stack entries of a step come from -/
structure StepSrc (t2 : BItem) (t3? : Option BItem) (opens : List BItem) (acc : FAcc)
    (r : List BItem × FAcc × Bool) : Prop where
  pairs : ∀ p ∈ r.2.1.pairs, p ∈ acc.pairs ∨ (p.1 ∈ opens ∧ (p.2 = t2 ∨ t3? = some p.2))
  opens : ∀ o ∈ r.1, o ∈ opens ∨ o = t2
  skip : r.2.2 = true → ∃ t3, t3? = some t3

theorem idSt_unm {m : Nat} {opens : List BItem} {acc : FAcc} (h : IdSt m opens acc)
    (t : BItem) (a b : Option BItem) : IdSt m opens (acc.unm t a b) :=
  ⟨by simpa using h.nd, h.srt, by simpa using h.dj, by simpa using h.ord, by simpa using h.bu, h.bo⟩

theorem idSt_mono {m m' : Nat} {opens : List BItem} {acc : FAcc} (h : IdSt m opens acc) (hm : m ≤ m') :
    IdSt m' opens acc :=
  ⟨h.nd, h.srt, h.dj, h.ord, fun x hx => Nat.le_trans (h.bu x hx) hm, fun o ho => Nat.le_trans (h.bo o ho) hm⟩

/-- pair the top of the stack with a fresh closer `c` -/
theorem idSt_pair_top {m : Nat} {t1 : BItem} {os : List BItem} {acc : FAcc}
    (h : IdSt m (t1 :: os) acc) (c : BItem) (hc : m < c.id) : IdSt c.id os (acc.pair t1 c) := by
  have ht1 : t1.id ≤ m := h.bo t1 (by simp)
  have hsrt := h.srt
  simp only [List.pairwise_cons] at hsrt
  refine ⟨?_, hsrt.2, ?_, ?_, ?_, ?_⟩
  · simp only [usedIds_pair, List.nodup_cons, List.mem_cons, not_or]
    refine ⟨⟨by omega, fun hm => h.dj _ hm t1 (by simp) rfl⟩, fun hm => ?_, h.nd⟩
    have := h.bu _ hm; omega
  · intro x hx o ho
    simp only [usedIds_pair, List.mem_cons] at hx
    rcases hx with rfl | rfl | hx
    · have := hsrt.1 o ho; omega
    · have := h.bo o (by simp [ho]); omega
    · exact h.dj x hx o (by simp [ho])
  · intro p hp
    simp only [pairs_pair, List.mem_cons] at hp
    rcases hp with rfl | hp
    · simp only; omega
    · exact h.ord p hp
  · intro x hx
    simp only [usedIds_pair, List.mem_cons] at hx
    rcases hx with rfl | rfl | hx
    · omega
    · omega
    · have := h.bu x hx; omega
  · intro o ho
    have := h.bo o (by simp [ho]); omega

/-- drop the top of the stack (it stays unfused) -/
theorem idSt_drop_top {m : Nat} {t1 : BItem} {os : List BItem} {acc : FAcc}
    (h : IdSt m (t1 :: os) acc) : IdSt m os acc := by
  have hsrt := h.srt
  simp only [List.pairwise_cons] at hsrt
  exact ⟨h.nd, hsrt.2, fun x hx o ho => h.dj x hx o (by simp [ho]), h.ord, h.bu,
    fun o ho => h.bo o (by simp [ho])⟩

theorem idSt_push {m : Nat} {opens : List BItem} {acc : FAcc} (h : IdSt m opens acc)
    (t : BItem) (ht : m < t.id) : IdSt t.id (t :: opens) acc := by
  refine ⟨h.nd, ?_, ?_, h.ord, fun x hx => by have := h.bu x hx; omega, ?_⟩
  · simp only [List.pairwise_cons]
    exact ⟨fun o ho => by have := h.bo o ho; omega, h.srt⟩
  · intro x hx o ho
    simp only [List.mem_cons] at ho
    rcases ho with rfl | ho
    · have := h.bu x hx; omega
    · exact h.dj x hx o ho
  · intro o ho
    simp only [List.mem_cons] at ho
    rcases ho with rfl | ho
    · omega
    · have := h.bo o ho; omega

theorem fuseStep_ids (t2 : BItem) (t3? : Option BItem) (opens : List BItem) (acc : FAcc) (m : Nat)
    (h : IdSt m opens acc) (h2 : m < t2.id) (h3 : ∀ t3, t3? = some t3 → t2.id < t3.id) :
    (∃ m', IdSt m' (fuseStep t2 t3? opens acc).1 (fuseStep t2 t3? opens acc).2.1 ∧ t2.id ≤ m' ∧
      (∀ t3, t3? = some t3 → (fuseStep t2 t3? opens acc).2.2 = true → m' = t3.id) ∧
      ((fuseStep t2 t3? opens acc).2.2 = false → m' = t2.id)) ∧
    StepSrc t2 t3? opens acc (fuseStep t2 t3? opens acc) := by
  unfold fuseStep
  split
  · exact ⟨⟨t2.id, idSt_push h t2 h2, Nat.le_refl _, by simp, by simp⟩,
      ⟨fun p hp => Or.inl hp, fun o ho => by
        simp only [List.mem_cons] at ho
        rcases ho with rfl | ho
        · exact Or.inr rfl
        · exact Or.inl ho, by simp⟩⟩
  · split
    · exact ⟨⟨t2.id, idSt_mono (idSt_unm h _ _ _) (by omega), Nat.le_refl _, by simp, by simp⟩,
        ⟨fun p hp => Or.inl (by simpa using hp), by simp, by simp⟩⟩
    · next t1 os =>
      split
      · exact ⟨⟨t2.id, idSt_pair_top h t2 h2, Nat.le_refl _, by simp, by simp⟩,
          ⟨fun p hp => by
            simp only [pairs_pair, List.mem_cons] at hp
            rcases hp with rfl | hp
            · exact Or.inr ⟨by simp, Or.inl rfl⟩
            · exact Or.inl hp, fun o ho => Or.inl (by simp [ho]), by simp⟩⟩
      · split
        · next t0 os' t3 =>
          have h3' := h3 t3 rfl
          simp only
          split
          · -- both: drop t1, pair (t0, t2), skip t3
            have hd := idSt_drop_top (idSt_unm h t1 (some t2) (some t3))
            have hp := idSt_pair_top hd t2 h2
            exact ⟨⟨t3.id, idSt_mono hp (by omega), by omega, by simp, by simp⟩,
              ⟨fun p hp => by
                simp only [pairs_pair, pairs_unm, List.mem_cons] at hp
                rcases hp with rfl | hp
                · exact Or.inr ⟨by simp, Or.inl rfl⟩
                · exact Or.inl hp, fun o ho => Or.inl (by simp [ho]), fun _ => ⟨t3, rfl⟩⟩⟩
          · split
            · -- left
              have hd := idSt_drop_top (idSt_unm h t1 none none)
              have hp := idSt_pair_top hd t2 h2
              exact ⟨⟨t2.id, hp, Nat.le_refl _, by simp, by simp⟩,
                ⟨fun p hp => by
                  simp only [pairs_pair, pairs_unm, List.mem_cons] at hp
                  rcases hp with rfl | hp
                  · exact Or.inr ⟨by simp, Or.inl rfl⟩
                  · exact Or.inl hp, fun o ho => Or.inl (by simp [ho]), by simp⟩⟩
            · split
              · -- right: pair (t1, t3), skip
                have hp := idSt_pair_top (idSt_unm h t1 (some t2) (some t3)) t3 (by omega)
                exact ⟨⟨t3.id, hp, by omega, by simp, by simp⟩,
                  ⟨fun p hp => by
                    simp only [pairs_pair, pairs_unm, List.mem_cons] at hp
                    rcases hp with rfl | hp
                    · exact Or.inr ⟨by simp, Or.inr rfl⟩
                    · exact Or.inl hp, fun o ho => Or.inl (by simp [ho]), fun _ => ⟨t3, rfl⟩⟩⟩
              · exact ⟨⟨t2.id, idSt_mono (idSt_unm h _ _ _) (by omega), Nat.le_refl _, by simp, by simp⟩,
                  ⟨fun p hp => Or.inl (by simpa using hp), fun o ho => Or.inl ho, by simp⟩⟩
        · next t0 os' =>
          split
          · have hd := idSt_drop_top (idSt_unm h t1 none none)
            have hp := idSt_pair_top hd t2 h2
            exact ⟨⟨t2.id, hp, Nat.le_refl _, by simp, by simp⟩,
              ⟨fun p hp => by
                simp only [pairs_pair, pairs_unm, List.mem_cons] at hp
                rcases hp with rfl | hp
                · exact Or.inr ⟨by simp, Or.inl rfl⟩
                · exact Or.inl hp, fun o ho => Or.inl (by simp [ho]), by simp⟩⟩
          · exact ⟨⟨t2.id, idSt_mono (idSt_unm h _ _ _) (by omega), Nat.le_refl _, by simp, by simp⟩,
              ⟨fun p hp => Or.inl (by simpa using hp), fun o ho => Or.inl ho, by simp⟩⟩
        · next t3 =>
          have h3' := h3 t3 rfl
          split
          · have hp := idSt_pair_top (idSt_unm h t1 (some t2) (some t3)) t3 (by omega)
            exact ⟨⟨t3.id, hp, by omega, by simp, by simp⟩,
              ⟨fun p hp => by
                simp only [pairs_pair, pairs_unm, List.mem_cons] at hp
                rcases hp with rfl | hp
                · exact Or.inr ⟨by simp, Or.inr rfl⟩
                · exact Or.inl hp, fun o ho => Or.inl (by simp [ho]), fun _ => ⟨t3, rfl⟩⟩⟩
          · exact ⟨⟨t2.id, idSt_mono (idSt_unm h _ _ _) (by omega), Nat.le_refl _, by simp, by simp⟩,
              ⟨fun p hp => Or.inl (by simpa using hp), fun o ho => Or.inl ho, by simp⟩⟩
        · exact ⟨⟨t2.id, idSt_mono (idSt_unm h _ _ _) (by omega), Nat.le_refl _, by simp, by simp⟩,
            ⟨fun p hp => Or.inl (by simpa using hp), fun o ho => Or.inl ho, by simp⟩⟩

theorem fuseGo_ids (l opens : List BItem) (acc : FAcc) (skip : Bool) (m : Nat)
    (hS : l.Pairwise (fun a b => a.id < b.id)) (h : IdSt m opens acc)
    (hm : ∀ t ∈ (if skip then l.tail else l), m < t.id) :
    (∃ m', IdSt m' (fuseGo l opens acc skip).2 (fuseGo l opens acc skip).1) ∧
    (∀ p ∈ (fuseGo l opens acc skip).1.pairs,
        p ∈ acc.pairs ∨ ((p.1 ∈ opens ∨ p.1 ∈ l) ∧ p.2 ∈ l)) ∧
    (∀ o ∈ (fuseGo l opens acc skip).2, o ∈ opens ∨ o ∈ l) := by
  induction l generalizing opens acc skip m with
  | nil =>
    simp only [fuseGo]
    exact ⟨⟨m, h⟩, fun p hp => Or.inl hp, fun o ho => Or.inl ho⟩
  | cons t2 rest ih =>
    simp only [List.pairwise_cons] at hS
    simp only [fuseGo]
    split
    · next hs =>
      subst hs
      have := ih opens acc false m hS.2 h (by simpa using hm)
      refine ⟨this.1, fun p hp => ?_, fun o ho => ?_⟩
      · rcases this.2.1 p hp with h1 | ⟨h1, h2⟩
        · exact Or.inl h1
        · refine Or.inr ⟨?_, by simp [h2]⟩
          rcases h1 with h1 | h1
          · exact Or.inl h1
          · exact Or.inr (by simp [h1])
      · rcases this.2.2 o ho with h1 | h1
        · exact Or.inl h1
        · exact Or.inr (by simp [h1])
    · next hs =>
      have hs' : skip = false := by simpa using hs
      subst hs'
      have hm2 : m < t2.id := hm t2 (by simp)
      have h3 : ∀ t3, rest.head? = some t3 → t2.id < t3.id := by
        intro t3 ht3
        cases rest with
        | nil => simp at ht3
        | cons x xs =>
          simp only [List.head?_cons, Option.some.injEq] at ht3
          subst ht3
          exact hS.1 _ (by simp)
      obtain ⟨⟨m', hst, hle, hsk, hnsk⟩, hsrc⟩ := fuseStep_ids t2 rest.head? opens acc m h hm2 h3
      have hm' : ∀ t ∈ (if (fuseStep t2 rest.head? opens acc).2.2 then rest.tail else rest), m' < t.id := by
        intro t ht
        cases hb : (fuseStep t2 rest.head? opens acc).2.2 with
        | true =>
          rw [hb] at ht
          obtain ⟨t3, ht3⟩ := hsrc.skip hb
          have := hsk t3 ht3 hb
          cases rest with
          | nil => simp at ht3
          | cons x xs =>
            simp only [List.head?_cons, Option.some.injEq] at ht3
            subst ht3
            simp only [List.tail_cons, if_true] at ht
            have hx := hS.2
            simp only [List.pairwise_cons] at hx
            rw [this]
            exact hx.1 t ht
        | false =>
          rw [hb] at ht
          simp only [Bool.false_eq_true, if_false] at ht
          rw [hnsk hb]
          exact hS.1 t ht
      have := ih _ _ _ m' hS.2 hst hm'
      refine ⟨this.1, fun p hp => ?_, fun o ho => ?_⟩
      · rcases this.2.1 p hp with h1 | ⟨h1, h2⟩
        · rcases hsrc.pairs p h1 with h4 | ⟨h4, h5⟩
          · exact Or.inl h4
          · refine Or.inr ⟨Or.inl h4, ?_⟩
            rcases h5 with h5 | h5
            · simp [h5]
            · have : p.2 ∈ rest := by
                cases rest with
                | nil => simp at h5
                | cons x xs => simp only [List.head?_cons, Option.some.injEq] at h5; simp [h5]
              simp [this]
        · refine Or.inr ⟨?_, by simp [h2]⟩
          rcases h1 with h1 | h1
          · rcases hsrc.opens _ h1 with h4 | h4
            · exact Or.inl h4
            · exact Or.inr (by simp [h4])
          · exact Or.inr (by simp [h1])
      · rcases this.2.2 o ho with h1 | h1
        · rcases hsrc.opens _ h1 with h4 | h4
          · exact Or.inl h4
          · exact Or.inr (by simp [h4])
        · exact Or.inr (by simp [h1])

end PCV.TokenStream
