/-
Lemmas behind `PCV/Props/C32.lean` (source locations, `experimental/source/file.go`):
`goRange` and the inductive character-boundary predicate, the line index and its binary search,
the geometry of the line that contains an offset, the two search loops of `inverseLocation`,
the round trip through the raw functions, and the exact behaviour at the end of the file.
-/
import PCV.Model.SourceLoc
import PCV.Model.Utf8More
namespace PCV.SourceLoc
open PCV.Utf8

/-! ### `goRange` -/

theorem goRangeFrom_skip (bs : List UInt8) (k pos : Nat) :
    goRangeFrom bs k pos = goRangeFrom (bs.drop k) 0 (pos + k) := by
  induction bs generalizing k pos with
  | nil => simp [goRangeFrom]
  | cons b bs ih =>
    cases k with
    | zero => simp
    | succ k => simp only [goRangeFrom, List.drop_succ_cons]; rw [ih]; congr 1; omega

theorem goRangeFrom_unfold (bs : List UInt8) (pos : Nat) (h : bs ≠ []) :
    goRangeFrom bs 0 pos =
      (pos, (decodeRune bs).1) :: goRangeFrom (bs.drop (decodeRune bs).2) 0 (pos + (decodeRune bs).2) := by
  cases bs with
  | nil => contradiction
  | cons b bs =>
    have hw := decodeRune_width_pos (b :: bs) (by simp)
    simp only [goRangeFrom]
    rw [goRangeFrom_skip]
    obtain ⟨w, hw'⟩ : ∃ w, (decodeRune (b :: bs)).2 = w + 1 := ⟨(decodeRune (b :: bs)).2 - 1, by omega⟩
    rw [hw']
    simp only [List.drop_succ_cons, Nat.add_sub_cancel]
    congr 2; omega

/-! ### `IsBoundary` -/

theorem IsBoundary.inv {t : List UInt8} {o : Nat} (h : IsBoundary t o) :
    o = 0 ∨ (t ≠ [] ∧ ∃ o', o = (decodeRune t).2 + o' ∧ IsBoundary (t.drop (decodeRune t).2) o') := by
  cases h with
  | zero => exact Or.inl rfl
  | step _ o2 hne h2 => exact Or.inr ⟨hne, o2, rfl, h2⟩

theorem IsBoundary.le {t : List UInt8} {o : Nat} (h : IsBoundary t o) : o ≤ t.length := by
  induction h with
  | zero => omega
  | step t o hne _ ih =>
    have := decodeRune_width_le t
    simp only [List.length_drop] at ih; omega

theorem isBoundary_length (t : List UInt8) : IsBoundary t t.length := by
  induction hn : t.length using Nat.strongRecOn generalizing t with
  | _ n ih =>
    by_cases hne : t = []
    · subst hne; subst hn; exact IsBoundary.zero _
    · have h1 := decodeRune_width_pos t hne
      have h2 := decodeRune_width_le t
      have := ih (t.drop (decodeRune t).2).length (by simp only [List.length_drop]; omega) _ rfl
      have h3 := IsBoundary.step t _ hne this
      simp only [List.length_drop] at h3
      have : (decodeRune t).2 + (t.length - (decodeRune t).2) = n := by omega
      rw [this] at h3; exact h3

/-- The offset just after an ASCII byte (in particular after a newline) is a boundary, and so is the
    offset just before it. -/
theorem isBoundary_around_ascii (A B : List UInt8) (b : UInt8) (hb : b.toNat < 0x80) :
    IsBoundary (A ++ b :: B) A.length ∧ IsBoundary (A ++ b :: B) (A.length + 1) := by
  induction hn : A.length using Nat.strongRecOn generalizing A with
  | _ n ih =>
    by_cases hA : A = []
    · subst hA; subst hn
      refine ⟨IsBoundary.zero _, ?_⟩
      have := IsBoundary.step (b :: B) 0 (by simp) (IsBoundary.zero _)
      rw [decodeRune_ascii b hb] at this
      simpa using this
    · have hw := decodeRune_before_ascii A B b hb hA
      have hne : A ++ b :: B ≠ [] := by simp
      have hp := decodeRune_width_pos _ hne
      generalize hwd : (decodeRune (A ++ b :: B)).2 = w at hw hp
      have hd : (A ++ b :: B).drop w = A.drop w ++ b :: B := by
        rw [List.drop_append_of_le_length hw]
      have := ih (A.drop w).length (by simp only [List.length_drop]; omega) (A.drop w) rfl
      have s1 := IsBoundary.step (A ++ b :: B) (A.drop w).length hne (by rw [hwd, hd]; exact this.1)
      have s2 := IsBoundary.step (A ++ b :: B) ((A.drop w).length + 1) hne (by rw [hwd, hd]; exact this.2)
      rw [hwd] at s1 s2
      simp only [List.length_drop] at s1 s2
      have e1 : w + (A.length - w) = n := by omega
      have e2 : w + (A.length - w + 1) = n + 1 := by omega
      rw [e1] at s1; rw [e2] at s2
      exact ⟨s1, s2⟩

/-- Range over a text splits at a boundary. -/
theorem goRangeFrom_split {t : List UInt8} {o : Nat} (h : IsBoundary t o) (p : Nat) :
    goRangeFrom t 0 p = goRangeFrom (t.take o) 0 p ++ goRangeFrom (t.drop o) 0 (p + o) := by
  induction h generalizing p with
  | zero t => simp [goRangeFrom]
  | step t o hne _ ih =>
    have hw := decodeRune_width_pos t hne
    have hne' : t.take ((decodeRune t).2 + o) ≠ [] := by
      cases t with
      | nil => contradiction
      | cons b bs =>
        obtain ⟨w, hw'⟩ : ∃ w, (decodeRune (b :: bs)).2 = w + 1 := ⟨(decodeRune (b :: bs)).2 - 1, by omega⟩
        rw [hw']; simp [Nat.succ_add]
    rw [goRangeFrom_unfold t p hne, goRangeFrom_unfold _ p hne',
      decodeRune_take t _ (Nat.le_add_right _ _), ih]
    simp only [List.cons_append, List.drop_drop, List.drop_take, Nat.add_sub_cancel_left, Nat.add_assoc]

/-- Boundaries of a suffix that starts at a boundary. -/
theorem IsBoundary.drop {t : List UInt8} {s : Nat} (hs : IsBoundary t s) :
    ∀ {o : Nat}, IsBoundary t o → s ≤ o → IsBoundary (t.drop s) (o - s) := by
  induction hs with
  | zero t => intro o ho _; simpa using ho
  | step t s hne _ ih =>
    intro o ho hle
    have hw := decodeRune_width_pos t hne
    rcases ho.inv with rfl | ⟨_, o', rfl, ho'⟩
    · omega
    · have := ih ho' (by omega)
      rw [List.drop_drop] at this
      have e : (decodeRune t).2 + o' - ((decodeRune t).2 + s) = o' - s := by omega
      rw [e]; exact this

/-- Boundaries survive truncation at a later boundary. -/
theorem IsBoundary.take {t : List UInt8} {o : Nat} (ho : IsBoundary t o) :
    ∀ {e : Nat}, IsBoundary t e → o ≤ e → IsBoundary (t.take e) o := by
  induction ho with
  | zero t => intro e _ _; exact IsBoundary.zero _
  | step t o hne _ ih =>
    intro e he hle
    have hw := decodeRune_width_pos t hne
    rcases he.inv with rfl | ⟨_, e', rfl, he'⟩
    · omega
    · have h1 := ih he' (by omega)
      have hne' : t.take ((decodeRune t).2 + e') ≠ [] := by
        cases t with
        | nil => contradiction
        | cons b bs =>
          obtain ⟨w, hw'⟩ : ∃ w, (decodeRune (b :: bs)).2 = w + 1 := ⟨(decodeRune (b :: bs)).2 - 1, by omega⟩
          rw [hw']; simp [Nat.succ_add]
      have h2 := IsBoundary.step (t.take ((decodeRune t).2 + e')) o hne'
      rw [decodeRune_take t _ (Nat.le_add_right _ _)] at h2
      apply h2
      rw [List.drop_take, Nat.add_sub_cancel_left]; exact h1

/-! ### `lines` -/

theorem indexNL_none {t : List UInt8} (h : indexNL t = none) (p : Nat) : nlAfter t p = [] := by
  induction t generalizing p with
  | nil => rfl
  | cons b bs ih =>
    simp only [indexNL] at h
    split at h
    · simp at h
    · next hb =>
      simp only [Option.map_eq_none_iff] at h
      simp [nlAfter, hb, ih h]

theorem indexNL_some {t : List UInt8} {i : Nat} (h : indexNL t = some i) (p : Nat) :
    i < t.length ∧ nlAfter t p = (p + i + 1) :: nlAfter (t.drop (i + 1)) (p + i + 1) := by
  induction t generalizing p i with
  | nil => simp [indexNL] at h
  | cons b bs ih =>
    simp only [indexNL] at h
    split at h
    · next hb =>
      simp only [Option.some.injEq] at h; subst h
      simp [nlAfter, hb]
    · next hb =>
      simp only [Option.map_eq_some_iff] at h
      obtain ⟨j, hj, rfl⟩ := h
      have := ih hj (p + 1)
      refine ⟨by simp only [List.length_cons]; omega, ?_⟩
      simp only [nlAfter, hb, if_false, List.drop_succ_cons]
      rw [this.2]
      have e : p + 1 + j + 1 = p + (j + 1) + 1 := by omega
      rw [e]

theorem linesLoop_spec (f : Nat) (t : List UInt8) (next : Nat) (h : t.length ≤ f) :
    linesLoop f t next = next :: nlAfter t next := by
  induction f generalizing t next with
  | zero =>
    have : t = [] := List.eq_nil_of_length_eq_zero (by omega)
    subst this; rfl
  | succ f ih =>
    simp only [linesLoop]
    split
    · next hn => rw [indexNL_none hn]
    · next i hi =>
      have := indexNL_some hi next
      rw [this.2, ih]
      · congr 1
      · simp only [List.length_drop]; omega

/-- `lines_spec`: the line index is 0 followed by the offsets just after each newline. -/
theorem lines_eq (t : List UInt8) : lines t = 0 :: nlAfter t 0 :=
  linesLoop_spec _ t 0 (by omega)

theorem nlAfter_append (a b : List UInt8) (p : Nat) :
    nlAfter (a ++ b) p = nlAfter a p ++ nlAfter b (p + a.length) := by
  induction a generalizing p with
  | nil => simp [nlAfter]
  | cons x xs ih =>
    simp only [List.cons_append, nlAfter, List.length_cons]
    split <;> simp [ih, Nat.add_assoc, Nat.add_comm 1]

theorem nlAfter_bounds {a : List UInt8} {p x : Nat} (h : x ∈ nlAfter a p) :
    p < x ∧ x ≤ p + a.length := by
  induction a generalizing p with
  | nil => simp [nlAfter] at h
  | cons b bs ih =>
    simp only [nlAfter] at h
    simp only [List.length_cons]
    split at h
    · rcases List.mem_cons.mp h with rfl | h
      · omega
      · have := ih h; omega
    · have := ih h; omega

theorem nlAfter_sorted (a : List UInt8) (p : Nat) : (nlAfter a p).Pairwise (· < ·) := by
  induction a generalizing p with
  | nil => simp [nlAfter]
  | cons b bs ih =>
    simp only [nlAfter]
    split
    · refine List.Pairwise.cons ?_ (ih _)
      intro x hx; have := nlAfter_bounds hx; omega
    · exact ih _

/-- Every entry of `nlAfter` is the offset just after some newline byte. -/
theorem nlAfter_mem {t : List UInt8} {p x : Nat} (h : x ∈ nlAfter t p) :
    ∃ A B, t = A ++ NL :: B ∧ x = p + A.length + 1 := by
  induction t generalizing p with
  | nil => simp [nlAfter] at h
  | cons b bs ih =>
    simp only [nlAfter] at h
    split at h
    · next hb =>
      rcases List.mem_cons.mp h with rfl | h
      · exact ⟨[], bs, by simp [hb], by simp⟩
      · obtain ⟨A, B, rfl, rfl⟩ := ih h
        exact ⟨b :: A, B, by simp, by simp only [List.length_cons]; omega⟩
    · obtain ⟨A, B, rfl, rfl⟩ := ih h
      exact ⟨b :: A, B, by simp, by simp only [List.length_cons]; omega⟩

/-- Number of line starts `≤ o` is the number of newlines before `o`. -/
theorem countP_nlAfter (t : List UInt8) (p o : Nat) :
    (nlAfter t p).countP (· ≤ o) = (t.take (o - p)).count NL := by
  induction t generalizing p with
  | nil => simp [nlAfter]
  | cons b bs ih =>
    simp only [nlAfter]
    by_cases hpo : p + 1 ≤ o
    · obtain ⟨m, hm⟩ : ∃ m, o - p = m + 1 := ⟨o - p - 1, by omega⟩
      have hm' : o - (p + 1) = m := by omega
      rw [hm, List.take_succ_cons, List.count_cons]
      split
      · next hb => simp [hpo, ih, hm', hb]
      · next hb => simp [ih, hm', hb]
    · have h0 : o - p = 0 := by omega
      have hall : ∀ x ∈ nlAfter bs (p + 1), ¬ x ≤ o := by
        intro x hx; have := nlAfter_bounds hx; omega
      have hz : (nlAfter bs (p + 1)).countP (· ≤ o) = 0 := by
        rw [List.countP_eq_zero]; simpa using hall
      rw [h0]
      split
      · simp [hpo, hz]
      · simp [hz]

/-! ### binary search on a sorted list -/

theorem getD_lt (x : List Nat) (h : Nat) (hh : h < x.length) : x.getD h 0 = x[h] := by
  simp [List.getD_eq_getElem?_getD, List.getElem?_eq_getElem hh]

/-- On a sorted list a downward-closed predicate holds exactly on a prefix, whose length is
    `countP`. -/
theorem countP_prefix (x : List Nat) (hx : x.Pairwise (· ≤ ·)) (p : Nat → Bool)
    (hp : ∀ a b, a ≤ b → p b = true → p a = true) (h : Nat) (hh : h < x.length) :
    p (x.getD h 0) = true ↔ h < x.countP p := by
  induction x generalizing h with
  | nil => simp at hh
  | cons a xs ih =>
    have hxs := (List.pairwise_cons.mp hx)
    by_cases hpa : p a = true
    · cases h with
      | zero => simp [hpa]
      | succ h =>
        have := ih hxs.2 h (by simpa using hh)
        simp only [List.getD_cons_succ, List.countP_cons, hpa, if_true]
        rw [this]; omega
    · have hall : ∀ y ∈ xs, ¬ p y = true := fun y hy hpy => hpa (hp a y (hxs.1 y hy) hpy)
      have hz : xs.countP p = 0 := by rw [List.countP_eq_zero]; exact hall
      have hnot : ¬ p ((a :: xs).getD h 0) = true := by
        cases h with
        | zero => simpa using hpa
        | succ h =>
          have hlt : h < xs.length := by simpa using hh
          simp only [List.getD_cons_succ]
          rw [getD_lt _ _ hlt]
          exact hall _ (List.getElem_mem hlt)
      rw [List.countP_cons, hz]
      simp only [hpa]
      constructor
      · intro h'; exact absurd h' hnot
      · intro h'; simp at h' 

theorem bsLoop_spec (x : List Nat) (hx : x.Pairwise (· ≤ ·)) (target : Nat) (f i j : Nat)
    (hi : i ≤ x.countP (· < target)) (hj : x.countP (· < target) ≤ j) (hjn : j ≤ x.length)
    (hf : j - i ≤ f) : bsLoop f x target i j = x.countP (· < target) := by
  induction f generalizing i j with
  | zero => simp only [bsLoop]; omega
  | succ f ih =>
    simp only [bsLoop]
    split
    · next hij =>
      have hh : (i + j) / 2 < x.length := by omega
      have key := countP_prefix x hx (fun a => decide (a < target))
        (fun a b hab hb => by simp only [decide_eq_true_eq] at *; omega) _ hh
      simp only [decide_eq_true_eq] at key
      split
      · next hlt => exact ih _ _ (by have := key.mp hlt; omega) hj hjn (by omega)
      · next hge =>
        exact ih _ _ hi (by
          have : ¬ (i + j) / 2 < x.countP (· < target) := fun h => hge (key.mpr h)
          omega) (by omega) (by omega)
    · omega

theorem binarySearch_fst (x : List Nat) (hx : x.Pairwise (· ≤ ·)) (target : Nat) :
    (binarySearch x target).1 = x.countP (· < target) := by
  simp only [binarySearch]
  exact bsLoop_spec x hx target _ 0 _ (by omega) (List.countP_le_length) (by omega) (by omega)

/-- `lineIndex` on a strictly sorted list with at least one entry `≤ target` is the index of the
    last such entry. -/
theorem lineIndex_spec (x : List Nat) (hx : x.Pairwise (· < ·)) (target : Nat)
    (h0 : 0 < x.countP (· ≤ target)) :
    lineIndex x target + 1 = x.countP (· ≤ target) := by
  have hx' : x.Pairwise (· ≤ ·) := hx.imp (fun h => Nat.le_of_lt h)
  have hc := binarySearch_fst x hx' target
  have hlt := fun h hh => countP_prefix x hx' (fun a => decide (a < target))
      (fun a b hab hb => by simp only [decide_eq_true_eq] at *; omega) h hh
  have hle := fun h hh => countP_prefix x hx' (fun a => decide (a ≤ target))
      (fun a b hab hb => by simp only [decide_eq_true_eq] at *; omega) h hh
  simp only [decide_eq_true_eq] at hlt hle
  have hmono : x.countP (· < target) ≤ x.countP (· ≤ target) :=
    List.countP_mono_left (fun a _ h => by simp only [decide_eq_true_eq] at *; omega)
  have hn : x.countP (· ≤ target) ≤ x.length := List.countP_le_length
  simp only [lineIndex]
  generalize hc1 : x.countP (· < target) = c at *
  generalize hc2 : x.countP (· ≤ target) = c' at *
  have hsnd : (binarySearch x target).2 = (decide (c < x.length) && x.getD c 0 == target) := by
    simp only [binarySearch]; rw [← hc]; rfl
  rcases hb : binarySearch x target with ⟨i, ex⟩
  rw [hb] at hc hsnd
  simp only at hc hsnd
  subst hc
  simp only []
  cases ex with
  | true =>
    simp only [if_true]
    have h := hsnd.symm
    simp only [Bool.and_eq_true, decide_eq_true_eq, beq_iff_eq] at h
    obtain ⟨h1, h2⟩ := h
    have a1 : i < c' := (hle i h1).mp (by omega)
    by_cases a2 : i + 1 < c'
    · have b1 := (hle (i + 1) (by omega)).mpr a2
      have b2 : x.getD i 0 < x.getD (i + 1) 0 := by
        have hi1 : i + 1 < x.length := by omega
        rw [getD_lt _ _ h1, getD_lt _ _ hi1]
        exact List.pairwise_iff_getElem.mp hx i (i + 1) h1 hi1 (by omega)
      omega
    · omega
  | false =>
    simp only [Bool.false_eq_true, if_false]
    have h := hsnd.symm
    by_cases a1 : i < c'
    · exfalso
      have h1 : i < x.length := by omega
      have b1 := (hle i h1).mpr a1
      have b2 : ¬ x.getD i 0 < target := fun hh => by have := (hlt i h1).mp hh; omega
      have : x.getD i 0 = target := by omega
      rw [this] at h; simp [h1] at h
    · omega

/-! ### geometry of a line; the search loops -/

theorem lines_sorted (t : List UInt8) : (lines t).Pairwise (· < ·) := by
  rw [lines_eq]
  refine List.Pairwise.cons ?_ (nlAfter_sorted t 0)
  intro x hx; exact (nlAfter_bounds hx).1

theorem lines_countP (t : List UInt8) (o : Nat) :
    (lines t).countP (· ≤ o) = 1 + (t.take o).count NL := by
  rw [lines_eq, List.countP_cons, countP_nlAfter]
  simp; omega

theorem lines_mem_boundary {t : List UInt8} {x : Nat} (h : x ∈ lines t) : IsBoundary t x := by
  rw [lines_eq] at h
  rcases List.mem_cons.mp h with rfl | h
  · exact IsBoundary.zero _
  · obtain ⟨A, B, rfl, rfl⟩ := nlAfter_mem h
    have := (isBoundary_around_ascii A B NL (by decide)).2
    simpa using this

theorem lineIndex_lines (t : List UInt8) (o : Nat) :
    lineIndex (lines t) o = (t.take o).count NL := by
  have := lineIndex_spec (lines t) (lines_sorted t) o (by rw [lines_countP]; omega)
  rw [lines_countP] at this; omega

/-- Geometry of the line containing offset `o`. -/
theorem line_geom (t : List UInt8) (o : Nat) (ho : o ≤ t.length) :
    let k := lineIndex (lines t) o
    let se := lineOffsets t (k + 1)
    se.1 = (lines t).getD k 0 ∧ se.1 ≤ o ∧ o ≤ se.2 ∧ se.2 ≤ t.length ∧
      IsBoundary t se.1 ∧ IsBoundary t se.2 ∧ (o < se.2 ∨ o = t.length) := by
  intro k se
  have hs := lines_sorted t
  have hs' : (lines t).Pairwise (· ≤ ·) := hs.imp (fun h => Nat.le_of_lt h)
  have hk : k + 1 = (lines t).countP (· ≤ o) :=
    lineIndex_spec (lines t) hs o (by rw [lines_countP]; omega)
  have hn : (lines t).countP (· ≤ o) ≤ (lines t).length := List.countP_le_length
  have hle := fun h hh => countP_prefix (lines t) hs' (fun a => decide (a ≤ o))
      (fun a b hab hb => by simp only [decide_eq_true_eq] at *; omega) h hh
  simp only [decide_eq_true_eq] at hle
  have hkl : k < (lines t).length := by omega
  have h1 : se.1 = (lines t).getD k 0 := by
    simp only [se, lineOffsets]; split <;> simp
  have hmem : (lines t).getD k 0 ∈ lines t := by
    rw [getD_lt _ _ hkl]; exact List.getElem_mem hkl
  have hso : (lines t).getD k 0 ≤ o := (hle k hkl).mpr (by omega)
  refine ⟨h1, by omega, ?_⟩
  rw [h1]
  by_cases hlast : (lines t).length = k + 1
  · have h2 : se.2 = t.length := by simp only [se, lineOffsets, hlast, if_true]
    rw [h2]
    refine ⟨ho, Nat.le_refl _, lines_mem_boundary hmem, isBoundary_length t, ?_⟩
    omega
  · have h2 : se.2 = (lines t).getD (k + 1) 0 := by simp only [se, lineOffsets, hlast, if_false]
    have hk1 : k + 1 < (lines t).length := by omega
    have hmem2 : (lines t).getD (k + 1) 0 ∈ lines t := by
      rw [getD_lt _ _ hk1]; exact List.getElem_mem hk1
    have hgt : ¬ (lines t).getD (k + 1) 0 ≤ o := fun h => by
      have := (hle (k + 1) hk1).mp h; omega
    rw [h2]
    exact ⟨by omega, (lines_mem_boundary hmem2).le, lines_mem_boundary hmem, lines_mem_boundary hmem2,
      by omega⟩

/-! ### the two search loops of `inverseLocation` -/

/-- Offset left in the loop variable after ranging over all of `xs`. -/
def lastPos : List (Nat × Nat) → Int → Int
  | [], off => off
  | p :: xs, _ => lastPos xs (p.1 : Int)

theorem lastPos_cons (p : Nat × Nat) (xs : List (Nat × Nat)) (off : Int) :
    lastPos (p :: xs) off = lastPos xs (p.1 : Int) := rfl

theorem lastPos_snoc (xs : List (Nat × Nat)) (p : Nat × Nat) (off : Int) :
    lastPos (xs ++ [p]) off = (p.1 : Int) := by
  induction xs generalizing off with
  | nil => rfl
  | cons q qs ih => simp only [List.cons_append, lastPos]; exact ih _

theorem invRunesLoop_hit (xs ys : List (Nat × Nat)) (i r : Nat) (off col : Int)
    (h : col = xs.length + 1) : invRunesLoop (xs ++ (i, r) :: ys) off col = ((i : Int), 0) := by
  induction xs generalizing off col with
  | nil => simp [invRunesLoop, h]
  | cons p ps ih =>
    obtain ⟨j, q⟩ := p
    simp only [List.cons_append, invRunesLoop, List.length_cons] at *
    have : ¬ (col - 1 ≤ 0) := by omega
    rw [if_neg this]
    exact ih _ _ (by omega)

theorem invRunesLoop_miss (xs : List (Nat × Nat)) (off col : Int) (h : (xs.length : Int) < col) :
    invRunesLoop xs off col = (lastPos xs off, col - xs.length) := by
  induction xs generalizing off col with
  | nil => simp [invRunesLoop, lastPos]
  | cons p ps ih =>
    obtain ⟨j, q⟩ := p
    simp only [invRunesLoop, List.length_cons] at *
    have : ¬ (col - 1 ≤ 0) := by omega
    rw [if_neg this, ih _ _ (by omega), lastPos_cons]
    congr 1; omega

theorem utf16Len_cons (p : Nat × Nat) (xs : List (Nat × Nat)) :
    utf16Len (p :: xs) = utf16RuneLen p.2 + utf16Len xs := by
  simp [utf16Len]

theorem utf16Len_append (xs ys : List (Nat × Nat)) :
    utf16Len (xs ++ ys) = utf16Len xs + utf16Len ys := by
  simp [utf16Len, List.sum_append]

theorem utf16Len_nonneg (xs : List (Nat × Nat)) (hpos : ∀ p ∈ xs, 1 ≤ utf16RuneLen p.2) :
    (xs.length : Int) ≤ utf16Len xs := by
  induction xs with
  | nil => simp [utf16Len]
  | cons p ps ih =>
    rw [utf16Len_cons]
    have := hpos p (by simp)
    have := ih (fun q hq => hpos q (by simp [hq]))
    simp only [List.length_cons]; omega

theorem invU16Loop_hit (xs ys : List (Nat × Nat)) (i r : Nat) (off col : Int)
    (hpos : ∀ p ∈ xs, 1 ≤ utf16RuneLen p.2) (hr : 1 ≤ utf16RuneLen r)
    (h : col = utf16Len xs + 1) :
    invU16Loop (xs ++ (i, r) :: ys) off col = ((i : Int), 1 - utf16RuneLen r) := by
  induction xs generalizing off col with
  | nil =>
    simp only [utf16Len, List.map_nil, List.sum_nil] at h
    simp only [List.nil_append, invU16Loop, h]
    have : (0 : Int) + 1 - utf16RuneLen r ≤ 0 := by omega
    rw [if_pos this]; simp
  | cons p ps ih =>
    obtain ⟨j, q⟩ := p
    have hq := hpos (j, q) (by simp)
    have hps := utf16Len_nonneg ps (fun q hq => hpos q (by simp [hq]))
    rw [utf16Len_cons] at h
    simp only [List.cons_append, invU16Loop] at *
    have : ¬ (col - utf16RuneLen q ≤ 0) := by omega
    rw [if_neg this]
    exact ih _ _ (fun q hq => hpos q (by simp [hq])) (by omega)

theorem invU16Loop_miss (xs : List (Nat × Nat)) (off col : Int)
    (hpos : ∀ p ∈ xs, 1 ≤ utf16RuneLen p.2) (h : utf16Len xs < col) :
    invU16Loop xs off col = (lastPos xs off, col - utf16Len xs) := by
  induction xs generalizing off col with
  | nil => simp [invU16Loop, lastPos, utf16Len]
  | cons p ps ih =>
    obtain ⟨j, q⟩ := p
    have hq := hpos (j, q) (by simp)
    have hps := utf16Len_nonneg ps (fun q hq => hpos q (by simp [hq]))
    rw [utf16Len_cons] at h
    simp only [invU16Loop] at *
    have : ¬ (col - utf16RuneLen q ≤ 0) := by omega
    rw [if_neg this, ih _ _ (fun q hq => hpos q (by simp [hq])) (by omega), lastPos_cons,
      utf16Len_cons]
    congr 1; simp only []; omega

theorem utf16RuneLen_pos_of_scalar (r : Nat)
    (h : r < 0xD800 ∨ (0xE000 ≤ r ∧ r ≤ 0x10FFFF)) : 1 ≤ utf16RuneLen r := by
  unfold utf16RuneLen
  split
  · omega
  · split
    · omega
    · split
      · omega
      · omega

theorem goRangeFrom_pos (bs : List UInt8) (pos : Nat) :
    ∀ p ∈ goRangeFrom bs 0 pos, 1 ≤ utf16RuneLen p.2 := by
  induction hn : bs.length using Nat.strongRecOn generalizing bs pos with
  | _ n ih =>
    by_cases hne : bs = []
    · subst hne; simp [goRangeFrom]
    · rw [goRangeFrom_unfold bs pos hne]
      intro p hp
      rcases List.mem_cons.mp hp with rfl | hp
      · exact utf16RuneLen_pos_of_scalar _ (decodeRune_scalar bs)
      · have h1 := decodeRune_width_pos bs hne
        have h2 := decodeRune_width_le bs
        exact ih _ (by simp only [List.length_drop]; omega) _ _ rfl p hp

theorem goRangeFrom_eq_nil {bs : List UInt8} {pos : Nat} (h : goRangeFrom bs 0 pos = []) : bs = [] := by
  by_cases hne : bs = []
  · exact hne
  · rw [goRangeFrom_unfold bs pos hne] at h; simp at h

/-! ### round trip through the raw functions -/

theorem slice_length (t : List UInt8) (a b : Nat) (hb : b ≤ t.length) :
    (slice t a b).length = b - a := by
  simp only [slice, List.length_take, List.length_drop]; omega

/-- The line chunk ranges as the chunk before `o` followed by the rune that starts at `o`. -/
theorem chunk_split (t : List UInt8) (s o e : Nat) (hs : IsBoundary t s) (ho : IsBoundary t o)
    (he : IsBoundary t e) (hso : s ≤ o) (hoe : o < e) :
    ∃ r rest, goRange (slice t s e) = goRange (slice t s o) ++ (o - s, r) :: rest ∧
      1 ≤ utf16RuneLen r := by
  have hb : IsBoundary (slice t s e) (o - s) :=
    (hs.drop ho hso).take (hs.drop he (by omega)) (by omega)
  have hsplit := goRangeFrom_split hb 0
  have htake : (slice t s e).take (o - s) = slice t s o := by
    simp only [slice, List.take_take]
    congr 1; omega
  have hne : (slice t s e).drop (o - s) ≠ [] := by
    intro h
    have := congrArg List.length h
    have hl := slice_length t s e he.le
    simp only [List.length_drop, List.length_nil] at this
    omega
  rw [htake, goRangeFrom_unfold _ _ hne] at hsplit
  refine ⟨(decodeRune ((slice t s e).drop (o - s))).1,
    goRangeFrom (List.drop (decodeRune (List.drop (o - s) (slice t s e))).snd (List.drop (o - s) (slice t s e))) 0
          (0 + (o - s) + (decodeRune (List.drop (o - s) (slice t s e))).snd), ?_,
    utf16RuneLen_pos_of_scalar _ (decodeRune_scalar _)⟩
  simp only [goRange]
  rw [hsplit]; simp only [Nat.zero_add]

theorem goRange_pos (bs : List UInt8) : ∀ p ∈ goRange bs, 1 ≤ utf16RuneLen p.2 :=
  goRangeFrom_pos bs 0

theorem slice_self (t : List UInt8) (a : Nat) : slice t a a = [] := by simp [slice]

/-- Columns are 1 exactly at the start of the line. -/
theorem locationRaw_col_one (t : List UInt8) (o : Nat) (u : LUnit) (ho : o ≤ t.length)
    (h : (locationRaw t o u).2 = 1) : o = (lines t).getD (lineIndex (lines t) o) 0 := by
  have g := line_geom t o ho
  simp only [] at g
  obtain ⟨g1, g2, -⟩ := g
  rw [g1] at g2
  generalize hs : (lines t).getD (lineIndex (lines t) o) 0 = s at *
  have hl := slice_length t s o ho
  have hnil : slice t s o = [] := by
    cases u with
    | bytes =>
      simp only [locationRaw, hs] at h
      exact List.eq_nil_of_length_eq_zero (by omega)
    | runes =>
      simp only [locationRaw, hs] at h
      have : (goRange (slice t s o)).length = 0 := by omega
      exact goRangeFrom_eq_nil (List.eq_nil_of_length_eq_zero this)
    | utf16 =>
      simp only [locationRaw, hs] at h
      have h1 := utf16Len_nonneg (goRange (slice t s o)) (goRange_pos _)
      have : (goRange (slice t s o)).length = 0 := by omega
      exact goRangeFrom_eq_nil (List.eq_nil_of_length_eq_zero this)
  rw [hnil] at hl
  simp only [List.length_nil] at hl
  omega

theorem inverseRaw_location_bytes (t : List UInt8) (o : Nat) (ho : o ≤ t.length) :
    inverseLocationRaw t (locationRaw t o .bytes).1 (locationRaw t o .bytes).2 .bytes = o := by
  have g := line_geom t o ho
  simp only [] at g
  obtain ⟨g1, g2, -⟩ := g
  simp only [locationRaw, inverseLocationRaw]
  rw [g1] at g2 ⊢
  generalize (lines t).getD (lineIndex (lines t) o) 0 = s at *
  rw [slice_length t s o ho]
  omega

theorem inverseRaw_location_interior (t : List UInt8) (o : Nat) (u : LUnit) (ho : IsBoundary t o)
    (hlt : o < t.length) :
    inverseLocationRaw t (locationRaw t o u).1 (locationRaw t o u).2 u = o := by
  have g := line_geom t o ho.le
  simp only [] at g
  obtain ⟨g1, g2, g3, g4, g5, g6, g7⟩ := g
  have hoe : o < (lineOffsets t (lineIndex (lines t) o + 1)).2 := by omega
  cases u with
  | bytes => exact inverseRaw_location_bytes t o ho.le
  | runes =>
    have hl1 : (locationRaw t o .runes).1 = lineIndex (lines t) o + 1 := rfl
    have hl2 : (locationRaw t o .runes).2 =
        ((goRange (slice t ((lines t).getD (lineIndex (lines t) o) 0) o)).length : Int) + 1 := rfl
    rw [hl1, hl2, ← g1]
    simp only [inverseLocationRaw]
    generalize (lineOffsets t (lineIndex (lines t) o + 1)).1 = s at *
    generalize (lineOffsets t (lineIndex (lines t) o + 1)).2 = e at *
    obtain ⟨r, rest, hsplit, -⟩ := chunk_split t s o e g5 ho g6 g2 hoe
    rw [hsplit, invRunesLoop_hit _ _ _ _ _ _ rfl]
    simp only []; omega
  | utf16 =>
    have hl1 : (locationRaw t o .utf16).1 = lineIndex (lines t) o + 1 := rfl
    have hl2 : (locationRaw t o .utf16).2 =
        utf16Len (goRange (slice t ((lines t).getD (lineIndex (lines t) o) 0) o)) + 1 := rfl
    rw [hl1, hl2, ← g1]
    simp only [inverseLocationRaw]
    generalize (lineOffsets t (lineIndex (lines t) o + 1)).1 = s at *
    generalize (lineOffsets t (lineIndex (lines t) o + 1)).2 = e at *
    obtain ⟨r, rest, hsplit, hr⟩ := chunk_split t s o e g5 ho g6 g2 hoe
    rw [hsplit, invU16Loop_hit _ _ _ _ _ _ (goRange_pos _) hr rfl]
    simp only []
    have : ¬ (1 - utf16RuneLen r > 0) := by omega
    rw [if_neg this]; omega

theorem lines_getD_zero (t : List UInt8) : (lines t).getD 0 0 = 0 := by
  rw [lines_eq]; rfl

/-- From the raw round trip to the exported functions with their shortcuts. -/
theorem roundTrip_of_raw (t : List UInt8) (o : Nat) (u : LUnit) (ho : o ≤ t.length)
    (h : inverseLocationRaw t (locationRaw t o u).1 (locationRaw t o u).2 u = o) :
    roundTrip t o u = o := by
  simp only [roundTrip, location]
  by_cases h0 : o = 0
  · subst h0; simp [inverseLocation]
  · rw [if_neg h0]
    simp only [inverseLocation]
    split
    · next hc =>
      exfalso
      have h1 := locationRaw_col_one t o u ho hc.2
      have h2 : lineIndex (lines t) o = 0 := by
        have := hc.1; simp only [locationRaw] at this; omega
      rw [h2, lines_getD_zero] at h1
      exact h0 h1
    · exact h

/-! ### end of file -/

/-- At the end of the file the search loops of `inverseLocation` run off the end of the chunk and
    return "start of the last rune of the last line, plus one". -/
theorem inverseRaw_location_eof (t : List UInt8) (u : LUnit) (hu : u ≠ .bytes) :
    inverseLocationRaw t (locationRaw t t.length u).1 (locationRaw t t.length u).2 u =
      ((lines t).getD (lineIndex (lines t) t.length) 0 : Nat) +
        (lastPos (goRange (slice t ((lines t).getD (lineIndex (lines t) t.length) 0) t.length)) 0 + 1) := by
  have g := line_geom t t.length (Nat.le_refl _)
  simp only [] at g
  obtain ⟨g1, g2, g3, g4, -⟩ := g
  have he : (lineOffsets t (lineIndex (lines t) t.length + 1)).2 = t.length := by omega
  cases u with
  | bytes => contradiction
  | runes =>
    have hl1 : (locationRaw t t.length .runes).1 = lineIndex (lines t) t.length + 1 := rfl
    have hl2 : (locationRaw t t.length .runes).2 =
        ((goRange (slice t ((lines t).getD (lineIndex (lines t) t.length) 0) t.length)).length : Int) + 1 := rfl
    rw [hl1, hl2, ← g1]
    simp only [inverseLocationRaw]
    rw [he, invRunesLoop_miss _ _ _ (by omega)]
    simp only []; omega
  | utf16 =>
    have hl1 : (locationRaw t t.length .utf16).1 = lineIndex (lines t) t.length + 1 := rfl
    have hl2 : (locationRaw t t.length .utf16).2 =
        utf16Len (goRange (slice t ((lines t).getD (lineIndex (lines t) t.length) 0) t.length)) + 1 := rfl
    rw [hl1, hl2, ← g1]
    simp only [inverseLocationRaw]
    rw [he, invU16Loop_miss _ _ _ (goRange_pos _) (by omega)]
    simp only []
    rw [if_pos (by omega)]; omega

/-- Start of the last line. -/
theorem lastLine_start (t : List UInt8) :
    (lines t).getD (lineIndex (lines t) t.length) 0 = (lines t).getLast (by rw [lines_eq]; simp) := by
  have hall : ∀ x ∈ lines t, x ≤ t.length := fun x hx => (lines_mem_boundary hx).le
  have hk : lineIndex (lines t) t.length + 1 = (lines t).countP (· ≤ t.length) :=
    lineIndex_spec (lines t) (lines_sorted t) _ (by rw [lines_countP]; omega)
  have hc : (lines t).countP (· ≤ t.length) = (lines t).length := by
    rw [List.countP_eq_length]; simpa using hall
  have hlt : lineIndex (lines t) t.length < (lines t).length := by omega
  rw [getD_lt _ _ hlt, List.getLast_eq_getElem]
  congr 1; omega

theorem lines_snoc_nl (t : List UInt8) :
    (lines (t ++ [NL])).getLast (by rw [lines_eq]; simp) = t.length + 1 := by
  have : lines (t ++ [NL]) = (0 :: nlAfter t 0) ++ [t.length + 1] := by
    rw [lines_eq, nlAfter_append]; simp [nlAfter]
  have h2 : ∀ (l : List Nat) (h : l ≠ []), l = (0 :: nlAfter t 0) ++ [t.length + 1] →
      l.getLast h = t.length + 1 := by
    intro l h e; subst e; exact List.getLast_concat
  exact h2 _ _ this

theorem lines_snoc_other (t : List UInt8) (b : UInt8) (hb : b ≠ NL) :
    lines (t ++ [b]) = lines t := by
  rw [lines_eq, lines_eq, nlAfter_append]; simp [nlAfter, hb]

theorem lines_getLast_le (t : List UInt8) : (lines t).getLast (by rw [lines_eq]; simp) ≤ t.length :=
  (lines_mem_boundary (List.getLast_mem _)).le

theorem goRange_snoc_ascii (A : List UInt8) (b : UInt8) (hb : b.toNat < 0x80) :
    goRange (A ++ [b]) = goRange A ++ [(A.length, b.toNat)] := by
  have hbd := (isBoundary_around_ascii A [] b hb).1
  have := goRangeFrom_split hbd 0
  simp only [List.take_left', List.drop_left', Nat.zero_add] at this
  simp only [goRange, this]
  congr 1
  simp [goRangeFrom, decodeRune_ascii b hb]

theorem inverseRaw_location_eof_ascii (t' : List UInt8) (b : UInt8) (hb : b.toNat < 0x80)
    (hnl : b ≠ NL) (u : LUnit) :
    inverseLocationRaw (t' ++ [b]) (locationRaw (t' ++ [b]) (t' ++ [b]).length u).1
      (locationRaw (t' ++ [b]) (t' ++ [b]).length u).2 u = ((t' ++ [b]).length : Nat) := by
  by_cases hu : u = .bytes
  · subst hu; exact inverseRaw_location_bytes _ _ (Nat.le_refl _)
  · rw [inverseRaw_location_eof _ u hu, lastLine_start]
    have hs : (lines (t' ++ [b])).getLast (by rw [lines_eq]; simp) =
        (lines t').getLast (by rw [lines_eq]; simp) := by
      have h2 : ∀ (l l' : List Nat) (h : l ≠ []) (h' : l' ≠ []), l = l' → l.getLast h = l'.getLast h' := by
        intro l l' h h' e; subst e; rfl
      exact h2 _ _ _ _ (lines_snoc_other t' b hnl)
    rw [hs]
    have hle := lines_getLast_le t'
    generalize (lines t').getLast _ = s at *
    have hsl : slice (t' ++ [b]) s (t' ++ [b]).length = t'.drop s ++ [b] := by
      simp only [slice, List.length_append, List.length_singleton]
      rw [List.drop_append_of_le_length hle, List.take_of_length_le]
      simp only [List.length_append, List.length_drop, List.length_singleton]; omega
    rw [hsl, goRange_snoc_ascii _ _ hb, lastPos_snoc]
    simp only [List.length_drop, List.length_append, List.length_singleton]
    omega

theorem inverseRaw_location_eof_nl (t' : List UInt8) (u : LUnit) (hu : u ≠ .bytes) :
    inverseLocationRaw (t' ++ [NL]) (locationRaw (t' ++ [NL]) (t' ++ [NL]).length u).1
      (locationRaw (t' ++ [NL]) (t' ++ [NL]).length u).2 u = ((t' ++ [NL]).length : Nat) + 1 := by
  rw [inverseRaw_location_eof _ u hu, lastLine_start, lines_snoc_nl]
  simp only [List.length_append, List.length_singleton, slice_self]
  simp [goRange, goRangeFrom, lastPos]

/-! ### `IsBoundary` is what the executable `boundaries` enumerates -/

theorem goRangeFrom_shift (bs : List UInt8) (p : Nat) :
    goRangeFrom bs 0 p = (goRangeFrom bs 0 0).map (fun q => (q.1 + p, q.2)) := by
  induction hn : bs.length using Nat.strongRecOn generalizing bs p with
  | _ n ih =>
    by_cases hne : bs = []
    · subst hne; simp [goRangeFrom]
    · have h1 := decodeRune_width_pos bs hne
      have h2 := decodeRune_width_le bs
      have hlt : (bs.drop (decodeRune bs).2).length < n := by
        simp only [List.length_drop]; omega
      rw [goRangeFrom_unfold bs p hne, goRangeFrom_unfold bs 0 hne,
        ih _ hlt _ (p + (decodeRune bs).2) rfl, ih _ hlt _ (0 + (decodeRune bs).2) rfl]
      simp only [List.map_cons, List.map_map, Nat.zero_add]
      congr 1
      apply List.map_congr_left
      intro q _
      simp only [Function.comp]
      congr 1; omega

theorem isBoundary_iff_mem_boundaries (t : List UInt8) (o : Nat) :
    IsBoundary t o ↔ o ∈ boundaries t := by
  constructor
  · intro h
    induction h with
    | zero t =>
      by_cases hne : t = []
      · subst hne; simp [boundaries, goRange, goRangeFrom]
      · simp [boundaries, goRange, goRangeFrom_unfold t 0 hne]
    | step t o hne _ ih =>
      have h2 := decodeRune_width_le t
      simp only [boundaries, goRange, List.mem_append, List.mem_map, List.mem_singleton,
        List.length_drop] at ih ⊢
      rw [goRangeFrom_unfold t 0 hne, goRangeFrom_shift]
      rcases ih with ⟨q, hq, rfl⟩ | rfl
      · left
        refine ⟨(q.1 + (0 + (decodeRune t).2), q.2), ?_, by simp only []; omega⟩
        exact List.mem_cons_of_mem _ (List.mem_map.mpr ⟨q, hq, rfl⟩)
      · right; omega
  · intro h
    induction hn : t.length using Nat.strongRecOn generalizing t o with
    | _ n ih =>
      by_cases hne : t = []
      · subst hne
        simp [boundaries, goRange, goRangeFrom] at h
        subst h; exact IsBoundary.zero _
      · have h1 := decodeRune_width_pos t hne
        have h2 := decodeRune_width_le t
        simp only [boundaries, goRange, List.mem_append, List.mem_map, List.mem_singleton] at h
        rw [goRangeFrom_unfold t 0 hne, goRangeFrom_shift] at h
        rcases h with ⟨q, hq, rfl⟩ | rfl
        · rcases List.mem_cons.mp hq with rfl | hq
          · exact IsBoundary.zero _
          · obtain ⟨q', hq', rfl⟩ := List.mem_map.mp hq
            have hlt : (t.drop (decodeRune t).2).length < n := by
              simp only [List.length_drop]; omega
            have := ih _ hlt (t.drop (decodeRune t).2) q'.1
              (by simp only [boundaries, goRange, List.mem_append, List.mem_map]
                  exact Or.inl ⟨q', hq', rfl⟩) rfl
            have s := IsBoundary.step t q'.1 hne this
            simp only [Nat.zero_add]
            rw [Nat.add_comm]; exact s
        · subst hn; exact isBoundary_length t

/-! ### well-formed text: ordinary character boundaries are `IsBoundary` -/

/-- UTF-8 encoding of a sequence of code points. -/
def encodeAll (rs : List Nat) : List UInt8 := rs.flatMap encodeRune

/-- In a text that starts with the encoding of the scalar values `pre`, the offset just after
    them is a boundary (whatever bytes follow). -/
theorem isBoundary_encodeAll (pre : List Nat) (hpre : ∀ r ∈ pre, IsScalar r) (tail : List UInt8) :
    IsBoundary (encodeAll pre ++ tail) (encodeAll pre).length := by
  induction pre with
  | nil => exact IsBoundary.zero _
  | cons r rs ih =>
    have hr := hpre r (by simp)
    have ih' := ih (fun q hq => hpre q (by simp [hq]))
    have hdec := decodeRune_encodeRune r hr (encodeAll rs ++ tail)
    have hpos := encodeRune_length_pos r
    have hne : encodeRune r ++ (encodeAll rs ++ tail) ≠ [] := by
      intro h; have := congrArg List.length h; simp only [List.length_append, List.length_nil] at this; omega
    have s := IsBoundary.step (encodeRune r ++ (encodeAll rs ++ tail)) (encodeAll rs).length hne
      (by rw [hdec]; simpa using ih')
    rw [hdec] at s
    simpa [encodeAll, List.append_assoc] using s

/-! ### exact behaviour at the end of the file -/

theorem IsBoundary.add {t : List UInt8} {s : Nat} (hs : IsBoundary t s) :
    ∀ {x : Nat}, IsBoundary (t.drop s) x → IsBoundary t (s + x) := by
  induction hs with
  | zero t => intro x hx; simpa using hx
  | step t s hne _ ih =>
    intro x hx
    rw [← List.drop_drop] at hx
    have := IsBoundary.step t (s + x) hne (ih hx)
    rw [Nat.add_assoc]; exact this

theorem lastPos_mem (G : List (Nat × Nat)) (off : Int) (h : G ≠ []) :
    ∃ p ∈ G, lastPos G off = (p.1 : Int) := by
  induction G generalizing off with
  | nil => contradiction
  | cons q qs ih =>
    by_cases hq : qs = []
    · subst hq; exact ⟨q, by simp, rfl⟩
    · obtain ⟨p, hp, e⟩ := ih (q.1 : Int) hq
      exact ⟨p, List.mem_cons_of_mem _ hp, e⟩

theorem goRange_snoc_boundary (A : List UInt8) (b : UInt8) (h : IsBoundary (A ++ [b]) A.length) :
    goRange (A ++ [b]) = goRange A ++ [(A.length, (decodeRune [b]).1)] := by
  have := goRangeFrom_split h 0
  simp only [List.take_left', List.drop_left', Nat.zero_add] at this
  simp only [goRange, this]
  congr 1

/-- The text ends with a one-byte character other than newline. -/
def EndsOneByteChar (t : List UInt8) : Prop :=
  ∃ A b, t = A ++ [b] ∧ IsBoundary t A.length ∧ b ≠ NL

theorem inverseRaw_location_eof_onebyte (A : List UInt8) (b : UInt8)
    (hbd : IsBoundary (A ++ [b]) A.length) (hnl : b ≠ NL) (u : LUnit) :
    inverseLocationRaw (A ++ [b]) (locationRaw (A ++ [b]) (A ++ [b]).length u).1
      (locationRaw (A ++ [b]) (A ++ [b]).length u).2 u = ((A ++ [b]).length : Nat) := by
  by_cases hu : u = .bytes
  · subst hu; exact inverseRaw_location_bytes _ _ (Nat.le_refl _)
  · rw [inverseRaw_location_eof _ u hu, lastLine_start]
    have hs : (lines (A ++ [b])).getLast (by rw [lines_eq]; simp) =
        (lines A).getLast (by rw [lines_eq]; simp) := by
      have h2 : ∀ (l l' : List Nat) (h : l ≠ []) (h' : l' ≠ []), l = l' → l.getLast h = l'.getLast h' := by
        intro l l' h h' e; subst e; rfl
      exact h2 _ _ _ _ (lines_snoc_other A b hnl)
    have hsb : IsBoundary (A ++ [b]) ((lines (A ++ [b])).getLast (by rw [lines_eq]; simp)) :=
      lines_mem_boundary (List.getLast_mem _)
    rw [hs] at hsb ⊢
    have hle := lines_getLast_le A
    generalize (lines A).getLast _ = s at *
    have hd : (A ++ [b]).drop s = A.drop s ++ [b] := List.drop_append_of_le_length hle
    have hsl : slice (A ++ [b]) s (A ++ [b]).length = A.drop s ++ [b] := by
      simp only [slice, List.length_append, List.length_singleton]
      rw [hd, List.take_of_length_le]
      simp only [List.length_append, List.length_drop, List.length_singleton]; omega
    have hb2 : IsBoundary (A.drop s ++ [b]) (A.drop s).length := by
      have := hsb.drop hbd hle
      rw [hd] at this; simpa using this
    rw [hsl, goRange_snoc_boundary _ _ hb2, lastPos_snoc]
    simp only [List.length_drop, List.length_append, List.length_singleton]
    omega

/-- Conversely: if the raw round trip at the end of a non-empty file succeeds for Runes or
    UTF16, the file ends with a one-byte character other than newline. -/
theorem endsOneByteChar_of_eof (t : List UInt8) (hne : t ≠ []) (u : LUnit) (hu : u ≠ .bytes)
    (h : inverseLocationRaw t (locationRaw t t.length u).1 (locationRaw t t.length u).2 u =
      (t.length : Nat)) : EndsOneByteChar t := by
  obtain ⟨A, b, rfl⟩ : ∃ A b, t = A ++ [b] := ⟨t.dropLast, t.getLast hne, (List.dropLast_concat_getLast hne).symm⟩
  by_cases hnl : b = NL
  · subst hnl
    rw [inverseRaw_location_eof_nl A u hu] at h
    omega
  · refine ⟨A, b, rfl, ?_, hnl⟩
    rw [inverseRaw_location_eof _ u hu, lastLine_start] at h
    have hs : (lines (A ++ [b])).getLast (by rw [lines_eq]; simp) =
        (lines A).getLast (by rw [lines_eq]; simp) := by
      have h2 : ∀ (l l' : List Nat) (h : l ≠ []) (h' : l' ≠ []), l = l' → l.getLast h = l'.getLast h' := by
        intro l l' h h' e; subst e; rfl
      exact h2 _ _ _ _ (lines_snoc_other A b hnl)
    have hsb : IsBoundary (A ++ [b]) ((lines (A ++ [b])).getLast (by rw [lines_eq]; simp)) :=
      lines_mem_boundary (List.getLast_mem _)
    rw [hs] at hsb h
    have hle := lines_getLast_le A
    generalize (lines A).getLast _ = s at *
    have hd : (A ++ [b]).drop s = A.drop s ++ [b] := List.drop_append_of_le_length hle
    have hsl : slice (A ++ [b]) s (A ++ [b]).length = A.drop s ++ [b] := by
      simp only [slice, List.length_append, List.length_singleton]
      rw [hd, List.take_of_length_le]
      simp only [List.length_append, List.length_drop, List.length_singleton]; omega
    rw [hsl] at h
    have hGne : goRange (A.drop s ++ [b]) ≠ [] := by
      intro hnil
      have := goRangeFrom_eq_nil hnil
      simp at this
    obtain ⟨p, hp, hlast⟩ := lastPos_mem _ 0 hGne
    rw [hlast] at h
    simp only [List.length_append, List.length_singleton] at h
    have hp1 : p.1 = A.length - s := by omega
    have hbd : IsBoundary (A.drop s ++ [b]) p.1 := by
      rw [isBoundary_iff_mem_boundaries]
      simp only [boundaries, List.mem_append, List.mem_map]
      exact Or.inl ⟨p, hp, rfl⟩
    have := hsb.add (by rw [hd]; exact hbd)
    rw [hp1] at this
    have e : s + (A.length - s) = A.length := by omega
    rw [e] at this; exact this

/-- Away from offset 0 the `line == 1 && column == 1` shortcut of `InverseLocation` is never
    taken on the output of `Location`, so the exported round trip is the raw one. -/
theorem roundTrip_eq_raw (t : List UInt8) (o : Nat) (u : LUnit) (h0 : o ≠ 0) (ho : o ≤ t.length) :
    roundTrip t o u = inverseLocationRaw t (locationRaw t o u).1 (locationRaw t o u).2 u := by
  simp only [roundTrip, location, if_neg h0, inverseLocation]
  split
  · next hc =>
    exfalso
    have h1 := locationRaw_col_one t o u ho hc.2
    have h2 : lineIndex (lines t) o = 0 := by
      have := hc.1; simp only [locationRaw] at this; omega
    rw [h2, lines_getD_zero] at h1
    exact h0 h1
  · rfl

end PCV.SourceLoc
