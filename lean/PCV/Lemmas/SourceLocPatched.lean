/-
The candidate fix for C32, and a proof that it establishes the full property.

This is NOT the model of the code (that is `PCV.Model.SourceLoc`, which mirrors the defect). It is
`inverseLocation` with the proposed patch applied:

    case length.Runes:                         case length.UTF16:
        offset = len(chunk) - 1                    offset = len(chunk) - 1
        for i := range chunk {                     for i, r := range chunk {
            column--                                   column -= utf16.RuneLen(r)
            if column <= 0 {                           if column <= 0 {
                offset = i                                 offset = i
                break                                      break
            }                                          }
        }                                          }
        offset += column                           if column > 0 { offset += column }

i.e. the loop variable no longer leaks "start of the last rune" when the loop runs off the end of
the chunk; `offset` then is `len(chunk) + (remaining column) - 1`, which is what the unpatched
code already computes whenever the last rune of the chunk is one byte wide (every line that ends
in a newline).  Everything else (`lines`, `location`, `LineOffsets`, the shortcuts) is unchanged.
-/
import PCV.Lemmas.SourceLoc
namespace PCV.SourceLoc.Patched
open PCV.Utf8 PCV.SourceLoc

def invRunesLoop : List (Nat × Nat) → Int → Int → Int × Int
  | [], off, col => (off, col)
  | (i, _) :: rest, off, col =>
    if col - 1 ≤ 0 then ((i : Int), col - 1) else invRunesLoop rest off (col - 1)

def invU16Loop : List (Nat × Nat) → Int → Int → Int × Int
  | [], off, col => (off, col)
  | (i, r) :: rest, off, col =>
    if col - utf16RuneLen r ≤ 0 then ((i : Int), col - utf16RuneLen r)
    else invU16Loop rest off (col - utf16RuneLen r)

def inverseLocationRaw (t : List UInt8) (line : Nat) (column : Int) (u : LUnit) : Int :=
  let se := lineOffsets t line
  let chunk := slice t se.1 se.2
  let offset : Int :=
    match u with
    | .runes =>
      let r := invRunesLoop (goRange chunk) ((chunk.length : Int) - 1) column
      r.1 + r.2
    | .bytes => column - 1
    | .utf16 =>
      let r := invU16Loop (goRange chunk) ((chunk.length : Int) - 1) column
      if r.2 > 0 then r.1 + r.2 else r.1
  (se.1 : Int) + offset

def inverseLocation (t : List UInt8) (line : Nat) (column : Int) (u : LUnit) : Int :=
  if line = 1 ∧ column = 1 then 0 else inverseLocationRaw t line column u

def roundTrip (t : List UInt8) (offset : Nat) (u : LUnit) : Int :=
  let lc := location t offset u
  inverseLocation t lc.1 lc.2 u

theorem invRunesLoop_hit (xs ys : List (Nat × Nat)) (i r : Nat) (off col : Int)
    (h : col = xs.length + 1) : invRunesLoop (xs ++ (i, r) :: ys) off col = ((i : Int), 0) := by
  induction xs generalizing col with
  | nil => simp [invRunesLoop, h]
  | cons p ps ih =>
    obtain ⟨j, q⟩ := p
    simp only [List.cons_append, invRunesLoop, List.length_cons] at *
    have : ¬ (col - 1 ≤ 0) := by omega
    rw [if_neg this]
    exact ih _ (by omega)

theorem invRunesLoop_miss (xs : List (Nat × Nat)) (off col : Int) (h : (xs.length : Int) < col) :
    invRunesLoop xs off col = (off, col - xs.length) := by
  induction xs generalizing col with
  | nil => simp [invRunesLoop]
  | cons p ps ih =>
    obtain ⟨j, q⟩ := p
    simp only [invRunesLoop, List.length_cons] at *
    have : ¬ (col - 1 ≤ 0) := by omega
    rw [if_neg this, ih _ (by omega)]
    congr 1; omega

theorem invU16Loop_hit (xs ys : List (Nat × Nat)) (i r : Nat) (off col : Int)
    (hpos : ∀ p ∈ xs, 1 ≤ utf16RuneLen p.2) (hr : 1 ≤ utf16RuneLen r)
    (h : col = utf16Len xs + 1) :
    invU16Loop (xs ++ (i, r) :: ys) off col = ((i : Int), 1 - utf16RuneLen r) := by
  induction xs generalizing col with
  | nil =>
    simp only [utf16Len, List.map_nil, List.sum_nil] at h
    simp only [List.nil_append, invU16Loop, h]
    have : (0 : Int) + 1 - utf16RuneLen r ≤ 0 := by omega
    rw [if_pos this]; simp
  | cons p ps ih =>
    obtain ⟨j, q⟩ := p
    have hq := hpos (j, q) (by simp)
    have hps := utf16Len_nonneg ps (fun q hq => hpos q (by simp [hq]))
    rw [utf16Len_cons] at h
    simp only [List.cons_append, invU16Loop] at *
    have : ¬ (col - utf16RuneLen q ≤ 0) := by omega
    rw [if_neg this]
    exact ih _ (fun q hq => hpos q (by simp [hq])) (by omega)

theorem invU16Loop_miss (xs : List (Nat × Nat)) (off col : Int)
    (hpos : ∀ p ∈ xs, 1 ≤ utf16RuneLen p.2) (h : utf16Len xs < col) :
    invU16Loop xs off col = (off, col - utf16Len xs) := by
  induction xs generalizing col with
  | nil => simp [invU16Loop, utf16Len]
  | cons p ps ih =>
    obtain ⟨j, q⟩ := p
    have hq := hpos (j, q) (by simp)
    have hps := utf16Len_nonneg ps (fun q hq => hpos q (by simp [hq]))
    rw [utf16Len_cons] at h
    simp only [invU16Loop] at *
    have : ¬ (col - utf16RuneLen q ≤ 0) := by omega
    rw [if_neg this, ih _ (fun q hq => hpos q (by simp [hq])) (by omega), utf16Len_cons]
    congr 1; simp only []; omega

theorem inverseRaw_location (t : List UInt8) (o : Nat) (u : LUnit) (ho : IsBoundary t o) :
    inverseLocationRaw t (locationRaw t o u).1 (locationRaw t o u).2 u = o := by
  have g := line_geom t o ho.le
  simp only [] at g
  obtain ⟨g1, g2, g3, g4, g5, g6, g7⟩ := g
  cases u with
  | bytes =>
    simp only [locationRaw, inverseLocationRaw]
    rw [g1] at g2 ⊢
    generalize (lines t).getD (lineIndex (lines t) o) 0 = s at *
    rw [slice_length t s o ho.le]
    omega
  | runes =>
    have hl1 : (locationRaw t o .runes).1 = lineIndex (lines t) o + 1 := rfl
    have hl2 : (locationRaw t o .runes).2 =
        ((goRange (slice t ((lines t).getD (lineIndex (lines t) o) 0) o)).length : Int) + 1 := rfl
    rw [hl1, hl2, ← g1]
    simp only [inverseLocationRaw]
    generalize (lineOffsets t (lineIndex (lines t) o + 1)).1 = s at *
    generalize (lineOffsets t (lineIndex (lines t) o + 1)).2 = e at *
    by_cases hoe : o < e
    · obtain ⟨r, rest, hsplit, -⟩ := chunk_split t s o e g5 ho g6 g2 hoe
      rw [hsplit, invRunesLoop_hit _ _ _ _ _ _ rfl]
      simp only []; omega
    · have : e = o := by omega
      subst this
      rw [invRunesLoop_miss _ _ _ (by omega), slice_length t s e g4]
      simp only []; omega
  | utf16 =>
    have hl1 : (locationRaw t o .utf16).1 = lineIndex (lines t) o + 1 := rfl
    have hl2 : (locationRaw t o .utf16).2 =
        utf16Len (goRange (slice t ((lines t).getD (lineIndex (lines t) o) 0) o)) + 1 := rfl
    rw [hl1, hl2, ← g1]
    simp only [inverseLocationRaw]
    generalize (lineOffsets t (lineIndex (lines t) o + 1)).1 = s at *
    generalize (lineOffsets t (lineIndex (lines t) o + 1)).2 = e at *
    by_cases hoe : o < e
    · obtain ⟨r, rest, hsplit, hr⟩ := chunk_split t s o e g5 ho g6 g2 hoe
      rw [hsplit, invU16Loop_hit _ _ _ _ _ _ (goRange_pos _) hr rfl]
      simp only []
      have : ¬ (1 - utf16RuneLen r > 0) := by omega
      rw [if_neg this]; omega
    · have : e = o := by omega
      subst this
      rw [invU16Loop_miss _ _ _ (goRange_pos _) (by omega), slice_length t s e g4]
      simp only []
      rw [if_pos (by omega)]; omega

/-- With the patch, C32 holds at full strength: every text, every boundary offset (including the
    end of the file and an empty last line), every unit. -/
theorem C32_full_after_patch (t : List UInt8) (o : Nat) (u : LUnit) (hb : IsBoundary t o) :
    roundTrip t o u = (o : Int) := by
  simp only [roundTrip, location]
  by_cases h0 : o = 0
  · subst h0; simp [inverseLocation]
  · rw [if_neg h0]
    simp only [inverseLocation]
    split
    · next hc =>
      exfalso
      have h1 := locationRaw_col_one t o u hb.le hc.2
      have h2 : lineIndex (lines t) o = 0 := by
        have := hc.1; simp only [locationRaw] at this; omega
      rw [h2, lines_getD_zero] at h1
      exact h0 h1
    · exact inverseRaw_location t o u hb

end PCV.SourceLoc.Patched
