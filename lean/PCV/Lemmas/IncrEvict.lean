/-
`Executor.EvictWithCleanup`: the work-list loop removes exactly the callers-closure of the
evicted keys and leaves a state satisfying the invariant.
-/
import PCV.Lemmas.Incr
namespace PCV.Incr

/-- keys reachable from `init` through `callers` edges: the evicted keys and everything that
    transitively depends on them -/
inductive Reach (m : TaskMap) (init : List Key) : Key → Prop
  | base {k : Key} : k ∈ init → Reach m init k
  | step {x y : Key} : Reach m init y → x ∈ callersOf m y → Reach m init x

theorem unlinkDeps_result (next : Key) (ds : List Key) : ∀ (objs : TaskMap) (k : Key),
    resultOf (unlinkDeps objs next ds) k = resultOf objs k := by
  induction ds with
  | nil => intro objs k; rfl
  | cons d ds ih => intro objs k; simp only [unlinkDeps]; rw [ih, resultOf_modify]; intro t; rfl

theorem unlinkDeps_deps (next : Key) (ds : List Key) : ∀ (objs : TaskMap) (k : Key),
    depsOf (unlinkDeps objs next ds) k = depsOf objs k := by
  induction ds with
  | nil => intro objs k; rfl
  | cons d ds ih =>
    intro objs k; simp only [unlinkDeps]; rw [ih, depsOf_modify]
    by_cases h : k = d
    · subst h; simp only [if_true, depsOf]; cases objs.get k <;> simp
    · simp [h]

theorem unlinkDeps_exists (next : Key) (ds : List Key) : ∀ (objs : TaskMap) (k : Key),
    exists_ (unlinkDeps objs next ds) k ↔ exists_ objs k := by
  induction ds with
  | nil => intro objs k; exact Iff.rfl
  | cons d ds ih => intro objs k; simp only [unlinkDeps]; rw [ih, exists_modify]

theorem unlinkDeps_callers (next : Key) (ds : List Key) : ∀ (objs : TaskMap) (k x : Key),
    x ∈ callersOf (unlinkDeps objs next ds) k ↔ x ∈ callersOf objs k ∧ ¬ (x = next ∧ k ∈ ds) := by
  induction ds with
  | nil => intro objs k x; simp [unlinkDeps]
  | cons d ds ih =>
    intro objs k x
    simp only [unlinkDeps]
    rw [ih, callersOf_modify]
    by_cases h : k = d
    · subst h
      simp only [if_true, callersOf, List.mem_cons, true_or, and_true]
      cases objs.get k with
      | none => simp
      | some t => simp only [List.mem_filter, bne_iff_ne, ne_eq]; grind
    · simp only [h, if_false, List.mem_cons, false_or]

/-- loop invariant of `evictLoop` relative to the initial task objects `m0` and initial keys `init` -/
structure LoopInv (m0 : TaskMap) (init : List Key) (objs : TaskMap) (dead work : List Key) : Prop where
  res : ∀ k, resultOf objs k = resultOf m0 k
  deps : ∀ k, depsOf objs k = depsOf m0 k
  ex : ∀ k, exists_ objs k ↔ exists_ m0 k
  sub : ∀ y x, x ∈ callersOf objs y → x ∈ callersOf m0 y
  removed : ∀ y x, x ∈ callersOf m0 y → x ∉ callersOf objs y → x ∈ dead
  reachW : ∀ k ∈ work, Reach m0 init k
  reachD : ∀ k ∈ dead, Reach m0 init k
  initc : ∀ k ∈ init, k ∈ dead ∨ k ∈ work
  closed : ∀ y ∈ dead, ∀ x ∈ callersOf m0 y, x ∈ dead ∨ x ∈ work
  unlinked : ∀ x ∈ dead, ∀ d ∈ depsOf m0 x, x ∉ callersOf objs d

theorem evictLoop_spec (m0 : TaskMap) (init : List Key) : ∀ (fuel : Nat) (objs : TaskMap) (dead work : List Key)
    (objs' : TaskMap) (dead' : List Key),
    evictLoop fuel objs dead work = some (objs', dead') → LoopInv m0 init objs dead work →
    LoopInv m0 init objs' dead' [] := by
  intro fuel
  induction fuel with
  | zero => intro objs dead work objs' dead' h; simp [evictLoop] at h
  | succ fuel ih =>
    intro objs dead work objs' dead' h hinv
    cases work with
    | nil =>
      simp only [evictLoop, Option.some.injEq, Prod.mk.injEq] at h
      obtain ⟨rfl, rfl⟩ := h
      exact hinv
    | cons next work =>
      simp only [evictLoop] at h
      refine ih _ _ _ objs' dead' h ?_
      have hcal := unlinkDeps_callers next (depsOf objs next) objs
      exact
      { res := fun k => by rw [unlinkDeps_result]; exact hinv.res k,
        deps := fun k => by rw [unlinkDeps_deps]; exact hinv.deps k,
        ex := fun k => by rw [unlinkDeps_exists]; exact hinv.ex k,
        sub := fun y x hx => hinv.sub y x ((hcal y x).1 hx).1,
        removed := fun y x hx0 hx => by
          by_cases hcur : x ∈ callersOf objs y
          · have : x = next ∧ y ∈ depsOf objs next := by
              apply Classical.byContradiction
              intro hn
              exact hx ((hcal y x).2 ⟨hcur, hn⟩)
            exact this.1 ▸ List.mem_cons_self
          · exact List.mem_cons_of_mem _ (hinv.removed y x hx0 hcur),
        reachW := fun k hk => by
          rcases List.mem_append.1 hk with h1 | h1
          · have h2 := hinv.sub next k (List.mem_reverse.1 h1)
            exact .step (hinv.reachW next List.mem_cons_self) h2
          · exact hinv.reachW k (List.mem_cons_of_mem _ h1),
        reachD := fun k hk => by
          rcases List.mem_cons.1 hk with h1 | h1
          · exact h1 ▸ hinv.reachW next List.mem_cons_self
          · exact hinv.reachD k h1,
        initc := fun k hk => by
          rcases hinv.initc k hk with h1 | h1
          · exact Or.inl (List.mem_cons_of_mem _ h1)
          · rcases List.mem_cons.1 h1 with h2 | h2
            · exact Or.inl (h2 ▸ List.mem_cons_self)
            · exact Or.inr (List.mem_append_right _ h2),
        closed := fun y hy x hx => by
          rcases List.mem_cons.1 hy with h1 | h1
          · subst h1
            by_cases hcur : x ∈ callersOf objs y
            · exact Or.inr (List.mem_append_left _ (List.mem_reverse.2 hcur))
            · exact Or.inl (List.mem_cons_of_mem _ (hinv.removed y x hx hcur))
          · rcases hinv.closed y h1 x hx with h2 | h2
            · exact Or.inl (List.mem_cons_of_mem _ h2)
            · rcases List.mem_cons.1 h2 with h3 | h3
              · exact Or.inl (h3 ▸ List.mem_cons_self)
              · exact Or.inr (List.mem_append_right _ h3),
        unlinked := fun x hx d hd hmem => by
          have h1 := (hcal d x).1 hmem
          rcases List.mem_cons.1 hx with h2 | h2
          · subst h2
            exact h1.2 ⟨rfl, by rw [hinv.deps]; exact hd⟩
          · exact hinv.unlinked x h2 d hd h1.1 }

theorem LoopInv.dead_iff {m0 : TaskMap} {init : List Key} {objs : TaskMap} {dead : List Key}
    (h : LoopInv m0 init objs dead []) (k : Key) : k ∈ dead ↔ Reach m0 init k := by
  constructor
  · exact h.reachD k
  · intro hr
    induction hr with
    | base hk => rcases h.initc _ hk with h1 | h1; exact h1; cases h1
    | step _ hx ih => rcases h.closed _ ih _ hx with h1 | h1; exact h1; cases h1

theorem LoopInv.init (m0 : TaskMap) (init : List Key) : LoopInv m0 init m0 [] init :=
  { res := fun _ => rfl, deps := fun _ => rfl, ex := fun _ => Iff.rfl, sub := fun _ _ h => h,
    removed := fun _ _ h hn => absurd h hn, reachW := fun _ hk => .base hk,
    reachD := fun _ hk => (by cases hk), initc := fun _ hk => Or.inr hk,
    closed := fun _ hy => (by cases hy), unlinked := fun _ hx => (by cases hx) }

/-- keys of an `Evict` call that have a task (the others are ignored) -/
def present (st : St) (keys : List Key) : List Key := keys.filter (fun k => (st.tasks.get k).isSome)

/-- the set removed by `Evict keys`: the keys with a task and their transitive callers -/
def Evicted (st : St) (keys : List Key) (k : Key) : Prop := Reach st.tasks (present st keys).reverse k

theorem Reach.of_subset {m : TaskMap} {i1 i2 : List Key} (hs : ∀ k ∈ i1, k ∈ i2) {k : Key}
    (h : Reach m i1 k) : Reach m i2 k := by
  induction h with
  | base hk => exact .base (hs _ hk)
  | step _ hx ih => exact .step ih hx

/-- Full description of the state after `Evict`. -/
theorem evict_spec {fuel : Nat} {st st' : St} {keys : List Key} (h : evict fuel st keys = some st') :
    st'.counter = st.counter ∧ st'.log = st.log ∧ st'.obs = st.obs ∧
    (∀ k, Evicted st keys k → st'.tasks.get k = none) ∧
    (∀ k, ¬ Evicted st keys k →
      resultOf st'.tasks k = resultOf st.tasks k ∧ depsOf st'.tasks k = depsOf st.tasks k ∧
      (exists_ st'.tasks k ↔ exists_ st.tasks k) ∧
      (∀ x, x ∈ callersOf st'.tasks k → x ∈ callersOf st.tasks k) ∧
      (∀ x, x ∈ callersOf st.tasks k → ¬ Evicted st keys x → x ∈ callersOf st'.tasks k)) ∧
    (∀ x d, Evicted st keys x → d ∈ depsOf st.tasks x → x ∉ callersOf st'.tasks d) := by
  unfold evict at h
  simp only at h
  cases hl : evictLoop fuel st.tasks [] (List.filter (fun k => (st.tasks.get k).isSome) keys).reverse with
  | none => simp [hl] at h
  | some q =>
    obtain ⟨objs, dead⟩ := q
    simp only [hl, Option.some.injEq] at h
    subst h
    have hli := evictLoop_spec st.tasks (present st keys).reverse fuel st.tasks [] _ objs dead hl
      (LoopInv.init _ _)
    have hdead : ∀ k, k ∈ dead ↔ Evicted st keys k := hli.dead_iff
    refine ⟨rfl, rfl, rfl, ?_, ?_, ?_⟩
    · intro k hk
      simp [(hdead k).2 hk]
    · intro k hk
      have hnd : k ∉ dead := fun hh => hk ((hdead k).1 hh)
      refine ⟨?_, ?_, ?_, ?_, ?_⟩
      · simp only [resultOf, hnd, if_false]; exact hli.res k
      · simp only [depsOf, hnd, if_false]; exact hli.deps k
      · simp only [exists_, hnd, if_false]; exact hli.ex k
      · intro x hx
        simp only [callersOf, hnd, if_false] at hx
        exact hli.sub k x hx
      · intro x hx hxe
        simp only [callersOf, hnd, if_false]
        apply Classical.byContradiction
        intro hn
        exact hxe ((hdead x).1 (hli.removed k x hx hn))
    · intro x d hx hd hmem
      by_cases hdd : d ∈ dead
      · simp [callersOf, hdd] at hmem
      · simp only [callersOf, hdd, if_false] at hmem
        exact hli.unlinked x ((hdead x).2 hx) d hd hmem

end PCV.Incr
