/-
Lemmas for Props/C02: invariants of descriptor construction (PCV.Model.MiniProto.Build):
every `oneof_index` points at an existing oneof of its message.
-/
import PCV.Spec.MiniProto
namespace PCV.MiniProto

/-- every `oneof_index` of the message is in range -/
def OneofOk (m : MsgD) : Prop := ∀ f ∈ m.fields, ∀ i, f.oneofIndex = some i → i < m.oneofs.length

/-- property of a recursive body builder: all messages it returns are fine -/
def RecOk (rec : BodyRec) : Prop := ∀ scope name elems depth, ∀ k ∈ (rec scope name elems depth).msgs, OneofOk k

theorem newFieldD_oneof (nm : Naming) (name ty : String) (n : Int) (l : Option Nat) :
    (newFieldD nm name ty n l).oneofIndex = none := by
  unfold newFieldD; split <;> rfl

theorem asFieldD_oneof (nm : Naming) (syn : Syn) (mt : Nat) (a : FieldA) :
    (asFieldD nm syn mt a).1.oneofIndex = none := by
  unfold asFieldD
  simp only
  split <;> simp [newFieldD_oneof]

theorem asGroupFieldD_oneof (nm : Naming) (mt : Nat) (g : GroupA) :
    (asGroupFieldD nm mt g).1.oneofIndex = none := by
  unfold asGroupFieldD; rfl

theorem buildGroup_ok (nm : Naming) (f : FileA) (rec : BodyRec) (hrec : RecOk rec) (scope : String) (mt depth : Nat)
    (g : GroupA) :
    (buildGroup nm f rec scope mt depth g).1.oneofIndex = none ∧
    ∀ k ∈ (buildGroup nm f rec scope mt depth g).2.1.msgs, OneofOk k := by
  unfold buildGroup
  simp only
  split
  · refine ⟨asGroupFieldD_oneof nm mt g, ?_⟩
    intro k hk
    exact absurd hk (by simp [default])
  · refine ⟨asGroupFieldD_oneof nm mt g, ?_⟩
    intro k hk
    exact hrec _ _ _ _ k hk

theorem buildMembers_ok (nm : Naming) (f : FileA) (syn : Syn) (rec : BodyRec) (hrec : RecOk rec) (scope : String)
    (mt depth : Nat) : ∀ (ms : List Member),
      (∀ fd ∈ (buildMembers nm f syn rec scope mt depth ms).1, fd.oneofIndex = none) ∧
      (∀ p ∈ (buildMembers nm f syn rec scope mt depth ms).2.1, ∀ k ∈ p.2.msgs, OneofOk k)
  | [] => by simp [buildMembers]
  | .field a :: rest => by
    have ih := buildMembers_ok nm f syn rec hrec scope mt depth rest
    unfold buildMembers
    simp only
    refine ⟨?_, ih.2⟩
    intro fd hfd
    rcases List.mem_cons.mp hfd with rfl | h
    · exact asFieldD_oneof nm syn mt a
    · exact ih.1 fd h
  | .group g :: rest => by
    have ih := buildMembers_ok nm f syn rec hrec scope mt depth rest
    have hg := buildGroup_ok nm f rec hrec scope mt depth g
    unfold buildMembers
    simp only
    constructor
    · intro fd hfd
      rcases List.mem_cons.mp hfd with rfl | h
      · exact hg.1
      · exact ih.1 fd h
    · intro p hp
      rcases List.mem_cons.mp hp with rfl | h
      · exact hg.2
      · exact ih.2 p h

/-- invariant of the `addMessageBody` loop -/
def AccOk (acc : BodyAcc) : Prop := OneofOk acc.m ∧ ∀ k ∈ acc.kids, OneofOk k

theorem oneofOk_append_none {m : MsgD} (h : OneofOk m) (fs : List FieldD) (hf : ∀ fd ∈ fs, fd.oneofIndex = none)
    {m' : MsgD} (h1 : m'.fields = m.fields ++ fs) (h2 : m.oneofs.length ≤ m'.oneofs.length) : OneofOk m' := by
  intro fd hfd i hi
  rw [h1] at hfd
  rcases List.mem_append.mp hfd with h' | h'
  · exact Nat.lt_of_lt_of_le (h fd h' i hi) h2
  · rw [hf fd h'] at hi; exact absurd hi (by simp)

theorem oneofOk_same {m m' : MsgD} (h : OneofOk m) (h1 : m'.fields = m.fields) (h2 : m'.oneofs = m.oneofs) : OneofOk m' := by
  intro fd hfd i hi
  rw [h1] at hfd
  rw [h2]
  exact h fd hfd i hi

theorem mem_flatMap_msgs {ms : List (String × MsgOut)} {k : MsgD} (hk : k ∈ ms.flatMap (·.2.msgs)) :
    ∃ p ∈ ms, k ∈ p.2.msgs := by
  simpa [List.mem_flatMap] using hk

theorem buildElem_ok (nm : Naming) (f : FileA) (syn : Syn) (rec : BodyRec) (hrec : RecOk rec) (mt : Nat) (fq : String)
    (depth : Nat) (acc : BodyAcc) (hacc : AccOk acc) (e : Elem) : AccOk (buildElem nm f syn rec mt fq depth acc e) := by
  obtain ⟨hm, hk⟩ := hacc
  unfold buildElem
  cases e with
  | enum i =>
    simp only
    split
    · exact ⟨hm, hk⟩
    · exact ⟨oneofOk_same hm rfl rfl, hk⟩
  | extend x members =>
    simp only
    have hb := buildMembers_ok nm f syn rec hrec fq messageSetMax (depth + 1) members
    refine ⟨oneofOk_same hm rfl rfl, ?_⟩
    intro k hk'
    rcases List.mem_append.mp hk' with h | h
    · exact hk k h
    · obtain ⟨p, hp, hkp⟩ := mem_flatMap_msgs h
      exact hb.2 p hp k hkp
  | extRange s e => exact ⟨oneofOk_same hm rfl rfl, hk⟩
  | field a =>
    simp only
    refine ⟨oneofOk_append_none hm [(asFieldD nm syn mt a).1] ?_ rfl (Nat.le_refl _), hk⟩
    intro fd hfd
    rw [List.mem_singleton.mp hfd]
    exact asFieldD_oneof nm syn mt a
  | map k v n num =>
    simp only
    constructor
    · refine oneofOk_append_none hm [(mapDescriptors nm syn fq mt k v n num).1] ?_ rfl (Nat.le_refl _)
      intro fd hfd
      rw [List.mem_singleton.mp hfd]
      simp [mapDescriptors, newFieldD_oneof]
    · intro k' hk'
      rcases List.mem_append.mp hk' with h | h
      · exact hk k' h
      · rw [List.mem_singleton.mp h]
        intro fd hfd i hi
        simp only [mapDescriptors] at hfd
        rcases List.mem_cons.mp hfd with rfl | h'
        · simp [newFieldD_oneof] at hi
        · rw [List.mem_singleton.mp h'] at hi
          simp [newFieldD_oneof] at hi
  | group g =>
    simp only
    have hg := buildGroup_ok nm f rec hrec fq mt (depth + 1) g
    constructor
    · refine oneofOk_append_none hm [(buildGroup nm f rec fq mt (depth + 1) g).1] ?_ rfl (Nat.le_refl _)
      intro fd hfd
      rw [List.mem_singleton.mp hfd]
      exact hg.1
    · intro k hk'
      rcases List.mem_append.mp hk' with h | h
      · exact hk k h
      · exact hg.2 k h
  | oneof n members =>
    simp only
    have hb := buildMembers_ok nm f syn rec hrec fq mt (depth + 1) members
    constructor
    · intro fd hfd i hi
      simp only [List.length_append, List.length_cons, List.length_nil] at *
      rcases List.mem_append.mp hfd with h | h
      · have := hm fd h i hi; omega
      · obtain ⟨fd0, _, rfl⟩ := List.mem_map.mp h
        simp only [Option.some.injEq] at hi
        omega
    · intro k hk'
      rcases List.mem_append.mp hk' with h | h
      · exact hk k h
      · obtain ⟨p, hp, hkp⟩ := mem_flatMap_msgs h
        exact hb.2 p hp k hkp
  | msg i =>
    simp only
    split
    · exact ⟨hm, hk⟩
    · refine ⟨oneofOk_same hm rfl rfl, ?_⟩
      intro k hk'
      rcases List.mem_append.mp hk' with h | h
      · exact hk k h
      · exact hrec _ _ _ _ k h
  | reserved s e => exact ⟨oneofOk_same hm rfl rfl, hk⟩
  | reservedName n i => exact ⟨oneofOk_same hm rfl rfl, hk⟩
  | svc i => exact ⟨hm, hk⟩
  | value n num => exact ⟨hm, hk⟩
  | allowAlias b => exact ⟨hm, hk⟩
  | msgSet b => exact ⟨hm, hk⟩
  | rpc n i o cs ss => exact ⟨hm, hk⟩

theorem foldl_buildElem_ok (nm : Naming) (f : FileA) (syn : Syn) (rec : BodyRec) (hrec : RecOk rec) (mt : Nat) (fq : String)
    (depth : Nat) : ∀ (es : List Elem) (acc : BodyAcc), AccOk acc →
      AccOk (es.foldl (buildElem nm f syn rec mt fq depth) acc)
  | [], acc, h => h
  | e :: rest, acc, h => foldl_buildElem_ok nm f syn rec hrec mt fq depth rest _ (buildElem_ok nm f syn rec hrec mt fq depth acc h e)

theorem assignSynthetic_ok (bound : Nat) : ∀ (fs : List FieldD) (base : Nat) (names : List String),
    (∀ f ∈ fs, ∀ i, f.oneofIndex = some i → i < bound) → base + names.length ≤ bound →
    ∀ f ∈ assignSynthetic base fs names, ∀ i, f.oneofIndex = some i → i < bound
  | [], _, _, _, _ => by simp [assignSynthetic]
  | f :: rest, base, names, h, hb => by
    have hrest : ∀ g ∈ rest, ∀ i, g.oneofIndex = some i → i < bound := fun g hg => h g (List.mem_cons_of_mem _ hg)
    unfold assignSynthetic
    by_cases hp : f.proto3Optional = true
    · simp only [hp, if_true]
      cases names with
      | nil =>
        intro g hg i hi
        rcases List.mem_cons.mp hg with rfl | hg'
        · exact h _ (List.mem_cons_self ..) i hi
        · exact assignSynthetic_ok bound rest base [] hrest (by simpa using hb) g hg' i hi
      | cons n ns =>
        intro g hg i hi
        simp only [List.length_cons] at hb
        rcases List.mem_cons.mp hg with rfl | hg'
        · simp only [Option.some.injEq] at hi; omega
        · exact assignSynthetic_ok bound rest (base + 1) ns hrest (by omega) g hg' i hi
    · simp only [hp, Bool.false_eq_true, if_false]
      intro g hg i hi
      rcases List.mem_cons.mp hg with rfl | hg'
      · exact h _ (List.mem_cons_self ..) i hi
      · exact assignSynthetic_ok bound rest base names hrest hb g hg' i hi

theorem processProto3Optional_ok (nm : Naming) (m : MsgD) (h : OneofOk m) : OneofOk (processProto3Optional nm m) := by
  unfold processProto3Optional
  simp only
  split
  · exact h
  · intro f hf i hi
    simp only [List.length_append] at *
    exact assignSynthetic_ok _ m.fields m.oneofs.length _
      (fun g hg j hj => by have := h g hg j hj; omega) (Nat.le_refl _) f hf i hi

theorem buildBody_ok (nm : Naming) (f : FileA) (syn : Syn) : ∀ (fuel : Nat), RecOk (buildBody nm f syn fuel)
  | 0 => by
    intro scope name elems depth k hk
    exact absurd hk (by simp [buildBody, default])
  | fuel + 1 => by
    intro scope name elems depth k hk
    unfold buildBody at hk
    simp only at hk
    have hbare : OneofOk ({ fullName := joinName scope name, name := name } : MsgD) := by
      intro fd hfd; simp at hfd
    split at hk
    · rw [List.mem_singleton.mp hk]; exact hbare
    · split at hk
      · rw [List.mem_singleton.mp hk]; exact hbare
      · have hacc := foldl_buildElem_ok nm f syn (buildBody nm f syn fuel) (buildBody_ok nm f syn fuel)
          (if (msgSetOptions elems == [true]) = true then messageSetMax else fieldMax)
          (joinName scope name) depth elems
          { m := { fullName := joinName scope name, name := name, messageSet := (msgSetOptions elems).head? },
            errs := if (msgSetOptions elems == [true] && syn == Syn.proto3) = true then ["msgset-proto3"] else [] }
          ⟨by intro fd hfd; simp at hfd, by intro k hk; simp at hk⟩
        rcases List.mem_cons.mp hk with rfl | hk'
        · split
          · exact processProto3Optional_ok nm _ hacc.1
          · exact hacc.1
        · exact hacc.2 k hk'

theorem buildTop_ok (nm : Naming) (f : FileA) : ∀ (es : List Elem) (acc : FileD × List Rule),
    (∀ m ∈ acc.1.msgs, OneofOk m) → ∀ m ∈ (buildTop nm f es acc).1.msgs, OneofOk m
  | [], acc, h => by simpa [buildTop] using h
  | e :: rest, (fd, errs), h => by
    unfold buildTop
    apply buildTop_ok nm f rest
    cases e with
    | enum i =>
      simp only
      split
      · exact h
      · exact h
    | extend x members =>
      simp only
      have hb := buildMembers_ok nm f f.syn (buildBody nm f f.syn buildFuel) (buildBody_ok nm f f.syn buildFuel)
        f.pkg messageSetMax 1 members
      intro m hm
      rcases List.mem_append.mp hm with h' | h'
      · exact h m h'
      · obtain ⟨p, hp, hkp⟩ := mem_flatMap_msgs h'
        exact hb.2 p hp m hkp
    | msg i =>
      simp only
      split
      · exact h
      · intro m hm
        rcases List.mem_append.mp hm with h' | h'
        · exact h m h'
        · exact buildBody_ok nm f f.syn buildFuel _ _ _ _ m h'
    | svc i =>
      simp only
      split
      · exact h
      · exact h
    | field a => exact h
    | group g => exact h
    | map k v n num => exact h
    | oneof n ms => exact h
    | extRange s e => exact h
    | reserved s e => exact h
    | reservedName n i => exact h
    | value n num => exact h
    | allowAlias b => exact h
    | msgSet b => exact h
    | rpc n i o cs ss => exact h

/-- every `oneof_index` in every message of a constructed file is valid -/
theorem buildFile_oneofOk (nm : Naming) (f : FileA) : ∀ m ∈ (buildFile nm f).1.msgs, OneofOk m := by
  unfold buildFile
  apply buildTop_ok
  intro m hm
  simp at hm

end PCV.MiniProto
