/-
Lemmas about the nybble-trie model (`PCV.Model.Trie`): table access, the representation
invariant (`Shape`, `Lab`), its preservation by `insStep`/`insertLoop`/`grow`, and the
lookup walk.  Headline theorems are in `PCV/Props/C41.lean`.
-/
import PCV.Model.Trie
namespace PCV.Trie

/-! ## Table access -/

theorem get2_set2_same {a : List Row} {n h v : Nat} (hn : n < a.length)
    (hh : h < (a.getD n []).length) : get2 (set2 a n h v) n h = v := by
  simp [get2, set2, List.getD_eq_getElem?_getD, hn] at hh ⊢
  simp [hh]

theorem get2_set2_ne {a : List Row} {n h v n' h' : Nat} (hne : n' ≠ n ∨ h' ≠ h) :
    get2 (set2 a n h v) n' h' = get2 a n' h' := by
  simp only [get2, set2, List.getD_eq_getElem?_getD]
  by_cases hn : n' = n
  · subst hn
    have hh : h' ≠ h := by rcases hne with h | h; exact absurd rfl h; exact h
    by_cases hl : n' < a.length
    · simp [hl, Ne.symm hh]
    · simp [hl]
  · simp [Ne.symm hn]

theorem set2_length (a : List Row) (n h v : Nat) : (set2 a n h v).length = a.length := by
  simp [set2]

theorem get2_append_old {a : List Row} {r : Row} {n h : Nat} (hn : n < a.length) :
    get2 (a ++ [r]) n h = get2 a n h := by
  simp [get2, List.getD_eq_getElem?_getD, List.getElem?_append, hn]

theorem get2_append_new {a : List Row} {s h : Nat} (hh : h < 16) :
    get2 (a ++ [allOnes s]) a.length h = s := by
  have h1 : (a ++ [allOnes s]).getD a.length [] = allOnes s := by
    simp [List.getD_eq_getElem?_getD]
  unfold get2
  rw [h1]
  simp only [allOnes, List.getD_eq_getElem?_getD, List.getElem?_replicate, hh]
  simp

def Rows (a : List Row) : Prop := ∀ r ∈ a, r.length = 16

theorem Rows.getD {a : List Row} (hr : Rows a) {n : Nat} (hn : n < a.length) :
    (a.getD n []).length = 16 := by
  have : a.getD n [] = a[n] := by simp [List.getD_eq_getElem?_getD, hn]
  rw [this]; exact hr _ (List.getElem_mem hn)

theorem Rows.set2 {a : List Row} (hr : Rows a) (n h v : Nat) : Rows (set2 a n h v) := by
  intro r hmem
  unfold PCV.Trie.set2 at hmem
  rcases List.mem_or_eq_of_mem_set hmem with h1 | h1
  · exact hr r h1
  · subst h1
    by_cases hn : n < a.length
    · rw [List.length_set]; exact hr.getD hn
    · have : a.getD n [] = [] := by
        simp [List.getD_eq_getElem?_getD, List.getElem?_eq_none (Nat.le_of_not_lt hn)]
      rw [this] at hmem
      have : a.set n ([].set h v) = a := by
        apply List.set_eq_of_length_le; omega
      rw [this] at hmem
      have := hr _ hmem
      simp at this

theorem Rows.append {a : List Row} (hr : Rows a) (s : Nat) : Rows (a ++ [allOnes s]) := by
  intro r hmem
  rcases List.mem_append.mp hmem with h | h
  · exact hr r h
  · have : r = allOnes s := by simpa using h
    subst this; simp [allOnes]

theorem sent_lt (t : Nyb) : t.sent < 2 ^ t.bits := by
  have : 0 < 2 ^ t.bits := Nat.two_pow_pos t.bits
  unfold Nyb.sent; omega

theorem nyb_lt (b : UInt8) : b.toNat / 16 < 16 ∧ b.toNat % 16 < 16 := by
  have := b.toNat_lt
  omega

theorem byte_of_nyb (b : UInt8) : UInt8.ofNat (b.toNat / 16 * 16 + b.toNat % 16) = b := by
  have : b.toNat / 16 * 16 + b.toNat % 16 = b.toNat := by omega
  rw [this]; simp

theorem nyb_of_byte {h l : Nat} (hh : h < 16) (hl : l < 16) :
    (UInt8.ofNat (h * 16 + l)).toNat / 16 = h ∧ (UInt8.ofNat (h * 16 + l)).toNat % 16 = l := by
  have : (UInt8.ofNat (h * 16 + l)).toNat = h * 16 + l := by
    simp [UInt8.toNat_ofNat']; omega
  rw [this]; omega

/-! ## Representation invariant -/

structure Shape (t : Nyb) : Prop where
  rows_hi : Rows t.hi
  rows_lo : Rows t.lo
  ent_hi : ∀ n h, n < t.hi.length → h < 16 → get2 t.hi n h = t.sent ∨ get2 t.hi n h < t.lo.length
  ent_lo : ∀ m l, m < t.lo.length → l < 16 → get2 t.lo m l = t.sent ∨ get2 t.lo m l < t.hi.length
  hi_pos : 0 < t.hi.length
  hi_le : t.hi.length ≤ t.sent
  lo_le : t.lo.length ≤ t.hi.length
  has_le : t.has.length ≤ t.hi.length

/-- the node reached from node `n` along `key` (`none` when the walk falls off the trie; the
    last node may be an invalid index) -/
def nodeFrom (t : Nyb) : Key → Nat → Option Nat
  | [], n => some n
  | b :: rest, n =>
    if t.hi.length ≤ n then none
    else if t.lo.length ≤ get2 t.hi n (b.toNat / 16) then none
    else nodeFrom t rest (get2 t.lo (get2 t.hi n (b.toNat / 16)) (b.toNat % 16))

theorem nodeFrom_append (t : Nyb) : ∀ (k1 k2 : Key) (n : Nat),
    nodeFrom t (k1 ++ k2) n = (nodeFrom t k1 n).bind (nodeFrom t k2)
  | [], _, _ => rfl
  | b :: k1, k2, n => by
    simp only [List.cons_append, nodeFrom]
    split
    · rfl
    · split
      · rfl
      · exact nodeFrom_append t k1 k2 _

/-- a walk that ends in a valid node started in a valid node -/
theorem nodeFrom_start_valid {t : Nyb} : ∀ {k : Key} {n n' : Nat},
    nodeFrom t k n = some n' → n' < t.hi.length → n < t.hi.length
  | [], n, n', h, hv => by simp [nodeFrom] at h; omega
  | b :: k, n, n', h, _ => by
    simp only [nodeFrom] at h
    split at h
    · simp at h
    · omega

/-- ghost labelling: `hk n` is the key of hi node `n`, `lk m` the key and high nybble of lo
    row `m`; every node is reached by its own key -/
structure Lab (t : Nyb) (hk : Nat → Key) (lk : Nat → Key × Nat) : Prop where
  root : hk 0 = []
  hi_lab : ∀ n h, n < t.hi.length → h < 16 → get2 t.hi n h < t.lo.length →
    lk (get2 t.hi n h) = (hk n, h)
  lo_lab : ∀ m l, m < t.lo.length → l < 16 → get2 t.lo m l < t.hi.length →
    hk (get2 t.lo m l) = (lk m).1 ++ [UInt8.ofNat ((lk m).2 * 16 + l)]
  reach : ∀ n, n < t.hi.length → nodeFrom t (hk n) 0 = some n

/-- the key that leads to a valid node is its label -/
theorem Lab.sound {t hk lk} (lab : Lab t hk lk) : ∀ (k : Key) (n0 n : Nat),
    nodeFrom t k n0 = some n → n < t.hi.length → hk n = hk n0 ++ k
  | [], n0, n, h, _ => by simp [nodeFrom] at h; subst h; simp
  | b :: k, n0, n, h, hv => by
    have h0 := nodeFrom_start_valid h hv
    simp only [nodeFrom] at h
    split at h
    · simp at h
    · split at h
      · simp at h
      · next h1 h2 =>
        have hn1 := nodeFrom_start_valid h hv
        have := lab.sound k _ n h hv
        rw [this, lab.lo_lab _ _ (by omega) (nyb_lt b).2 hn1,
          lab.hi_lab _ _ h0 (nyb_lt b).1 (by omega)]
        dsimp only
        rw [byte_of_nyb]
        simp

/-- `t'` extends `t`: tables only grow and valid entries are kept -/
structure Ext (t t' : Nyb) : Prop where
  hi_len : t.hi.length ≤ t'.hi.length
  lo_len : t.lo.length ≤ t'.lo.length
  hi_keep : ∀ n h, n < t.hi.length → h < 16 → get2 t.hi n h < t.lo.length →
    get2 t'.hi n h = get2 t.hi n h
  lo_keep : ∀ m l, m < t.lo.length → l < 16 → get2 t.lo m l < t.hi.length →
    get2 t'.lo m l = get2 t.lo m l

theorem Ext.refl (t : Nyb) : Ext t t := ⟨Nat.le_refl _, Nat.le_refl _, fun _ _ _ _ _ => rfl, fun _ _ _ _ _ => rfl⟩

theorem Ext.trans {a b c : Nyb} (h1 : Ext a b) (h2 : Ext b c) : Ext a c := by
  refine ⟨Nat.le_trans h1.hi_len h2.hi_len, Nat.le_trans h1.lo_len h2.lo_len, ?_, ?_⟩
  · intro n h hn hh hv
    have e1 := h1.hi_keep n h hn hh hv
    rw [h2.hi_keep n h (Nat.lt_of_lt_of_le hn h1.hi_len) hh (by rw [e1]; exact Nat.lt_of_lt_of_le hv h1.lo_len), e1]
  · intro m l hm hl hv
    have e1 := h1.lo_keep m l hm hl hv
    rw [h2.lo_keep m l (Nat.lt_of_lt_of_le hm h1.lo_len) hl (by rw [e1]; exact Nat.lt_of_lt_of_le hv h1.hi_len), e1]

theorem Ext.nodeFrom {t t' : Nyb} (e : Ext t t') : ∀ (k : Key) (n n' : Nat),
    nodeFrom t k n = some n' → n' < t.hi.length → nodeFrom t' k n = some n'
  | [], _, _, h, _ => by simpa [PCV.Trie.nodeFrom] using h
  | b :: k, n, n', h, hv => by
    have h0 := nodeFrom_start_valid h hv
    simp only [PCV.Trie.nodeFrom] at h ⊢
    split at h
    · simp at h
    · split at h
      · simp at h
      · next h1 h2 =>
        have hn1 := nodeFrom_start_valid h hv
        have e1 := e.hi_keep n _ h0 (nyb_lt b).1 (by omega)
        have e2 := e.lo_keep _ _ (by omega : get2 t.hi n (b.toNat / 16) < t.lo.length) (nyb_lt b).2 hn1
        have := e.hi_len
        have := e.lo_len
        rw [e1, e2]
        rw [if_neg (by omega), if_neg (by omega)]
        exact e.nodeFrom k _ n' h hv

/-! ## The two allocations of `insStep` -/

def allocLo (t : Nyb) (n h : Nat) : Nyb :=
  { t with hi := set2 t.hi n h (t.lo.length % 2 ^ t.bits), lo := t.lo ++ [allOnes t.sent] }

def allocHi (t : Nyb) (m l : Nat) : Nyb :=
  { t with lo := set2 t.lo m l (t.hi.length % 2 ^ t.bits), hi := t.hi ++ [allOnes t.sent] }

theorem insStep_eq (t : Nyb) (b : UInt8) (n : Nat) :
    insStep t b n =
      (let t1 := if t.lo.length ≤ get2 t.hi n (b.toNat / 16) then allocLo t n (b.toNat / 16) else t
       let m1 := get2 t1.hi n (b.toNat / 16)
       let m2 := get2 t1.lo m1 (b.toNat % 16)
       if t1.hi.length ≤ m2 then
         if t1.hi.length = t1.sent then (t1, none)
         else (allocHi t1 m1 (b.toNat % 16), some (get2 (allocHi t1 m1 (b.toNat % 16)).lo m1 (b.toNat % 16)))
       else (t1, some m2)) := rfl

theorem allocLo_ok {t hk lk} (sh : Shape t) (lab : Lab t hk lk) {n h : Nat}
    (hn : n < t.hi.length) (hh : h < 16) (hinv : t.lo.length ≤ get2 t.hi n h)
    (hstrict : t.lo.length < t.hi.length) :
    Shape (allocLo t n h) ∧
    Lab (allocLo t n h) hk (fun x => if x = t.lo.length then (hk n, h) else lk x) ∧
    Ext t (allocLo t n h) ∧ get2 (allocLo t n h).hi n h = t.lo.length ∧
    (∀ l, l < 16 → get2 (allocLo t n h).lo t.lo.length l = t.sent) := by
  have hmod : t.lo.length % 2 ^ t.bits = t.lo.length := by
    apply Nat.mod_eq_of_lt
    have := sent_lt t; have := sh.hi_le; omega
  have hget : get2 (allocLo t n h).hi n h = t.lo.length := by
    simp only [allocLo, hmod]
    exact get2_set2_same hn (by rw [sh.rows_hi.getD hn]; exact hh)
  have hother : ∀ n' h', (n' ≠ n ∨ h' ≠ h) → get2 (allocLo t n h).hi n' h' = get2 t.hi n' h' := by
    intro n' h' hne
    simp only [allocLo]
    exact get2_set2_ne hne
  have hlo_old : ∀ m l, m < t.lo.length → get2 (allocLo t n h).lo m l = get2 t.lo m l := by
    intro m l hm
    simp only [allocLo]
    exact get2_append_old hm
  have hlo_new : ∀ l, l < 16 → get2 (allocLo t n h).lo t.lo.length l = t.sent := by
    intro l hl
    simp only [allocLo]
    exact get2_append_new hl
  have hhilen : (allocLo t n h).hi.length = t.hi.length := by simp [allocLo, set2_length]
  have hlolen : (allocLo t n h).lo.length = t.lo.length + 1 := by simp [allocLo]
  have hsent : (allocLo t n h).sent = t.sent := rfl
  have ext : Ext t (allocLo t n h) := by
    refine ⟨by omega, by omega, ?_, ?_⟩
    · intro n' h' _ _ hv
      by_cases hne : n' ≠ n ∨ h' ≠ h
      · exact hother n' h' hne
      · have : n' = n ∧ h' = h := by omega
        rw [this.1, this.2] at hv
        omega
    · intro m l hm _ _
      exact hlo_old m l hm
  have shape : Shape (allocLo t n h) := by
    refine ⟨?_, ?_, ?_, ?_, by omega, by rw [hhilen, hsent]; exact sh.hi_le, by omega, ?_⟩
    · simp only [allocLo]; exact sh.rows_hi.set2 _ _ _
    · simp only [allocLo]; exact sh.rows_lo.append _
    · intro n' h' hn' hh'
      rw [hhilen] at hn'
      by_cases hne : n' ≠ n ∨ h' ≠ h
      · rw [hother n' h' hne, hsent, hlolen]
        rcases sh.ent_hi n' h' hn' hh' with e | e
        · exact Or.inl e
        · right; omega
      · have : n' = n ∧ h' = h := by omega
        rw [this.1, this.2, hget, hlolen]
        right; omega
    · intro m l hm hl
      rw [hlolen] at hm
      rw [hsent, hhilen]
      by_cases hmn : m = t.lo.length
      · rw [hmn, hlo_new l hl]; exact Or.inl rfl
      · rw [hlo_old m l (by omega)]
        exact sh.ent_lo m l (by omega) hl
    · show t.has.length ≤ (allocLo t n h).hi.length
      rw [hhilen]; exact sh.has_le
  refine ⟨shape, ?_, ext, hget, hlo_new⟩
  refine ⟨lab.root, ?_, ?_, ?_⟩
  · intro n' h' hn' hh' hv
    rw [hhilen] at hn'
    rw [hlolen] at hv
    by_cases hne : n' ≠ n ∨ h' ≠ h
    · rw [hother n' h' hne] at hv ⊢
      have hold : get2 t.hi n' h' < t.lo.length := by
        rcases sh.ent_hi n' h' hn' hh' with e | e
        · have := sh.hi_le; omega
        · exact e
      rw [if_neg (by omega)]
      exact lab.hi_lab n' h' hn' hh' hold
    · have : n' = n ∧ h' = h := by omega
      rw [this.1, this.2, hget]
      simp
  · intro m l hm hl hv
    rw [hlolen] at hm
    rw [hhilen] at hv
    by_cases hmn : m = t.lo.length
    · rw [hmn, hlo_new l hl] at hv
      have := sh.hi_le; omega
    · rw [hlo_old m l (by omega)] at hv ⊢
      rw [if_neg hmn]
      exact lab.lo_lab m l (by omega) hl hv
  · intro x hx
    rw [hhilen] at hx
    exact ext.nodeFrom _ _ _ (lab.reach x hx) hx

theorem allocHi_ok {t hk lk} (sh : Shape t) (lab : Lab t hk lk) {n h m l : Nat}
    (hn : n < t.hi.length) (hh : h < 16) (hm : m < t.lo.length) (hl : l < 16)
    (hnm : get2 t.hi n h = m) (hinv : t.hi.length ≤ get2 t.lo m l) (hfull : t.hi.length ≠ t.sent) :
    Shape (allocHi t m l) ∧
    Lab (allocHi t m l) (fun x => if x = t.hi.length then hk n ++ [UInt8.ofNat (h * 16 + l)] else hk x) lk ∧
    Ext t (allocHi t m l) ∧ get2 (allocHi t m l).lo m l = t.hi.length ∧
    (allocHi t m l).lo.length < (allocHi t m l).hi.length := by
  have hlt : t.hi.length < t.sent := by have := sh.hi_le; omega
  have hmod : t.hi.length % 2 ^ t.bits = t.hi.length := by
    apply Nat.mod_eq_of_lt
    have := sent_lt t; omega
  have hget : get2 (allocHi t m l).lo m l = t.hi.length := by
    simp only [allocHi, hmod]
    exact get2_set2_same hm (by rw [sh.rows_lo.getD hm]; exact hl)
  have hother : ∀ m' l', (m' ≠ m ∨ l' ≠ l) → get2 (allocHi t m l).lo m' l' = get2 t.lo m' l' := by
    intro m' l' hne
    simp only [allocHi]
    exact get2_set2_ne hne
  have hhi_old : ∀ n' h', n' < t.hi.length → get2 (allocHi t m l).hi n' h' = get2 t.hi n' h' := by
    intro n' h' hn'
    simp only [allocHi]
    exact get2_append_old hn'
  have hhi_new : ∀ h', h' < 16 → get2 (allocHi t m l).hi t.hi.length h' = t.sent := by
    intro h' hh'
    simp only [allocHi]
    exact get2_append_new hh'
  have hlolen : (allocHi t m l).lo.length = t.lo.length := by simp [allocHi, set2_length]
  have hhilen : (allocHi t m l).hi.length = t.hi.length + 1 := by simp [allocHi]
  have hsent : (allocHi t m l).sent = t.sent := rfl
  have hlole := sh.lo_le
  have ext : Ext t (allocHi t m l) := by
    refine ⟨by omega, by omega, ?_, ?_⟩
    · intro n' h' hn' _ _
      exact hhi_old n' h' hn'
    · intro m' l' _ _ hv
      by_cases hne : m' ≠ m ∨ l' ≠ l
      · exact hother m' l' hne
      · have : m' = m ∧ l' = l := by omega
        rw [this.1, this.2] at hv
        omega
  have shape : Shape (allocHi t m l) := by
    refine ⟨?_, ?_, ?_, ?_, by omega, by rw [hhilen, hsent]; omega, by omega, ?_⟩
    · simp only [allocHi]; exact sh.rows_hi.append _
    · simp only [allocHi]; exact sh.rows_lo.set2 _ _ _
    · intro n' h' hn' hh'
      rw [hhilen] at hn'
      rw [hsent, hlolen]
      by_cases hnn : n' = t.hi.length
      · rw [hnn, hhi_new h' hh']; exact Or.inl rfl
      · rw [hhi_old n' h' (by omega)]
        exact sh.ent_hi n' h' (by omega) hh'
    · intro m' l' hm' hl'
      rw [hlolen] at hm'
      rw [hsent, hhilen]
      by_cases hne : m' ≠ m ∨ l' ≠ l
      · rw [hother m' l' hne]
        rcases sh.ent_lo m' l' hm' hl' with e | e
        · exact Or.inl e
        · right; omega
      · have : m' = m ∧ l' = l := by omega
        rw [this.1, this.2, hget]
        right; omega
    · show t.has.length ≤ (allocHi t m l).hi.length
      have := sh.has_le; omega
  refine ⟨shape, ?_, ext, hget, by omega⟩
  have hreach_old : ∀ x, x < t.hi.length → nodeFrom (allocHi t m l) (hk x) 0 = some x :=
    fun x hx => ext.nodeFrom _ _ _ (lab.reach x hx) hx
  refine ⟨?_, ?_, ?_, ?_⟩
  · have := sh.hi_pos
    show (if 0 = t.hi.length then _ else hk 0) = []
    rw [if_neg (by omega)]; exact lab.root
  · intro n' h' hn' hh' hv
    rw [hhilen] at hn'
    rw [hlolen] at hv
    by_cases hnn : n' = t.hi.length
    · rw [hnn, hhi_new h' hh'] at hv
      omega
    · rw [hhi_old n' h' (by omega)] at hv ⊢
      simp only [if_neg hnn]
      exact lab.hi_lab n' h' (by omega) hh' hv
  · intro m' l' hm' hl' hv
    rw [hlolen] at hm'
    rw [hhilen] at hv
    by_cases hne : m' ≠ m ∨ l' ≠ l
    · rw [hother m' l' hne] at hv ⊢
      have hold : get2 t.lo m' l' < t.hi.length := by
        rcases sh.ent_lo m' l' hm' hl' with e | e
        · omega
        · exact e
      simp only [if_neg (Nat.ne_of_lt hold)]
      exact lab.lo_lab m' l' hm' hl' hold
    · have : m' = m ∧ l' = l := by omega
      rw [this.1, this.2, hget]
      simp only [if_pos]
      have := lab.hi_lab n h hn hh (by rw [hnm]; exact hm)
      rw [hnm] at this
      rw [this]
  · intro x hx
    rw [hhilen] at hx
    by_cases hxn : x = t.hi.length
    · simp only [if_pos hxn]
      rw [nodeFrom_append, hreach_old n hn]
      obtain ⟨e1, e2⟩ := nyb_of_byte hh hl
      simp only [Option.bind, PCV.Trie.nodeFrom, e1, e2]
      rw [hhi_old n h hn, hnm, hget, hhilen, hlolen]
      rw [if_neg (by omega), if_neg (by omega), hxn]
    · simp only [if_neg hxn]
      exact hreach_old x (by omega)

/-! ## One byte of `insert` -/

/-- "the retry is pending": walking `key` from `n` follows existing pointers until it needs a
    new hi node — in particular it needs no new lo row before that -/
def Pend (t : Nyb) : Key → Nat → Prop
  | [], _ => False
  | b :: rest, n =>
    get2 t.hi n (b.toNat / 16) < t.lo.length ∧
    (t.hi.length ≤ get2 t.lo (get2 t.hi n (b.toNat / 16)) (b.toNat % 16) ∨
      Pend t rest (get2 t.lo (get2 t.hi n (b.toNat / 16)) (b.toNat % 16)))

/-- what one successful / failed iteration guarantees -/
def StepPost (_t : Nyb) (hk : Nat → Key) (b : UInt8) (rest : Key) (n : Nat)
    (t' : Nyb) (hk' : Nat → Key) : Option Nat → Prop
  | some n' =>
    n' < t'.hi.length ∧ hk' n' = hk n ++ [b] ∧
    get2 t'.hi n (b.toNat / 16) < t'.lo.length ∧
    get2 t'.lo (get2 t'.hi n (b.toNat / 16)) (b.toNat % 16) = n' ∧
    (t'.lo.length < t'.hi.length ∨ Pend t' rest n')
  | none => t'.hi.length = t'.sent ∧ Pend t' (b :: rest) n

theorem insStep_ok {t hk lk} (sh : Shape t) (lab : Lab t hk lk) {b : UInt8} {rest : Key} {n : Nat}
    (hn : n < t.hi.length) (hslack : t.lo.length < t.hi.length ∨ Pend t (b :: rest) n)
    {t' : Nyb} {r : Option Nat} (hstep : insStep t b n = (t', r)) :
    ∃ hk' lk', Shape t' ∧ Lab t' hk' lk' ∧ Ext t t' ∧ (∀ x, x < t.hi.length → hk' x = hk x) ∧
      t'.bits = t.bits ∧ t'.has = t.has ∧ StepPost t hk b rest n t' hk' r := by
  obtain ⟨hh, hl⟩ := nyb_lt b
  rw [insStep_eq] at hstep
  by_cases hA : t.lo.length ≤ get2 t.hi n (b.toNat / 16)
  · -- a new lo row is needed: only possible in the strict case
    have hstrict : t.lo.length < t.hi.length := by
      rcases hslack with h | h
      · exact h
      · have := h.1; omega
    obtain ⟨sh1, lab1, ext1, hg1, hnew1⟩ := allocLo_ok sh lab hn hh hA hstrict
    simp only [if_pos hA] at hstep
    have hlen1 : (allocLo t n (b.toNat / 16)).hi.length = t.hi.length := by simp [allocLo, set2_length]
    have hlolen1 : (allocLo t n (b.toNat / 16)).lo.length = t.lo.length + 1 := by simp [allocLo]
    have hsent1 : (allocLo t n (b.toNat / 16)).sent = t.sent := rfl
    rw [hg1, hnew1 _ hl] at hstep
    have hle : (allocLo t n (b.toNat / 16)).hi.length ≤ t.sent := by rw [hlen1]; exact sh.hi_le
    rw [if_pos hle] at hstep
    by_cases hfull : (allocLo t n (b.toNat / 16)).hi.length = (allocLo t n (b.toNat / 16)).sent
    · rw [if_pos hfull] at hstep
      simp only [Prod.mk.injEq] at hstep
      obtain ⟨rfl, rfl⟩ := hstep
      refine ⟨hk, _, sh1, lab1, ext1, fun _ _ => rfl, rfl, rfl, hfull, ?_⟩
      refine ⟨by rw [hg1, hlolen1]; omega, Or.inl ?_⟩
      rw [hg1, hnew1 _ hl]; exact hle
    · rw [if_neg hfull] at hstep
      simp only [Prod.mk.injEq] at hstep
      obtain ⟨rfl, rfl⟩ := hstep
      obtain ⟨sh2, lab2, ext2, hg2, hstrict2⟩ := allocHi_ok sh1 lab1 (n := n) (h := b.toNat / 16)
        (m := t.lo.length) (l := b.toNat % 16) (by rw [hlen1]; exact hn) hh (by omega) hl hg1
        (by rw [hnew1 _ hl]; exact hle) hfull
      refine ⟨_, _, sh2, lab2, ext1.trans ext2, ?_, rfl, rfl, ?_⟩
      · intro x hx
        rw [if_neg (by omega)]
      · have hkeep := ext2.hi_keep n (b.toNat / 16) (by rw [hlen1]; exact hn) hh (by rw [hg1, hlolen1]; omega)
        refine ⟨?_, ?_, ?_, ?_, Or.inl hstrict2⟩
        · rw [hg2]; simp [allocHi]
        · rw [hg2]; dsimp only; rw [if_pos rfl, byte_of_nyb]
        · rw [hkeep, hg1]
          have := ext2.lo_len; omega
        · rw [hkeep, hg1]
  · simp only [if_neg hA] at hstep
    have hm1 : get2 t.hi n (b.toNat / 16) < t.lo.length := by omega
    by_cases hB : t.hi.length ≤ get2 t.lo (get2 t.hi n (b.toNat / 16)) (b.toNat % 16)
    · rw [if_pos hB] at hstep
      by_cases hfull : t.hi.length = t.sent
      · rw [if_pos hfull] at hstep
        simp only [Prod.mk.injEq] at hstep
        obtain ⟨rfl, rfl⟩ := hstep
        exact ⟨hk, lk, sh, lab, Ext.refl _, fun _ _ => rfl, rfl, rfl, hfull, hm1, Or.inl hB⟩
      · rw [if_neg hfull] at hstep
        simp only [Prod.mk.injEq] at hstep
        obtain ⟨rfl, rfl⟩ := hstep
        obtain ⟨sh2, lab2, ext2, hg2, hstrict2⟩ := allocHi_ok sh lab (n := n) (h := b.toNat / 16)
          (m := get2 t.hi n (b.toNat / 16)) (l := b.toNat % 16) hn hh hm1 hl rfl hB hfull
        refine ⟨_, _, sh2, lab2, ext2, ?_, rfl, rfl, ?_⟩
        · intro x hx
          rw [if_neg (by omega)]
        · have hkeep := ext2.hi_keep n (b.toNat / 16) hn hh hm1
          refine ⟨?_, ?_, ?_, ?_, Or.inl hstrict2⟩
          · rw [hg2]; simp [allocHi]
          · rw [hg2]; dsimp only; rw [if_pos rfl, byte_of_nyb]
          · rw [hkeep]
            have := ext2.lo_len; omega
          · rw [hkeep]
    · rw [if_neg hB] at hstep
      simp only [Prod.mk.injEq] at hstep
      obtain ⟨rfl, rfl⟩ := hstep
      have hm2 : get2 t.lo (get2 t.hi n (b.toNat / 16)) (b.toNat % 16) < t.hi.length := by omega
      refine ⟨hk, lk, sh, lab, Ext.refl _, fun _ _ => rfl, rfl, rfl, hm2, ?_, hm1, rfl, ?_⟩
      · apply lab.sound [b] n _ _ hm2
        simp only [nodeFrom]
        rw [if_neg (by omega), if_neg (by omega)]
      · rcases hslack with h | h
        · exact Or.inl h
        · rcases h.2 with h2 | h2
          · omega
          · exact Or.inr h2

/-! ## The loop of `insert` -/

def LoopPost (hk : Nat → Key) (key : Key) (n : Nat) (t' : Nyb) (hk' : Nat → Key) : Option Nat → Prop
  | some n' => n' < t'.hi.length ∧ hk' n' = hk n ++ key ∧ t'.lo.length < t'.hi.length
  | none => t'.hi.length = t'.sent ∧ Pend t' key n

theorem insertLoop_ok : ∀ (key : Key) {t : Nyb} {hk : Nat → Key} {lk : Nat → Key × Nat} {n : Nat},
    Shape t → Lab t hk lk → n < t.hi.length → (t.lo.length < t.hi.length ∨ Pend t key n) →
    ∀ {t' : Nyb} {r : Option Nat}, insertLoop t key n = (t', r) →
    ∃ hk' lk', Shape t' ∧ Lab t' hk' lk' ∧ Ext t t' ∧ (∀ x, x < t.hi.length → hk' x = hk x) ∧
      t'.bits = t.bits ∧ t'.has = t.has ∧ LoopPost hk key n t' hk' r
  | [], t, hk, lk, n, sh, lab, hn, hslack, t', r, h => by
    simp only [insertLoop, Prod.mk.injEq] at h
    obtain ⟨rfl, rfl⟩ := h
    refine ⟨hk, lk, sh, lab, Ext.refl _, fun _ _ => rfl, rfl, rfl, hn, by simp, ?_⟩
    rcases hslack with h | h
    · exact h
    · exact absurd h (by simp [Pend])
  | b :: rest, t, hk, lk, n, sh, lab, hn, hslack, t', r, h => by
    simp only [insertLoop] at h
    cases hstep : insStep t b n with
    | mk t1 r1 =>
      rw [hstep] at h
      obtain ⟨hk1, lk1, sh1, lab1, ext1, agree1, hbits1, hhas1, post1⟩ :=
        insStep_ok sh lab hn hslack hstep
      cases r1 with
      | none =>
        simp only [Prod.mk.injEq] at h
        obtain ⟨rfl, rfl⟩ := h
        exact ⟨hk1, lk1, sh1, lab1, ext1, agree1, hbits1, hhas1, post1⟩
      | some n1 =>
        simp only [] at h
        obtain ⟨hn1, hlab1, hv1, hv2, hslack1⟩ := post1
        obtain ⟨hk2, lk2, sh2, lab2, ext2, agree2, hbits2, hhas2, post2⟩ :=
          insertLoop_ok rest sh1 lab1 hn1 hslack1 h
        refine ⟨hk2, lk2, sh2, lab2, ext1.trans ext2, ?_, by rw [hbits2, hbits1],
          by rw [hhas2, hhas1], ?_⟩
        · intro x hx
          rw [agree2 x (Nat.lt_of_lt_of_le hx ext1.hi_len), agree1 x hx]
        · cases r with
          | some n' =>
            obtain ⟨p1, p2, p3⟩ := post2
            refine ⟨p1, ?_, p3⟩
            rw [p2, hlab1]; simp
          | none =>
            obtain ⟨p1, p2⟩ := post2
            refine ⟨p1, ?_⟩
            obtain ⟨hh, hl⟩ := nyb_lt b
            have k1 := ext2.hi_keep n _ (Nat.lt_of_lt_of_le hn ext1.hi_len) hh hv1
            have k2 := ext2.lo_keep _ _ hv1 hl (by rw [hv2]; exact hn1)
            refine ⟨by rw [k1]; exact Nat.lt_of_lt_of_le hv1 ext2.lo_len, Or.inr ?_⟩
            rw [k1, k2, hv2]
            exact p2

/-! ## `setHas` / `setVal` -/

theorem getD_replicate_self {α} (k x : Nat) (d : α) : (List.replicate k d).getD x d = d := by
  simp only [List.getD_eq_getElem?_getD, List.getElem?_replicate]
  split <;> rfl

theorem getD_app {α} (a b : List α) (x : Nat) (d : α) :
    (a ++ b).getD x d = if x < a.length then a.getD x d else b.getD (x - a.length) d := by
  simp only [List.getD_eq_getElem?_getD, List.getElem?_append]
  split <;> rfl

theorem getD_set' {α} (l : List α) (n x : Nat) (v d : α) :
    (l.set n v).getD x d = if x = n ∧ n < l.length then v else l.getD x d := by
  simp only [List.getD_eq_getElem?_getD, List.getElem?_set]
  by_cases h : n = x
  · subst h
    by_cases h2 : n < l.length <;> simp [h2]
  · have : ¬ x = n := fun h' => h h'.symm
    simp [h, this]

theorem getD_single {α} (x : Nat) (v d : α) : [v].getD x d = if x = 0 then v else d := by
  cases x <;> simp

theorem setHas_getD (has : List Bool) (n x : Nat) :
    (setHas has n).getD x false = (decide (x = n) || has.getD x false) := by
  unfold setHas
  split
  · next h =>
    rw [getD_app]
    simp only [List.length_append, List.length_replicate]
    by_cases h1 : x < has.length
    · have h2 : x < has.length + (n - has.length) := by omega
      have h3 : ¬ x = n := by omega
      rw [if_pos h2, getD_app, if_pos h1, decide_eq_false h3]
      rfl
    · have hd : has.getD x false = false := by
        rw [List.getD_eq_getElem?_getD, List.getElem?_eq_none (Nat.le_of_not_lt h1)]; rfl
      rw [hd, Bool.or_false]
      by_cases h2 : x < has.length + (n - has.length)
      · have h3 : ¬ x = n := by omega
        rw [if_pos h2, getD_app, if_neg h1, getD_replicate_self, decide_eq_false h3]
      · rw [if_neg h2, getD_single]
        by_cases h3 : x = n
        · rw [if_pos (by omega), decide_eq_true h3]
        · rw [if_neg (by omega), decide_eq_false h3]
  · next h =>
    rw [getD_set']
    by_cases h2 : x = n
    · rw [if_pos ⟨h2, by omega⟩, decide_eq_true h2]; rfl
    · rw [if_neg (fun h' => h2 h'.1), decide_eq_false h2]; rfl

theorem setHas_length (has : List Bool) (n : Nat) :
    (setHas has n).length = max has.length (n + 1) := by
  unfold setHas
  split
  · simp; omega
  · simp; omega

theorem setVal_getD (vals : List Nat) (n v x : Nat) :
    (setVal vals n v).getD x 0 = if x = n then v else vals.getD x 0 := by
  unfold setVal
  simp only []
  rw [getD_set']
  split
  · next h =>
    by_cases h2 : x = n
    · simp [h2]; omega
    · rw [if_neg (by simp [h2]), if_neg h2, getD_app, getD_replicate_self]
      split
      · rfl
      · next h1 => simp [List.getD_eq_getElem?_getD, List.getElem?_eq_none (Nat.le_of_not_lt h1)]
  · next h =>
    by_cases h2 : x = n
    · simp [h2]; omega
    · simp [h2]

/-! ## `grow` -/

theorem get2_map {a : List Row} (f : Nat → Nat) {n h : Nat} (hn : n < a.length)
    (hh : h < (a.getD n []).length) :
    get2 (a.map (fun r => r.map f)) n h = f (get2 a n h) := by
  simp only [get2, List.getD_eq_getElem?_getD, List.getElem?_map] at hh ⊢
  simp only [List.getElem?_eq_getElem hn, Option.map_some, Option.getD_some] at hh ⊢
  simp [List.getElem?_eq_getElem hh]

theorem grow_ok {t hk lk} (sh : Shape t) (lab : Lab t hk lk) {w : Nat} (hw : t.sent < 2 ^ w - 1) :
    Shape (grow w t) ∧ Lab (grow w t) hk lk ∧ Ext t (grow w t) ∧
    (∀ n h, n < t.hi.length → h < 16 →
      get2 (grow w t).hi n h = if get2 t.hi n h = t.sent then 2 ^ w - 1 else get2 t.hi n h) ∧
    (∀ m l, m < t.lo.length → l < 16 →
      get2 (grow w t).lo m l = if get2 t.lo m l = t.sent then 2 ^ w - 1 else get2 t.lo m l) := by
  have hhilen : (grow w t).hi.length = t.hi.length := by simp [grow]
  have hlolen : (grow w t).lo.length = t.lo.length := by simp [grow]
  have hsent : (grow w t).sent = 2 ^ w - 1 := rfl
  have hhi : ∀ n h, n < t.hi.length → h < 16 →
      get2 (grow w t).hi n h = if get2 t.hi n h = t.sent then 2 ^ w - 1 else get2 t.hi n h := by
    intro n h hn hh
    simp only [grow]
    exact get2_map _ hn (by rw [sh.rows_hi.getD hn]; exact hh)
  have hlo : ∀ m l, m < t.lo.length → l < 16 →
      get2 (grow w t).lo m l = if get2 t.lo m l = t.sent then 2 ^ w - 1 else get2 t.lo m l := by
    intro m l hm hl
    simp only [grow]
    exact get2_map _ hm (by rw [sh.rows_lo.getD hm]; exact hl)
  have hile := sh.hi_le
  have hlole := sh.lo_le
  have ext : Ext t (grow w t) := by
    refine ⟨by omega, by omega, ?_, ?_⟩
    · intro n h hn hh hv
      rw [hhi n h hn hh, if_neg (by omega)]
    · intro m l hm hl hv
      rw [hlo m l hm hl, if_neg (by omega)]
  have shape : Shape (grow w t) := by
    refine ⟨?_, ?_, ?_, ?_, by rw [hhilen]; exact sh.hi_pos, by rw [hhilen, hsent]; omega,
      by rw [hhilen, hlolen]; exact hlole, ?_⟩
    · intro r hr
      simp only [grow, List.mem_map] at hr
      obtain ⟨r0, hr0, rfl⟩ := hr
      simp [sh.rows_hi r0 hr0]
    · intro r hr
      simp only [grow, List.mem_map] at hr
      obtain ⟨r0, hr0, rfl⟩ := hr
      simp [sh.rows_lo r0 hr0]
    · intro n h hn hh
      rw [hhilen] at hn
      rw [hhi n h hn hh, hsent, hlolen]
      rcases sh.ent_hi n h hn hh with e | e
      · left; rw [if_pos e]
      · right; rw [if_neg (by omega)]; exact e
    · intro m l hm hl
      rw [hlolen] at hm
      rw [hlo m l hm hl, hsent, hhilen]
      rcases sh.ent_lo m l hm hl with e | e
      · left; rw [if_pos e]
      · right; rw [if_neg (by omega)]; exact e
    · show t.has.length ≤ (grow w t).hi.length
      rw [hhilen]; exact sh.has_le
  refine ⟨shape, ?_, ext, hhi, hlo⟩
  refine ⟨lab.root, ?_, ?_, ?_⟩
  · intro n h hn hh hv
    rw [hhilen] at hn
    rw [hlolen, hhi n h hn hh] at hv
    rw [hhi n h hn hh]
    by_cases e : get2 t.hi n h = t.sent
    · rw [if_pos e] at hv; omega
    · rw [if_neg e] at hv ⊢
      exact lab.hi_lab n h hn hh hv
  · intro m l hm hl hv
    rw [hlolen] at hm
    rw [hhilen, hlo m l hm hl] at hv
    rw [hlo m l hm hl]
    by_cases e : get2 t.lo m l = t.sent
    · rw [if_pos e] at hv; omega
    · rw [if_neg e] at hv ⊢
      exact lab.lo_lab m l hm hl hv
  · intro x hx
    rw [hhilen] at hx
    exact ext.nodeFrom _ _ _ (lab.reach x hx) hx

theorem grow_pend {t} (sh : Shape t) {w : Nat} (hw : t.sent < 2 ^ w - 1)
    (hhi : ∀ n h, n < t.hi.length → h < 16 →
      get2 (grow w t).hi n h = if get2 t.hi n h = t.sent then 2 ^ w - 1 else get2 t.hi n h)
    (hlo : ∀ m l, m < t.lo.length → l < 16 →
      get2 (grow w t).lo m l = if get2 t.lo m l = t.sent then 2 ^ w - 1 else get2 t.lo m l) :
    ∀ (key : Key) (n : Nat), n < t.hi.length → Pend t key n → Pend (grow w t) key n
  | [], _, _, h => by simp [Pend] at h
  | b :: rest, n, hn, h => by
    obtain ⟨hh, hl⟩ := nyb_lt b
    have hhilen : (grow w t).hi.length = t.hi.length := by simp [grow]
    have hlolen : (grow w t).lo.length = t.lo.length := by simp [grow]
    have hile := sh.hi_le
    have hlole := sh.lo_le
    obtain ⟨h1, h2⟩ := h
    have e1 : get2 (grow w t).hi n (b.toNat / 16) = get2 t.hi n (b.toNat / 16) := by
      rw [hhi n _ hn hh, if_neg (by omega)]
    simp only [Pend]
    rw [e1, hlolen, hhilen, hlo _ _ h1 hl]
    refine ⟨h1, ?_⟩
    by_cases hv : get2 t.lo (get2 t.hi n (b.toNat / 16)) (b.toNat % 16) < t.hi.length
    · rw [if_neg (by omega)]
      rcases h2 with h2 | h2
      · omega
      · exact Or.inr (grow_pend sh hw hhi hlo rest _ hv h2)
    · left
      rcases sh.ent_lo _ _ h1 hl with e | e
      · rw [if_pos e]; omega
      · omega

/-! ## `nybbles.insert` and the `again:` loop -/

theorem nodeFrom_has (t : Nyb) (has : List Bool) : ∀ (k : Key) (n : Nat),
    nodeFrom { t with has := has } k n = nodeFrom t k n
  | [], _ => rfl
  | b :: k, n => by
    simp only [nodeFrom]
    rw [nodeFrom_has t has k]

theorem Lab.with_has {t hk lk} (lab : Lab t hk lk) (has : List Bool) :
    Lab { t with has := has } hk lk :=
  ⟨lab.root, lab.hi_lab, lab.lo_lab, fun n hn => by rw [nodeFrom_has]; exact lab.reach n hn⟩

theorem Shape.with_has {t} (sh : Shape t) {has : List Bool} (h : has.length ≤ t.hi.length) :
    Shape { t with has := has } :=
  ⟨sh.rows_hi, sh.rows_lo, sh.ent_hi, sh.ent_lo, sh.hi_pos, sh.hi_le, sh.lo_le, h⟩

theorem nextBits_sent {b w : Nat} (h : nextBits b = some w) : 2 ^ b - 1 < 2 ^ w - 1 := by
  unfold nextBits at h
  split at h
  · next hb => simp at h; subst hb; subst h; decide
  · split at h
    · next hb => simp at h; subst hb; subst h; decide
    · split at h
      · next hb => simp at h; subst hb; subst h; decide
      · simp at h

theorem nybInsert_eq {t : Nyb} (hpos : 0 < t.hi.length) (key : Key) :
    nybInsert t key =
      (match insertLoop t key 0 with
       | (t', some n) => ({ t' with has := setHas t'.has n }, some n)
       | (t', none) => (t', none)) := by
  have : t.hi.isEmpty = false := by
    cases h : t.hi with
    | nil => simp [h] at hpos
    | cons _ _ => rfl
  simp only [nybInsert, this, Bool.false_eq_true, if_false]
  cases insertLoop t key 0 with
  | mk t' r => cases r <;> rfl

theorem insertAgain_ok : ∀ (fuel : Nat) (key : Key) {t : Nyb} {hk : Nat → Key} {lk : Nat → Key × Nat},
    Shape t → Lab t hk lk → (t.lo.length < t.hi.length ∨ Pend t key 0) →
    ∀ {t' : Nyb} {n : Nat}, insertAgain fuel t key = some (t', n) →
    ∃ hk' lk', Shape t' ∧ Lab t' hk' lk' ∧ Ext t t' ∧ (∀ x, x < t.hi.length → hk' x = hk x) ∧
      t'.has = setHas t.has n ∧ n < t'.hi.length ∧ hk' n = key ∧ t'.lo.length < t'.hi.length
  | 0, _, _, _, _, _, _, _, _, _, h => by simp [insertAgain] at h
  | f + 1, key, t, hk, lk, sh, lab, hslack, t', n, h => by
    simp only [insertAgain] at h
    rw [nybInsert_eq sh.hi_pos] at h
    cases hloop : insertLoop t key 0 with
    | mk t1 r =>
      rw [hloop] at h
      obtain ⟨hk1, lk1, sh1, lab1, ext1, agree1, hbits1, hhas1, post1⟩ :=
        insertLoop_ok key sh lab sh.hi_pos hslack hloop
      cases r with
      | some n1 =>
        simp only [Option.some.injEq, Prod.mk.injEq] at h
        obtain ⟨rfl, rfl⟩ := h
        obtain ⟨p1, p2, p3⟩ := post1
        have hlen : (setHas t1.has n1).length ≤ t1.hi.length := by
          rw [setHas_length]
          have := sh1.has_le
          omega
        refine ⟨hk1, lk1, sh1.with_has hlen, lab1.with_has _, ?_, agree1, ?_, p1, ?_, p3⟩
        · exact ⟨ext1.hi_len, ext1.lo_len, ext1.hi_keep, ext1.lo_keep⟩
        · show setHas t1.has n1 = setHas t.has n1
          rw [hhas1]
        · rw [p2, lab.root]; rfl
      | none =>
        simp only [] at h
        obtain ⟨p1, p2⟩ := post1
        cases hnb : nextBits t1.bits with
        | none => rw [hnb] at h; simp at h
        | some w =>
          rw [hnb] at h
          simp only [] at h
          have hw : t1.sent < 2 ^ w - 1 := nextBits_sent hnb
          obtain ⟨sh2, lab2, ext2, ghi, glo⟩ := grow_ok sh1 lab1 hw
          have pend2 := grow_pend sh1 hw ghi glo key 0 sh1.hi_pos p2
          obtain ⟨hk3, lk3, sh3, lab3, ext3, agree3, hhas3, q1, q2, q3⟩ :=
            insertAgain_ok f key sh2 lab2 (Or.inr pend2) h
          have hlen2 : (grow w t1).hi.length = t1.hi.length := by simp [grow]
          refine ⟨hk3, lk3, sh3, lab3, (ext1.trans ext2).trans ext3, ?_, ?_, q1, q2, q3⟩
          · intro x hx
            rw [agree3 x (by rw [hlen2]; exact Nat.lt_of_lt_of_le hx ext1.hi_len), agree1 x hx]
          · rw [hhas3]
            show setHas t1.has n = setHas t.has n
            rw [hhas1]

/-! ## The abstraction: a trie represents a finite map `M` -/

/-- map update -/
def upd (M : Key → Option Nat) (k : Key) (v : Nat) : Key → Option Nat :=
  fun x => if x = k then some v else M x

theorem hasV_lt {t : Nyb} {n : Nat} (h : t.hasV n = true) : n < t.has.length := by
  unfold Nyb.hasV at h
  by_cases hn : n < t.has.length
  · exact hn
  · rw [List.getD_eq_getElem?_getD, List.getElem?_eq_none (Nat.le_of_not_lt hn)] at h
    simp at h

/-- `(t, vals)` represents the map `M` -/
structure NInv (t : Nyb) (vals : List Nat) (M : Key → Option Nat) : Prop where
  shape : Shape t
  strict : t.lo.length < t.hi.length
  lab : ∃ hk lk, Lab t hk lk ∧ ∀ n, t.hasV n = true → M (hk n) = some (vals.getD n 0)
  complete : ∀ k v, M k = some v →
    ∃ n, nodeFrom t k 0 = some n ∧ t.hasV n = true ∧ vals.getD n 0 = v

theorem NInv.insert {t vals M} (inv : NInv t vals M) {fuel : Nat} {key : Key} (v : Nat)
    {t' : Nyb} {n : Nat} (h : insertAgain fuel t key = some (t', n)) :
    NInv t' (setVal vals n v) (upd M key v) := by
  obtain ⟨hk, lk, lab, hsound⟩ := inv.lab
  obtain ⟨hk', lk', sh', lab', ext, agree, hhas, hn, hkey, hstrict⟩ :=
    insertAgain_ok fuel key inv.shape lab (Or.inl inv.strict) h
  have hasV' : ∀ x, t'.hasV x = (decide (x = n) || t.hasV x) := by
    intro x
    unfold Nyb.hasV
    rw [hhas, setHas_getD]
  have hroot : hk' 0 = [] := lab'.root
  refine ⟨sh', hstrict, ⟨hk', lk', lab', ?_⟩, ?_⟩
  · intro x hx
    rw [hasV'] at hx
    rw [setVal_getD]
    by_cases hxn : x = n
    · subst hxn
      rw [hkey, if_pos rfl]
      simp [upd]
    · rw [if_neg hxn]
      have hx' : t.hasV x = true := by simpa [hxn] using hx
      have hxlt : x < t.hi.length := Nat.lt_of_lt_of_le (hasV_lt hx') inv.shape.has_le
      rw [agree x hxlt]
      have hne : hk x ≠ key := by
        intro he
        have r1 := lab'.reach x (Nat.lt_of_lt_of_le hxlt ext.hi_len)
        have r2 := lab'.reach n hn
        rw [agree x hxlt, he] at r1
        rw [hkey, r1] at r2
        exact hxn (Option.some.inj r2)
      simp only [upd, if_neg hne]
      exact hsound x hx'
  · intro k v' hk'v
    by_cases hkk : k = key
    · subst hkk
      simp [upd] at hk'v
      subst hk'v
      refine ⟨n, ?_, ?_, ?_⟩
      · have := lab'.reach n hn
        rwa [hkey] at this
      · rw [hasV']; simp
      · rw [setVal_getD, if_pos rfl]
    · simp only [upd, if_neg hkk] at hk'v
      obtain ⟨n0, h1, h2, h3⟩ := inv.complete k v' hk'v
      have hn0 : n0 < t.hi.length := Nat.lt_of_lt_of_le (hasV_lt h2) inv.shape.has_le
      have h1' := ext.nodeFrom _ _ _ h1 hn0
      refine ⟨n0, h1', ?_, ?_⟩
      · rw [hasV', h2]; simp
      · rw [setVal_getD]
        have : n0 ≠ n := by
          intro he
          have := lab'.sound k 0 n0 h1' (Nat.lt_of_lt_of_le hn0 ext.hi_len)
          rw [he, hkey, hroot] at this
          exact hkk (by simpa using this.symm)
        rw [if_neg this]
        exact h3

/-- the trie right after the root row has been allocated -/
def rootNyb : Nyb := { emptyNyb with hi := [allOnes emptyNyb.sent] }

theorem insertAgain_empty (fuel : Nat) (key : Key) :
    insertAgain fuel emptyNyb key = insertAgain fuel rootNyb key := by
  cases fuel with
  | zero => rfl
  | succ f =>
    have : nybInsert emptyNyb key = nybInsert rootNyb key := rfl
    simp only [insertAgain, this]

theorem rootNyb_inv (vals : List Nat) : NInv rootNyb vals (fun _ => none) := by
  have hget : ∀ h, h < 16 → get2 rootNyb.hi 0 h = 255 := by
    intro h hh
    have := get2_append_new (a := []) (s := 255) hh
    simpa [rootNyb, emptyNyb, Nyb.sent] using this
  refine ⟨⟨?_, ?_, ?_, ?_, by simp [rootNyb], by simp [rootNyb, emptyNyb, Nyb.sent], by simp [rootNyb, emptyNyb],
    by simp [rootNyb, emptyNyb]⟩, by simp [rootNyb, emptyNyb], ⟨fun _ => [], fun _ => ([], 0), ⟨rfl, ?_, ?_, ?_⟩, ?_⟩, ?_⟩
  · intro r hr
    simp [rootNyb, allOnes] at hr
    subst hr; simp
  · intro r hr
    simp [rootNyb, emptyNyb] at hr
  · intro n h hn hh
    have : n = 0 := by simp [rootNyb] at hn; omega
    subst this
    left
    rw [hget h hh]; rfl
  · intro m l hm
    simp [rootNyb, emptyNyb] at hm
  · intro n h hn hh hv
    simp [rootNyb, emptyNyb] at hv
  · intro m l hm
    simp [rootNyb, emptyNyb] at hm
  · intro n hn
    have : n = 0 := by simp [rootNyb] at hn; omega
    subst this
    rfl
  · intro n hn
    have := hasV_lt hn
    simp [rootNyb, emptyNyb] at this
  · intro k v h
    simp at h

/-! ## Lookup: `step`/`Prefixes` as one walk -/

/-- the `Prefixes` loop composed with `step`, as a single recursion over the unread bytes;
    `pre` = bytes read so far, `n` = node reached -/
def walk (t : Nyb) (vals : List Nat) : Key → Key → Nat → List (Key × Nat)
  | _, [], _ => []
  | pre, b :: rest, n =>
    if t.hi.length ≤ n then []
    else if t.lo.length ≤ get2 t.hi n (b.toNat / 16) then []
    else
      let n' := get2 t.lo (get2 t.hi n (b.toNat / 16)) (b.toNat % 16)
      if t.hasV n' then (pre ++ [b], vals.getD n' 0) :: walk t vals (pre ++ [b]) rest n'
      else walk t vals (pre ++ [b]) rest n'

/-- what `stepFrom` returns, in terms of the walk -/
theorem stepFrom_walk (t : Nyb) (vals : List Nat) : ∀ (rest pre : Key) (i n : Nat),
    match stepFrom t rest i n with
    | none => walk t vals pre rest n = []
    | some s => ∃ mid rest', rest = mid ++ rest' ∧ mid ≠ [] ∧ s.i = i + mid.length ∧
        walk t vals pre rest n = (pre ++ mid, vals.getD s.n 0) :: walk t vals (pre ++ mid) rest' s.n
  | [], _, _, _ => by simp [stepFrom, walk]
  | b :: rest, pre, i, n => by
    by_cases h1 : t.hi.length ≤ n
    · simp only [stepFrom, walk, if_pos h1]
    · by_cases h2 : t.lo.length ≤ get2 t.hi n (b.toNat / 16)
      · simp only [stepFrom, walk, if_neg h1, if_pos h2]
      · by_cases hv : t.hasV (get2 t.lo (get2 t.hi n (b.toNat / 16)) (b.toNat % 16)) = true
        · simp only [stepFrom, walk, if_neg h1, if_neg h2, hv, if_true]
          exact ⟨[b], rest, rfl, by simp, by simp, rfl⟩
        · simp only [stepFrom, walk, if_neg h1, if_neg h2, hv]
          have ih := stepFrom_walk t vals rest (pre ++ [b]) (i + 1)
            (get2 t.lo (get2 t.hi n (b.toNat / 16)) (b.toNat % 16))
          cases hs : stepFrom t rest (i + 1) (get2 t.lo (get2 t.hi n (b.toNat / 16)) (b.toNat % 16)) with
          | none => rw [hs] at ih; simpa using ih
          | some s =>
            rw [hs] at ih
            obtain ⟨mid, rest', h1', h2', h3', h4'⟩ := ih
            refine ⟨b :: mid, rest', by simp [h1'], by simp, by simp [h3']; omega, ?_⟩
            simpa using h4'

theorem prefixesLoop_walk (t : Nyb) (vals : List Nat) (key : Key) : ∀ (fuel : Nat) (pre rest : Key)
    (i n : Nat), key = pre ++ rest → i = pre.length + 1 → rest.length < fuel →
    prefixesLoop t vals key fuel { i := i, n := n } = walk t vals pre rest n
  | 0, _, _, _, _, _, _, h => by omega
  | f + 1, pre, rest, i, n, hkey, hi, hf => by
    have hi0 : i ≠ 0 := by omega
    have hdrop : key.drop (i - 1) = rest := by
      rw [hkey, hi]; simp
    simp only [prefixesLoop, step, if_neg hi0, hdrop]
    have hw := stepFrom_walk t vals rest pre i n
    cases hs : stepFrom t rest i n with
    | none => rw [hs] at hw; simp [hw]
    | some s =>
      rw [hs] at hw
      obtain ⟨mid, rest', h1, h2, h3, h4⟩ := hw
      simp only []
      have hmid : 0 < mid.length := List.length_pos_iff.mpr h2
      have htake : key.take (s.i - 1) = pre ++ mid := by
        rw [hkey, h1, h3, hi]
        have : pre.length + 1 + mid.length - 1 = (pre ++ mid).length := by simp
        rw [this, ← List.append_assoc, List.take_left]
      rw [h4, htake]
      congr 1
      apply prefixesLoop_walk t vals key f (pre ++ mid) rest' s.i s.n
      · rw [hkey, h1, List.append_assoc]
      · rw [h3, hi]; simp; omega
      · rw [h1] at hf; simp at hf; omega

theorem prefixesLoop_succ (t : Nyb) (vals : List Nat) (key : Key) (f : Nat) (s : Searcher) :
    prefixesLoop t vals key (f + 1) s =
      (match step t key s with
       | none => []
       | some s' => (key.take (s'.i - 1), vals.getD s'.n 0) :: prefixesLoop t vals key f s') := rfl

/-- `Trie.Prefixes` = optional root entry followed by the walk -/
theorem prefixes_eq_walk (t : Nyb) (vals : List Nat) (key : Key) :
    Trie.prefixes { impl := some t, vals := vals } key =
      (if t.hasV 0 then [(([] : Key), vals.getD 0 0)] else []) ++ walk t vals [] key 0 := by
  show prefixesLoop t vals key (key.length + 1 + 1) { i := 0, n := 0 } = _
  rw [prefixesLoop_succ]
  have hstep : step t key { i := 0, n := 0 } =
      if t.hasV 0 then some { i := 1, n := 0 } else stepFrom t key 1 0 := by simp [step]
  rw [hstep]
  by_cases h0 : t.hasV 0 = true
  · simp only [h0, if_true]
    simp only [List.take_zero, List.singleton_append, Nat.sub_self]
    congr 1
    exact prefixesLoop_walk t vals key (key.length + 1) [] key 1 0 rfl rfl (by omega)
  · simp only [h0]
    have hw := stepFrom_walk t vals key [] 1 0
    cases hs : stepFrom t key 1 0 with
    | none => rw [hs] at hw; simp [hw]
    | some s =>
      rw [hs] at hw
      obtain ⟨mid, rest', h1, h2, h3, h4⟩ := hw
      have hmid : 0 < mid.length := List.length_pos_iff.mpr h2
      have htake : key.take (s.i - 1) = mid := by
        rw [h1, h3]
        have : 1 + mid.length - 1 = mid.length := by omega
        rw [this, List.take_left]
      simp only [Bool.false_eq_true, if_false, List.nil_append]
      rw [h4, htake]
      simp only [List.nil_append]
      congr 1
      apply prefixesLoop_walk t vals key (key.length + 1) mid rest' s.i s.n h1
      · rw [h3]; omega
      · rw [h1]; simp; omega

/-! ## Reference semantics of `Prefixes` on the abstract map -/

def optEntry (M : Key → Option Nat) (k : Key) : List (Key × Nat) :=
  match M k with
  | some v => [(k, v)]
  | none => []

/-- entries of `M` at `pre ++ [b₁]`, `pre ++ [b₁,b₂]`, … for `rest = b₁ b₂ …` -/
def refFrom (M : Key → Option Nat) : Key → Key → List (Key × Nat)
  | _, [] => []
  | pre, b :: rest => optEntry M (pre ++ [b]) ++ refFrom M (pre ++ [b]) rest

/-- every prefix of `q` (shortest first) that is a key of `M`, with its value -/
def refPrefixes (M : Key → Option Nat) (q : Key) : List (Key × Nat) :=
  optEntry M [] ++ refFrom M [] q

theorem refFrom_nil (M : Key → Option Nat) : ∀ (rest pre : Key),
    (∀ x, x ≠ [] → M (pre ++ x) = none) → refFrom M pre rest = []
  | [], _, _ => rfl
  | b :: rest, pre, h => by
    have h1 : M (pre ++ [b]) = none := h [b] (by simp)
    simp only [refFrom, optEntry, h1, List.nil_append]
    apply refFrom_nil M rest
    intro x hx
    rw [List.append_assoc]
    exact h ([b] ++ x) (by simp)

theorem refFrom_cons_nil (M : Key → Option Nat) (b : UInt8) (rest pre : Key)
    (h : ∀ x, M (pre ++ b :: x) = none) : refFrom M pre (b :: rest) = [] := by
  have h1 : M (pre ++ [b]) = none := h []
  simp only [refFrom, optEntry, h1, List.nil_append]
  apply refFrom_nil
  intro x _
  rw [List.append_assoc]
  exact h x

theorem walk_eq_ref {t vals M} (inv : NInv t vals M) : ∀ (rest pre : Key) (n : Nat),
    nodeFrom t pre 0 = some n → walk t vals pre rest n = refFrom M pre rest
  | [], _, _, _ => rfl
  | b :: rest, pre, n, hpre => by
    obtain ⟨hk, lk, lab, hsound⟩ := inv.lab
    have dead : (∀ x, nodeFrom t (b :: x) n = none) → refFrom M pre (b :: rest) = [] := by
      intro hnone
      apply refFrom_cons_nil
      intro x
      cases hM : M (pre ++ b :: x) with
      | none => rfl
      | some v =>
        exfalso
        obtain ⟨n', h1, _, _⟩ := inv.complete _ _ hM
        rw [nodeFrom_append, hpre] at h1
        simp only [Option.bind] at h1
        rw [hnone x] at h1
        cases h1
    by_cases h1 : t.hi.length ≤ n
    · rw [dead (fun x => by simp [nodeFrom, h1])]
      simp [walk, h1]
    · by_cases h2 : t.lo.length ≤ get2 t.hi n (b.toNat / 16)
      · rw [dead (fun x => by simp [nodeFrom, h2])]
        simp [walk, h2]
      · have hnode : nodeFrom t (pre ++ [b]) 0 =
            some (get2 t.lo (get2 t.hi n (b.toNat / 16)) (b.toNat % 16)) := by
          rw [nodeFrom_append, hpre]
          simp [nodeFrom, h1, h2]
        have ih := walk_eq_ref inv rest (pre ++ [b]) _ hnode
        simp only [walk, if_neg h1, if_neg h2, refFrom]
        by_cases hv : t.hasV (get2 t.lo (get2 t.hi n (b.toNat / 16)) (b.toNat % 16)) = true
        · have hlt : get2 t.lo (get2 t.hi n (b.toNat / 16)) (b.toNat % 16) < t.hi.length :=
            Nat.lt_of_lt_of_le (hasV_lt hv) inv.shape.has_le
          have hlab := lab.sound _ 0 _ hnode hlt
          rw [lab.root, List.nil_append] at hlab
          have hM := hsound _ hv
          rw [hlab] at hM
          simp only [hv, if_true, optEntry, hM, ih]
          rfl
        · have hM : M (pre ++ [b]) = none := by
            cases hM : M (pre ++ [b]) with
            | none => rfl
            | some v =>
              exfalso
              obtain ⟨n', e1, e2, _⟩ := inv.complete _ _ hM
              rw [hnode] at e1
              cases e1
              exact hv e2
          simp only [hv, optEntry, hM, ih]
          rfl

theorem prefixes_eq_ref {t vals M} (inv : NInv t vals M) (q : Key) :
    Trie.prefixes { impl := some t, vals := vals } q = refPrefixes M q := by
  obtain ⟨hk, lk, lab, hsound⟩ := inv.lab
  rw [prefixes_eq_walk, walk_eq_ref inv q [] 0 rfl, refPrefixes]
  congr 1
  by_cases h0 : t.hasV 0 = true
  · have := hsound 0 h0
    rw [lab.root] at this
    simp [h0, optEntry, this]
  · have hM : M [] = none := by
      cases hM : M [] with
      | none => rfl
      | some v =>
        exfalso
        obtain ⟨n', e1, e2, _⟩ := inv.complete _ _ hM
        simp only [nodeFrom, Option.some.injEq] at e1
        subst e1
        exact h0 e2
    simp [h0, optEntry, hM]

/-! meaning of the reference: exactly the keys of `M` that prefix `q`, by increasing length -/

theorem mem_refFrom (M : Key → Option Nat) (p : Key) (v : Nat) : ∀ (rest pre : Key),
    (p, v) ∈ refFrom M pre rest ↔ ∃ mid, mid ≠ [] ∧ mid <+: rest ∧ p = pre ++ mid ∧ M p = some v
  | [], pre => by
    simp only [refFrom, List.not_mem_nil, false_iff]
    rintro ⟨mid, h1, h2, _⟩
    exact h1 (List.prefix_nil.mp h2)
  | b :: rest, pre => by
    simp only [refFrom, List.mem_append]
    rw [mem_refFrom M p v rest (pre ++ [b])]
    constructor
    · rintro (h | ⟨mid, h1, h2, h3, h4⟩)
      · refine ⟨[b], by simp, by simp, ?_⟩
        unfold optEntry at h
        split at h
        · next v' hv' =>
          simp only [List.mem_singleton, Prod.mk.injEq] at h
          obtain ⟨rfl, rfl⟩ := h
          exact ⟨rfl, hv'⟩
        · simp at h
      · refine ⟨b :: mid, by simp, ?_, by simp [h3], h4⟩
        exact List.cons_prefix_cons.mpr ⟨rfl, h2⟩
    · rintro ⟨mid, h1, h2, h3, h4⟩
      cases mid with
      | nil => exact absurd rfl h1
      | cons c mid' =>
        obtain ⟨rfl, h2'⟩ := List.cons_prefix_cons.mp h2
        cases mid' with
        | nil =>
          left
          subst h3
          simp [optEntry, h4]
        | cons d mid'' =>
          right
          exact ⟨d :: mid'', by simp, h2', by simp [h3], h4⟩

theorem mem_refPrefixes (M : Key → Option Nat) (q p : Key) (v : Nat) :
    (p, v) ∈ refPrefixes M q ↔ p <+: q ∧ M p = some v := by
  simp only [refPrefixes, List.mem_append, mem_refFrom, List.nil_append]
  constructor
  · rintro (h | ⟨mid, _, h2, rfl, h4⟩)
    · unfold optEntry at h
      split at h
      · next v' hv' =>
        simp only [List.mem_singleton, Prod.mk.injEq] at h
        obtain ⟨rfl, rfl⟩ := h
        exact ⟨List.nil_prefix, hv'⟩
      · simp at h
    · exact ⟨h2, h4⟩
  · rintro ⟨h1, h2⟩
    cases p with
    | nil => left; simp [optEntry, h2]
    | cons c p' => right; exact ⟨c :: p', by simp, h1, rfl, h2⟩

theorem refFrom_sorted (M : Key → Option Nat) : ∀ (rest pre : Key),
    (refFrom M pre rest).Pairwise (fun a b => a.1.length < b.1.length) ∧
    ∀ e ∈ refFrom M pre rest, pre.length < e.1.length
  | [], _ => by simp [refFrom]
  | b :: rest, pre => by
    obtain ⟨ih1, ih2⟩ := refFrom_sorted M rest (pre ++ [b])
    have hopt : ∀ e ∈ optEntry M (pre ++ [b]), e.1 = pre ++ [b] := by
      intro e he
      unfold optEntry at he
      split at he
      · simp at he; rw [he]
      · simp at he
    simp only [refFrom]
    constructor
    · rw [List.pairwise_append]
      refine ⟨?_, ih1, ?_⟩
      · unfold optEntry
        split <;> simp
      · intro a ha c hc
        rw [hopt a ha]
        exact ih2 c hc
    · intro e he
      rcases List.mem_append.mp he with h | h
      · rw [hopt e h]; simp
      · have := ih2 e h
        simp at this; omega

theorem refPrefixes_sorted (M : Key → Option Nat) (q : Key) :
    (refPrefixes M q).Pairwise (fun a b => a.1.length < b.1.length) := by
  obtain ⟨h1, h2⟩ := refFrom_sorted M q []
  unfold refPrefixes
  rw [List.pairwise_append]
  refine ⟨?_, h1, ?_⟩
  · unfold optEntry
    split <;> simp
  · intro a ha c hc
    have : a.1 = [] := by
      unfold optEntry at ha
      split at ha
      · simp at ha; rw [ha]
      · simp at ha
    rw [this]
    exact h2 c hc

/-! ## `Insert` cannot reach panic("unreachable") below 2^64-1 nodes -/

theorem insStep_size (t : Nyb) (b : UInt8) (n : Nat) :
    (insStep t b n).1.hi.length ≤ t.hi.length + 1 ∧ t.hi.length ≤ (insStep t b n).1.hi.length ∧
    (insStep t b n).1.bits = t.bits ∧
    ((insStep t b n).2 = none → (insStep t b n).1.hi.length = (insStep t b n).1.sent) := by
  rw [insStep_eq]
  have h1 : ∀ h, (allocLo t n h).hi.length = t.hi.length := by intro h; simp [allocLo, set2_length]
  by_cases hA : t.lo.length ≤ get2 t.hi n (b.toNat / 16)
  · simp only [if_pos hA]
    split
    · split
      · next hf => exact ⟨by dsimp only; rw [h1]; omega, by dsimp only; rw [h1]; omega, rfl, fun _ => hf⟩
      · refine ⟨?_, ?_, rfl, by simp⟩ <;> simp [allocHi, h1]
    · exact ⟨by dsimp only; rw [h1]; omega, by dsimp only; rw [h1]; omega, rfl, by simp⟩
  · simp only [if_neg hA]
    split
    · split
      · next hf => exact ⟨Nat.le_succ _, Nat.le_refl _, rfl, fun _ => hf⟩
      · refine ⟨?_, ?_, rfl, by simp⟩ <;> simp [allocHi]
    · exact ⟨Nat.le_succ _, Nat.le_refl _, rfl, by simp⟩

theorem insertLoop_size : ∀ (key : Key) (t : Nyb) (n : Nat),
    (insertLoop t key n).1.hi.length ≤ t.hi.length + key.length ∧
    t.hi.length ≤ (insertLoop t key n).1.hi.length ∧
    (insertLoop t key n).1.bits = t.bits ∧
    ((insertLoop t key n).2 = none → (insertLoop t key n).1.hi.length = (insertLoop t key n).1.sent)
  | [], t, n => by simp [insertLoop]
  | b :: rest, t, n => by
    have hs := insStep_size t b n
    simp only [insertLoop]
    cases hstep : insStep t b n with
    | mk t1 r =>
      rw [hstep] at hs
      dsimp only at hs
      have hl : (b :: rest).length = rest.length + 1 := rfl
      rw [hl]
      cases r with
      | none =>
        dsimp only
        exact ⟨by omega, hs.2.1, hs.2.2.1, fun _ => hs.2.2.2 rfl⟩
      | some n1 =>
        have ih := insertLoop_size rest t1 n1
        dsimp only
        exact ⟨by omega, by omega, by rw [ih.2.2.1, hs.2.2.1], ih.2.2.2⟩

/-- the widths the Go type switch knows, with the number of attempts still available -/
def stage (bits : Nat) : Nat :=
  if bits = 8 then 4 else if bits = 16 then 3 else if bits = 32 then 2 else if bits = 64 then 1 else 0

theorem insertAgain_total : ∀ (fuel : Nat) (key : Key) (t : Nyb), 0 < t.hi.length →
    0 < stage t.bits → stage t.bits ≤ fuel → t.hi.length + fuel * key.length < 2 ^ 64 - 1 →
    ∃ t' n, insertAgain fuel t key = some (t', n) ∧ 0 < t'.hi.length ∧ 0 < stage t'.bits ∧
      t'.hi.length ≤ t.hi.length + fuel * key.length
  | 0, _, _, _, h1, h2, _ => by omega
  | f + 1, key, t, hpos, hst, hfuel, hsmall => by
    have hsz := insertLoop_size key t 0
    simp only [insertAgain]
    rw [nybInsert_eq hpos]
    cases hloop : insertLoop t key 0 with
    | mk t1 r =>
      rw [hloop] at hsz
      dsimp only at hsz
      have hmul : (f + 1) * key.length = f * key.length + key.length := by
        rw [Nat.add_mul]; simp
      cases r with
      | some n1 =>
        refine ⟨_, n1, rfl, ?_, ?_, ?_⟩
        · show 0 < t1.hi.length
          omega
        · show 0 < stage t1.bits
          rw [hsz.2.2.1]; exact hst
        · show t1.hi.length ≤ _
          omega
      | none =>
        simp only []
        have hfull := hsz.2.2.2 rfl
        have hbits := hsz.2.2.1
        unfold Nyb.sent at hfull
        rw [hbits] at hfull
        unfold stage at hst hfuel
        by_cases h8 : t.bits = 8
        · have hnb : nextBits t1.bits = some 16 := by rw [hbits, h8]; rfl
          rw [hnb]
          simp only []
          have hlen : (grow 16 t1).hi.length = t1.hi.length := by simp [grow]
          rw [if_pos h8] at hfuel
          obtain ⟨t', n, e1, e2, e3, e4⟩ := insertAgain_total f key (grow 16 t1) (by rw [hlen]; omega)
            (by show 0 < stage 16; decide) (by show stage 16 ≤ f; simp [stage]; omega) (by rw [hlen]; omega)
          exact ⟨t', n, e1, e2, e3, by rw [hlen] at e4; omega⟩
        · by_cases h16 : t.bits = 16
          · have hnb : nextBits t1.bits = some 32 := by rw [hbits, h16]; rfl
            rw [hnb]
            simp only []
            have hlen : (grow 32 t1).hi.length = t1.hi.length := by simp [grow]
            rw [if_neg h8, if_pos h16] at hfuel
            obtain ⟨t', n, e1, e2, e3, e4⟩ := insertAgain_total f key (grow 32 t1) (by rw [hlen]; omega)
              (by show 0 < stage 32; decide) (by show stage 32 ≤ f; simp [stage]; omega) (by rw [hlen]; omega)
            exact ⟨t', n, e1, e2, e3, by rw [hlen] at e4; omega⟩
          · by_cases h32 : t.bits = 32
            · have hnb : nextBits t1.bits = some 64 := by rw [hbits, h32]; rfl
              rw [hnb]
              simp only []
              have hlen : (grow 64 t1).hi.length = t1.hi.length := by simp [grow]
              rw [if_neg h8, if_neg h16, if_pos h32] at hfuel
              obtain ⟨t', n, e1, e2, e3, e4⟩ := insertAgain_total f key (grow 64 t1) (by rw [hlen]; omega)
                (by show 0 < stage 64; decide) (by show stage 64 ≤ f; simp [stage]; omega) (by rw [hlen]; omega)
              exact ⟨t', n, e1, e2, e3, by rw [hlen] at e4; omega⟩
            · by_cases h64 : t.bits = 64
              · exfalso
                rw [h64] at hfull
                omega
              · simp [h8, h16, h32, h64] at hst

end PCV.Trie
