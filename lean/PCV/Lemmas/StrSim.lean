/-
String literals: the stateful loop `strGo` (model of `readStringLiteral`) computes the same
accept/decoded-bytes outcome as the state-free fold `pureGo` over the per-iteration plans.
-/
import PCV.Model.Lex
import PCV.Lemmas.LexInv
import PCV.Lemmas.NumLemmas
import PCV.Spec.Lex
namespace PCV.Lemmas.StrSim
open PCV.Lex PCV.FileInfo PCV.Num PCV.Lemmas.LexInv

/-- the outcome of `readStringLiteral` as a function of the runes alone: `some buf` = accepted with
    these bytes, `none` = some error. `e` = an escape error is pending. -/
def pureGo (q : Nat) : Nat → List Rn → List UInt8 → Bool → Option (List UInt8)
  | _, [], _, _ => none
  | s+1, _ :: rs, buf, e => pureGo q s rs buf e
  | 0, c :: rs, buf, e =>
    match (strPlan q c rs).2 with
    | .eol => none
    | .eof => none
    | .close => if e then none else some buf
    | .push bs => pureGo q ((strPlan q c rs).1 - 1) rs (buf ++ bs) e
    | .report _ => pureGo q ((strPlan q c rs).1 - 1) rs buf true

/-- once an escape error is pending the literal is never accepted -/
theorem pureGo_sticky (q : Nat) (rs : List Rn) : ∀ s buf, pureGo q s rs buf true = none := by
  induction rs with
  | nil => intro s buf; cases s <;> rfl
  | cons c rs ih =>
    intro s buf
    cases s with
    | succ s => simp only [pureGo]; exact ih s buf
    | zero =>
      simp only [pureGo]
      split <;> simp [ih]

def SSinv (ss : SS) : Prop := ss.noMore = true → ss.escErr.isSome = true

theorem handleError_idx (st : St) (e : Err) : (Lex.handleError st e).1.idx = st.idx :=
  (frame_handleError st e).2

theorem newEscErr_shape (st : St) (ss : SS) (cls : EC) (blen : Nat) :
    match Lex.newEscErr st ss cls blen with
    | .cont st' ss' => st'.idx = st.idx ∧ ss'.buf = ss.buf ∧ ss'.escErr.isSome = true ∧ ss'.noMore = ss.noMore
    | .done _ res => res = .panic := by
  simp only [Lex.newEscErr]
  cases sourcePos st.fi (blen : Int) with
  | none => rfl
  | some lc => exact ⟨rfl, rfl, rfl, rfl⟩

theorem reportErr_shape (st : St) (ss : SS) (cls : EC) (blen : Nat) (hinv : SSinv ss) :
    match Lex.reportErr st ss cls blen with
    | .cont st' ss' => st'.idx = st.idx ∧ ss'.buf = ss.buf ∧ ss'.escErr.isSome = true ∧ SSinv ss'
    | .done _ res => res = .panic := by
  unfold Lex.reportErr
  by_cases hnm : ss.noMore = true
  · simp only [hnm, if_true]
    exact ⟨trivial, trivial, hinv hnm, hinv⟩
  · simp only [hnm, Bool.false_eq_true, if_false]
    cases he : ss.escErr with
    | none =>
      simp only
      have := newEscErr_shape st ss cls blen
      split at this
      · obtain ⟨a, b, c, _⟩ := this
        exact ⟨a, b, c, fun _ => c⟩
      · exact this
    | some e =>
      simp only
      have := newEscErr_shape (Lex.handleError st e).1
        { buf := ss.buf, escErr := some e, noMore := !(Lex.handleError st e).2 } cls blen
      split at this
      · obtain ⟨a, b, c, _⟩ := this
        exact ⟨by rw [a, handleError_idx], b, c, fun _ => c⟩
      · exact this

/-- what one iteration does to the buffer and the pending error, read off the plan -/
theorem strIter_shape (q : Nat) (st : St) (ss : SS) (c : Rn) (rs : List Rn) (hinv : SSinv ss) :
    match strIter q st ss c rs with
    | .cont st' ss' => st'.idx = st.idx + (strPlan q c rs).1 ∧ SSinv ss' ∧
        ((∃ bs, (strPlan q c rs).2 = .push bs ∧ ss'.buf = ss.buf ++ bs ∧ ss'.escErr = ss.escErr) ∨
         (∃ cls, (strPlan q c rs).2 = .report cls ∧ ss'.buf = ss.buf ∧ ss'.escErr.isSome = true))
    | .done _ res =>
        ((strPlan q c rs).2 = .eol ∧ ∃ cls, res = .plain cls) ∨
        ((strPlan q c rs).2 = .eof ∧ ∃ cls, res = .plain cls) ∨
        ((strPlan q c rs).2 = .close ∧ res = (match ss.escErr with | some e => .pos e | none => .ok ss.buf)) ∨
        (res = .panic) := by
  obtain ⟨hk1, hk2⟩ := strPlan_ok q c rs
  generalize hp : strPlan q c rs = p at hk1 hk2
  obtain ⟨k, act⟩ := p
  simp only at hk1 hk2
  have hlen : ((c :: rs).take k).length = k := by
    simp only [List.length_cons] at hk2; simp only [List.length_take, List.length_cons]; omega
  have hidx : (advAllNL st ((c :: rs).take k)).idx = st.idx + k := by rw [advAllNL_idx, hlen]
  simp only [strIter, hp]
  cases act with
  | eol => simp
  | eof => simp
  | close => exact Or.inr (Or.inr (Or.inl ⟨rfl, rfl⟩))
  | push bs =>
    simp only [Lex.push]
    exact ⟨hidx, hinv, Or.inl ⟨bs, by simp⟩⟩
  | report cls =>
    have := reportErr_shape (advAllNL st ((c :: rs).take k)) ss cls st.pos hinv
    dsimp only
    split at this
    · obtain ⟨a, b, c1, d⟩ := this
      exact ⟨by rw [a, hidx], d, Or.inr ⟨cls, rfl, b, c1⟩⟩
    · exact Or.inr (Or.inr (Or.inr this))

/-- **state elimination.** Unless it panics, `readStringLiteral` accepts with bytes `b` exactly
    when the state-free fold does, and otherwise returns an error. -/
theorem strGo_pure (q : Nat) (rs : List Rn) : ∀ (s : Nat) (st : St) (ss : SS), SSinv ss →
    (strGo q s st ss rs).2 = .panic ∨
    (match pureGo q s rs ss.buf ss.escErr.isSome with
     | some b => (strGo q s st ss rs).2 = .ok b
     | none => (∃ cls, (strGo q s st ss rs).2 = .plain cls) ∨ (∃ e, (strGo q s st ss rs).2 = .pos e)) := by
  induction rs with
  | nil =>
    intro s st ss _
    right
    cases s <;> simp [strGo, pureGo]
  | cons c rs ih =>
    intro s st ss hinv
    cases s with
    | succ s => simp only [strGo, pureGo]; exact ih s st ss hinv
    | zero =>
      have hshape := strIter_shape q st ss c rs hinv
      obtain ⟨hk1, _⟩ := strPlan_ok q c rs
      simp only [strGo, pureGo]
      cases hstep : strIter q st ss c rs with
      | cont st' ss' =>
        rw [hstep] at hshape
        simp only
        obtain ⟨hidx, hinv', hcase⟩ := hshape
        have hskip : st'.idx - st.idx - 1 = (strPlan q c rs).1 - 1 := by omega
        rw [hskip]
        rcases hcase with ⟨bs, hact, hbuf, hesc⟩ | ⟨cls, hact, hbuf, hesc⟩
        · rw [hact]
          simp only
          have := ih ((strPlan q c rs).1 - 1) st' ss' hinv'
          rw [hbuf, hesc] at this
          exact this
        · rw [hact]
          simp only
          have := ih ((strPlan q c rs).1 - 1) st' ss' hinv'
          rw [hbuf, hesc] at this
          exact this
      | done st' res =>
        rw [hstep] at hshape
        simp only
        rcases hshape with ⟨hact, cls, rfl⟩ | ⟨hact, cls, rfl⟩ | ⟨hact, rfl⟩ | rfl
        · right; rw [hact]; exact Or.inl ⟨cls, rfl⟩
        · right; rw [hact]; exact Or.inl ⟨cls, rfl⟩
        · right; rw [hact]
          cases he : ss.escErr with
          | none => simp
          | some e => simp
        · left; rfl

end PCV.Lemmas.StrSim

/-! ### ASCII sources: the plan against the transcribed protoc tokenizer -/

namespace PCV.Lemmas.StrSim
open PCV.Lex PCV.FileInfo PCV.Num PCV.Lemmas.LexInv PCV.Spec.Lex PCV.Lemmas.NumLemmas

/-- the rune of an ASCII byte -/
def asR (b : UInt8) : Rn := ⟨b.toNat, [b]⟩

theorem runesGo_ascii (l : List UInt8) (h : ∀ b ∈ l, b.toNat < 128) : runesGo 0 l = l.map asR := by
  induction l with
  | nil => rfl
  | cons b bs ih =>
    have hb : b.toNat < 128 := h b (by simp)
    have hd : Utf8.decodeRune (b :: bs) = (b.toNat, 1) := by simp [Utf8.decodeRune, hb]
    simp only [runesGo, hd, List.map_cons, asR, Nat.sub_self]
    rw [ih (fun x hx => h x (by simp [hx]))]
    simp [asR]

theorem runes_ascii (l : List UInt8) (h : ∀ b ∈ l, b.toNat < 128) : runes l = l.map asR :=
  runesGo_ascii l h

theorem encAll_cons' (c : Rn) (cs : List Rn) : encAll (c :: cs) = enc c.r ++ encAll cs := by
  simp [encAll]

theorem enc_asR (b : UInt8) (h : b.toNat < 128) : enc (asR b).r = [b] := by
  simp [asR, enc_ascii _ h]

theorem encAll_asR (l : List UInt8) (h : ∀ b ∈ l, b.toNat < 128) : encAll (l.map asR) = l := by
  induction l with
  | nil => rfl
  | cons b bs ih =>
    simp only [List.map_cons, encAll_cons', enc_asR b (h b (by simp))]
    rw [ih (fun x hx => h x (by simp [hx]))]
    rfl

theorem isOct_eq (b : UInt8) : isOctR b.toNat = Spec.Lex.isOct b := by simp [isOctR, Spec.Lex.isOct]
theorem isHex_eq (b : UInt8) : isHexR b.toNat = Spec.Lex.isHex b := by
  simp [isHexR, Spec.Lex.isHex, isDigitR, Spec.Lex.isDig]

/-- complete table over the 256 byte values: a digit value below 16 means a hex digit -/
theorem digitVal_table : ∀ n : Fin 256,
    (match digitVal (UInt8.ofNat n.val) with
     | some d => decide (d < 16) = Spec.Lex.isHex (UInt8.ofNat n.val)
     | none => Spec.Lex.isHex (UInt8.ofNat n.val) = false) = true := by decide +kernel

theorem simpleEsc_cases (e v : UInt8) (h : simpleEsc e = some v) :
    (e = 97 ∧ v = 7) ∨ (e = 98 ∧ v = 8) ∨ (e = 102 ∧ v = 12) ∨ (e = 110 ∧ v = 10) ∨ (e = 114 ∧ v = 13) ∨
    (e = 116 ∧ v = 9) ∨ (e = 118 ∧ v = 11) ∨ (e = 92 ∧ v = 92) ∨ (e = 63 ∧ v = 63) ∨ (e = 39 ∧ v = 39) ∨
    (e = 34 ∧ v = 34) := by
  unfold simpleEsc at h
  repeat' split at h
  all_goals simp_all

theorem planEsc_simple (q : Nat) (e v : UInt8) (rs1 : List Rn) (h : simpleEsc e = some v) :
    planEsc q (asR e) rs1 = (2, .push [v]) := by
  rcases simpleEsc_cases e v h with h | h | h | h | h | h | h | h | h | h | h <;>
    (obtain ⟨rfl, rfl⟩ := h; simp [planEsc, asR, isOctR])

theorem toNat_inj (a b : UInt8) : a.toNat = b.toNat ↔ a = b :=
  ⟨fun h => UInt8.toNat_inj.mp h, fun h => by rw [h]⟩

/-- a plan that neither pushes nor closes ends the literal in an error -/
theorem pureGo_no_push (q : Nat) (c : Rn) (rs : List Rn) (buf : List UInt8) (e : Bool)
    (h : (strPlan q c rs).2 = .eol ∨ (strPlan q c rs).2 = .eof ∨ ∃ cls, (strPlan q c rs).2 = .report cls) :
    pureGo q 0 (c :: rs) buf e = none := by
  simp only [pureGo]
  rcases h with h | h | ⟨cls, h⟩ <;> rw [h] <;> simp [pureGo_sticky]

theorem pureGo_push (q : Nat) (c : Rn) (rs : List Rn) (buf : List UInt8) (e : Bool) (k : Nat) (bs : List UInt8)
    (h : strPlan q c rs = (k, .push bs)) :
    pureGo q 0 (c :: rs) buf e = pureGo q (k - 1) rs (buf ++ bs) e := by
  simp only [pureGo, h]

/-- the relation to establish: wherever the transcribed tokenizer makes a claim, the fold agrees -/
def Agree (q : UInt8) (s : Nat) (l : List UInt8) (acc : List UInt8) : Prop :=
  match pstrGo q s l acc with
  | .accept v => pureGo q.toNat s (l.map asR) acc false = some v
  | .reject => pureGo q.toNat s (l.map asR) acc false = none
  | .unknown => True

theorem agree_of_eq {q : UInt8} {s s' : Nat} {l l' : List UInt8} {acc acc' : List UInt8}
    (h1 : pstrGo q s l acc = pstrGo q s' l' acc')
    (h2 : pureGo q.toNat s (l.map asR) acc false = pureGo q.toNat s' (l'.map asR) acc' false)
    (h : Agree q s' l' acc') : Agree q s l acc := by
  unfold Agree at h ⊢
  rw [h1, h2]; exact h

theorem agree_rej {q : UInt8} {s : Nat} {l : List UInt8} {acc : List UInt8}
    (h1 : pstrGo q s l acc = .reject)
    (h2 : pureGo q.toNat s (l.map asR) acc false = none) : Agree q s l acc := by
  unfold Agree; rw [h1]; exact h2

theorem agree_unk {q : UInt8} {s : Nat} {l : List UInt8} {acc : List UInt8}
    (h1 : pstrGo q s l acc = .unknown) : Agree q s l acc := by
  unfold Agree; rw [h1]; trivial

theorem ne_toNat {a b : UInt8} (h : a ≠ b) : a.toNat ≠ b.toNat := fun h' => h ((toNat_inj a b).mp h')

theorem strPlan_raw (Q : Nat) (c : UInt8) (rs : List Rn) (h10 : c ≠ 10) (hq : c.toNat ≠ Q) (h0 : c ≠ 0)
    (h92 : c ≠ 92) : strPlan Q (asR c) rs = (1, .push (enc c.toNat)) := by
  have a : c.toNat ≠ 10 := by simpa using ne_toNat h10
  have b : c.toNat ≠ 0 := by simpa using ne_toNat h0
  have d : c.toNat ≠ 92 := by simpa using ne_toNat h92
  simp [strPlan, asR, a, b, d, hq]

theorem strPlan_close (Q : Nat) (c : UInt8) (rs : List Rn) (h10 : c ≠ 10) (hq : c.toNat = Q) :
    strPlan Q (asR c) rs = (1, .close) := by
  have a := ne_toNat h10
  have a' : c.toNat ≠ 10 := by simpa using a
  subst hq
  simp [strPlan, asR, a']

theorem strPlan_esc (Q : Nat) (hQ : Q = 34 ∨ Q = 39) (e : Rn) (rs1 : List Rn) :
    strPlan Q (asR 92) (e :: rs1) = planEsc Q e rs1 := by
  rcases hQ with rfl | rfl <;> simp [strPlan, asR]

theorem strPlan_esc_nil (Q : Nat) (hQ : Q = 34 ∨ Q = 39) : strPlan Q (asR 92) [] = (1, .eof) := by
  rcases hQ with rfl | rfl <;> simp [strPlan, asR]

theorem strPlan_nul (Q : Nat) (hQ : Q = 34 ∨ Q = 39) (rs : List Rn) :
    strPlan Q (asR 0) rs = (1, .report .nulInString) := by
  rcases hQ with rfl | rfl <;> simp [strPlan, asR]

theorem strPlan_nl (Q : Nat) (rs : List Rn) : strPlan Q (asR 10) rs = (1, .eol) := by
  simp [strPlan, asR]

theorem simpleEsc_none (e : UInt8) (h : simpleEsc e = none) :
    e ≠ 97 ∧ e ≠ 98 ∧ e ≠ 102 ∧ e ≠ 110 ∧ e ≠ 114 ∧ e ≠ 116 ∧ e ≠ 118 ∧ e ≠ 92 ∧ e ≠ 63 ∧ e ≠ 39 ∧ e ≠ 34 := by
  unfold simpleEsc at h
  repeat' split at h
  all_goals simp_all

theorem isOct_bounds (e : UInt8) (h : Spec.Lex.isOct e = true) : 48 ≤ e.toNat ∧ e.toNat ≤ 55 := by
  simpa [Spec.Lex.isOct] using h

theorem planEsc_oct (Q : Nat) (e : UInt8) (rs1 : List Rn) (h : Spec.Lex.isOct e = true) :
    planEsc Q (asR e) rs1 = planOct (asR e) rs1 := by
  have hb := isOct_bounds e h
  have h1 : ¬ (e.toNat = 120 ∨ e.toNat = 88) := by omega
  have h2 : isOctR e.toNat = true := by rw [isOct_eq]; exact h
  simp [planEsc, asR, h1, h2]

theorem planEsc_x (Q : Nat) (rs1 : List Rn) : planEsc Q (asR 120) rs1 = planHex Q rs1 := by
  simp [planEsc, asR]

theorem planEsc_u (Q : Nat) (rs1 : List Rn) : planEsc Q (asR 117) rs1 = planUni Q 4 rs1 := by
  simp [planEsc, asR, isOctR]

theorem planEsc_U (Q : Nat) (rs1 : List Rn) : planEsc Q (asR 85) rs1 = planUni Q 8 rs1 := by
  simp [planEsc, asR, isOctR]

theorem planEsc_bad (Q : Nat) (e : UInt8) (rs1 : List Rn) (hs : simpleEsc e = none)
    (ho : Spec.Lex.isOct e = false) (hx : e ≠ 120) (hX : e ≠ 88) (hu : e ≠ 117) (hU : e ≠ 85) :
    planEsc Q (asR e) rs1 = (2, .report .badEscape) := by
  obtain ⟨a1, a2, a3, a4, a5, a6, a7, a8, a9, a10, a11⟩ := simpleEsc_none e hs
  have n (x : UInt8) (h : e ≠ x) : e.toNat ≠ x.toNat := ne_toNat h
  have b1 := n _ a1; have b2 := n _ a2; have b3 := n _ a3; have b4 := n _ a4; have b5 := n _ a5
  have b6 := n _ a6; have b7 := n _ a7; have b8 := n _ a8; have b9 := n _ a9; have b10 := n _ a10
  have b11 := n _ a11; have c1 := n _ hx; have c2 := n _ hX; have c3 := n _ hu; have c4 := n _ hU
  have ho' : isOctR e.toNat = false := by rw [isOct_eq]; exact ho
  simp only [UInt8.toNat_ofNat, Nat.reducePow, Nat.reduceMod] at b1 b2 b3 b4 b5 b6 b7 b8 b9 b10 b11 c1 c2 c3 c4
  simp [planEsc, asR, ho', b1, b2, b3, b4, b5, b6, b7, b8, b9, b10, b11, c1, c2, c3, c4]

theorem planOct_nil (e : Rn) : planOct e [] = (2, .eof) := rfl
theorem planOct_1 (e c2 : Rn) (rs : List Rn) (h2 : isOctR c2.r = false) :
    planOct e (c2 :: rs) = (2, .push [UInt8.ofNat (e.r - 48)]) := by
  simp [planOct, h2]
theorem planOct_2nil (e c2 : Rn) (h2 : isOctR c2.r = true) : planOct e [c2] = (3, .eof) := by
  simp [planOct, h2]
theorem planOct_2 (e c2 c3 : Rn) (rs : List Rn) (h2 : isOctR c2.r = true) (h3 : isOctR c3.r = false) :
    planOct e (c2 :: c3 :: rs) = (3, .push [UInt8.ofNat ((e.r - 48) * 8 + (c2.r - 48))]) := by
  simp only [planOct, h2, h3, Bool.not_true, Bool.not_false, Bool.false_eq_true, if_false, if_true]
theorem planOct_3 (e c2 c3 : Rn) (rs : List Rn) (h2 : isOctR c2.r = true) (h3 : isOctR c3.r = true) :
    planOct e (c2 :: c3 :: rs) =
      if (e.r - 48) * 64 + (c2.r - 48) * 8 + (c3.r - 48) > 0xff then (4, .report .octalRange)
      else (4, .push [UInt8.ofNat ((e.r - 48) * 64 + (c2.r - 48) * 8 + (c3.r - 48))]) := by
  simp only [planOct, h2, h3, Bool.not_true, Bool.false_eq_true, if_false]

theorem octNum1 (e : UInt8) : octNum [e] = e.toNat - 48 := by simp [octNum]
theorem octNum2 (e c2 : UInt8) : octNum [e, c2] = (e.toNat - 48) * 8 + (c2.toNat - 48) := by simp [octNum]
theorem octNum3 (e c2 c3 : UInt8) :
    octNum [e, c2, c3] = (e.toNat - 48) * 64 + (c2.toNat - 48) * 8 + (c3.toNat - 48) := by
  simp [octNum]; omega

/-- the octal branch of the specification, for the four shapes of the text after the first digit -/
theorem pstr_oct (q e : UInt8) (r acc : List UInt8) (hcq : ¬ (92 : UInt8) = q) (hse : simpleEsc e = none)
    (ho : Spec.Lex.isOct e = true) :
    pstrGo q 0 (92 :: e :: r) acc =
      (let more := (r.take 2).takeWhile Spec.Lex.isOct
       if octNum (e :: more) > 255 then .unknown
       else pstrGo q (1 + more.length) (e :: r) (acc ++ [UInt8.ofNat (octNum (e :: more))])) := by
  simp [pstrGo, hcq, hse, ho]


theorem hexVal_lt (b : UInt8) (h : Spec.Lex.isHex b = true) : hexVal b < 16 := by
  have hb' := b.toNat_lt
  simp only [Spec.Lex.isHex, Spec.Lex.isDig, Bool.or_eq_true, Bool.and_eq_true, decide_eq_true_eq] at h
  simp only [hexVal]
  by_cases h1 : Spec.Lex.isDig b = true
  · rw [if_pos h1]
    simp only [Spec.Lex.isDig, Bool.and_eq_true, decide_eq_true_eq] at h1
    omega
  · rw [if_neg h1]
    simp only [Spec.Lex.isDig, Bool.and_eq_true, decide_eq_true_eq] at h1
    split <;> omega

theorem hexNum_lt (ds : List UInt8) (h : ds.all Spec.Lex.isHex = true) : hexNum ds < 16 ^ ds.length := by
  suffices ∀ n, ds.foldl (fun a b => a * 16 + hexVal b) n < (n + 1) * 16 ^ ds.length by
    have := this 0; simpa [hexNum] using this
  induction ds with
  | nil => intro n; simp
  | cons d ds ih =>
    intro n
    simp only [List.all_cons, Bool.and_eq_true] at h
    have hd := hexVal_lt d h.1
    have := ih h.2 (n * 16 + hexVal d)
    simp only [List.foldl_cons, List.length_cons]
    calc List.foldl (fun a b => a * 16 + hexVal b) (n * 16 + hexVal d) ds
        < (n * 16 + hexVal d + 1) * 16 ^ ds.length := this
      _ ≤ ((n + 1) * 16) * 16 ^ ds.length := Nat.mul_le_mul_right _ (by omega)
      _ = (n + 1) * 16 ^ (ds.length + 1) := by rw [Nat.pow_succ, Nat.mul_assoc, Nat.mul_comm 16]

/-- `ParseUint(·, 16, 32)` on up to 8 hex digits is their value -/
theorem parseUint_hex_ok (ds : List UInt8) (hne : ds ≠ []) (h : ds.all Spec.Lex.isHex = true) (hl : ds.length ≤ 8) :
    parseUint ds 16 32 = .ok (hexNum ds) := by
  rw [parseUint_hex ds 32 (by omega) hne h]
  have h1 := hexNum_lt ds h
  have h2 : 16 ^ ds.length ≤ 16 ^ 8 := Nat.pow_le_pow_right (by omega) hl
  have : hexNum ds ≤ 2 ^ 32 - 1 := by
    have : (16 : Nat) ^ 8 = 2 ^ 32 := by decide
    omega
  simp [this]

/-- a string that starts with a non-hex character is not accepted by `ParseUint(·, 16, ·)` -/
theorem parseUint_head_not_hex (c1 : UInt8) (rest : List UInt8) (bits : Nat) (h : Spec.Lex.isHex c1 = false) :
    ∀ v, parseUint (c1 :: rest) 16 bits ≠ .ok v := by
  intro v
  have ht := digitVal_table ⟨c1.toNat, c1.toNat_lt⟩
  simp only [UInt8.ofNat_toNat] at ht
  simp only [parseUint, List.isEmpty_cons, Bool.false_eq_true, if_false, parseUintGo]
  cases hd : digitVal c1 with
  | none => simp
  | some d =>
    rw [hd] at ht
    simp only [h, decide_eq_false_iff_not, Nat.not_lt, decide_eq_true_eq] at ht
    have : d ≥ 16 := by simpa using ht
    simp [this]

theorem planHex_nil (Q : Nat) : planHex Q [] = (2, .eof) := rfl
theorem planHex_stop (Q : Nat) (c1 : Rn) (rs2 : List Rn) (h : c1.r = Q ∨ c1.r = 92) :
    planHex Q (c1 :: rs2) = (2, .report .badHex) := by simp [planHex, h]
theorem planHex_1nil (Q : Nat) (c1 : Rn) (h : ¬ (c1.r = Q ∨ c1.r = 92)) : planHex Q [c1] = (3, .eof) := by
  simp [planHex, h]
theorem planHex_2ok (Q : Nat) (c1 c2 : Rn) (rs : List Rn) (h : ¬ (c1.r = Q ∨ c1.r = 92)) (h2 : isHexR c2.r = true)
    (v : Nat) (hp : parseUint (enc c1.r ++ enc c2.r) 16 32 = .ok v) :
    planHex Q (c1 :: c2 :: rs) = (4, .push [UInt8.ofNat v]) := by
  simp only [planHex, h, if_false, h2, if_true, hp]
theorem planHex_2bad (Q : Nat) (c1 c2 : Rn) (rs : List Rn) (h : ¬ (c1.r = Q ∨ c1.r = 92)) (h2 : isHexR c2.r = true)
    (hp : ∀ v, parseUint (enc c1.r ++ enc c2.r) 16 32 ≠ .ok v) :
    planHex Q (c1 :: c2 :: rs) = (4, .report .badHex) := by
  cases hq : parseUint (enc c1.r ++ enc c2.r) 16 32 with
  | ok i => exact absurd hq (hp i)
  | «syntax» => simp only [planHex, h, if_false, h2, if_true, hq]
  | range => simp only [planHex, h, if_false, h2, if_true, hq]
theorem planHex_1ok (Q : Nat) (c1 c2 : Rn) (rs : List Rn) (h : ¬ (c1.r = Q ∨ c1.r = 92)) (h2 : isHexR c2.r = false)
    (v : Nat) (hp : parseUint (enc c1.r) 16 32 = .ok v) :
    planHex Q (c1 :: c2 :: rs) = (3, .push [UInt8.ofNat v]) := by
  simp only [planHex, h, if_false, h2, Bool.false_eq_true, hp]
theorem planHex_1bad (Q : Nat) (c1 c2 : Rn) (rs : List Rn) (h : ¬ (c1.r = Q ∨ c1.r = 92)) (h2 : isHexR c2.r = false)
    (hp : ∀ v, parseUint (enc c1.r) 16 32 ≠ .ok v) :
    planHex Q (c1 :: c2 :: rs) = (3, .report .badHex) := by
  cases hq : parseUint (enc c1.r) 16 32 with
  | ok i => exact absurd hq (hp i)
  | «syntax» => simp only [planHex, h, if_false, h2, Bool.false_eq_true, hq]
  | range => simp only [planHex, h, if_false, h2, Bool.false_eq_true, hq]

theorem pstr_hex (q : UInt8) (r acc : List UInt8) (hcq : ¬ (92 : UInt8) = q) :
    pstrGo q 0 (92 :: 120 :: r) acc =
      (let ds := (r.take 2).takeWhile Spec.Lex.isHex
       if ds.isEmpty then .reject
       else pstrGo q (1 + ds.length) (120 :: r) (acc ++ [UInt8.ofNat (hexNum ds)])) := by
  have h1 : simpleEsc 120 = none := by decide
  have h2 : Spec.Lex.isOct 120 = false := by decide
  simp [pstrGo, hcq, h1, h2]


theorem stop_iff (q c1 : UInt8) : ((asR c1).r = q.toNat ∨ (asR c1).r = 92) ↔ (c1 = q ∨ c1 = 92) := by
  simp only [asR]
  constructor
  · rintro (h | h)
    · exact Or.inl ((toNat_inj _ _).mp h)
    · exact Or.inr ((toNat_inj c1 92).mp (by simpa using h))
  · rintro (h | h)
    · exact Or.inl (by rw [h])
    · exact Or.inr (by rw [h]; rfl)

theorem quote_not_hex (q : UInt8) (hq : q = 34 ∨ q = 39) : Spec.Lex.isHex q = false := by
  rcases hq with rfl | rfl <;> decide

theorem hex_not_stop (q b : UInt8) (hq : q = 34 ∨ q = 39) (h : Spec.Lex.isHex b = true) :
    ¬ ((asR b).r = q.toNat ∨ (asR b).r = 92) := by
  have hb : b ≠ q ∧ b ≠ 92 := by
    constructor
    · intro hbq; subst hbq; rcases hq with rfl | rfl <;> simp [Spec.Lex.isHex, Spec.Lex.isDig] at h
    · intro hb; subst hb; simp [Spec.Lex.isHex, Spec.Lex.isDig] at h
  simp only [asR]
  rintro (h1 | h1)
  · exact hb.1 (UInt8.toNat_inj.mp h1)
  · exact hb.2 (UInt8.toNat_inj.mp (by simpa using h1))

theorem readU_hex (q : UInt8) (hq : q = 34 ∨ q = 39) (n : Nat) : ∀ (r : List UInt8),
    (r.take n).length = n → (r.take n).all Spec.Lex.isHex = true →
    readU q.toNat n (r.map asR) = some ((r.take n).map asR) := by
  induction n with
  | zero => intro r _ _; simp [readU]
  | succ n ih =>
    intro r hl ha
    cases r with
    | nil => simp at hl
    | cons b r =>
      simp only [List.take_succ_cons, List.length_cons, Nat.add_right_cancel_iff, List.all_cons,
        Bool.and_eq_true] at hl ha
      have hns := hex_not_stop q b hq ha.1
      simp only [List.map_cons, readU, hns, if_false, List.take_succ_cons]
      rw [ih r hl ha.2]; rfl

theorem parseUintGo_ok_hex (M : Nat) (s : List UInt8) : ∀ (n v : Nat),
    parseUintGo 16 M n s = .ok v → s.all Spec.Lex.isHex = true := by
  induction s with
  | nil => intro _ _ _; rfl
  | cons c cs ih =>
    intro n v h
    have ht := digitVal_table ⟨c.toNat, c.toNat_lt⟩
    simp only [UInt8.ofNat_toNat] at ht
    simp only [parseUintGo] at h
    cases hd : digitVal c with
    | none => simp [hd] at h
    | some d =>
      rw [hd] at ht
      simp only [hd] at h
      by_cases hge : d ≥ 16
      · simp [hge] at h
      · simp only [hge, if_false] at h
        have hc : Spec.Lex.isHex c = true := by
          have : decide (d < 16) = true := by simp; omega
          simp only [this, decide_eq_true_eq] at ht
          simpa using ht.symm
        split at h
        · simp at h
        · split at h
          · simp at h
          · simp only [List.all_cons, hc, Bool.true_and]
            exact ih _ _ h

theorem parseUint_ok_hex (s : List UInt8) (bits v : Nat) (h : parseUint s 16 bits = .ok v) :
    s.all Spec.Lex.isHex = true := by
  simp only [parseUint] at h
  split at h
  · simp at h
  · exact parseUintGo_ok_hex _ s 0 v h

/-- well-formed `\u` / `\U` digits: the plan pushes the code point's encoding (or reports the range) -/
theorem planUni_good (q : UInt8) (hq : q = 34 ∨ q = 39) (n : Nat) (hn : n ≤ 8) (hn0 : 0 < n) (r : List UInt8)
    (hasc : ∀ b ∈ r, b.toNat < 128)
    (hl : (r.take n).length = n) (ha : (r.take n).all Spec.Lex.isHex = true) :
    planUni q.toNat n (r.map asR) =
      if n = 8 ∧ hexNum (r.take n) > 0x10ffff then (2 + n, .report .unicodeRange)
      else (2 + n, .push (enc (hexNum (r.take n)))) := by
  have hru := readU_hex q hq n r hl ha
  have henc : encAll ((r.take n).map asR) = r.take n :=
    encAll_asR _ (fun b hb => hasc b (List.mem_of_mem_take hb))
  have hne : r.take n ≠ [] := by intro h; rw [h] at hl; simp at hl; omega
  have hpu := parseUint_hex_ok (r.take n) hne ha (by rw [hl]; exact hn)
  have hlen : ((r.take n).map asR).length = n := by rw [List.length_map]; exact hl
  simp only [planUni, hru, hlen, Nat.lt_irrefl, if_false, henc, hpu]

/-- anything else: the plan never pushes -/
theorem planUni_bad (q : UInt8) (n : Nat) (r : List UInt8) (hasc : ∀ b ∈ r, b.toNat < 128)
    (hbad : ¬ ((r.take n).length = n ∧ (r.take n).all Spec.Lex.isHex = true)) :
    (planUni q.toNat n (r.map asR)).2 = .eof ∨ ∃ cls, (planUni q.toNat n (r.map asR)).2 = .report cls := by
  unfold planUni
  cases hru : readU q.toNat n (r.map asR) with
  | none => left; rfl
  | some u =>
    right
    simp only
    obtain ⟨hpre, hun, hul⟩ := readU_some _ _ _ _ hru
    by_cases hlt : u.length < n
    · simp only [hlt, if_true]; exact ⟨_, rfl⟩
    · simp only [hlt, if_false]
      have hun' : u.length = n := by omega
      cases hpu : parseUint (encAll u) 16 32 with
      | ok i =>
        exfalso
        apply hbad
        have hu : u = (r.take n).map asR := by
          rw [hpre, hun', List.map_take]
        have henc : encAll u = r.take n := by
          rw [hu]; exact encAll_asR _ (fun b hb => hasc b (List.mem_of_mem_take hb))
        rw [henc] at hpu
        refine ⟨?_, parseUint_ok_hex _ _ _ hpu⟩
        have := congrArg List.length hu
        simp only [List.length_map] at this
        omega
      | «syntax» => exact ⟨_, rfl⟩
      | range => exact ⟨_, rfl⟩

theorem pstr_u (q : UInt8) (r acc : List UInt8) (hcq : ¬ (92 : UInt8) = q) :
    pstrGo q 0 (92 :: 117 :: r) acc =
      (if (r.take 4).length = 4 ∧ (r.take 4).all Spec.Lex.isHex = true then
        (if isSurrogate (hexNum (r.take 4)) = true then .unknown
         else pstrGo q 5 (117 :: r) (acc ++ Utf8.encodeRune (hexNum (r.take 4))))
       else .reject) := by
  have h1 : simpleEsc 117 = none := by decide
  have h2 : Spec.Lex.isOct 117 = false := by decide
  simp [pstrGo, hcq, h1, h2]

theorem pstr_U (q : UInt8) (r acc : List UInt8) (hcq : ¬ (92 : UInt8) = q) :
    pstrGo q 0 (92 :: 85 :: r) acc =
      (if (r.take 8).length = 8 ∧ (r.take 8).all Spec.Lex.isHex = true ∧ (r.take 8).take 2 = [48, 48] ∧
          ((r.take 8).getD 2 0 = 48 ∨ (r.take 8).getD 2 0 = 49) then
        (if hexNum (r.take 8) > 0x10FFFF ∨ isSurrogate (hexNum (r.take 8)) = true then .unknown
         else pstrGo q 9 (85 :: r) (acc ++ Utf8.encodeRune (hexNum (r.take 8))))
       else .reject) := by
  have h1 : simpleEsc 85 = none := by decide
  have h2 : Spec.Lex.isOct 85 = false := by decide
  simp [pstrGo, hcq, h1, h2]

/-- complete table: among hex digits, value 0 is `0` and value ≤ 1 is `0` or `1` -/
theorem hexVal_table : ∀ n : Fin 256,
    (!(Spec.Lex.isHex (UInt8.ofNat n.val)) ||
      (decide (hexVal (UInt8.ofNat n.val) = 0) == decide (n.val = 48)) &&
      (decide (hexVal (UInt8.ofNat n.val) ≤ 1) == decide (n.val = 48 ∨ n.val = 49))) = true := by
  decide +kernel

theorem hexVal_small (b : UInt8) (h : Spec.Lex.isHex b = true) :
    (hexVal b = 0 ↔ b = 48) ∧ (hexVal b ≤ 1 ↔ (b = 48 ∨ b = 49)) := by
  have ht := hexVal_table ⟨b.toNat, b.toNat_lt⟩
  simp only [UInt8.ofNat_toNat, h, Bool.not_true, Bool.false_or, Bool.and_eq_true, beq_iff_eq,
    decide_eq_decide] at ht
  have e48 : b.toNat = 48 ↔ b = 48 := ⟨fun h => UInt8.toNat_inj.mp (by simpa using h), fun h => by rw [h]; rfl⟩
  have e49 : b.toNat = 49 ↔ b = 49 := ⟨fun h => UInt8.toNat_inj.mp (by simpa using h), fun h => by rw [h]; rfl⟩
  exact ⟨ht.1.trans e48, ht.2.trans (or_congr e48 e49)⟩

/-- eight hex digits that do not start with `00` followed by `0` or `1` are above U+10FFFF -/
theorem hexNum8_big (ds : List UInt8) (hl : ds.length = 8) (ha : ds.all Spec.Lex.isHex = true)
    (hp : ¬ (ds.take 2 = [48, 48] ∧ (ds.getD 2 0 = 48 ∨ ds.getD 2 0 = 49))) : hexNum ds > 0x10FFFF := by
  rcases ds with _ | ⟨a, _ | ⟨b, _ | ⟨c, _ | ⟨d, _ | ⟨e, _ | ⟨f, _ | ⟨g, _ | ⟨h, _ | ⟨i, t⟩⟩⟩⟩⟩⟩⟩⟩⟩ <;>
    simp at hl
  simp only [List.all_cons, List.all_nil, Bool.and_true, Bool.and_eq_true] at ha
  obtain ⟨ha, hb, hc, hd, he, hf, hg, hh⟩ := ha
  have la := hexVal_lt a ha; have lb := hexVal_lt b hb; have lc := hexVal_lt c hc
  have sa := hexVal_small a ha; have sb := hexVal_small b hb; have sc := hexVal_small c hc
  simp only [List.take_succ_cons, List.take_zero, List.cons.injEq, and_true, List.getD_cons_succ,
    List.getD_cons_zero] at hp
  have key : ¬ (hexVal a = 0 ∧ hexVal b = 0 ∧ hexVal c ≤ 1) := by
    rintro ⟨h1, h2, h3⟩
    exact hp ⟨⟨sa.1.mp h1, sb.1.mp h2⟩, sc.2.mp h3⟩
  simp only [hexNum, List.foldl_cons, List.foldl_nil]
  omega


theorem agree_all (q : UInt8) (hq : q = 34 ∨ q = 39) (l : List UInt8) :
    (∀ b ∈ l, b.toNat < 128) → ∀ s acc, Agree q s l acc := by
  induction l with
  | nil =>
    intro _ s acc
    exact agree_rej (by cases s <;> rfl) (by cases s <;> rfl)
  | cons c bs ih =>
    intro hascii s acc
    have hbs : ∀ b ∈ bs, b.toNat < 128 := fun b hb => hascii b (by simp [hb])
    have hc : c.toNat < 128 := hascii c (by simp)
    cases s with
    | succ s => exact agree_of_eq rfl rfl (ih hbs s acc)
    | zero =>
      have hQ : q.toNat = 34 ∨ q.toNat = 39 := by rcases hq with rfl | rfl <;> simp
      by_cases h0 : c = 0
      · subst h0
        exact agree_rej (by simp [pstrGo])
          (pureGo_no_push _ _ _ _ _ (Or.inr (Or.inr ⟨_, congrArg Prod.snd (strPlan_nul _ hQ _)⟩)))
      by_cases h10 : c = 10
      · subst h10
        exact agree_rej (by simp [pstrGo])
          (pureGo_no_push _ _ _ _ _ (Or.inl (congrArg Prod.snd (strPlan_nl _ _))))
      by_cases hcq : c = q
      · subst hcq
        have hp := strPlan_close c.toNat c (bs.map asR) h10 rfl
        unfold Agree
        simp only [pstrGo, h0, h10, or_self, if_false, if_true]
        split
        · rename_i v hv
          split at hv
          · simp only [PR.accept.injEq] at hv; subst hv
            simp [pureGo, hp]
          · cases hv
        · rename_i hv; split at hv <;> cases hv
        · trivial
      have hcq' : c.toNat ≠ q.toNat := ne_toNat hcq
      by_cases h92 : c = 92
      · subst h92
        cases bs with
        | nil =>
          exact agree_rej (by simp [pstrGo, hcq])
            (pureGo_no_push _ _ _ _ _ (Or.inr (Or.inl (congrArg Prod.snd (strPlan_esc_nil _ hQ)))))
        | cons e r =>
          have hr : ∀ b ∈ r, b.toNat < 128 := fun b hb => hbs b (by simp [hb])
          have he : e.toNat < 128 := hbs e (by simp)
          have hplan : strPlan q.toNat (asR 92) ((e :: r).map asR) = planEsc q.toNat (asR e) (r.map asR) := by
            rw [List.map_cons]; exact strPlan_esc _ hQ _ _
          have hspec0 : ∀ X : PR, (match simpleEsc e with
              | some v => pstrGo q 1 (e :: r) (acc ++ [v])
              | none => X) = pstrGo q 0 ((92 : UInt8) :: e :: r) acc → True := fun _ _ => trivial
          cases hse : simpleEsc e with
          | some v =>
            have hp := planEsc_simple q.toNat e v (r.map asR) hse
            refine agree_of_eq (s' := 1) (l' := e :: r) (acc' := acc ++ [v]) ?_ ?_ (ih hbs 1 (acc ++ [v]))
            · simp [pstrGo, hcq, hse]
            · rw [List.map_cons, pureGo_push _ _ _ _ _ 2 [v] (by rw [hplan, hp])]
          | none =>
            by_cases ho : Spec.Lex.isOct e = true
            · -- octal escape
              have hpe : strPlan q.toNat (asR 92) ((e :: r).map asR) = planOct (asR e) (r.map asR) := by
                rw [hplan, planEsc_oct _ _ _ ho]
              have hb := isOct_bounds e ho
              have hsp := pstr_oct q e r acc hcq hse ho
              cases r with
              | nil =>
                refine agree_rej ?_ (pureGo_no_push _ _ _ _ _ (Or.inr (Or.inl (by rw [hpe]; rfl))))
                rw [hsp]
                have h1 : ¬ (octNum [e] > 255) := by rw [octNum1]; omega
                simp only [List.take_nil, List.takeWhile_nil, h1, if_false, List.length_nil]
                simp [pstrGo]
              | cons c2 r2 =>
                by_cases h2 : Spec.Lex.isOct c2 = true
                · have h2b := isOct_bounds c2 h2
                  have h2r : isOctR (asR c2).r = true := by simp only [asR]; rw [isOct_eq]; exact h2
                  cases r2 with
                  | nil =>
                    refine agree_rej ?_ (pureGo_no_push _ _ _ _ _ (Or.inr (Or.inl (by
                      rw [hpe]; exact congrArg Prod.snd (planOct_2nil _ _ h2r)))))
                    rw [hsp]
                    have hm : (List.take 2 [c2]).takeWhile Spec.Lex.isOct = [c2] := by simp [List.takeWhile, h2]
                    have h1 : ¬ (octNum [e, c2] > 255) := by rw [octNum2]; omega
                    simp only [hm, h1, if_false]
                    simp [pstrGo]
                  | cons c3 r3 =>
                    by_cases h3 : Spec.Lex.isOct c3 = true
                    · have h3b := isOct_bounds c3 h3
                      have h3r : isOctR (asR c3).r = true := by simp only [asR]; rw [isOct_eq]; exact h3
                      have hm : (List.take 2 (c2 :: c3 :: r3)).takeWhile Spec.Lex.isOct = [c2, c3] := by
                        simp [List.takeWhile, h2, h3]
                      by_cases hv : octNum [e, c2, c3] > 255
                      · refine agree_unk ?_
                        rw [hsp]; simp only [hm, hv, if_true]
                      · refine agree_of_eq (s' := 3) (l' := e :: c2 :: c3 :: r3)
                          (acc' := acc ++ [UInt8.ofNat (octNum [e, c2, c3])]) ?_ ?_ (ih hbs 3 _)
                        · rw [hsp]; simp only [hm, hv, if_false]; rfl
                        · have hv' : ¬ ((asR e).r - 48) * 64 + ((asR c2).r - 48) * 8 + ((asR c3).r - 48) > 0xff := by
                            rw [octNum3] at hv; exact hv
                          rw [List.map_cons, pureGo_push _ _ _ _ _ 4 _ (by
                            rw [hpe]
                            simp only [List.map_cons]
                            rw [planOct_3 _ _ _ _ h2r h3r, if_neg hv'])]
                          rw [octNum3]; rfl
                    · have h3r : isOctR (asR c3).r = false := by
                        simp only [asR]; rw [isOct_eq]; simpa using h3
                      have hm : (List.take 2 (c2 :: c3 :: r3)).takeWhile Spec.Lex.isOct = [c2] := by
                        simp [List.takeWhile, h2, h3]
                      have h1 : ¬ (octNum [e, c2] > 255) := by rw [octNum2]; omega
                      refine agree_of_eq (s' := 2) (l' := e :: c2 :: c3 :: r3)
                        (acc' := acc ++ [UInt8.ofNat (octNum [e, c2])]) ?_ ?_ (ih hbs 2 _)
                      · rw [hsp]; simp only [hm, h1, if_false]; rfl
                      · rw [List.map_cons, pureGo_push _ _ _ _ _ 3 _ (by
                          rw [hpe]
                          simp only [List.map_cons]
                          rw [planOct_2 _ _ _ _ h2r h3r])]
                        rw [octNum2]; rfl
                · have h2r : isOctR (asR c2).r = false := by
                    simp only [asR]; rw [isOct_eq]; simpa using h2
                  have hm : (List.take 2 (c2 :: r2)).takeWhile Spec.Lex.isOct = [] := by
                    cases r2 <;> simp [List.takeWhile, h2]
                  have h1 : ¬ (octNum [e] > 255) := by rw [octNum1]; omega
                  refine agree_of_eq (s' := 1) (l' := e :: c2 :: r2)
                    (acc' := acc ++ [UInt8.ofNat (octNum [e])]) ?_ ?_ (ih hbs 1 _)
                  · rw [hsp]; simp only [hm, h1, if_false]; rfl
                  · rw [List.map_cons, pureGo_push _ _ _ _ _ 2 _ (by
                      rw [hpe]
                      simp only [List.map_cons]
                      rw [planOct_1 _ _ _ h2r])]
                    rw [octNum1]; rfl
            · have ho' : Spec.Lex.isOct e = false := by simpa using ho
              by_cases hx : e = 120
              · subst hx
                have hpe : strPlan q.toNat (asR 92) (((120 : UInt8) :: r).map asR) = planHex q.toNat (r.map asR) := by
                  rw [hplan, planEsc_x]
                have hsp := pstr_hex q r acc hcq
                cases r with
                | nil =>
                  refine agree_rej ?_ (pureGo_no_push _ _ _ _ _ (Or.inr (Or.inl (by rw [hpe]; rfl))))
                  rw [hsp]; simp
                | cons c1 r2 =>
                  have hc1 : c1.toNat < 128 := hr c1 (by simp)
                  have henc1 : enc (asR c1).r = [c1] := enc_asR c1 hc1
                  by_cases hstop : c1 = q ∨ c1 = 92
                  · have hnh : Spec.Lex.isHex c1 = false := by
                      rcases hstop with rfl | rfl
                      · exact quote_not_hex _ hq
                      · decide
                    refine agree_rej ?_ (pureGo_no_push _ _ _ _ _ (Or.inr (Or.inr ⟨_, by
                      rw [hpe, List.map_cons]
                      exact congrArg Prod.snd (planHex_stop _ _ _ ((stop_iff q c1).mpr hstop))⟩)))
                    rw [hsp]
                    have hm : (List.take 2 (c1 :: r2)).takeWhile Spec.Lex.isHex = [] := by
                      cases r2 <;> simp [List.takeWhile, hnh]
                    simp only [hm]; rfl
                  · have hstop' : ¬ ((asR c1).r = q.toNat ∨ (asR c1).r = 92) := fun h => hstop ((stop_iff q c1).mp h)
                    by_cases h1 : Spec.Lex.isHex c1 = true
                    · cases r2 with
                      | nil =>
                        refine agree_rej ?_ (pureGo_no_push _ _ _ _ _ (Or.inr (Or.inl (by
                          rw [hpe]; exact congrArg Prod.snd (planHex_1nil _ _ hstop')))))
                        rw [hsp]
                        have hm : (List.take 2 [c1]).takeWhile Spec.Lex.isHex = [c1] := by simp [List.takeWhile, h1]
                        simp only [hm]
                        simp [pstrGo]
                      | cons c2 r3 =>
                        have hc2 : c2.toNat < 128 := hr c2 (by simp)
                        have henc2 : enc (asR c2).r = [c2] := enc_asR c2 hc2
                        by_cases h2 : Spec.Lex.isHex c2 = true
                        · have h2r : isHexR (asR c2).r = true := by simp only [asR]; rw [isHex_eq]; exact h2
                          have hm : (List.take 2 (c1 :: c2 :: r3)).takeWhile Spec.Lex.isHex = [c1, c2] := by
                            simp [List.takeWhile, h1, h2]
                          have hpu : parseUint (enc (asR c1).r ++ enc (asR c2).r) 16 32 = .ok (hexNum [c1, c2]) := by
                            rw [henc1, henc2]
                            exact parseUint_hex_ok [c1, c2] (by simp) (by simp [h1, h2]) (by simp)
                          refine agree_of_eq (s' := 3) (l' := (120 : UInt8) :: c1 :: c2 :: r3)
                            (acc' := acc ++ [UInt8.ofNat (hexNum [c1, c2])]) ?_ ?_ (ih hbs 3 _)
                          · rw [hsp]; simp only [hm]; rfl
                          · rw [List.map_cons, pureGo_push _ _ _ _ _ 4 _ (by
                              rw [hpe]
                              simp only [List.map_cons]
                              rw [planHex_2ok _ _ _ _ hstop' h2r _ hpu])]
                        · have h2r : isHexR (asR c2).r = false := by
                            simp only [asR]; rw [isHex_eq]; simpa using h2
                          have hm : (List.take 2 (c1 :: c2 :: r3)).takeWhile Spec.Lex.isHex = [c1] := by
                            simp [List.takeWhile, h1, h2]
                          have hpu : parseUint (enc (asR c1).r) 16 32 = .ok (hexNum [c1]) := by
                            rw [henc1]
                            exact parseUint_hex_ok [c1] (by simp) (by simp [h1]) (by simp)
                          refine agree_of_eq (s' := 2) (l' := (120 : UInt8) :: c1 :: c2 :: r3)
                            (acc' := acc ++ [UInt8.ofNat (hexNum [c1])]) ?_ ?_ (ih hbs 2 _)
                          · rw [hsp]; simp only [hm]; rfl
                          · rw [List.map_cons, pureGo_push _ _ _ _ _ 3 _ (by
                              rw [hpe]
                              simp only [List.map_cons]
                              rw [planHex_1ok _ _ _ _ hstop' h2r _ hpu])]
                    · have h1' : Spec.Lex.isHex c1 = false := by simpa using h1
                      have hspec : pstrGo q 0 ((92 : UInt8) :: 120 :: c1 :: r2) acc = .reject := by
                        rw [hsp]
                        have hm : (List.take 2 (c1 :: r2)).takeWhile Spec.Lex.isHex = [] := by
                          cases r2 <;> simp [List.takeWhile, h1']
                        simp only [hm]; rfl
                      cases r2 with
                      | nil =>
                        exact agree_rej hspec (pureGo_no_push _ _ _ _ _ (Or.inr (Or.inl (by
                          rw [hpe]; exact congrArg Prod.snd (planHex_1nil _ _ hstop')))))
                      | cons c2 r3 =>
                        have hc2 : c2.toNat < 128 := hr c2 (by simp)
                        have henc2 : enc (asR c2).r = [c2] := enc_asR c2 hc2
                        by_cases h2 : Spec.Lex.isHex c2 = true
                        · have h2r : isHexR (asR c2).r = true := by simp only [asR]; rw [isHex_eq]; exact h2
                          exact agree_rej hspec (pureGo_no_push _ _ _ _ _ (Or.inr (Or.inr ⟨_, by
                            rw [hpe]
                            simp only [List.map_cons]
                            exact congrArg Prod.snd (planHex_2bad _ _ _ _ hstop' h2r (by
                              rw [henc1, henc2]; exact parseUint_head_not_hex c1 [c2] 32 h1'))⟩)))
                        · have h2r : isHexR (asR c2).r = false := by
                            simp only [asR]; rw [isHex_eq]; simpa using h2
                          exact agree_rej hspec (pureGo_no_push _ _ _ _ _ (Or.inr (Or.inr ⟨_, by
                            rw [hpe]
                            simp only [List.map_cons]
                            exact congrArg Prod.snd (planHex_1bad _ _ _ _ hstop' h2r (by
                              rw [henc1]; exact parseUint_head_not_hex c1 [] 32 h1'))⟩)))
              · by_cases hX : e = 88
                · subst hX
                  refine agree_unk ?_
                  have h1 : simpleEsc 88 = none := by decide
                  have h2 : Spec.Lex.isOct 88 = false := by decide
                  simp [pstrGo, hcq, h1, h2]
                by_cases hu : e = 117
                · subst hu
                  have hpe : strPlan q.toNat (asR 92) (((117 : UInt8) :: r).map asR) = planUni q.toNat 4 (r.map asR) := by
                    rw [hplan, planEsc_u]
                  have hsp := pstr_u q r acc hcq
                  by_cases hg : (r.take 4).length = 4 ∧ (r.take 4).all Spec.Lex.isHex = true
                  · have hgood := planUni_good q hq 4 (by omega) (by omega) r hr hg.1 hg.2
                    have h48 : ¬ ((4 : Nat) = 8 ∧ hexNum (r.take 4) > 0x10ffff) := by omega
                    rw [if_neg h48] at hgood
                    by_cases hsur : isSurrogate (hexNum (r.take 4)) = true
                    · refine agree_unk ?_
                      rw [hsp, if_pos hg, if_pos hsur]
                    · refine agree_of_eq (s' := 5) (l' := (117 : UInt8) :: r)
                        (acc' := acc ++ Utf8.encodeRune (hexNum (r.take 4))) ?_ ?_ (ih hbs 5 _)
                      · rw [hsp, if_pos hg, if_neg hsur]
                      · rw [List.map_cons, pureGo_push _ _ _ _ _ 6 _ (by rw [hpe, hgood])]
                        rfl
                  · refine agree_rej (by rw [hsp, if_neg hg]) (pureGo_no_push _ _ _ _ _ ?_)
                    rw [hpe]
                    rcases planUni_bad q 4 r hr hg with h | h
                    · exact Or.inr (Or.inl h)
                    · exact Or.inr (Or.inr h)
                by_cases hU : e = 85
                · subst hU
                  have hpe : strPlan q.toNat (asR 92) (((85 : UInt8) :: r).map asR) = planUni q.toNat 8 (r.map asR) := by
                    rw [hplan, planEsc_U]
                  have hsp := pstr_U q r acc hcq
                  by_cases hg : (r.take 8).length = 8 ∧ (r.take 8).all Spec.Lex.isHex = true
                  · have hgood := planUni_good q hq 8 (by omega) (by omega) r hr hg.1 hg.2
                    by_cases hpf : (r.take 8).take 2 = [48, 48] ∧ ((r.take 8).getD 2 0 = 48 ∨ (r.take 8).getD 2 0 = 49)
                    · have hcond : (r.take 8).length = 8 ∧ (r.take 8).all Spec.Lex.isHex = true ∧
                          (r.take 8).take 2 = [48, 48] ∧ ((r.take 8).getD 2 0 = 48 ∨ (r.take 8).getD 2 0 = 49) :=
                        ⟨hg.1, hg.2, hpf.1, hpf.2⟩
                      by_cases hbig : hexNum (r.take 8) > 0x10FFFF ∨ isSurrogate (hexNum (r.take 8)) = true
                      · refine agree_unk ?_
                        rw [hsp, if_pos hcond, if_pos hbig]
                      · have hnb : ¬ ((8 : Nat) = 8 ∧ hexNum (r.take 8) > 0x10ffff) := fun h => hbig (Or.inl h.2)
                        rw [if_neg hnb] at hgood
                        refine agree_of_eq (s' := 9) (l' := (85 : UInt8) :: r)
                          (acc' := acc ++ Utf8.encodeRune (hexNum (r.take 8))) ?_ ?_ (ih hbs 9 _)
                        · rw [hsp, if_pos hcond, if_neg hbig]
                        · rw [List.map_cons, pureGo_push _ _ _ _ _ 10 _ (by rw [hpe, hgood])]
                          rfl
                    · have hcond : ¬ ((r.take 8).length = 8 ∧ (r.take 8).all Spec.Lex.isHex = true ∧
                          (r.take 8).take 2 = [48, 48] ∧ ((r.take 8).getD 2 0 = 48 ∨ (r.take 8).getD 2 0 = 49)) :=
                        fun h => hpf ⟨h.2.2.1, h.2.2.2⟩
                      have hbig := hexNum8_big (r.take 8) hg.1 hg.2 hpf
                      rw [if_pos ⟨rfl, hbig⟩] at hgood
                      refine agree_rej (by rw [hsp, if_neg hcond]) (pureGo_no_push _ _ _ _ _ ?_)
                      rw [hpe, hgood]
                      exact Or.inr (Or.inr ⟨_, rfl⟩)
                  · have hcond : ¬ ((r.take 8).length = 8 ∧ (r.take 8).all Spec.Lex.isHex = true ∧
                        (r.take 8).take 2 = [48, 48] ∧ ((r.take 8).getD 2 0 = 48 ∨ (r.take 8).getD 2 0 = 49)) :=
                      fun h => hg ⟨h.1, h.2.1⟩
                    refine agree_rej (by rw [hsp, if_neg hcond]) (pureGo_no_push _ _ _ _ _ ?_)
                    rw [hpe]
                    rcases planUni_bad q 8 r hr hg with h | h
                    · exact Or.inr (Or.inl h)
                    · exact Or.inr (Or.inr h)
                · -- not an escape character at all
                  refine agree_rej ?_ (pureGo_no_push _ _ _ _ _ (Or.inr (Or.inr ⟨_, by
                    rw [hplan, planEsc_bad _ e _ hse ho' hx hX hu hU]⟩)))
                  simp [pstrGo, hcq, hse, ho', hx, hX, hu, hU]
      · -- a raw byte
        refine agree_of_eq (s' := 0) (l' := bs) (acc' := acc ++ [c]) ?_ ?_ (ih hbs 0 (acc ++ [c]))
        · simp [pstrGo, h0, h10, hcq, h92]
        · rw [List.map_cons, pureGo_push _ _ _ _ _ 1 (enc c.toNat) (strPlan_raw _ c _ h10 hcq' h0 h92)]
          have : enc c.toNat = [c] := enc_asR c hc
          rw [this]


end PCV.Lemmas.StrSim
