/-
Lemmas about the token-stream model: monotone ends, tiling, fuses do not move ends.
-/
import PCV.Model.TokenStream
namespace PCV.TokenStream

/-- newest-first list whose ends never decrease in push order -/
def Mono : List Tok → Prop
  | [] => True
  | t :: ts => lastEnd ts ≤ t.end_ ∧ Mono ts

/-- in-order list whose ends never decrease, starting from `prev` -/
def MonoFrom : Nat → List Tok → Prop
  | _, [] => True
  | prev, t :: ts => prev ≤ t.end_ ∧ MonoFrom t.end_ ts

/-- end of the last token of an in-order list (or `prev`) -/
def lastIn : Nat → List Tok → Nat
  | prev, [] => prev
  | _, t :: ts => lastIn t.end_ ts

theorem take_drop_append (l : Bytes) (a b c : Nat) (hab : a ≤ b) (hbc : b ≤ c) :
    (l.drop a).take (b - a) ++ (l.drop b).take (c - b) = (l.drop a).take (c - a) := by
  have h1 : l.drop b = (l.drop a).drop (b - a) := by
    rw [List.drop_drop]; congr 1; omega
  have h2 : c - a = (b - a) + (c - b) := by omega
  rw [h1, h2, List.take_add]

theorem monoFrom_lastIn (prev : Nat) (ts : List Tok) (h : MonoFrom prev ts) : prev ≤ lastIn prev ts := by
  induction ts generalizing prev with
  | nil => simp [lastIn]
  | cons t ts ih =>
    simp only [MonoFrom] at h
    simp only [lastIn]
    have := ih t.end_ h.2
    omega

/-- tiling from `prev`: the texts of the tokens concatenate to `text[prev : lastEnd]` -/
theorem tiles_from (text : Bytes) (prev : Nat) (ts : List Tok) (h : MonoFrom prev ts) :
    ((spansFrom prev ts).map (slice text)).flatten = (text.drop prev).take (lastIn prev ts - prev) := by
  induction ts generalizing prev with
  | nil => simp [spansFrom, lastIn]
  | cons t ts ih =>
    simp only [MonoFrom] at h
    simp only [spansFrom, List.map_cons, List.flatten_cons, lastIn, slice]
    rw [ih t.end_ h.2]
    exact take_drop_append text prev t.end_ (lastIn t.end_ ts) h.1 (monoFrom_lastIn _ _ h.2)

theorem monoFrom_append (prev : Nat) (ts : List Tok) (t : Tok) :
    MonoFrom prev (ts ++ [t]) ↔ MonoFrom prev ts ∧ lastIn prev ts ≤ t.end_ := by
  induction ts generalizing prev with
  | nil => simp [MonoFrom, lastIn]
  | cons u us ih =>
    simp only [List.cons_append, MonoFrom, lastIn, ih]
    constructor
    · rintro ⟨h1, h2, h3⟩; exact ⟨⟨h1, h2⟩, h3⟩
    · rintro ⟨⟨h1, h2⟩, h3⟩; exact ⟨h1, h2, h3⟩

theorem lastIn_append (prev : Nat) (ts : List Tok) (t : Tok) : lastIn prev (ts ++ [t]) = t.end_ := by
  induction ts generalizing prev with
  | nil => simp [lastIn]
  | cons u us ih => simp only [List.cons_append, lastIn, ih]

theorem lastIn_reverse (ts : List Tok) : lastIn 0 ts.reverse = lastEnd ts := by
  cases ts with
  | nil => simp [lastIn, lastEnd]
  | cons t ts => simp [lastIn_append, lastEnd]

theorem mono_reverse (ts : List Tok) (h : Mono ts) : MonoFrom 0 ts.reverse := by
  induction ts with
  | nil => simp [MonoFrom]
  | cons t ts ih =>
    simp only [Mono] at h
    simp only [List.reverse_cons]
    rw [monoFrom_append]
    exact ⟨ih h.2, by rw [lastIn_reverse]; exact h.1⟩

/-- `MonoFrom`/`lastIn`/`spansFrom` only look at the ends -/
theorem monoFrom_congr (prev : Nat) (ts us : List Tok) (h : ts.map (·.end_) = us.map (·.end_)) :
    MonoFrom prev ts ↔ MonoFrom prev us := by
  induction ts generalizing prev us with
  | nil => cases us with
    | nil => simp
    | cons u us => simp at h
  | cons t ts ih =>
    cases us with
    | nil => simp at h
    | cons u us =>
      simp only [List.map_cons, List.cons.injEq] at h
      simp only [MonoFrom, h.1, ih _ us h.2]

theorem lastIn_congr (prev : Nat) (ts us : List Tok) (h : ts.map (·.end_) = us.map (·.end_)) :
    lastIn prev ts = lastIn prev us := by
  induction ts generalizing prev us with
  | nil => cases us with
    | nil => simp
    | cons u us => simp at h
  | cons t ts ih =>
    cases us with
    | nil => simp at h
    | cons u us =>
      simp only [List.map_cons, List.cons.injEq] at h
      simp only [lastIn, h.1, ih _ us h.2]

theorem spansFrom_congr (prev : Nat) (ts us : List Tok) (h : ts.map (·.end_) = us.map (·.end_)) :
    spansFrom prev ts = spansFrom prev us := by
  induction ts generalizing prev us with
  | nil => cases us with
    | nil => simp
    | cons u us => simp at h
  | cons t ts ih =>
    cases us with
    | nil => simp at h
    | cons u us =>
      simp only [List.map_cons, List.cons.injEq] at h
      simp only [spansFrom, h.1, ih _ us h.2]

/-! fuses keep the ends -/

theorem set_same {α} (l : List α) (i : Nat) (a : α) (h : l[i]? = some a) : l.set i a = l := by
  induction l generalizing i with
  | nil => simp
  | cons x xs ih =>
    cases i with
    | zero => simp at h; simp [h]
    | succ j => simp at h; simp [ih j h]

theorem fuseAt_ends (ts : List Tok) (a b : Nat) :
    (fuseAt ts a b).1.map (·.end_) = ts.map (·.end_) := by
  unfold fuseAt
  split
  · next ta tb ha hb =>
    split
    · rfl
    · simp only [List.map_set, fuseTok]
      have h1 : ts[a-1]? = some ta := ha
      have h2 : ts[b-1]? = some tb := hb
      rw [set_same (ts.map (·.end_)) (a-1) ta.end_ (by simp [List.getElem?_map, h1])]
      rw [set_same (ts.map (·.end_)) (b-1) tb.end_ (by simp [List.getElem?_map, h2])]
  · rfl

theorem fuseAll_ends (ts : List Tok) (ps : List (Nat × Nat)) :
    (fuseAll ts ps).1.map (·.end_) = ts.map (·.end_) := by
  induction ps generalizing ts with
  | nil => simp [fuseAll]
  | cons p ps ih =>
    obtain ⟨a, b⟩ := p
    simp only [fuseAll]
    rw [ih, fuseAt_ends]

/-! pushes -/

theorem rawPush_mono (n : Nat) (s : LS) (len kind kw : Nat) (h : Mono s.toks) :
    Mono (rawPush n s len kind kw).toks := by
  unfold rawPush
  split
  · exact h
  · simp [Mono, h]

theorem flush_mono (n : Nat) (s : LS) (h : Mono s.toks) : Mono (flush n s).toks := by
  unfold flush
  split
  · exact rawPush_mono n s _ _ _ h
  · exact h

theorem push_mono (n : Nat) (s : LS) (len kind kw : Nat) (h : Mono s.toks) :
    Mono (push n s len kind kw).toks := by
  unfold push
  exact rawPush_mono n _ _ _ _ (flush_mono n s h)

end PCV.TokenStream
