/-
Lemmas for Props/C01: the range algorithms of parser/validate.go (sort + adjacent sweep,
two-pointer merge, binary search) are sound and complete w.r.t. their declarative meaning.
-/
import PCV.Spec.MiniProto
namespace PCV.MiniProto
open PCV.MiniProto.Spec

/-! ## the order used by `sort.Sort` -/

theorem TagRange.le_iff (a b : TagRange) :
    a.le b = true ↔ a.start < b.start ∨ (a.start = b.start ∧ a.stop ≤ b.stop) := by
  unfold TagRange.le TagRange.less
  simp only [Bool.not_eq_true', Bool.or_eq_false_iff, Bool.and_eq_false_iff, decide_eq_false_iff_not,
    beq_eq_false_iff_ne, ne_eq]
  constructor
  · rintro ⟨h1, h2⟩
    rcases h2 with h2 | h2 <;> omega
  · intro h
    constructor
    · omega
    · by_cases h3 : b.start = a.start
      · right; omega
      · left; exact h3

theorem TagRange.le_total (a b : TagRange) : a.le b = true ∨ b.le a = true := by
  rw [TagRange.le_iff, TagRange.le_iff]; omega

theorem TagRange.le_trans {a b c : TagRange} (h1 : a.le b = true) (h2 : b.le c = true) : a.le c = true := by
  rw [TagRange.le_iff] at *; omega

theorem TagRange.le_start {a b : TagRange} (h : a.le b = true) : a.start ≤ b.start := by
  rw [TagRange.le_iff] at h; omega

/-- the list is sorted the way `sort.Sort(tagRanges)` leaves it -/
def Sorted (l : List TagRange) : Prop := l.Pairwise (fun a b => a.le b = true)

theorem insertRange_perm (x : TagRange) (l : List TagRange) : (insertRange x l).Perm (x :: l) := by
  induction l with
  | nil => simp [insertRange]
  | cons y ys ih =>
    unfold insertRange
    split
    · exact List.Perm.refl _
    · exact (List.Perm.cons y ih).trans (List.Perm.swap x y ys)

theorem sortRanges_perm (l : List TagRange) : (sortRanges l).Perm l := by
  induction l with
  | nil => simp [sortRanges]
  | cons x xs ih =>
    unfold sortRanges
    exact (insertRange_perm x _).trans (List.Perm.cons x ih)

theorem insertRange_sorted (x : TagRange) (l : List TagRange) (h : Sorted l) : Sorted (insertRange x l) := by
  induction l with
  | nil => simp [insertRange, Sorted]
  | cons y ys ih =>
    unfold insertRange
    have hy := List.pairwise_cons.mp h
    split
    · rename_i hxy
      refine List.pairwise_cons.mpr ⟨?_, h⟩
      intro b hb
      rcases List.mem_cons.mp hb with rfl | hb
      · exact hxy
      · exact TagRange.le_trans hxy (hy.1 b hb)
    · rename_i hxy
      have hyx : y.le x = true := by
        rcases TagRange.le_total x y with h' | h'
        · exact absurd h' hxy
        · exact h'
      refine List.pairwise_cons.mpr ⟨?_, ih hy.2⟩
      intro b hb
      have := (insertRange_perm x ys).mem_iff.mp hb
      rcases List.mem_cons.mp this with rfl | hb'
      · exact hyx
      · exact hy.1 b hb'

theorem sortRanges_sorted (l : List TagRange) : Sorted (sortRanges l) := by
  induction l with
  | nil => simp [sortRanges, Sorted]
  | cons x xs ih => unfold sortRanges; exact insertRange_sorted x _ ih

/-! ## relations -/

/-- the relation of `RangesOverlap incl` -/
def Rel (incl : Bool) : TagRange → TagRange → Prop := if incl then overlapsIncl else overlaps

theorem Rel_symm (incl : Bool) {a b : TagRange} (h : Rel incl a b) : Rel incl b a := by
  cases incl <;> simp only [Rel, overlaps, overlapsIncl, Bool.false_eq_true, if_false, if_true] at * <;> omega

theorem somePair_perm {l l' : List TagRange} (incl : Bool) (p : l.Perm l') :
    SomePair (Rel incl) l ↔ SomePair (Rel incl) l' := by
  unfold SomePair
  rw [List.Perm.pairwise_iff (fun {x y} h hr => h (Rel_symm incl hr)) p]

theorem rangesOverlap_eq (incl : Bool) (rs : List TagRange) :
    RangesOverlap incl rs ↔ SomePair (Rel incl) rs := by
  unfold RangesOverlap Rel
  cases incl <;> simp

/-! ## the adjacent sweep -/

/-- the sweep condition between neighbours -/
def Adj (incl : Bool) (a b : TagRange) : Prop := if incl then b.start ≤ a.stop else b.start < a.stop

theorem adjSweep_cons2 (incl : Bool) (a b : TagRange) (rest : List TagRange) :
    adjSweep incl (a :: b :: rest) = true ↔ Adj incl a b ∨ adjSweep incl (b :: rest) = true := by
  rw [adjSweep]
  unfold Adj
  cases incl <;> simp

theorem somePair_cons {α : Type} (R : α → α → Prop) (a : α) (l : List α) :
    SomePair R (a :: l) ↔ (∃ b ∈ l, R a b) ∨ SomePair R l := by
  unfold SomePair
  rw [List.pairwise_cons]
  constructor
  · intro h
    by_cases h1 : ∃ b ∈ l, R a b
    · left; exact h1
    · right
      intro hp
      apply h
      refine ⟨?_, hp⟩
      intro b hb hr
      exact h1 ⟨b, hb, hr⟩
  · rintro (⟨b, hb, hr⟩ | h) hp
    · exact hp.1 b hb hr
    · exact h hp.2

/-- Sorted + adjacent sweep: complete and sound w.r.t. "some pair overlaps" -/
theorem adjSweep_iff (incl : Bool) : ∀ (l : List TagRange), Sorted l → (∀ r ∈ l, RangeWf incl r) →
    (adjSweep incl l = true ↔ SomePair (Rel incl) l)
  | [], _, _ => by simp [adjSweep, SomePair]
  | [a], _, _ => by simp [adjSweep, SomePair]
  | a :: b :: rest, hs, hw => by
    rw [adjSweep_cons2, somePair_cons]
    have hs' := List.pairwise_cons.mp hs
    have ih := adjSweep_iff incl (b :: rest) hs'.2 (fun r hr => hw r (List.mem_cons_of_mem _ hr))
    rw [ih]
    have hab := TagRange.le_start (hs'.1 b (List.mem_cons_self ..))
    have hwa := hw a (List.mem_cons_self ..)
    have hwb := hw b (List.mem_cons_of_mem _ (List.mem_cons_self ..))
    constructor
    · rintro (h | h)
      · left
        refine ⟨b, List.mem_cons_self .., ?_⟩
        cases incl <;> simp only [Adj, Rel, RangeWf, overlaps, overlapsIncl, Bool.false_eq_true, if_false, if_true] at * <;> omega
      · right; exact h
    · rintro (⟨c, hc, hr⟩ | h)
      · left
        have hbc : b.start ≤ c.start := by
          rcases List.mem_cons.mp hc with rfl | hc'
          · omega
          · exact TagRange.le_start ((List.pairwise_cons.mp hs'.2).1 c hc')
        cases incl <;> simp only [Adj, Rel, RangeWf, overlaps, overlapsIncl, Bool.false_eq_true, if_false, if_true] at * <;> omega
      · right; exact h

theorem wf_perm {incl : Bool} {l l' : List TagRange} (p : l.Perm l') (h : ∀ r ∈ l, RangeWf incl r) :
    ∀ r ∈ l', RangeWf incl r := fun r hr => h r (p.mem_iff.mpr hr)

/-- **reserved / extension ranges overlap**: what validateMessage / validateEnum compute
    (sort, then compare neighbours) is exactly "some two declared ranges overlap" -/
theorem rangesOverlapGo_iff (incl : Bool) (rs : List TagRange) (hw : ∀ r ∈ rs, RangeWf incl r) :
    rangesOverlapGo incl rs = true ↔ RangesOverlap incl rs := by
  unfold rangesOverlapGo
  rw [adjSweep_iff incl _ (sortRanges_sorted rs) (wf_perm (sortRanges_perm rs).symm hw),
    rangesOverlap_eq, somePair_perm incl (sortRanges_perm rs)]

/-! ## the two-pointer merge -/

theorem mergeHit_iff {r e : TagRange} (hr : RangeWf false r) (he : RangeWf false e) :
    mergeHit r e = true ↔ overlaps r e := by
  unfold mergeHit overlaps
  simp only [RangeWf, Bool.false_eq_true, if_false] at hr he
  simp only [Bool.or_eq_true, Bool.and_eq_true, decide_eq_true_eq]
  omega

/-- sorted by start (all that the merge needs) -/
def SortedStart (l : List TagRange) : Prop := l.Pairwise (fun a b => a.start ≤ b.start)

theorem Sorted.sortedStart {l : List TagRange} (h : Sorted l) : SortedStart l :=
  List.Pairwise.imp (fun h => TagRange.le_start h) h

theorem extRsvd_cons_cons (r e : TagRange) (rs es : List TagRange) :
    ExtRsvdOverlap (r :: rs) (e :: es) ↔
      overlaps r e ∨ (∃ e' ∈ es, overlaps r e') ∨ (∃ r' ∈ rs, overlaps r' e) ∨ ExtRsvdOverlap rs es := by
  unfold ExtRsvdOverlap
  constructor
  · rintro ⟨r', hr', e', he', h⟩
    rcases List.mem_cons.mp hr' with rfl | hr' <;> rcases List.mem_cons.mp he' with rfl | he'
    · left; exact h
    · right; left; exact ⟨e', he', h⟩
    · right; right; left; exact ⟨r', hr', h⟩
    · right; right; right; exact ⟨r', hr', e', he', h⟩
  · rintro (h | ⟨e', he', h⟩ | ⟨r', hr', h⟩ | ⟨r', hr', e', he', h⟩)
    · exact ⟨r, List.mem_cons_self .., e, List.mem_cons_self .., h⟩
    · exact ⟨r, List.mem_cons_self .., e', List.mem_cons_of_mem _ he', h⟩
    · exact ⟨r', List.mem_cons_of_mem _ hr', e, List.mem_cons_self .., h⟩
    · exact ⟨r', List.mem_cons_of_mem _ hr', e', List.mem_cons_of_mem _ he', h⟩

/-- the advance-by-smaller-start merge over two lists sorted by start reports iff some reserved
    range overlaps some extension range (no disjointness hypothesis is needed) -/
theorem mergeSweep_iff : ∀ (rs es : List TagRange), SortedStart rs → SortedStart es →
    (∀ r ∈ rs, RangeWf false r) → (∀ e ∈ es, RangeWf false e) →
    (mergeSweep rs es = true ↔ ExtRsvdOverlap rs es) := by
  intro rs es
  induction rs, es using mergeSweep.induct with
  | case1 es => intro _ _ _ _; simp [mergeSweep, ExtRsvdOverlap]
  | case2 r rs => intro _ _ _ _; simp [mergeSweep, ExtRsvdOverlap]
  | case3 r rs e es ih1 ih2 =>
    intro hsr hse hwr hwe
    have hr := hwr r (List.mem_cons_self ..)
    have he := hwe e (List.mem_cons_self ..)
    rw [mergeSweep]
    by_cases hlt : r.start < e.start
    · simp only [hlt, if_true, Bool.or_eq_true]
      rw [mergeHit_iff hr he, ih1 (List.pairwise_cons.mp hsr).2 hse (fun x hx => hwr x (List.mem_cons_of_mem _ hx)) hwe,
        extRsvd_cons_cons]
      constructor
      · rintro (h | h)
        · left; exact h
        · right
          rcases h with ⟨r', hr', e', he', h⟩
          rcases List.mem_cons.mp he' with rfl | he''
          · right; left; exact ⟨r', hr', h⟩
          · right; right; exact ⟨r', hr', e', he'', h⟩
      · rintro (h | ⟨e', he', h⟩ | ⟨r', hr', h⟩ | ⟨r', hr', e', he', h⟩)
        · left; exact h
        · -- r overlaps a later extension range: then it already overlaps e
          left
          have := (List.pairwise_cons.mp hse).1 e' he'
          simp only [RangeWf, Bool.false_eq_true, if_false, overlaps] at *
          omega
        · right; exact ⟨r', hr', e, List.mem_cons_self .., h⟩
        · right; exact ⟨r', hr', e', List.mem_cons_of_mem _ he', h⟩
    · simp only [hlt, if_false, Bool.or_eq_true]
      rw [mergeHit_iff hr he, ih2 hsr (List.pairwise_cons.mp hse).2 hwr (fun x hx => hwe x (List.mem_cons_of_mem _ hx)),
        extRsvd_cons_cons]
      constructor
      · rintro (h | h)
        · left; exact h
        · right
          rcases h with ⟨r', hr', e', he', h⟩
          rcases List.mem_cons.mp hr' with rfl | hr''
          · left; exact ⟨e', he', h⟩
          · right; right; exact ⟨r', hr'', e', he', h⟩
      · rintro (h | ⟨e', he', h⟩ | ⟨r', hr', h⟩ | ⟨r', hr', e', he', h⟩)
        · left; exact h
        · right; exact ⟨r, List.mem_cons_self .., e', he', h⟩
        · left
          have := (List.pairwise_cons.mp hsr).1 r' hr'
          simp only [RangeWf, Bool.false_eq_true, if_false, overlaps] at *
          omega
        · right; exact ⟨r', List.mem_cons_of_mem _ hr', e', he', h⟩

theorem extRsvd_perm {rs rs' es es' : List TagRange} (p : rs.Perm rs') (q : es.Perm es') :
    ExtRsvdOverlap rs es ↔ ExtRsvdOverlap rs' es' := by
  unfold ExtRsvdOverlap
  constructor
  · rintro ⟨r, hr, e, he, h⟩; exact ⟨r, p.mem_iff.mp hr, e, q.mem_iff.mp he, h⟩
  · rintro ⟨r, hr, e, he, h⟩; exact ⟨r, p.mem_iff.mpr hr, e, q.mem_iff.mpr he, h⟩

/-- **extension range overlaps reserved range**: validateMessage's two-pointer loop -/
theorem extRsvdOverlapGo_iff (rsvd exts : List TagRange)
    (hr : ∀ r ∈ rsvd, RangeWf false r) (he : ∀ e ∈ exts, RangeWf false e) :
    extRsvdOverlapGo rsvd exts = true ↔ ExtRsvdOverlap rsvd exts := by
  unfold extRsvdOverlapGo
  rw [mergeSweep_iff _ _ (sortRanges_sorted rsvd).sortedStart (sortRanges_sorted exts).sortedStart
      (wf_perm (sortRanges_perm rsvd).symm hr) (wf_perm (sortRanges_perm exts).symm he)]
  exact extRsvd_perm (sortRanges_perm rsvd) (sortRanges_perm exts)

/-! ## binary search -/

/-- `f` is monotone: false … false true … true -/
def Mono (f : Nat → Bool) : Prop := ∀ i j, i ≤ j → f i = true → f j = true

/-- `sort.Search`'s loop keeps "everything left of `i` is false, everything from `j` on is true"
    and ends with `i = j` -/
theorem searchLoop_spec (f : Nat → Bool) (hm : Mono f) :
    ∀ (fuel i j : Nat), i ≤ j → j - i ≤ fuel →
      (∀ k, k < i → f k = false) → (∀ k, j ≤ k → f k = true) →
      (∀ k, k < searchLoop f fuel i j → f k = false) ∧ (∀ k, searchLoop f fuel i j ≤ k → f k = true) ∧
        i ≤ searchLoop f fuel i j ∧ searchLoop f fuel i j ≤ j := by
  intro fuel
  induction fuel with
  | zero =>
    intro i j hij hf hl hr
    have : i = j := by omega
    subst this
    simp only [searchLoop]
    exact ⟨hl, hr, Nat.le_refl _, Nat.le_refl _⟩
  | succ fuel ih =>
    intro i j hij hf hl hr
    simp only [searchLoop]
    by_cases hlt : i < j
    · simp only [hlt, if_true]
      by_cases hfh : f ((i + j) / 2) = true
      · simp only [hfh, Bool.not_true, Bool.false_eq_true, if_false]
        have := ih i ((i + j) / 2) (by omega) (by omega) hl
          (fun k hk => hm _ _ hk hfh)
        exact ⟨this.1, this.2.1, this.2.2.1, by omega⟩
      · have hfh' : f ((i + j) / 2) = false := by simpa using hfh
        simp only [hfh', Bool.not_false, if_true]
        have := ih ((i + j) / 2 + 1) j (by omega) (by omega)
          (fun k hk => by
            cases hfk : f k with
            | false => rfl
            | true =>
              have := hm k ((i + j) / 2) (by omega) hfk
              rw [hfh'] at this; exact absurd this (by simp))
          hr
        exact ⟨this.1, this.2.1, by omega, this.2.2.2⟩
    · have : i = j := by omega
      subst this
      simp only [hlt, if_false]
      exact ⟨hl, hr, Nat.le_refl _, Nat.le_refl _⟩

/-- `goSearch n f` is the least index with `f` true when `f` is monotone and true from `n` on -/
theorem goSearch_spec (n : Nat) (f : Nat → Bool) (hm : Mono f) (hn : ∀ k, n ≤ k → f k = true) :
    (∀ k, k < goSearch n f → f k = false) ∧ (∀ k, goSearch n f ≤ k → f k = true) ∧ goSearch n f ≤ n := by
  unfold goSearch
  have := searchLoop_spec f hm (n + 1) 0 n (Nat.zero_le _) (by omega) (fun k hk => by omega) hn
  exact ⟨this.1, this.2.1, this.2.2.2⟩

/-- sorted and pairwise disjoint: what the sorted list looks like once the overlap sweep passed -/
def Chain (incl : Bool) (l : List TagRange) : Prop :=
  l.Pairwise (fun a b => if incl then a.stop < b.start else a.stop ≤ b.start)

/-- a sorted list of well-formed ranges without overlapping pair is a chain -/
theorem chain_of_sorted (incl : Bool) (l : List TagRange) (hs : Sorted l) (hw : ∀ r ∈ l, RangeWf incl r)
    (hn : ¬ SomePair (Rel incl) l) : Chain incl l := by
  unfold SomePair at hn
  have hn' : l.Pairwise (fun a b => ¬ Rel incl a b) := Classical.not_not.mp hn
  have h3 : l.Pairwise (fun a b => RangeWf incl a ∧ RangeWf incl b) := by
    rw [List.pairwise_iff_forall_sublist]
    intro a b hab
    have ha : a ∈ l := hab.subset (by simp)
    have hb : b ∈ l := hab.subset (by simp)
    exact ⟨hw a ha, hw b hb⟩
  have := (hs.and hn').and h3
  refine List.Pairwise.imp ?_ this
  rintro a b ⟨⟨h1, h2⟩, h3, h4⟩
  have := TagRange.le_start h1
  cases incl <;> simp only [Rel, RangeWf, overlaps, overlapsIncl, Bool.false_eq_true, if_false, if_true] at * <;> omega

theorem getElem?_mem' {α : Type} {l : List α} {i : Nat} {a : α} (h : l[i]? = some a) : a ∈ l :=
  List.mem_of_getElem? h

/-- in a chain, an earlier entry ends before a later one starts -/
theorem chain_get (incl : Bool) {l : List TagRange} (hc : Chain incl l) {i j : Nat} {a b : TagRange}
    (hij : i < j) (ha : l[i]? = some a) (hb : l[j]? = some b) :
    if incl then a.stop < b.start else a.stop ≤ b.start := by
  unfold Chain at hc
  rw [List.pairwise_iff_getElem] at hc
  have hi : i < l.length := by
    rcases Nat.lt_or_ge i l.length with h | h
    · exact h
    · rw [List.getElem?_eq_none h] at ha; exact absurd ha (by simp)
  have hj : j < l.length := by
    rcases Nat.lt_or_ge j l.length with h | h
    · exact h
    · rw [List.getElem?_eq_none h] at hb; exact absurd hb (by simp)
  have := hc i j hi hj hij
  rw [List.getElem?_eq_getElem hi] at ha
  rw [List.getElem?_eq_getElem hj] at hb
  cases ha; cases hb
  exact this

/-- the binary search of validateMessage / validateEnum over a chain finds the range holding `n`,
    if there is one -/
theorem binHit_iff (incl : Bool) (l : List TagRange) (n : Int) (hc : Chain incl l)
    (hw : ∀ r ∈ l, RangeWf incl r) : binHit incl l n = true ↔ InRanges incl l n := by
  unfold binHit
  generalize hf : searchPred incl l n = f
  have hfn : ∀ k, l.length ≤ k → f k = true := by
    intro k hk
    rw [← hf]
    simp only [searchPred, List.getElem?_eq_none hk]
  have hmono : Mono f := by
    intro i j hij hi
    rw [← hf] at hi ⊢
    simp only [searchPred] at hi ⊢
    cases hj : l[j]? with
    | none => rfl
    | some b =>
      cases hi' : l[i]? with
      | none =>
        have : l.length ≤ i := by
          rcases Nat.lt_or_ge i l.length with h | h
          · rw [List.getElem?_eq_getElem h] at hi'; exact absurd hi' (by simp)
          · exact h
        rw [List.getElem?_eq_none (by omega)] at hj
        exact absurd hj (by simp)
      | some a =>
        rw [hi'] at hi
        simp only at hi ⊢
        rcases Nat.lt_or_ge i j with hlt | hge
        · have h1 := chain_get incl hc hlt hi' hj
          have h2 := hw b (getElem?_mem' hj)
          cases incl <;> simp only [RangeWf, Bool.false_eq_true, if_false, if_true, decide_eq_true_eq] at * <;> omega
        · have : i = j := by omega
          subst this
          rw [hi'] at hj; cases hj
          exact hi
  have hspec := goSearch_spec l.length f hmono hfn
  constructor
  · intro h
    cases hr : l[goSearch l.length f]? with
    | none => rw [hr] at h; exact absurd h (by simp)
    | some x =>
      rw [hr] at h
      simp only [decide_eq_true_eq] at h
      have hfr := hspec.2.1 (goSearch l.length f) (Nat.le_refl _)
      rw [← hf] at hfr
      rw [← hf] at hr
      simp only [searchPred, hr] at hfr
      refine ⟨x, getElem?_mem' hr, h, ?_⟩
      cases incl <;> simp only [Bool.false_eq_true, if_false, if_true, decide_eq_true_eq] at * <;> omega
  · rintro ⟨x, hx, h1, h2⟩
    obtain ⟨k, hk⟩ := List.getElem?_of_mem hx
    have hfk : f k = true := by
      rw [← hf]
      simp only [searchPred, hk]
      cases incl <;> simp only [Bool.false_eq_true, if_false, if_true, decide_eq_true_eq] at * <;> omega
    have hle : goSearch l.length f ≤ k := by
      rcases Nat.lt_or_ge k (goSearch l.length f) with h | h
      · have := hspec.1 k h; rw [hfk] at this; exact absurd this (by simp)
      · exact h
    rcases Nat.lt_or_ge (goSearch l.length f) k with hlt | hge
    · -- an earlier range with `stop > n` would have to end before x starts
      have hklen : k < l.length := by
        rcases Nat.lt_or_ge k l.length with h | h
        · exact h
        · rw [List.getElem?_eq_none h] at hk; exact absurd hk (by simp)
      have hglen : goSearch l.length f < l.length := by omega
      have hg := List.getElem?_eq_getElem hglen
      have hfr := hspec.2.1 (goSearch l.length f) (Nat.le_refl _)
      have hch := chain_get incl hc hlt hg hk
      rw [← hf] at hfr
      simp only [searchPred] at hfr
      rw [hf] at hfr
      simp only [hg] at hfr
      exfalso
      cases incl <;> simp only [Bool.false_eq_true, if_false, if_true, decide_eq_true_eq] at * <;> omega
    · have : goSearch l.length f = k := by omega
      rw [this, hk]
      simpa using h1

theorem inRanges_perm {incl : Bool} {l l' : List TagRange} (p : l.Perm l') (n : Int) :
    InRanges incl l n ↔ InRanges incl l' n := by
  unfold InRanges
  constructor
  · rintro ⟨r, hr, h⟩; exact ⟨r, p.mem_iff.mp hr, h⟩
  · rintro ⟨r, hr, h⟩; exact ⟨r, p.mem_iff.mpr hr, h⟩

/-- **field number in a reserved / extension range** (and enum value in a reserved range): the
    binary search over the sorted ranges is exact once the ranges are well-formed and no two of
    them overlap (which the earlier sweep has checked) -/
theorem inRangesGo_iff (incl : Bool) (rs : List TagRange) (n : Int)
    (hw : ∀ r ∈ rs, RangeWf incl r) (hn : ¬ RangesOverlap incl rs) :
    inRangesGo incl rs n = true ↔ InRanges incl rs n := by
  unfold inRangesGo
  have hw' := wf_perm (sortRanges_perm rs).symm hw
  have hn' : ¬ SomePair (Rel incl) (sortRanges rs) := by
    rw [somePair_perm incl (sortRanges_perm rs), ← rangesOverlap_eq]; exact hn
  rw [binHit_iff incl _ n (chain_of_sorted incl _ (sortRanges_sorted rs) hw' hn') hw']
  exact inRanges_perm (sortRanges_perm rs) n

end PCV.MiniProto
